/-
  Proofs/GraphOps.lean — lemmas about local complementation, relabelling and the orbit explorers.
-/
import GraphiqModel.Model.GraphOps
import GraphiqModel.Proofs.Bits
namespace Graphiq

/-! ### tabulation is the identity below the bounds -/

theorem lookup2_ofFn (r c : Nat) (f : Nat → Nat → Bool) (i j : Nat) (hi : i < r) (hj : j < c) :
    lookup2 (Array.ofFn (n := r) fun i => Array.ofFn (n := c) fun j => f i.val j.val) i j = f i j := by
  simp [lookup2, Array.getD, hi, hj]

theorem BMat.norm_agree (m : BMat) (i j : Nat) (hi : i < m.r) (hj : j < m.c) : m.norm.f i j = m.f i j := by
  simp only [BMat.norm]
  exact lookup2_ofFn m.r m.c m.f i j hi hj

@[simp] theorem BMat.norm_r (m : BMat) : m.norm.r = m.r := rfl
@[simp] theorem BMat.norm_c (m : BMat) : m.norm.c = m.c := rfl

/-! ### simple graphs, pointwise equality -/

/-- symmetric with an empty diagonal, on the vertices `0..n-1` -/
def Simple (n : Nat) (A : Adj) : Prop :=
  (∀ i j, i < n → j < n → A i j = A j i) ∧ (∀ i, i < n → A i i = false)

/-- equality of two adjacency matrices on the vertices `0..n-1` -/
def EqAdj (n : Nat) (A B : Adj) : Prop := ∀ i j, i < n → j < n → A i j = B i j

theorem EqAdj.refl (n : Nat) (A : Adj) : EqAdj n A A := fun _ _ _ _ => rfl
theorem EqAdj.symm {n : Nat} {A B : Adj} (h : EqAdj n A B) : EqAdj n B A := fun i j hi hj => (h i j hi hj).symm
theorem EqAdj.trans {n : Nat} {A B C : Adj} (h1 : EqAdj n A B) (h2 : EqAdj n B C) : EqAdj n A C :=
  fun i j hi hj => (h1 i j hi hj).trans (h2 i j hi hj)

theorem Simple.congr {n : Nat} {A B : Adj} (hA : Simple n A) (h : EqAdj n A B) : Simple n B :=
  ⟨fun i j hi hj => by rw [← h i j hi hj, ← h j i hj hi]; exact hA.1 i j hi hj,
   fun i hi => by rw [← h i i hi hi]; exact hA.2 i hi⟩

/-! ### local complementation: the specification -/

/-- local complementation toggles exactly the pairs of distinct neighbours of `v` -/
theorem localComp_toggle (A : Adj) (v i j : Nat) (hd : A i i = false ∨ i ≠ j) :
    localComp A v i j = xor (A i j) (decide (i ≠ j) && (A i v && A v j)) := by
  unfold localComp
  by_cases h : i = j
  · subst h
    rcases hd with hd | hd
    · simp [hd]
    · exact absurd rfl hd
  · simp [h]

theorem localComp_simple (n : Nat) (A : Adj) (v : Nat) (hv : v < n) (hA : Simple n A) : Simple n (localComp A v) := by
  refine ⟨fun i j hi hj => ?_, fun i _ => ?_⟩
  · unfold localComp
    by_cases h : i = j
    · subst h; rfl
    · have h' : ¬ j = i := fun e => h e.symm
      simp only [h, h', if_false]
      rw [hA.1 i j hi hj, hA.1 i v hi hv, hA.1 v j hv hj, Bool.and_comm]
  · simp [localComp]

theorem localComp_congr (n : Nat) (A B : Adj) (v : Nat) (hv : v < n) (h : EqAdj n A B) :
    EqAdj n (localComp A v) (localComp B v) := by
  intro i j hi hj
  unfold localComp
  rw [h i j hi hj, h i v hi hv, h v j hv hj]

/-- local complementation is an involution (on graphs without a loop at `v`) -/
theorem localComp_involution (A : Adj) (v : Nat) (hvv : A v v = false) (i j : Nat) (hij : i ≠ j) :
    localComp (localComp A v) v i j = A i j := by
  have e1 : localComp A v i v = A i v := by
    unfold localComp
    by_cases h : i = v
    · subst h; simp [hvv]
    · simp [h, hvv]
  have e2 : localComp A v v j = A v j := by
    unfold localComp
    by_cases h : v = j
    · subst h; simp [hvv]
    · simp [h, hvv]
  have e3 : localComp A v i j = xor (A i j) (A i v && A v j) := by simp [localComp, hij]
  show (if i = j then false else xor (localComp A v i j) (localComp A v i v && localComp A v v j)) = A i j
  rw [e1, e2, e3]
  simp only [hij, if_false]
  cases A i j <;> cases A i v <;> cases A v j <;> rfl

theorem localComp_involution_simple (n : Nat) (A : Adj) (v : Nat) (hv : v < n) (hA : Simple n A) :
    EqAdj n (localComp (localComp A v) v) A := by
  intro i j hi _
  by_cases h : i = j
  · subst h
    rw [hA.2 i hi]; simp [localComp]
  · exact localComp_involution A v (hA.2 v hv) i j h

/-! ### the matrix formula of `local_comp_graph` / `_apply_f` -/

theorem parityTo_and_left (n : Nat) (a : Nat → Bool) (f g : Nat → Bool) :
    parityTo n (fun k => a k && xor (f k) (g k)) = xor (parityTo n fun k => a k && f k) (parityTo n fun k => a k && g k) := by
  rw [← parityTo_xor]
  apply parityTo_congr
  intro k _
  cases a k <;> cases f k <;> cases g k <;> rfl

theorem parityTo_single' (n q : Nat) (f : Nat → Bool) (hq : q < n) (h : ∀ j, j ≠ q → f j = false) :
    parityTo n f = f q := by
  rw [← parityTo_single n q f hq]
  apply parityTo_congr
  intro j _
  by_cases e : j = q
  · subst e; simp
  · simp [e, h j e]

theorem gammaMul (n : Nat) (M : Adj) (v k j : Nat) (hv : v < n) :
    matMul n (gammaM v) M k j = (decide (k = v) && M v j) := by
  unfold matMul gammaM
  rw [parityTo_single' n v _ hv]
  · simp
  · intro l hl; simp [hl]

/-- `(M (Γ_v M + M_vv Γ_v + I))_{ij} = M_ij + M_iv (M_vj + M_vv [j = v])` over GF(2) -/
theorem lcFormula_eq (n : Nat) (M : Adj) (v i j : Nat) (hv : v < n) (hj : j < n) :
    lcFormula n M v i j = xor (M i j) (M i v && xor (M v j) (M v v && decide (j = v))) := by
  unfold lcFormula matMul lcBracket
  have hb : ∀ k, k < n →
      (M i k && xor (xor (matMul n (gammaM v) M k j) (M v v && gammaM v k j)) (idM k j)) =
      xor (decide (k = v) && (M i k && xor (M v j) (M v v && decide (j = v)))) (decide (k = j) && M i k) := by
    intro k _
    rw [gammaMul n M v k j hv]
    unfold gammaM idM
    by_cases e1 : k = v
    · subst e1
      by_cases e2 : k = j
      · subst e2; cases M i k <;> cases M k k <;> simp
      · have e3 : ¬ j = k := fun e => e2 e.symm
        cases M i k <;> cases M k j <;> cases M k k <;> simp [e2, e3]
    · by_cases e2 : k = j
      · subst e2
        have e3 : ¬ v = k := fun e => e1 e.symm
        cases M i k <;> simp [e1]
      · simp [e1, e2]
  rw [parityTo_congr n _ _ hb, parityTo_xor, parityTo_single n v _ hv, parityTo_single n j _ hj]
  cases M i j <;> cases M i v <;> cases M v j <;> cases M v v <;> cases decide (j = v) <;> rfl

/-- `local_comp_graph` computes the neighbour toggle -/
theorem localCompGraph_eq (n : Nat) (A : Adj) (v : Nat) (hv : v < n) (hvv : A v v = false) :
    EqAdj n (localCompGraph n A v) (localComp A v) := by
  intro i j _ hj
  unfold localCompGraph localComp
  by_cases h : i = j
  · simp [h]
  · simp only [h, if_false]
    rw [lcFormula_eq n A v i j hv hj, hvv]
    simp

/-! ### `Graph.local_complementation`: toggling every pair of neighbours -/

theorem mem_filterTo (n : Nat) (f : Nat → Bool) (j : Nat) : j ∈ filterTo n f ↔ j < n ∧ f j = true := by
  simp [filterTo]

theorem nodup_filterTo (n : Nat) (f : Nat → Bool) : (filterTo n f).Nodup := by
  unfold filterTo
  exact List.Nodup.sublist List.filter_sublist List.nodup_range

/-- folding the toggles `(a, b)`, `b ∈ rest`, changes exactly the entries `{a, b}` -/
theorem fold_toggle_star (a : Nat) (rest : List Nat) (A : Adj) (i j : Nat) (ha : a ∉ rest) (hr : rest.Nodup) :
    (rest.map fun b => (a, b)).foldl (fun acc p => toggleEdge acc p.1 p.2) A i j =
      xor (A i j) ((decide (i = a) && decide (j ∈ rest)) || (decide (j = a) && decide (i ∈ rest))) := by
  induction rest generalizing A with
  | nil => simp
  | cons b t ih =>
    have hb : a ≠ b := fun e => ha (by simp [e])
    have hat : a ∉ t := fun e => ha (List.mem_cons_of_mem _ e)
    have hbt : b ∉ t := (List.nodup_cons.mp hr).1
    simp only [List.map_cons, List.foldl_cons]
    rw [ih (toggleEdge A a b) hat (List.nodup_cons.mp hr).2]
    unfold toggleEdge
    by_cases e1 : i = a <;> by_cases e2 : j = b <;> by_cases e3 : i = b <;> by_cases e4 : j = a <;>
      simp_all <;> (try (cases A i j <;> simp)) <;> (try omega)


/-- folding the toggles over all pairs of a duplicate-free list changes exactly the pairs of distinct members -/
theorem fold_toggle_combos (l : List Nat) (A : Adj) (i j : Nat) (hl : l.Nodup) :
    (combos2 l).foldl (fun acc p => toggleEdge acc p.1 p.2) A i j =
      xor (A i j) (decide (i ≠ j) && decide (i ∈ l) && decide (j ∈ l)) := by
  induction l generalizing A with
  | nil => simp [combos2]
  | cons a rest ih =>
    have ha : a ∉ rest := (List.nodup_cons.mp hl).1
    have hr : rest.Nodup := (List.nodup_cons.mp hl).2
    simp only [combos2, List.foldl_append]
    rw [ih _ hr, fold_toggle_star a rest A i j ha hr]
    by_cases e1 : i = a <;> by_cases e2 : j = a <;> by_cases e3 : i ∈ rest <;> by_cases e4 : j ∈ rest <;>
      simp_all <;> (try (cases A i j <;> simp)) <;> (try (intro e; simp_all)) <;>
      (try (have e5 : ¬ a = j := fun e => e2 e.symm; simp [e5])) <;>
      (try (have e6 : ¬ a = i := fun e => e1 e.symm; simp [e6]))

/-- `Graph.local_complementation` computes the neighbour toggle -/
theorem localCompPairs_eq (n : Nat) (A : Adj) (v : Nat) (hv : v < n) (hA : Simple n A) :
    EqAdj n (localCompPairs n A v) (localComp A v) := by
  intro i j hi hj
  unfold localCompPairs
  rw [fold_toggle_combos _ A i j (nodup_filterTo n _)]
  unfold localComp
  by_cases h : i = j
  · subst h; simp [hA.2 i hi]
  · simp only [h, if_false, mem_filterTo, hi, hj, true_and]
    rw [hA.1 i v hi hv]
    cases A v i <;> cases A v j <;> simp [h]


/-! ### relabelling -/

/-- a list of labels that is injective on `0..n-1` and has length `n` (a permutation given as a list) -/
def InjLabels (n : Nat) (p : List Nat) : Prop :=
  p.length = n ∧ ∀ i j, i < n → j < n → p[i]? = p[j]? → i = j

theorem perm2matrix_row (n : Nat) (p : List Nat) (hp : InjLabels n p) (u a : Nat) (hu : u < n)
    (ha : p[u]? = some a) (i : Nat) : perm2matrix p i a = if i = u then 1 else 0 := by
  unfold perm2matrix
  by_cases h : i = u
  · subst h; simp [ha]
  · simp only [h, if_false]
    by_cases hi : i < n
    · have : p[i]? ≠ some a := by
        intro e
        exact h (hp.2 i u hi hu (by rw [e, ha]))
      simp [this]
    · have : p[i]? = none := by
        apply List.getElem?_eq_none
        rw [hp.1]; omega
      simp [this]

/-- `relabel A p` has the edge `(p u, p v)` exactly when `A` has `(u, v)` -/
theorem relabel_perm (n : Nat) (A : Adj) (p : List Nat) (hp : InjLabels n p) (u v a b : Nat) (hu : u < n) (hv : v < n)
    (ha : p[u]? = some a) (hb : p[v]? = some b) :
    relabel n A p a b = Bool.toInt' (A u v) := by
  unfold relabel
  rw [sumTo_single n u _ hu]
  · rw [perm2matrix_row n p hp u a hu ha u, sumTo_single n v _ hv]
    · rw [perm2matrix_row n p hp v b hv hb v]; simp
    · intro j hj
      rw [perm2matrix_row n p hp v b hv hb j]; simp [hj]
  · intro i hi
    rw [perm2matrix_row n p hp u a hu ha i]; simp [hi]

/-- a genuine permutation of `0..n-1` is injective as a label list, and every vertex is the image of some vertex -/
theorem injLabels_of_perm (n : Nat) (p : List Nat) (h : p.Perm (List.range n)) : InjLabels n p := by
  have hl : p.length = n := by rw [h.length_eq]; simp
  have hn : p.Nodup := h.nodup_iff.mpr List.nodup_range
  refine ⟨hl, fun i j hi hj e => ?_⟩
  have hi' : i < p.length := by omega
  have hj' : j < p.length := by omega
  rw [List.getElem?_eq_getElem hi', List.getElem?_eq_getElem hj'] at e
  exact (List.getElem_inj hn).mp (Option.some.inj e)

theorem perm_surj (n : Nat) (p : List Nat) (h : p.Perm (List.range n)) (a : Nat) (ha : a < n) :
    ∃ u, u < n ∧ p[u]? = some a := by
  have hm : a ∈ p := h.mem_iff.mpr (List.mem_range.mpr ha)
  obtain ⟨u, hu, e⟩ := List.getElem_of_mem hm
  refine ⟨u, ?_, ?_⟩
  · rw [h.length_eq] at hu; simpa using hu
  · rw [List.getElem?_eq_getElem hu, e]


/-! ### LC orbits: membership by construction -/

/-- `g` is, on the vertices `0..n-1`, the result of some sequence of local complementations applied to `A` -/
def InOrbit (n : Nat) (A : Adj) (g : BMat) : Prop :=
  g.r = n ∧ g.c = n ∧ ∃ vs : List Nat, (∀ v ∈ vs, v < n) ∧ EqAdj n g.f (applySeq A vs)

theorem applySeq_append (A : Adj) (vs : List Nat) (v : Nat) : applySeq A (vs ++ [v]) = localComp (applySeq A vs) v := by
  simp [applySeq, List.foldl_append]

theorem applySeq_simple (n : Nat) (A : Adj) (vs : List Nat) (hA : Simple n A) (hvs : ∀ v ∈ vs, v < n) :
    Simple n (applySeq A vs) := by
  induction vs generalizing A with
  | nil => exact hA
  | cons v rest ih =>
    show Simple n (applySeq (localComp A v) rest)
    exact ih _ (localComp_simple n A v (hvs v (by simp)) hA) (fun w hw => hvs w (List.mem_cons_of_mem _ hw))

theorem inOrbit_self (n : Nat) (g : BMat) (hr : g.r = n) (hc : g.c = n) : InOrbit n g.f g :=
  ⟨hr, hc, [], by simp, EqAdj.refl n _⟩

theorem InOrbit.simple {n : Nat} {A : Adj} {g : BMat} (hA : Simple n A) (hg : InOrbit n A g) : Simple n g.f := by
  obtain ⟨_, _, vs, hvs, e⟩ := hg
  exact (applySeq_simple n A vs hA hvs).congr e.symm

/-- one `local_comp_graph` step stays in the orbit -/
theorem lcStep_inOrbit (n : Nat) (A : Adj) (g : BMat) (v : Nat) (hA : Simple n A) (hg : InOrbit n A g) (hv : v < n) :
    InOrbit n A (lcStep g v) := by
  have hs := hg.simple hA
  obtain ⟨hr, hc, vs, hvs, e⟩ := hg
  refine ⟨by simp [lcStep, BMat.ofAdj, hr], by simp [lcStep, BMat.ofAdj, hr], vs ++ [v], ?_, ?_⟩
  · intro w hw
    rcases List.mem_append.mp hw with h | h
    · exact hvs w h
    · simp at h; rw [h]; exact hv
  · rw [applySeq_append]
    intro i j hi hj
    have h1 : (lcStep g v).f i j = localCompGraph g.r g.f v i j := by
      unfold lcStep
      apply BMat.norm_agree
      · simp [BMat.ofAdj, hr]; exact hi
      · simp [BMat.ofAdj, hr]; exact hj
    rw [h1, hr, localCompGraph_eq n g.f v hv (hs.2 v hv) i j hi hj]
    exact localComp_congr n g.f _ v hv e i j hi hj

theorem localCompGraph?_inOrbit (n : Nat) (A : Adj) (g h : BMat) (v : Nat) (hA : Simple n A) (hg : InOrbit n A g)
    (e : localCompGraph? g v = .ok h) : InOrbit n A h := by
  unfold localCompGraph? at e
  split at e
  · rename_i hv
    cases e
    exact lcStep_inOrbit n A g v hA hg (by rw [← hg.1]; exact hv)
  · cases e

theorem applyScript_inOrbit (n : Nat) (A : Adj) (g h : BMat) (ops : List Nat) (hA : Simple n A) (hg : InOrbit n A g)
    (e : applyScript g ops = .ok h) : InOrbit n A h := by
  induction ops generalizing g with
  | nil => simp [applyScript] at e; cases e; exact hg
  | cons v rest ih =>
    simp only [applyScript] at e
    split at e
    · cases e
    · rename_i g1 e1
      exact ih g1 (localCompGraph?_inOrbit n A g g1 v hA hg e1) e

theorem applyScripts_inOrbit (n : Nat) (A : Adj) (g : BMat) (scripts : List (List Nat)) (out : List BMat) (hA : Simple n A)
    (hg : InOrbit n A g) (e : applyScripts g scripts = .ok out) : ∀ h ∈ out, InOrbit n A h := by
  induction scripts generalizing out with
  | nil => simp [applyScripts] at e; cases e; simp
  | cons ops rest ih =>
    simp only [applyScripts] at e
    split at e
    · cases e
    · rename_i h1 e1
      split at e
      · cases e
      · rename_i hs e2
        cases e
        intro h hh
        rcases List.mem_cons.mp hh with hh | hh
        · rw [hh]; exact applyScript_inOrbit n A g h1 ops hA hg e1
        · exact ih hs e2 h hh


def ValidNodes (n : Nat) (l : List Nat) : Prop := ∀ v ∈ l, v < n

/-- what an invariant `Inv` of the growing orbit list has to satisfy to survive the loops of `lc_orbit_finder` -/
structure OrbInv (n : Nat) (cfg : OrbCfg) (iso : BMat → BMat → Bool) (Inv : List BMat → Prop) (Good : BMat → Prop) : Prop where
  grow : ∀ o g v, Inv o → Good g → v < n →
    (cfg.repAllowed = false → checkIsomorphism iso (lcStep g v) o cfg.withIso = false) → Inv (o ++ [lcStep g v])
  take : ∀ o t, Inv o → Inv (o.take t)
  good : ∀ o, Inv o → ∀ g ∈ o, Good g

theorem lcOrbitNodes_inv {n : Nat} {cfg : OrbCfg} {iso : BMat → BMat → Bool} {Inv : List BMat → Prop} {Good : BMat → Prop}
    (H : OrbInv n cfg iso Inv Good) (g : BMat) (hg : Good g) (lenBefore : Nat) (nodes : List Nat) (orbit : List BMat)
    (hn : ValidNodes n nodes) (ho : Inv orbit) : Inv (lcOrbitNodes cfg iso g lenBefore nodes orbit).1 := by
  induction nodes generalizing orbit with
  | nil => simpa [lcOrbitNodes] using ho
  | cons node rest ih =>
    have hrest : ValidNodes n rest := fun v hv => hn v (List.mem_cons_of_mem _ hv)
    have hnode : node < n := hn node (by simp)
    simp only [lcOrbitNodes]
    generalize hO : (if degree g.r g.f node > 1 then
        if (!cfg.repAllowed) = true then
          if (!checkIsomorphism iso (lcStep g node) orbit cfg.withIso) = true then orbit ++ [lcStep g node] else orbit
        else orbit ++ [lcStep g node]
      else orbit) = orbit1
    have hP1 : Inv orbit1 := by
      rw [← hO]
      split
      · split
        · rename_i hrep
          split
          · rename_i hchk
            exact H.grow orbit g node ho hg hnode (fun _ => by simpa using hchk)
          · exact ho
        · rename_i hrep
          exact H.grow orbit g node ho hg hnode (fun h => by simp [h] at hrep)
      · exact ho
    split
    · split
      · exact H.take _ _ hP1
      · split
        · exact hP1
        · exact ih orbit1 hrest hP1
    · split
      · exact hP1
      · exact ih orbit1 hrest hP1

/-- the node list and the remaining shuffles stay valid through the graph loop -/
theorem lcOrbitGraphs_inv {n : Nat} {cfg : OrbCfg} {iso : BMat → BMat → Bool} {Inv : List BMat → Prop} {Good : BMat → Prop}
    (H : OrbInv n cfg iso Inv Good) (lenBefore : Nat) (recent : List BMat) (nodeList : List Nat) (shuffles : List (List Nat))
    (orbit : List BMat) (hr : ∀ g ∈ recent, Good g) (hn : ValidNodes n nodeList) (hs : ∀ s ∈ shuffles, ValidNodes n s)
    (ho : Inv orbit) :
    Inv (lcOrbitGraphs cfg iso lenBefore recent nodeList shuffles orbit).1 ∧
    ValidNodes n (lcOrbitGraphs cfg iso lenBefore recent nodeList shuffles orbit).2.2.1 ∧
    (∀ s ∈ (lcOrbitGraphs cfg iso lenBefore recent nodeList shuffles orbit).2.2.2, ValidNodes n s) := by
  induction recent generalizing nodeList shuffles orbit with
  | nil => exact ⟨by simpa [lcOrbitGraphs] using ho, by simpa [lcOrbitGraphs] using hn, by simpa [lcOrbitGraphs] using hs⟩
  | cons g rest ih =>
    simp only [lcOrbitGraphs]
    generalize hNS : (if cfg.rand = true then (shuffles.headD nodeList, shuffles.tail) else (nodeList, shuffles)) = ns
    obtain ⟨nl1, sh1⟩ := ns
    have hn1 : ValidNodes n nl1 ∧ ∀ s ∈ sh1, ValidNodes n s := by
      split at hNS
      · cases hNS
        constructor
        · cases shuffles with
          | nil => simpa using hn
          | cons s t => simp; exact hs s (by simp)
        · intro s hs'; exact hs s (List.mem_of_mem_tail hs')
      · cases hNS; exact ⟨hn, hs⟩
    have hg : Good g := hr g (by simp)
    have hrest : ∀ g ∈ rest, Good g := fun h hh => hr h (List.mem_cons_of_mem _ hh)
    have h1 := lcOrbitNodes_inv H g hg lenBefore nl1 orbit hn1.1 ho
    simp only []
    generalize hR : lcOrbitNodes cfg iso g lenBefore nl1 orbit = res at h1
    obtain ⟨o1, returned, brk⟩ := res
    simp only []
    split
    · exact ⟨h1, hn1.1, hn1.2⟩
    · exact ih nl1 sh1 o1 hrest hn1.1 hn1.2 h1

theorem lcOrbitWhile_inv {n : Nat} {cfg : OrbCfg} {iso : BMat → BMat → Bool} {Inv : List BMat → Prop} {Good : BMat → Prop}
    (H : OrbInv n cfg iso Inv Good) (fuel i newGraphs : Nat) (nodeList : List Nat) (shuffles : List (List Nat))
    (orbit out : List BMat) (hn : ValidNodes n nodeList) (hs : ∀ s ∈ shuffles, ValidNodes n s) (ho : Inv orbit)
    (e : lcOrbitWhile cfg iso fuel i newGraphs nodeList shuffles orbit = .ok out) : Inv out := by
  induction fuel generalizing i newGraphs nodeList shuffles orbit with
  | zero => simp [lcOrbitWhile] at e
  | succ fuel ih =>
    simp only [lcOrbitWhile] at e
    split at e
    · have hrec : ∀ g ∈ orbit.drop (orbit.length - newGraphs), Good g :=
        fun g hg => H.good orbit ho g (List.mem_of_mem_drop hg)
      have h1 := lcOrbitGraphs_inv H orbit.length _ nodeList shuffles orbit hrec hn hs ho
      split at e
      · cases e; exact h1.1
      · split at e
        · cases e; exact h1.1
        · exact ih _ _ _ _ _ h1.2.1 h1.2.2 h1.1 e
    · cases e; exact ho

/-- membership in the orbit is an invariant of the explorer loops -/
theorem orbInv_inOrbit (n : Nat) (A : Adj) (hA : Simple n A) (cfg : OrbCfg) (iso : BMat → BMat → Bool) :
    OrbInv n cfg iso (fun o => ∀ h ∈ o, InOrbit n A h) (InOrbit n A) where
  grow := by
    intro o g v ho hg hv _ h hh
    rcases List.mem_append.mp hh with h1 | h1
    · exact ho h h1
    · simp at h1; rw [h1]; exact lcStep_inOrbit n A g v hA hg hv
  take := fun o t ho h hh => ho h (List.mem_of_mem_take hh)
  good := fun o ho g hg => ho g hg

/-- the comparison used by `check_isomorphism` -/
def relOf (cfg : OrbCfg) (iso : BMat → BMat → Bool) (g h : BMat) : Bool := if cfg.withIso then g.beq h else iso g h

theorem checkIsomorphism_false (cfg : OrbCfg) (iso : BMat → BMat → Bool) (g : BMat) (o : List BMat)
    (h : checkIsomorphism iso g o cfg.withIso = false) : ∀ x ∈ o, relOf cfg iso g x = false := by
  intro x hx
  unfold checkIsomorphism at h
  rw [List.any_eq_false] at h
  have := h x hx
  simpa [relOf] using this

/-- in the de-duplicating modes no later graph is related (equal / isomorphic) to an earlier one -/
theorem orbInv_pairwise (n : Nat) (cfg : OrbCfg) (iso : BMat → BMat → Bool) (hrep : cfg.repAllowed = false) :
    OrbInv n cfg iso (fun o => o.Pairwise (fun earlier later => relOf cfg iso later earlier = false)) (fun _ => True) where
  grow := by
    intro o g v ho _ _ hc
    rw [List.pairwise_append]
    refine ⟨ho, by simp, ?_⟩
    intro x hx y hy
    simp at hy; rw [hy]
    exact checkIsomorphism_false cfg iso _ o (hc hrep) x hx
  take := fun o t ho => List.Pairwise.sublist (List.take_sublist t o) ho
  good := fun _ _ _ _ => trivial

/-- **`lc_orbit_finder`: every returned graph lies in the LC orbit of the input** (all option sets, all depths and
    thresholds, every value of the random draws and shuffles, any isomorphism oracle) -/
theorem lcOrbitFinder_inOrbit (cfg : OrbCfg) (iso : BMat → BMat → Bool) (fuel : Nat) (g : BMat) (draws : List Nat)
    (shuffles : List (List Nat)) (out : List BMat) (hsq : g.c = g.r) (hA : Simple g.r g.f)
    (hs : ∀ s ∈ shuffles, ValidNodes g.r s) (e : lcOrbitFinder cfg iso fuel g draws shuffles = .ok out) :
    ∀ h ∈ out, InOrbit g.r g.f h := by
  have hself : InOrbit g.r g.f g := inOrbit_self g.r g rfl hsq
  unfold lcOrbitFinder at e
  simp only [] at e
  -- the start list
  generalize hst : (if cfg.rand = true then
      match applyScript g (List.take (min 10 g.r) draws) with
      | Except.error e => Except.error e
      | Except.ok h => Except.ok [h]
    else Except.ok [g]) = start at e
  have hstart : ∀ o, start = .ok o → ∀ h ∈ o, InOrbit g.r g.f h := by
    intro o eo
    rw [← hst] at eo
    split at eo
    · split at eo
      · cases eo
      · rename_i h1 e1
        cases eo
        intro h hh; simp at hh; rw [hh]
        exact applyScript_inOrbit g.r g.f g h1 _ hA hself e1
    · cases eo
      intro h hh; simp at hh; rw [hh]; exact hself
  cases start with
  | error err => simp at e
  | ok o =>
    simp only [] at e
    split at e
    · cases e; exact hstart _ rfl
    · exact lcOrbitWhile_inv (orbInv_inOrbit g.r g.f hA cfg iso) fuel 0 1 (List.range g.r) shuffles o out
        (fun v hv => List.mem_range.mp hv) hs (hstart o rfl) e

/-- **`lc_orbit_finder` with `rep_allowed = False`: the returned graphs are pairwise different** — pairwise unequal
    adjacency matrices for `with_iso = True`, pairwise non-isomorphic (as judged by the oracle) otherwise -/
theorem lcOrbitFinder_pairwise (cfg : OrbCfg) (iso : BMat → BMat → Bool) (fuel : Nat) (g : BMat) (draws : List Nat)
    (shuffles : List (List Nat)) (out : List BMat) (hrep : cfg.repAllowed = false)
    (hs : ∀ s ∈ shuffles, ValidNodes g.r s) (e : lcOrbitFinder cfg iso fuel g draws shuffles = .ok out) :
    out.Pairwise (fun earlier later => relOf cfg iso later earlier = false) := by
  unfold lcOrbitFinder at e
  simp only [] at e
  generalize hst : (if cfg.rand = true then
      match applyScript g (List.take (min 10 g.r) draws) with
      | Except.error e => Except.error e
      | Except.ok h => Except.ok [h]
    else Except.ok [g]) = start at e
  have hstart : ∀ o, start = .ok o → o.Pairwise (fun earlier later => relOf cfg iso later earlier = false) := by
    intro o eo
    rw [← hst] at eo
    split at eo
    · split at eo
      · cases eo
      · cases eo; simp
    · cases eo; simp
  cases start with
  | error err => simp at e
  | ok o =>
    simp only [] at e
    split at e
    · cases e; exact hstart _ rfl
    · exact lcOrbitWhile_inv (orbInv_pairwise g.r cfg iso hrep) fuel 0 1 (List.range g.r) shuffles o out
        (fun v hv => List.mem_range.mp hv) hs (hstart o rfl) e


theorem rgsGo_inOrbit (n : Nat) (A : Adj) (hA : Simple n A) (first : Nat) (hf : first < n) (fuel : Nat) (cores : List Nat)
    (cur : BMat) (acc : List BMat) (hc : ValidNodes n cores) (hcur : InOrbit n A cur) (hacc : ∀ h ∈ acc, InOrbit n A h) :
    ∀ h ∈ rgsGo first fuel cores cur acc, InOrbit n A h := by
  induction fuel generalizing cores cur acc with
  | zero => simpa [rgsGo] using hacc
  | succ f ih =>
    cases cores with
    | nil => simpa [rgsGo] using hacc
    | cons c cs =>
      have hc1 : c < n := hc c (by simp)
      have ha := lcStep_inOrbit n A cur c hA hcur hc1
      have hb := lcStep_inOrbit n A _ first hA ha hf
      cases cs with
      | nil =>
        simp only [rgsGo]
        intro h hh
        rcases List.mem_append.mp hh with h1 | h1
        · exact hacc h h1
        · simp at h1; rcases h1 with h1 | h1 <;> (rw [h1]; assumption)
      | cons c2 cs2 =>
        simp only [rgsGo]
        have hc2 : c2 < n := hc c2 (by simp)
        have hd := lcStep_inOrbit n A _ c2 hA ha hc2
        apply ih cs2 _ _ (fun v hv => hc v (by simp [hv])) hd
        intro h hh
        rcases List.mem_append.mp hh with h1 | h1
        · exact hacc h h1
        · simp at h1; rcases h1 with h1 | h1 | h1 <;> (rw [h1]; assumption)

/-- **`rgs_orbit_finder`: every returned graph lies in the LC orbit of the input** -/
theorem rgsOrbitFinder_inOrbit (g : BMat) (out : List BMat) (hsq : g.c = g.r) (hA : Simple g.r g.f)
    (e : rgsOrbitFinder g = .ok out) : ∀ h ∈ out, InOrbit g.r g.f h := by
  have hself : InOrbit g.r g.f g := inOrbit_self g.r g rfl hsq
  unfold rgsOrbitFinder at e
  simp only [] at e
  split at e
  · cases e
  · split at e
    · cases e
    · rename_i first rest hcore
      cases e
      have hmem : ∀ v ∈ first :: rest, v < g.r := by
        intro v hv
        rw [← hcore] at hv
        exact ((mem_filterTo _ _ v).mp hv).1
      have hf : first < g.r := hmem first (by simp)
      have h1 := lcStep_inOrbit g.r g.f g first hA hself hf
      apply rgsGo_inOrbit g.r g.f hA first hf _ rest _ _ (fun v hv => hmem v (by simp [hv])) h1
      intro h hh
      simp at hh; rcases hh with hh | hh <;> (rw [hh]; assumption)

/-- **`linear_partial_orbit`: every returned graph lies in the LC orbit of the input** -/
theorem linearPartialOrbit_inOrbit (g : BMat) (out : List BMat) (hsq : g.c = g.r) (hA : Simple g.r g.f)
    (e : linearPartialOrbit g = .ok out) : ∀ h ∈ out, InOrbit g.r g.f h := by
  unfold linearPartialOrbit at e
  simp only [] at e
  split at e
  · cases e
  · split at e
    · cases e
    · exact applyScripts_inOrbit g.r g.f g _ out hA (inOrbit_self g.r g rfl hsq) e

/-- **`depth_first_orbit`: every returned graph lies in the LC orbit of the input** (any isomorphism oracle) -/
theorem depthFirstOrbit_inOrbit (iso : BMat → BMat → Bool) (fuel : Nat) (g : BMat) (paths : List (List Nat)) (out : List BMat)
    (hsq : g.c = g.r) (hA : Simple g.r g.f) (e : depthFirstOrbit iso fuel g = .ok (paths, out)) :
    ∀ h ∈ out, InOrbit g.r g.f h := by
  unfold depthFirstOrbit at e
  split at e
  · cases e
  · simp only [] at e
    split at e
    · cases e
    · rename_i gs e2
      cases e
      exact applyScripts_inOrbit g.r g.f g _ out hA (inOrbit_self g.r g rfl hsq) e2


/-! ### `automorph_check` and `iso_finder` -/

/-- `m` is the input relabelled by a label list taken from `labels` -/
def RelabelOf (g : BMat) (labels : List (List Nat)) (m : List Int) : Prop := ∃ p ∈ labels, relabel? g p = .ok m

theorem automorphGo_spec (g : BMat) (a0 : List Int) (all labels : List (List Nat)) (acc out : List (List Int))
    (hsub : ∀ p ∈ labels, p ∈ all) (hn : acc.Nodup) (h0 : a0 ∉ acc) (hr : ∀ m ∈ acc, RelabelOf g all m)
    (e : automorphGo g a0 labels acc = .ok out) : out.Nodup ∧ a0 ∉ out ∧ ∀ m ∈ out, RelabelOf g all m := by
  induction labels generalizing acc with
  | nil =>
    simp [automorphGo] at e
    cases e
    exact ⟨(List.reverse_perm acc).nodup_iff.mpr hn, by simpa using h0, fun m hm => hr m (by simpa using hm)⟩
  | cons p rest ih =>
    simp only [automorphGo] at e
    split at e
    · cases e
    · rename_i m em
      have hrest : ∀ q ∈ rest, q ∈ all := fun q hq => hsub q (List.mem_cons_of_mem _ hq)
      split at e
      · exact ih acc hrest hn h0 hr e
      · rename_i hc
        have hc1 : ¬ m = a0 := fun x => hc (Or.inl x)
        have hc2 : m ∉ acc := fun x => hc (Or.inr (by simpa using x))
        apply ih (m :: acc) hrest (List.nodup_cons.mpr ⟨hc2, hn⟩) _ _ e
        · intro x; rcases List.mem_cons.mp x with x | x
          · exact hc1 x.symm
          · exact h0 x
        · intro x hx; rcases List.mem_cons.mp hx with hx | hx
          · rw [hx]; exact ⟨p, hsub p (by simp), em⟩
          · exact hr x hx

/-- `automorph_check`: the input first, then pairwise distinct matrices different from it, each a relabelling of the input -/
theorem automorphCheck_spec (g : BMat) (labels : List (List Nat)) (out : List (List Int))
    (e : automorphCheck g labels = .ok out) :
    ∃ tail, out = flatInt g :: tail ∧ out.Nodup ∧ ∀ m ∈ tail, RelabelOf g labels m := by
  unfold automorphCheck at e
  split at e
  · cases e
  · rename_i tail et
    cases e
    obtain ⟨h1, h2, h3⟩ := automorphGo_spec g (flatInt g) labels labels [] tail (fun _ h => h) (by simp) (by simp) (by simp) et
    exact ⟨tail, rfl, List.nodup_cons.mpr ⟨h2, h1⟩, h3⟩

/-- the labels produced so far: the identity first, everything else the identity or one of the recorded draws -/
def LabelsOK (n : Nat) (draws : List (List (List Nat))) (labels : List (List Nat)) : Prop :=
  labels.head? = some (List.range n) ∧ ∀ p ∈ labels, p = List.range n ∨ ∃ ds ∈ draws, p ∈ ds

theorem labelSetLoop_spec (nLabel thr fuel : Nat) (set : List (List Nat)) (count : Nat) (ds : List (List Nat)) :
    (labelSetLoop nLabel thr fuel set count ds).1.head? = set.head? ∨ set = [] := by
  induction fuel generalizing set count ds with
  | zero => left; rfl
  | succ f ih =>
    simp only [labelSetLoop]
    split
    · cases ds with
      | nil => left; rfl
      | cons d rest =>
        simp only []
        cases set with
        | nil => right; rfl
        | cons s0 st =>
          left
          rcases ih (if (s0 :: st).contains d then s0 :: st else s0 :: st ++ [d]) (count + 1) rest with h | h
          · rw [h]; split <;> rfl
          · split at h <;> simp at h
    · left; rfl

theorem labelSetLoop_mem (nLabel thr fuel : Nat) (set : List (List Nat)) (count : Nat) (ds : List (List Nat)) :
    ∀ p ∈ (labelSetLoop nLabel thr fuel set count ds).1, p ∈ set ∨ p ∈ ds := by
  induction fuel generalizing set count ds with
  | zero => intro p hp; left; exact hp
  | succ f ih =>
    simp only [labelSetLoop]
    split
    · cases ds with
      | nil => intro p hp; left; exact hp
      | cons d rest =>
        simp only []
        intro p hp
        rcases ih _ _ _ p hp with h | h
        · split at h
          · left; exact h
          · rcases List.mem_append.mp h with h | h
            · left; exact h
            · right; simp at h; rw [h]; simp
        · right; exact List.mem_cons_of_mem _ h
    · intro p hp; left; exact hp

theorem labelFinder_spec (nLabel nNode : Nat) (labelSet : Option (List (List Nat))) (exh : Bool) (thresh : Option Nat)
    (ds : List (List Nat)) (labels : List (List Nat)) (used : Nat)
    (hset : ∀ s, labelSet = some s → s.head? = some (List.range nNode))
    (e : labelFinder nLabel nNode labelSet exh thresh ds = .ok (labels, used)) :
    labels.head? = some (List.range nNode) ∧
    ∀ p ∈ labels, p = List.range nNode ∨ p ∈ ds ∨ ∃ s, labelSet = some s ∧ p ∈ s := by
  unfold labelFinder at e
  simp only [] at e
  split at e
  · cases e
  · split at e
    · split at e
      · cases e
        exact ⟨rfl, fun p hp => Or.inl (by simpa using hp)⟩
      · split at e
        · cases e
        · cases e
          refine ⟨rfl, fun p hp => ?_⟩
          rcases List.mem_cons.mp hp with h | h
          · left; exact h
          · right; left; exact List.mem_of_mem_take h
    · injection e with e'
      have hl : labels = (labelSetLoop nLabel (threshOf thresh nLabel) (threshOf thresh nLabel + 1) (set0Of labelSet nNode) 0 ds).1 := by
        rw [e']
      rw [hl]
      cases labelSet with
      | none =>
        refine ⟨?_, fun p hp => ?_⟩
        · rcases labelSetLoop_spec _ _ _ (set0Of none nNode) 0 ds with h | h
          · rw [h]; rfl
          · simp [set0Of] at h
        · rcases labelSetLoop_mem _ _ _ _ _ _ p hp with h | h
          · left; simpa [set0Of] using h
          · right; left; exact h
      | some s =>
        have hs := hset s rfl
        refine ⟨?_, fun p hp => ?_⟩
        · rcases labelSetLoop_spec _ _ _ (set0Of (some s) nNode) 0 ds with h | h
          · rw [h]; exact hs
          · simp only [set0Of] at h; rw [h] at hs; simp at hs
        · rcases labelSetLoop_mem _ _ _ _ _ _ p hp with h | h
          · right; right; exact ⟨s, rfl, h⟩
          · right; left; exact h


theorem dedupe_spec (l acc : List (List Nat)) :
    (∀ p ∈ l.foldl (fun acc p => if acc.contains p then acc else acc ++ [p]) acc, p ∈ acc ∨ p ∈ l) ∧
    (acc ≠ [] → (l.foldl (fun acc p => if acc.contains p then acc else acc ++ [p]) acc).head? = acc.head?) := by
  induction l generalizing acc with
  | nil => exact ⟨fun p hp => Or.inl hp, fun _ => rfl⟩
  | cons a t ih =>
    simp only [List.foldl_cons]
    by_cases hc : acc.contains a = true
    · simp only [hc, if_true]
      obtain ⟨h1, h2⟩ := ih acc
      exact ⟨fun p hp => (h1 p hp).elim Or.inl (fun h => Or.inr (List.mem_cons_of_mem _ h)), h2⟩
    · have hc' : acc.contains a = false := by simpa using hc
      simp only [hc', Bool.false_eq_true, if_false]
      obtain ⟨h1, h2⟩ := ih (acc ++ [a])
      refine ⟨fun p hp => ?_, fun hne => ?_⟩
      · rcases h1 p hp with h | h
        · rcases List.mem_append.mp h with h | h
          · left; exact h
          · right; simp at h; rw [h]; simp
        · right; exact List.mem_cons_of_mem _ h
      · rw [h2 (by simp)]
        cases acc with
        | nil => exact absurd rfl hne
        | cons x xs => rfl

theorem dedupe_head (a : List Nat) (t : List (List Nat)) :
    ((a :: t).foldl (fun acc p => if acc.contains p then acc else acc ++ [p]) []).head? = some a := by
  simp only [List.foldl_cons]
  have : (if ([] : List (List Nat)).contains a = true then [] else [] ++ [a]) = [a] := by simp
  rw [this, (dedupe_spec t [a]).2 (by simp)]
  rfl

theorem addLabels_spec (n : Nat) (all : List (List (List Nat))) (labels : List (List Nat)) (addN : Nat) (exh : Bool)
    (thresh : Option Nat) (ds : List (List Nat)) (labels' : List (List Nat)) (used : Nat)
    (hds : ds = [] ∨ ds ∈ all) (hl : LabelsOK n all labels)
    (e : addLabels labels addN exh thresh ds = .ok (labels', used)) : LabelsOK n all labels' := by
  unfold addLabels at e
  cases labels with
  | nil => simp at e
  | cons l0 rest =>
    simp only [] at e
    have hl0 : l0 = List.range n := by
      have := hl.1; simpa using this
    have hlen : l0.length = n := by rw [hl0]; simp
    rw [hlen] at e
    obtain ⟨h1, h2⟩ := labelFinder_spec _ n _ exh thresh ds labels' used
      (fun s hs => by
        injection hs with hs
        rw [← hs, dedupe_head l0 rest, hl0]) e
    refine ⟨h1, fun p hp => ?_⟩
    rcases h2 p hp with h | h | ⟨s, hs, hps⟩
    · left; exact h
    · right
      rcases hds with hd | hd
      · rw [hd] at h; simp at h
      · exact ⟨ds, hd, h⟩
    · injection hs with hs
      rw [← hs] at hps
      rcases (dedupe_spec (l0 :: rest) []).1 p hps with h | h
      · simp at h
      · exact hl.2 p h

/-- the list of matrices held by `iso_finder`: the input first, pairwise distinct, every other entry the input relabelled
    by the identity or by one of the recorded generator draws -/
def AdjOK (g : BMat) (all : List (List (List Nat))) (adj : List (List Int)) : Prop :=
  ∃ tail, adj = flatInt g :: tail ∧ adj.Nodup ∧
    ∀ m ∈ tail, ∃ p, (p = List.range g.r ∨ ∃ ds ∈ all, p ∈ ds) ∧ relabel? g p = .ok m

theorem adjOK_of_automorph (g : BMat) (all : List (List (List Nat))) (labels : List (List Nat)) (adj : List (List Int))
    (hl : LabelsOK g.r all labels) (e : automorphCheck g labels = .ok adj) : AdjOK g all adj := by
  obtain ⟨tail, h1, h2, h3⟩ := automorphCheck_spec g labels adj e
  refine ⟨tail, h1, h2, fun m hm => ?_⟩
  obtain ⟨p, hp, ep⟩ := h3 m hm
  exact ⟨p, hl.2 p hp, ep⟩

theorem headD_mem_or_nil (rem : List (List (List Nat))) (all : List (List (List Nat))) (h : ∀ ds ∈ rem, ds ∈ all) :
    rem.headD [] = [] ∨ rem.headD [] ∈ all := by
  cases rem with
  | nil => left; rfl
  | cons a t => right; exact h a (by simp)

theorem isoLoop_spec (cfg : IsoCfg) (g : BMat) (nMax : Nat) (all : List (List (List Nat))) (fuel : Nat)
    (rem : List (List (List Nat))) (labels : List (List Nat)) (adj : List (List Int)) (nLabel : Nat) (relInc : Float)
    (allChecked : Bool) (rounds : Nat) (consumed : List Nat) (r : IsoRes)
    (hrem : ∀ ds ∈ rem, ds ∈ all) (hl : LabelsOK g.r all labels) (ha : AdjOK g all adj)
    (e : isoLoop cfg g nMax fuel rem labels adj nLabel relInc allChecked rounds consumed = .ok r) :
    AdjOK g all r.full ∧ r.nOut ≤ cfg.nIso ∧ r.nOut ≤ r.full.length := by
  induction fuel generalizing rem labels adj nLabel relInc allChecked rounds consumed with
  | zero => simp [isoLoop] at e
  | succ f ih =>
    simp only [isoLoop] at e
    split at e
    · rename_i hcond
      split at e
      · cases e
        exact ⟨ha, Nat.le_of_lt hcond.1, Nat.le_refl _⟩
      · split at e
        · cases e
        · rename_i labels1 used e1
          have hl1 := addLabels_spec g.r all labels _ _ cfg.thresh (rem.headD []) labels1 used
            (headD_mem_or_nil rem all hrem) hl e1
          split at e
          · cases e
          · rename_i adj1 e2
            exact ih rem.tail labels1 adj1 _ _ _ _ _ (fun ds hd => hrem ds (List.mem_of_mem_tail hd)) hl1
              (adjOK_of_automorph g all labels1 adj1 hl1 e2) e
    · cases e
      exact ⟨ha, Nat.min_le_left _ _, Nat.min_le_right _ _⟩

/-- **`iso_finder`, every return path**: the list from which the result is cut has the input first, is pairwise distinct,
    every other entry is the input relabelled by the identity or a recorded draw; and at most `n_iso` entries are returned -/
theorem isoFinder_spec (cfg : IsoCfg) (g : BMat) (draws : List (List (List Nat))) (r : IsoRes)
    (e : isoFinder cfg g draws = .ok r) :
    AdjOK g draws r.full ∧ r.nOut ≤ cfg.nIso ∧ r.nOut ≤ r.full.length := by
  unfold isoFinder at e
  simp only [] at e
  split at e
  · cases e
  · rename_i labels used e1
    obtain ⟨h1, h2⟩ := labelFinder_spec _ g.r none false cfg.thresh (draws.headD []) labels used (fun s hs => by cases hs) e1
    have hl : LabelsOK g.r draws labels := by
      refine ⟨h1, fun p hp => ?_⟩
      rcases h2 p hp with h | h | ⟨s, hs, _⟩
      · left; exact h
      · right
        rcases headD_mem_or_nil draws draws (fun _ h => h) with hd | hd
        · rw [hd] at h; simp at h
        · exact ⟨_, hd, h⟩
      · cases hs
    split at e
    · cases e
    · rename_i adj e2
      have ha := adjOK_of_automorph g draws labels adj hl e2
      split at e
      · rename_i hge
        cases e
        exact ⟨ha, Nat.le_refl _, hge⟩
      · exact isoLoop_spec cfg g _ draws _ draws.tail labels adj _ _ _ _ _ r
          (fun ds hd => List.mem_of_mem_tail hd) hl ha e


/-- the relabelled matrix as a graph -/
def relabelAdj (n : Nat) (A : Adj) (p : List Nat) : Adj := fun a b => decide (relabel n A p a b ≠ 0)

theorem getD_of_getElem? (p : List Nat) (u a d : Nat) (h : p[u]? = some a) : p.getD u d = a := by
  simp [List.getD, h]

/-- a permutation `p` is an isomorphism from `A` to `relabel A p` (as judged by the specification recorded for
    networkx's matcher) -/
theorem relabel_iso (n : Nat) (A : Adj) (p : List Nat) (hp : p.Perm (List.range n)) :
    isIsoMap n A (relabelAdj n A p) p = true := by
  have hinj := injLabels_of_perm n p hp
  have hlen : p.length = n := hinj.1
  have hget : ∀ u, u < n → ∃ a, p[u]? = some a ∧ a < n := by
    intro u hu
    have hu' : u < p.length := by omega
    refine ⟨p[u], List.getElem?_eq_getElem hu', ?_⟩
    have : p[u] ∈ List.range n := hp.mem_iff.mp (List.getElem_mem hu')
    exact List.mem_range.mp this
  unfold isIsoMap
  simp only [Bool.and_eq_true, beq_iff_eq, List.all_eq_true, List.mem_range, decide_eq_true_eq, Bool.or_eq_true, ne_eq]
  refine ⟨⟨⟨hlen, ?_⟩, ?_⟩, ?_⟩
  · intro u hu
    obtain ⟨a, ha, han⟩ := hget u hu
    rw [getD_of_getElem? p u a n ha]; exact han
  · intro u hu v hv
    by_cases e : u = v
    · left; exact e
    · right
      obtain ⟨a, ha, _⟩ := hget u hu
      obtain ⟨b, hb, _⟩ := hget v hv
      rw [getD_of_getElem? p u a n ha, getD_of_getElem? p v b n hb]
      intro hab
      exact e (hinj.2 u v hu hv (by rw [ha, hb, hab]))
  · intro u hu v hv
    obtain ⟨a, ha, _⟩ := hget u hu
    obtain ⟨b, hb, _⟩ := hget v hv
    rw [getD_of_getElem? p u a n ha, getD_of_getElem? p v b n hb]
    unfold relabelAdj
    rw [relabel_perm n A p hinj u v a b hu hv ha hb]
    cases A u v <;> simp [Bool.toInt']

/-- what the specification `isIsoMap` says -/
theorem isIsoMap_spec (n : Nat) (A B : Adj) (m : List Nat) (h : isIsoMap n A B m = true) :
    m.length = n ∧ (∀ u, u < n → m.getD u n < n) ∧ (∀ u v, u < n → v < n → m.getD u n = m.getD v n → u = v) ∧
    ∀ u v, u < n → v < n → A u v = B (m.getD u n) (m.getD v n) := by
  unfold isIsoMap at h
  simp only [Bool.and_eq_true, beq_iff_eq, List.all_eq_true, List.mem_range, decide_eq_true_eq, Bool.or_eq_true, ne_eq] at h
  obtain ⟨⟨⟨h1, h2⟩, h3⟩, h4⟩ := h
  refine ⟨h1, h2, fun u v hu hv e => ?_, fun u v hu hv => h4 u hu v hv⟩
  rcases h3 u hu v hv with h | h
  · exact h
  · exact absurd e h

/-- equal graphs: the identity is reported (`{-1: 'self', 0: 0, 1: 1, …}`), and it is an isomorphism -/
theorem identity_iso (n : Nat) (A : Adj) : isIsoMap n A A (List.range n) = true := by
  unfold isIsoMap
  simp only [Bool.and_eq_true, beq_iff_eq, List.all_eq_true, List.mem_range, decide_eq_true_eq, Bool.or_eq_true, ne_eq,
    List.length_range, true_and]
  have hg : ∀ u, u < n → (List.range n).getD u n = u := by
    intro u hu; simp [List.getD, hu]
  refine ⟨⟨fun u hu => by rw [hg u hu]; exact hu, fun u hu v hv => ?_⟩, fun u hu v hv => by rw [hg u hu, hg v hv]⟩
  rw [hg u hu, hg v hv]
  by_cases e : u = v
  · left; exact e
  · right; exact e


/-! ### the metric-guided LC walks of utils/preprocessing.py stay in the orbit -/

theorem mem_dropLast {α : Type} (l : List α) (a : α) (h : a ∈ l.dropLast) : a ∈ l :=
  (List.dropLast_sublist l).subset h

theorem mem_pyInsert {α : Type} (l : List α) (k : Nat) (v a : α) (h : a ∈ pyInsert l k v) : a = v ∨ a ∈ l := by
  unfold pyInsert at h
  rcases List.mem_append.mp h with h | h
  · right; exact List.mem_of_mem_take h
  · rcases List.mem_cons.mp h with h | h
    · left; exact h
    · right; exact List.mem_of_mem_drop h

theorem selectGraphs_mem (cands : List (Float × BMat)) (g : BMat) (limit : Nat) (val : Float) (c : Float × BMat)
    (h : c ∈ selectGraphs cands g limit val) : c ∈ cands ∨ c.2 = g := by
  unfold selectGraphs at h
  split at h
  · rcases List.mem_append.mp h with h | h
    · left; exact h
    · right; simp at h; rw [h]
  · split at h
    · rcases mem_pyInsert _ _ _ _ (mem_dropLast _ _ h) with h | h
      · right; rw [h]
      · left; exact h
    · left; exact h

theorem lcWalkTrial_inOrbit (n : Nat) (A : Adj) (hA : Simple n A) (nodeScore : BMat → Nat → Nat) (metric : BMat → Float)
    (limit : Nat) (cands : List (Float × BMat)) (hc : ∀ c ∈ cands, InOrbit n A c.2) :
    ∀ c ∈ lcWalkTrial nodeScore metric limit cands, InOrbit n A c.2 := by
  unfold lcWalkTrial
  simp only []
  have htmp : ∀ g ∈ (cands.flatMap fun c => (maxNodes c.2.r (nodeScore c.2)).map fun v => lcStep c.2 v), InOrbit n A g := by
    intro g hg
    simp only [List.mem_flatMap, List.mem_map] at hg
    obtain ⟨c, hcm, v, hv, e⟩ := hg
    rw [← e]
    have hin := hc c hcm
    apply lcStep_inOrbit n A c.2 v hA hin
    have : v < c.2.r := by
      unfold maxNodes at hv
      exact ((mem_filterTo _ _ v).mp hv).1
    rw [← hin.1]; exact this
  generalize (cands.flatMap fun c => (maxNodes c.2.r (nodeScore c.2)).map fun v => lcStep c.2 v) = tmp at htmp
  induction tmp generalizing cands with
  | nil => simpa using hc
  | cons g rest ih =>
    simp only [List.foldl_cons]
    apply ih
    · intro c hcm
      rcases selectGraphs_mem cands g limit (metric g) c hcm with h | h
      · exact hc c h
      · rw [h]; exact htmp g (by simp)
    · intro g' hg'; exact htmp g' (List.mem_cons_of_mem _ hg')

/-- **`get_lc_graph_by_max_edge` / `get_lc_graph_by_max_neighbor_edge`**: every candidate graph they return is obtained
    from the input by local complementations — for every metric, every limit and every number of trials -/
theorem lcWalk_inOrbit (nodeScore : BMat → Nat → Nat) (metric : BMat → Float) (g : BMat) (limit trials : Nat)
    (out : List (Float × BMat)) (hsq : g.c = g.r) (hA : Simple g.r g.f) (e : lcWalk nodeScore metric g limit trials = .ok out) :
    ∀ c ∈ out, InOrbit g.r g.f c.2 := by
  unfold lcWalk at e
  split at e
  · cases e
  · injection e with e
    rw [← e]
    have key : ∀ (l : List Nat) (cands : List (Float × BMat)), (∀ c ∈ cands, InOrbit g.r g.f c.2) →
        ∀ c ∈ l.foldl (fun acc _ => lcWalkTrial nodeScore metric limit acc) cands, InOrbit g.r g.f c.2 := by
      intro l
      induction l with
      | nil => intro cands h; simpa using h
      | cons _ t ih =>
        intro cands h
        simp only [List.foldl_cons]
        exact ih _ (lcWalkTrial_inOrbit g.r g.f hA nodeScore metric limit cands h)
    apply key
    intro c hc
    simp at hc
    rw [hc]
    exact inOrbit_self g.r g rfl hsq


end Graphiq
