/-
  Proofs/HilbertDimOverlap.lean — the overlap of two stabilizer states, in Hilbert space.

  * `rhoTo_mask_sum` : `∏_{i<k} (1 + P_i)/2 = 2^{-k} Σ_{mask < 2^k} (subset product of the P_i)` for commuting real generators;
  * `trace_rho_mul_rho` : `tr(ρ_a ρ_b) = 2^{-n} Σ_mask ⟨g_mask⟩_b`, `g_mask` the subset products of `a`'s generators and
    `⟨g⟩_b ∈ {1, -1, 0}` the Pauli expectation value in `ρ_b`;
  * **`stabilizer_overlap`** : `tr(ρ_a ρ_b) = 0` if `Orth` (some `P` in one group, `−P` in the other), and otherwise
    `= commonCount / 2^n` — the brute-force group-level specification of `Model/OverlapSpec.lean` (the quantity the C05 harness
    compares with graphiq's `fidelity`) *is* the Hilbert-space overlap;
  * `trace_ket_overlap` : for `ρ = |ψ⟩⟨ψ|`, `tr(ρ_a ρ_b) = |⟨ψ_a|ψ_b⟩|²`.
-/
import GraphiqModel.Proofs.HilbertDimGroupSum
import GraphiqModel.Proofs.HilbertDimKet
import GraphiqModel.Proofs.InnerProductExec
import GraphiqModel.Proofs.InnerProductDim
namespace Graphiq
namespace Hilbert
open Matrix PRow TabSpec Tab STab

/-! ### the overlap formula -/

/-- **The stabilizer overlap.**  `A`, `B` the stabilizer halves of two valid tableaux on `n` qubits.
    If `Orth A B` (some `P ∈ A` with `−P ∈ B`) the states are orthogonal; otherwise
    `tr(ρ_a ρ_b) = commonCount A B / 2^n`, the number of elements of `A` that lie in `B`, over `2^n`. -/
theorem stabilizer_overlap (a b : Tab) (hn : a.n = b.n) (va : a.Valid) (ra : a.StabReal) (vb : b.Valid)
    (rb : b.StabReal) :
    (Orth (STab.ofTab a) (STab.ofTab b) → Matrix.trace (rho b.n (STab.ofTab a) * rho b.n (STab.ofTab b)) = 0) ∧
    (¬ Orth (STab.ofTab a) (STab.ofTab b) →
      Matrix.trace (rho b.n (STab.ofTab a) * rho b.n (STab.ofTab b))
        = ((STab.ofTab a).commonCount (STab.ofTab b) : ℂ) / 2 ^ b.n) := by
  have ga := ofTab_good a va
  have gb := ofTab_good b vb
  constructor
  · rintro ⟨P, hPa, hPb⟩
    have hPa' : Grp a P := (spn_of_grp a ra P).mpr hPa
    have hPb' : Grp b (negate P) := (spn_of_grp b rb _).mpr hPb
    rw [rho_mul_eq_zero_of_orth b.n a b hn rfl va ra vb rb P hPa' hPb', Matrix.trace_zero]
  · intro hno
    rw [trace_rho_mul_rho a b hn va vb rb]
    have hterm : ∀ m, expVal b (mprod b.n (STab.ofTab a).row m b.n)
        = if (STab.ofTab a).commonB (STab.ofTab b) m = true then 1 else 0 := by
      intro m
      have hiff := commonB_iff (STab.ofTab a) (STab.ofTab b) gb hn m
      have e1 : (STab.ofTab a).n = b.n := hn
      rw [e1] at hiff
      have hspn : (STab.ofTab a).Spn (mprod b.n (STab.ofTab a).row m b.n) := by
        rw [← hn, mprod_eq_sprod]; exact STab.sprod_spn (STab.ofTab a) _ a.n (Nat.le_refl _)
      unfold expVal
      by_cases h1 : Grp b (mprod b.n (STab.ofTab a).row m b.n)
      · rw [if_pos h1, if_pos (hiff.mpr ((spn_of_grp b rb _).mp h1))]
      · have h2 : ¬ Grp b (negate (mprod b.n (STab.ofTab a).row m b.n)) := by
          intro h
          exact hno ⟨_, hspn, (spn_of_grp b rb _).mp h⟩
        rw [if_neg h1, if_neg h2, if_neg (fun h => h1 ((spn_of_grp b rb _).mpr (hiff.mp h)))]
    rw [Finset.sum_congr rfl (fun m _ => hterm m), Finset.sum_boole]
    have hcount : (Finset.filter (fun m => (STab.ofTab a).commonB (STab.ofTab b) m = true) (Finset.range (2 ^ b.n))).card
        = (STab.ofTab a).commonCount (STab.ofTab b) := by
      unfold STab.commonCount
      have e1 : (STab.ofTab a).n = b.n := hn
      rw [e1, ← List.toFinset_card_of_nodup (List.Nodup.filter _ List.nodup_range)]
      congr 1
      ext m
      simp
    rw [hcount, one_div, inv_pow, div_eq_inv_mul]

/-! ### counting the common elements -/

/-- **`|A ∩ B| = 2^d`**: with independent generators (`a` valid) the number of subset products of `A`'s rows that lie in `B`
    is `2^d` for every rank `d` of the common subgroup in the sense of `OverlapDim` -/
theorem commonCount_eq_two_pow (a b : Tab) (hn : a.n = b.n) (va : a.Valid) (ra : a.StabReal) (vb : b.Valid)
    (d : Nat) (gens : Nat → PRow) (hb : IsOverlapBasis (STab.ofTab a) (STab.ofTab b) d gens) :
    (STab.ofTab a).commonCount (STab.ofTab b) = 2 ^ d := by
  have ga := ofTab_good a va
  have gb := ofTab_good b vb
  have hnA : (STab.ofTab a).n = a.n := rfl
  -- the element `c t` of the common subgroup for a mask `t`, and its mask in `A`
  have inA : ∀ t : Nat, (STab.ofTab a).Spn (sprod a.n gens (fun i => t.testBit i) d) :=
    fun t => sprod_spn_gens (STab.ofTab a) gens d hb.memA _ d (Nat.le_refl _)
  have inB : ∀ t : Nat, (STab.ofTab b).Spn (sprod a.n gens (fun i => t.testBit i) d) := by
    intro t
    have := sprod_spn_gens (STab.ofTab b) gens d hb.memB (fun i => t.testBit i) d (Nat.le_refl _)
    have e : (STab.ofTab b).n = a.n := hn.symm
    rw [e] at this; exact this
  have ex : ∀ t : Nat, ∃ m, m < 2 ^ a.n ∧ EqOn a.n (sprod a.n gens (fun i => t.testBit i) d)
      (mprod a.n (STab.ofTab a).row m a.n) := fun t => (spn_iff_mask (STab.ofTab a) ga _).1 (inA t)
  have hcard : ((Finset.range (2 ^ d)).card
      = (Finset.filter (fun m => (STab.ofTab a).commonB (STab.ofTab b) m = true) (Finset.range (2 ^ a.n))).card) := by
    apply Finset.card_bij (fun t _ => Classical.choose (ex t))
    · intro t _
      obtain ⟨h1, h2⟩ := Classical.choose_spec (ex t)
      rw [Finset.mem_filter, Finset.mem_range]
      have e2 : EqOn (STab.ofTab b).n (sprod a.n gens (fun i => t.testBit i) d)
          (mprod a.n (STab.ofTab a).row (Classical.choose (ex t)) a.n) := by
        show EqOn b.n _ _
        rw [← hn]; exact h2
      exact ⟨h1, (commonB_iff (STab.ofTab a) (STab.ofTab b) gb hn _).mpr (InSpan.eqv _ _ (inB t) e2)⟩
    · intro t ht t' ht' e
      obtain ⟨_, h2⟩ := Classical.choose_spec (ex t)
      obtain ⟨_, h2'⟩ := Classical.choose_spec (ex t')
      rw [e] at h2
      have e12 : EqOn a.n (sprod a.n gens (fun i => t.testBit i) d) (sprod a.n gens (fun i => t'.testBit i) d) :=
        h2.trans h2'.symm
      have real1 := spn_real (STab.ofTab a) ga _ (inA t)
      have triv : EqOn a.n (sprod a.n gens (fun i => xor (t.testBit i) (t'.testBit i)) d) PRow.one :=
        ((sprod_mul_gens (STab.ofTab a) ga gens d hb.memA _ _ d (Nat.le_refl _)).symm.trans
          (mul_congr a.n _ _ _ _ (EqOn.refl _ _) e12.symm)).trans (mul_self a.n _ real1)
      have z := hb.indep _ triv
      apply Nat.eq_of_testBit_eq
      intro k
      by_cases hk : k < d
      · have := z k hk
        revert this
        cases t.testBit k <;> cases t'.testBit k <;> simp
      · have h1 : t < 2 ^ k :=
          Nat.lt_of_lt_of_le (Finset.mem_range.mp ht) (Nat.pow_le_pow_right (by decide) (by omega))
        have h2 : t' < 2 ^ k :=
          Nat.lt_of_lt_of_le (Finset.mem_range.mp ht') (Nat.pow_le_pow_right (by decide) (by omega))
        rw [Nat.testBit_lt_two_pow h1, Nat.testBit_lt_two_pow h2]
    · intro m hmem
      rw [Finset.mem_filter, Finset.mem_range] at hmem
      obtain ⟨hm, hc⟩ := hmem
      have hB : (STab.ofTab b).Spn (mprod a.n (STab.ofTab a).row m a.n) :=
        (commonB_iff (STab.ofTab a) (STab.ofTab b) gb hn m).mp hc
      have hA : (STab.ofTab a).Spn (mprod a.n (STab.ofTab a).row m a.n) := by
        rw [mprod_eq_sprod]; exact STab.sprod_spn (STab.ofTab a) _ a.n (Nat.le_refl _)
      obtain ⟨S, hS⟩ := hb.span _ hA hB
      obtain ⟨t, ht, hbits⟩ := mask_of_subset d S
      refine ⟨t, Finset.mem_range.mpr ht, ?_⟩
      obtain ⟨h1, h2⟩ := Classical.choose_spec (ex t)
      have e3 : EqOn a.n (sprod a.n gens (fun i => t.testBit i) d) (sprod a.n gens S d) := by
        rw [sprod_congr a.n gens _ S d hbits]; exact EqOn.refl _ _
      exact mask_unique a va ra _ m h1 hm (h2.symm.trans (e3.trans hS.symm))
  have hcount : (Finset.filter (fun m => (STab.ofTab a).commonB (STab.ofTab b) m = true) (Finset.range (2 ^ a.n))).card
      = (STab.ofTab a).commonCount (STab.ofTab b) := by
    unfold STab.commonCount
    rw [hnA, ← List.toFinset_card_of_nodup (List.Nodup.filter _ List.nodup_range)]
    congr 1
    ext m
    simp
  rw [← hcount, ← hcard, Finset.card_range]

/-- **The overlap of two stabilizer states** in the vocabulary of the C05 fidelity theorems: not `Orth`, common subgroup of
    rank `d` ⇒ `tr(ρ_a ρ_b) = 2^d / 2^n`, and `d ≤ n` so this is `(1/2)^(n-d)` -/
theorem stabilizer_overlap_dim (a b : Tab) (hn : a.n = b.n) (va : a.Valid) (ra : a.StabReal) (vb : b.Valid)
    (rb : b.StabReal) (d : Nat) (hno : ¬ Orth (STab.ofTab a) (STab.ofTab b))
    (hd : OverlapDim (STab.ofTab a) (STab.ofTab b) d) :
    d ≤ b.n ∧ Matrix.trace (rho b.n (STab.ofTab a) * rho b.n (STab.ofTab b)) = (1 / 2 : ℂ) ^ (b.n - d) := by
  obtain ⟨gens, hb⟩ := hd
  have hc := commonCount_eq_two_pow a b hn va ra vb d gens hb
  have hle : d ≤ b.n := by
    have h1 : (STab.ofTab a).commonCount (STab.ofTab b) ≤ 2 ^ a.n := by
      unfold STab.commonCount
      have := List.length_filter_le ((STab.ofTab a).commonB (STab.ofTab b)) (List.range (2 ^ (STab.ofTab a).n))
      rw [List.length_range] at this
      exact this
    rw [hc, hn] at h1
    exact (Nat.pow_le_pow_iff_right (by decide)).1 h1
  refine ⟨hle, ?_⟩
  rw [(stabilizer_overlap a b hn va ra vb rb).2 hno, hc]
  have h2 : (2 : ℂ) ^ b.n = 2 ^ (b.n - d) * 2 ^ d := by
    rw [← pow_add]; congr 1; omega
  push_cast
  rw [h2, one_div, inv_pow]
  field_simp

/-- for kets: `tr(|ψ⟩⟨ψ| · |φ⟩⟨φ|) = |⟨ψ|φ⟩|²` -/
theorem trace_ket_overlap {ι : Type} [Fintype ι] (ψ φ : ι → ℂ) :
    Matrix.trace (Matrix.vecMulVec ψ (star ψ) * Matrix.vecMulVec φ (star φ))
      = ((Complex.normSq (star ψ ⬝ᵥ φ) : ℝ) : ℂ) := by
  rw [Matrix.vecMulVec_mul_vecMulVec, Matrix.trace_vecMulVec, dotProduct_smul, smul_eq_mul, dotProduct_comm ψ (star φ),
    Complex.normSq_eq_conj_mul_self]
  have : (starRingEnd ℂ) (star ψ ⬝ᵥ φ) = star φ ⬝ᵥ ψ := by
    rw [starRingEnd_apply, ← star_dotProduct_star, star_star, dotProduct_comm]
  rw [this, _root_.mul_comm]

end Hilbert
end Graphiq
