/-
  Proofs/InvTotal.lean — `inverse_circuit` on the *input* tableau: it returns exactly on the independent real commuting
  generating sets (the valid stabilizer states), and what it returns is |0…0⟩.  All sizes.
-/
import GraphiqModel.Proofs.InvBridge
import GraphiqModel.Proofs.InnerProductTotal
namespace Graphiq
open PRow Tab
namespace STab

/-- **independent generators**: no non-empty subset of the rows multiplies to a Pauli string without any bit (`±I`) —
    the 2n-bit vectors `(x | z)` of the rows are linearly independent over GF(2) -/
def Indep (t : STab) : Prop := ∀ S : Nat → Bool,
  (∀ j, j < t.n → parityTo t.n (fun i => S i && xb t i j) = false ∧ parityTo t.n (fun i => S i && zb t i j) = false) →
  ∀ i, i < t.n → S i = false

/-- a subset product of independent rows without any bit is the empty product -/
theorem indep_sprod (t : STab) (h : t.Indep) (S : Nat → Bool) (hb : SameBits t.n (sprod t.n t.row S t.n) PRow.one) :
    ∀ i, i < t.n → S i = false := by
  apply h S
  intro j hj
  have := hb j hj
  rw [sprod_x, sprod_z] at this
  exact this

/-- an independent real commuting generating set does not generate `−I` -/
theorem indep_no_minus_one (t : STab) (hg : t.Good) (h : t.Indep) : ¬ t.Spn (PRow.neg PRow.one) := by
  intro hs
  obtain ⟨S, hS⟩ := spn_repr t hg _ hs
  have z := indep_sprod t h S (fun j hj => ⟨(hS.1 j hj).1.symm, (hS.1 j hj).2.symm⟩)
  rw [sprod_none t.n t.row S t.n z] at hS
  have := hS.2.1
  revert this
  decide

/-- **`canonical_form` returns on every independent real commuting generating set** (its final assert passes) -/
theorem canonicalForm_of_indep (t : STab) (hg : t.Good) (h : t.Indep) : ∃ c, t.canonicalForm = .ok c :=
  canonicalForm_total t hg t.row (fun i hi => spn_gen t i hi)
    (fun S hS => indep_sprod t h S hS.1) (indep_no_minus_one t hg h)

/-- the subset-product map of a `Canon` tableau is injective (up to `EqOn`) -/
theorem canon_sprod_inj (c : STab) (hc : Canon c) (hg : c.Good) (S T : Nat → Bool)
    (h : SameBits c.n (sprod c.n c.row S c.n) (sprod c.n c.row T c.n)) : ∀ i, i < c.n → S i = T i := by
  obtain ⟨k, px, pz, hx, hz⟩ := hc
  intro m hm
  by_cases hmk : m < k
  · have hp := hx.piv_lt m (Nat.zero_le _) hmk
    have := (h (px m) hp).1
    rw [sprod_x, sprod_x] at this
    have e1 := hx.coef S m (Nat.zero_le _) hmk
    have e2 := hx.coef T m (Nat.zero_le _) hmk
    unfold xb at e1 e2
    rw [e1, e2] at this; exact this
  · have hp := hz.piv_lt m (by omega) hm
    have := (h (pz m) hp).2
    rw [sprod_z, sprod_z] at this
    have e1 := hz.coef S m (by omega) hm
    have e2 := hz.coef T m (by omega) hm
    unfold zb at e1 e2
    rw [e1, e2] at this; exact this

/-- **conversely, `canonical_form` returns only on independent generating sets**: `n` rows that generate a group with
    `n` independent elements (the rows of the canonical form) are independent (a surjective self-map of the finite set
    of subsets is injective) -/
theorem indep_of_canonicalForm (t c : STab) (hg : t.Good) (hc : t.canonicalForm = .ok c) : t.Indep := by
  obtain ⟨sc, gc⟩ := canonicalForm_spanEq t c hg hc
  have hcan := canonicalForm_canon t c hc
  have hn : c.n = t.n := sc.n_eq.symm
  -- every subset product of `t`'s rows is a subset product of `c`'s rows
  have repr : ∀ S : Fin t.n → Bool, ∃ T : Nat → Bool, EqOn t.n (sprod t.n t.row (extv S) t.n) (sprod t.n c.row T t.n) := by
    intro S
    have h1 : c.Spn (sprod t.n t.row (extv S) t.n) := sc.sub _ (sprod_spn t (extv S) t.n (Nat.le_refl _))
    obtain ⟨T, hT⟩ := spn_repr c gc _ h1
    rw [hn] at hT
    exact ⟨T, hT⟩
  let φ : (Fin t.n → Bool) → (Fin t.n → Bool) := fun S j => Classical.choose (repr S) j.1
  have hφ : ∀ S, EqOn t.n (sprod t.n t.row (extv S) t.n) (sprod t.n c.row (extv (φ S)) t.n) := by
    intro S
    have := Classical.choose_spec (repr S)
    rw [sprod_congr t.n c.row _ (extv (φ S)) t.n (fun i hi => by rw [extv_lt _ i hi])] at this
    exact this
  have hsurj : Function.Surjective φ := by
    intro T
    have h1 : t.Spn (sprod t.n c.row (extv T) t.n) := by
      have := sprod_spn c (extv T) c.n (Nat.le_refl _)
      rw [hn] at this
      exact sc.sup _ this
    obtain ⟨S, hS⟩ := spn_repr t hg _ h1
    refine ⟨fun i => S i.1, ?_⟩
    have e : sprod t.n t.row (extv fun i : Fin t.n => S i.1) t.n = sprod t.n t.row S t.n :=
      sprod_congr t.n t.row _ _ t.n (fun i hi => by rw [extv_lt _ i hi])
    have h2 := hφ (fun i => S i.1)
    rw [e] at h2
    have h3 : EqOn t.n (sprod t.n c.row (extv T) t.n) (sprod t.n c.row (extv (φ fun i => S i.1)) t.n) := hS.trans h2
    funext ⟨i, hi⟩
    have := canon_sprod_inj c hcan gc (extv T) (extv (φ fun i => S i.1)) (by rw [hn]; exact h3.1) i (by rw [hn]; exact hi)
    rw [extv_lt _ i hi, extv_lt _ i hi] at this
    exact this.symm
  have hinj : Function.Injective φ := Finite.injective_iff_surjective.2 hsurj
  intro S hS i hi
  -- the subset `S` and the empty subset have the same product up to sign, hence the same image
  have hbits : SameBits t.n (sprod t.n t.row S t.n) PRow.one := by
    intro j hj
    rw [sprod_x, sprod_z]
    exact hS j hj
  let S' : Fin t.n → Bool := fun i => S i.1
  have eS : sprod t.n t.row (extv S') t.n = sprod t.n t.row S t.n :=
    sprod_congr t.n t.row _ _ t.n (fun i hi => by rw [extv_lt _ i hi])
  have e0 : sprod t.n t.row (extv fun _ : Fin t.n => false) t.n = PRow.one :=
    sprod_none t.n t.row _ t.n (fun i hi => by rw [extv_lt _ i hi])
  have h1 := hφ S'
  have h2 := hφ (fun _ => false)
  rw [eS] at h1
  rw [e0] at h2
  have hb : SameBits t.n (sprod t.n c.row (extv (φ S')) t.n) (sprod t.n c.row (extv (φ fun _ => false)) t.n) := by
    intro j hj
    have a1 := h1.1 j hj
    have a2 := h2.1 j hj
    have a3 := hbits j hj
    exact ⟨a1.1.symm.trans (a3.1.trans a2.1), a1.2.symm.trans (a3.2.trans a2.2)⟩
  have heq : φ S' = φ (fun _ => false) := by
    funext ⟨m, hm⟩
    have := canon_sprod_inj c hcan gc _ _ (by rw [hn]; exact hb) m (by rw [hn]; exact hm)
    rw [extv_lt _ m hm, extv_lt _ m hm] at this
    exact this
  have := congrFun (hinj heq) ⟨i, hi⟩
  exact this

/-- **`canonical_form` returns exactly on the independent generating sets** -/
theorem canonicalForm_returns_iff (t : STab) (hg : t.Good) : (∃ c, t.canonicalForm = .ok c) ↔ t.Indep :=
  ⟨fun ⟨c, hc⟩ => indep_of_canonicalForm t c hg hc, canonicalForm_of_indep t hg⟩

/-- **completeness of `inverse_circuit`** (every n, every independent real commuting generating set): it returns, and
    the tableau it returns is exactly |0…0⟩ -/
theorem inverseCircuit_complete (t : STab) (hg : t.Good) (h : t.Indep) :
    ∃ t' circ, t.inverseCircuit = .ok (t', circ) ∧ t'.isZero = true := by
  obtain ⟨c, hc⟩ := canonicalForm_of_indep t hg h
  exact inverseCircuit_complete_of_canon t c hg hc

/-- `inverse_circuit` returns exactly on the independent generating sets -/
theorem inverseCircuit_returns_iff (t : STab) (hg : t.Good) : (∃ r, t.inverseCircuit = .ok r) ↔ t.Indep := by
  constructor
  · intro ⟨⟨t', circ⟩, h⟩
    obtain ⟨c, hc⟩ := inverseCircuit_canon_ok t t' circ h
    exact indep_of_canonicalForm t c hg hc
  · intro h
    obtain ⟨t', circ, e, _⟩ := inverseCircuit_complete t hg h
    exact ⟨_, e⟩

end STab
end Graphiq
