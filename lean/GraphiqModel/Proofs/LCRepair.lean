/-
  Proofs/LCRepair.lean — the repaired `is_lc_equivalent` (`isLcEquivalentR`, repair of D14): what its loop over the
  components returns.

  * `scatter` (`solution[nodes] = component_solution`) writes the blocks of one component and leaves the others alone;
  * `componentLoop_yes` / `componentLoop_no`: a `yes` carries, for every component, a `yes` of the unrepaired function on the
    induced pair whose `Q` is the restriction of the assembled `Q`; a `no` comes from a `no` on one induced pair;
  * `isLcEquivalentR_yes`: every `yes` returns a vector of `4 n` entries that satisfies every equation of the system for the
    whole pair and has invertible blocks (block-diagonal assembly);
  * `isLcEquivalentR_no`: a `no` is either "the component partitions differ" or a `no` on the induced pair of a component;
  * `restrict_valid`: a valid `Q` of the whole pair restricts to a valid `Q` of every induced pair.
-/
import GraphiqModel.Proofs.LCBlock
namespace Graphiq.LC
open Graphiq PRow Tab

/-! ### `solution[nodes] = component_solution` -/

theorem scatter_length (sol : List Bool) (nodes : List Nat) (q : List Bool) : (scatter sol nodes q).length = sol.length := by
  simp [scatter]

theorem vget_of_ge (l : List Bool) (i : Nat) (h : l.length ≤ i) : vget l i = false := by
  simp [vget, List.getD, List.getElem?_eq_none h]

theorem vget_scatter (sol : List Bool) (nodes : List Nat) (q : List Bool) (idx : Nat) (h : idx < sol.length) :
    vget (scatter sol nodes q) idx =
      match nodes.findIdx? (· == idx / 4) with
      | some i => vget q (4 * i + idx % 4)
      | none => vget sol idx := by
  unfold scatter
  rw [vget_map_range sol.length _ idx h]
  rfl

/-- the block of the `i`-th vertex of `c` is block `i` of the component's solution -/
theorem vget_scatter_in (sol : List Bool) (c : List Nat) (q : List Bool) (hn : c.Nodup) (i t : Nat) (hi : i < c.length)
    (ht : t < 4) (h : 4 * c.getD i 0 + t < sol.length) :
    vget (scatter sol c q) (4 * c.getD i 0 + t) = vget q (4 * i + t) := by
  rw [vget_scatter sol c q _ h]
  have h1 : (4 * c.getD i 0 + t) / 4 = c.getD i 0 := by omega
  have h2 : (4 * c.getD i 0 + t) % 4 = t := by omega
  rw [h1, h2, findIdx_keep c hn i hi]

/-- the blocks of the vertices outside `c` are not touched -/
theorem vget_scatter_out (sol : List Bool) (c : List Nat) (q : List Bool) (v t : Nat) (hv : v ∉ c) (ht : t < 4) :
    vget (scatter sol c q) (4 * v + t) = vget sol (4 * v + t) := by
  by_cases h : 4 * v + t < sol.length
  · rw [vget_scatter sol c q _ h]
    have h1 : (4 * v + t) / 4 = v := by omega
    rw [h1, findIdx_none_of_not_mem c v hv]
  · rw [vget_of_ge _ _ (by rw [scatter_length]; omega), vget_of_ge _ _ (by omega)]

/-! ### the loop over the components -/

/-- **a `yes` of the loop**: the assembled vector has `4 n` entries, agrees with the initial one outside the components, and
    for every component the unrepaired function answered `yes` on the induced pair with the restriction of the assembled
    vector as its `Q` -/
theorem componentLoop_yes (a b : BMat) (mode : Mode) (n : Nat) (comps : List (List Nat)) (draws : List (List Bool))
    (sol : List Bool) (parts : List EqOut) (res : List Bool) (parts' : List EqOut)
    (hnd : ∀ c ∈ comps, c.Nodup) (hlt : ∀ c ∈ comps, ∀ v ∈ c, v < n)
    (hdis : comps.Pairwise fun c1 c2 => ∀ v, v ∈ c1 → v ∉ c2) (hlen : sol.length = 4 * n)
    (e : componentLoop a b mode comps draws sol parts = .ok (some res, parts')) :
    res.length = 4 * n ∧
      (∀ v, (∀ c ∈ comps, v ∉ c) → ∀ t, t < 4 → vget res (4 * v + t) = vget sol (4 * v + t)) ∧
      ∀ c ∈ comps, ∃ out qc d, isLcEquivalent (subMat a c) (subMat b c) mode d = .ok out ∧ out.sol = some qc ∧
        ∀ i t, i < c.length → t < 4 → vget res (4 * c.getD i 0 + t) = vget qc (4 * i + t) := by
  induction comps generalizing draws sol parts with
  | nil =>
    simp only [componentLoop] at e
    have : sol = res := by
      have := Except.ok.inj e
      exact Option.some.inj (Prod.mk.inj this).1
    subst this
    exact ⟨hlen, fun _ _ _ _ => rfl, fun c hc => by cases hc⟩
  | cons c rest ih =>
    simp only [componentLoop] at e
    split at e
    · cases e
    · rename_i out hout
      split at e
      · have := Except.ok.inj e
        cases (Prod.mk.inj this).1
      · rename_i qc hqc
        rw [List.pairwise_cons] at hdis
        have hc_nd := hnd c List.mem_cons_self
        have hc_lt := hlt c List.mem_cons_self
        obtain ⟨r1, r2, r3⟩ := ih _ (scatter sol c qc) _ (fun c' h' => hnd c' (List.mem_cons_of_mem _ h'))
          (fun c' h' => hlt c' (List.mem_cons_of_mem _ h')) hdis.2 (by rw [scatter_length]; exact hlen) e
        refine ⟨r1, ?_, ?_⟩
        · intro v hv t ht
          rw [r2 v (fun c' h' => hv c' (List.mem_cons_of_mem _ h')) t ht]
          exact vget_scatter_out sol c qc v t (hv c List.mem_cons_self) ht
        · intro c' hc'
          rcases List.mem_cons.mp hc' with rfl | hc'
          · refine ⟨out, qc, _, hout, hqc, ?_⟩
            intro i t hi ht
            have hmem := getD_mem_of_lt c' i hi
            rw [r2 (c'.getD i 0) (fun c'' h'' => hdis.1 c'' h'' _ hmem) t ht]
            exact vget_scatter_in sol c' qc hc_nd i t hi ht (by rw [hlen]; have := hc_lt _ hmem; omega)
          · exact r3 c' hc'

/-- **a `no` of the loop** comes from a `no` of the unrepaired function on the induced pair of one component (recorded last
    in `parts`) -/
theorem componentLoop_no (a b : BMat) (mode : Mode) (comps : List (List Nat)) (draws : List (List Bool))
    (sol : List Bool) (parts : List EqOut) (parts' : List EqOut)
    (e : componentLoop a b mode comps draws sol parts = .ok (none, parts')) :
    ∃ c ∈ comps, ∃ out d, out ∈ parts' ∧ isLcEquivalent (subMat a c) (subMat b c) mode d = .ok out ∧ out.sol = none := by
  induction comps generalizing draws sol parts with
  | nil =>
    simp only [componentLoop] at e
    have := Except.ok.inj e
    cases (Prod.mk.inj this).1
  | cons c rest ih =>
    simp only [componentLoop] at e
    split at e
    · cases e
    · rename_i out hout
      split at e
      · rename_i hnone
        have := Except.ok.inj e
        have hp : parts ++ [out] = parts' := (Prod.mk.inj this).2
        exact ⟨c, List.mem_cons_self, out, _, by rw [← hp]; simp, hout, hnone⟩
      · obtain ⟨c', hc', o, d, h1, h2, h3⟩ := ih _ _ _ e
        exact ⟨c', List.mem_cons_of_mem _ hc', o, d, h1, h2, h3⟩

/-! ### validity as a statement about determinants -/

theorem detQ_congr (q q' : Nat → Bool) (m : Nat) (h : ∀ t, t < 4 → q (4 * m + t) = q' (4 * m + t)) :
    detQ q m = detQ q' m := by
  unfold detQ
  have h0 := h 0 (by omega)
  rw [Nat.add_zero] at h0
  rw [h0, h 1 (by omega), h 2 (by omega), h 3 (by omega)]

theorem valid_of_detQ (n : Nat) (q : List Bool) (h : ∀ m, m < n → detQ (vget q) m = true) : isValidClifford n q = true := by
  unfold isValidClifford
  rw [List.all_eq_true]
  intro m hm
  exact h m (List.mem_range.mp hm)

/-- the induced-pair equations and determinants, transferred between two vectors that agree through the re-indexing -/
theorem sub_transfer (c : List Nat) (A' B' : Adj) (q : Nat → Bool) (qc : Nat → Bool)
    (hag : ∀ i t, i < c.length → t < 4 → q (4 * c.getD i 0 + t) = qc (4 * i + t)) :
    (∀ i i', i < c.length → i' < c.length →
        equation c.length A' B' (restrictQ q c) i i' = equation c.length A' B' qc i i') ∧
      ∀ i, i < c.length → detQ (restrictQ q c) i = detQ qc i := by
  have hidx : ∀ idx, idx < 4 * c.length → restrictQ q c idx = qc idx := by
    intro idx hidx
    unfold restrictQ
    rw [hag (idx / 4) (idx % 4) (by omega) (by omega)]
    congr 1
    omega
  refine ⟨fun i i' hi hi' => equation_congr_q c.length A' B' _ _ i i' hi hi' hidx, fun i hi => ?_⟩
  apply detQ_congr
  intro t ht
  exact hidx _ (by omega)

/-! ### the repaired function -/

/-- **soundness of `yes` for the repaired function, both modes, every search path**: the assembled `Q` has `4 n` entries,
    satisfies every equation of the system for the whole pair, and every block is invertible -/
theorem isLcEquivalentR_yes (a b : BMat) (mode : Mode) (draws : List (List Bool)) (out : EqOutR) (q : List Bool)
    (ha : Simple a.r a.f) (hb : Simple a.r b.f) (e : isLcEquivalentR a b mode draws = .ok out) (hq : out.sol = some q) :
    q.length = 4 * a.r ∧ (∀ j k, j < a.r → k < a.r → equation a.r a.f b.f (vget q) j k = false) ∧
      isValidClifford a.r q = true := by
  unfold isLcEquivalentR at e
  simp only [] at e
  split at e
  · cases e
  · split at e
    · have := Except.ok.inj e
      rw [← this] at hq
      cases hq
    · rename_i hcomps
      have hcomps' : connectedComponents a.r a.f = connectedComponents a.r b.f := Decidable.not_not.mp hcomps
      split at e
      · cases e
      · rename_i sol parts hloop
        have := Except.ok.inj e
        rw [← this] at hq
        have hsol : sol = some q := hq
        subst hsol
        obtain ⟨hPa, hCa, hSa⟩ := connectedComponents_partition a.r a.f ha.1
        obtain ⟨_, hCb, _⟩ := connectedComponents_partition a.r b.f hb.1
        obtain ⟨r1, _, r3⟩ := componentLoop_yes a b mode a.r _ draws _ [] q parts (fun c hc => hPa.nodup c hc)
          (fun c hc v hv => hPa.lt c hc v hv) hPa.disjoint (by simp) hloop
        have hblock := (block_solution_iff a.r a.f b.f _ (vget q) hPa hCa (by rw [hcomps']; exact hCb)).mpr (by
          intro c hc
          obtain ⟨o, qc, d, ho, hoq, hag⟩ := r3 c hc
          obtain ⟨s, hs, ec⟩ := hSa c hc
          have hpos : 0 < (subMat a c).r := by
            show 0 < c.length
            exact List.length_pos_of_mem (by rw [ec]; exact self_mem_componentOf a.r a.f s hs)
          obtain ⟨_, s2, s3⟩ := isLcEquivalent_sound_all (subMat a c) (subMat b c) mode d o qc hpos ho hoq
          have s2' := (solF_coeff_iff c.length (subAdj a.f c) (subAdj b.f c) (vget qc)).mp s2
          obtain ⟨t1, t2⟩ := sub_transfer c (subAdj a.f c) (subAdj b.f c) (vget q) (vget qc) hag
          refine ⟨fun i i' hi hi' => ?_, fun i hi => ?_⟩
          · rw [t1 i i' hi hi']; exact s2' i i' hi hi'
          · rw [t2 i hi]; exact detQ_of_valid c.length qc s3 i hi)
        exact ⟨r1, hblock.1, valid_of_detQ a.r q hblock.2⟩

/-- **a `no` of the repaired function** is either "the component partitions differ" or a `no` of the unrepaired function on
    the induced pair of one common component (its result is listed in `out.parts`) -/
theorem isLcEquivalentR_no (a b : BMat) (mode : Mode) (draws : List (List Bool)) (out : EqOutR)
    (e : isLcEquivalentR a b mode draws = .ok out) (hq : out.sol = none) :
    connectedComponents a.r a.f ≠ connectedComponents a.r b.f ∨
      (connectedComponents a.r a.f = connectedComponents a.r b.f ∧
        ∃ c ∈ connectedComponents a.r a.f, ∃ o d, o ∈ out.parts ∧
          isLcEquivalent (subMat a c) (subMat b c) mode d = .ok o ∧ o.sol = none) := by
  unfold isLcEquivalentR at e
  simp only [] at e
  split at e
  · cases e
  · split at e
    · rename_i hcomps
      exact Or.inl hcomps
    · rename_i hcomps
      have hcomps' : connectedComponents a.r a.f = connectedComponents a.r b.f := Decidable.not_not.mp hcomps
      split at e
      · cases e
      · rename_i sol parts hloop
        have := Except.ok.inj e
        rw [← this] at hq
        have hsol : sol = none := hq
        subst hsol
        obtain ⟨c, hc, o, d, h1, h2, h3⟩ := componentLoop_no a b mode _ draws _ [] parts hloop
        exact Or.inr ⟨hcomps', c, hc, o, d, by rw [← this]; exact h1, h2, h3⟩

/-- **restriction**: a valid `Q` of the whole pair (graphs with the same components) gives a valid `Q` of the induced pair of
    every component -/
theorem restrict_valid (n : Nat) (A B : Adj) (hA : Simple n A) (hB : Simple n B)
    (hcomps : connectedComponents n A = connectedComponents n B) (v : List Bool)
    (hv : ∀ j k, j < n → k < n → equation n A B (vget v) j k = false) (hval : isValidClifford n v = true)
    (c : List Nat) (hc : c ∈ connectedComponents n A) :
    ∃ w : List Bool, (∀ i i', i < c.length → i' < c.length →
        equation c.length (subAdj A c) (subAdj B c) (vget w) i i' = false) ∧ isValidClifford c.length w = true := by
  obtain ⟨hPa, hCa, _⟩ := connectedComponents_partition n A hA.1
  obtain ⟨_, hCb, _⟩ := connectedComponents_partition n B hB.1
  have hblock := (block_solution_iff n A B _ (vget v) hPa hCa (by rw [hcomps]; exact hCb)).mp
    ⟨hv, fun m hm => detQ_of_valid n v hval m hm⟩ c hc
  refine ⟨(List.range (4 * c.length)).map (restrictQ (vget v) c), ?_, ?_⟩
  · intro i i' hi hi'
    rw [equation_congr_q c.length _ _ _ (restrictQ (vget v) c) i i' hi hi'
      (fun idx hidx => vget_map_range (4 * c.length) _ idx hidx)]
    exact hblock.1 i i' hi hi'
  · apply valid_of_detQ
    intro m hm
    rw [detQ_congr _ (restrictQ (vget v) c) m (fun t ht => vget_map_range (4 * c.length) _ _ (by omega))]
    exact hblock.2 m hm

/-! ### search paths of the unrepaired function, and the checked path of `lc_check` over the repaired one -/

/-- the search path recorded by `isLcEquivalent` is one of four, and the last two tell the mode -/
theorem isLcEquivalent_paths (a b : BMat) (mode : Mode) (draws : List Bool) (out : EqOut)
    (e : isLcEquivalent a b mode draws = .ok out) :
    out.path = "full-rank" ∨ out.path = "all-combinations" ∨ (out.path = "random" ∧ mode = .rand) ∨
      (out.path = "pair-sums" ∧ mode = .det) := by
  unfold isLcEquivalent at e
  simp only [] at e
  repeat' split at e
  all_goals first
    | (cases e; done)
    | (have h := Except.ok.inj e; subst h; simp)

/-- in deterministic mode the draws are never read -/
theorem isLcEquivalent_det_draws (a b : BMat) (d d' : List Bool) :
    isLcEquivalent a b .det d = isLcEquivalent a b .det d' := by
  unfold isLcEquivalent
  rfl

theorem lcCheckR_sound (a b : BMat) (gates : List (String × Nat)) (hA : Simple a.r a.f)
    (e : lcCheckR a b true = .ok (true, gates)) :
    ∃ t, runGates (graphTab a.r a.f) gates = .ok t ∧ t.n = a.r ∧ t.Valid ∧
      ∀ q, q < a.r → InSpan t.n t.n t.stab (graphGen b.f q) := by
  unfold lcCheckR at e
  split at e
  · cases e
  · simp only [if_true] at e
    split at e
    · cases e
    · rename_i t et
      split at e
      · rename_i hg
        cases e
        obtain ⟨h1, h2⟩ := runGates_spec _ t gates (graphTab_valid a.r a.f hA) et
        refine ⟨t, et, h1, h2, fun q hq => isGraphState_inSpan t b.f hg q (by rw [h1]; exact hq)⟩
      · cases e

/-- every component is non-empty, its vertices are vertices of the graph, and its induced graph is simple and connected -/
theorem component_facts (n : Nat) (A : Adj) (hA : Simple n A) (c : List Nat) (hc : c ∈ connectedComponents n A) :
    0 < c.length ∧ (∀ v ∈ c, v < n) ∧ Simple c.length (subAdj A c) ∧ Connected c.length (subAdj A c) := by
  obtain ⟨hP, _, hS⟩ := connectedComponents_partition n A hA.1
  obtain ⟨s, hs, e⟩ := hS c hc
  have hlt : ∀ v ∈ c, v < n := fun v hv => hP.lt c hc v hv
  refine ⟨List.length_pos_of_mem (by rw [e]; exact self_mem_componentOf n A s hs), hlt, sub_simple n A hA c hlt, ?_⟩
  rw [e]; exact sub_connected n A hA.1 s hs

end Graphiq.LC
