/-
  Proofs/TabSpecHom.lean — the column maps of the qubit-number-changing operations are homomorphisms of the signed
  Pauli product, for every size:
  `insertCol` (insert an identity site), `deleteCol` (drop a site on which both factors are I or Z), `swap`
  (exchange two sites), `truncCols` / `shiftCols` (embed into the left / right factor of a tensor product).
-/
import GraphiqModel.Proofs.TabSpecGroup
namespace Graphiq.TabSpec
open Graphiq PRow Tab STab

/-! ### sums -/

theorem sumTo_insert (n k : Nat) (f : Nat → Int) (hk : k ≤ n) :
    sumTo (n + 1) (fun j => if j < k then f j else if j = k then 0 else f (j - 1)) = sumTo n f := by
  induction n with
  | zero =>
    have : k = 0 := by omega
    subst this
    simp [sumTo]
  | succ m ih =>
    by_cases hkm : k = m + 1
    · subst hkm
      simp only [sumTo]
      have e : sumTo m (fun j => if j < m + 1 then f j else if j = m + 1 then 0 else f (j - 1)) = sumTo m f := by
        apply sumTo_congr; intro j hj
        have : j < m + 1 := by omega
        simp [this]
      rw [e]
      simp
    · have hk' : k ≤ m := by omega
      have := ih hk'
      rw [sumTo, this]
      have h1 : ¬ (m + 1 < k) := by omega
      have h2 : m + 1 ≠ k := by omega
      simp [h1, h2, sumTo]

theorem sumTo_delete (n k : Nat) (f : Nat → Int) (hk : k ≤ n) (hz : f k = 0) :
    sumTo n (fun j => if j < k then f j else f (j + 1)) = sumTo (n + 1) f := by
  rw [← sumTo_insert n k (fun j => if j < k then f j else f (j + 1)) hk]
  apply sumTo_congr
  intro j hj
  by_cases h1 : j < k
  · simp [h1]
  · by_cases h2 : j = k
    · subst h2; simp [hz]
    · have h3 : ¬ (j - 1 < k) := by omega
      have h4 : j - 1 + 1 = j := by omega
      simp [h1, h2, h3, h4]

theorem sumTo_split (a b : Nat) (f : Nat → Int) :
    sumTo (a + b) f = sumTo a f + sumTo b (fun j => f (a + j)) := by
  induction b with
  | zero => simp [sumTo]
  | succ k ih =>
    show sumTo (a + k + 1) f = _
    simp only [sumTo, ih]
    omega

theorem sumTo_swap (n a b : Nat) (f : Nat → Int) (ha : a < n) (hb : b < n) :
    sumTo n (fun j => if j = a then f b else if j = b then f a else f j) = sumTo n f := by
  by_cases hab : a = b
  · subst hab
    apply sumTo_congr; intro j _
    by_cases h : j = a <;> simp [h]
  · have key := sumTo_diff_two n a b (fun j => if j = a then f b else if j = b then f a else f j) f ha hb hab
      (by intro j h1 h2; simp [h1, h2])
    have hba : b ≠ a := Ne.symm hab
    simp only [if_true, hba, if_false] at key
    omega

/-! ### `insertCol` -/

theorem gFun_zero : gFun false false false false = 0 := by decide

theorem gFun_xfree (z1 z2 : Bool) : gFun false z1 false z2 = 0 := by cases z1 <;> cases z2 <;> decide

theorem gSum_insertCol (n k : Nat) (hk : k ≤ n) (a b : PRow) :
    gSum (n + 1) (a.insertCol k) (b.insertCol k) = gSum n a b := by
  unfold gSum
  rw [← sumTo_insert n k (fun j => gFun (a.x j) (a.z j) (b.x j) (b.z j)) hk]
  apply sumTo_congr; intro j _
  simp only [PRow.insertCol]
  by_cases h1 : j < k
  · simp [h1]
  · by_cases h2 : j = k
    · simp [h2, gFun_zero]
    · simp [h1, h2]

theorem insertCol_ph (k : Nat) (a : PRow) : (a.insertCol k).ph = a.ph := rfl

theorem insertCol_mul (n k : Nat) (hk : k ≤ n) (a b : PRow) :
    EqOn (n + 1) ((PRow.mul n a b).insertCol k) (PRow.mul (n + 1) (a.insertCol k) (b.insertCol k)) := by
  apply eqOn_of
  · intro j _
    simp only [PRow.insertCol, mul_x, mul_z]
    by_cases h1 : j < k
    · simp [h1]
    · by_cases h2 : j = k
      · simp [h2]
      · simp [h1, h2]
  · rw [insertCol_ph, mul_ph, mul_ph, gSum_insertCol n k hk, insertCol_ph, insertCol_ph]

theorem insertCol_congr (n k : Nat) (hk : k ≤ n) (a b : PRow) (h : EqOn n a b) :
    EqOn (n + 1) (a.insertCol k) (b.insertCol k) := by
  refine ⟨fun j hj => ?_, h.2.1, h.2.2⟩
  simp only [PRow.insertCol]
  by_cases h1 : j < k
  · simp only [h1, if_true]; exact h.1 j (by omega)
  · by_cases h2 : j = k
    · simp [h2]
    · simp only [h1, h2, if_false]; exact h.1 (j - 1) (by omega)

theorem insertCol_one (n k : Nat) : EqOn n (PRow.one.insertCol k) PRow.one := by
  refine ⟨fun j _ => ?_, rfl, rfl⟩
  simp [PRow.insertCol, PRow.one]

theorem insertCol_negate (k : Nat) (a : PRow) : (negate a).insertCol k = negate (a.insertCol k) := rfl

theorem insertCol_x (k : Nat) (a : PRow) : (a.insertCol k).x k = false := by simp [PRow.insertCol]
theorem insertCol_z (k : Nat) (a : PRow) : (a.insertCol k).z k = false := by simp [PRow.insertCol]

/-! ### `deleteCol` -/

theorem deleteCol_ph (k : Nat) (a : PRow) : (a.deleteCol k).ph = a.ph := rfl

theorem gSum_deleteCol (n k : Nat) (hk : k ≤ n) (a b : PRow) (hg : gFun (a.x k) (a.z k) (b.x k) (b.z k) = 0) :
    gSum n (a.deleteCol k) (b.deleteCol k) = gSum (n + 1) a b := by
  unfold gSum
  rw [← sumTo_delete n k (fun j => gFun (a.x j) (a.z j) (b.x j) (b.z j)) hk hg]
  apply sumTo_congr; intro j _
  simp only [PRow.deleteCol]
  by_cases h1 : j < k <;> simp [h1]

/-- dropping a site on which both factors act as `I` or `Z` respects the signed product -/
theorem deleteCol_mul (n k : Nat) (hk : k ≤ n) (a b : PRow) (ha : a.x k = false) (hb : b.x k = false) :
    EqOn n ((PRow.mul (n + 1) a b).deleteCol k) (PRow.mul n (a.deleteCol k) (b.deleteCol k)) := by
  apply eqOn_of
  · intro j _
    simp only [PRow.deleteCol, mul_x, mul_z]
    by_cases h1 : j < k <;> simp [h1]
  · rw [deleteCol_ph, mul_ph, mul_ph, gSum_deleteCol n k hk a b (by rw [ha, hb]; exact gFun_xfree _ _),
      deleteCol_ph, deleteCol_ph]

theorem deleteCol_congr (n k : Nat) (a b : PRow) (h : EqOn (n + 1) a b) :
    EqOn n (a.deleteCol k) (b.deleteCol k) := by
  refine ⟨fun j hj => ?_, h.2.1, h.2.2⟩
  simp only [PRow.deleteCol]
  by_cases h1 : j < k
  · simp only [h1, if_true]; exact h.1 j (by omega)
  · simp only [h1, if_false]; exact h.1 (j + 1) (by omega)

theorem deleteCol_insertCol (n k : Nat) (a : PRow) : EqOn n ((a.insertCol k).deleteCol k) a := by
  refine ⟨fun j _ => ?_, rfl, rfl⟩
  simp only [PRow.deleteCol, PRow.insertCol]
  by_cases h1 : j < k
  · simp [h1]
  · have h2 : ¬ (j + 1 < k) := by omega
    have h3 : j + 1 ≠ k := by omega
    simp [h1, h2, h3]

theorem insertCol_deleteCol (n k : Nat) (a : PRow) (hx : a.x k = false) (hz : a.z k = false) :
    EqOn n ((a.deleteCol k).insertCol k) a := by
  refine ⟨fun j _ => ?_, rfl, rfl⟩
  simp only [PRow.deleteCol, PRow.insertCol]
  by_cases h1 : j < k
  · simp [h1]
  · by_cases h2 : j = k
    · subst h2; simp [hx, hz]
    · have h3 : ¬ (j - 1 < k) := by omega
      have h4 : j - 1 + 1 = j := by omega
      simp [h1, h2, h3, h4]

theorem deleteCol_one (n k : Nat) : EqOn n (PRow.one.deleteCol k) PRow.one := by
  refine ⟨fun j _ => ?_, rfl, rfl⟩
  simp [PRow.deleteCol, PRow.one]

theorem deleteCol_negate (k : Nat) (a : PRow) : (negate a).deleteCol k = negate (a.deleteCol k) := rfl

/-- commutation of two rows that act as `I`/`Z` on site `k` is read off the remaining sites -/
theorem sp_deleteCol_xfree (n k : Nat) (hk : k ≤ n) (a b : PRow) (ha : a.x k = false) (hb : b.x k = false) :
    sp n (a.deleteCol k) (b.deleteCol k) = sp (n + 1) a b :=
  sp_deleteCol n k hk a b (by rw [ha, hb]; simp)

/-! ### `swap` -/

theorem swap_swap (a b : Nat) (p : PRow) : PRow.swap a b (PRow.swap a b p) = p := by
  cases p with
  | mk x z r ip =>
    simp only [PRow.swap]
    congr 1 <;> funext j <;> by_cases h1 : j = a <;> by_cases h2 : j = b <;> by_cases h3 : b = a <;>
      simp_all

theorem swap_ph (a b : Nat) (p : PRow) : (PRow.swap a b p).ph = p.ph := rfl

theorem gSum_swap (n a b : Nat) (ha : a < n) (hb : b < n) (u v : PRow) :
    gSum n (PRow.swap a b u) (PRow.swap a b v) = gSum n u v := by
  unfold gSum
  rw [← sumTo_swap n a b (fun j => gFun (u.x j) (u.z j) (v.x j) (v.z j)) ha hb]
  apply sumTo_congr; intro j _
  simp only [PRow.swap]
  by_cases h1 : j = a
  · simp [h1]
  · by_cases h2 : j = b
    · subst h2
      have hba : ¬ (j = a) := h1
      simp [hba]
    · simp [h1, h2]

theorem swap_mul (n a b : Nat) (ha : a < n) (hb : b < n) (u v : PRow) :
    EqOn n (PRow.swap a b (PRow.mul n u v)) (PRow.mul n (PRow.swap a b u) (PRow.swap a b v)) := by
  apply eqOn_of
  · intro j _
    simp only [PRow.swap, mul_x, mul_z]
    by_cases h1 : j = a
    · simp [h1]
    · by_cases h2 : j = b
      · subst h2
        have hba : ¬ (j = a) := h1
        simp [hba]
      · simp [h1, h2]
  · rw [swap_ph, mul_ph, mul_ph, gSum_swap n a b ha hb, swap_ph, swap_ph]

theorem swap_congr (n a b : Nat) (ha : a < n) (hb : b < n) (u v : PRow) (h : EqOn n u v) :
    EqOn n (PRow.swap a b u) (PRow.swap a b v) := by
  refine ⟨fun j hj => ?_, h.2.1, h.2.2⟩
  simp only [PRow.swap]
  by_cases h1 : j = a
  · simp only [h1, if_true]; exact h.1 b hb
  · by_cases h2 : j = b
    · subst h2
      have hba : ¬ (j = a) := h1
      simp only [hba, if_true, if_false]; exact h.1 a ha
    · simp only [h1, h2, if_false]; exact h.1 j hj

theorem swap_one (a b : Nat) : PRow.swap a b PRow.one = PRow.one := by
  simp [PRow.swap, PRow.one]

/-! ### tensor factors -/

theorem truncCols_ph (n : Nat) (a : PRow) : (a.truncCols n).ph = a.ph := rfl
theorem shiftCols_ph (n : Nat) (a : PRow) : (a.shiftCols n).ph = a.ph := rfl

theorem gSum_split (na nb : Nat) (A B : PRow) :
    gSum (na + nb) A B = gSum na A B + sumTo nb (fun j => gFun (A.x (na + j)) (A.z (na + j)) (B.x (na + j)) (B.z (na + j))) := by
  unfold gSum
  exact sumTo_split na nb _

theorem gSum_trunc_trunc (na nb : Nat) (a b : PRow) :
    gSum (na + nb) (a.truncCols na) (b.truncCols na) = gSum na a b := by
  rw [gSum_split]
  have h2 : sumTo nb (fun j => gFun ((a.truncCols na).x (na + j)) ((a.truncCols na).z (na + j))
      ((b.truncCols na).x (na + j)) ((b.truncCols na).z (na + j))) = 0 := by
    rw [sumTo_congr nb _ (fun _ => 0)]
    · exact sumTo_zero nb
    · intro j _
      have : ¬ (na + j < na) := by omega
      simp [PRow.truncCols, this, gFun_zero]
  rw [h2]
  have h1 : gSum na (a.truncCols na) (b.truncCols na) = gSum na a b := by
    apply gSum_congr <;> (intro j hj; simp [PRow.truncCols, hj])
  rw [h1]; omega

theorem gSum_shift_shift (na nb : Nat) (a b : PRow) :
    gSum (na + nb) (a.shiftCols na) (b.shiftCols na) = gSum nb a b := by
  rw [gSum_split]
  have h1 : gSum na (a.shiftCols na) (b.shiftCols na) = 0 := by
    unfold gSum
    rw [sumTo_congr na _ (fun _ => 0)]
    · exact sumTo_zero na
    · intro j hj
      simp [PRow.shiftCols, hj, gFun_zero]
  rw [h1]
  have h2 : sumTo nb (fun j => gFun ((a.shiftCols na).x (na + j)) ((a.shiftCols na).z (na + j))
      ((b.shiftCols na).x (na + j)) ((b.shiftCols na).z (na + j))) = gSum nb a b := by
    unfold gSum
    apply sumTo_congr; intro j _
    have : ¬ (na + j < na) := by omega
    simp [PRow.shiftCols, this]
  rw [h2]; omega

theorem gSum_trunc_shift (na nb : Nat) (a b : PRow) :
    gSum (na + nb) (a.truncCols na) (b.shiftCols na) = 0 := by
  unfold gSum
  rw [sumTo_congr (na + nb) _ (fun _ => 0)]
  · exact sumTo_zero _
  · intro j _
    by_cases h : j < na
    · simp [PRow.truncCols, PRow.shiftCols, h, gFun_one_right]
    · simp [PRow.truncCols, PRow.shiftCols, h, gFun_one_left]

theorem truncCols_mul (na nb : Nat) (a b : PRow) :
    EqOn (na + nb) ((PRow.mul na a b).truncCols na) (PRow.mul (na + nb) (a.truncCols na) (b.truncCols na)) := by
  apply eqOn_of
  · intro j _
    simp only [PRow.truncCols, mul_x, mul_z]
    by_cases h : j < na <;> simp [h]
  · rw [truncCols_ph, mul_ph, mul_ph, gSum_trunc_trunc, truncCols_ph, truncCols_ph]

theorem shiftCols_mul (na nb : Nat) (a b : PRow) :
    EqOn (na + nb) ((PRow.mul nb a b).shiftCols na) (PRow.mul (na + nb) (a.shiftCols na) (b.shiftCols na)) := by
  apply eqOn_of
  · intro j _
    simp only [PRow.shiftCols, mul_x, mul_z]
    by_cases h : j < na <;> simp [h]
  · rw [shiftCols_ph, mul_ph, mul_ph, gSum_shift_shift, shiftCols_ph, shiftCols_ph]

theorem truncCols_congr (na nb : Nat) (a b : PRow) (h : EqOn na a b) :
    EqOn (na + nb) (a.truncCols na) (b.truncCols na) := by
  refine ⟨fun j _ => ?_, h.2.1, h.2.2⟩
  simp only [PRow.truncCols]
  by_cases hj : j < na
  · simp only [hj, decide_true, Bool.true_and]; exact h.1 j hj
  · simp [hj]

theorem shiftCols_congr (na nb : Nat) (a b : PRow) (h : EqOn nb a b) :
    EqOn (na + nb) (a.shiftCols na) (b.shiftCols na) := by
  refine ⟨fun j hj' => ?_, h.2.1, h.2.2⟩
  simp only [PRow.shiftCols]
  by_cases hj : j < na
  · simp [hj]
  · simp only [hj, if_false]; exact h.1 (j - na) (by omega)

theorem truncCols_one (n m : Nat) : EqOn m (PRow.one.truncCols n) PRow.one := by
  refine ⟨fun j _ => ?_, rfl, rfl⟩
  simp [PRow.truncCols, PRow.one]

theorem shiftCols_one (n m : Nat) : EqOn m (PRow.one.shiftCols n) PRow.one := by
  refine ⟨fun j _ => ?_, rfl, rfl⟩
  simp [PRow.shiftCols, PRow.one]

/-- the row `P ⊗ Q` on `na + nb` qubits -/
def tensorRow (na nb : Nat) (P Q : PRow) : PRow := PRow.mul (na + nb) (P.truncCols na) (Q.shiftCols na)

theorem tensorRow_x (na nb : Nat) (P Q : PRow) (j : Nat) :
    (tensorRow na nb P Q).x j = if j < na then P.x j else Q.x (j - na) := by
  unfold tensorRow
  simp only [mul_x, PRow.truncCols, PRow.shiftCols]
  by_cases h : j < na <;> simp [h]

theorem tensorRow_z (na nb : Nat) (P Q : PRow) (j : Nat) :
    (tensorRow na nb P Q).z j = if j < na then P.z j else Q.z (j - na) := by
  unfold tensorRow
  simp only [mul_z, PRow.truncCols, PRow.shiftCols]
  by_cases h : j < na <;> simp [h]

theorem tensorRow_ph (na nb : Nat) (P Q : PRow) : (tensorRow na nb P Q).ph = (P.ph + Q.ph) % 4 := by
  unfold tensorRow
  rw [mul_ph, gSum_trunc_shift, truncCols_ph, shiftCols_ph]; omega

theorem gSum_tensorRow (na nb : Nat) (P1 Q1 P2 Q2 : PRow) :
    gSum (na + nb) (tensorRow na nb P1 Q1) (tensorRow na nb P2 Q2) = gSum na P1 P2 + gSum nb Q1 Q2 := by
  rw [gSum_split]
  congr 1
  · apply gSum_congr <;> (intro j hj; simp [tensorRow_x, tensorRow_z, hj])
  · unfold gSum
    apply sumTo_congr; intro j _
    have : ¬ (na + j < na) := by omega
    simp [tensorRow_x, tensorRow_z, this]

/-- `(P₁ ⊗ Q₁)(P₂ ⊗ Q₂) = (P₁P₂) ⊗ (Q₁Q₂)`, signs included -/
theorem tensorRow_mul (na nb : Nat) (P1 Q1 P2 Q2 : PRow) :
    EqOn (na + nb) (PRow.mul (na + nb) (tensorRow na nb P1 Q1) (tensorRow na nb P2 Q2))
      (tensorRow na nb (PRow.mul na P1 P2) (PRow.mul nb Q1 Q2)) := by
  apply eqOn_of
  · intro j _
    simp only [mul_x, mul_z, tensorRow_x, tensorRow_z]
    by_cases h : j < na <;> simp [h]
  · rw [mul_ph, gSum_tensorRow, tensorRow_ph, tensorRow_ph, tensorRow_ph, mul_ph, mul_ph]
    omega

theorem tensorRow_congr (na nb : Nat) (P P' Q Q' : PRow) (hP : EqOn na P P') (hQ : EqOn nb Q Q') :
    EqOn (na + nb) (tensorRow na nb P Q) (tensorRow na nb P' Q') :=
  mul_congr _ _ _ _ _ (truncCols_congr na nb P P' hP) (shiftCols_congr na nb Q Q' hQ)

theorem tensorRow_one_right (na nb : Nat) (P : PRow) : EqOn (na + nb) (tensorRow na nb P PRow.one) (P.truncCols na) :=
  (mul_congr _ _ _ _ _ (EqOn.refl _ _) (shiftCols_one na (na + nb))).trans (mul_one _ _)

theorem tensorRow_one_left (na nb : Nat) (Q : PRow) : EqOn (na + nb) (tensorRow na nb PRow.one Q) (Q.shiftCols na) :=
  (mul_congr _ _ _ _ _ (truncCols_one na (na + nb)) (EqOn.refl _ _)).trans (one_mul _ _)

end Graphiq.TabSpec
