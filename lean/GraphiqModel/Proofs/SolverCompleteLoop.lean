/-
  Proofs/SolverCompleteLoop.lean — completeness of the time-reversed solver, part 6: the loop invariant of
  `for j in range(n_photon, 0, -1)` and the proof that every round returns and re-establishes it (Li–Economou–Barnes).

  `RInv np ne m s` (before the round that absorbs photon `m - 1`): the working tableau is a real, commuting, independent generating
  set on `np + ne` qubits; the photons `m..np-1` are absorbed (their columns are literal: one generator is `+Z_q`, nobody else acts
  on `q`); no remaining photon `p < m` is a product qubit; and the emitter budget bounds the height of every cut left of the photon
  to be absorbed (`h(k) ≤ ne` for `k + 1 < m`; these cuts are never touched again, so this is inherited from `ne = max h(target)`).
  The invariant carries a set `I` of ISOLATED photons (product qubits `X_p`, column `LitX`): with `I` empty every round returns
  (`photonLoop_ok`); if some remaining photon is isolated the loop raises IndexError at the first one it meets (`photonLoop_err`, D3).
-/
import GraphiqModel.Proofs.SolverCompleteAbsorb
import GraphiqModel.Proofs.SolverCompleteLitX
import GraphiqModel.Proofs.SolverCompleteCount
namespace Graphiq.Solver
open Graphiq Graphiq.Cliff PRow STab

/-! ### counting generators by leading site -/

def cnt (n : Nat) (f : Nat → Bool) : Nat := ((List.range n).filter f).length

theorem cnt_succ (n : Nat) (f : Nat → Bool) : cnt (n + 1) f = cnt n f + (if f n then 1 else 0) := by
  unfold cnt
  rw [List.range_succ, List.filter_append, List.length_append]
  cases h : f n <;> simp [h]

theorem cnt_split (n : Nat) (P Q R : Nat → Bool) (h : ∀ i, i < n → P i = (Q i || R i))
    (hx : ∀ i, i < n → ¬ (Q i = true ∧ R i = true)) : cnt n P = cnt n Q + cnt n R := by
  induction n with
  | zero => rfl
  | succ k ih =>
    rw [cnt_succ, cnt_succ, cnt_succ, ih (fun i hi => h i (by omega)) (fun i hi => hx i (by omega))]
    have h1 := h k (by omega)
    have h2 := hx k (by omega)
    cases hq : Q k <;> cases hr : R k <;> simp [h1, hq, hr] at h2 ⊢ <;> omega

theorem cnt_pos (n : Nat) (f : Nat → Bool) (h : 0 < cnt n f) : ∃ i, i < n ∧ f i = true := by
  induction n with
  | zero => simp [cnt] at h
  | succ k ih =>
    rw [cnt_succ] at h
    cases hf : f k
    · rw [hf] at h
      obtain ⟨i, hi, hfi⟩ := ih (by simpa using h)
      exact ⟨i, by omega, hfi⟩
    · exact ⟨k, by omega, hf⟩

theorem cnt_le_one (n : Nat) (f : Nat → Bool) (h : ∀ i j, i < n → j < n → f i = true → f j = true → i = j) : cnt n f ≤ 1 := by
  induction n with
  | zero => simp [cnt]
  | succ k ih =>
    rw [cnt_succ]
    cases hf : f k
    · simp only [Bool.false_eq_true, if_false, Nat.add_zero]
      exact ih (fun i j hi hj => h i j (by omega) (by omega))
    · simp only [if_true]
      have : cnt k f = 0 := by
        apply Nat.eq_zero_of_not_pos
        intro hpos
        obtain ⟨i, hi, hfi⟩ := cnt_pos k f hpos
        have := h i k (by omega) (by omega) hfi hf
        omega
      omega

theorem cnt_true (n : Nat) : cnt n (fun _ => true) = n := by
  simp [cnt]

/-! ### the loop invariant -/

structure RInv (I : Nat → Prop) (np ne m : Nat) (s : St) : Prop where
  m_le : m ≤ np
  np_eq : s.np = np
  ne_eq : s.ne = ne
  n_eq : s.t.n = np + ne
  good : s.t.Good
  indep : s.t.LinIndep
  lit : ∀ q, m ≤ q → q < np → s.t.Lit q
  notProd : ∀ p, p < m → ¬ I p → s.t.NotProd p
  litx : ∀ p, p < m → I p → s.t.LitX p
  cut : ∀ k, k + 1 < m → s.t.cutRank k ≤ ne + (k + 1)

/-- the invariant along gates on the photon `p = m - 1` and the emitters, and witnessed row operations: everything is kept except
    what concerns photon `p` itself -/
theorem RInv.reach {I : Nat → Prop} {np ne p : Nat} {s : St} (h : RInv I np ne (p + 1) s) (hp : p < np) (t' : STab)
    (hr : Reach (fun c => c = p ∨ np ≤ c) s.t t') :
    t'.n = np + ne ∧ t'.Good ∧ t'.LinIndep ∧ (∀ q, p + 1 ≤ q → q < np → t'.Lit q) ∧ (∀ p', p' < p → ¬ I p' → t'.NotProd p') ∧
    (∀ p', p' < p → I p' → t'.LitX p') ∧ (∀ k, k + 1 < p + 1 → t'.cutRank k ≤ ne + (k + 1)) := by
  refine ⟨hr.n_eq.trans h.n_eq, hr.good h.good, hr.indep h.good h.indep, ?_, ?_, ?_, ?_⟩
  · intro q hq1 hq2
    exact hr.lit q (by rw [h.n_eq]; omega) (by intro hA; rcases hA with e | e <;> omega) (h.lit q hq1 hq2)
  · intro p' hp' hI
    exact hr.notProd h.good p' (by rw [h.n_eq]; omega) (by intro hA; rcases hA with e | e <;> omega) (h.notProd p' (by omega) hI)
  · intro p' hp' hI
    exact hr.litX p' (by rw [h.n_eq]; omega) (by intro hA; rcases hA with e | e <;> omega) (h.litx p' (by omega) hI)
  · intro k hk
    rw [hr.cutRank_eq h.good k (by intro c hA; rcases hA with e | e <;> omega)]
    exact h.cut k hk

/-! ### consequences of the echelon gauge under the invariant -/

/-- in an echelon tableau at most one generator leads at a literal column -/
theorem lit_lead_unique (t : STab) (piv : Nat → Nat) (he : Echelon t piv) (q : Nat) (hl : t.Lit q) :
    cnt t.n (fun i => decide (piv i = q)) ≤ 1 := by
  obtain ⟨w, _, _, hoth⟩ := hl
  apply cnt_le_one
  intro i j hi hj hfi hfj
  simp only [decide_eq_true_eq] at hfi hfj
  have hiw : i = w := by
    apply Classical.byContradiction
    intro hne
    have := (he.lead i hi).2.2
    rw [hfi] at this
    exact this (hoth i hi hne)
  have hjw : j = w := by
    apply Classical.byContradiction
    intro hne
    have := (he.lead j hj).2.2
    rw [hfj] at this
    exact this (hoth j hj hne)
  rw [hiw, hjw]

theorem count_step (t : STab) (piv : Nat → Nat) (k : Nat) :
    cnt t.n (fun i => decide (k < piv i)) = cnt t.n (fun i => decide (k + 1 < piv i)) + cnt t.n (fun i => decide (piv i = k + 1)) := by
  apply cnt_split
  · intro i _
    by_cases h1 : k + 1 < piv i
    · have : k < piv i := by omega
      simp [h1, this]
    · by_cases h2 : piv i = k + 1
      · have : k < piv i := by omega
        simp [h2]
      · have : ¬ k < piv i := by omega
        simp [h1, h2, this]
  · intro i _ ⟨h1, h2⟩
    simp only [decide_eq_true_eq] at h1 h2
    omega

/-- **a free emitter exists** (Li–Economou–Barnes): in the echelon gauge, if the height at the photon `p` to be absorbed is below the
    emitter budget (`h(p) < ne`) and the photons right of `p` are absorbed, some generator acts on no photon at all -/
theorem free_emitter_exists (np ne p : Nat) (t : STab) (piv : Nat → Nat) (he : Echelon t piv) (hn : t.n = np + ne) (hp : p < np)
    (hlit : ∀ q, p + 1 ≤ q → q < np → t.Lit q) (hl : List Int) (hh : t.heightFuncList = .ok hl)
    (hcond : hl.getD p 0 < (ne : Int)) : ∃ i, i < t.n ∧ ∀ j, j < np → t.ptype i j = 0 := by
  have hC : ∀ k, k < t.n → ((cnt t.n (fun i => decide (k < piv i)) : Nat) : Int) = (t.n : Int) - ((k : Int) + 1) - hl.getD k 0 :=
    fun k hk => echelon_count_right t piv he hl hh k hk
  have hstep : ∀ d, p + d < np → cnt t.n (fun i => decide (p < piv i)) ≤ cnt t.n (fun i => decide (p + d < piv i)) + d := by
    intro d
    induction d with
    | zero => intro _; exact Nat.le_refl _
    | succ d ih =>
      intro hd
      have h1 := ih (by omega)
      have h2 := count_step t piv (p + d)
      have h3 := lit_lead_unique t piv he (p + d + 1) (hlit (p + d + 1) (by omega) (by omega))
      have e : p + (d + 1) = p + d + 1 := by omega
      rw [e]
      omega
  have h1 := hstep (np - 1 - p) (by omega)
  have e : p + (np - 1 - p) = np - 1 := by omega
  rw [e] at h1
  have h2 := hC p (by omega)
  have hpos : 0 < cnt t.n (fun i => decide (np - 1 < piv i)) := by omega
  obtain ⟨i, hi, hfi⟩ := cnt_pos _ _ hpos
  simp only [decide_eq_true_eq] at hfi
  exact ⟨i, hi, fun j hj => (he.lead i hi).2.1 j (by omega)⟩

/-- **a generator starts at the photon** when the height does not drop there (`h(p) ≥ h(p-1)`, the branch of `solve` without
    time-reversed measurement) -/
theorem row_at_exists (t : STab) (piv : Nat → Nat) (he : Echelon t piv) (hl : List Int) (hh : t.heightFuncList = .ok hl)
    (p : Nat) (hp : p < t.n) (hcond : ¬ ((0 :: hl).getD (p + 1) 0 < (0 :: hl).getD p 0)) : ∃ i, i < t.n ∧ piv i = p := by
  have hC : ∀ k, k < t.n → ((cnt t.n (fun i => decide (k < piv i)) : Nat) : Int) = (t.n : Int) - ((k : Int) + 1) - hl.getD k 0 :=
    fun k hk => echelon_count_right t piv he hl hh k hk
  have e1 : (0 :: hl).getD (p + 1) 0 = hl.getD p 0 := by simp [List.getD]
  rw [e1] at hcond
  have hpos : 0 < cnt t.n (fun i => decide (piv i = p)) := by
    cases p with
    | zero =>
      have e0 : (0 :: hl).getD 0 0 = 0 := rfl
      rw [e0] at hcond
      have hsplit : cnt t.n (fun _ => true) = cnt t.n (fun i => decide (0 < piv i)) + cnt t.n (fun i => decide (piv i = 0)) := by
        apply cnt_split
        · intro i _
          by_cases h : piv i = 0
          · simp [h]
          · have : 0 < piv i := by omega
            simp [this]
        · intro i _ ⟨h1, h2⟩
          simp only [decide_eq_true_eq] at h1 h2
          omega
      rw [cnt_true] at hsplit
      have := hC 0 hp
      omega
    | succ p' =>
      have e2 : (0 :: hl).getD (p' + 1) 0 = hl.getD p' 0 := by simp [List.getD]
      rw [e2] at hcond
      have h1 := count_step t piv p'
      have h2 := hC p' (by omega)
      have h3 := hC (p' + 1) hp
      omega
  obtain ⟨i, hi, hfi⟩ := cnt_pos _ _ hpos
  simp only [decide_eq_true_eq] at hfi
  exact ⟨i, hi, hfi⟩

/-- replacing the tableau by the result of witnessed row operations (`rref`) keeps the invariant -/
theorem RInv.cops {I : Nat → Prop} {np ne m : Nat} {s : St} (h : RInv I np ne m s) (t' : STab) (o : COps s.t t') :
    RInv I np ne m { s with t := t' } := by
  have hr : Reach (fun _ => False) s.t t' := Reach.of_cops o
  have hm := h.m_le
  refine ⟨h.m_le, h.np_eq, h.ne_eq, hr.n_eq.trans h.n_eq, hr.good h.good, hr.indep h.good h.indep, ?_, ?_, ?_, ?_⟩
  · intro q hq1 hq2
    exact hr.lit q (by rw [h.n_eq]; omega) (fun f => f) (h.lit q hq1 hq2)
  · intro p hp hI
    exact hr.notProd h.good p (by rw [h.n_eq]; omega) (fun f => f) (h.notProd p hp hI)
  · intro p hp hI
    exact hr.litX p (by rw [h.n_eq]; omega) (fun f => f) (h.litx p hp hI)
  · intro k hk
    rw [hr.cutRank_eq h.good k (fun c f => f.elim)]
    exact h.cut k hk

/-- the hypotheses of `addPhotonAbsorption_ok` under the invariant: a generator starting at photon `p` is trivial on the absorbed
    photons (their columns are literal) and acts on some emitter (otherwise it would be supported on `{p}` alone: a product qubit) -/
theorem absorb_hyps (np p : Nat) (t : STab)
    (hlit : ∀ q, p + 1 ≤ q → q < np → t.Lit q) (hnp : t.NotProd p) :
    (∀ i, i < t.n → t.leftmost i = some p → ∃ c, np ≤ c ∧ c < t.n ∧ t.ptype i c ≠ 0) ∧
    (∀ i, i < t.n → t.leftmost i = some p → ∀ j, p < j → j < np → t.ptype i j = 0) := by
  have hxq : ∀ i, i < t.n → t.leftmost i = some p → ∀ j, p < j → j < np → t.ptype i j = 0 := by
    intro i hi hlm j hj1 hj2
    obtain ⟨w, hw, hrow, hoth⟩ := hlit j (by omega) hj2
    by_cases hiw : i = w
    · exfalso
      obtain ⟨hpn, _, hnt⟩ := leftmost_some t i p hlm
      apply hnt
      rw [hiw, ptype_of_Zq t w j p hpn hrow, if_neg (by omega)]
    · exact hoth i hi hiw
  refine ⟨?_, hxq⟩
  intro i hi hlm
  apply Classical.byContradiction
  intro hno
  obtain ⟨hpn, hlow, hnt⟩ := leftmost_some t i p hlm
  have hz : ∀ j, j < t.n → j ≠ p → t.ptype i j = 0 := by
    intro j hj hjp
    by_cases h1 : j < p
    · exact hlow j h1
    · by_cases h2 : j < np
      · exact hxq i hi hlm j (by omega) h2
      · apply Classical.byContradiction
        intro h3
        exact hno ⟨j, by omega, hj, h3⟩
  have := hnp (t.row i) (spn_gen t i hi) (fun j hj hjp => PRow.pt_zero_bits _ _ (hz j hj hjp))
  exact hnt (PRow.pt_of_bits _ _ this.1 this.2)

/-- **the absorption step of a round**: in the echelon gauge with a generator starting at photon `p`, `_add_photon_absorption` returns
    and the invariant holds for the next round -/
theorem absorb_round (I : Nat → Prop) (np ne p : Nat) (hp : p < np) (hI : ¬ I p) (s : St) (h : RInv I np ne (p + 1) s)
    (piv : Nat → Nat) (he : Echelon s.t piv)
    (hrow : ∃ i, i < s.t.n ∧ piv i = p) :
    ∃ s', addPhotonAbsorption s p = .ok s' ∧ RInv I np ne p s' ∧ Reach (fun c => c = p ∨ np ≤ c) s.t s'.t ∧ KeepsM s s' := by
  have hn : s.t.n = s.np + s.ne := by rw [h.n_eq, h.np_eq, h.ne_eq]
  obtain ⟨h1, h2⟩ := absorb_hyps np p s.t h.lit (h.notProd p (by omega) hI)
  obtain ⟨i, hi, hpi⟩ := hrow
  have hlm : s.t.leftmost i = some p := by
    have hl := he.lead i hi
    rw [← hpi]; exact leftmost_of_lead s.t i (piv i) hl.1 hl.2.1 hl.2.2
  obtain ⟨s', hs', hnp', hne', hr, hlit⟩ := addPhotonAbsorption_ok s p hn (by rw [h.np_eq]; exact hp) h.good ⟨i, hi, hlm⟩
    (by rw [h.np_eq]; exact h1) (by rw [h.np_eq]; exact h2)
  rw [h.np_eq] at hr
  obtain ⟨r1, r2, r3, r4, r5, r5x, r6⟩ := h.reach hp s'.t hr
  refine ⟨s', hs', ⟨by omega, hnp'.trans h.np_eq, hne'.trans h.ne_eq, r1, r2, r3, ?_, r5, r5x, ?_⟩, hr,
    addPhotonAbsorption_mcr s s' p hs'⟩
  · intro q hq1 hq2
    by_cases hqp : q = p
    · rw [hqp]; exact hlit
    · exact r4 q (by omega) hq2
  · intro k hk
    exact r6 k (by omega)

/-! ### one round of the loop -/

/-- the body of `for j in range(n_photon, 0, -1)` (the part of `photonLoop` before the recursive call) -/
def photonRound (s : St) (j : Nat) : Except Err St :=
  match s.t.rref with
  | .error e => .error e
  | .ok (t1, _) =>
    match t1.heightFuncList with
    | .error e => .error e
    | .ok hl =>
      let hl0 : List Int := 0 :: hl
      let s1 : St := { s with t := t1 }
      let step : Except Err St :=
        if hl0.getD j 0 < hl0.getD (j - 1) 0 then
          match timeReversedMeasurement s1 (j - 1) with
          | .error e => .error e
          | .ok s2 =>
            match s2.t.rref with
            | .error e => .error e
            | .ok (t2, _) => .ok { s2 with t := t2 }
        else .ok s1
      match step with
      | .error e => .error e
      | .ok s3 => addPhotonAbsorption s3 (j - 1)

theorem photonLoop_cons (s : St) (j : Nat) (rest : List Nat) :
    photonLoop s (j :: rest) = match photonRound s j with
      | .error e => .error e
      | .ok s4 => photonLoop s4 rest := by
  simp only [photonLoop, photonRound]
  cases s.t.rref with
  | error e => rfl
  | ok v =>
    obtain ⟨t1, b⟩ := v
    simp only
    cases t1.heightFuncList with
    | error e => rfl
    | ok hl =>
      simp only
      by_cases hc : (0 :: hl).getD j 0 < (0 :: hl).getD (j - 1) 0
      · simp only [if_pos hc]
        cases timeReversedMeasurement { s with t := t1 } (j - 1) with
        | error e => rfl
        | ok s2 =>
          simp only
          cases s2.t.rref with
          | error e => rfl
          | ok w =>
            obtain ⟨t2, b2⟩ := w
            simp only
            cases addPhotonAbsorption { s2 with t := t2 } (j - 1) <;> rfl
      · simp only [if_neg hc]
        cases addPhotonAbsorption { s with t := t1 } (j - 1) <;> rfl

/-- the height function drops at photon `p` (`h(p) < h(p-1)`, `h(-1) = 0`), read off the cut ranks — a property of the group only -/
def dropAt (t : STab) (p : Nat) : Prop :=
  (t.cutRank p : Int) - ((p : Int) + 1) < (if p = 0 then 0 else (t.cutRank (p - 1) : Int) - (p : Int))

/-- the test `height_list[j] < height_list[j - 1]` of `solve` (with `j = p + 1`) is `dropAt` -/
theorem cond_iff_dropAt (t : STab) (hl : List Int) (hh : t.heightFuncList = .ok hl) (p : Nat) (hp : p < t.n) :
    ((0 :: hl).getD (p + 1) 0 < (0 :: hl).getD p 0) ↔ dropAt t p := by
  have e1 : (0 :: hl).getD (p + 1) 0 = hl.getD p 0 := by simp [List.getD]
  rw [e1, height_eq_cutRank t hl hh p hp]
  unfold dropAt
  cases p with
  | zero =>
    have e0 : (0 :: hl).getD 0 0 = 0 := rfl
    rw [e0]; simp
  | succ p' =>
    have e2 : (0 :: hl).getD (p' + 1) 0 = hl.getD p' 0 := by simp [List.getD]
    rw [e2, height_eq_cutRank t hl hh p' (by omega)]
    simp only [Nat.add_sub_cancel, Nat.succ_ne_zero, if_false]
    push_cast
    constructor <;> intro h <;> omega

theorem dropAt_congr (t t' : STab) (p : Nat) (h1 : t'.cutRank p = t.cutRank p) (h2 : p ≠ 0 → t'.cutRank (p - 1) = t.cutRank (p - 1)) :
    dropAt t' p ↔ dropAt t p := by
  unfold dropAt
  rw [h1]
  by_cases hp : p = 0
  · simp [hp]
  · rw [h2 hp]

/-- **every round of the main loop returns and re-establishes the invariant**; it touches only the photon and the emitters, and records
    one measure-and-reset exactly when the height function drops at the photon -/
theorem round_ok (I : Nat → Prop) (np ne p : Nat) (hp : p < np) (hI : ¬ I p) (s : St) (h : RInv I np ne (p + 1) s) :
    ∃ s', photonRound s (p + 1) = .ok s' ∧ RInv I np ne p s' ∧ Reach (fun c => c = p ∨ np ≤ c) s.t s'.t ∧
      (dropAt s.t p → mcrCount s'.circ = mcrCount s.circ + 1) ∧ (¬ dropAt s.t p → mcrCount s'.circ = mcrCount s.circ) := by
  -- echelon gauge
  obtain ⟨t1, brs, piv, hr, he⟩ := rref_ok_of_indep s.t h.indep
  have i1 := h.cops t1 (rref_cops s.t t1 brs hr)
  obtain ⟨hl, hh, _⟩ := heightFuncList_ok_of_indep t1 i1.indep
  have hn1 : t1.n = np + ne := i1.n_eq
  have o1 := rref_cops s.t t1 brs hr
  have hdrop : ((0 :: hl).getD (p + 1) 0 < (0 :: hl).getD p 0) ↔ dropAt s.t p := by
    rw [cond_iff_dropAt t1 hl hh p (by omega)]
    have se := (o1.spanEq h.good).1
    exact dropAt_congr s.t t1 p (cutRank_spanEq _ _ se p) (fun _ => cutRank_spanEq _ _ se (p - 1))
  unfold photonRound
  rw [hr]; simp only
  rw [hh]; simp only [Nat.add_sub_cancel]
  by_cases hcond : (0 :: hl).getD (p + 1) 0 < (0 :: hl).getD p 0
  · rw [if_pos hcond]
    -- the height drops at the photon: a free emitter exists, the time-reversed measurement returns
    have hlp : hl.getD p 0 < (ne : Int) := by
      have e1 : (0 :: hl).getD (p + 1) 0 = hl.getD p 0 := by simp [List.getD]
      rw [e1] at hcond
      cases p with
      | zero =>
        have e0 : (0 :: hl).getD 0 0 = 0 := rfl
        rw [e0] at hcond; omega
      | succ p' =>
        have e2 : (0 :: hl).getD (p' + 1) 0 = hl.getD p' 0 := by simp [List.getD]
        rw [e2] at hcond
        have := height_eq_cutRank t1 hl hh p' (by omega)
        have hc := i1.cut p' (by omega)
        have hc' : (t1.cutRank p' : Int) ≤ (ne : Int) + ((p' : Int) + 1) := by exact_mod_cast hc
        omega
    have hfree := free_emitter_exists np ne p t1 piv he hn1 hp i1.lit hl hh hlp
    have hnz : ∀ i, i < t1.n → ∃ j, j < t1.n ∧ t1.ptype i j ≠ 0 := fun i hi => ⟨piv i, (he.lead i hi).1, (he.lead i hi).2.2⟩
    obtain ⟨s2, t3, e, htrm, hnp2, hne2, hene, v3, hZ, ht2⟩ := timeReversedMeasurement_ok { s with t := t1 } p
      (by show t1.n = s.np + s.ne; rw [hn1, h.np_eq, h.ne_eq]) i1.good (by show ∃ i, i < t1.n ∧ ∀ j, j < s.np → t1.ptype i j = 0; rw [h.np_eq]; exact hfree) hnz
    rw [htrm]; simp only
    have hnp2' : s2.np = np := hnp2.trans h.np_eq
    have hne2' : s2.ne = ne := hne2.trans h.ne_eq
    have hsnp : ({ s with t := t1 } : St).np = np := h.np_eq
    rw [hsnp] at v3 hZ ht2
    have hene' : e < ne := by
      have : ({ s with t := t1 } : St).ne = ne := h.ne_eq
      omega
    have hn3 : t3.n = np + ne := v3.n_eq.trans hn1
    have hg3 : t3.Good := v3.good i1.good
    have hE : np + e < t3.n := by omega
    have hpn3 : p < t3.n := by omega
    -- the invariant after the time-reversed measurement
    have hreach : Reach (fun c => c = p ∨ np ≤ c) t1 s2.t := by
      rw [ht2]
      unfold trmTab
      refine Reach.gate _ (Reach.gate _ (Reach.of_gvia (v3.mono (fun c hc => Or.inr hc))) (by exact hE) ?_) ?_ ?_
      · intro c hc; simp only [Gate.cols, List.mem_singleton] at hc; right; omega
      · exact ⟨hE, hpn3, by omega⟩
      · intro c hc
        simp only [Gate.cols, List.mem_cons, List.not_mem_nil, or_false] at hc
        rcases hc with hc | hc
        · right; omega
        · left; exact hc
    obtain ⟨r1, r2, r3, r4, r5, r5x, r6⟩ := i1.reach hp s2.t hreach
    have hnp3 : t3.NotProd p :=
      v3.notProd p (by rw [hn1]; omega) (by omega) (i1.notProd p (by omega) hI)
    have hnpp : s2.t.NotProd p := by
      rw [ht2]; exact trm_notProd t3 (np + e) p hE hpn3 (by omega) hg3 hZ hnp3
    have i2 : RInv I np ne (p + 1) s2 := by
      refine ⟨by omega, hnp2', hne2', r1, r2, r3, r4, ?_, ?_, r6⟩
      · intro p' hp' hI'
        by_cases e' : p' = p
        · rw [e']; exact hnpp
        · exact r5 p' (by omega) hI'
      · intro p' hp' hI'
        by_cases e' : p' = p
        · rw [e'] at hI'; exact absurd hI' hI
        · exact r5x p' (by omega) hI'
    -- echelon gauge again: the image `X_E X_p` of the emitter's `Z` forces a generator starting at `p`
    obtain ⟨t2, brs2, piv2, hr2, he2⟩ := rref_ok_of_indep s2.t i2.indep
    rw [hr2]; simp only
    have o2 := rref_cops s2.t t2 brs2 hr2
    have i3 := i2.cops t2 o2
    obtain ⟨a, ha, halow, hant⟩ := trm_xx t3 (np + e) p hE hpn3 (by omega) hZ
    rw [← ht2] at ha
    have ha2 : t2.Spn a := (o2.spanEq i2.good).1.sub a ha
    have hrow := echelon_row_at t2 piv2 he2 p (by rw [i3.n_eq]; omega) a ha2 halow hant
    obtain ⟨s', a1, a2, a3, a4⟩ := absorb_round I np ne p hp hI _ i3 piv2 he2 hrow
    have hm2 := timeReversedMeasurement_mcr _ s2 p htrm
    refine ⟨s', a1, a2, ?_, ?_, ?_⟩
    · exact (((Reach.of_cops o1).trans hreach).trans (Reach.of_cops o2)).trans a3
    · intro _
      have : mcrCount s'.circ = mcrCount s2.circ := a4
      rw [this, hm2]
    · intro hnd; exact absurd (hdrop.1 hcond) hnd
  · rw [if_neg hcond]
    simp only
    have hrow := row_at_exists t1 piv he hl hh p (by omega) hcond
    obtain ⟨s', a1, a2, a3, a4⟩ := absorb_round I np ne p hp hI _ i1 piv he hrow
    refine ⟨s', a1, a2, (Reach.of_cops o1).trans a3, ?_, ?_⟩
    · intro hd; exact absurd (hdrop.2 hd) hcond
    · intro _; exact a4

/-- **the main loop returns** (sub-goals 1–3): from the invariant with `m` photons left, none of them isolated, `photonLoop` over
    `j = m, …, 1` returns a state in which every photon is absorbed -/
theorem photonLoop_ok (I : Nat → Prop) (np ne : Nat) (m : Nat) (hI : ∀ p, p < m → ¬ I p) (s : St) (h : RInv I np ne m s) :
    ∃ s', photonLoop s ((List.range m).reverse.map (· + 1)) = .ok s' ∧ RInv I np ne 0 s' := by
  induction m generalizing s with
  | zero => exact ⟨s, rfl, h⟩
  | succ p ih =>
    have hp : p < np := h.m_le
    obtain ⟨s1, h1, i1, _⟩ := round_ok I np ne p hp (hI p (by omega)) s h
    obtain ⟨s', h2, i2⟩ := ih (fun p' hp' => hI p' (by omega)) s1 i1
    refine ⟨s', ?_, i2⟩
    rw [List.range_succ, List.reverse_append, List.reverse_singleton, List.singleton_append, List.map_cons,
      photonLoop_cons, h1]
    exact h2

/-- **resource count of the main loop**: it records one measure-and-reset for each photon at which the height function of the tableau
    the loop started from drops (`d` is any Boolean reading of `dropAt t0`).  The cuts left of the current photon are never touched, so
    the test of round `p` sees the cut ranks of `t0`. -/
theorem photonLoop_count (I : Nat → Prop) (np ne : Nat) (t0 : STab) (hg0 : t0.Good) (m : Nat) (hI : ∀ p, p < m → ¬ I p) (s : St)
    (h : RInv I np ne m s) (hr : Reach (fun c => m ≤ c) t0 s.t) (d : Nat → Bool) (hd : ∀ p, p < m → (d p = true ↔ dropAt t0 p)) :
    ∃ s', photonLoop s ((List.range m).reverse.map (· + 1)) = .ok s' ∧ RInv I np ne 0 s' ∧
      mcrCount s'.circ = mcrCount s.circ + cnt m d := by
  induction m generalizing s with
  | zero => exact ⟨s, rfl, h, by simp [cnt]⟩
  | succ p ih =>
    have hp : p < np := h.m_le
    obtain ⟨s1, h1, i1, r1, c1, c2⟩ := round_ok I np ne p hp (hI p (by omega)) s h
    have hdrop : dropAt s.t p ↔ dropAt t0 p :=
      dropAt_congr t0 s.t p (hr.cutRank_eq hg0 p (fun c hc => by omega))
        (fun hp0 => hr.cutRank_eq hg0 (p - 1) (fun c hc => by omega))
    have hr1 : Reach (fun c => p ≤ c) t0 s1.t :=
      (hr.mono (fun c hc => by omega)).trans (r1.mono (fun c hc => by rcases hc with e | e <;> omega))
    obtain ⟨s', h2, i2, c3⟩ := ih (fun p' hp' => hI p' (by omega)) s1 i1 hr1 (fun p' hp' => hd p' (by omega))
    refine ⟨s', ?_, i2, ?_⟩
    · rw [List.range_succ, List.reverse_append, List.reverse_singleton, List.singleton_append, List.map_cons,
        photonLoop_cons, h1]
      exact h2
    · rw [c3, cnt_succ]
      cases hdp : d p
      · have : ¬ dropAt s.t p := fun hh => by
          have := (hd p (by omega)).2 (hdrop.1 hh)
          rw [hdp] at this; cases this
        rw [c2 this]; simp
      · have : dropAt s.t p := hdrop.2 ((hd p (by omega)).1 hdp)
        rw [c1 this]; simp; omega

/-! ### an isolated photon: the round raises IndexError (finding D3 as a theorem about the model) -/

theorem cnt_pos_of (n : Nat) (f : Nat → Bool) (i : Nat) (hi : i < n) (hf : f i = true) : 0 < cnt n f := by
  unfold cnt
  apply List.length_pos_of_mem (a := i)
  simp only [List.mem_filter, List.mem_range]
  exact ⟨hi, hf⟩

/-- if a generator leads at `p`, the height does not drop at `p`: the branch without time-reversed measurement is taken -/
theorem no_drop_of_row (t : STab) (piv : Nat → Nat) (he : Echelon t piv) (hl : List Int) (hh : t.heightFuncList = .ok hl)
    (p : Nat) (hp : p < t.n) (hex : ∃ i, i < t.n ∧ piv i = p) : ¬ ((0 :: hl).getD (p + 1) 0 < (0 :: hl).getD p 0) := by
  have hC : ∀ k, k < t.n → ((cnt t.n (fun i => decide (k < piv i)) : Nat) : Int) = (t.n : Int) - ((k : Int) + 1) - hl.getD k 0 :=
    fun k hk => echelon_count_right t piv he hl hh k hk
  obtain ⟨i, hi, hpi⟩ := hex
  have hpos : 0 < cnt t.n (fun i => decide (piv i = p)) := cnt_pos_of _ _ i hi (by simp [hpi])
  have e1 : (0 :: hl).getD (p + 1) 0 = hl.getD p 0 := by simp [List.getD]
  rw [e1]
  cases p with
  | zero =>
    have e0 : (0 :: hl).getD 0 0 = 0 := rfl
    rw [e0]
    have hsplit : cnt t.n (fun _ => true) = cnt t.n (fun i => decide (0 < piv i)) + cnt t.n (fun i => decide (piv i = 0)) := by
      apply cnt_split
      · intro i _
        by_cases h : piv i = 0
        · simp [h]
        · have : 0 < piv i := by omega
          simp [this]
      · intro i _ ⟨h1, h2⟩
        simp only [decide_eq_true_eq] at h1 h2
        omega
    rw [cnt_true] at hsplit
    have := hC 0 hp
    have hle : cnt t.n (fun i => decide (piv i = 0)) ≤ t.n := by omega
    omega
  | succ p' =>
    have e2 : (0 :: hl).getD (p' + 1) 0 = hl.getD p' 0 := by simp [List.getD]
    rw [e2]
    have h1 := count_step t piv p'
    have h2 := hC p' (by omega)
    have h3 := hC (p' + 1) hp
    omega

/-- `_add_photon_absorption` on an isolated photon (`X_p` alone in its column): the chosen generator acts on no emitter,
    `emitter_indices[0]` raises IndexError -/
theorem absorb_err (s : St) (p : Nat) (hn : s.t.n = s.np + s.ne) (hp : p < s.np) (hx : s.t.LitX p) :
    addPhotonAbsorption s p = .error .index := by
  obtain ⟨w, hw, hrow, hoth⟩ := hx
  have hpn : p < s.t.n := by omega
  have hptw : ∀ j, j < s.t.n → s.t.ptype w j = if j = p then 1 else 0 := fun j hj => ptype_of_Xq s.t w p j hj hrow
  have hlmw : s.t.leftmost w = some p := by
    apply leftmost_of_lead s.t w p hpn
    · intro j hj; rw [hptw j (by omega), if_neg (by omega)]
    · rw [hptw p hpn, if_pos rfl]; decide
  unfold addPhotonAbsorption
  cases hsel : ((List.range s.t.n).reverse.filter fun i => s.t.leftmost i == some p).head? with
  | none =>
    exfalso
    rw [List.head?_eq_none_iff] at hsel
    have : w ∈ ((List.range s.t.n).reverse.filter fun i => s.t.leftmost i == some p) := by
      simp only [List.mem_filter, List.mem_reverse, List.mem_range, beq_iff_eq]
      exact ⟨hw, hlmw⟩
    rw [hsel] at this; cases this
  | some g =>
    simp only
    have hgm := List.mem_of_mem_head? hsel
    simp only [List.mem_filter, List.mem_reverse, List.mem_range, beq_iff_eq] at hgm
    obtain ⟨hgn, hlm⟩ := hgm
    have hgw : g = w := by
      apply Classical.byContradiction
      intro hne
      exact (leftmost_some s.t g p hlm).2.2 (hoth g hgn hne)
    subst hgw
    have cz := changeToZ_row s g p hgn hpn
    generalize changeToZ s g p = r at cz
    obtain ⟨s0, gl⟩ := r
    simp only at cz ⊢
    obtain ⟨c1, c2, c3, _, _, _, c7⟩ := cz
    obtain ⟨s1, h1⟩ := addOneQubit_ok s0 gl p
    obtain ⟨e1, e2, e3⟩ := addOneQubit_t s0 s1 gl p h1
    rw [h1]; simp only
    have hem : emitterIndices s1 g = [] := by
      unfold emitterIndices
      rw [List.filter_eq_nil_iff]
      intro e he
      have he' : e < s.ne := by
        have := List.mem_range.mp he
        rw [e3, c3] at this; exact this
      have hj : s1.np + e < s.t.n := by rw [e2, c2, hn]; omega
      have hne : s1.np + e ≠ p := by rw [e2, c2]; omega
      obtain ⟨a1, a2⟩ := c7 (s1.np + e) hj hne
      rw [e1, a1, a2, (hrow _ hj).1, (hrow _ hj).2]
      simp [Xq, hne]
    rw [hem]

/-- **the round of an isolated photon raises IndexError** -/
theorem round_err (I : Nat → Prop) (np ne p : Nat) (hp : p < np) (hI : I p) (s : St) (h : RInv I np ne (p + 1) s) :
    photonRound s (p + 1) = .error .index := by
  obtain ⟨t1, brs, piv, hr, he⟩ := rref_ok_of_indep s.t h.indep
  have i1 := h.cops t1 (rref_cops s.t t1 brs hr)
  obtain ⟨hl, hh, _⟩ := heightFuncList_ok_of_indep t1 i1.indep
  have hn1 : t1.n = np + ne := i1.n_eq
  have hx : t1.LitX p := i1.litx p (by omega) hI
  have hexrow : ∃ i, i < t1.n ∧ piv i = p := by
    obtain ⟨w, hw, hrow, _⟩ := hx
    refine ⟨w, hw, ?_⟩
    have hl := he.lead w hw
    have := ptype_of_Xq t1 w p (piv w) hl.1 hrow
    by_cases e : piv w = p
    · exact e
    · rw [if_neg e] at this; exact absurd this hl.2.2
  have hcond := no_drop_of_row t1 piv he hl hh p (by omega) hexrow
  unfold photonRound
  rw [hr]; simp only
  rw [hh]; simp only [Nat.add_sub_cancel]
  rw [if_neg hcond]
  simp only
  exact absorb_err { s with t := t1 } p (by show t1.n = s.np + s.ne; rw [hn1, h.np_eq, h.ne_eq])
    (by show p < s.np; rw [h.np_eq]; exact hp) hx

/-- **the main loop raises IndexError as soon as a remaining photon is isolated** -/
theorem photonLoop_err (I : Nat → Prop) (np ne : Nat) (m : Nat) (hex : ∃ p, p < m ∧ I p) (s : St) (h : RInv I np ne m s) :
    photonLoop s ((List.range m).reverse.map (· + 1)) = .error .index := by
  induction m generalizing s with
  | zero => obtain ⟨p, hp, _⟩ := hex; omega
  | succ p ih =>
    have hp : p < np := h.m_le
    rw [List.range_succ, List.reverse_append, List.reverse_singleton, List.singleton_append, List.map_cons, photonLoop_cons]
    by_cases hI : I p
    · rw [round_err I np ne p hp hI s h]
    · obtain ⟨s1, h1, i1, _⟩ := round_ok I np ne p hp hI s h
      rw [h1]
      simp only
      apply ih _ s1 i1
      obtain ⟨q, hq, hIq⟩ := hex
      have : q ≠ p := fun e => hI (e ▸ hIq)
      exact ⟨q, by omega, hIq⟩

end Graphiq.Solver
