/-
  Proofs/MixtureDMPerBranch.lean — HISTORICAL (`Mix.measureOld`): what `MixedStabilizer.apply_measurement` of graphiq *before
  the repair of finding F2* (every branch measured on its own) did to the state `R = Σ_k w_k ρ(T_k)`, for every mixture and every number of qubits.  Split the mixture into the branches
  whose outcome is random (`R_rand`) and those whose outcome is deterministic (`R_det`).  Then

      Σ (measure q o m) = 2 · Π_o R_rand Π_o + R_det :

  the random branches are post-selected on the forced outcome `o` (and renormalised), the deterministic branches are left as they
  are *whatever their outcome* — i.e. measured non-selectively.  The density-matrix backend post-selects all of `R` on one
  outcome.  The two agree when the branches agree (Proofs/MixtureDMMeasure); this is the exact shape of finding F2 (repaired by the joint
  measurement `Mix.measure`, Proofs/MixtureDMJoint*.lean).
-/
import GraphiqModel.Proofs.MixtureDMMeasure
namespace Graphiq
namespace MixDM
open Matrix Hilbert Noise DM PRow

/-- the branches whose Z measurement of `q` is random / deterministic -/
def randomPart (q : Nat) (m : Mixture) : Mixture := m.filter fun x => (x.2.pivot q).isSome
def detPart (q : Nat) (m : Mixture) : Mixture := m.filter fun x => !(x.2.pivot q).isSome

/-- **per-branch measurement, as coded, on any mixture** -/
theorem per_branch_measure_spec (n q : Nat) (hq : q < n) (o : Bool) : ∀ (m : Mixture), MixGood n m →
    mixRho n (Mix.measureOld q o m).1
      = (2 : ℂ) • (projZ n q o * mixRho n (randomPart q m) * projZ n q o) + mixRho n (detPart q m)
  | [], _ => by simp [Mix.measureOld, randomPart, detPart, mixRho_nil]
  | (w, t) :: rest, hg => by
    obtain ⟨hn, hv, hr⟩ := hg.head
    have ih := per_branch_measure_spec n q hq o rest hg.tail
    obtain ⟨c1, _⟩ := measure_cons q o w t rest
    rw [c1, mixRho_cons, ih]
    cases hp : t.pivot q with
    | some p =>
      obtain ⟨b1, _, _⟩ := branch_random n t hn hv hr q hq o p hp
      have e1 : randomPart q ((w, t) :: rest) = (w, t) :: randomPart q rest := by simp [randomPart, hp]
      have e2 : detPart q ((w, t) :: rest) = detPart q rest := by simp [detPart, hp]
      rw [e1, e2, mixRho_cons, b1, Matrix.mul_add, Matrix.add_mul, Matrix.mul_smul, Matrix.smul_mul, smul_add, smul_comm]
      abel
    | none =>
      obtain ⟨b1, _, _, _⟩ := branch_det n t hn hv hr q hq o hp
      have e1 : randomPart q ((w, t) :: rest) = randomPart q rest := by simp [randomPart, hp]
      have e2 : detPart q ((w, t) :: rest) = (w, t) :: detPart q rest := by simp [detPart, hp]
      rw [e1, e2, mixRho_cons, b1]
      abel

/-- in particular, when no branch is random the code leaves the state untouched — also when the branches *disagree* on the
    outcome (then the density-matrix backend, which post-selects, ends somewhere else: finding F2) -/
theorem per_branch_measure_all_det (n q : Nat) (hq : q < n) (o : Bool) (m : Mixture) (hg : MixGood n m)
    (hd : ∀ x ∈ m, x.2.pivot q = none) : mixRho n (Mix.measureOld q o m).1 = mixRho n m := by
  rw [per_branch_measure_spec n q hq o m hg]
  have e1 : randomPart q m = [] := by
    unfold randomPart
    rw [List.filter_eq_nil_iff]
    intro x hx; rw [hd x hx]; simp
  have e2 : detPart q m = m := by
    unfold detPart
    rw [List.filter_eq_self]
    intro x hx; rw [hd x hx]; simp
  rw [e1, e2, mixRho_nil]; simp

end MixDM
end Graphiq
