/-
  Proofs/HilbertDimKet.lean — the literal rank-one form of a stabilizer state.

  * `rank_one_of_pure` : a Hermitian idempotent of trace 1 is `|ψ⟩⟨ψ|` for a unit vector `ψ` (`ψ` = a normalised non-zero
    column; equality by `projector_eq_of_le`);
  * `stabilizer_ket_exists` : for a valid Clifford tableau there is a unit vector `ψ` with `ρ = |ψ⟩⟨ψ|`, `ψ` is a `+1`
    eigenvector of every element of the stabilizer group, and every joint `+1` eigenvector of the generators is a multiple
    of `ψ` (the stabilizer state is unique up to a scalar).
-/
import GraphiqModel.Proofs.HilbertDimState
namespace Graphiq
namespace Hilbert
open Matrix PRow TabSpec

open scoped ComplexOrder in
/-- **a pure state is a ket**: `P² = P = P†`, `tr P = 1` ⇒ `P = |ψ⟩⟨ψ|` with `⟨ψ|ψ⟩ = 1` -/
theorem rank_one_of_pure {ι : Type} [Fintype ι] [DecidableEq ι] (P : Matrix ι ι ℂ)
    (hP : P * P = P) (hH : Pᴴ = P) (htr : Matrix.trace P = 1) :
    ∃ ψ : ι → ℂ, P = Matrix.vecMulVec ψ (star ψ) ∧ star ψ ⬝ᵥ ψ = 1 := by
  -- a non-zero diagonal entry
  obtain ⟨c, -, hc⟩ : ∃ c ∈ Finset.univ, P c c ≠ 0 := by
    apply Finset.exists_ne_zero_of_sum_ne_zero
    show Matrix.trace P ≠ 0
    rw [htr]; norm_num
  let v : ι → ℂ := fun a => P a c
  have hstar : ∀ a, star (P a c) = P c a := by
    intro a
    have := congrFun (congrFun hH c) a
    rw [Matrix.conjTranspose_apply] at this
    exact this
  have hN : star v ⬝ᵥ v = P c c := by
    have := congrFun (congrFun hP c) c
    rw [Matrix.mul_apply] at this
    rw [← this]
    unfold dotProduct
    apply Finset.sum_congr rfl
    intro a _
    show star (P a c) * P a c = _
    rw [hstar]
  have hPv : P *ᵥ v = v := by
    funext a
    have := congrFun (congrFun hP a) c
    rw [Matrix.mul_apply] at this
    exact this
  have hNpos : 0 ≤ star v ⬝ᵥ v := dotProduct_star_self_nonneg v
  set N : ℂ := star v ⬝ᵥ v with hNdef
  have hN0 : N ≠ 0 := by rw [hN]; exact hc
  have hNre : N = ((N.re : ℝ) : ℂ) := by
    have := (Complex.nonneg_iff.mp hNpos)
    apply Complex.ext
    · simp
    · simp [this.2.symm]
  have hre_pos : 0 ≤ N.re := (Complex.nonneg_iff.mp hNpos).1
  have hvN : v ⬝ᵥ star v = N := by rw [dotProduct_comm]
  have hstarN : star N = N := by
    rw [hNre]; simp
  -- the rank-one projector on `v`
  have hQ : P = N⁻¹ • Matrix.vecMulVec v (star v) := by
    apply projector_eq_of_le _ _ hP hH
    · rw [smul_mul_smul_comm, Matrix.vecMulVec_mul_vecMulVec, Matrix.vecMulVec_smul, smul_smul, ← hNdef]
      congr 1
      field_simp
    · rw [Matrix.conjTranspose_smul, Matrix.conjTranspose_vecMulVec, star_star, star_inv₀, hstarN]
    · rw [Matrix.mul_smul, Matrix.mul_vecMulVec, hPv]
    · rw [htr, Matrix.trace_smul, Matrix.trace_vecMulVec, hvN, smul_eq_mul, inv_mul_cancel₀ hN0]
  -- normalise
  let r : ℝ := Real.sqrt N.re
  have hr : ((r : ℝ) : ℂ) * ((r : ℝ) : ℂ) = N := by
    rw [← Complex.ofReal_mul, Real.mul_self_sqrt hre_pos, ← hNre]
  have hr0 : ((r : ℝ) : ℂ) ≠ 0 := by
    intro h; rw [h, mul_zero] at hr; exact hN0 hr.symm
  have hrstar : star ((r : ℝ) : ℂ) = ((r : ℝ) : ℂ) := Complex.conj_ofReal r
  refine ⟨((r : ℝ) : ℂ)⁻¹ • v, ?_, ?_⟩
  · rw [hQ, star_smul, Matrix.smul_vecMulVec, Matrix.vecMulVec_smul, smul_smul, star_inv₀, hrstar, ← mul_inv, hr]
  · rw [star_smul, smul_dotProduct, dotProduct_smul, star_inv₀, hrstar, smul_eq_mul, smul_eq_mul, ← _root_.mul_assoc, ← mul_inv,
      hr, ← hNdef, inv_mul_cancel₀ hN0]

/-- an operator that fixes `|ψ⟩⟨ψ|` from the left fixes `ψ` -/
theorem ket_fixed_of_rho_fixed {ι : Type} [Fintype ι] (g : Matrix ι ι ℂ) (ψ : ι → ℂ) (hn : star ψ ⬝ᵥ ψ = 1)
    (h : g * Matrix.vecMulVec ψ (star ψ) = Matrix.vecMulVec ψ (star ψ)) : g *ᵥ ψ = ψ := by
  have e : Matrix.vecMulVec ψ (star ψ) *ᵥ ψ = ψ := by
    rw [Matrix.vecMulVec_mulVec, hn]; simp
  have := congrArg (fun M => M *ᵥ ψ) h
  rw [← Matrix.mulVec_mulVec, e] at this
  exact this

/-- a joint `+1` eigenvector of the generators is fixed by `∏ (1 + P_i)/2` -/
theorem rhoTo_mulVec_of_fixed (n : Nat) (r : Nat → PRow) (k : Nat) (φ : Bits n → ℂ)
    (h : ∀ i, i < k → pauliMat n (r i) *ᵥ φ = φ) : rhoTo n r k *ᵥ φ = φ := by
  induction k with
  | zero => show (1 : Matrix (Bits n) (Bits n) ℂ) *ᵥ φ = φ; rw [Matrix.one_mulVec]
  | succ m ih =>
    show (rhoTo n r m * proj n (r m)) *ᵥ φ = φ
    have e : proj n (r m) *ᵥ φ = φ := by
      unfold proj
      rw [Matrix.smul_mulVec, Matrix.add_mulVec, Matrix.one_mulVec, h m (Nat.lt_succ_self m), ← two_smul ℂ φ, smul_smul]
      norm_num
    rw [← Matrix.mulVec_mulVec, e, ih (fun i hi => h i (Nat.lt_succ_of_lt hi))]

/-- **The stabilizer state as a vector.**  For a valid Clifford tableau (real stabilizer rows) there is a unit vector `ψ`
    with `ρ = |ψ⟩⟨ψ|`; every element of the stabilizer group fixes `ψ`; and every vector fixed by all generators is a scalar
    multiple of `ψ`. -/
theorem stabilizer_ket_exists (t : Tab) (hv : t.Valid) (hr : t.StabReal) :
    ∃ ψ : Bits t.n → ℂ,
      rho t.n (STab.ofTab t) = Matrix.vecMulVec ψ (star ψ) ∧ star ψ ⬝ᵥ ψ = 1 ∧
      (∀ g, Grp t g → pauliMat t.n g *ᵥ ψ = ψ) ∧
      (∀ φ : Bits t.n → ℂ, (∀ i, i < t.n → pauliMat t.n (t.stab i) *ᵥ φ = φ) → φ = (star ψ ⬝ᵥ φ) • ψ) := by
  have hg := ofTab_good t hv
  obtain ⟨ψ, h1, h2⟩ := rank_one_of_pure (rho t.n (STab.ofTab t)) (rho_idem _ hg) (rho_hermitian _ hg)
    (rho_ofTab_trace t hv)
  refine ⟨ψ, h1, h2, ?_, ?_⟩
  · intro g hgg
    apply ket_fixed_of_rho_fixed _ ψ h2
    rw [← h1]
    exact grp_mul_rho t hv hr g hgg
  · intro φ hφ
    have e : rho t.n (STab.ofTab t) *ᵥ φ = φ := by
      apply rhoTo_mulVec_of_fixed
      intro i hi
      rw [ofTab_row_real t hr i hi]
      exact hφ i hi
    rw [h1, Matrix.vecMulVec_mulVec] at e
    have e2 : MulOpposite.op (star ψ ⬝ᵥ φ) • ψ = (star ψ ⬝ᵥ φ) • ψ := by
      ext a; simp; exact _root_.mul_comm _ _
    exact e.symm.trans e2

end Hilbert
end Graphiq
