/-
  Proofs/GraphStateGroup.lean — the signed group of a graph-state tableau: every element is an ordered product of distinct
  generators (normal form, for any commuting real generating set), the generators are independent, and −I is not in the group.
  Also: the CZ construction of graph → density and the tableau of graph → stabilizer generate the same signed group.
-/
import GraphiqModel.Proofs.StateToGraph
namespace Graphiq
open PRow Tab STab

namespace STab

/-- ordered product of the generators `i < k` selected by `c` -/
def prodTo (S : STab) (c : Nat → Bool) : Nat → PRow
  | 0 => PRow.one
  | k + 1 => if c k then PRow.mul S.n (prodTo S c k) (S.row k) else prodTo S c k

theorem prodTo_spn (S : STab) (c : Nat → Bool) (k : Nat) (hk : k ≤ S.n) : S.Spn (prodTo S c k) := by
  induction k with
  | zero => exact InSpan.one
  | succ k ih =>
    simp only [prodTo]
    split
    · exact InSpan.mul _ _ (ih (by omega)) (spn_gen S k (by omega))
    · exact ih (by omega)

theorem prodTo_congr (S : STab) (c c' : Nat → Bool) (k : Nat) (h : ∀ i, i < k → c i = c' i) :
    prodTo S c k = prodTo S c' k := by
  induction k with
  | zero => rfl
  | succ k ih =>
    simp only [prodTo]
    rw [ih (fun i hi => h i (by omega)), h k (Nat.lt_succ_self k)]

theorem prodTo_false (S : STab) (k : Nat) : prodTo S (fun _ => false) k = PRow.one := by
  induction k with
  | zero => rfl
  | succ k ih => simp only [prodTo, Bool.false_eq_true, if_false]; exact ih

theorem prodTo_single (S : STab) (i k : Nat) : 
    EqOn S.n (prodTo S (fun m => decide (m = i)) k) (if i < k then S.row i else PRow.one) := by
  induction k with
  | zero => simp only [prodTo, Nat.not_lt_zero, if_false]; exact EqOn.refl _ _
  | succ k ih =>
    simp only [prodTo]
    by_cases h : k = i
    · subst h
      simp only [decide_true, if_true, Nat.lt_succ_self]
      have : ¬ (k < k) := Nat.lt_irrefl k
      rw [if_neg this] at ih
      exact (mul_congr S.n _ _ _ _ ih (EqOn.refl _ _)).trans (one_mul S.n _)
    · have hd : decide (k = i) = false := by simp [h]
      simp only [hd, Bool.false_eq_true, if_false]
      by_cases h2 : i < k
      · rw [if_pos h2] at ih; rw [if_pos (by omega)]; exact ih
      · rw [if_neg h2] at ih; rw [if_neg (by omega)]; exact ih

/-- products of ordered products: the selections add modulo 2 -/
theorem prodTo_mul (S : STab) (hg : S.Good) (ca cb : Nat → Bool) (k : Nat) (hk : k ≤ S.n) :
    EqOn S.n (PRow.mul S.n (prodTo S ca k) (prodTo S cb k)) (prodTo S (fun m => xor (ca m) (cb m)) k) := by
  induction k with
  | zero => exact one_mul S.n _
  | succ k ih =>
    have ih' := ih (by omega)
    have hkn : k < S.n := by omega
    have sa := prodTo_spn S ca k (by omega)
    have sb := prodTo_spn S cb k (by omega)
    have sr := spn_gen S k hkn
    have rr : (S.row k).ip = false := hg.real k hkn
    have cbr : sp S.n (prodTo S cb k) (S.row k) = false := spn_comm S hg _ _ sb sr
    simp only [prodTo]
    by_cases ha : ca k = true <;> by_cases hb : cb k = true
    · -- (Pa r)(Pb r) = Pa (r (Pb r)) = Pa ((Pb r) r) = Pa (Pb (r r)) = Pa Pb
      rw [if_pos ha, if_pos hb, if_neg (by simp [ha, hb])]
      have c1 : EqOn S.n (PRow.mul S.n (S.row k) (PRow.mul S.n (prodTo S cb k) (S.row k)))
          (PRow.mul S.n (PRow.mul S.n (prodTo S cb k) (S.row k)) (S.row k)) := by
        apply PRow.mul_comm
        rw [sp_mul_right, sp_self, sp_comm, cbr]; rfl
      have c2 : EqOn S.n (PRow.mul S.n (PRow.mul S.n (prodTo S cb k) (S.row k)) (S.row k)) (prodTo S cb k) :=
        ((mul_assoc S.n _ _ _).trans (mul_congr S.n _ _ _ _ (EqOn.refl _ _) (mul_self S.n _ rr))).trans (mul_one S.n _)
      exact ((mul_assoc S.n _ _ _).trans (mul_congr S.n _ _ _ _ (EqOn.refl _ _) (c1.trans c2))).trans ih'
    · -- (Pa r) Pb = Pa (r Pb) = Pa (Pb r) = (Pa Pb) r
      rw [if_pos ha, if_neg hb, if_pos (by simp [ha, hb])]
      have c1 : EqOn S.n (PRow.mul S.n (S.row k) (prodTo S cb k)) (PRow.mul S.n (prodTo S cb k) (S.row k)) :=
        PRow.mul_comm S.n _ _ (by rw [sp_comm]; exact cbr)
      exact ((mul_assoc S.n _ _ _).trans (mul_congr S.n _ _ _ _ (EqOn.refl _ _) c1)).trans
        ((mul_assoc S.n _ _ _).symm.trans (mul_congr S.n _ _ _ _ ih' (EqOn.refl _ _)))
    · -- Pa (Pb r) = (Pa Pb) r
      rw [if_neg ha, if_pos hb, if_pos (by simp [ha, hb])]
      exact (mul_assoc S.n _ _ _).symm.trans (mul_congr S.n _ _ _ _ ih' (EqOn.refl _ _))
    · rw [if_neg ha, if_neg hb, if_neg (by simp [ha, hb])]
      exact ih'

/-- **normal form**: every element of the signed group of a real commuting generating set is an ordered product of distinct
    generators -/
theorem spn_normal_form (S : STab) (hg : S.Good) (p : PRow) (hp : S.Spn p) :
    ∃ c : Nat → Bool, EqOn S.n p (prodTo S c S.n) := by
  unfold Spn at hp
  induction hp with
  | one => exact ⟨fun _ => false, by rw [prodTo_false]; exact EqOn.refl _ _⟩
  | gen i hi =>
    refine ⟨fun m => decide (m = i), ?_⟩
    have := prodTo_single S i S.n
    rw [if_pos hi] at this
    exact this.symm
  | mul a b _ _ iha ihb =>
    obtain ⟨ca, ea⟩ := iha
    obtain ⟨cb, eb⟩ := ihb
    exact ⟨fun m => xor (ca m) (cb m), (mul_congr S.n _ _ _ _ ea eb).trans (prodTo_mul S hg ca cb S.n (Nat.le_refl _))⟩
  | eqv a b _ hab iha =>
    obtain ⟨c, e⟩ := iha
    exact ⟨c, hab.symm.trans e⟩

end STab

/-! ### the graph-state tableau -/

/-- the X part of an ordered product of graph-state generators is the selection itself -/
theorem graph_prodTo_x (n : Nat) (A : Adj) (c : Nat → Bool) (k j : Nat) :
    (prodTo (graphSTab n A) c k).x j = (decide (j < k) && c j) := by
  induction k with
  | zero => simp [prodTo, PRow.one]
  | succ k ih =>
    simp only [prodTo]
    split
    · next h =>
      rw [mul_x, ih]
      show xor (decide (j < k) && c j) (decide (j = k)) = _
      by_cases e : j = k
      · subst e; simp [h]
      · have : (j < k + 1) ↔ (j < k) := by omega
        simp [e, this]
    · next h =>
      rw [ih]
      by_cases e : j = k
      · subst e; simp [h]
      · have : (j < k + 1) ↔ (j < k) := by omega
        simp [this]

/-- **independence**: a product of distinct graph-state generators has trivial X part only if it is the empty product -/
theorem graphSTab_independent (n : Nat) (A : Adj) (c : Nat → Bool)
    (h : ∀ j, j < n → (prodTo (graphSTab n A) c n).x j = false) : ∀ i, i < n → c i = false := by
  intro i hi
  have := h i hi
  rw [graph_prodTo_x] at this
  simpa [hi] using this

/-- **no −I** (and no ±iI): the only element of the graph-state group with trivial Pauli part is `+I` -/
theorem graphSTab_no_minus_one (n : Nat) (A : Adj) (hsym : ∀ i j, i < n → j < n → A i j = A j i) (p : PRow)
    (hp : (graphSTab n A).Spn p) (hx : ∀ j, j < n → p.x j = false) : EqOn n p PRow.one := by
  obtain ⟨c, e⟩ := spn_normal_form (graphSTab n A) (graphSTab_good n A hsym) p hp
  have e' : EqOn n p (prodTo (graphSTab n A) c n) := e
  have hc : ∀ i, i < n → c i = false :=
    graphSTab_independent n A c (fun j hj => by rw [← (e'.1 j hj).1]; exact hx j hj)
  rw [prodTo_congr (graphSTab n A) c (fun _ => false) n hc, prodTo_false] at e'
  exact e'

/-! ### graph → density and graph → stabilizer denote the same state -/

/-- |+…+⟩ followed by one CZ per edge (graph → density, in stabilizer terms) and `[I | A]` (graph → stabilizer) generate the
    same signed group, for every edge list with distinct endpoints whose parity matrix is `A` -/
theorem czEdges_spanEq_graphSTab (n : Nat) (A : Adj) (edges : List (Nat × Nat)) (hne : ∀ e, e ∈ edges → e.1 ≠ e.2)
    (hA : ∀ i j, i < n → j < n → A i j = edgeParity edges i j) :
    SpanEq (czEdges (plusSTab n) edges) (graphSTab n A) := by
  have hn : (czEdges (plusSTab n) edges).n = n := by
    have : ∀ (l : List (Nat × Nat)) (t : STab), (czEdges t l).n = t.n := by
      intro l
      induction l with
      | nil => intro t; rfl
      | cons e es ih => intro t; simp only [czEdges, List.foldl] at ih ⊢; exact ih _
    exact this edges _
  have rows : ∀ i, i < n → EqOn n ((czEdges (plusSTab n) edges).row i) ((graphSTab n A).row i) := by
    intro i hi
    obtain ⟨h1, h2, h3, h4⟩ := czEdges_plus n edges hne i
    refine ⟨fun j hj => ⟨?_, ?_⟩, ?_, ?_⟩
    · rw [h1 j]; rfl
    · rw [h2 j]
      show edgeParity edges i j = (decide (j < n) && A i j)
      rw [hA i j hi hj]; simp [hj]
    · rw [h3]; rfl
    · rw [h4]; rfl
  apply spanEq_of_gens _ _ (show (graphSTab n A).n = (czEdges (plusSTab n) edges).n from hn.symm)
  · intro i hi
    have hi' : i < n := hi
    refine InSpan.eqv _ _ (spn_gen (czEdges (plusSTab n) edges) i (by rw [hn]; exact hi')) ?_
    rw [hn]; exact rows i hi'
  · intro i hi
    rw [hn] at hi
    exact InSpan.eqv _ _ (spn_gen (graphSTab n A) i hi) (rows i hi).symm

end Graphiq
