/-
  Proofs/GraphStateGroup.lean — the signed group of a graph-state tableau: every element is an ordered product of distinct
  generators (normal form, for any commuting real generating set), the generators are independent, and −I is not in the group.
  Also: the CZ construction of graph → density and the tableau of graph → stabilizer generate the same signed group.
-/
import GraphiqModel.Proofs.StateToGraph
namespace Graphiq
open PRow Tab STab

namespace STab

/-- ordered product of the generators `i < k` selected by `c` -/
def prodTo (S : STab) (c : Nat → Bool) : Nat → PRow
  | 0 => PRow.one
  | k + 1 => if c k then PRow.mul S.n (prodTo S c k) (S.row k) else prodTo S c k

theorem prodTo_spn (S : STab) (c : Nat → Bool) (k : Nat) (hk : k ≤ S.n) : S.Spn (prodTo S c k) := by
  induction k with
  | zero => exact InSpan.one
  | succ k ih =>
    simp only [prodTo]
    split
    · exact InSpan.mul _ _ (ih (by omega)) (spn_gen S k (by omega))
    · exact ih (by omega)

theorem prodTo_congr (S : STab) (c c' : Nat → Bool) (k : Nat) (h : ∀ i, i < k → c i = c' i) :
    prodTo S c k = prodTo S c' k := by
  induction k with
  | zero => rfl
  | succ k ih =>
    simp only [prodTo]
    rw [ih (fun i hi => h i (by omega)), h k (Nat.lt_succ_self k)]

theorem prodTo_false (S : STab) (k : Nat) : prodTo S (fun _ => false) k = PRow.one := by
  induction k with
  | zero => rfl
  | succ k ih => simp only [prodTo, Bool.false_eq_true, if_false]; exact ih

theorem prodTo_single (S : STab) (i k : Nat) : 
    EqOn S.n (prodTo S (fun m => decide (m = i)) k) (if i < k then S.row i else PRow.one) := by
  induction k with
  | zero => simp only [prodTo, Nat.not_lt_zero, if_false]; exact EqOn.refl _ _
  | succ k ih =>
    simp only [prodTo]
    by_cases h : k = i
    · subst h
      simp only [decide_true, if_true, Nat.lt_succ_self]
      have : ¬ (k < k) := Nat.lt_irrefl k
      rw [if_neg this] at ih
      exact (mul_congr S.n _ _ _ _ ih (EqOn.refl _ _)).trans (one_mul S.n _)
    · have hd : decide (k = i) = false := by simp [h]
      simp only [hd, Bool.false_eq_true, if_false]
      by_cases h2 : i < k
      · rw [if_pos h2] at ih; rw [if_pos (by omega)]; exact ih
      · rw [if_neg h2] at ih; rw [if_neg (by omega)]; exact ih

/-- products of ordered products: the selections add modulo 2 -/
theorem prodTo_mul (S : STab) (hg : S.Good) (ca cb : Nat → Bool) (k : Nat) (hk : k ≤ S.n) :
    EqOn S.n (PRow.mul S.n (prodTo S ca k) (prodTo S cb k)) (prodTo S (fun m => xor (ca m) (cb m)) k) := by
  induction k with
  | zero => exact one_mul S.n _
  | succ k ih =>
    have ih' := ih (by omega)
    have hkn : k < S.n := by omega
    have sa := prodTo_spn S ca k (by omega)
    have sb := prodTo_spn S cb k (by omega)
    have sr := spn_gen S k hkn
    have rr : (S.row k).ip = false := hg.real k hkn
    have cbr : sp S.n (prodTo S cb k) (S.row k) = false := spn_comm S hg _ _ sb sr
    simp only [prodTo]
    by_cases ha : ca k = true <;> by_cases hb : cb k = true
    · -- (Pa r)(Pb r) = Pa (r (Pb r)) = Pa ((Pb r) r) = Pa (Pb (r r)) = Pa Pb
      rw [if_pos ha, if_pos hb, if_neg (by simp [ha, hb])]
      have c1 : EqOn S.n (PRow.mul S.n (S.row k) (PRow.mul S.n (prodTo S cb k) (S.row k)))
          (PRow.mul S.n (PRow.mul S.n (prodTo S cb k) (S.row k)) (S.row k)) := by
        apply PRow.mul_comm
        rw [sp_mul_right, sp_self, sp_comm, cbr]; rfl
      have c2 : EqOn S.n (PRow.mul S.n (PRow.mul S.n (prodTo S cb k) (S.row k)) (S.row k)) (prodTo S cb k) :=
        ((mul_assoc S.n _ _ _).trans (mul_congr S.n _ _ _ _ (EqOn.refl _ _) (mul_self S.n _ rr))).trans (mul_one S.n _)
      exact ((mul_assoc S.n _ _ _).trans (mul_congr S.n _ _ _ _ (EqOn.refl _ _) (c1.trans c2))).trans ih'
    · -- (Pa r) Pb = Pa (r Pb) = Pa (Pb r) = (Pa Pb) r
      rw [if_pos ha, if_neg hb, if_pos (by simp [ha, hb])]
      have c1 : EqOn S.n (PRow.mul S.n (S.row k) (prodTo S cb k)) (PRow.mul S.n (prodTo S cb k) (S.row k)) :=
        PRow.mul_comm S.n _ _ (by rw [sp_comm]; exact cbr)
      exact ((mul_assoc S.n _ _ _).trans (mul_congr S.n _ _ _ _ (EqOn.refl _ _) c1)).trans
        ((mul_assoc S.n _ _ _).symm.trans (mul_congr S.n _ _ _ _ ih' (EqOn.refl _ _)))
    · -- Pa (Pb r) = (Pa Pb) r
      rw [if_neg ha, if_pos hb, if_pos (by simp [ha, hb])]
      exact (mul_assoc S.n _ _ _).symm.trans (mul_congr S.n _ _ _ _ ih' (EqOn.refl _ _))
    · rw [if_neg ha, if_neg hb, if_neg (by simp [ha, hb])]
      exact ih'

/-- **normal form**: every element of the signed group of a real commuting generating set is an ordered product of distinct
    generators -/
theorem spn_normal_form (S : STab) (hg : S.Good) (p : PRow) (hp : S.Spn p) :
    ∃ c : Nat → Bool, EqOn S.n p (prodTo S c S.n) := by
  unfold Spn at hp
  induction hp with
  | one => exact ⟨fun _ => false, by rw [prodTo_false]; exact EqOn.refl _ _⟩
  | gen i hi =>
    refine ⟨fun m => decide (m = i), ?_⟩
    have := prodTo_single S i S.n
    rw [if_pos hi] at this
    exact this.symm
  | mul a b _ _ iha ihb =>
    obtain ⟨ca, ea⟩ := iha
    obtain ⟨cb, eb⟩ := ihb
    exact ⟨fun m => xor (ca m) (cb m), (mul_congr S.n _ _ _ _ ea eb).trans (prodTo_mul S hg ca cb S.n (Nat.le_refl _))⟩
  | eqv a b _ hab iha =>
    obtain ⟨c, e⟩ := iha
    exact ⟨c, hab.symm.trans e⟩

end STab

/-! ### the graph-state tableau -/

/-- the X part of an ordered product of graph-state generators is the selection itself -/
theorem graph_prodTo_x (n : Nat) (A : Adj) (c : Nat → Bool) (k j : Nat) :
    (prodTo (graphSTab n A) c k).x j = (decide (j < k) && c j) := by
  induction k with
  | zero => simp [prodTo, PRow.one]
  | succ k ih =>
    simp only [prodTo]
    split
    · next h =>
      rw [mul_x, ih]
      show xor (decide (j < k) && c j) (decide (j = k)) = _
      by_cases e : j = k
      · subst e; simp [h]
      · have : (j < k + 1) ↔ (j < k) := by omega
        simp [e, this]
    · next h =>
      rw [ih]
      by_cases e : j = k
      · subst e; simp [h]
      · have : (j < k + 1) ↔ (j < k) := by omega
        simp [this]

/-- **independence**: a product of distinct graph-state generators has trivial X part only if it is the empty product -/
theorem graphSTab_independent (n : Nat) (A : Adj) (c : Nat → Bool)
    (h : ∀ j, j < n → (prodTo (graphSTab n A) c n).x j = false) : ∀ i, i < n → c i = false := by
  intro i hi
  have := h i hi
  rw [graph_prodTo_x] at this
  simpa [hi] using this

/-- **no −I** (and no ±iI): the only element of the graph-state group with trivial Pauli part is `+I` -/
theorem graphSTab_no_minus_one (n : Nat) (A : Adj) (hsym : ∀ i j, i < n → j < n → A i j = A j i) (p : PRow)
    (hp : (graphSTab n A).Spn p) (hx : ∀ j, j < n → p.x j = false) : EqOn n p PRow.one := by
  obtain ⟨c, e⟩ := spn_normal_form (graphSTab n A) (graphSTab_good n A hsym) p hp
  have e' : EqOn n p (prodTo (graphSTab n A) c n) := e
  have hc : ∀ i, i < n → c i = false :=
    graphSTab_independent n A c (fun j hj => by rw [← (e'.1 j hj).1]; exact hx j hj)
  rw [prodTo_congr (graphSTab n A) c (fun _ => false) n hc, prodTo_false] at e'
  exact e'

/-! ### graph → density and graph → stabilizer denote the same state -/

/-- |+…+⟩ followed by one CZ per edge (graph → density, in stabilizer terms) and `[I | A]` (graph → stabilizer) generate the
    same signed group, for every edge list with distinct endpoints whose parity matrix is `A` -/
theorem czEdges_spanEq_graphSTab (n : Nat) (A : Adj) (edges : List (Nat × Nat)) (hne : ∀ e, e ∈ edges → e.1 ≠ e.2)
    (hA : ∀ i j, i < n → j < n → A i j = edgeParity edges i j) :
    SpanEq (czEdges (plusSTab n) edges) (graphSTab n A) := by
  have hn : (czEdges (plusSTab n) edges).n = n := by
    have : ∀ (l : List (Nat × Nat)) (t : STab), (czEdges t l).n = t.n := by
      intro l
      induction l with
      | nil => intro t; rfl
      | cons e es ih => intro t; simp only [czEdges, List.foldl] at ih ⊢; exact ih _
    exact this edges _
  have rows : ∀ i, i < n → EqOn n ((czEdges (plusSTab n) edges).row i) ((graphSTab n A).row i) := by
    intro i hi
    obtain ⟨h1, h2, h3, h4⟩ := czEdges_plus n edges hne i
    refine ⟨fun j hj => ⟨?_, ?_⟩, ?_, ?_⟩
    · rw [h1 j]; rfl
    · rw [h2 j]
      show edgeParity edges i j = (decide (j < n) && A i j)
      rw [hA i j hi hj]; simp [hj]
    · rw [h3]; rfl
    · rw [h4]; rfl
  apply spanEq_of_gens _ _ (show (graphSTab n A).n = (czEdges (plusSTab n) edges).n from hn.symm)
  · intro i hi
    have hi' : i < n := hi
    refine InSpan.eqv _ _ (spn_gen (czEdges (plusSTab n) edges) i (by rw [hn]; exact hi')) ?_
    rw [hn]; exact rows i hi'
  · intro i hi
    rw [hn] at hi
    exact InSpan.eqv _ _ (spn_gen (graphSTab n A) i hi) (rows i hi).symm

/-! ### the edge list of a simple graph -/

theorem edgeParity_cons (e : Nat × Nat) (l : List (Nat × Nat)) (i j : Nat) :
    edgeParity (e :: l) i j = xor (decide ((e.1 = i ∧ e.2 = j) ∨ (e.1 = j ∧ e.2 = i))) (edgeParity l i j) := by
  have key : ∀ (l : List (Nat × Nat)) (b c : Bool),
      l.foldl (fun acc e => xor acc (decide ((e.1 = i ∧ e.2 = j) ∨ (e.1 = j ∧ e.2 = i)))) (xor b c) =
      xor b (l.foldl (fun acc e => xor acc (decide ((e.1 = i ∧ e.2 = j) ∨ (e.1 = j ∧ e.2 = i)))) c) := by
    intro l
    induction l with
    | nil => intro b c; rfl
    | cons e' l ih => intro b c; simp only [List.foldl]; rw [Bool.xor_assoc, ih]
  unfold edgeParity
  simp only [List.foldl]
  rw [Bool.false_xor]
  have := key l (decide ((e.1 = i ∧ e.2 = j) ∨ (e.1 = j ∧ e.2 = i))) false
  rw [Bool.xor_false] at this
  exact this

/-- in a duplicate-free list of pairs `(u, v)` with `u < v`, the parity of the edges joining `i < j` says whether `(i, j)` occurs -/
theorem edgeParity_nodup (l : List (Nat × Nat)) (hl : l.Nodup) (hlt : ∀ e, e ∈ l → e.1 < e.2) (i j : Nat) (hij : i < j) :
    edgeParity l i j = decide ((i, j) ∈ l) ∧ edgeParity l j i = decide ((i, j) ∈ l) := by
  induction l with
  | nil => simp [edgeParity]
  | cons e l ih =>
    obtain ⟨i1, i2⟩ := ih (List.nodup_cons.mp hl).2 (fun e' he' => hlt e' (List.mem_cons_of_mem _ he'))
    have he := hlt e List.mem_cons_self
    have hnot := (List.nodup_cons.mp hl).1
    rw [edgeParity_cons, edgeParity_cons, i1, i2]
    by_cases h : e = (i, j)
    · subst h
      have : (i, j) ∉ l := hnot
      simp [this]
    · have hm1 : ¬ ((e.1 = i ∧ e.2 = j) ∨ (e.1 = j ∧ e.2 = i)) := by
        rintro (⟨a, b⟩ | ⟨a, b⟩)
        · exact h (Prod.ext a b)
        · omega
      have hm2 : ¬ ((e.1 = j ∧ e.2 = i) ∨ (e.1 = i ∧ e.2 = j)) := fun hh => hm1 (hh.symm)
      have hne : ¬ ((i, j) = e) := fun hh => h hh.symm
      simp [hm1, hm2, hne]

theorem mem_pairsLt_iff (n : Nat) (a b : Nat) : (a, b) ∈ STab.pairsLt n ↔ a < b ∧ b < n := by
  simp only [STab.pairsLt, List.mem_flatMap, List.mem_range, List.mem_map, List.mem_filter, decide_eq_true_eq,
    Prod.mk.injEq]
  constructor
  · rintro ⟨j, _, k, ⟨hk, hjk⟩, e1, e2⟩
    subst e1 e2; exact ⟨hjk, hk⟩
  · rintro ⟨h1, h2⟩
    exact ⟨a, by omega, b, ⟨h2, h1⟩, rfl, rfl⟩

theorem pairsLt_nodup (n : Nat) : (STab.pairsLt n).Nodup := by
  unfold STab.pairsLt
  rw [List.nodup_flatMap]
  constructor
  · intro j _
    exact (List.Nodup.filter _ List.nodup_range).map (fun a b h => by simpa using h)
  · have hne : (List.range n).Pairwise (· ≠ ·) := List.nodup_range
    refine hne.imp ?_
    intro a b hab
    show List.Disjoint _ _
    intro x hx hx'
    simp only [List.mem_map] at hx hx'
    obtain ⟨_, _, e1⟩ := hx
    obtain ⟨_, _, e2⟩ := hx'
    rw [← e2] at e1
    exact hab (by simpa using congrArg Prod.fst e1)

/-- the edge list of a simple graph has distinct endpoints and its parity matrix is the adjacency matrix -/
theorem edgesOf_spec (n : Nat) (A : Adj) (hsym : ∀ i j, i < n → j < n → A i j = A j i) (hirr : ∀ i, i < n → A i i = false) :
    (∀ e, e ∈ S2G.edgesOf n A → e.1 ≠ e.2) ∧ ∀ i j, i < n → j < n → A i j = edgeParity (S2G.edgesOf n A) i j := by
  have hnd : (S2G.edgesOf n A).Nodup := List.Nodup.filter _ (pairsLt_nodup n)
  have hlt : ∀ e, e ∈ S2G.edgesOf n A → e.1 < e.2 := by
    intro e he
    have := (List.mem_filter.mp he).1
    exact ((mem_pairsLt_iff n e.1 e.2).mp this).1
  have hmem : ∀ i j, i < j → j < n → ((i, j) ∈ S2G.edgesOf n A ↔ A i j = true) := by
    intro i j h1 h2
    simp only [S2G.edgesOf, List.mem_filter, mem_pairsLt_iff]
    exact ⟨fun h => h.2, fun h => ⟨⟨h1, h2⟩, h⟩⟩
  refine ⟨fun e he => Nat.ne_of_lt (hlt e he), fun i j hi hj => ?_⟩
  rcases Nat.lt_trichotomy i j with h | h | h
  · rw [(edgeParity_nodup _ hnd hlt i j h).1]
    cases hA : A i j
    · symm; apply decide_eq_false; intro hm; rw [(hmem i j h hj).mp hm] at hA; cases hA
    · symm; apply decide_eq_true; exact (hmem i j h hj).mpr hA
  · subst h
    rw [hirr i hi]
    symm
    -- no edge joins a vertex to itself
    have : ∀ l : List (Nat × Nat), (∀ e, e ∈ l → e.1 < e.2) → edgeParity l i i = false := by
      intro l
      induction l with
      | nil => intro _; rfl
      | cons e l ih =>
        intro hl
        rw [edgeParity_cons, ih (fun e' he' => hl e' (List.mem_cons_of_mem _ he'))]
        have := hl e List.mem_cons_self
        have hm : decide ((e.1 = i ∧ e.2 = i) ∨ (e.1 = i ∧ e.2 = i)) = false := by
          apply decide_eq_false
          rintro (⟨a, b⟩ | ⟨a, b⟩) <;> omega
        rw [hm]; rfl
    exact this _ hlt
  · rw [(edgeParity_nodup _ hnd hlt j i h).2, hsym i j hi hj]
    cases hA : A j i
    · symm; apply decide_eq_false; intro hm; rw [(hmem j i h hi).mp hm] at hA; cases hA
    · symm; apply decide_eq_true; exact (hmem j i h hi).mpr hA

/-- **for every simple graph**: `_graph_to_density_pure` (|+…+⟩, one CZ per edge of `list(graph.edges)`) and
    `_graph_to_stabilizer_pure` (`[I | A]`) generate the same signed group -/
theorem czEdges_edgesOf_spanEq (n : Nat) (A : Adj) (hsym : ∀ i j, i < n → j < n → A i j = A j i)
    (hirr : ∀ i, i < n → A i i = false) : SpanEq (czEdges (plusSTab n) (S2G.edgesOf n A)) (graphSTab n A) := by
  obtain ⟨h1, h2⟩ := edgesOf_spec n A hsym hirr
  exact czEdges_spanEq_graphSTab n A _ h1 h2

end Graphiq
