/-
  Proofs/HilbertBridgeMat.lean — the executable exact matrices (`Mat` over the Gaussian rationals `GQ`, `Nat` indices,
  `Model/Gauss.lean` + `Model/DMSem.lean`) represent complex matrices indexed by bit strings:

  * `gqC : GQ →+* ℂ`; `Rep n m M` : the `Mat` `m` has size `2^n` and its entry at `(idx a, idx b)` is `M a b`;
  * `Rep` is compatible with `Mat.norm` (tabulation), `mul` (the zero-skipping `dot`), `dagger`, `add`, `smul`,
    `conjBy`, `hermitianize`, `eye`, `trace`;
  * the executable gate builders are the Hilbert-space ones: `getOneQubitGate` ↦ `oneQ`, `getTwoQubitControlledGate`
    ↦ `ctrlQ`, `projectorsZ` ↦ `proj (Zq q s)`, `resetKraus` ↦ `Hilbert.resetKraus`.
-/
import GraphiqModel.Proofs.HilbertBridgeIdx
import GraphiqModel.Proofs.HilbertBridgeOps
import GraphiqModel.Proofs.DMSem
namespace Graphiq
namespace Hilbert
open Matrix

/-! ### (copies of three small facts of Proofs/Noise.lean, which cannot be imported together with Proofs/Circuit.lean:
   both declare `Graphiq.Tab.norm_row`) -/

theorem mat_norm_e (m : Mat) (i j : Nat) (hi : i < m.n) (hj : j < m.n) : m.norm.e i j = m.e i j := by
  simp only [Mat.norm, Mat.lookupG]
  simp [Array.getD, hi, hj]

theorem pow2_split' (n q : Nat) (hq : q < n) : DM.pow2 q * 2 * DM.pow2 (n - q - 1) = DM.pow2 n := by
  unfold DM.pow2
  have : n = q + 1 + (n - q - 1) := by omega
  conv_rhs => rw [this]
  rw [pow_add, pow_succ]

/-! ### Gaussian rationals as complex numbers -/

/-- `re + i·im` as a complex number -/
noncomputable def gqC : GQ →+* ℂ where
  toFun a := ⟨(a.re : ℝ), (a.im : ℝ)⟩
  map_one' := by apply Complex.ext <;> simp
  map_mul' a b := by apply Complex.ext <;> simp
  map_zero' := by apply Complex.ext <;> simp
  map_add' a b := by apply Complex.ext <;> simp

theorem gqC_re (a : GQ) : (gqC a).re = (a.re : ℝ) := rfl
theorem gqC_im (a : GQ) : (gqC a).im = (a.im : ℝ) := rfl

theorem gqC_conj (a : GQ) : gqC a.conj = star (gqC a) := by
  apply Complex.ext <;> simp [gqC_re, gqC_im, GQ.conj]

theorem gqC_smul (q : Rat) (a : GQ) : gqC (GQ.smul q a) = ((q : ℝ) : ℂ) * gqC a := by
  apply Complex.ext <;> simp [gqC_re, gqC_im, GQ.smul]

theorem gqC_neg_one : gqC (GQ.neg 1) = -1 := by
  apply Complex.ext <;> simp [gqC_re, gqC_im, GQ.neg]
theorem gqC_I : gqC GQ.I = Complex.I := by
  apply Complex.ext <;> simp [gqC_re, gqC_im, GQ.I]
theorem gqC_neg_I : gqC (GQ.neg GQ.I) = -Complex.I := by
  apply Complex.ext <;> simp [gqC_re, gqC_im, GQ.neg, GQ.I]

/-! ### representation -/

/-- the executable matrix `m` represents `M` -/
def Rep (n : Nat) (m : Mat) (M : DMat n) : Prop :=
  m.n = 2 ^ n ∧ ∀ a b : Bits n, gqC (m.e (idx n a) (idx n b)) = M a b

theorem Rep.size {n : Nat} {m : Mat} {M : DMat n} (h : Rep n m M) : m.n = DM.pow2 n := h.1

theorem Rep.unique {n : Nat} {m : Mat} {M M' : DMat n} (h : Rep n m M) (h' : Rep n m M') : M = M' := by
  ext a b; rw [← h.2 a b, ← h'.2 a b]

theorem Rep.congr {n : Nat} {m : Mat} {M M' : DMat n} (h : Rep n m M) (e : M = M') : Rep n m M' := e ▸ h

theorem Rep.norm {n : Nat} {m : Mat} {M : DMat n} (h : Rep n m M) : Rep n m.norm M := by
  refine ⟨h.1, fun a b => ?_⟩
  rw [mat_norm_e m _ _ (h.1 ▸ idx_lt n a) (h.1 ▸ idx_lt n b)]
  exact h.2 a b

theorem Rep.of_eqOn {n : Nat} {m m' : Mat} {M : DMat n} (h : Rep n m M) (e : Mat.EqOn m' m) : Rep n m' M := by
  refine ⟨e.1.trans h.1, fun a b => ?_⟩
  rw [e.2 _ _ (by rw [e.1, h.1]; exact idx_lt n a) (by rw [e.1, h.1]; exact idx_lt n b)]
  exact h.2 a b

theorem Rep.mul {n : Nat} {x y : Mat} {X Y : DMat n} (hx : Rep n x X) (_hy : Rep n y Y) : Rep n (x.mul y) (X * Y) := by
  refine ⟨hx.1, fun a b => ?_⟩
  show gqC (Mat.dot x.n _ _) = _
  rw [dot_eq_gsum, gsum_eq_sum, hx.1, sum_range_pow, map_sum, Matrix.mul_apply]
  apply Finset.sum_congr rfl
  intro c _
  rw [map_mul, hx.2, _hy.2]

theorem Rep.dagger {n : Nat} {x : Mat} {X : DMat n} (hx : Rep n x X) : Rep n x.dagger Xᴴ := by
  refine ⟨hx.1, fun a b => ?_⟩
  show gqC ((x.e _ _).conj) = _
  rw [gqC_conj, hx.2, Matrix.conjTranspose_apply]

theorem Rep.add {n : Nat} {x y : Mat} {X Y : DMat n} (hx : Rep n x X) (hy : Rep n y Y) : Rep n (x.add y) (X + Y) := by
  refine ⟨hx.1, fun a b => ?_⟩
  show gqC (x.e _ _ + y.e _ _) = _
  rw [map_add, hx.2, hy.2, Matrix.add_apply]

theorem Rep.smul {n : Nat} {x : Mat} {X : DMat n} (q : Rat) (hx : Rep n x X) :
    Rep n (Mat.smul q x) (((q : ℝ) : ℂ) • X) := by
  refine ⟨hx.1, fun a b => ?_⟩
  show gqC (GQ.smul q (x.e _ _)) = _
  rw [gqC_smul, hx.2, Matrix.smul_apply, smul_eq_mul]

theorem Rep.conjBy {n : Nat} {u x : Mat} {U X : DMat n} (hu : Rep n u U) (hx : Rep n x X) :
    Rep n (Mat.conjBy u x) (U * X * Uᴴ) :=
  Rep.mul (Rep.norm (Rep.mul hu hx)) (Rep.dagger hu)

theorem Rep.hermitianize {n : Nat} {x : Mat} {X : DMat n} (hx : Rep n x X) : Rep n (Mat.hermitianize x) (herm X) := by
  have := Rep.smul (1 / 2) (Rep.add hx (Rep.dagger hx))
  refine this.congr ?_
  unfold herm
  congr 1
  norm_num

theorem Rep.zero (n : Nat) : Rep n (Mat.zero (2 ^ n)) (0 : DMat n) :=
  ⟨rfl, fun _ _ => by show gqC 0 = _; simp⟩

theorem Rep.eye (n : Nat) : Rep n (Mat.eye (2 ^ n)) (1 : DMat n) := by
  refine ⟨rfl, fun a b => ?_⟩
  show gqC (if idx n a = idx n b then 1 else 0) = _
  rw [Matrix.one_apply]
  by_cases h : a = b
  · subst h; simp
  · rw [if_neg h, if_neg (fun e => h (idx_injective n e))]; simp

theorem Rep.trace {n : Nat} {x : Mat} {X : DMat n} (hx : Rep n x X) : gqC x.trace = Matrix.trace X := by
  unfold Mat.trace Matrix.trace
  rw [gsum_eq_sum, hx.1, sum_range_pow, map_sum]
  apply Finset.sum_congr rfl
  intro a _
  rw [hx.2]; rfl

theorem Rep.trace_re {n : Nat} {x : Mat} {X : DMat n} (hx : Rep n x X) : ((x.trace.re : Rat) : ℝ) = (Matrix.trace X).re := by
  rw [← hx.trace]; rfl

/-! ### 2×2 blocks -/

def b2n (x : Bool) : Nat := if x then 1 else 0

/-- the 2×2 `Mat` `g` represents the Bool-indexed block `u` -/
def Rep2 (g : Mat) (u : Matrix Bool Bool ℂ) : Prop := g.n = 2 ∧ ∀ x y : Bool, gqC (g.e (b2n x) (b2n y)) = u x y

theorem rep2_m2 (a b c d : GQ) (u : Matrix Bool Bool ℂ) (h00 : gqC a = u false false) (h01 : gqC b = u false true)
    (h10 : gqC c = u true false) (h11 : gqC d = u true true) : Rep2 (Mat.m2 a b c d) u := by
  refine ⟨rfl, fun x y => ?_⟩
  cases x <;> cases y <;> simp [Mat.m2, b2n, h00, h01, h10, h11]

theorem rep2_sigmax : Rep2 Mat.sigmax sigmaX := rep2_m2 _ _ _ _ _ (by simp [sigmaX]) (by simp [sigmaX]) (by simp [sigmaX]) (by simp [sigmaX])
theorem rep2_sigmay : Rep2 Mat.sigmay sigmaY :=
  rep2_m2 _ _ _ _ _ (by simp [sigmaY]) (by rw [gqC_neg_I]; simp [sigmaY]) (by rw [gqC_I]; simp [sigmaY]) (by simp [sigmaY])
theorem rep2_sigmaz : Rep2 Mat.sigmaz sigmaZ :=
  rep2_m2 _ _ _ _ _ (by simp [sigmaZ]) (by simp [sigmaZ]) (by simp [sigmaZ]) (by rw [gqC_neg_one]; simp [sigmaZ])
theorem rep2_phase : Rep2 Mat.phase phaseM :=
  rep2_m2 _ _ _ _ _ (by simp [phaseM]) (by simp [phaseM]) (by simp [phaseM]) (by rw [gqC_I]; simp [phaseM])
theorem rep2_phaseDag : Rep2 Mat.phaseDag phaseDagM :=
  rep2_m2 _ _ _ _ _ (by simp [phaseDagM]) (by simp [phaseDagM]) (by simp [phaseDagM]) (by rw [gqC_neg_I]; simp [phaseDagM])
theorem rep2_had2 : Rep2 Mat.had2 hadM :=
  rep2_m2 _ _ _ _ _ (by simp [hadM]) (by simp [hadM]) (by simp [hadM]) (by rw [gqC_neg_one]; simp [hadM])
theorem rep2_id2 : Rep2 Mat.id2 (1 : Matrix Bool Bool ℂ) :=
  rep2_m2 _ _ _ _ _ (by simp) (by simp) (by simp) (by simp)
theorem rep2_ketBra00 : Rep2 (Mat.m2 1 0 0 0) (ketBra2 false false) :=
  rep2_m2 _ _ _ _ _ (by simp [ketBra2]) (by simp [ketBra2]) (by simp [ketBra2]) (by simp [ketBra2])
theorem rep2_ketBra01 : Rep2 (Mat.m2 0 1 0 0) (ketBra2 false true) :=
  rep2_m2 _ _ _ _ _ (by simp [ketBra2]) (by simp [ketBra2]) (by simp [ketBra2]) (by simp [ketBra2])

theorem b2n_digit (n : Nat) (b : Bits n) (q : Nat) (hq : q < n) :
    (idx n b / DM.pow2 (n - q - 1)) % 2 = b2n (bx b q) := idx_digit n b q hq

theorem b2n_inj (x y : Bool) : b2n x = b2n y ↔ x = y := by cases x <;> cases y <;> simp [b2n]
theorem b2n_eq_zero (x : Bool) : b2n x = 0 ↔ x = false := by cases x <;> simp [b2n]

/-! ### the gate builders -/

/-- `kron(kron(I_{2^q}, g), I_{2^(n-q-1)})` represents `oneQ n q u` -/
theorem rep_embed1 (n q : Nat) (hq : q < n) (g : Mat) (u : Matrix Bool Bool ℂ) (hg : Rep2 g u) :
    Rep n (DM.embed1 (DM.pow2 q) (DM.pow2 (n - q - 1)) g) (oneQ n q u) := by
  refine ⟨pow2_split' n q hq, fun a b => ?_⟩
  show gqC (if _ then _ else _) = _
  rw [oneQ_apply]
  have hiff := idx_off_site_iff n a b q hq
  unfold DM.pow2
  by_cases hoff : ∀ j : Fin n, j.val ≠ q → a j = b j
  · rw [if_pos (hiff.mpr hoff), if_pos hoff]
    have da := b2n_digit n a q hq
    have db := b2n_digit n b q hq
    unfold DM.pow2 at da db
    rw [da, db, hg.2]
  · rw [if_neg (fun h => hoff (hiff.mp h)), if_neg hoff]; simp

/-- **`get_one_qubit_gate`**: the executable Kronecker embedding represents `oneQ n q u` -/
theorem rep_getOneQubitGate (n q : Nat) (hq : q < n) (g : Mat) (u : Matrix Bool Bool ℂ) (hg : Rep2 g u) :
    Rep n (DM.getOneQubitGate n q g) (oneQ n q u) := by
  unfold DM.getOneQubitGate
  by_cases h1 : n = 1
  · subst h1
    have hq0 : q = 0 := by omega
    subst hq0
    rw [if_pos rfl]
    refine ⟨hg.1, fun a b => ?_⟩
    have ha := b2n_digit 1 a 0 (by norm_num)
    have hb := b2n_digit 1 b 0 (by norm_num)
    have la := idx_lt 1 a
    have lb := idx_lt 1 b
    simp [DM.pow2] at ha hb
    have ea : idx 1 a = b2n (bx a 0) := by omega
    have eb : idx 1 b = b2n (bx b 0) := by omega
    rw [ea, eb, hg.2, oneQ_apply, if_pos]
    intro j hj
    exfalso; apply hj; have := j.isLt; omega
  · rw [if_neg h1]
    exact rep_embed1 n q hq g u hg

/-- **`projectors_zbasis`** -/
theorem rep_projectorsZ (n q : Nat) (hq : q < n) :
    ∃ p0 p1, DM.projectorsZ n q = .ok (p0, p1) ∧ Rep n p0 (projZ n q false) ∧ Rep n p1 (projZ n q true) := by
  unfold DM.projectorsZ
  rw [if_pos hq]
  refine ⟨_, _, rfl, ?_, ?_⟩
  · rw [projZ_eq n q hq, proj_Zq n q hq]
    refine ⟨rfl, fun a b => ?_⟩
    show gqC (if _ then _ else _) = _
    simp only [Matrix.diagonal_apply, idx_eq_iff, b2n_digit n a q hq]
    by_cases hab : a = b
    · subst hab
      cases hb : bx a q <;> simp [b2n]
    · simp [hab]
  · rw [projZ_eq n q hq, proj_Zq n q hq]
    refine ⟨rfl, fun a b => ?_⟩
    show gqC (if _ then _ else _) = _
    simp only [Matrix.diagonal_apply, idx_eq_iff, b2n_digit n a q hq]
    by_cases hab : a = b
    · subst hab
      cases hb : bx a q <;> simp [b2n]
    · simp [hab]

/-- **`get_two_qubit_controlled_gate`**: the executable closed form represents `ctrlQ n c t u`
    (= graphiq's `1 + (1 − Z)_c (u − 1)_t / 2`, `ctrlQ_eq_graphiq`) -/
theorem rep_getTwoQubitControlledGate (n c t : Nat) (hc : c < n) (ht : t < n) (hct : c ≠ t) (g : Mat)
    (u : Matrix Bool Bool ℂ) (hg : Rep2 g u) :
    ∃ m, DM.getTwoQubitControlledGate n c t g = .ok m ∧ Rep n m (ctrlQ n c t u) := by
  unfold DM.getTwoQubitControlledGate
  rw [if_neg (by omega), if_neg hct]
  refine ⟨_, rfl, rfl, fun a b => ?_⟩
  rw [ctrlQ_apply]
  simp only
  have hsame : ((List.range n).all fun k => k = t ||
      decide ((idx n a / DM.pow2 (n - k - 1)) % 2 = (idx n b / DM.pow2 (n - k - 1)) % 2)) = true
      ↔ ∀ j : Fin n, j.val ≠ t → a j = b j := by
    rw [List.all_eq_true]
    constructor
    · intro h j hj
      have := h j.val (List.mem_range.mpr j.isLt)
      simp only [Bool.or_eq_true, decide_eq_true_eq] at this
      rcases this with e | e
      · exact absurd e hj
      · rw [b2n_digit n a _ j.isLt, b2n_digit n b _ j.isLt, b2n_inj, bx_lt _ _ j.isLt, bx_lt _ _ j.isLt] at e
        exact e
    · intro h k hk
      have hk' := List.mem_range.mp hk
      simp only [Bool.or_eq_true, decide_eq_true_eq]
      by_cases e : k = t
      · exact Or.inl e
      · right
        rw [b2n_digit n a _ hk', b2n_digit n b _ hk', b2n_inj, bx_lt _ _ hk', bx_lt _ _ hk']
        exact h ⟨k, hk'⟩ e
  by_cases hoff : ∀ j : Fin n, j.val ≠ t → a j = b j
  · have hs := hsame.mpr hoff
    rw [if_pos hoff]
    simp only [hs, Bool.not_true, Bool.false_eq_true, if_false]
    rw [b2n_digit n a c hc, b2n_digit n a t ht, b2n_digit n b t ht]
    have hcab : bx a c = bx b c := by
      rw [bx_lt _ _ hc, bx_lt _ _ hc]; exact hoff ⟨c, hc⟩ hct
    rw [← hcab]
    simp only [b2n_inj, b2n_eq_zero]
    cases hac : bx a c
    · simp only [if_true, Bool.false_eq_true, if_false]
      split <;> simp
    · simp only [Bool.true_eq_false, if_false, if_true]
      exact hg.2 _ _
  · have hs : ¬ ((List.range n).all fun k => k = t ||
        decide ((idx n a / DM.pow2 (n - k - 1)) % 2 = (idx n b / DM.pow2 (n - k - 1)) % 2)) = true :=
      fun h => hoff (hsame.mp h)
    rw [if_neg hoff]
    simp only [Bool.not_eq_true] at hs
    simp [hs]

/-- `create_n_product_state(n, |0⟩)` as the executable model writes it -/
theorem rep_rho0 (n : Nat) :
    Rep n ⟨DM.pow2 n, fun i j => if i = 0 ∧ j = 0 then 1 else 0⟩
      (Matrix.of fun a b : Bits n => if a = (fun _ => false) ∧ b = (fun _ => false) then (1 : ℂ) else 0) := by
  refine ⟨rfl, fun a b => ?_⟩
  show gqC (if _ then _ else _) = _
  simp only [Matrix.of_apply, idx_eq_zero_iff]
  split <;> simp

end Hilbert
end Graphiq
