/-
  Proofs/CompareRepairSearch.lean — the model's backtracking search is complete: if a node bijection passes the repaired
  check (`IsoFacts2`), the search `isoSearch2` (nodes of the first graph in the order `MG.topo`, candidates filtered by
  `node_match`, injectivity and consistency with the pairs already chosen) returns a map that passes the check, and the
  node and edge counts agree — so `isoGraphs2` answers `true`.  Together with `isoGraphs2_witness` the model's answer is
  exactly "an isomorphism in the sense of the specification of `networkx.is_isomorphic` exists".
-/
import GraphiqModel.Proofs.CompareRepairComplete
namespace Graphiq.Compare
open Graphiq Graphiq.Export

/-! ## the search order is a permutation of the nodes -/

theorem topo_go_perm (g : MG) : ∀ (fuel : Nat) (todo done : List Nd), todo.Nodup →
    (MG.topo.go g fuel todo done).Perm (done ++ todo) := by
  intro fuel
  induction fuel with
  | zero => intro todo done _; exact List.Perm.refl _
  | succ k ih =>
    intro todo done hnd
    unfold MG.topo.go
    cases hf : todo.find? (fun n => (g.edges.filter (fun e => e.dst == n)).all fun e => done.contains e.src) with
    | none => exact List.Perm.refl _
    | some n =>
      simp only
      have hmem : n ∈ todo := List.mem_of_find?_eq_some hf
      have hfil : todo.filter (· != n) = todo.erase n := by
        rw [hnd.erase_eq_filter]
      have hnd' : (todo.filter (· != n)).Nodup := hnd.sublist List.filter_sublist
      refine (ih (todo.filter (· != n)) (done ++ [n]) hnd').trans ?_
      rw [List.append_assoc, hfil]
      exact List.Perm.append_left done (List.perm_cons_erase hmem).symm

theorem topo_perm (g : MG) (hnd : (g.nodes.map (·.1)).Nodup) : g.topo.Perm (g.nodes.map (·.1)) := by
  unfold MG.topo
  have := topo_go_perm g (g.nodes.length + 1) (g.nodes.map (·.1)) [] hnd
  simpa using this

/-! ## completeness of the search -/

theorem isoSearch2_complete (g1 g2 : MG) (φ : Nd → Nd) (hf : IsoFacts2 g1 g2 φ) :
    ∀ (ns : List Nd) (f : List (Nd × Nd)), ns.Nodup → (∀ n ∈ ns, n ∈ g1.nodes.map (·.1)) →
      (∀ q ∈ f, q.1 ∈ g1.nodes.map (·.1) ∧ q.2 = φ q.1 ∧ q.1 ∉ ns) →
      (f.reverse ++ ns.map (fun n => (n, φ n))) ∈ isoSearch2 g1 g2 ns f := by
  intro ns
  induction ns with
  | nil => intro f _ _ _; simp [isoSearch2]
  | cons n rest ih =>
    intro f hnd hns hfq
    have hn : n ∈ g1.nodes.map (·.1) := hns n (by simp)
    obtain ⟨a, b, ha, hb, hab⟩ := hf.nodes n hn
    have hnd' := List.nodup_cons.1 hnd
    unfold isoSearch2
    rw [ha]
    simp only [List.mem_flatMap, List.mem_filter, Bool.and_eq_true, Bool.not_eq_true', List.any_eq_false, beq_iff_eq]
    refine ⟨(φ n, b), ⟨opOf_some_pair_mem g2 _ _ hb, ⟨⟨hab, ?_⟩, ?_⟩⟩, ?_⟩
    · -- the image is not used yet
      intro q hq hqe
      obtain ⟨hq1, hq2, hq3⟩ := hfq q hq
      have : q.1 = n := hf.inj _ hq1 _ hn (by rw [← hq2]; exact hqe)
      exact hq3 (by rw [this]; simp)
    · -- consistent with the pairs chosen so far
      unfold consistent2
      simp only [List.all_eq_true, Bool.and_eq_true, beq_iff_eq]
      intro q hq
      have hq' : q.1 ∈ g1.nodes.map (·.1) ∧ q.2 = φ q.1 := by
        rcases List.mem_cons.1 hq with rfl | hq
        · exact ⟨hn, rfl⟩
        · exact ⟨(hfq q hq).1, (hfq q hq).2.1⟩
      rw [hq'.2]
      have e1 := hf.edges n hn q.1 hq'.1
      have e2 := hf.edges q.1 hq'.1 n hn
      exact ⟨⟨⟨e1.1, e1.2⟩, e2.1⟩, e2.2⟩
    · have := ih ((n, φ n) :: f) hnd'.2 (fun m hm => hns m (List.mem_cons_of_mem _ hm))
        (by
          intro q hq
          rcases List.mem_cons.1 hq with rfl | hq
          · exact ⟨hn, rfl, hnd'.1⟩
          · obtain ⟨a1, a2, a3⟩ := hfq q hq
            exact ⟨a1, a2, fun h' => a3 (List.mem_cons_of_mem _ h')⟩)
      simpa using this

/-! ## counting edges through the pairs of nodes -/

theorem length_eq_sum_filter {α β : Type} [DecidableEq β] (l : List α) (key : α → β) (ks : List β) (hk : ks.Nodup)
    (hall : ∀ x ∈ l, key x ∈ ks) : l.length = (ks.map fun k => (l.filter fun x => key x == k).length).sum := by
  induction l with
  | nil => simp
  | cons x rest ih =>
    have hx := hall x (by simp)
    have ih' := ih (fun y hy => hall y (List.mem_cons_of_mem _ hy))
    have hstep : ∀ (ks : List β), ks.Nodup →
        (ks.map fun k => ((x :: rest).filter fun y => key y == k).length).sum
          = (ks.map fun k => (rest.filter fun y => key y == k).length).sum + (if key x ∈ ks then 1 else 0) := by
      intro ks
      induction ks with
      | nil => intro _; simp
      | cons k ks' ihk =>
        intro hnd
        have hnd' := List.nodup_cons.1 hnd
        simp only [List.map_cons, List.sum_cons, List.mem_cons]
        rw [ihk hnd'.2]
        by_cases hkx : key x = k
        · have hnot : key x ∉ ks' := by rw [hkx]; exact hnd'.1
          have e1 : ((x :: rest).filter fun y => key y == k).length = (rest.filter fun y => key y == k).length + 1 := by
            rw [List.filter_cons_of_pos (by simpa using hkx)]; rfl
          have e2 : (if key x ∈ ks' then 1 else 0) = 0 := if_neg hnot
          have e3 : (if key x = k ∨ key x ∈ ks' then 1 else 0) = 1 := if_pos (Or.inl hkx)
          rw [e1, e2, e3]; omega
        · have e1 : ((x :: rest).filter fun y => key y == k).length = (rest.filter fun y => key y == k).length := by
            rw [List.filter_cons_of_neg (by simpa using hkx)]
          have e3 : (if key x = k ∨ key x ∈ ks' then 1 else 0) = (if key x ∈ ks' then 1 else 0) := by simp [hkx]
          rw [e1, e3]; omega
    rw [hstep ks hk, if_pos hx, ← ih']
    simp

theorem edges_length_sum (g : MG) (ns : List Nd) (hnd : ns.Nodup) (hs : ∀ e ∈ g.edges, e.src ∈ ns ∧ e.dst ∈ ns) :
    g.edges.length = (ns.map fun u => (ns.map fun v => (g.edgesBetween u v).length).sum).sum := by
  rw [length_eq_sum_filter g.edges (·.src) ns hnd (fun e he => (hs e he).1)]
  congr 1
  apply List.map_congr_left
  intro u _
  rw [length_eq_sum_filter (g.edges.filter fun x => x.src == u) (·.dst) ns hnd
    (fun e he => (hs e (List.mem_filter.1 he).1).2)]
  congr 1
  apply List.map_congr_left
  intro v _
  unfold MG.edgesBetween
  rw [List.filter_filter]
  congr 1
  apply List.filter_congr
  intro e _
  rw [Bool.and_comm]

/-! ## the model's answer is "an isomorphism exists" -/

theorem Rep0.edge_ends_mem {g : MG} {W : List Wire} {body : Wire → List Nd} (r : Rep0 g W body) :
    ∀ e ∈ g.edges, e.src ∈ g.nodes.map (·.1) ∧ e.dst ∈ g.nodes.map (·.1) := by
  intro e he
  obtain ⟨hk, hadj⟩ := r.edge_sound0 e he
  exact ⟨r.path_mem_nodes _ hk _ (adj_mem_left hadj), r.path_mem_nodes _ hk _ (adj_mem_right hadj)⟩

/-- **completeness of the model's comparison on circuit DAGs**: if some node bijection passes the repaired check between
    two (labelled) circuit DAGs, the counts agree and the backtracking search returns a map that passes the check -/
theorem isoCore_of_facts (g1 g2 : MG) (W1 W2 : List Wire) (B1 B2 : Wire → List Nd) (r1 : Rep0 g1 W1 B1) (r2 : Rep0 g2 W2 B2)
    (hn1 : (g1.nodes.map (·.1)).Nodup) (φ : Nd → Nd) (hf : IsoFacts2 g1 g2 φ) :
    (g1.nodes.length == g2.nodes.length && g1.edges.length == g2.edges.length &&
      ((isoSearch2 g1 g2 g1.topo []).any (isoCheck2 g1 g2))) = true := by
  have hsub : (g1.nodes.map (·.1)).map φ ⊆ g2.nodes.map (·.1) := by
    intro m hm
    obtain ⟨n, hn, rfl⟩ := List.mem_map.1 hm
    exact hf.into n hn
  have hperm : ((g1.nodes.map (·.1)).map φ).Perm (g2.nodes.map (·.1)) :=
    (List.subperm_of_subset hf.nodup hsub).perm_of_length_le (by simp [← hf.len])
  have hn2 : (g2.nodes.map (·.1)).Nodup := hperm.nodup_iff.1 hf.nodup
  have hlenN : g1.nodes.length = g2.nodes.length := by simpa using hf.len
  -- edges
  have hlenE : g1.edges.length = g2.edges.length := by
    rw [edges_length_sum g1 _ hn1 r1.edge_ends_mem, edges_length_sum g2 _ hn2 r2.edge_ends_mem]
    have e1gen : ∀ (ns : List Nd), (∀ u ∈ ns, ∀ v ∈ ns, (g1.edgesBetween u v).length = (g2.edgesBetween (φ u) (φ v)).length) →
        (ns.map fun u => (ns.map fun v => (g1.edgesBetween u v).length).sum).sum
          = ((ns.map φ).map fun u' => ((ns.map φ).map fun v' => (g2.edgesBetween u' v').length).sum).sum := by
      intro ns hh
      simp only [List.map_map, Function.comp]
      congr 1
      apply List.map_congr_left
      intro u hu
      congr 1
      apply List.map_congr_left
      intro v hv
      exact hh u hu v hv
    have e1 := e1gen (g1.nodes.map (·.1)) (fun u hu v hv => (hf.edges u hu v hv).1)
    rw [e1]
    have e2 : ∀ u', (((g1.nodes.map (·.1)).map φ).map fun v' => (g2.edgesBetween u' v').length).sum
        = ((g2.nodes.map (·.1)).map fun v' => (g2.edgesBetween u' v').length).sum :=
      fun u' => (hperm.map _).sum_eq
    simp only [e2]
    exact (hperm.map _).sum_eq
  -- the search finds the map
  have htp := topo_perm g1 hn1
  have hmem := isoSearch2_complete g1 g2 φ hf g1.topo [] (htp.nodup_iff.2 hn1) (fun n hn => htp.mem_iff.1 hn)
    (fun q hq => by cases hq)
  have hcheck : isoCheck2 g1 g2 ([].reverse ++ g1.topo.map (fun n => (n, φ n))) = true := by
    apply isoCheck2_of_facts g1 g2 _ φ _ hf
    intro n hn
    simp only [List.reverse_nil, List.nil_append]
    exact applyMap_pairsOf g1.topo φ n (htp.mem_iff.2 hn)
  simp only [Bool.and_eq_true, beq_iff_eq, List.any_eq_true]
  exact ⟨⟨hlenN, hlenE⟩, _, hmem, hcheck⟩

theorem isoGraphs2_complete (g1 g2 : MG) (W1 W2 : List Wire) (B1 B2 : Wire → List Nd) (r1 : Rep0 g1 W1 B1) (r2 : Rep0 g2 W2 B2)
    (hn1 : (g1.nodes.map (·.1)).Nodup) (φ : Nd → Nd) (hf : IsoFacts2 g1.addControlTarget2 g2.addControlTarget2 φ) :
    isoGraphs2 g1 g2 = true := by
  unfold isoGraphs2
  rw [addControlTarget2_eq g1 W1 B1 r1, addControlTarget2_eq g2 W2 B2 r2] at hf ⊢
  exact isoCore_of_facts g1.labelled g2.labelled W1 W2 B1 B2 r1.labelled.toRep0 r2.labelled.toRep0 hn1 φ hf

/-- **the model's answer is exactly "an isomorphism exists"** on circuit DAGs -/
theorem isoGraphs2_iff (g1 g2 : MG) (W1 W2 : List Wire) (B1 B2 : Wire → List Nd) (r1 : Rep0 g1 W1 B1) (r2 : Rep0 g2 W2 B2)
    (hn1 : (g1.nodes.map (·.1)).Nodup) :
    isoGraphs2 g1 g2 = true ↔ ∃ f, isoCheck2 g1.addControlTarget2 g2.addControlTarget2 f = true :=
  ⟨isoGraphs2_witness g1 g2, fun ⟨f, hf⟩ =>
    isoGraphs2_complete g1 g2 W1 W2 B1 B2 r1 r2 hn1 (mapFn f) (isoCheck2_facts _ _ f hf).2⟩

/-- **a renamed copy is reported isomorphic by the model function itself** -/
theorem renamed_copy_reported (c : Circuit) (h : ∀ o ∈ c.ops, OpOK (wiresN c.ne c.np c.nc) o) (π : Wire → Wire)
    (hπ : IsRenaming (wiresN c.ne c.np c.nc) π) (hsurj : ∀ w2 ∈ wiresN c.ne c.np c.nc, ∃ w ∈ wiresN c.ne c.np c.nc, π w = w2) :
    circuitIsIsomorphic2 c ⟨c.ne, c.np, c.nc, c.ops.map (renOp π)⟩ = .ok true := by
  obtain ⟨g1, g2, f, hb1, hb2, hcheck⟩ := renamed_copy_iso c h π hπ hsurj
  have h2 : ∀ o ∈ (⟨c.ne, c.np, c.nc, c.ops.map (renOp π)⟩ : Circuit).ops, OpOK (wiresN c.ne c.np c.nc) o := by
    intro o ho
    obtain ⟨o', ho', rfl⟩ := List.mem_map.1 ho
    exact opOK_renOp _ π hπ o' (h o' ho')
  obtain ⟨g1', hb1', i1, _⟩ := build_rep c h
  obtain ⟨g2', hb2', i2, _⟩ := build_rep ⟨c.ne, c.np, c.nc, c.ops.map (renOp π)⟩ h2
  rw [hb1] at hb1'; injection hb1' with e1; subst e1
  rw [hb2] at hb2'; injection hb2' with e2; subst e2
  obtain ⟨B1, r1, _, _, _, _, hnames1, _⟩ := i1
  obtain ⟨B2, r2, _⟩ := i2
  unfold circuitIsIsomorphic2
  rw [hb1, hb2]
  simp only [bind, Except.bind, pure, Except.pure]
  rw [isoGraphs2_complete g1 g2 _ _ B1 B2 r1 r2 hnames1 (mapFn f) (isoCheck2_facts _ _ f hcheck).2]

/-- **a circuit is reported isomorphic to itself by the model function**, as `compare` calls it and as the filters call it -/
theorem self_reported (c : Circuit) (h : ∀ o ∈ c.ops, OpOK (wiresN c.ne c.np c.nc) o) :
    circuitIsIsomorphic2 c c = .ok true ∧ isoNormalised2 c c = .ok true := by
  obtain ⟨g, hb, hr1, hr2⟩ := build_iso_refl c h
  obtain ⟨g', hb', i1, _⟩ := build_rep c h
  rw [hb] at hb'; injection hb' with e1; subst e1
  have hnorm := normalise_graphInv _ g c.ops i1
  obtain ⟨B1, r1, _, hid, _, hon, hnames1, _⟩ := i1
  constructor
  · unfold circuitIsIsomorphic2
    rw [hb]
    simp only [bind, Except.bind, pure, Except.pure]
    rw [isoGraphs2_complete g g _ _ B1 B1 r1 r1 hnames1 _ (isoCheck2_facts _ _ _ hr1).2]
  · unfold isoNormalised2
    rw [hb]
    simp only [bind, Except.bind, pure, Except.pure]
    obtain ⟨B2, r2, _, _⟩ := hnorm
    -- the names of the normalised DAG are distinct: from the reflexive check itself
    have hfacts := (isoCheck2_facts _ _ _ hr2).2
    have hn2 : (g.normalise.nodes.map (·.1)).Nodup := by
      have := hfacts.nodup
      rw [addControlTarget2_eq g.normalise _ B2 r2] at this
      have hnodes : g.normalise.labelled.nodes = g.normalise.nodes := rfl
      rw [hnodes] at this
      exact List.Nodup.of_map _ this
    rw [isoGraphs2_complete g.normalise g.normalise _ _ B2 B2 r2 r2 hn2 _ hfacts]

end Graphiq.Compare
