/-
  Proofs/AltTarget.lean — the duplicate removal of `AlternateTargetSolver.solve` (Model/AltTarget.lean):
  the classes of `set_list` partition the indices by key, deleting the sorted redundant indices from the back removes exactly
  those positions, and what remains has pairwise distinct keys and represents every key — for every `pick` that returns a
  member of its class.  All lengths.
-/
import Mathlib.Data.List.Sort
import Mathlib.Data.List.Nodup
import GraphiqModel.Model.AltTarget
namespace Graphiq
namespace Alt

variable {κ : Type} [DecidableEq κ]

/-! ### classes -/

theorem mem_classOf (keys : List κ) (i j : Nat) :
    j ∈ classOf keys i ↔ j = i ∨ (i < j ∧ j < keys.length ∧ keys[j]? = keys[i]?) := by
  simp only [classOf, List.mem_cons, List.mem_filter, List.mem_range, Bool.and_eq_true, decide_eq_true_eq]
  constructor
  · rintro (h | ⟨h1, h2, h3⟩)
    · exact Or.inl h
    · exact Or.inr ⟨h2, h1, h3⟩
  · rintro (h | ⟨h1, h2, h3⟩)
    · exact Or.inl h
    · exact Or.inr ⟨h2, h1, h3⟩

theorem classOf_key (keys : List κ) (i j : Nat) (h : j ∈ classOf keys i) : keys[j]? = keys[i]? := by
  rcases (mem_classOf keys i j).mp h with h | h
  · rw [h]
  · exact h.2.2

theorem classOf_lt (keys : List κ) (i j : Nat) (hi : i < keys.length) (h : j ∈ classOf keys i) : j < keys.length := by
  rcases (mem_classOf keys i j).mp h with h | h
  · rw [h]; exact hi
  · exact h.2.1

theorem classOf_nodup (keys : List κ) (i : Nat) : (classOf keys i).Nodup := by
  simp only [classOf, List.nodup_cons]
  refine ⟨?_, List.Nodup.filter _ List.nodup_range⟩
  simp only [List.mem_filter, List.mem_range, Bool.and_eq_true, decide_eq_true_eq, not_and]
  intro _ h; omega

/-! ### `set_list` -/

/-- the state of the loop after the indices `< k`: the classes of a list of heads with pairwise different keys, covering `0..k-1` -/
structure SLInv (keys : List κ) (k : Nat) (sl : List (List Nat)) : Prop where
  heads : ∃ hs : List Nat, sl = hs.map (classOf keys) ∧ (∀ i, i ∈ hs → i < k) ∧ hs.Nodup ∧
    ∀ a, a ∈ hs → ∀ b, b ∈ hs → keys[a]? = keys[b]? → a = b
  cover : ∀ j, j < k → ∃ s, s ∈ sl ∧ j ∈ s

theorem setListStep_inv (keys : List κ) (k : Nat) (hk : k < keys.length) (sl : List (List Nat))
    (h : SLInv keys k sl) : SLInv keys (k + 1) (setListStep keys sl k) := by
  obtain ⟨⟨hs, e, hlt, hnd, hinj⟩, hcov⟩ := h
  unfold setListStep
  split
  · next hany =>
    refine ⟨⟨hs, e, fun i hi => Nat.lt_succ_of_lt (hlt i hi), hnd, hinj⟩, ?_⟩
    intro j hj
    by_cases hjk : j = k
    · subst hjk
      simp only [List.any_eq_true, List.contains_iff_mem] at hany
      exact hany
    · exact hcov j (by omega)
  · next hany =>
    simp only [List.any_eq_true, List.contains_iff_mem, not_exists, not_and] at hany
    have hknot : ∀ a, a ∈ hs → keys[a]? ≠ keys[k]? := by
      intro a ha heq
      have hak : a < k := hlt a ha
      have : k ∈ classOf keys a := (mem_classOf keys a k).mpr (Or.inr ⟨hak, hk, heq.symm⟩)
      exact hany (classOf keys a) (by rw [e]; exact List.mem_map_of_mem ha) this
    refine ⟨⟨hs ++ [k], by rw [e]; simp, ?_, ?_, ?_⟩, ?_⟩
    · intro i hi
      rcases List.mem_append.mp hi with hi | hi
      · exact Nat.lt_succ_of_lt (hlt i hi)
      · simp only [List.mem_singleton] at hi; omega
    · rw [List.nodup_append]
      refine ⟨hnd, List.nodup_singleton k, ?_⟩
      intro a ha b hb hab
      simp only [List.mem_singleton] at hb
      have := hlt a ha
      omega
    · intro a ha b hb heq
      rcases List.mem_append.mp ha with ha | ha <;> rcases List.mem_append.mp hb with hb | hb
      · exact hinj a ha b hb heq
      · simp only [List.mem_singleton] at hb; rw [hb] at heq; exact absurd heq (hknot a ha)
      · simp only [List.mem_singleton] at ha; rw [ha] at heq; exact absurd heq.symm (hknot b hb)
      · simp only [List.mem_singleton] at ha hb; rw [ha, hb]
    · intro j hj
      by_cases hjk : j = k
      · subst hjk
        exact ⟨classOf keys j, by simp, (mem_classOf keys j j).mpr (Or.inl rfl)⟩
      · obtain ⟨s, hs1, hs2⟩ := hcov j (by omega)
        exact ⟨s, List.mem_append_left _ hs1, hs2⟩

theorem range_foldl_succ {β : Type} (f : β → Nat → β) (b : β) (k : Nat) :
    (List.range (k + 1)).foldl f b = f ((List.range k).foldl f b) k := by
  rw [List.range_succ, List.foldl_append]; rfl

theorem setList_inv (keys : List κ) : SLInv keys keys.length (setList keys) := by
  have key : ∀ k, k ≤ keys.length → SLInv keys k ((List.range k).foldl (setListStep keys) []) := by
    intro k
    induction k with
    | zero =>
      intro _
      refine ⟨⟨[], rfl, ?_, List.nodup_nil, ?_⟩, fun _ h => by omega⟩
      · intro i hi; cases hi
      · intro a ha; cases ha
    | succ k ih =>
      intro hk
      rw [range_foldl_succ]
      exact setListStep_inv keys k (by omega) _ (ih (by omega))
  exact key keys.length (Nat.le_refl _)

/-! ### deleting sorted indices from the back -/

/-- the invariant of the deletion loop on a list whose elements carry their original position: the first `m` positions are
    untouched -/
structure DelInv {α : Type} (L : List (α × Nat)) (m : Nat) : Prop where
  nodup : (L.map Prod.snd).Nodup
  pref : ∀ i, i < m → (L[i]?).map Prod.snd = some i

theorem eraseIdx_tagged {α : Type} (L : List (α × Nat)) (m d : Nat) (hd : d < m) (h : DelInv L m) :
    DelInv (L.eraseIdx d) d ∧ ∀ x, x ∈ L.eraseIdx d ↔ x ∈ L ∧ x.2 ≠ d := by
  obtain ⟨hnd, hpref⟩ := h
  have hLd := hpref d hd
  have hdl : d < L.length := by
    by_contra hc
    rw [List.getElem?_eq_none (by omega)] at hLd
    simp at hLd
  refine ⟨⟨?_, ?_⟩, ?_⟩
  · exact List.Nodup.sublist ((List.eraseIdx_sublist L d).map Prod.snd) hnd
  · intro i hi
    rw [List.getElem?_eraseIdx_of_lt hi]
    exact hpref i (by omega)
  · intro x
    rw [List.mem_eraseIdx_iff_getElem]
    have htag : (L[d]).2 = d := by
      rw [List.getElem?_eq_getElem hdl] at hLd
      simpa using hLd
    constructor
    · rintro ⟨i, hi, hne, e⟩
      refine ⟨by rw [← e]; exact List.getElem_mem hi, ?_⟩
      intro hx
      -- two positions with the same tag
      have e1 : (L.map Prod.snd)[i]'(by simpa using hi) = (L.map Prod.snd)[d]'(by simpa using hdl) := by
        simp only [List.getElem_map]
        rw [e, hx, htag]
      exact hne ((List.Nodup.getElem_inj_iff hnd).mp e1)
    · rintro ⟨hx, hne⟩
      obtain ⟨i, hi, e⟩ := List.getElem_of_mem hx
      refine ⟨i, hi, ?_, e⟩
      intro hid
      subst hid
      rw [e] at htag
      exact hne htag

/-- deleting strictly descending positions (all below the untouched prefix) removes exactly the elements tagged with them -/
theorem foldl_eraseIdx_tagged {α : Type} (ds : List Nat) (L : List (α × Nat)) (m : Nat) (h : DelInv L m)
    (hds : ds.Pairwise (· > ·)) (hlt : ∀ d, d ∈ ds → d < m) :
    (∀ x, x ∈ ds.foldl (fun acc i => acc.eraseIdx i) L ↔ x ∈ L ∧ x.2 ∉ ds) ∧
    ((ds.foldl (fun acc i => acc.eraseIdx i) L).map Prod.snd).Nodup ∧
    (ds.foldl (fun acc i => acc.eraseIdx i) L).Sublist L := by
  induction ds generalizing L m with
  | nil => exact ⟨fun x => by simp, h.nodup, List.Sublist.refl _⟩
  | cons d rest ih =>
    simp only [List.foldl]
    obtain ⟨inv', hmem⟩ := eraseIdx_tagged L m d (hlt d List.mem_cons_self) h
    have hrest := List.pairwise_cons.mp hds
    obtain ⟨i1, i2, i3⟩ := ih (L.eraseIdx d) d inv' hrest.2 (fun d' hd' => hrest.1 d' hd')
    refine ⟨fun x => ?_, i2, i3.trans (List.eraseIdx_sublist L d)⟩
    rw [i1 x, hmem x]
    simp only [List.mem_cons, not_or]
    constructor
    · rintro ⟨⟨a, b⟩, c⟩; exact ⟨a, b, c⟩
    · rintro ⟨a, b, c⟩; exact ⟨⟨a, b⟩, c⟩

theorem zipIdx_delInv {α : Type} (l : List α) : DelInv l.zipIdx l.length := by
  refine ⟨?_, ?_⟩
  · have : l.zipIdx.map Prod.snd = List.range l.length := by
      apply List.ext_getElem?
      intro i
      simp only [List.getElem?_map, List.getElem?_zipIdx, List.getElem?_range]
      by_cases hi : i < l.length
      · simp [hi]
      · simp [hi, List.getElem?_eq_none (Nat.le_of_not_lt hi)]
    rw [this]; exact List.nodup_range
  · intro i hi
    simp [List.getElem?_zipIdx, hi]

theorem eraseIdx_map {α β : Type} (f : α → β) (l : List α) (i : Nat) : (l.map f).eraseIdx i = (l.eraseIdx i).map f := by
  induction l generalizing i with
  | nil => rfl
  | cons a rest ih =>
    cases i with
    | zero => rfl
    | succ i => simp only [List.map_cons, List.eraseIdx_cons_succ, ih]

theorem foldl_eraseIdx_map {α β : Type} (f : α → β) (ds : List Nat) (l : List α) :
    ds.foldl (fun acc i => acc.eraseIdx i) (l.map f) = (ds.foldl (fun acc i => acc.eraseIdx i) l).map f := by
  induction ds generalizing l with
  | nil => rfl
  | cons d rest ih => simp only [List.foldl, eraseIdx_map, ih]

theorem zipIdx_map_fst {α : Type} (l : List α) : l.zipIdx.map Prod.fst = l := by
  apply List.ext_getElem?
  intro i
  simp only [List.getElem?_map, List.getElem?_zipIdx]
  cases l[i]? <;> rfl

/-! ### sorting -/

theorem sortAsc_eq (l : List Nat) : sortAsc l = l.insertionSort (· ≤ ·) := by
  have ins : ∀ (a : Nat) (t : List Nat), insertSorted a t = t.orderedInsert (· ≤ ·) a := by
    intro a t
    induction t with
    | nil => rfl
    | cons b t ih => simp only [insertSorted, List.orderedInsert, ih]
  induction l with
  | nil => rfl
  | cons a t ih =>
    simp only [sortAsc, List.foldr, List.insertionSort] at ih ⊢
    rw [ih, ins]

theorem sortAsc_perm (l : List Nat) : (sortAsc l).Perm l := by
  rw [sortAsc_eq]; exact List.perm_insertionSort _ l

theorem sortAsc_sorted (l : List Nat) : (sortAsc l).Pairwise (· ≤ ·) := by
  rw [sortAsc_eq]; exact List.pairwise_insertionSort _ l

/-! ### the duplicate removal -/

/-- membership in the (unsorted) list of redundant indices -/
theorem mem_redundant (pick : List Nat → Nat) (keys : List κ) (x : Nat) :
    x ∈ ((setList keys).flatMap fun s => s.erase (pick s)) ↔ ∃ s, s ∈ setList keys ∧ x ∈ s ∧ x ≠ pick s := by
  obtain ⟨⟨hs, e, _, _, _⟩, _⟩ := setList_inv keys
  simp only [List.mem_flatMap]
  constructor
  · rintro ⟨s, hs1, hx⟩
    have hnd : s.Nodup := by
      rw [e] at hs1
      obtain ⟨i, _, rfl⟩ := List.mem_map.mp hs1
      exact classOf_nodup keys i
    have := (List.Nodup.mem_erase_iff hnd).mp hx
    exact ⟨s, hs1, this.2, this.1⟩
  · rintro ⟨s, hs1, hx, hne⟩
    have hnd : s.Nodup := by
      rw [e] at hs1
      obtain ⟨i, _, rfl⟩ := List.mem_map.mp hs1
      exact classOf_nodup keys i
    exact ⟨s, hs1, (List.Nodup.mem_erase_iff hnd).mpr ⟨hne, hx⟩⟩

/-- two classes of `set_list` that share an index are the same class -/
theorem setList_disjoint (keys : List κ) (s s' : List Nat) (hs : s ∈ setList keys) (hs' : s' ∈ setList keys) (x : Nat)
    (hx : x ∈ s) (hx' : x ∈ s') : s = s' := by
  obtain ⟨⟨hds, e, _, _, hinj⟩, _⟩ := setList_inv keys
  rw [e] at hs hs'
  obtain ⟨a, ha, rfl⟩ := List.mem_map.mp hs
  obtain ⟨b, hb, rfl⟩ := List.mem_map.mp hs'
  have : a = b := hinj a ha b hb ((classOf_key keys a x hx).symm.trans (classOf_key keys b x hx'))
  rw [this]

theorem redundant_nodup (pick : List Nat → Nat) (keys : List κ) :
    ((setList keys).flatMap fun s => s.erase (pick s)).Nodup := by
  obtain ⟨⟨hds, e, _, hnd, hinj⟩, _⟩ := setList_inv keys
  rw [List.nodup_flatMap]
  constructor
  · intro s hs
    rw [e] at hs
    obtain ⟨i, _, rfl⟩ := List.mem_map.mp hs
    exact List.Nodup.erase _ (classOf_nodup keys i)
  · rw [e, List.pairwise_map]
    have hne : hds.Pairwise (· ≠ ·) := hnd
    refine List.Pairwise.imp_of_mem ?_ hne
    intro a b ha hb hab
    show List.Disjoint ((classOf keys a).erase _) ((classOf keys b).erase _)
    intro x hx hx'
    have h1 := List.mem_of_mem_erase hx
    have h2 := List.mem_of_mem_erase hx'
    exact hab (hinj a ha b hb ((classOf_key keys a x h1).symm.trans (classOf_key keys b x h2)))

theorem redundant_lt (pick : List Nat → Nat) (keys : List κ) (x : Nat)
    (hx : x ∈ ((setList keys).flatMap fun s => s.erase (pick s))) : x < keys.length := by
  obtain ⟨s, hs, hxs, _⟩ := (mem_redundant pick keys x).mp hx
  obtain ⟨⟨hds, e, hlt, _, _⟩, _⟩ := setList_inv keys
  rw [e] at hs
  obtain ⟨i, hi, rfl⟩ := List.mem_map.mp hs
  exact classOf_lt keys i x (hlt i hi) hxs

/-- an index that survives is the picked member of its class -/
theorem survivor_is_pick (pick : List Nat → Nat) (keys : List κ) (a : Nat) (ha : a < keys.length)
    (hna : a ∉ ((setList keys).flatMap fun s => s.erase (pick s))) :
    ∃ s, s ∈ setList keys ∧ a ∈ s ∧ a = pick s := by
  obtain ⟨s, hs, has⟩ := (setList_inv keys).cover a ha
  refine ⟨s, hs, has, ?_⟩
  by_contra hne
  exact hna ((mem_redundant pick keys a).mpr ⟨s, hs, has, hne⟩)

/-- **the duplicate removal of `solve`**, for every `pick` that returns a member of its class (`list(s)[0]`):
    the result consists of entries of the input at pairwise different positions, in the original order, whose keys are
    pairwise different, and every key of the input is the key of a kept entry -/
theorem dedup_spec {α : Type} (pick : List Nat → Nat) (keys : List κ) (entries : List α)
    (hlen : entries.length = keys.length) (hpick : ∀ s, s ∈ setList keys → pick s ∈ s) :
    ∃ T : List (α × Nat), dedup pick keys entries = T.map Prod.fst ∧
      T.Sublist entries.zipIdx ∧
      (∀ x, x ∈ T → entries[x.2]? = some x.1) ∧
      T.Pairwise (fun x y => keys[x.2]? ≠ keys[y.2]?) ∧
      (∀ j, j < keys.length → ∃ x, x ∈ T ∧ keys[x.2]? = keys[j]?) := by
  let R := (setList keys).flatMap fun s => s.erase (pick s)
  have hperm : (redundantIndices pick keys).Perm R := sortAsc_perm R
  have hsorted : (redundantIndices pick keys).Pairwise (· ≤ ·) := sortAsc_sorted R
  have hnd : (redundantIndices pick keys).Nodup := hperm.nodup_iff.mpr (redundant_nodup pick keys)
  have hmemI : ∀ x, x ∈ redundantIndices pick keys ↔ x ∈ R := fun x => hperm.mem_iff
  -- strictly descending after the reversal
  have hdesc : (redundantIndices pick keys).reverse.Pairwise (· > ·) := by
    rw [List.pairwise_reverse]
    have hne : (redundantIndices pick keys).Pairwise (· ≠ ·) := hnd
    exact (hsorted.and hne).imp (fun {a b} h => by have := h.1; have := h.2; omega)
  have hltI : ∀ d, d ∈ (redundantIndices pick keys).reverse → d < entries.length := by
    intro d hd
    rw [hlen]
    exact redundant_lt pick keys d ((hmemI d).mp (List.mem_reverse.mp hd))
  obtain ⟨m1, m2, m3⟩ := foldl_eraseIdx_tagged (redundantIndices pick keys).reverse entries.zipIdx entries.length
    (zipIdx_delInv entries) hdesc hltI
  refine ⟨(redundantIndices pick keys).reverse.foldl (fun acc i => acc.eraseIdx i) entries.zipIdx, ?_, m3, ?_, ?_, ?_⟩
  · unfold dedup delDescending
    rw [← foldl_eraseIdx_map, zipIdx_map_fst]
  · intro x hx
    have := m3.subset hx
    obtain ⟨_, h2, h3⟩ := List.mem_zipIdx this
    simp only [Nat.zero_add, Nat.sub_zero] at h2 h3
    rw [List.getElem?_eq_getElem h2, h3]
  · -- pairwise different keys
    have htags : ((redundantIndices pick keys).reverse.foldl (fun acc i => acc.eraseIdx i) entries.zipIdx).Pairwise
        (fun x y => x.2 ≠ y.2) := by
      have : (List.map Prod.snd ((redundantIndices pick keys).reverse.foldl (fun acc i => acc.eraseIdx i)
          entries.zipIdx)).Pairwise (· ≠ ·) := m2
      exact List.pairwise_map.mp this
    refine List.Pairwise.imp_of_mem ?_ htags
    intro x y hx hy hne heq
    apply hne
    have hx' := (m1 x).mp hx
    have hy' := (m1 y).mp hy
    have hxl : x.2 < keys.length := by
      have := (List.mem_zipIdx hx'.1).2.1; rw [← hlen]; simpa using this
    have hyl : y.2 < keys.length := by
      have := (List.mem_zipIdx hy'.1).2.1; rw [← hlen]; simpa using this
    have hxR : x.2 ∉ R := fun h => hx'.2 (List.mem_reverse.mpr ((hmemI x.2).mpr h))
    have hyR : y.2 ∉ R := fun h => hy'.2 (List.mem_reverse.mpr ((hmemI y.2).mpr h))
    obtain ⟨s, hs, hxs, ex⟩ := survivor_is_pick pick keys x.2 hxl hxR
    obtain ⟨s', hs', hys, ey⟩ := survivor_is_pick pick keys y.2 hyl hyR
    -- equal keys: the two classes have heads with equal keys, hence are the same class
    obtain ⟨⟨hds, e, _, _, hinj⟩, _⟩ := setList_inv keys
    have hs2 := hs; have hs2' := hs'
    rw [e] at hs2 hs2'
    obtain ⟨a, ha, ea⟩ := List.mem_map.mp hs2
    obtain ⟨b, hb, eb⟩ := List.mem_map.mp hs2'
    have ka : keys[x.2]? = keys[a]? := classOf_key keys a x.2 (ea ▸ hxs)
    have kb : keys[y.2]? = keys[b]? := classOf_key keys b y.2 (eb ▸ hys)
    have hab : a = b := hinj a ha b hb (ka.symm.trans (heq.trans kb))
    have hss : s = s' := by rw [← ea, ← eb, hab]
    rw [ex, ey, hss]
  · -- every key is represented
    intro j hj
    obtain ⟨s, hs, hjs⟩ := (setList_inv keys).cover j hj
    have hp := hpick s hs
    obtain ⟨⟨hds, e, hlt, _, _⟩, _⟩ := setList_inv keys
    have hs2 := hs
    rw [e] at hs2
    obtain ⟨a, ha, ea⟩ := List.mem_map.mp hs2
    have hpl : pick s < keys.length := classOf_lt keys a (pick s) (hlt a ha) (ea ▸ hp)
    have hpR : pick s ∉ R := by
      intro h
      obtain ⟨s', hs', hps', hne⟩ := (mem_redundant pick keys (pick s)).mp h
      have := setList_disjoint keys s s' hs hs' (pick s) hp hps'
      rw [this] at hne
      exact hne rfl
    have hpe : pick s < entries.length := by rw [hlen]; exact hpl
    refine ⟨(entries[pick s], pick s), (m1 _).mpr ⟨?_, ?_⟩, ?_⟩
    · rw [List.mem_iff_getElem?]
      exact ⟨pick s, by simp [List.getElem?_zipIdx, hpe]⟩
    · intro h
      exact hpR ((hmemI _).mp (List.mem_reverse.mp h))
    · show keys[pick s]? = keys[j]?
      rw [classOf_key keys a (pick s) (ea ▸ hp), classOf_key keys a j (ea ▸ hjs)]

end Alt
end Graphiq
