/-
  Proofs/SweepGraphDensity.lean — C08 ↔ C17 ↔ C09/C11: the exact ℚ[i] matrix `DM.stabilizerDensity` (C17's executable model of
  the stabilizer → density-matrix converter) of the graph-state Clifford tableau `LC.graphTab n A` (C09 / C11) represents, in the
  sense of deep-c01's bridge `Hilbert.Rep`, the graph-state density matrix `|G⟩⟨G| = graphStateMat n A` of C08.
-/
import GraphiqModel.Proofs.StateToGraphHilbert
import GraphiqModel.Proofs.HilbertBridgeDensity
import GraphiqModel.Model.LC
namespace Graphiq.Sweep
open Graphiq Graphiq.Hilbert

/-- the stabilizer half of the graph tableau is the graph-state generating set of C08 -/
theorem tabRho_graphTab (n : Nat) (A : Adj) : tabRho n (LC.graphTab n A) = rho n (graphSTab n A) := by
  show rhoTo n (STab.ofTab (LC.graphTab n A)).row n = rhoTo n (graphSTab n A).row n
  apply rhoTo_congr
  intro i hi
  show PRow.EqOn n { (LC.graphTab n A).row (i + n) with ip := false } ((graphSTab n A).row i)
  have : (LC.graphTab n A).row (i + n) = LC.graphGen A i := by
    unfold LC.graphTab
    simp only
    rw [if_neg (by omega), Nat.add_sub_cancel]
  rw [this]
  refine ⟨fun j hj => ⟨rfl, ?_⟩, rfl, rfl⟩
  show A i j = (decide (j < n) && A i j)
  simp [hj]

/-- **the exact density matrix of the graph tableau represents `|G⟩⟨G|`** -/
theorem rep_graph_density (n : Nat) (A : Adj) (hsym : ∀ i j, i < n → j < n → A i j = A j i) (hirr : ∀ i, i < n → A i i = false) :
    Rep n (DM.stabilizerDensity (LC.graphTab n A)) (graphStateMat n A) := by
  have h := rep_stabilizerDensity (LC.graphTab n A)
  have hn : (LC.graphTab n A).n = n := rfl
  rw [hn] at h
  exact h.congr ((tabRho_graphTab n A).trans (rho_graphSTab n A hsym hirr))

end Graphiq.Sweep
