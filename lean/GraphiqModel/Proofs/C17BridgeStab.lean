/-
  Proofs/C17BridgeStab.lean — the fidelity the stabilizer backend reports is the Uhlmann fidelity of the two density
  matrices: every stabilizer state is `|ψ⟩⟨ψ|` (Proofs/InvHilbert.lean), for a pure argument the Uhlmann fidelity is
  `tr(ρσ)` (Proofs/C17BridgeUhlmann.lean), and `tr(ρ_a ρ_b)` is the exact overlap `stabOverlap` (Proofs/C17Bridge.lean).
-/
import GraphiqModel.Proofs.C17BridgeUhlmann
import GraphiqModel.Proofs.C17Bridge
namespace Graphiq
namespace C17B
open Matrix Hilbert
open scoped MatrixOrder ComplexOrder


/-- **the stabilizer fidelity is the Uhlmann fidelity of the two density matrices** -/
theorem uhlmann_stabilizer (a b : Tab) (va : a.Valid) (vb : b.Valid) (hn : a.n = b.n) :
    uhlmann (tabRho a.n a) (tabRho a.n b) = ((DM.stabOverlap a b : Rat) : ℂ) := by
  obtain ⟨ψa, ψb, na, nb, ra, rb, hov⟩ := stabOverlap_inner a b va vb hn
  have ea : tabRho a.n a = ketBra ψa := by
    ext x y; rw [ra x y]; rfl
  have hψ : star ψa ⬝ᵥ ψa = 1 := by
    unfold dotProduct; exact na
  have gb : (STab.ofTab b).Good := STab.ofTab_good_of_valid b vb
  have pb : (tabRho a.n b).PosSemidef := by
    have h1 : tabRho b.n b * tabRho b.n b = tabRho b.n b := rho_idem _ gb
    have h2 : (tabRho b.n b)ᴴ = tabRho b.n b := rho_hermitian _ gb
    rw [← hn] at h1 h2
    exact posSemidef_of_projector _ h1 h2
  rw [ea, uhlmann_pure_left ψa hψ _ pb, ← ea]
  -- tr(ρ_a ρ_b) is the exact overlap
  have ga := STab.ofTab_good_of_valid a va
  obtain ⟨r, hr⟩ := STab.innerProduct_total_full a b ga gb (STab.ofTab_indep a va) (STab.ofTab_indep b vb) hn
  rw [stabOverlap_eq a b r ga gb hr, ← ipVal_eq]
  exact innerProduct_trace a b r ga gb hr


/-! ### the model's `fidelity` on a pure first argument -/


variable {ι : Type} [Fintype ι] [DecidableEq ι]

/-- `0 ≤ ⟨ψ|σ|ψ⟩ ≤ tr σ` for a unit vector and a positive semidefinite matrix -/
theorem expectation_le_trace (ψ : ι → ℂ) (hψ : star ψ ⬝ᵥ ψ = 1) (σ : Matrix ι ι ℂ) (hσ : σ.PosSemidef) :
    0 ≤ (Matrix.trace (ketBra ψ * σ)).re ∧ (Matrix.trace (ketBra ψ * σ)).re ≤ (Matrix.trace σ).re := by
  constructor
  · rw [trace_ketBra_mul]
    exact (Complex.le_def.mp (hσ.dotProduct_mulVec_nonneg ψ)).1
  · -- `tr σ − tr(ρσ) = tr(PσP)` with the projector `P = 1 − ρ`
    have hPP : (1 - ketBra ψ) * (1 - ketBra ψ) = 1 - ketBra ψ := by
      rw [Matrix.sub_mul, Matrix.mul_sub, Matrix.mul_sub, ketBra_mul_self ψ hψ]
      simp
    have hPH : (1 - ketBra ψ)ᴴ = 1 - ketBra ψ := by
      rw [Matrix.conjTranspose_sub, Matrix.conjTranspose_one, (ketBra_psd ψ).1]
    have hps : ((1 - ketBra ψ) * σ * (1 - ketBra ψ)ᴴ).PosSemidef := hσ.mul_mul_conjTranspose_same _
    have htr : Matrix.trace ((1 - ketBra ψ) * σ * (1 - ketBra ψ)ᴴ) = Matrix.trace σ - Matrix.trace (ketBra ψ * σ) := by
      rw [hPH, Matrix.trace_mul_comm, ← Matrix.mul_assoc, hPP, Matrix.sub_mul, Matrix.one_mul, Matrix.trace_sub]
    have := hps.trace_nonneg
    rw [htr] at this
    have h2 := (Complex.le_def.mp this).1
    simp only [Complex.zero_re, Complex.sub_re] at h2
    linarith


/-- **the model's `fidelity` returns the Uhlmann fidelity whenever its first argument represents a pure state `|ψ⟩⟨ψ|` and
    its second a density matrix** (positive semidefinite, trace 1): the pure branch is taken and nothing is clipped -/
theorem fidelity_pure_rep {n : Nat} {m m' : Mat} (ψ : Bits n → ℂ) (M' : DMat n) (hψ : star ψ ⬝ᵥ ψ = 1)
    (hm : Rep n m (ketBra ψ)) (hm' : Rep n m' M') (hM' : M'.PosSemidef) (ht : Matrix.trace M' = 1) :
    ∃ q : Rat, DM.fidelity m m' = .ok (.val q) ∧ ((q : ℝ) : ℂ) = uhlmann (ketBra ψ) M' := by
  have d1 := isDensityMatrix_of_rep hm (ketBra_psd ψ) (trace_ketBra ψ hψ)
  have d2 := isDensityMatrix_of_rep hm' hM' ht
  have p1 := isPure_of_rep hm (ketBra_mul_self ψ hψ) (trace_ketBra ψ hψ)
  have hb := expectation_le_trace ψ hψ M' hM'
  rw [ht] at hb
  have htr := (hm.mul hm').trace_re
  have h0 : (0 : Rat) ≤ (m.mul m').trace.re := by
    have : (0 : ℝ) ≤ (((m.mul m').trace.re : Rat) : ℝ) := by rw [htr]; exact hb.1
    exact_mod_cast this
  have h1 : (m.mul m').trace.re ≤ (1 : Rat) := by
    have : (((m.mul m').trace.re : Rat) : ℝ) ≤ (1 : ℝ) := by rw [htr]; simpa using hb.2
    exact_mod_cast this
  refine ⟨(m.mul m').trace.re, ?_, ?_⟩
  · rw [DM.fidelity_pure_branch m m' d1 d2 (Or.inl p1), DM.clip01_id _ h0 h1]
  · rw [uhlmann_pure_left ψ hψ M' hM', htr]
    apply Complex.ext
    · simp
    · simp
      rw [trace_ketBra_mul]
      exact ((Complex.le_def.mp (hM'.dotProduct_mulVec_nonneg ψ)).2)


/-- the exact matrix of a valid tableau represents a pure state `|ψ⟩⟨ψ|` with a unit vector -/
theorem stabilizerDensity_rep_ketBra (a : Tab) (va : a.Valid) :
    ∃ ψ : Bits a.n → ℂ, star ψ ⬝ᵥ ψ = 1 ∧ Rep a.n (DM.stabilizerDensity a) (ketBra ψ) := by
  obtain ⟨ψa, _, na, _, ra, _, _⟩ := stabOverlap_inner a a va va rfl
  refine ⟨ψa, by unfold dotProduct; exact na, (rep_stabilizerDensity a).congr ?_⟩
  ext x y; rw [ra x y]; rfl

end C17B
end Graphiq
