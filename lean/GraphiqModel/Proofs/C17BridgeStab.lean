/-
  Proofs/C17BridgeStab.lean — the fidelity the stabilizer backend reports is the Uhlmann fidelity of the two density
  matrices: every stabilizer state is `|ψ⟩⟨ψ|` (Proofs/InvHilbert.lean), for a pure argument the Uhlmann fidelity is
  `tr(ρσ)` (Proofs/C17BridgeUhlmann.lean), and `tr(ρ_a ρ_b)` is the exact overlap `stabOverlap` (Proofs/C17Bridge.lean).
-/
import GraphiqModel.Proofs.C17BridgeUhlmann
import GraphiqModel.Proofs.C17Bridge
namespace Graphiq
namespace C17B
open Matrix Hilbert
open scoped MatrixOrder ComplexOrder


/-- **the stabilizer fidelity is the Uhlmann fidelity of the two density matrices** -/
theorem uhlmann_stabilizer (a b : Tab) (va : a.Valid) (vb : b.Valid) (hn : a.n = b.n) :
    uhlmann (tabRho a.n a) (tabRho a.n b) = ((DM.stabOverlap a b : Rat) : ℂ) := by
  obtain ⟨ψa, ψb, na, nb, ra, rb, hov⟩ := stabOverlap_inner a b va vb hn
  have ea : tabRho a.n a = ketBra ψa := by
    ext x y; rw [ra x y]; rfl
  have hψ : star ψa ⬝ᵥ ψa = 1 := by
    unfold dotProduct; exact na
  have gb : (STab.ofTab b).Good := STab.ofTab_good_of_valid b vb
  have pb : (tabRho a.n b).PosSemidef := by
    have h1 : tabRho b.n b * tabRho b.n b = tabRho b.n b := rho_idem _ gb
    have h2 : (tabRho b.n b)ᴴ = tabRho b.n b := rho_hermitian _ gb
    rw [← hn] at h1 h2
    exact posSemidef_of_projector _ h1 h2
  rw [ea, uhlmann_pure_left ψa hψ _ pb, ← ea]
  -- tr(ρ_a ρ_b) is the exact overlap
  have ga := STab.ofTab_good_of_valid a va
  obtain ⟨r, hr⟩ := STab.innerProduct_total_full a b ga gb (STab.ofTab_indep a va) (STab.ofTab_indep b vb) hn
  rw [stabOverlap_eq a b r ga gb hr, ← ipVal_eq]
  exact innerProduct_trace a b r ga gb hr


end C17B
end Graphiq
