/-
  Proofs/Echelon.lean — the post-condition of `rref` (stabilizer.py): the result is in *echelon form*.
  Part 1: Pauli types at a site, the primitive row operations on Pauli types, the index lists of
  `pauli_type_finder`, and exact row-wise descriptions of the `tab_row_sum` loops.  All sizes; core Lean only.
-/
import GraphiqModel.Proofs.StabTableau
namespace Graphiq
open PRow

/-- Pauli type of a row at site `j`: 0 = I, 1 = X, 2 = Y, 3 = Z (the encoding of `STab.ptype`) -/
def PRow.pt (p : PRow) (j : Nat) : Nat :=
  match p.x j, p.z j with
  | false, false => 0 | true, false => 1 | true, true => 2 | false, true => 3

/-- product of Pauli types up to phase: the Klein four-group on `0..3` -/
def pmul (a b : Nat) : Nat := if a = 0 then b else if b = 0 then a else if a = b then 0 else 6 - a - b

namespace PRow

theorem pt_le (p : PRow) (j : Nat) : p.pt j ≤ 3 := by
  unfold pt; cases p.x j <;> cases p.z j <;> simp

theorem pt_congr (a b : PRow) (j : Nat) (hx : a.x j = b.x j) (hz : a.z j = b.z j) : a.pt j = b.pt j := by
  unfold pt; rw [hx, hz]

theorem pt_eq_zero_iff (p : PRow) (j : Nat) : p.pt j = 0 ↔ (p.x j || p.z j) = false := by
  unfold pt; cases p.x j <;> cases p.z j <;> simp

theorem pt_zero_bits (p : PRow) (j : Nat) (h : p.pt j = 0) : p.x j = false ∧ p.z j = false := by
  unfold pt at h; cases hx : p.x j <;> cases hz : p.z j <;> simp [hx, hz] at h ⊢

theorem pt_of_bits (p : PRow) (j : Nat) (hx : p.x j = false) (hz : p.z j = false) : p.pt j = 0 := by
  unfold pt; rw [hx, hz]

end PRow

namespace STab

theorem ptype_eq (t : STab) (i j : Nat) : t.ptype i j = (t.row i).pt j := rfl

theorem stabMul_x (n : Nat) (a b : PRow) (j : Nat) : (stabMul n a b).x j = xor (a.x j) (b.x j) := rfl
theorem stabMul_z (n : Nat) (a b : PRow) (j : Nat) : (stabMul n a b).z j = xor (a.z j) (b.z j) := rfl

/-- `tab_row_sum` multiplies Pauli types site by site -/
theorem pt_stabMul (n : Nat) (a b : PRow) (j : Nat) : (stabMul n a b).pt j = pmul (a.pt j) (b.pt j) := by
  unfold PRow.pt
  rw [stabMul_x, stabMul_z]
  cases a.x j <;> cases a.z j <;> cases b.x j <;> cases b.z j <;> decide

theorem ptype_le (t : STab) (i j : Nat) : t.ptype i j ≤ 3 := PRow.pt_le _ _

theorem ptype_norm (t : STab) (i j : Nat) (hi : i < t.n) (hj : j < t.n) : t.norm.ptype i j = t.ptype i j := by
  have e := (norm_row t i hi).1 j hj
  exact PRow.pt_congr _ _ j e.1 e.2

theorem rowSwap_row (t : STab) (a b i : Nat) :
    (t.rowSwap a b).row i = if i = a then t.row b else if i = b then t.row a else t.row i := rfl

theorem rowSum_row (t : STab) (a b i : Nat) :
    (t.rowSum a b).row i = if i = b then stabMul t.n (t.row a) (t.row b) else t.row i := rfl

theorem rowSwap_n (t : STab) (a b : Nat) : (t.rowSwap a b).n = t.n := rfl
theorem rowSum_n (t : STab) (a b : Nat) : (t.rowSum a b).n = t.n := rfl

/-! ### the index lists of `pauli_type_finder` -/

/-- the type code `pickType` selects for its argument `ty` -/
def tyCode (ty : Nat) : Nat := if ty = 1 then 1 else if ty = 2 then 2 else 3

theorem mem_pickType_iff (t : STab) (pr pc ty i : Nat) :
    i ∈ t.pickType pr pc ty ↔ pr ≤ i ∧ i < t.n ∧ t.ptype i pc = tyCode ty := by
  unfold pickType tyCode pauliTypeFinder
  split
  · simp only [List.mem_filter, List.mem_range, decide_eq_true_eq]
    constructor
    · intro h; exact ⟨h.1.2, h.1.1, h.2⟩
    · intro h; exact ⟨⟨h.2.1, h.1⟩, h.2.2⟩
  · split
    · simp only [List.mem_filter, List.mem_range, decide_eq_true_eq]
      constructor
      · intro h; exact ⟨h.1.2, h.1.1, h.2⟩
      · intro h; exact ⟨⟨h.2.1, h.1⟩, h.2.2⟩
    · simp only [List.mem_filter, List.mem_range, decide_eq_true_eq]
      constructor
      · intro h; exact ⟨h.1.2, h.1.1, h.2⟩
      · intro h; exact ⟨⟨h.2.1, h.1⟩, h.2.2⟩

theorem pickType_sorted (t : STab) (pr pc ty : Nat) : (t.pickType pr pc ty).Pairwise (· < ·) := by
  unfold pickType pauliTypeFinder
  have h : (List.range t.n).Pairwise (· < ·) := List.pairwise_lt_range
  split
  · exact (h.filter _).filter _
  · split
    · exact (h.filter _).filter _
    · exact (h.filter _).filter _

theorem pickType_1 (t : STab) (pr pc : Nat) : t.pickType pr pc 1 = (t.pauliTypeFinder pr pc).1 := by simp [pickType]
theorem pickType_2 (t : STab) (pr pc : Nat) : t.pickType pr pc 2 = (t.pauliTypeFinder pr pc).2.1 := by simp [pickType]
theorem pickType_3 (t : STab) (pr pc : Nat) : t.pickType pr pc 3 = (t.pauliTypeFinder pr pc).2.2 := by simp [pickType]

theorem sorted_head_notMem {a : Nat} {l : List Nat} (h : (a :: l).Pairwise (· < ·)) : a ∉ l := by
  intro hm
  have := (List.pairwise_cons.1 h).1 a hm
  omega

theorem sorted_head_lt {a : Nat} {l : List Nat} (h : (a :: l).Pairwise (· < ·)) : ∀ x, x ∈ l → a < x :=
  (List.pairwise_cons.1 h).1

theorem sorted_tail {a : Nat} {l : List Nat} (h : (a :: l).Pairwise (· < ·)) : l.Pairwise (· < ·) :=
  (List.pairwise_cons.1 h).2

/-! ### exact description of the `tab_row_sum` loops -/

/-- `for i in l: tab_row_sum(tableau, pr, i)` with `pr ∉ l`: exactly the rows of `l` are multiplied by row `pr` -/
theorem foldl_rowSum_row (pr : Nat) (l : List Nat) (t : STab) (hs : l.Pairwise (· < ·)) (hp : pr ∉ l) (i : Nat) :
    (l.foldl (fun acc k => acc.rowSum pr k) t).row i
      = if i ∈ l then stabMul t.n (t.row pr) (t.row i) else t.row i := by
  induction l generalizing t with
  | nil => simp
  | cons x rest ih =>
    simp only [List.foldl]
    have hx : x ∉ rest := sorted_head_notMem hs
    have hpx : pr ≠ x := fun e => hp (by rw [e]; exact List.mem_cons_self)
    have hpr : pr ∉ rest := fun h => hp (List.mem_cons_of_mem _ h)
    rw [ih (t.rowSum pr x) (sorted_tail hs) hpr]
    simp only [rowSum_n, rowSum_row, if_neg hpx]
    by_cases hix : i = x
    · subst hix; simp [hx]
    · by_cases hir : i ∈ rest
      · simp [hir, hix]
      · simp [hir, hix]

/-- the loop of the three-Pauli case: `tab_row_sum(pr, k); tab_row_sum(pr+1, k)` for every `k ∈ l` -/
theorem foldl_rowSum2_row (pr : Nat) (l : List Nat) (t : STab) (hs : l.Pairwise (· < ·)) (hp : pr ∉ l)
    (hp1 : pr + 1 ∉ l) (i : Nat) :
    (l.foldl (fun acc k => (acc.rowSum pr k).rowSum (pr + 1) k) t).row i
      = if i ∈ l then stabMul t.n (t.row (pr + 1)) (stabMul t.n (t.row pr) (t.row i)) else t.row i := by
  induction l generalizing t with
  | nil => simp
  | cons x rest ih =>
    simp only [List.foldl]
    have hx : x ∉ rest := sorted_head_notMem hs
    have hpx : pr ≠ x := fun e => hp (by rw [e]; exact List.mem_cons_self)
    have hpx1 : pr + 1 ≠ x := fun e => hp1 (by rw [e]; exact List.mem_cons_self)
    have hpr : pr ∉ rest := fun h => hp (List.mem_cons_of_mem _ h)
    have hpr1 : pr + 1 ∉ rest := fun h => hp1 (List.mem_cons_of_mem _ h)
    rw [ih ((t.rowSum pr x).rowSum (pr + 1) x) (sorted_tail hs) hpr hpr1]
    simp only [rowSum_n, rowSum_row, if_neg hpx, if_neg hpx1, if_true]
    by_cases hix : i = x
    · subst hix; simp [hx]
    · by_cases hir : i ∈ rest
      · simp [hir, hix]
      · simp [hir, hix]

theorem foldl_rowSum2_n (pr : Nat) (l : List Nat) (t : STab) :
    (l.foldl (fun acc k => (acc.rowSum pr k).rowSum (pr + 1) k) t).n = t.n := by
  induction l generalizing t with
  | nil => rfl
  | cons x rest ih => simp only [List.foldl]; rw [ih]; rfl

/-! ### what `_process_one_pauli` and `_process_two_pauli` do to the pivot column -/

theorem pmul_self (a : Nat) : pmul a a = 0 := by unfold pmul; split <;> simp_all

theorem tyCode_pos (ty : Nat) : tyCode ty ≠ 0 := by
  unfold tyCode
  split
  · omega
  · split <;> omega

theorem processOne_n (t : STab) (pr : Nat) (l : List Nat) : (t.processOne pr l).n = t.n := by
  unfold processOne
  cases l with
  | nil => rfl
  | cons f r => simp only; rw [norm_n, foldl_rowSum_n]; rfl

theorem ptype_swap_norm (t : STab) (a b i j : Nat) (hi : i < t.n) (hj : j < t.n) :
    (t.rowSwap a b).norm.ptype i j = t.ptype (if i = a then b else if i = b then a else i) j := by
  rw [ptype_norm (t.rowSwap a b) i j hi hj, ptype_eq, rowSwap_row, ptype_eq]
  split
  · rfl
  · split <;> rfl

/-- only one Pauli type `ty` occurs in column `pc` at or below the pivot row: afterwards the pivot row carries it and every
    row below is the identity there -/
theorem processOne_col (t : STab) (pr pc ty : Nat) (l : List Nat) (hpc : pc < t.n)
    (hl : ∀ i, i ∈ l ↔ pr ≤ i ∧ i < t.n ∧ t.ptype i pc = ty) (hs : l.Pairwise (· < ·)) (hne : l ≠ [])
    (hoth : ∀ i, pr ≤ i → i < t.n → t.ptype i pc = ty ∨ t.ptype i pc = 0) :
    (t.processOne pr l).ptype pr pc = ty ∧ ∀ i, pr < i → i < t.n → (t.processOne pr l).ptype i pc = 0 := by
  cases l with
  | nil => exact absurd rfl hne
  | cons first rest =>
    have hf := (hl first).1 List.mem_cons_self
    have hpr : pr < t.n := by omega
    have hlt := sorted_head_lt hs
    have hprr : pr ∉ rest := fun h => by have := hlt pr h; omega
    have hrow : ∀ i, (rest.foldl (fun acc k => acc.rowSum pr k) (t.rowSwap pr first)).row i
        = if i ∈ rest then stabMul t.n (t.row first) ((t.rowSwap pr first).row i) else (t.rowSwap pr first).row i := by
      intro i
      rw [foldl_rowSum_row pr rest _ (sorted_tail hs) hprr i]
      simp [rowSwap_row, rowSwap_n]
    have hn : (rest.foldl (fun acc k => acc.rowSum pr k) (t.rowSwap pr first)).n = t.n := by
      rw [foldl_rowSum_n]; rfl
    have hpt : ∀ i, i < t.n → (t.processOne pr (first :: rest)).ptype i pc
        = ((rest.foldl (fun acc k => acc.rowSum pr k) (t.rowSwap pr first)).row i).pt pc := by
      intro i hi
      show (STab.norm _).ptype i pc = _
      rw [ptype_norm _ i pc (by rw [hn]; exact hi) (by rw [hn]; exact hpc)]; rfl
    constructor
    · rw [hpt pr hpr, hrow pr, if_neg hprr, rowSwap_row, if_pos rfl]
      exact hf.2.2
    · intro i hi hin
      rw [hpt i hin, hrow i]
      have hipr : i ≠ pr := by omega
      by_cases hir : i ∈ rest
      · have hif : i ≠ first := by have := hlt i hir; omega
        rw [if_pos hir, pt_stabMul, rowSwap_row, if_neg hipr, if_neg hif]
        have h1 : (t.row first).pt pc = ty := hf.2.2
        have h2 : (t.row i).pt pc = ty := ((hl i).1 (List.mem_cons_of_mem _ hir)).2.2
        rw [h1, h2]; exact pmul_self ty
      · rw [if_neg hir, rowSwap_row, if_neg hipr]
        by_cases hif : i = first
        · rw [if_pos hif]
          have hprl : pr ∉ first :: rest := by
            intro h
            rcases List.mem_cons.1 h with e | e
            · omega
            · exact hprr e
          have : ¬ (t.ptype pr pc = ty) := fun e => hprl ((hl pr).2 ⟨Nat.le_refl _, hpr, e⟩)
          rcases hoth pr (Nat.le_refl _) hpr with e | e
          · exact absurd e this
          · exact e
        · rw [if_neg hif]
          have hil : i ∉ first :: rest := by
            intro h
            rcases List.mem_cons.1 h with e | e
            · exact hif e
            · exact hir e
          have : ¬ (t.ptype i pc = ty) := fun e => hil ((hl i).2 ⟨by omega, hin, e⟩)
          rcases hoth i (by omega) hin with e | e
          · exact absurd e this
          · exact e

/-- the two elimination loops of `_process_two_pauli`, started from the tableau `T2` in which the pivot rows `pr`, `pr+1`
    already carry the two Pauli types -/
theorem processTwo_core (T2 : STab) (pr pc ty1 ty2 : Nat) (l1 l2 : List Nat) (hpc : pc < T2.n)
    (h1 : T2.pickType pr pc ty1 = pr :: l1) (h2 : T2.pickType pr pc ty2 = (pr + 1) :: l2)
    (hne : tyCode ty1 ≠ tyCode ty2) :
    ((l2.foldl (fun acc i => acc.rowSum (pr + 1) i) (l1.foldl (fun acc i => acc.rowSum pr i) T2)).norm).ptype pr pc
        = tyCode ty1 ∧
    ((l2.foldl (fun acc i => acc.rowSum (pr + 1) i) (l1.foldl (fun acc i => acc.rowSum pr i) T2)).norm).ptype (pr + 1) pc
        = tyCode ty2 ∧
    ∀ i, pr + 2 ≤ i → i < T2.n →
      (((l2.foldl (fun acc i => acc.rowSum (pr + 1) i) (l1.foldl (fun acc i => acc.rowSum pr i) T2)).norm).ptype i pc = 0 ∨
       (((l2.foldl (fun acc i => acc.rowSum (pr + 1) i) (l1.foldl (fun acc i => acc.rowSum pr i) T2)).norm).ptype i pc
          = T2.ptype i pc ∧ T2.ptype i pc ≠ tyCode ty1 ∧ T2.ptype i pc ≠ tyCode ty2)) := by
  have s1 : (pr :: l1).Pairwise (· < ·) := h1 ▸ pickType_sorted T2 pr pc ty1
  have s2 : ((pr + 1) :: l2).Pairwise (· < ·) := h2 ▸ pickType_sorted T2 pr pc ty2
  have m1 : ∀ i, i ∈ pr :: l1 ↔ pr ≤ i ∧ i < T2.n ∧ T2.ptype i pc = tyCode ty1 := fun i => by
    rw [← h1]; exact mem_pickType_iff T2 pr pc ty1 i
  have m2 : ∀ i, i ∈ (pr + 1) :: l2 ↔ pr ≤ i ∧ i < T2.n ∧ T2.ptype i pc = tyCode ty2 := fun i => by
    rw [← h2]; exact mem_pickType_iff T2 pr pc ty2 i
  have hpr := (m1 pr).1 List.mem_cons_self
  have hpr1 := (m2 (pr + 1)).1 List.mem_cons_self
  have n1 : pr ∉ l1 := sorted_head_notMem s1
  have n2 : pr + 1 ∉ l2 := sorted_head_notMem s2
  have n3 : pr + 1 ∉ l1 := fun h => hne (by
    rw [← ((m1 (pr + 1)).1 (List.mem_cons_of_mem _ h)).2.2, hpr1.2.2])
  have n4 : pr ∉ l2 := fun h => by have := sorted_head_lt s2 pr h; omega
  have disj : ∀ i, i ∈ l1 → i ∉ l2 := fun i a b => hne (by
    rw [← ((m1 i).1 (List.mem_cons_of_mem _ a)).2.2, ((m2 i).1 (List.mem_cons_of_mem _ b)).2.2])
  have r3 : ∀ i, (l1.foldl (fun acc i => acc.rowSum pr i) T2).row i
      = if i ∈ l1 then stabMul T2.n (T2.row pr) (T2.row i) else T2.row i :=
    fun i => foldl_rowSum_row pr l1 T2 (sorted_tail s1) n1 i
  have hn3 : (l1.foldl (fun acc i => acc.rowSum pr i) T2).n = T2.n := foldl_rowSum_n pr l1 T2
  have r4 : ∀ i, (l2.foldl (fun acc i => acc.rowSum (pr + 1) i) (l1.foldl (fun acc i => acc.rowSum pr i) T2)).row i
      = if i ∈ l2 then stabMul T2.n (T2.row (pr + 1)) (T2.row i)
        else if i ∈ l1 then stabMul T2.n (T2.row pr) (T2.row i) else T2.row i := by
    intro i
    rw [foldl_rowSum_row (pr + 1) l2 _ (sorted_tail s2) n2 i, hn3, r3 (pr + 1), if_neg n3, r3 i]
    by_cases hi2 : i ∈ l2
    · have : i ∉ l1 := fun a => disj i a hi2
      simp [hi2, this]
    · simp [hi2]
  have hn4 : (l2.foldl (fun acc i => acc.rowSum (pr + 1) i) (l1.foldl (fun acc i => acc.rowSum pr i) T2)).n = T2.n := by
    rw [foldl_rowSum_n, hn3]
  have hpt : ∀ i, i < T2.n →
      ((l2.foldl (fun acc i => acc.rowSum (pr + 1) i) (l1.foldl (fun acc i => acc.rowSum pr i) T2)).norm).ptype i pc
        = ((l2.foldl (fun acc i => acc.rowSum (pr + 1) i) (l1.foldl (fun acc i => acc.rowSum pr i) T2)).row i).pt pc := by
    intro i hi
    rw [ptype_norm _ i pc (by rw [hn4]; exact hi) (by rw [hn4]; exact hpc)]; rfl
  refine ⟨?_, ?_, ?_⟩
  · rw [hpt pr hpr.2.1, r4 pr, if_neg n4, if_neg n1]; exact hpr.2.2
  · rw [hpt (pr + 1) hpr1.2.1, r4 (pr + 1), if_neg n2, if_neg n3]; exact hpr1.2.2
  · intro i hi hin
    rw [hpt i hin, r4 i]
    by_cases hi2 : i ∈ l2
    · left
      rw [if_pos hi2, pt_stabMul]
      have e1 : (T2.row (pr + 1)).pt pc = tyCode ty2 := hpr1.2.2
      have e2 : (T2.row i).pt pc = tyCode ty2 := ((m2 i).1 (List.mem_cons_of_mem _ hi2)).2.2
      rw [e1, e2]; exact pmul_self _
    · rw [if_neg hi2]
      by_cases hi1 : i ∈ l1
      · left
        rw [if_pos hi1, pt_stabMul]
        have e1 : (T2.row pr).pt pc = tyCode ty1 := hpr.2.2
        have e2 : (T2.row i).pt pc = tyCode ty1 := ((m1 i).1 (List.mem_cons_of_mem _ hi1)).2.2
        rw [e1, e2]; exact pmul_self _
      · right
        rw [if_neg hi1]
        refine ⟨rfl, ?_, ?_⟩
        · intro e
          have := (m1 i).2 ⟨by omega, hin, e⟩
          rcases List.mem_cons.1 this with e' | e'
          · omega
          · exact hi1 e'
        · intro e
          have := (m2 i).2 ⟨by omega, hin, e⟩
          rcases List.mem_cons.1 this with e' | e'
          · omega
          · exact hi2 e'

/-- the shape of a successful `_process_two_pauli`: two row swaps bring the first rows of the two Pauli types to `pr`, `pr+1`
    (tableau `T2`), then two elimination loops -/
theorem processTwo_unfold (t t' : STab) (pr pc ty1 ty2 : Nat) (hr : t.processTwo pr pc ty1 ty2 = some t') :
    ∃ f1 f2 l1 l2, pr ≤ f1 ∧ f1 < t.n ∧ pr ≤ f2 ∧ f2 < t.n ∧ pr + 1 < t.n ∧
      (((t.rowSwap pr f1).norm.rowSwap (pr + 1) f2).norm).pickType pr pc ty1 = pr :: l1 ∧
      (((t.rowSwap pr f1).norm.rowSwap (pr + 1) f2).norm).pickType pr pc ty2 = (pr + 1) :: l2 ∧
      t' = (l2.foldl (fun acc i => acc.rowSum (pr + 1) i)
              (l1.foldl (fun acc i => acc.rowSum pr i) (((t.rowSwap pr f1).norm.rowSwap (pr + 1) f2).norm))).norm := by
  unfold processTwo at hr
  split at hr
  · cases hr
  · next f1 r1 e1 =>
    have b1 := mem_pickType t pr pc ty1 f1 (by rw [e1]; exact List.mem_cons_self)
    simp only at hr
    split at hr
    · cases hr
    · next f2 r2 e2 =>
      have b2 := mem_pickType _ pr pc ty2 f2 (by rw [e2]; exact List.mem_cons_self)
      split at hr
      · next hp1 =>
        split at hr
        · next a l1 b l2 ea eb =>
          split at hr
          · next hab =>
            injection hr with hr
            obtain ⟨ha, hb⟩ := hab
            subst ha; subst hb
            exact ⟨f1, f2, l1, l2, b1.1, b1.2, b2.1, b2.2, hp1, ea, eb, hr.symm⟩
          · cases hr
        · cases hr
      · cases hr

theorem processTwo_col (t t' : STab) (pr pc ty1 ty2 : Nat) (hpc : pc < t.n) (hne : tyCode ty1 ≠ tyCode ty2)
    (hr : t.processTwo pr pc ty1 ty2 = some t') :
    t'.ptype pr pc = tyCode ty1 ∧ t'.ptype (pr + 1) pc = tyCode ty2 ∧
    ∀ i, pr + 2 ≤ i → i < t.n →
      (t'.ptype i pc = 0 ∨ (t'.ptype i pc ≠ tyCode ty1 ∧ t'.ptype i pc ≠ tyCode ty2 ∧
        ∃ k, pr ≤ k ∧ k < t.n ∧ t'.ptype i pc = t.ptype k pc)) := by
  obtain ⟨f1, f2, l1, l2, hf1, hf1n, hf2, hf2n, hp1, ea, eb, rfl⟩ := processTwo_unfold t t' pr pc ty1 ty2 hr
  have core := processTwo_core (((t.rowSwap pr f1).norm.rowSwap (pr + 1) f2).norm) pr pc ty1 ty2 l1 l2 hpc ea eb hne
  refine ⟨core.1, core.2.1, ?_⟩
  intro i hi hin
  rcases core.2.2 i hi hin with h | h
  · exact Or.inl h
  · right
    rw [h.1]
    refine ⟨h.2.1, h.2.2, ?_⟩
    rw [ptype_swap_norm (t.rowSwap pr f1).norm (pr + 1) f2 i pc hin hpc]
    have hi1 : i ≠ pr + 1 := by omega
    rw [if_neg hi1]
    by_cases hif : i = f2
    · rw [if_pos hif, ptype_swap_norm t pr f1 (pr + 1) pc hp1 hpc]
      have : pr + 1 ≠ pr := by omega
      rw [if_neg this]
      by_cases e : pr + 1 = f1
      · rw [if_pos e]; exact ⟨pr, Nat.le_refl _, by omega, rfl⟩
      · rw [if_neg e]; exact ⟨pr + 1, by omega, hp1, rfl⟩
    · rw [if_neg hif, ptype_swap_norm t pr f1 i pc hin hpc]
      have : i ≠ pr := by omega
      rw [if_neg this]
      by_cases e : i = f1
      · rw [if_pos e]; exact ⟨pr, Nat.le_refl _, by omega, rfl⟩
      · rw [if_neg e]; exact ⟨i, by omega, hin, rfl⟩

/-! ### sequences of row operations on the rows at or below a pivot row -/

/-- `Ops pr t0 t`: `t` is obtained from `t0` by tabulations, swaps of rows `≥ pr` and products of two distinct rows `≥ pr` -/
inductive Ops (pr : Nat) (t0 : STab) : STab → Prop
  | refl : Ops pr t0 t0
  | norm {t : STab} : Ops pr t0 t → Ops pr t0 t.norm
  | swap {t : STab} (a b : Nat) : pr ≤ a → a < t0.n → pr ≤ b → b < t0.n → Ops pr t0 t → Ops pr t0 (t.rowSwap a b)
  | sum {t : STab} (a b : Nat) : pr ≤ a → a < t0.n → pr ≤ b → b < t0.n → a ≠ b → Ops pr t0 t →
      Ops pr t0 (t.rowSum a b)

theorem Ops.n_eq {pr : Nat} {t0 t : STab} (h : Ops pr t0 t) : t.n = t0.n := by
  induction h with
  | refl => rfl
  | norm _ ih => exact ih
  | swap a b _ _ _ _ _ ih => exact ih
  | sum a b _ _ _ _ _ _ ih => exact ih

theorem Ops.trans {pr : Nat} {t0 t1 t2 : STab} (h1 : Ops pr t0 t1) (h2 : Ops pr t1 t2) : Ops pr t0 t2 := by
  have e := h1.n_eq
  induction h2 with
  | refl => exact h1
  | norm _ ih => exact Ops.norm ih
  | swap a b h1 h2 h3 h4 _ ih => exact Ops.swap a b h1 (e ▸ h2) h3 (e ▸ h4) ih
  | sum a b h1 h2 h3 h4 h5 _ ih => exact Ops.sum a b h1 (e ▸ h2) h3 (e ▸ h4) h5 ih

theorem Ops.mono {pr pr' : Nat} {t0 t : STab} (hp : pr' ≤ pr) (h : Ops pr t0 t) : Ops pr' t0 t := by
  induction h with
  | refl => exact Ops.refl
  | norm _ ih => exact Ops.norm ih
  | swap a b h1 h2 h3 h4 _ ih => exact Ops.swap a b (by omega) h2 (by omega) h4 ih
  | sum a b h1 h2 h3 h4 h5 _ ih => exact Ops.sum a b (by omega) h2 (by omega) h4 h5 ih

theorem Ops.foldl_sum {pr : Nat} {t0 : STab} (a : Nat) (ha : pr ≤ a) (han : a < t0.n) (l : List Nat)
    (hl : ∀ i, i ∈ l → pr ≤ i ∧ i < t0.n ∧ a ≠ i) (t : STab) (h : Ops pr t0 t) :
    Ops pr t0 (l.foldl (fun acc i => acc.rowSum a i) t) := by
  induction l generalizing t with
  | nil => exact h
  | cons x rest ih =>
    simp only [List.foldl]
    have hx := hl x List.mem_cons_self
    exact ih (fun i hi => hl i (List.mem_cons_of_mem _ hi)) _ (Ops.sum a x ha han hx.1 hx.2.1 hx.2.2 h)

theorem Ops.foldl_sum2 {pr : Nat} {t0 : STab} (a : Nat) (ha : pr ≤ a) (han : a + 1 < t0.n) (l : List Nat)
    (hl : ∀ i, i ∈ l → pr ≤ i ∧ i < t0.n ∧ a ≠ i ∧ a + 1 ≠ i) (t : STab) (h : Ops pr t0 t) :
    Ops pr t0 (l.foldl (fun acc k => (acc.rowSum a k).rowSum (a + 1) k) t) := by
  induction l generalizing t with
  | nil => exact h
  | cons x rest ih =>
    simp only [List.foldl]
    have hx := hl x List.mem_cons_self
    exact ih (fun i hi => hl i (List.mem_cons_of_mem _ hi)) _
      (Ops.sum (a + 1) x (by omega) han hx.1 hx.2.1 hx.2.2.2 (Ops.sum a x ha (by omega) hx.1 hx.2.1 hx.2.2.1 h))

/-- rows above the pivot row are untouched -/
theorem Ops.low {pr : Nat} {t0 t : STab} (h : Ops pr t0 t) :
    ∀ i, i < pr → i < t0.n → ∀ j, j < t0.n → t.ptype i j = t0.ptype i j := by
  induction h with
  | refl => intro i _ _ j _; rfl
  | @norm t h ih =>
    intro i hi hin j hj
    rw [ptype_norm t i j (h.n_eq ▸ hin) (h.n_eq ▸ hj)]; exact ih i hi hin j hj
  | @swap t a b h1 _ h3 _ _ ih =>
    intro i hi hin j hj
    rw [ptype_eq, rowSwap_row, if_neg (by omega), if_neg (by omega)]; exact ih i hi hin j hj
  | @sum t a b _ _ h3 _ _ _ ih =>
    intro i hi hin j hj
    rw [ptype_eq, rowSum_row, if_neg (by omega)]; exact ih i hi hin j hj

/-- rows at or below the pivot row stay trivial on the columns already processed -/
theorem Ops.zero {pr : Nat} {t0 t : STab} (h : Ops pr t0 t) (pc : Nat) (hpc : pc ≤ t0.n)
    (hz : ∀ i, pr ≤ i → i < t0.n → ∀ j, j < pc → t0.ptype i j = 0) :
    ∀ i, pr ≤ i → i < t0.n → ∀ j, j < pc → t.ptype i j = 0 := by
  induction h with
  | refl => exact hz
  | @norm t h ih =>
    intro i hi hin j hj
    rw [ptype_norm t i j (h.n_eq ▸ hin) (h.n_eq ▸ (by omega))]; exact ih i hi hin j hj
  | @swap t a b h1 h2 h3 h4 _ ih =>
    intro i hi hin j hj
    rw [ptype_eq, rowSwap_row]
    split
    · exact ih b h3 h4 j hj
    · split
      · exact ih a h1 h2 j hj
      · exact ih i hi hin j hj
  | @sum t a b h1 h2 h3 h4 _ _ ih =>
    intro i hi hin j hj
    rw [ptype_eq, rowSum_row]
    split
    · rw [pt_stabMul]
      have e1 : (t.row a).pt j = 0 := ih a h1 h2 j hj
      have e2 : (t.row b).pt j = 0 := ih b h3 h4 j hj
      rw [e1, e2]; rfl
    · exact ih i hi hin j hj

/-- the signed group is unchanged (the operations are invertible) -/
theorem Ops.spanEq {pr : Nat} {t0 t : STab} (h : Ops pr t0 t) (hg : t0.Good) : SpanEq t0 t ∧ t.Good := by
  induction h with
  | refl => exact ⟨SpanEq.refl _, hg⟩
  | @norm t _ ih => exact ⟨ih.1.trans (norm_spanEq t), norm_good t ih.2⟩
  | @swap t a b _ h2 _ h4 h ih =>
    have e := h.n_eq
    exact ⟨ih.1.trans (rowSwap_spanEq t a b (e ▸ h2) (e ▸ h4)), rowSwap_good t a b (e ▸ h2) (e ▸ h4) ih.2⟩
  | @sum t a b _ h2 _ h4 h5 h ih =>
    have e := h.n_eq
    exact ⟨ih.1.trans (rowSum_spanEq t a b (e ▸ h2) (e ▸ h4) h5 ih.2), rowSum_good t a b (e ▸ h2) (e ▸ h4) ih.2⟩

theorem processOne_ops (t : STab) (pr : Nat) (l : List Nat) (hs : l.Pairwise (· < ·))
    (hl : ∀ i, i ∈ l → pr ≤ i ∧ i < t.n) : Ops pr t (t.processOne pr l) := by
  unfold processOne
  cases l with
  | nil => exact Ops.refl
  | cons first rest =>
    simp only
    have hf := hl first List.mem_cons_self
    have hlt := sorted_head_lt hs
    apply Ops.norm
    apply Ops.foldl_sum pr (Nat.le_refl _) (by omega) rest
    · intro i hi
      have := hl i (List.mem_cons_of_mem _ hi)
      have := hlt i hi
      omega
    · exact Ops.swap pr first (Nat.le_refl _) (by omega) hf.1 hf.2 Ops.refl

theorem processTwo_ops (t t' : STab) (pr pc ty1 ty2 : Nat) (hr : t.processTwo pr pc ty1 ty2 = some t') :
    Ops pr t t' := by
  obtain ⟨f1, f2, l1, l2, hf1, hf1n, hf2, hf2n, hp1, ea, eb, rfl⟩ := processTwo_unfold t t' pr pc ty1 ty2 hr
  have s1 : (pr :: l1).Pairwise (· < ·) := ea ▸ pickType_sorted _ pr pc ty1
  have s2 : ((pr + 1) :: l2).Pairwise (· < ·) := eb ▸ pickType_sorted _ pr pc ty2
  have o2 : Ops pr t (((t.rowSwap pr f1).norm.rowSwap (pr + 1) f2).norm) :=
    Ops.norm (Ops.swap (pr + 1) f2 (by omega) hp1 hf2 hf2n
      (Ops.norm (Ops.swap pr f1 (Nat.le_refl _) (by omega) hf1 hf1n Ops.refl)))
  apply Ops.norm
  apply Ops.foldl_sum (pr + 1) (by omega) hp1 l2
  · intro i hi
    have hm := (mem_pickType_iff _ pr pc ty2 i).1 (by rw [eb]; exact List.mem_cons_of_mem _ hi)
    have := sorted_head_lt s2 i hi
    exact ⟨hm.1, hm.2.1, by omega⟩
  · apply Ops.foldl_sum pr (Nat.le_refl _) (by omega) l1
    · intro i hi
      have hm := (mem_pickType_iff _ pr pc ty1 i).1 (by rw [ea]; exact List.mem_cons_of_mem _ hi)
      have := sorted_head_lt s1 i hi
      exact ⟨hm.1, hm.2.1, by omega⟩
    · exact o2

end STab
end Graphiq
