/-
  Proofs/HilbertDimMeasXY.lean — the X / Y measurements of clifford.py.

  Part 1 (history of the finding D52): `measure_x` / `measure_y` BEFORE the repair.  The Python functions applied the basis change (`hadamard_gate`, resp. `phase_dagger_gate` then `hadamard_gate`) to the caller's
  tableau *in place*, ran `z_measurement_gate`, and returned only the outcome — they never rotated back.  `measXCoded` /
  `measYCoded` transcribe exactly that old code (reproduced on `/repo` 70adac4, `handoff/deep-c07h.md`; reverting the repair makes
  the harness report `state:measure_x:wrong-state`).

  Part 2: the repaired code (`Tab.measX`, `Tab.measY`, `Tab.applyOpX` of `Model/Tableau.lean`, compared with the implementation on
  every run): `rotated_meas` (a Z-measurement between a unitary change of basis and its inverse is the projective measurement in
  the rotated basis), `rho_measX`, `rho_measY`, and the desugaring of extended histories into base histories.

  * `measXCoded_density` : the outcome is the X-measurement outcome, but the tableau left behind is
    `H · (post-X-measurement state) · H†` — a spurious Hadamard;
  * `measX_plus_witness` : on `|++⟩` the X-measurement of qubit 0 is deterministic (outcome 0, state must not change), yet
    the tableau after the call has the generator `Z₀` instead of `X₀`, and its density matrix differs from the input's.
-/
import GraphiqModel.Proofs.HilbertDimBorn
import GraphiqModel.Proofs.HilbertDimExpect
namespace Graphiq
namespace Hilbert
open Matrix PRow TabSpec Tab

/-- `measure_x(tableau, q, determinism)` as coded: Hadamard in place, Z-measurement, no rotation back; returns the tableau the
    caller is left with and the outcome -/
def measXCoded (t : Tab) (q : Nat) (o : Bool) : Tab × Bool :=
  (((t.hGate q).zMeasure q o).1, ((t.hGate q).zMeasure q o).2.1)

/-- `measure_y` as coded: `phase_dagger_gate`, `hadamard_gate` in place, Z-measurement, no rotation back -/
def measYCoded (t : Tab) (q : Nat) (o : Bool) : Tab × Bool :=
  ((((t.sdgGate q).hGate q).zMeasure q o).1, (((t.sdgGate q).hGate q).zMeasure q o).2.1)

/-- the normalised post-measurement state of an X-measurement of qubit `q` with outcome `s` -/
noncomputable def postMeasX (n q : Nat) (s : Bool) (ρ : Matrix (Bits n) (Bits n) ℂ) : Matrix (Bits n) (Bits n) ℂ :=
  (Matrix.trace (proj n (Xq q s) * ρ))⁻¹ • (proj n (Xq q s) * ρ * proj n (Xq q s))

theorem h_Xq (n q : Nat) (s : Bool) : EqOn n (PRow.h q (Xq q s)) (Zq q s) := by
  refine ⟨fun j _ => ?_, ?_, rfl⟩
  · by_cases h : j = q <;> simp [PRow.h, Xq, Zq, h]
  · simp [PRow.h, Xq, Zq]

/-- `H Π_X H† = Π_Z` -/
theorem had_conj_projX (n q : Nat) (hq : q < n) (s : Bool) :
    gateMat n (.H q) * proj n (Xq q s) * (gateMat n (.H q))ᴴ = proj n (Zq q s) := by
  apply conj_proj n _ (gate_unitary n (.H q) hq).1
  rw [gate_conj n (.H q) hq]
  exact pauliMat_congr n _ _ (h_Xq n q s)

/-- **`measure_x` as coded, on density matrices**: with `s` the reported outcome, the tableau left behind is
    `H · postMeasX(ρ) · H†`: the true post-measurement state of the X-measurement conjugated by a Hadamard that is never
    undone; `s` is the outcome of the Z-measurement of `H ρ H†`, i.e. of the X-measurement of `ρ` -/
theorem measXCoded_density (t : Tab) (q : Nat) (o : Bool) (hq : q < t.n) (hv : t.Valid) (hr : t.StabReal) :
    rho t.n (STab.ofTab (measXCoded t q o).1)
      = gateMat t.n (.H q) * postMeasX t.n q (measXCoded t q o).2 (rho t.n (STab.ofTab t)) * (gateMat t.n (.H q))ᴴ ∧
    (measXCoded t q o).2
      = measOutcome t.n q o (gateMat t.n (.H q) * rho t.n (STab.ofTab t) * (gateMat t.n (.H q))ᴴ) := by
  have hU := gate_unitary t.n (.H q) hq
  have hv1 : (t.hGate q).Valid := hGate_valid t q hq hv
  have hr1 : (t.hGate q).StabReal := gate_stabReal t (.H q) hr
  have hg : rho t.n (STab.ofTab (t.hGate q))
      = gateMat t.n (.H q) * rho t.n (STab.ofTab t) * (gateMat t.n (.H q))ᴴ := (rho_tab_gate t (.H q) hq).symm
  obtain ⟨m1, m2, _⟩ := meas_density (t.hGate q) q o hq hv1 hr1
  have hn1 : (t.hGate q).n = t.n := rfl
  rw [hn1] at m1 m2
  rw [hg] at m1 m2
  refine ⟨?_, m1.symm⟩
  show rho t.n (STab.ofTab ((t.hGate q).zMeasure q o).1) = _
  rw [← m2]
  unfold postMeas postMeasX
  rw [m1]
  show _ = gateMat t.n (.H q) * ((Matrix.trace (proj t.n (Xq q ((t.hGate q).zMeasure q o).2.1) * rho t.n (STab.ofTab t)))⁻¹ •
    (proj t.n (Xq q ((t.hGate q).zMeasure q o).2.1) * rho t.n (STab.ofTab t) * proj t.n (Xq q ((t.hGate q).zMeasure q o).2.1)))
      * (gateMat t.n (.H q))ᴴ
  generalize ((t.hGate q).zMeasure q o).2.1 = s
  have hP := had_conj_projX t.n q hq s
  -- Π_Z (HρH†) = H (Π_X ρ) H†
  have e1 : proj t.n (Zq q s) * (gateMat t.n (.H q) * rho t.n (STab.ofTab t) * (gateMat t.n (.H q))ᴴ)
      = gateMat t.n (.H q) * (proj t.n (Xq q s) * rho t.n (STab.ofTab t)) * (gateMat t.n (.H q))ᴴ := by
    rw [← hP]
    simp only [Matrix.mul_assoc]
    rw [← Matrix.mul_assoc (gateMat t.n (.H q))ᴴ (gateMat t.n (.H q)), hU.2, Matrix.one_mul]
  have e2 : proj t.n (Zq q s) * (gateMat t.n (.H q) * rho t.n (STab.ofTab t) * (gateMat t.n (.H q))ᴴ) * proj t.n (Zq q s)
      = gateMat t.n (.H q) * (proj t.n (Xq q s) * rho t.n (STab.ofTab t) * proj t.n (Xq q s)) * (gateMat t.n (.H q))ᴴ := by
    rw [e1, ← hP]
    simp only [Matrix.mul_assoc]
    rw [← Matrix.mul_assoc (gateMat t.n (.H q))ᴴ (gateMat t.n (.H q)), hU.2, Matrix.one_mul]
  rw [e2, e1, trace_conj_unitary _ _ hU.2, Matrix.mul_smul, Matrix.smul_mul]

/-! ### kernel-checked witness -/

/-- **witness**: `|++⟩`, `measure_x` of qubit 0.  The measurement is deterministic with outcome 0 (so the state must not
    change), but the tableau after the call has `Z₀` where it had `X₀`, and its density matrix is not the input's. -/
theorem measX_plus_witness (o : Bool) :
    ((Tab.plus 2).hGate 0).pivot 0 = none ∧ (measXCoded (Tab.plus 2) 0 o).2 = false ∧
    Grp (measXCoded (Tab.plus 2) 0 o).1 (Zq 0) ∧ Grp (Tab.plus 2) (Xq 0) ∧
    rho 2 (STab.ofTab (measXCoded (Tab.plus 2) 0 o).1) ≠ rho 2 (STab.ofTab (Tab.plus 2)) := by
  have hp : ((Tab.plus 2).hGate 0).pivot 0 = none := by decide
  have hres : (measXCoded (Tab.plus 2) 0 o).1 = (Tab.plus 2).hGate 0 := by
    show (((Tab.plus 2).hGate 0).zMeasure 0 o).1 = _
    simp [zMeasure, hp]
  have hout : (measXCoded (Tab.plus 2) 0 o).2 = false := by
    show (((Tab.plus 2).hGate 0).zMeasure 0 o).2.1 = false
    simp only [zMeasure, hp]
    decide
  have vp : (Tab.plus 2).Valid := (Tab.isSymplectic_iff _).mp (by decide)
  have rp : (Tab.plus 2).StabReal := stabRealB_spec _ (by decide)
  have v1 : ((Tab.plus 2).hGate 0).Valid := hGate_valid _ 0 (by decide) vp
  have r1 : ((Tab.plus 2).hGate 0).StabReal := gate_stabReal _ (.H 0) rp
  have gZ : Grp ((Tab.plus 2).hGate 0) (Zq 0) :=
    InSpan.eqv _ _ (grp_gen _ 0 (by decide)) (eqOn_check 2 _ _ (by decide))
  have gX : Grp (Tab.plus 2) (Xq 0) :=
    InSpan.eqv _ _ (grp_gen _ 0 (by decide)) (eqOn_check 2 _ _ (by decide))
  refine ⟨hp, hout, by rw [hres]; exact gZ, gX, ?_⟩
  rw [hres]
  intro heq
  have hsame := rho_determines_group 2 ((Tab.plus 2).hGate 0) (Tab.plus 2) rfl rfl v1 r1 vp rp heq
  have gZ' : Grp (Tab.plus 2) (Zq 0) := (hsame _).mp gZ
  have := grp_comm (Tab.plus 2) vp rp _ _ gZ' gX
  revert this
  decide

/-! ## Part 2: the repaired X / Y measurements -/

/-- a Z-measurement of `V ρ V†`, rotated back, is the projective measurement of `ρ` with the projectors `V† Π_Z V` -/
theorem rotated_meas (n q : Nat) (V : Matrix (Bits n) (Bits n) ℂ) (hV : Vᴴ * V = 1) (a : Bool → PRow)
    (ha : ∀ s, V * proj n (a s) * Vᴴ = proj n (Zq q s)) (o : Bool) (ρ : Matrix (Bits n) (Bits n) ℂ) :
    (∀ s, Matrix.trace (proj n (Zq q s) * (V * ρ * Vᴴ)) = Matrix.trace (proj n (a s) * ρ)) ∧
    Vᴴ * postMeas n q o (V * ρ * Vᴴ) * V
      = (Matrix.trace (proj n (a (measOutcome n q o (V * ρ * Vᴴ))) * ρ))⁻¹ •
          (proj n (a (measOutcome n q o (V * ρ * Vᴴ))) * ρ * proj n (a (measOutcome n q o (V * ρ * Vᴴ)))) := by
  have e1 : ∀ s, proj n (Zq q s) * (V * ρ * Vᴴ) = V * (proj n (a s) * ρ) * Vᴴ := by
    intro s
    rw [← ha s]
    simp only [Matrix.mul_assoc]
    rw [← Matrix.mul_assoc Vᴴ V, hV, Matrix.one_mul]
  have e2 : ∀ s, proj n (Zq q s) * (V * ρ * Vᴴ) * proj n (Zq q s) = V * (proj n (a s) * ρ * proj n (a s)) * Vᴴ := by
    intro s
    rw [e1 s, ← ha s]
    simp only [Matrix.mul_assoc]
    rw [← Matrix.mul_assoc Vᴴ V, hV, Matrix.one_mul]
  have tr : ∀ s, Matrix.trace (proj n (Zq q s) * (V * ρ * Vᴴ)) = Matrix.trace (proj n (a s) * ρ) := by
    intro s; rw [e1 s, trace_conj_unitary _ _ hV]
  refine ⟨tr, ?_⟩
  unfold postMeas
  rw [e2, tr, Matrix.mul_smul, Matrix.smul_mul]
  congr 1
  have e : ∀ X : Matrix (Bits n) (Bits n) ℂ, Vᴴ * (V * X * Vᴴ) * V = (Vᴴ * V) * X * (Vᴴ * V) := by
    intro X; simp only [Matrix.mul_assoc]
  rw [e, hV, Matrix.one_mul, Matrix.mul_one]

theorem gateMat_H_hermitian (n q : Nat) : (gateMat n (.H q))ᴴ = gateMat n (.H q) := by
  show (invSqrt2 • oneQ n q hadM)ᴴ = invSqrt2 • oneQ n q hadM
  rw [Matrix.conjTranspose_smul, star_invSqrt2, oneQ_conjTranspose, hadM_conjTranspose]

theorem gateMat_Pdag_conjTranspose (n q : Nat) : (gateMat n (.Pdag q))ᴴ = gateMat n (.P q) := by
  show (oneQ n q phaseDagM)ᴴ = oneQ n q phaseM
  rw [oneQ_conjTranspose]
  congr 1
  ext a b
  cases a <;> cases b <;> simp [phaseM, phaseDagM, Matrix.conjTranspose_apply]

/-- the normalised post-measurement state of a Y-measurement of qubit `q` with outcome `s` -/
noncomputable def postMeasY (n q : Nat) (s : Bool) (ρ : Matrix (Bits n) (Bits n) ℂ) : Matrix (Bits n) (Bits n) ℂ :=
  (Matrix.trace (proj n (Yrow q s) * ρ))⁻¹ • (proj n (Yrow q s) * ρ * proj n (Yrow q s))

theorem sdg_Yrow (n q : Nat) (s : Bool) : EqOn n (PRow.sdg q (Yrow q s)) (Xq q s) := by
  refine ⟨fun j _ => ?_, ?_, rfl⟩
  · by_cases h : j = q <;> simp [PRow.sdg, PRow.s, Yrow, Xq, h]
  · cases s <;> simp [PRow.sdg, PRow.s, Yrow, Xq]

/-- `(H P†) Π_Y (H P†)† = Π_Z` -/
theorem hadPdag_conj_projY (n q : Nat) (hq : q < n) (s : Bool) :
    (gateMat n (.H q) * gateMat n (.Pdag q)) * proj n (Yrow q s) * (gateMat n (.H q) * gateMat n (.Pdag q))ᴴ
      = proj n (Zq q s) := by
  have h1 : gateMat n (.Pdag q) * proj n (Yrow q s) * (gateMat n (.Pdag q))ᴴ = proj n (Xq q s) := by
    apply conj_proj n _ (gate_unitary n (.Pdag q) hq).1
    rw [gate_conj n (.Pdag q) hq]
    exact pauliMat_congr n _ _ (sdg_Yrow n q s)
  rw [Matrix.conjTranspose_mul, ← had_conj_projX n q hq s, ← h1]
  simp only [Matrix.mul_assoc]

/-- a Z-measurement of a tableau whose state is `V ρ₀ V†`, rotated back by `V†`, is the projective measurement of `ρ₀` with the
    projectors `a s` (`V Π_{a s} V† = Π_{Z,s}`) -/
theorem meas_in_rotated_basis (t1 : Tab) (q : Nat) (o : Bool) (hq : q < t1.n) (hv1 : t1.Valid) (hr1 : t1.StabReal)
    (V ρ0 : Matrix (Bits t1.n) (Bits t1.n) ℂ) (hV : Vᴴ * V = 1) (hρ1 : rho t1.n (STab.ofTab t1) = V * ρ0 * Vᴴ)
    (a : Bool → PRow) (ha : ∀ s, V * proj t1.n (a s) * Vᴴ = proj t1.n (Zq q s)) :
    Vᴴ * rho t1.n (STab.ofTab (t1.zMeasure q o).1) * V
      = (Matrix.trace (proj t1.n (a (t1.zMeasure q o).2.1) * ρ0))⁻¹ •
          (proj t1.n (a (t1.zMeasure q o).2.1) * ρ0 * proj t1.n (a (t1.zMeasure q o).2.1)) ∧
    (t1.zMeasure q o).2.1 = (if Matrix.trace (proj t1.n (a o) * ρ0) = 0 then !o else o) := by
  obtain ⟨m1, m2, _⟩ := meas_density t1 q o hq hv1 hr1
  rw [hρ1] at m1 m2
  obtain ⟨rt, rm⟩ := rotated_meas t1.n q V hV a ha o ρ0
  rw [m1, m2] at rm
  refine ⟨rm, ?_⟩
  rw [← m1]
  unfold measOutcome
  rw [rt o]

/-- **`measure_x` / `x_measurement_gate` (repaired) is the projective X-measurement**: with `s` the reported outcome,
    `ρ(result) = Π^X_s ρ Π^X_s / tr(Π^X_s ρ)`; `s` is the forced / drawn `o` unless `tr(Π^X_o ρ) = 0` -/
theorem rho_measX (t : Tab) (q : Nat) (o : Bool) (hq : q < t.n) (hv : t.Valid) (hr : t.StabReal) :
    rho t.n (STab.ofTab (t.measX q o).1) = postMeasX t.n q (t.measX q o).2.1 (rho t.n (STab.ofTab t)) ∧
    ((t.measX q o).2.1 = if Matrix.trace (proj t.n (Xq q o) * rho t.n (STab.ofTab t)) = 0 then !o else o) ∧
    (t.measX q o).1.Valid ∧ (t.measX q o).1.StabReal ∧ (t.measX q o).1.n = t.n := by
  have hU := gate_unitary t.n (.H q) hq
  have hH := gateMat_H_hermitian t.n q
  have hv1 : (t.hGate q).Valid := hGate_valid t q hq hv
  have hr1 : (t.hGate q).StabReal := gate_stabReal t (.H q) hr
  have hg : rho t.n (STab.ofTab (t.hGate q))
      = gateMat t.n (.H q) * rho t.n (STab.ofTab t) * (gateMat t.n (.H q))ᴴ := (rho_tab_gate t (.H q) hq).symm
  obtain ⟨k1, k2⟩ := meas_in_rotated_basis (t.hGate q) q o hq hv1 hr1 (gateMat t.n (.H q)) (rho t.n (STab.ofTab t))
    hU.2 hg (fun s => Xq q s) (fun s => had_conj_projX t.n q hq s)
  generalize hT2 : (t.hGate q).zMeasure q o = r2 at k1 k2
  have hn2 : r2.1.n = t.n := by rw [← hT2]; exact zMeasure_n (t.hGate q) q o
  have hv2 : r2.1.Valid := by rw [← hT2]; exact zMeasure_valid (t.hGate q) q o hq hv1
  have hr2 : r2.1.StabReal := by rw [← hT2]; exact zMeasure_stabReal (t.hGate q) q o hq hv1 hr1
  have hq2 : q < r2.1.n := by rw [hn2]; exact hq
  have hg2 := rho_tab_gate r2.1 (.H q) hq2
  rw [hn2] at hg2
  have e : t.measX q o = (r2.1.hGate q, r2.2.1, r2.2.2) := by
    show (((t.hGate q).zMeasure q o).1.hGate q, ((t.hGate q).zMeasure q o).2.1, ((t.hGate q).zMeasure q o).2.2) = _
    rw [hT2]
  rw [e]
  have k1' : (gateMat t.n (.H q))ᴴ * rho t.n (STab.ofTab r2.1) * gateMat t.n (.H q)
      = (Matrix.trace (proj t.n (Xq q r2.2.1) * rho t.n (STab.ofTab t)))⁻¹ •
          (proj t.n (Xq q r2.2.1) * rho t.n (STab.ofTab t) * proj t.n (Xq q r2.2.1)) := k1
  have k2' : r2.2.1 = if Matrix.trace (proj t.n (Xq q o) * rho t.n (STab.ofTab t)) = 0 then !o else o := k2
  refine ⟨?_, k2', hGate_valid _ q hq2 hv2, gate_stabReal _ (.H q) hr2, hn2⟩
  show rho t.n (STab.ofTab (r2.1.map (Gate.H q).act)) = postMeasX t.n q r2.2.1 _
  rw [← hg2]
  rw [hH] at k1' ⊢
  exact k1'

/-- **`measure_y` (repaired) is the projective Y-measurement** -/
theorem rho_measY (t : Tab) (q : Nat) (o : Bool) (hq : q < t.n) (hv : t.Valid) (hr : t.StabReal) :
    rho t.n (STab.ofTab (t.measY q o).1) = postMeasY t.n q (t.measY q o).2.1 (rho t.n (STab.ofTab t)) ∧
    ((t.measY q o).2.1 = if Matrix.trace (proj t.n (Yrow q o) * rho t.n (STab.ofTab t)) = 0 then !o else o) ∧
    (t.measY q o).1.Valid ∧ (t.measY q o).1.StabReal ∧ (t.measY q o).1.n = t.n := by
  have hUH := gate_unitary t.n (.H q) hq
  have hUP := gate_unitary t.n (.Pdag q) hq
  have hH := gateMat_H_hermitian t.n q
  have hPd := gateMat_Pdag_conjTranspose t.n q
  have hVV : (gateMat t.n (.H q) * gateMat t.n (.Pdag q))ᴴ * (gateMat t.n (.H q) * gateMat t.n (.Pdag q)) = 1 := by
    rw [Matrix.conjTranspose_mul, Matrix.mul_assoc, ← Matrix.mul_assoc (gateMat t.n (.H q))ᴴ, hUH.2, Matrix.one_mul, hUP.2]
  have hVadj : (gateMat t.n (.H q) * gateMat t.n (.Pdag q))ᴴ = gateMat t.n (.P q) * gateMat t.n (.H q) := by
    rw [Matrix.conjTranspose_mul, hH, hPd]
  have hv0 : (t.sdgGate q).Valid := sdgGate_valid t q hq hv
  have hr0 : (t.sdgGate q).StabReal := gate_stabReal t (.Pdag q) hr
  have hv1 : ((t.sdgGate q).hGate q).Valid := hGate_valid _ q hq hv0
  have hr1 : ((t.sdgGate q).hGate q).StabReal := gate_stabReal _ (.H q) hr0
  have hg0 : rho t.n (STab.ofTab (t.sdgGate q))
      = gateMat t.n (.Pdag q) * rho t.n (STab.ofTab t) * (gateMat t.n (.Pdag q))ᴴ := (rho_tab_gate t (.Pdag q) hq).symm
  have hg1 : rho t.n (STab.ofTab ((t.sdgGate q).hGate q))
      = (gateMat t.n (.H q) * gateMat t.n (.Pdag q)) * rho t.n (STab.ofTab t)
          * (gateMat t.n (.H q) * gateMat t.n (.Pdag q))ᴴ := by
    have h := (rho_tab_gate (t.sdgGate q) (.H q) hq).symm
    have e : (t.sdgGate q).n = t.n := rfl
    rw [e, hg0] at h
    rw [show (t.sdgGate q).hGate q = (t.sdgGate q).map (Gate.H q).act from rfl, h, Matrix.conjTranspose_mul]
    simp only [Matrix.mul_assoc]
  obtain ⟨k1, k2⟩ := meas_in_rotated_basis ((t.sdgGate q).hGate q) q o hq hv1 hr1
    (gateMat t.n (.H q) * gateMat t.n (.Pdag q)) (rho t.n (STab.ofTab t)) hVV hg1 (fun s => Yrow q s)
    (fun s => hadPdag_conj_projY t.n q hq s)
  generalize hT2 : ((t.sdgGate q).hGate q).zMeasure q o = r2 at k1 k2
  have hn2 : r2.1.n = t.n := by rw [← hT2]; exact zMeasure_n _ q o
  have hv2 : r2.1.Valid := by rw [← hT2]; exact zMeasure_valid _ q o hq hv1
  have hr2 : r2.1.StabReal := by rw [← hT2]; exact zMeasure_stabReal _ q o hq hv1 hr1
  have hq2 : q < r2.1.n := by rw [hn2]; exact hq
  have hg2 := rho_tab_gate r2.1 (.H q) hq2
  rw [hn2] at hg2
  have hv3 : (r2.1.hGate q).Valid := hGate_valid _ q hq2 hv2
  have hr3 : (r2.1.hGate q).StabReal := gate_stabReal r2.1 (.H q) hr2
  have hg3 := rho_tab_gate (r2.1.hGate q) (.P q) hq2
  have hn3 : (r2.1.hGate q).n = t.n := hn2
  rw [hn3] at hg3
  have e : t.measY q o = ((r2.1.hGate q).sGate q, r2.2.1, r2.2.2) := by
    show (((((t.sdgGate q).hGate q).zMeasure q o).1.hGate q).sGate q, (((t.sdgGate q).hGate q).zMeasure q o).2.1,
      (((t.sdgGate q).hGate q).zMeasure q o).2.2) = _
    rw [hT2]
  rw [e]
  have k1' : (gateMat t.n (.H q) * gateMat t.n (.Pdag q))ᴴ * rho t.n (STab.ofTab r2.1)
        * (gateMat t.n (.H q) * gateMat t.n (.Pdag q))
      = (Matrix.trace (proj t.n (Yrow q r2.2.1) * rho t.n (STab.ofTab t)))⁻¹ •
          (proj t.n (Yrow q r2.2.1) * rho t.n (STab.ofTab t) * proj t.n (Yrow q r2.2.1)) := k1
  have k2' : r2.2.1 = if Matrix.trace (proj t.n (Yrow q o) * rho t.n (STab.ofTab t)) = 0 then !o else o := k2
  refine ⟨?_, k2', sGate_valid _ q hq2 hv3, gate_stabReal _ (.P q) hr3, hn2⟩
  show rho t.n (STab.ofTab ((r2.1.hGate q).map (Gate.P q).act)) = postMeasY t.n q r2.2.1 _
  rw [← hg3]
  have e2 : r2.1.hGate q = r2.1.map (Gate.H q).act := rfl
  rw [e2, ← hg2]
  rw [hVadj] at k1'
  have hadj2 : (gateMat t.n (.P q) * gateMat t.n (.H q))ᴴ = gateMat t.n (.H q) * gateMat t.n (.Pdag q) := by
    rw [← hVadj, Matrix.conjTranspose_conjTranspose]
  have reassoc : gateMat t.n (.P q) * (gateMat t.n (.H q) * rho t.n (STab.ofTab r2.1) * (gateMat t.n (.H q))ᴴ)
        * (gateMat t.n (.P q))ᴴ
      = gateMat t.n (.P q) * gateMat t.n (.H q) * rho t.n (STab.ofTab r2.1)
        * (gateMat t.n (.H q) * gateMat t.n (.Pdag q)) := by
    rw [← hadj2, Matrix.conjTranspose_mul]
    simp only [Matrix.mul_assoc]
  rw [reassoc]
  exact k1'

/-! ### extended histories are base histories -/

theorem runOps_append (t : Tab) (l1 l2 : List Tab.Op) :
    t.runOps (l1 ++ l2) = (match t.runOps l1 with | .ok t' => t'.runOps l2 | .error e => .error e) := by
  induction l1 generalizing t with
  | nil => rfl
  | cons op rest ih =>
    simp only [List.cons_append, Tab.runOps]
    cases t.applyOp op with
    | error e => rfl
    | ok r => exact ih r.1

/-- one extended call is the history of its base operations (`OpX.desugar`, on the current number of qubits) -/
theorem applyOpX_runOps (t : Tab) (x : Tab.OpX) :
    (match t.applyOpX x with | .ok r => Except.ok r.1 | .error e => .error e) = t.runOps (x.desugar t.n) := by
  cases x with
  | base op =>
    simp only [Tab.applyOpX, Tab.OpX.desugar, Tab.runOps]
    cases t.applyOp op with
    | error e => rfl
    | ok r => rfl
  | measX q o =>
    simp only [Tab.applyOpX, Tab.OpX.desugar, Tab.runOps, Tab.applyOp]
    by_cases hq : q < t.n
    · have h2 : q < (t.hGate q).n := hq
      have h3 : q < ((t.hGate q).zMeasure q o).1.n := by rw [zMeasure_n]; exact hq
      simp only [hq, h2, h3, if_true, Tab.measX]
    · simp only [hq, if_false]
  | xMeasGate q o =>
    simp only [Tab.applyOpX, Tab.OpX.desugar, Tab.runOps, Tab.applyOp]
    by_cases hq : q < t.n
    · have h2 : q < (t.hGate q).n := hq
      have h3 : q < ((t.hGate q).zMeasure q o).1.n := by rw [zMeasure_n]; exact hq
      simp only [hq, h2, h3, if_true, Tab.measX]
    · simp only [hq, if_false]
  | measY q o =>
    simp only [Tab.applyOpX, Tab.OpX.desugar, Tab.runOps, Tab.applyOp]
    by_cases hq : q < t.n
    · have h1 : q < (t.sdgGate q).n := hq
      have h2 : q < ((t.sdgGate q).hGate q).n := hq
      have h3 : q < (((t.sdgGate q).hGate q).zMeasure q o).1.n := by rw [zMeasure_n]; exact hq
      have h4 : q < ((((t.sdgGate q).hGate q).zMeasure q o).1.hGate q).n := h3
      simp only [hq, h1, h2, h3, h4, if_true, Tab.measY]
    · simp only [hq, if_false]
  | cy c tg =>
    simp only [Tab.applyOpX, Tab.OpX.desugar, Tab.runOps, Tab.applyOp]
    by_cases ht : tg < t.n
    · have h1 : tg < (t.sGate tg).n := ht
      have h3 : tg < (((t.sGate tg).zGate tg).cnotGate c tg).n := ht
      by_cases hc : c < t.n
      · have h2 : c < ((t.sGate tg).zGate tg).n ∧ tg < ((t.sGate tg).zGate tg).n := ⟨hc, ht⟩
        simp only [ht, hc, h1, h2, h3, if_true, and_self, Tab.cyGate]
      · have h2 : ¬ (c < ((t.sGate tg).zGate tg).n ∧ tg < ((t.sGate tg).zGate tg).n) := fun h => hc h.1
        simp only [ht, hc, h1, h2, if_true, if_false, and_false]
    · simp only [ht, if_false, false_and]
  | traceOut pos os =>
    simp only [Tab.applyOpX, Tab.OpX.desugar, Tab.runOps, Tab.applyOp, Tab.traceOutQubits]
    cases t.partialTrace ((List.range t.n).filter fun q => !pos.contains q) os with
    | error e => rfl
    | ok r => rfl

/-! ### semantics of extended histories (the base semantics of the desugared calls, step by step) -/

/-- group-level semantics of an extended history -/
noncomputable def specOpsX : List Tab.OpX → GState → GState
  | [], g => g
  | x :: rest, g => specOpsX rest (specOps (x.desugar g.n) g)

/-- density-matrix semantics of an extended history -/
noncomputable def dOpsX : List Tab.OpX → DState → DState
  | [], s => s
  | x :: rest, s => dOpsX rest (dOps (x.desugar s.n) s)

/-- Born probability of the outcome script of an extended history -/
noncomputable def dProbOpsX : List Tab.OpX → DState → ℂ
  | [], _ => 1
  | x :: rest, s => dProbOps (x.desugar s.n) s * dProbOpsX rest (dOps (x.desugar s.n) s)

/-- number of random measurements along an extended history -/
def randOpsX : Tab → List Tab.OpX → Nat
  | _, [] => 0
  | t, x :: rest =>
    randOps t (x.desugar t.n) +
      match t.applyOpX x with
      | .ok (t', _) => randOpsX t' rest
      | .error _ => 0

end Hilbert
end Graphiq
