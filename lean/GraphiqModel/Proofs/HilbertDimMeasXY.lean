/-
  Proofs/HilbertDimMeasXY.lean — FINDING: `measure_x` / `measure_y` of clifford.py (not part of `Model/Tableau.lean`).

  The Python functions apply the basis change (`hadamard_gate`, resp. `phase_dagger_gate` then `hadamard_gate`) to the caller's
  tableau *in place*, run `z_measurement_gate`, and return only the outcome — they never rotate back.  `measXCoded` /
  `measYCoded` transcribe exactly that (they are defined here, not in the shared model, and are not tied to the code by the
  correspondence harness; the behaviour was reproduced by hand on `/repo`, see `handoff/deep-c07h.md`).

  * `measXCoded_density` : the outcome is the X-measurement outcome, but the tableau left behind is
    `H · (post-X-measurement state) · H†` — a spurious Hadamard;
  * `measX_plus_witness` : on `|++⟩` the X-measurement of qubit 0 is deterministic (outcome 0, state must not change), yet
    the tableau after the call has the generator `Z₀` instead of `X₀`, and its density matrix differs from the input's.
-/
import GraphiqModel.Proofs.HilbertDimBorn
import GraphiqModel.Proofs.HilbertDimExpect
namespace Graphiq
namespace Hilbert
open Matrix PRow TabSpec Tab

/-- `measure_x(tableau, q, determinism)` as coded: Hadamard in place, Z-measurement, no rotation back; returns the tableau the
    caller is left with and the outcome -/
def measXCoded (t : Tab) (q : Nat) (o : Bool) : Tab × Bool :=
  (((t.hGate q).zMeasure q o).1, ((t.hGate q).zMeasure q o).2.1)

/-- `measure_y` as coded: `phase_dagger_gate`, `hadamard_gate` in place, Z-measurement, no rotation back -/
def measYCoded (t : Tab) (q : Nat) (o : Bool) : Tab × Bool :=
  ((((t.sdgGate q).hGate q).zMeasure q o).1, (((t.sdgGate q).hGate q).zMeasure q o).2.1)

/-- the normalised post-measurement state of an X-measurement of qubit `q` with outcome `s` -/
noncomputable def postMeasX (n q : Nat) (s : Bool) (ρ : Matrix (Bits n) (Bits n) ℂ) : Matrix (Bits n) (Bits n) ℂ :=
  (Matrix.trace (proj n (Xq q s) * ρ))⁻¹ • (proj n (Xq q s) * ρ * proj n (Xq q s))

theorem h_Xq (n q : Nat) (s : Bool) : EqOn n (PRow.h q (Xq q s)) (Zq q s) := by
  refine ⟨fun j _ => ?_, ?_, rfl⟩
  · by_cases h : j = q <;> simp [PRow.h, Xq, Zq, h]
  · simp [PRow.h, Xq, Zq]

/-- `H Π_X H† = Π_Z` -/
theorem had_conj_projX (n q : Nat) (hq : q < n) (s : Bool) :
    gateMat n (.H q) * proj n (Xq q s) * (gateMat n (.H q))ᴴ = proj n (Zq q s) := by
  apply conj_proj n _ (gate_unitary n (.H q) hq).1
  rw [gate_conj n (.H q) hq]
  exact pauliMat_congr n _ _ (h_Xq n q s)

/-- **`measure_x` as coded, on density matrices**: with `s` the reported outcome, the tableau left behind is
    `H · postMeasX(ρ) · H†`: the true post-measurement state of the X-measurement conjugated by a Hadamard that is never
    undone; `s` is the outcome of the Z-measurement of `H ρ H†`, i.e. of the X-measurement of `ρ` -/
theorem measXCoded_density (t : Tab) (q : Nat) (o : Bool) (hq : q < t.n) (hv : t.Valid) (hr : t.StabReal) :
    rho t.n (STab.ofTab (measXCoded t q o).1)
      = gateMat t.n (.H q) * postMeasX t.n q (measXCoded t q o).2 (rho t.n (STab.ofTab t)) * (gateMat t.n (.H q))ᴴ ∧
    (measXCoded t q o).2
      = measOutcome t.n q o (gateMat t.n (.H q) * rho t.n (STab.ofTab t) * (gateMat t.n (.H q))ᴴ) := by
  have hU := gate_unitary t.n (.H q) hq
  have hv1 : (t.hGate q).Valid := hGate_valid t q hq hv
  have hr1 : (t.hGate q).StabReal := gate_stabReal t (.H q) hr
  have hg : rho t.n (STab.ofTab (t.hGate q))
      = gateMat t.n (.H q) * rho t.n (STab.ofTab t) * (gateMat t.n (.H q))ᴴ := (rho_tab_gate t (.H q) hq).symm
  obtain ⟨m1, m2, _⟩ := meas_density (t.hGate q) q o hq hv1 hr1
  have hn1 : (t.hGate q).n = t.n := rfl
  rw [hn1] at m1 m2
  rw [hg] at m1 m2
  refine ⟨?_, m1.symm⟩
  show rho t.n (STab.ofTab ((t.hGate q).zMeasure q o).1) = _
  rw [← m2]
  unfold postMeas postMeasX
  rw [m1]
  show _ = gateMat t.n (.H q) * ((Matrix.trace (proj t.n (Xq q ((t.hGate q).zMeasure q o).2.1) * rho t.n (STab.ofTab t)))⁻¹ •
    (proj t.n (Xq q ((t.hGate q).zMeasure q o).2.1) * rho t.n (STab.ofTab t) * proj t.n (Xq q ((t.hGate q).zMeasure q o).2.1)))
      * (gateMat t.n (.H q))ᴴ
  generalize ((t.hGate q).zMeasure q o).2.1 = s
  have hP := had_conj_projX t.n q hq s
  -- Π_Z (HρH†) = H (Π_X ρ) H†
  have e1 : proj t.n (Zq q s) * (gateMat t.n (.H q) * rho t.n (STab.ofTab t) * (gateMat t.n (.H q))ᴴ)
      = gateMat t.n (.H q) * (proj t.n (Xq q s) * rho t.n (STab.ofTab t)) * (gateMat t.n (.H q))ᴴ := by
    rw [← hP]
    simp only [Matrix.mul_assoc]
    rw [← Matrix.mul_assoc (gateMat t.n (.H q))ᴴ (gateMat t.n (.H q)), hU.2, Matrix.one_mul]
  have e2 : proj t.n (Zq q s) * (gateMat t.n (.H q) * rho t.n (STab.ofTab t) * (gateMat t.n (.H q))ᴴ) * proj t.n (Zq q s)
      = gateMat t.n (.H q) * (proj t.n (Xq q s) * rho t.n (STab.ofTab t) * proj t.n (Xq q s)) * (gateMat t.n (.H q))ᴴ := by
    rw [e1, ← hP]
    simp only [Matrix.mul_assoc]
    rw [← Matrix.mul_assoc (gateMat t.n (.H q))ᴴ (gateMat t.n (.H q)), hU.2, Matrix.one_mul]
  rw [e2, e1, trace_conj_unitary _ _ hU.2, Matrix.mul_smul, Matrix.smul_mul]

/-! ### kernel-checked witness -/

/-- **witness**: `|++⟩`, `measure_x` of qubit 0.  The measurement is deterministic with outcome 0 (so the state must not
    change), but the tableau after the call has `Z₀` where it had `X₀`, and its density matrix is not the input's. -/
theorem measX_plus_witness (o : Bool) :
    ((Tab.plus 2).hGate 0).pivot 0 = none ∧ (measXCoded (Tab.plus 2) 0 o).2 = false ∧
    Grp (measXCoded (Tab.plus 2) 0 o).1 (Zq 0) ∧ Grp (Tab.plus 2) (Xq 0) ∧
    rho 2 (STab.ofTab (measXCoded (Tab.plus 2) 0 o).1) ≠ rho 2 (STab.ofTab (Tab.plus 2)) := by
  have hp : ((Tab.plus 2).hGate 0).pivot 0 = none := by decide
  have hres : (measXCoded (Tab.plus 2) 0 o).1 = (Tab.plus 2).hGate 0 := by
    show (((Tab.plus 2).hGate 0).zMeasure 0 o).1 = _
    simp [zMeasure, hp]
  have hout : (measXCoded (Tab.plus 2) 0 o).2 = false := by
    show (((Tab.plus 2).hGate 0).zMeasure 0 o).2.1 = false
    simp only [zMeasure, hp]
    decide
  have vp : (Tab.plus 2).Valid := (Tab.isSymplectic_iff _).mp (by decide)
  have rp : (Tab.plus 2).StabReal := stabRealB_spec _ (by decide)
  have v1 : ((Tab.plus 2).hGate 0).Valid := hGate_valid _ 0 (by decide) vp
  have r1 : ((Tab.plus 2).hGate 0).StabReal := gate_stabReal _ (.H 0) rp
  have gZ : Grp ((Tab.plus 2).hGate 0) (Zq 0) :=
    InSpan.eqv _ _ (grp_gen _ 0 (by decide)) (eqOn_check 2 _ _ (by decide))
  have gX : Grp (Tab.plus 2) (Xq 0) :=
    InSpan.eqv _ _ (grp_gen _ 0 (by decide)) (eqOn_check 2 _ _ (by decide))
  refine ⟨hp, hout, by rw [hres]; exact gZ, gX, ?_⟩
  rw [hres]
  intro heq
  have hsame := rho_determines_group 2 ((Tab.plus 2).hGate 0) (Tab.plus 2) rfl rfl v1 r1 vp rp heq
  have gZ' : Grp (Tab.plus 2) (Zq 0) := (hsame _).mp gZ
  have := grp_comm (Tab.plus 2) vp rp _ _ gZ' gX
  revert this
  decide

end Hilbert
end Graphiq
