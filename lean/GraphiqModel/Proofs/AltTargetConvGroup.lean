/-
  Proofs/AltTargetConvGroup.lean — the LC-conversion gate list of `AlternateTargetSolver.solve` (C10) at the level of
  stabilizer groups:

  * `runGates_rows`: the rows of `run_circuit(tab, gate_list)` are the images of the rows of `tab` under the row action of the
    list (`namesAct`), every gate is in range and has a supported name;
  * `conv_group_eq`: when `lc_check(a, b, validate=True)` accepts, the images of the generators of `|a⟩` under the list
    generate exactly the stabilizer group of `|b⟩`;
  * `inSpan_lift`, `namesAct_trunc`, `namesAct_fix_right`: lifting from the `n` photons to `n + m` qubits (the further qubits
    are the emitters, on which the lifted rows are trivial and the gates do not act).
-/
import GraphiqModel.Proofs.AltTargetConvDefs
import GraphiqModel.Proofs.LCRepair
import GraphiqModel.Proofs.TabSpecGroup
namespace Graphiq
namespace Alt
open Graphiq PRow Tab

/-! ### the row action of one named gate -/

/-- the supported names of `run_circuit` -/
def GoodName (name : String) : Prop :=
  name = "I" ∨ name = "H" ∨ name = "P" ∨ name = "P_dag" ∨ name = "X" ∨ name = "Y" ∨ name = "Z"

theorem nameAct_congr (n : Nat) (name : String) (q : Nat) (hq : q < n) (a b : PRow) (h : EqOn n a b) :
    EqOn n (nameAct name q a) (nameAct name q b) := by
  unfold nameAct
  split
  · exact (isAut_h n q hq).congr a b h
  · exact (isAut_s n q hq).congr a b h
  · exact (isAut_sdg n q hq).congr a b h
  · exact (isAut_xg n q hq).congr a b h
  · exact (isAut_yg n q hq).congr a b h
  · exact (isAut_zg n q hq).congr a b h
  · exact h

theorem nameAct_mul (n : Nat) (name : String) (q : Nat) (hq : q < n) (a b : PRow) :
    EqOn n (nameAct name q (PRow.mul n a b)) (PRow.mul n (nameAct name q a) (nameAct name q b)) := by
  unfold nameAct
  split
  · exact (isAut_h n q hq).mul a b
  · exact (isAut_s n q hq).mul a b
  · exact (isAut_sdg n q hq).mul a b
  · exact (isAut_xg n q hq).mul a b
  · exact (isAut_yg n q hq).mul a b
  · exact (isAut_zg n q hq).mul a b
  · exact EqOn.refl _ _

theorem nameAct_ip (name : String) (q : Nat) (a : PRow) : (nameAct name q a).ip = a.ip := by
  unfold nameAct
  split <;> rfl

@[simp] theorem namesAct_nil (p : PRow) : namesAct [] p = p := rfl
@[simp] theorem namesAct_cons (g : String × Nat) (rest : List (String × Nat)) (p : PRow) :
    namesAct (g :: rest) p = namesAct rest (nameAct g.1 g.2 p) := rfl

theorem namesAct_append (l1 l2 : List (String × Nat)) (p : PRow) :
    namesAct (l1 ++ l2) p = namesAct l2 (namesAct l1 p) := by
  unfold namesAct; rw [List.foldl_append]

theorem namesAct_congr (n : Nat) (gates : List (String × Nat)) (hq : ∀ g, g ∈ gates → g.2 < n) (a b : PRow)
    (h : EqOn n a b) : EqOn n (namesAct gates a) (namesAct gates b) := by
  induction gates generalizing a b with
  | nil => exact h
  | cons g rest ih =>
    simp only [namesAct_cons]
    exact ih (fun g' hg' => hq g' (List.mem_cons_of_mem _ hg')) _ _
      (nameAct_congr n g.1 g.2 (hq g List.mem_cons_self) a b h)

theorem namesAct_mul (n : Nat) (gates : List (String × Nat)) (hq : ∀ g, g ∈ gates → g.2 < n) (a b : PRow) :
    EqOn n (namesAct gates (PRow.mul n a b)) (PRow.mul n (namesAct gates a) (namesAct gates b)) := by
  induction gates generalizing a b with
  | nil => exact EqOn.refl _ _
  | cons g rest ih =>
    simp only [namesAct_cons]
    have hr : ∀ g', g' ∈ rest → g'.2 < n := fun g' hg' => hq g' (List.mem_cons_of_mem _ hg')
    exact (namesAct_congr n rest hr _ _ (nameAct_mul n g.1 g.2 (hq g List.mem_cons_self) a b)).trans (ih hr _ _)

theorem namesAct_ip (gates : List (String × Nat)) (a : PRow) : (namesAct gates a).ip = a.ip := by
  induction gates generalizing a with
  | nil => rfl
  | cons g rest ih => simp only [namesAct_cons]; rw [ih, nameAct_ip]

/-! ### (1) the rows of `runGates` -/

/-- one gate: the name is supported, the qubit is in range, and every row is mapped by the row action of the gate -/
theorem applyGate_rows (t t' : Tab) (name : String) (q : Nat) (e : LC.applyGate t name q = .ok t') :
    t'.n = t.n ∧ q < t.n ∧ GoodName name ∧ ∀ i, t'.row i = nameAct name q (t.row i) := by
  unfold LC.applyGate at e
  split at e
  · rename_i hq
    split at e <;> (try cases e)
    · exact ⟨rfl, hq, by simp [GoodName], fun _ => rfl⟩
    · exact ⟨rfl, hq, by simp [GoodName], fun _ => rfl⟩
    · exact ⟨rfl, hq, by simp [GoodName], fun _ => rfl⟩
    · exact ⟨rfl, hq, by simp [GoodName], fun _ => rfl⟩
    · exact ⟨rfl, hq, by simp [GoodName], fun _ => rfl⟩
    · exact ⟨rfl, hq, by simp [GoodName], fun _ => rfl⟩
    · exact ⟨rfl, hq, by simp [GoodName], fun _ => rfl⟩
  · cases e

/-- **rows of `run_circuit`**: every gate of the list is in range, and the rows of the result are the images of the rows of
    the input under the row action of the list -/
theorem runGates_rows (t t' : Tab) (gates : List (String × Nat)) (e : LC.runGates t gates = .ok t') :
    t'.n = t.n ∧ (∀ g, g ∈ gates → g.2 < t.n) ∧
      ∀ i, i < 2 * t.n → PRow.EqOn t.n (t'.row i) (namesAct gates (t.row i)) := by
  induction gates generalizing t with
  | nil =>
    simp only [LC.runGates] at e
    cases e
    exact ⟨rfl, fun g hg => absurd hg List.not_mem_nil, fun i _ => EqOn.refl _ _⟩
  | cons g rest ih =>
    simp only [LC.runGates] at e
    split at e
    · cases e
    · rename_i t1 e1
      obtain ⟨h1, h2, _, h4⟩ := applyGate_rows t t1 g.1 g.2 e1
      obtain ⟨k1, k2, k3⟩ := ih t1.norm e
      have hn : t1.norm.n = t.n := h1
      rw [hn] at k1 k2 k3
      refine ⟨k1, ?_, ?_⟩
      · intro g' hg'
        rcases List.mem_cons.mp hg' with rfl | hg'
        · exact h2
        · exact k2 g' hg'
      · intro i hi
        refine (k3 i hi).trans ?_
        rw [namesAct_cons]
        apply namesAct_congr t.n rest k2
        have := tnorm_row t1 i (by rw [h1]; exact hi)
        rw [h1, h4 i] at this
        exact this

/-- every gate of an accepted list has a supported name -/
theorem runGates_names (t t' : Tab) (gates : List (String × Nat)) (e : LC.runGates t gates = .ok t') :
    ∀ g, g ∈ gates → GoodName g.1 := by
  induction gates generalizing t with
  | nil => intro g hg; cases hg
  | cons g rest ih =>
    simp only [LC.runGates] at e
    split at e
    · cases e
    · rename_i t1 e1
      obtain ⟨_, _, h3, _⟩ := applyGate_rows t t1 g.1 g.2 e1
      intro g' hg'
      rcases List.mem_cons.mp hg' with rfl | hg'
      · exact h3
      · exact ih t1.norm e g' hg'

/-! ### (3) lifting to `n + m` qubits -/

theorem sumTo_append (a b : Nat) (f : Nat → Int) : sumTo (a + b) f = sumTo a f + sumTo b (fun j => f (a + j)) := by
  induction b with
  | zero => simp [sumTo]
  | succ k ih =>
    show sumTo (a + k + 1) f = _
    simp only [sumTo, ih]; omega

@[simp] theorem truncCols_x (n : Nat) (p : PRow) (j : Nat) : (truncCols n p).x j = (decide (j < n) && p.x j) := rfl
@[simp] theorem truncCols_z (n : Nat) (p : PRow) (j : Nat) : (truncCols n p).z j = (decide (j < n) && p.z j) := rfl
@[simp] theorem truncCols_r (n : Nat) (p : PRow) : (truncCols n p).r = p.r := rfl
@[simp] theorem truncCols_ip (n : Nat) (p : PRow) : (truncCols n p).ip = p.ip := rfl
theorem truncCols_ph (n : Nat) (p : PRow) : (truncCols n p).ph = p.ph := rfl

/-- the phase exponent of a product of two rows that are trivial on the columns `≥ n` only sees the columns `< n` -/
theorem gSum_trunc (n m : Nat) (a b : PRow) : gSum (n + m) (truncCols n a) (truncCols n b) = gSum n a b := by
  unfold gSum
  rw [sumTo_append]
  have e1 : sumTo n (fun j => gFun ((truncCols n a).x j) ((truncCols n a).z j) ((truncCols n b).x j) ((truncCols n b).z j))
      = sumTo n (fun j => gFun (a.x j) (a.z j) (b.x j) (b.z j)) := by
    apply sumTo_congr
    intro j hj
    simp [hj]
  have e2 : sumTo m (fun j => gFun ((truncCols n a).x (n + j)) ((truncCols n a).z (n + j)) ((truncCols n b).x (n + j))
      ((truncCols n b).z (n + j))) = 0 := by
    rw [sumTo_congr m _ (fun _ => 0)]
    · exact sumTo_zero m
    · intro j _
      have : ¬ (n + j < n) := by omega
      simp only [truncCols_x, truncCols_z, this, decide_false, Bool.false_and]
      exact gFun_one_left _ _
  rw [e1, e2]; omega

/-- truncation is compatible with the signed product (phases included) -/
theorem truncCols_mul (n m : Nat) (a b : PRow) :
    EqOn (n + m) (truncCols n (PRow.mul n a b)) (PRow.mul (n + m) (truncCols n a) (truncCols n b)) := by
  apply eqOn_of
  · intro j _
    simp only [truncCols_x, truncCols_z, mul_x, mul_z]
    cases decide (j < n) <;> simp
  · rw [truncCols_ph, mul_ph, mul_ph, gSum_trunc, truncCols_ph, truncCols_ph]

theorem truncCols_one (n N : Nat) : EqOn N (truncCols n PRow.one) PRow.one :=
  ⟨fun j _ => by simp [PRow.one], rfl, rfl⟩

theorem truncCols_congr (n m : Nat) (a b : PRow) (h : EqOn n a b) : EqOn (n + m) (truncCols n a) (truncCols n b) := by
  refine ⟨fun j _ => ?_, h.2.1, h.2.2⟩
  simp only [truncCols_x, truncCols_z]
  by_cases hj : j < n
  · simp [hj, (h.1 j hj).1, (h.1 j hj).2]
  · simp [hj]

/-- a truncated row is its own truncation -/
theorem truncCols_idem (n N : Nat) (p : PRow) : EqOn N (truncCols n (truncCols n p)) (truncCols n p) :=
  ⟨fun j _ => by simp, rfl, rfl⟩

/-- a row that is trivial on the columns `n … N-1` is its truncation -/
theorem truncCols_of_trivial (n N : Nat) (p : PRow) (h : ∀ j, n ≤ j → j < N → p.x j = false ∧ p.z j = false) :
    EqOn N (truncCols n p) p := by
  refine ⟨fun j hj => ?_, rfl, rfl⟩
  simp only [truncCols_x, truncCols_z]
  by_cases hn : j < n
  · simp [hn]
  · simp [hn, (h j (by omega) hj).1, (h j (by omega) hj).2]

/-- `InSpan` does not depend on the generators beyond `EqOn` -/
theorem inSpan_gens_congr (n m : Nat) (gens gens' : Nat → PRow) (a : PRow)
    (hg : ∀ i, i < m → EqOn n (gens i) (gens' i)) (h : InSpan n m gens a) : InSpan n m gens' a := by
  induction h with
  | one => exact InSpan.one
  | gen i hi => exact InSpan.eqv _ _ (InSpan.gen i hi) (hg i hi).symm
  | mul a b _ _ iha ihb => exact InSpan.mul a b iha ihb
  | eqv a b _ hab iha => exact InSpan.eqv a b iha hab

/-- more generators span more -/
theorem inSpan_mono (n m m' : Nat) (gens : Nat → PRow) (a : PRow) (hm : m ≤ m') (h : InSpan n m gens a) :
    InSpan n m' gens a := by
  induction h with
  | one => exact InSpan.one
  | gen i hi => exact InSpan.gen i (Nat.lt_of_lt_of_le hi hm)
  | mul a b _ _ iha ihb => exact InSpan.mul a b iha ihb
  | eqv a b _ hab iha => exact InSpan.eqv a b iha hab

/-- **lifting a span** from `n` qubits to `n + m` qubits: if the first `k` of the `k'` big generators are the truncated small
    generators, the truncation of every element of the small span is in the big span -/
theorem inSpan_lift (n m k k' : Nat) (gens : Nat → PRow) (gens' : Nat → PRow) (a : PRow)
    (hg : ∀ i, i < k → PRow.EqOn (n + m) (gens' i) (PRow.truncCols n (gens i))) (hk : k ≤ k')
    (h : InSpan n k gens a) : InSpan (n + m) k' gens' (PRow.truncCols n a) := by
  induction h with
  | one => exact InSpan.eqv _ _ InSpan.one (truncCols_one n (n + m)).symm
  | gen i hi => exact InSpan.eqv _ _ (InSpan.gen i (Nat.lt_of_lt_of_le hi hk)) (hg i hi)
  | mul a b _ _ iha ihb => exact InSpan.eqv _ _ (InSpan.mul _ _ iha ihb) (truncCols_mul n m a b).symm
  | eqv a b _ hab iha => exact InSpan.eqv _ _ iha (truncCols_congr n m a b hab)

/-! #### the gate action and truncation -/

/-- a row map that respects `EqOn N` and commutes with the truncation to the first `n` columns -/
structure TruncComm (N n : Nat) (f : PRow → PRow) : Prop where
  congr : ∀ a b, EqOn N a b → EqOn N (f a) (f b)
  comm : ∀ p, EqOn N (f (truncCols n p)) (truncCols n (f p))

theorem TruncComm.comp {N n : Nat} {f g : PRow → PRow} (hf : TruncComm N n f) (hg : TruncComm N n g) :
    TruncComm N n (fun a => f (g a)) where
  congr _ _ h := hf.congr _ _ (hg.congr _ _ h)
  comm p := (hf.congr _ _ (hg.comm p)).trans (hf.comm _)

theorem truncComm_id (N n : Nat) : TruncComm N n id := ⟨fun _ _ h => h, fun _ => EqOn.refl _ _⟩

theorem truncComm_h (N n q : Nat) (hq : q < n) (hn : n ≤ N) : TruncComm N n (PRow.h q) where
  congr := h_congr N q (by omega)
  comm p := by
    refine ⟨fun j _ => ?_, ?_, rfl⟩
    · by_cases e : j = q
      · subst e; simp [PRow.h, hq]
      · simp [PRow.h, e]
    · simp [PRow.h, hq]

theorem truncComm_s (N n q : Nat) (hq : q < n) (hn : n ≤ N) : TruncComm N n (PRow.s q) where
  congr := s_congr N q (by omega)
  comm p := by
    refine ⟨fun j _ => ?_, ?_, rfl⟩
    · by_cases e : j = q
      · subst e; simp [PRow.s, hq]
      · simp [PRow.s, e]
    · simp [PRow.s, hq]

theorem truncComm_sdg (N n q : Nat) (hq : q < n) (hn : n ≤ N) : TruncComm N n (PRow.sdg q) :=
  (truncComm_s N n q hq hn).comp ((truncComm_s N n q hq hn).comp (truncComm_s N n q hq hn))
theorem truncComm_zg (N n q : Nat) (hq : q < n) (hn : n ≤ N) : TruncComm N n (PRow.zg q) :=
  (truncComm_s N n q hq hn).comp (truncComm_s N n q hq hn)
theorem truncComm_xg (N n q : Nat) (hq : q < n) (hn : n ≤ N) : TruncComm N n (PRow.xg q) :=
  (truncComm_h N n q hq hn).comp ((truncComm_zg N n q hq hn).comp (truncComm_h N n q hq hn))
theorem truncComm_yg (N n q : Nat) (hq : q < n) (hn : n ≤ N) : TruncComm N n (PRow.yg q) :=
  (truncComm_s N n q hq hn).comp ((truncComm_xg N n q hq hn).comp ((truncComm_zg N n q hq hn).comp
    (truncComm_s N n q hq hn)))

theorem truncComm_nameAct (N n : Nat) (name : String) (q : Nat) (hq : q < n) (hn : n ≤ N) :
    TruncComm N n (nameAct name q) := by
  unfold nameAct
  split
  · exact truncComm_h N n q hq hn
  · exact truncComm_s N n q hq hn
  · exact truncComm_sdg N n q hq hn
  · exact truncComm_xg N n q hq hn
  · exact truncComm_yg N n q hq hn
  · exact truncComm_zg N n q hq hn
  · exact truncComm_id N n

/-- **the gate action commutes with truncation**, for gates on the columns `< n` -/
theorem namesAct_trunc (n m : Nat) (gates : List (String × Nat)) (hq : ∀ g, g ∈ gates → g.2 < n) (p : PRow) :
    PRow.EqOn (n + m) (namesAct gates (PRow.truncCols n p)) (PRow.truncCols n (namesAct gates p)) := by
  induction gates generalizing p with
  | nil => exact EqOn.refl _ _
  | cons g rest ih =>
    simp only [namesAct_cons]
    have hr : ∀ g', g' ∈ rest → g'.2 < n := fun g' hg' => hq g' (List.mem_cons_of_mem _ hg')
    have hr' : ∀ g', g' ∈ rest → g'.2 < n + m := fun g' hg' => Nat.lt_of_lt_of_le (hr g' hg') (Nat.le_add_right n m)
    exact (namesAct_congr (n + m) rest hr' _ _
      ((truncComm_nameAct (n + m) n g.1 g.2 (hq g List.mem_cons_self) (Nat.le_add_right n m)).comm p)).trans (ih hr _)

/-- a row map that respects `EqOn N` and fixes the rows that are trivial at column `q` -/
structure FixAt (N q : Nat) (f : PRow → PRow) : Prop where
  congr : ∀ a b, EqOn N a b → EqOn N (f a) (f b)
  fix : ∀ p, p.x q = false → p.z q = false → EqOn N (f p) p

theorem FixAt.comp {N q : Nat} {f g : PRow → PRow} (hf : FixAt N q f) (hg : FixAt N q g) :
    FixAt N q (fun a => f (g a)) where
  congr _ _ h := hf.congr _ _ (hg.congr _ _ h)
  fix p hx hz := (hf.congr _ _ (hg.fix p hx hz)).trans (hf.fix p hx hz)

theorem fixAt_id (N q : Nat) : FixAt N q id := ⟨fun _ _ h => h, fun _ _ _ => EqOn.refl _ _⟩

theorem fixAt_h (N q : Nat) (hq : q < N) : FixAt N q (PRow.h q) where
  congr := h_congr N q hq
  fix p hx hz := by
    refine ⟨fun j _ => ?_, ?_, rfl⟩
    · by_cases e : j = q
      · subst e; simp [PRow.h, hx, hz]
      · simp [PRow.h, e]
    · simp [PRow.h, hx]

theorem fixAt_s (N q : Nat) (hq : q < N) : FixAt N q (PRow.s q) where
  congr := s_congr N q hq
  fix p hx hz := by
    refine ⟨fun j _ => ?_, ?_, rfl⟩
    · by_cases e : j = q
      · subst e; simp [PRow.s, hx]
      · simp [PRow.s, e]
    · simp [PRow.s, hx]

theorem fixAt_sdg (N q : Nat) (hq : q < N) : FixAt N q (PRow.sdg q) :=
  (fixAt_s N q hq).comp ((fixAt_s N q hq).comp (fixAt_s N q hq))
theorem fixAt_zg (N q : Nat) (hq : q < N) : FixAt N q (PRow.zg q) :=
  (fixAt_s N q hq).comp (fixAt_s N q hq)
theorem fixAt_xg (N q : Nat) (hq : q < N) : FixAt N q (PRow.xg q) :=
  (fixAt_h N q hq).comp ((fixAt_zg N q hq).comp (fixAt_h N q hq))
theorem fixAt_yg (N q : Nat) (hq : q < N) : FixAt N q (PRow.yg q) :=
  (fixAt_s N q hq).comp ((fixAt_xg N q hq).comp ((fixAt_zg N q hq).comp (fixAt_s N q hq)))

theorem fixAt_nameAct (N : Nat) (name : String) (q : Nat) (hq : q < N) : FixAt N q (nameAct name q) := by
  unfold nameAct
  split
  · exact fixAt_h N q hq
  · exact fixAt_s N q hq
  · exact fixAt_sdg N q hq
  · exact fixAt_xg N q hq
  · exact fixAt_yg N q hq
  · exact fixAt_zg N q hq
  · exact fixAt_id N q

/-- **a row that is trivial on all columns `< n`** (e.g. `Z_e` of an emitter) **is unchanged by gates on the columns `< n`**,
    sign included -/
theorem namesAct_fix_right (n m : Nat) (gates : List (String × Nat)) (hq : ∀ g, g ∈ gates → g.2 < n) (p : PRow)
    (hp : ∀ j, j < n → p.x j = false ∧ p.z j = false) : PRow.EqOn (n + m) (namesAct gates p) p := by
  induction gates with
  | nil => exact EqOn.refl _ _
  | cons g rest ih =>
    simp only [namesAct_cons]
    have hr : ∀ g', g' ∈ rest → g'.2 < n := fun g' hg' => hq g' (List.mem_cons_of_mem _ hg')
    have hr' : ∀ g', g' ∈ rest → g'.2 < n + m := fun g' hg' => Nat.lt_of_lt_of_le (hr g' hg') (Nat.le_add_right n m)
    have hg := hq g List.mem_cons_self
    exact (namesAct_congr (n + m) rest hr' _ _
      ((fixAt_nameAct (n + m) g.1 g.2 (Nat.lt_of_lt_of_le hg (Nat.le_add_right n m))).fix p (hp _ hg).1 (hp _ hg).2)).trans
      (ih hr)

/-! ### (2) the group of the converted state -/

theorem graphTab_stab (n : Nat) (A : Adj) (i : Nat) : (LC.graphTab n A).stab i = LC.graphGen A i := by
  show (if i + n < n then PRow.Zq (i + n) else LC.graphGen A (i + n - n)) = _
  have h : ¬ (i + n < n) := by omega
  rw [if_neg h, Nat.add_sub_cancel]

theorem graphTab_stabReal (n : Nat) (A : Adj) : (LC.graphTab n A).StabReal := by
  intro i h1 _
  have h1' : n ≤ i := h1
  show (if i < n then PRow.Zq i else LC.graphGen A (i - n)).ip = false
  have h : ¬ (i < n) := by omega
  rw [if_neg h]; rfl

/-- running a gate list keeps the stabilizer rows real -/
theorem runGates_stabReal (t t' : Tab) (gates : List (String × Nat)) (hr : t.StabReal)
    (e : LC.runGates t gates = .ok t') : t'.StabReal := by
  obtain ⟨h1, _, h3⟩ := runGates_rows t t' gates e
  intro i hi1 hi2
  rw [h1] at hi1 hi2
  rw [(h3 i hi2).2.2, namesAct_ip]
  exact hr i hi1 hi2

/-- the stabilizer rows of the converted tableau are the images of the generators of `|a⟩` -/
theorem runGates_graphTab_stab (n : Nat) (A : Adj) (t : Tab) (gates : List (String × Nat))
    (e : LC.runGates (LC.graphTab n A) gates = .ok t) (i : Nat) (hi : i < n) :
    EqOn n (t.stab i) (namesAct gates (LC.graphGen A i)) := by
  obtain ⟨h1, _, h3⟩ := runGates_rows _ t gates e
  have h1' : t.n = n := h1
  have := h3 (i + n) (by show i + n < 2 * n; omega)
  rw [← graphTab_stab n A i]
  show EqOn n (t.row (i + t.n)) _
  rw [h1']
  exact this

/-- **group equality on the photons**: if `lc_check(a, b, validate=True)` accepts with the list `gates`, the images of the
    generators `K_i(a)` under the row action of the list generate exactly the stabilizer group of `|b⟩` (each image is a product
    of generators `K_q(b)`, signs included, and each `K_q(b)` is a product of images) -/
theorem conv_group_eq (a b : BMat) (gates : List (String × Nat)) (hA : Simple a.r a.f) (hB : Simple a.r b.f)
    (e : LC.lcCheckR a b true = .ok (true, gates)) :
    (∀ g, g ∈ gates → g.2 < a.r) ∧
    (∀ i, i < a.r → InSpan a.r a.r (fun q => LC.graphGen b.f q) (namesAct gates (LC.graphGen a.f i))) ∧
    (∀ q, q < a.r → InSpan a.r a.r (fun i => namesAct gates (LC.graphGen a.f i)) (LC.graphGen b.f q)) := by
  obtain ⟨t, et, htn, hv, hgen⟩ := LC.lcCheckR_sound a b gates hA e
  obtain ⟨_, hrange, _⟩ := runGates_rows _ t gates et
  have hstab := runGates_graphTab_stab a.r a.f t gates et
  have hr : t.StabReal := runGates_stabReal _ t gates (graphTab_stabReal a.r a.f) et
  have hS : TabSpec.IsStabGrp (LC.graphTab a.r b.f).n (TabSpec.Grp t) := by
    have := TabSpec.grp_isStabGrp t hv hr
    rw [htn] at this
    exact this
  have huniq := TabSpec.grp_unique (LC.graphTab a.r b.f) (LC.graphTab_valid a.r b.f hB) (TabSpec.Grp t) hS
    (fun i hi => by rw [graphTab_stab]; exact hgen i hi)
  refine ⟨hrange, ?_, ?_⟩
  · intro i hi
    have h1 : TabSpec.Grp (LC.graphTab a.r b.f) (t.stab i) :=
      (huniq (t.stab i)).mpr (InSpan.gen i (by rw [htn]; exact hi))
    have h2 : InSpan a.r a.r (fun q => LC.graphGen b.f q) (t.stab i) := by
      have e2 : (LC.graphTab a.r b.f).stab = fun q => LC.graphGen b.f q := funext (graphTab_stab a.r b.f)
      have h1' : InSpan a.r a.r (LC.graphTab a.r b.f).stab (t.stab i) := h1
      rw [e2] at h1'
      exact h1'
    exact InSpan.eqv _ _ h2 (hstab i hi)
  · intro q hq
    have h1 := hgen q hq
    rw [htn] at h1
    exact inSpan_gens_congr a.r a.r _ _ _ hstab h1

/-- a span whose generators lie in another span is contained in it -/
theorem inSpan_of_gens (n m m' : Nat) (gens gens' : Nat → PRow) (a : PRow)
    (hg : ∀ i, i < m → InSpan n m' gens' (gens i)) (h : InSpan n m gens a) : InSpan n m' gens' a := by
  induction h with
  | one => exact InSpan.one
  | gen i hi => exact hg i hi
  | mul a b _ _ iha ihb => exact InSpan.mul a b iha ihb
  | eqv a b _ hab iha => exact InSpan.eqv a b iha hab

/-- `conv_group_eq` as an equality of groups: same elements -/
theorem conv_group_iff (a b : BMat) (gates : List (String × Nat)) (hA : Simple a.r a.f) (hB : Simple a.r b.f)
    (e : LC.lcCheckR a b true = .ok (true, gates)) (P : PRow) :
    InSpan a.r a.r (fun i => namesAct gates (LC.graphGen a.f i)) P ↔ InSpan a.r a.r (fun q => LC.graphGen b.f q) P := by
  obtain ⟨_, h2, h3⟩ := conv_group_eq a b gates hA hB e
  exact ⟨inSpan_of_gens _ _ _ _ _ P h2, inSpan_of_gens _ _ _ _ _ P h3⟩

end Alt
end Graphiq
