/-
  Proofs/StateToGraphCanon.lean — what `canonical_form` does on a tableau whose X part has full rank:
  the first loop finds a pivot in every column, the X part of the result is the identity matrix, the second loop does nothing.
  Used by the soundness proof of `_phase_correction` (Proofs/StateToGraph.lean).  All sizes.
-/
import GraphiqModel.Proofs.StabTableau
namespace Graphiq
open PRow Tab
namespace STab

/-- columns `< j` of the X part are unit vectors: `x[m, k] = [k = m]` -/
def XCols (T : STab) (j : Nat) : Prop := ∀ m k, m < T.n → k < j → (T.row m).x k = decide (k = m)

/-! ### coefficients of a span element -/

/-- the X bits of every element of the span are a GF(2) combination of the X bits of the generators -/
theorem spn_coeffs (T : STab) (a : PRow) (ha : T.Spn a) :
    ∃ c : Nat → Bool, ∀ k, k < T.n → a.x k = parityTo T.n (fun m => c m && (T.row m).x k) := by
  unfold Spn at ha
  induction ha with
  | one => exact ⟨fun _ => false, fun k _ => by simp [PRow.one, parityTo_false]⟩
  | gen i hi =>
    refine ⟨fun m => decide (m = i), fun k _ => ?_⟩
    rw [parityTo_single T.n i (fun m => (T.row m).x k) hi]
  | mul a b _ _ iha ihb =>
    obtain ⟨ca, hca⟩ := iha
    obtain ⟨cb, hcb⟩ := ihb
    refine ⟨fun m => xor (ca m) (cb m), fun k hk => ?_⟩
    rw [mul_x, hca k hk, hcb k hk, ← parityTo_xor]
    apply parityTo_congr
    intro m _
    show xor (ca m && (T.row m).x k) (cb m && (T.row m).x k) = (xor (ca m) (cb m) && (T.row m).x k)
    cases ca m <;> cases cb m <;> simp
  | eqv a b _ hab iha =>
    obtain ⟨c, hc⟩ := iha
    exact ⟨c, fun k hk => by rw [← (hab.1 k hk).1]; exact hc k hk⟩

/-- if the columns `< j` of the X part are unit vectors and the span contains an element whose X part is `e_j`,
    then some row at or below `j` has a 1 in column `j` -/
theorem exists_pivot (T : STab) (j : Nat) (hj : j < T.n) (hc : XCols T j)
    (p : PRow) (hp : T.Spn p) (hpx : ∀ k, k < T.n → p.x k = decide (k = j)) :
    ∃ m, j ≤ m ∧ m < T.n ∧ (T.row m).x j = true := by
  obtain ⟨c, hcoef⟩ := spn_coeffs T p hp
  -- the coefficients of the rows above `j` vanish
  have c0 : ∀ k, k < j → c k = false := by
    intro k hk
    have hkn : k < T.n := by omega
    have e := hcoef k hkn
    rw [hpx k hkn] at e
    have : parityTo T.n (fun m => c m && (T.row m).x k) = c k := by
      rw [parityTo_congr T.n _ (fun m => decide (m = k) && c m)]
      · exact parityTo_single T.n k c hkn
      · intro m hm
        rw [hc m k hm hk]
        by_cases h : k = m
        · subst h; simp
        · have h' : ¬ (m = k) := fun e => h e.symm
          simp [h, h']
    rw [this] at e
    have hne : ¬ (k = j) := by omega
    simp [hne] at e
    exact e
  apply Classical.byContradiction
  intro hno
  have hall : ∀ m, j ≤ m → m < T.n → (T.row m).x j = false := by
    intro m h1 h2
    cases h : (T.row m).x j
    · rfl
    · exact absurd ⟨m, h1, h2, h⟩ hno
  have e := hcoef j hj
  rw [hpx j hj] at e
  have : parityTo T.n (fun m => c m && (T.row m).x j) = false := by
    apply parityTo_zero
    intro m hm
    by_cases h : m < j
    · simp [c0 m h]
    · simp [hall m (by omega) hm]
  rw [this] at e
  simp at e

/-! ### one column of the first loop -/

theorem ptype_x (T : STab) (m j : Nat) : (T.ptype m j = 1 ∨ T.ptype m j = 2) ↔ (T.row m).x j = true := by
  unfold ptype
  cases (T.row m).x j <;> cases (T.row m).z j <;> simp

/-- when a pivot exists, the step swaps some row `f ≥ j` with a 1 in column `j` into row `j` and sweeps -/
theorem canonStepXY_pivot (T : STab) (j : Nat) (hex : ∃ m, j ≤ m ∧ m < T.n ∧ (T.row m).x j = true) :
    ∃ f, j ≤ f ∧ f < T.n ∧ (T.row f).x j = true ∧
      T.canonStepXY j j =
        (((T.rowSwap j f).norm.sweep j fun m => ((T.rowSwap j f).norm.row m).x j).norm, j + 1) := by
  obtain ⟨m0, h1, h2, h3⟩ := hex
  unfold canonStepXY
  have hmem : ∀ f, (f ∈ (T.pauliTypeFinder j j).1 ↔ (j ≤ f ∧ f < T.n ∧ T.ptype f j = 1)) ∧
      (f ∈ (T.pauliTypeFinder j j).2.1 ↔ (j ≤ f ∧ f < T.n ∧ T.ptype f j = 2)) := by
    intro f
    simp only [pauliTypeFinder, List.mem_filter, List.mem_range, decide_eq_true_eq]
    constructor <;> constructor <;> intro h
    · exact ⟨h.1.2, h.1.1, h.2⟩
    · exact ⟨⟨h.2.1, h.1⟩, h.2.2⟩
    · exact ⟨h.1.2, h.1.1, h.2⟩
    · exact ⟨⟨h.2.1, h.1⟩, h.2.2⟩
  generalize hft : T.pauliTypeFinder j j = ft at hmem
  obtain ⟨xs, ys, zs⟩ := ft
  simp only at hmem ⊢
  have hm0 : m0 ∈ xs ∨ m0 ∈ ys := by
    rcases (ptype_x T m0 j).mpr h3 with h | h
    · exact Or.inl ((hmem m0).1.mpr ⟨h1, h2, h⟩)
    · exact Or.inr ((hmem m0).2.mpr ⟨h1, h2, h⟩)
  by_cases hx : xs.isEmpty
  · have hxe : xs = [] := List.isEmpty_iff.mp hx
    subst hxe
    rcases hm0 with h | h
    · cases h
    · cases hys : ys with
      | nil => rw [hys] at h; cases h
      | cons f rest =>
        have hf := (hmem f).2.mp (by rw [hys]; exact List.mem_cons_self)
        exact ⟨f, hf.1, hf.2.1, (ptype_x T f j).mp (Or.inr hf.2.2), by simp⟩
  · cases hxs : xs with
    | nil => rw [hxs] at hx; simp at hx
    | cons f rest =>
      have hf := (hmem f).1.mp (by rw [hxs]; exact List.mem_cons_self)
      exact ⟨f, hf.1, hf.2.1, (ptype_x T f j).mp (Or.inl hf.2.2), by simp⟩

/-- X bits of the rows after swap + sweep at column `j` with pivot taken from row `f` -/
theorem pivotStep_x (T : STab) (j f : Nat) (hjf : j ≤ f) (hf : f < T.n) (hg : T.Good) (m k : Nat) (hm : m < T.n)
    (hk : k < T.n) :
    let sw : Nat → PRow := fun i => if i = j then T.row f else if i = f then T.row j else T.row i
    ((((T.rowSwap j f).norm.sweep j fun m => ((T.rowSwap j f).norm.row m).x j).norm).row m).x k =
      if m ≠ j ∧ (sw m).x j = true then xor ((sw j).x k) ((sw m).x k) else (sw m).x k := by
  intro sw
  have hj : j < T.n := by omega
  let T1 := (T.rowSwap j f).norm
  have g1 : T1.Good := norm_good _ (rowSwap_good T j f hj hf hg)
  have r1 : ∀ i, i < T.n → EqOn T.n (T1.row i) (sw i) := fun i hi => norm_row (T.rowSwap j f) i hi
  have hjn : j < T1.n := hj
  have hmn : m < T1.n := hm
  have e2 := norm_row (T1.sweep j fun m => (T1.row m).x j) m hmn
  have e3 := sweep_row T1 j (fun m => (T1.row m).x j) hjn g1 m hmn
  show (((T1.sweep j fun m => (T1.row m).x j).norm).row m).x k = _
  have hkn : k < (T1.sweep j fun m => (T1.row m).x j).n := hk
  rw [(e2.1 k hkn).1, e3]
  have hxj : (T1.row m).x j = (sw m).x j := ((r1 m hm).1 j hj).1
  by_cases hc : m ≠ j ∧ (sw m).x j = true
  · have hc' : m ≠ j ∧ (T1.row m).x j = true := ⟨hc.1, hxj ▸ hc.2⟩
    rw [if_pos hc', if_pos hc, mul_x, ((r1 j hj).1 k hk).1, ((r1 m hm).1 k hk).1]
  · have hc' : ¬ (m ≠ j ∧ (T1.row m).x j = true) := fun h => hc ⟨h.1, hxj ▸ h.2⟩
    rw [if_neg hc', if_neg hc, ((r1 m hm).1 k hk).1]

/-- one step keeps the unit columns and produces the next one -/
theorem canonStepXY_xcols (T : STab) (j : Nat) (hj : j < T.n) (hg : T.Good) (hc : XCols T j)
    (hex : ∃ m, j ≤ m ∧ m < T.n ∧ (T.row m).x j = true) :
    (T.canonStepXY j j).2 = j + 1 ∧ (T.canonStepXY j j).1.n = T.n ∧ XCols (T.canonStepXY j j).1 (j + 1) := by
  obtain ⟨f, hjf, hf, hfx, e⟩ := canonStepXY_pivot T j hex
  rw [e]
  refine ⟨rfl, rfl, ?_⟩
  intro m k hm hk
  have hm' : m < T.n := hm
  have hkn : k < T.n := by omega
  rw [pivotStep_x T j f hjf hf hg m k hm' hkn]
  -- the swapped rows
  have swx : ∀ i, i < T.n → ∀ k', k' < j →
      (if i = j then T.row f else if i = f then T.row j else T.row i).x k' = decide (k' = i) := by
    intro i hi k' hk'
    by_cases h1 : i = j
    · subst h1
      rw [if_pos rfl, hc f k' hf hk']
      have a : ¬ (k' = f) := by omega
      have b : ¬ (k' = i) := by omega
      simp [a, b]
    · by_cases h2 : i = f
      · subst h2
        rw [if_neg h1, if_pos rfl, hc j k' hj hk']
        have a : ¬ (k' = j) := by omega
        have b : ¬ (k' = i) := by omega
        simp [a, b]
      · rw [if_neg h1, if_neg h2, hc i k' hi hk']
  have swj : (if j = j then T.row f else if j = f then T.row j else T.row j).x j = true := by
    rw [if_pos rfl]; exact hfx
  by_cases hkj : k = j
  · subst hkj
    by_cases hmk : m = k
    · subst hmk
      simp [hfx]
    · have hmk' : ¬ (k = m) := fun e => hmk e.symm
      by_cases hx : (if m = k then T.row f else if m = f then T.row k else T.row m).x k = true
      · rw [if_pos ⟨hmk, hx⟩, swj, hx]; simp [hmk']
      · rw [if_neg (fun h => hx h.2)]
        simp only [Bool.not_eq_true] at hx
        rw [hx]; simp [hmk']
  · have hk' : k < j := by omega
    by_cases hcnd : m ≠ j ∧ (if m = j then T.row f else if m = f then T.row j else T.row m).x j = true
    · rw [if_pos hcnd, swx j hj k hk', swx m hm' k hk']
      have : ¬ (k = j) := hkj
      simp [this]
    · rw [if_neg hcnd, swx m hm' k hk']

/-- if column `j` is already the unit vector (and the columns before it), the step changes no row (up to tabulation) -/
theorem canonStepXY_fixed (T : STab) (j : Nat) (hj : j < T.n) (hg : T.Good) (hc : XCols T (j + 1)) :
    (T.canonStepXY j j).2 = j + 1 ∧ (T.canonStepXY j j).1.n = T.n ∧
    ∀ m, m < T.n → EqOn T.n ((T.canonStepXY j j).1.row m) (T.row m) := by
  have hex : ∃ m, j ≤ m ∧ m < T.n ∧ (T.row m).x j = true :=
    ⟨j, Nat.le_refl j, hj, by rw [hc j j hj (Nat.lt_succ_self j)]; simp⟩
  obtain ⟨f, hjf, hf, hfx, e⟩ := canonStepXY_pivot T j hex
  rw [e]
  have hfj : f = j := by
    rw [hc f j hf (Nat.lt_succ_self j)] at hfx
    simp at hfx; exact hfx.symm
  subst hfj
  refine ⟨rfl, rfl, ?_⟩
  intro m hm
  let T1 := (T.rowSwap f f).norm
  have g1 : T1.Good := norm_good _ (rowSwap_good T f f hj hj hg)
  have r1 : ∀ i, i < T.n → EqOn T.n (T1.row i) (T.row i) := by
    intro i hi
    have := norm_row (T.rowSwap f f) i hi
    have e : (T.rowSwap f f).row i = T.row i := by
      simp only [rowSwap]; by_cases h : i = f <;> simp [h]
    rw [e] at this; exact this
  have hmn : m < T1.n := hm
  have e2 := norm_row (T1.sweep f fun m => (T1.row m).x f) m hmn
  have e3 : (T1.sweep f fun m => (T1.row m).x f).row m = T1.row m := by
    simp only [sweep]
    split
    · next h =>
      have hx : (T1.row m).x f = (T.row m).x f := ((r1 m hm).1 f hj).1
      rw [hx, hc m f hm (Nat.lt_succ_self f)] at h
      have : ¬ (f = m) := fun e => h.1 e.symm
      simp [this] at h
    · rfl
  rw [e3] at e2
  exact e2.trans (r1 m hm)

/-! ### the two loops -/

theorem foldl_range_succ {β : Type} (f : β → Nat → β) (b : β) (k : Nat) :
    (List.range (k + 1)).foldl f b = f ((List.range k).foldl f b) k := by
  rw [List.range_succ, List.foldl_append]; rfl

/-- the first loop on a tableau whose span contains, for every `j`, an element with X part `e_j` -/
theorem loop1_xcols (S : STab) (hg : S.Good)
    (hK : ∀ j, j < S.n → ∃ p, S.Spn p ∧ ∀ k, k < S.n → p.x k = decide (k = j)) (j : Nat) (hj : j ≤ S.n) :
    let r := (List.range j).foldl (fun (acc : STab × Nat) c => acc.1.canonStepXY acc.2 c) (S, 0)
    r.2 = j ∧ r.1.n = S.n ∧ SpanEq S r.1 ∧ r.1.Good ∧ XCols r.1 j := by
  induction j with
  | zero => exact ⟨rfl, rfl, SpanEq.refl S, hg, fun _ _ _ hk => by omega⟩
  | succ j ih =>
    obtain ⟨e1, e2, e3, e4, e5⟩ := ih (by omega)
    intro r
    have hr : r = ((List.range j).foldl (fun (acc : STab × Nat) c => acc.1.canonStepXY acc.2 c) (S, 0)).1.canonStepXY
        ((List.range j).foldl (fun (acc : STab × Nat) c => acc.1.canonStepXY acc.2 c) (S, 0)).2 j :=
      foldl_range_succ _ _ _
    generalize (List.range j).foldl (fun (acc : STab × Nat) c => acc.1.canonStepXY acc.2 c) (S, 0) = acc at *
    rw [e1] at hr
    have hjT : j < acc.1.n := by omega
    obtain ⟨p, hp, hpx⟩ := hK j (by omega)
    have hex := exists_pivot acc.1 j hjT e5 p (e3.sub p hp) (fun k hk => hpx k (e2 ▸ hk))
    obtain ⟨a1, a2, a3⟩ := canonStepXY_xcols acc.1 j hjT e4 e5 hex
    have inv := canonStepXY_inv acc.1 j j e4
    rw [hr]
    exact ⟨a1, a2.trans e2, e3.trans inv.1, inv.2, a3⟩

/-- the second loop does nothing once the pivot row index has reached `n` -/
theorem loop2_done (T : STab) (l : List Nat) :
    l.foldl (fun (acc : STab × Nat) c => acc.1.canonStepZ acc.2 c) (T, T.n) = (T, T.n) := by
  induction l with
  | nil => rfl
  | cons c rest ih =>
    simp only [List.foldl]
    have : T.canonStepZ T.n c = (T, T.n) := by
      unfold canonStepZ
      have : T.zTypeFinder T.n c = [] := by
        simp only [zTypeFinder, List.filter_eq_nil_iff, List.mem_filter, List.mem_range, decide_eq_true_eq]
        intro a ha; omega
      rw [this]; rfl
    rw [this]; exact ih

/-- **`canonical_form` on a full-X-rank tableau**: it returns, the result generates the same signed group, and its X part
    is the identity matrix -/
theorem canonicalForm_fullX (S : STab) (hg : S.Good)
    (hK : ∀ j, j < S.n → ∃ p, S.Spn p ∧ ∀ k, k < S.n → p.x k = decide (k = j)) :
    ∃ c, S.canonicalForm = .ok c ∧ c.n = S.n ∧ SpanEq S c ∧ c.Good ∧ XCols c S.n := by
  obtain ⟨e1, e2, e3, e4, e5⟩ := loop1_xcols S hg hK S.n (Nat.le_refl _)
  generalize hacc : (List.range S.n).foldl (fun (acc : STab × Nat) c => acc.1.canonStepXY acc.2 c) (S, 0) = acc at *
  have hl : S.canonLoops = (acc.1, S.n) := by
    unfold canonLoops
    simp only
    rw [hacc]
    have : acc = (acc.1, acc.1.n) := by
      rw [e2, ← e1]
    rw [this, loop2_done, e2]
  refine ⟨acc.1, ?_, e2, e3, e4, e5⟩
  unfold canonicalForm
  rw [hl]; simp

/-- `canonical_form` of a tableau whose X part is the identity changes no row (up to tabulation) -/
theorem loop1_fixed (S : STab) (hg : S.Good) (hX : XCols S S.n) (j : Nat) (hj : j ≤ S.n) :
    let r := (List.range j).foldl (fun (acc : STab × Nat) c => acc.1.canonStepXY acc.2 c) (S, 0)
    r.2 = j ∧ r.1.n = S.n ∧ r.1.Good ∧ ∀ m, m < S.n → EqOn S.n (r.1.row m) (S.row m) := by
  induction j with
  | zero => exact ⟨rfl, rfl, hg, fun _ _ => EqOn.refl _ _⟩
  | succ j ih =>
    obtain ⟨e1, e2, e4, e5⟩ := ih (by omega)
    intro r
    have hr : r = ((List.range j).foldl (fun (acc : STab × Nat) c => acc.1.canonStepXY acc.2 c) (S, 0)).1.canonStepXY
        ((List.range j).foldl (fun (acc : STab × Nat) c => acc.1.canonStepXY acc.2 c) (S, 0)).2 j :=
      foldl_range_succ _ _ _
    generalize (List.range j).foldl (fun (acc : STab × Nat) c => acc.1.canonStepXY acc.2 c) (S, 0) = acc at *
    rw [e1] at hr
    have hjT : j < acc.1.n := by omega
    have hc : XCols acc.1 (j + 1) := by
      intro m k hm hk
      have hm' : m < S.n := e2 ▸ hm
      rw [((e5 m hm').1 k (by omega)).1]
      exact hX m k hm' (by omega)
    obtain ⟨a1, a2, a3⟩ := canonStepXY_fixed acc.1 j hjT e4 hc
    have inv := canonStepXY_inv acc.1 j j e4
    rw [hr]
    refine ⟨a1, a2.trans e2, inv.2, fun m hm => ?_⟩
    have := a3 m (e2 ▸ hm)
    rw [e2] at this
    exact this.trans (e5 m hm)

theorem canonicalForm_idX (S : STab) (hg : S.Good) (hX : XCols S S.n) :
    ∃ c, S.canonicalForm = .ok c ∧ c.n = S.n ∧ ∀ m, m < S.n → EqOn S.n (c.row m) (S.row m) := by
  obtain ⟨e1, e2, _, e5⟩ := loop1_fixed S hg hX S.n (Nat.le_refl _)
  generalize hacc : (List.range S.n).foldl (fun (acc : STab × Nat) c => acc.1.canonStepXY acc.2 c) (S, 0) = acc at *
  have hl : S.canonLoops = (acc.1, S.n) := by
    unfold canonLoops
    simp only
    rw [hacc]
    have : acc = (acc.1, acc.1.n) := by
      rw [e2, ← e1]
    rw [this, loop2_done, e2]
  refine ⟨acc.1, ?_, e2, e5⟩
  unfold canonicalForm
  rw [hl]; simp

end STab
end Graphiq
