/-
  Proofs/Solver.lean — structural facts about the time-reversed solver model that hold by construction, for every target:
  every photon is emitted exactly once, by a CNOT controlled by an emitter.
-/
import GraphiqModel.Model.Solver
namespace Graphiq.Solver
open Graphiq Graphiq.Cliff

/-- number of emission CNOTs onto photon `p` -/
def emitCount (p : Nat) (c : List SOp) : Nat := c.countP fun o => match o with | .emit _ q => q == p | _ => false

def isEmit (p : Nat) : SOp → Bool
  | .emit _ q => q == p
  | _ => false

theorem emitCount_eq (p : Nat) (c : List SOp) : emitCount p c = c.countP (isEmit p) := by
  unfold emitCount; congr 1

theorem emitCount_append (p : Nat) (a b : List SOp) : emitCount p (a ++ b) = emitCount p a + emitCount p b := by
  simp [emitCount_eq, List.countP_append]

theorem emitCount_cons_wrap (p : Nat) (gs : List Gen) (q : Nat) (c : List SOp) :
    emitCount p (.wrap gs q :: c) = emitCount p c := by simp [emitCount_eq, List.countP_cons, isEmit]
theorem emitCount_cons_cnotEE (p a b : Nat) (c : List SOp) : emitCount p (.cnotEE a b :: c) = emitCount p c := by
  simp [emitCount_eq, List.countP_cons, isEmit]
theorem emitCount_cons_mcr (p a b : Nat) (c : List SOp) : emitCount p (.mcr a b :: c) = emitCount p c := by
  simp [emitCount_eq, List.countP_cons, isEmit]
theorem emitCount_cons_emit (p e q : Nat) (c : List SOp) :
    emitCount p (.emit e q :: c) = emitCount p c + (if q = p then 1 else 0) := by
  simp [emitCount_eq, List.countP_cons, isEmit]

/-- what a helper may change: the tableau and the circuit, but not the register counts nor the emission counts -/
structure Keeps (s s' : St) : Prop where
  np_eq : s'.np = s.np
  ne_eq : s'.ne = s.ne
  emits : ∀ p, emitCount p s'.circ = emitCount p s.circ

theorem Keeps.refl (s : St) : Keeps s s := ⟨rfl, rfl, fun _ => rfl⟩
theorem Keeps.trans {a b c : St} (h1 : Keeps a b) (h2 : Keeps b c) : Keeps a c :=
  ⟨h2.np_eq.trans h1.np_eq, h2.ne_eq.trans h1.ne_eq, fun p => (h2.emits p).trans (h1.emits p)⟩

theorem keeps_gate (s : St) (g : Gate) : Keeps s (s.gate g) := ⟨rfl, rfl, fun _ => rfl⟩

theorem keeps_addOneQubit (s s' : St) (gs : List Gen) (q : Nat) (h : addOneQubit s gs q = .ok s') : Keeps s s' := by
  unfold addOneQubit at h
  simp only at h
  have hsplit : s.circ = s.circ.takeWhile (fun o => !o.touches s.np q) ++ s.circ.dropWhile (fun o => !o.touches s.np q) :=
    (List.takeWhile_append_dropWhile).symm
  generalize s.circ.takeWhile (fun o => !o.touches s.np q) = pre at h hsplit
  generalize s.circ.dropWhile (fun o => !o.touches s.np q) = post at h hsplit
  split at h
  · next old q' rest =>
    split at h
    · cases h
    · split at h
      · injection h with h; rw [← h]
        refine ⟨rfl, rfl, fun p => ?_⟩
        show emitCount p (pre ++ rest) = emitCount p s.circ
        rw [hsplit, emitCount_append, emitCount_append, emitCount_cons_wrap]
      · injection h with h; rw [← h]
        refine ⟨rfl, rfl, fun p => ?_⟩
        show emitCount p (pre ++ SOp.wrap _ q :: rest) = emitCount p s.circ
        rw [hsplit, emitCount_append, emitCount_append, emitCount_cons_wrap, emitCount_cons_wrap]
  · split at h
    · cases h
    · split at h
      · injection h with h; rw [← h]; exact Keeps.refl s
      · injection h with h; rw [← h]
        exact ⟨rfl, rfl, fun p => emitCount_cons_wrap p _ q s.circ⟩

theorem keeps_changeToZ (s : St) (row col : Nat) : Keeps s (changeToZ s row col).1 := by
  unfold changeToZ
  split
  · exact keeps_gate s _
  · exact (keeps_gate s _).trans (keeps_gate _ _)
  · exact Keeps.refl s

theorem keeps_addEmitterCnot (s : St) (c t : Nat) : Keeps s (addEmitterCnot s c t) :=
  ⟨rfl, rfl, fun p => emitCount_cons_cnotEE p c t _⟩

theorem keeps_foldl {α : Type} (f : St → α → St) (hf : ∀ s x, Keeps s (f s x)) (l : List α) (s : St) :
    Keeps s (l.foldl f s) := by
  induction l generalizing s with
  | nil => exact Keeps.refl s
  | cons x rest ih => simp only [List.foldl]; exact (hf s x).trans (ih (f s x))

theorem keeps_foldlM {α : Type} (f : St → α → Except Err St) (hf : ∀ s x s', f s x = .ok s' → Keeps s s')
    (l : List α) (s s' : St) (h : l.foldlM f s = .ok s') : Keeps s s' := by
  induction l generalizing s with
  | nil =>
    simp only [List.foldlM, pure, Except.pure] at h
    injection h with h; rw [← h]; exact Keeps.refl s
  | cons x rest ih =>
    simp only [List.foldlM] at h
    cases h1 : f s x with
    | error e => rw [h1] at h; simp [bind, Except.bind] at h
    | ok s1 =>
      rw [h1] at h
      simp only [bind, Except.bind] at h
      exact (hf s x s1 h1).trans (ih s1 h)

theorem keeps_transformGeneratorEmitters (s s' : St) (g tgt : Nat) (h : transformGeneratorEmitters s g tgt = .ok s') :
    Keeps s s' := by
  unfold transformGeneratorEmitters at h
  split at h
  · injection h with h; rw [← h]; exact Keeps.refl s
  · split at h
    · cases h
    · injection h with h; rw [← h]
      exact keeps_foldl _ (fun a c => keeps_addEmitterCnot a c tgt) _ s

theorem keeps_allEmittersToZ (s s' : St) (g : Nat) (skip : Bool) (h : allEmittersToZ s g skip = .ok s') : Keeps s s' := by
  unfold allEmittersToZ at h
  apply keeps_foldlM _ _ _ s s' h
  intro a i a' ha
  simp only at ha
  have k1 := keeps_changeToZ a g (a.np + i)
  generalize changeToZ a g (a.np + i) = r at ha k1
  obtain ⟨a1, gl⟩ := r
  simp only at ha k1
  split at ha
  · injection ha with ha; rw [← ha]; exact k1
  · exact k1.trans (keeps_addOneQubit a1 a' gl _ ha)

theorem keeps_fixSign (s s' : St) (g e : Nat) (h : fixSign s g e = .ok s') : Keeps s s' := by
  unfold fixSign at h
  split at h
  · exact (keeps_gate s _).trans (keeps_addOneQubit _ s' _ _ h)
  · injection h with h; rw [← h]; exact Keeps.refl s

theorem keeps_timeReversedMeasurement (s s' : St) (photon : Nat) (h : timeReversedMeasurement s photon = .ok s') :
    Keeps s s' := by
  unfold timeReversedMeasurement at h
  simp only at h
  split at h
  · cases h
  · next g _ _ =>
    split at h
    · cases h
    · next e _ _ =>
      cases h1 : allEmittersToZ s g true with
      | error err => rw [h1] at h; cases h
      | ok s1 =>
        rw [h1] at h; simp only at h
        cases h2 : transformGeneratorEmitters s1 g e with
        | error err => rw [h2] at h; cases h
        | ok s2 =>
          rw [h2] at h; simp only at h
          cases h3 : fixSign s2 g e with
          | error err => rw [h3] at h; cases h
          | ok s3 =>
            rw [h3] at h; simp only at h
            injection h with h; rw [← h]
            have k := ((keeps_allEmittersToZ s s1 g true h1).trans (keeps_transformGeneratorEmitters s1 s2 g e h2)).trans
              (keeps_fixSign s2 s3 g e h3)
            refine ⟨k.np_eq, k.ne_eq, fun p => ?_⟩
            show emitCount p (SOp.mcr e photon :: s3.circ) = _
            rw [emitCount_cons_mcr]; exact k.emits p

/-- photon absorption adds exactly one emission, onto the absorbed photon, controlled by an emitter of the circuit -/
theorem addPhotonAbsorption_emits (s s' : St) (photon : Nat) (h : addPhotonAbsorption s photon = .ok s') :
    s'.np = s.np ∧ s'.ne = s.ne ∧ ∀ p, emitCount p s'.circ = emitCount p s.circ + (if photon = p then 1 else 0) := by
  unfold addPhotonAbsorption at h
  split at h
  · cases h
  · next g _ =>
    have k0 := keeps_changeToZ s g photon
    generalize changeToZ s g photon = r at h k0
    obtain ⟨s0, gl⟩ := r
    simp only at h k0
    cases h1 : addOneQubit s0 gl photon with
    | error err => rw [h1] at h; cases h
    | ok s1 =>
      rw [h1] at h; simp only at h
      split at h
      · cases h
      · next e _ _ =>
        cases h2 : allEmittersToZ s1 g false with
        | error err => rw [h2] at h; cases h
        | ok s2 =>
          rw [h2] at h; simp only at h
          cases h3 : transformGeneratorEmitters s2 g e with
          | error err => rw [h3] at h; cases h
          | ok s3 =>
            rw [h3] at h; simp only at h
            cases h4 : fixSign s3 g e with
            | error err => rw [h4] at h; cases h
            | ok s4 =>
              rw [h4] at h; simp only at h
              injection h with h; rw [← h]
              have k := (((k0.trans (keeps_addOneQubit s0 s1 gl photon h1)).trans (keeps_allEmittersToZ s1 s2 g false h2)).trans
                (keeps_transformGeneratorEmitters s2 s3 g e h3)).trans (keeps_fixSign s3 s4 g e h4)
              refine ⟨k.np_eq, k.ne_eq, fun p => ?_⟩
              show emitCount p (SOp.emit e photon :: s4.circ) = _
              rw [emitCount_cons_emit, k.emits p]

theorem keeps_addGatesFromStr (s s' : St) (gl : List Gate) (h : addGatesFromStr s gl = .ok s') : Keeps s s' := by
  unfold addGatesFromStr at h
  apply keeps_foldlM _ _ _ s s' h
  intro a g a' ha
  cases g with
  | H q =>
    simp only at ha
    cases h1 : addOneQubit a [.H] q with
    | error e => rw [h1] at ha; simp [Except.map] at ha
    | ok a1 =>
      rw [h1] at ha; simp only [Except.map] at ha
      injection ha with ha; rw [← ha]
      exact (keeps_addOneQubit a a1 _ q h1).trans (keeps_gate a1 _)
  | P q =>
    simp only at ha
    cases h1 : addOneQubit a [.Z, .P] q with
    | error e => rw [h1] at ha; simp [Except.map] at ha
    | ok a1 =>
      rw [h1] at ha; simp only [Except.map] at ha
      injection ha with ha; rw [← ha]
      exact (keeps_addOneQubit a a1 _ q h1).trans (keeps_gate a1 _)
  | X q =>
    simp only at ha
    cases h1 : addOneQubit a [.X] q with
    | error e => rw [h1] at ha; simp [Except.map] at ha
    | ok a1 =>
      rw [h1] at ha; simp only [Except.map] at ha
      injection ha with ha; rw [← ha]
      exact (keeps_addOneQubit a a1 _ q h1).trans (keeps_gate a1 _)
  | CNOT c t =>
    simp only at ha
    split at ha
    · injection ha with ha; rw [← ha]; exact keeps_addEmitterCnot a _ _
    · cases ha
  | CZ c t =>
    simp only at ha
    split at ha
    · cases h1 : addOneQubit a [.H] t with
      | error e => rw [h1] at ha; cases ha
      | ok a1 =>
        rw [h1] at ha; simp only at ha
        cases h2 : addOneQubit (addEmitterCnot (a1.gate (.H t)) (c - a.np) (t - a.np)) [.H] t with
        | error e => rw [h2] at ha; simp [Except.map] at ha
        | ok a3 =>
          rw [h2] at ha; simp only [Except.map] at ha
          injection ha with ha; rw [← ha]
          exact ((((keeps_addOneQubit a a1 _ t h1).trans (keeps_gate a1 _)).trans (keeps_addEmitterCnot _ _ _)).trans
            (keeps_addOneQubit _ a3 _ t h2)).trans (keeps_gate a3 _)
    · cases ha
  | Pdag q => simp at ha
  | Y q => simp at ha
  | Z q => simp at ha
  | I q => simp at ha

/-- number of loop indices `j` in `js` that absorb photon `p` (`j - 1 = p`) -/
def absorbs (p : Nat) (js : List Nat) : Nat := js.countP fun j => j - 1 == p

theorem photonLoop_emits (js : List Nat) (s s' : St) (h : photonLoop s js = .ok s') :
    s'.np = s.np ∧ s'.ne = s.ne ∧ ∀ p, emitCount p s'.circ = emitCount p s.circ + absorbs p js := by
  induction js generalizing s with
  | nil => simp only [photonLoop] at h; injection h with h; rw [← h]; exact ⟨rfl, rfl, fun p => by simp [absorbs]⟩
  | cons j rest ih =>
    simp only [photonLoop] at h
    cases h1 : s.t.rref with
    | error e => rw [h1] at h; cases h
    | ok v =>
      obtain ⟨t1, brs⟩ := v
      rw [h1] at h; simp only at h
      cases h2 : t1.heightFuncList with
      | error e => rw [h2] at h; cases h
      | ok hl =>
        rw [h2] at h; simp only at h
        -- the optional time-reversed measurement keeps the emission counts
        have hstep : ∀ s3, (if (0 :: hl).getD j 0 < (0 :: hl).getD (j - 1) 0 then
              match timeReversedMeasurement { s with t := t1 } (j - 1) with
              | .error e => Except.error e
              | .ok s2 => match s2.t.rref with
                | .error e => Except.error e
                | .ok (t2, _) => Except.ok { s2 with t := t2 }
            else Except.ok { s with t := t1 }) = Except.ok s3 → Keeps s s3 := by
          intro s3 hs3
          split at hs3
          · cases h3 : timeReversedMeasurement { s with t := t1 } (j - 1) with
            | error e => rw [h3] at hs3; cases hs3
            | ok s2 =>
              rw [h3] at hs3; simp only at hs3
              cases h4 : s2.t.rref with
              | error e => rw [h4] at hs3; cases hs3
              | ok w =>
                obtain ⟨t2, b2⟩ := w
                rw [h4] at hs3; simp only at hs3
                injection hs3 with hs3; rw [← hs3]
                have k := keeps_timeReversedMeasurement _ s2 (j - 1) h3
                exact ⟨k.np_eq, k.ne_eq, k.emits⟩
          · injection hs3 with hs3; rw [← hs3]; exact ⟨rfl, rfl, fun _ => rfl⟩
        generalize hst : (if (0 :: hl).getD j 0 < (0 :: hl).getD (j - 1) 0 then
              match timeReversedMeasurement { s with t := t1 } (j - 1) with
              | .error e => Except.error e
              | .ok s2 => match s2.t.rref with
                | .error e => Except.error e
                | .ok (t2, _) => Except.ok { s2 with t := t2 }
            else Except.ok { s with t := t1 }) = step at h hstep
        cases step with
        | error e => cases h
        | ok s3 =>
          simp only at h
          have k3 := hstep s3 rfl
          cases h5 : addPhotonAbsorption s3 (j - 1) with
          | error e => rw [h5] at h; cases h
          | ok s4 =>
            rw [h5] at h; simp only at h
            obtain ⟨a1, a2, a3⟩ := addPhotonAbsorption_emits s3 s4 (j - 1) h5
            obtain ⟨b1, b2, b3⟩ := ih s4 h
            refine ⟨b1.trans (a1.trans k3.np_eq), b2.trans (a2.trans k3.ne_eq), fun p => ?_⟩
            rw [b3 p, a3 p, k3.emits p]
            simp only [absorbs, List.countP_cons]
            by_cases e : j - 1 = p <;> simp [e] <;> omega

theorem absorbs_loop (np p : Nat) : absorbs p ((List.range np).reverse.map (· + 1)) = if p < np then 1 else 0 := by
  unfold absorbs
  rw [List.countP_map]
  have : ((fun j => j - 1 == p) ∘ fun x => x + 1) = fun x => x == p := by funext x; simp
  rw [this, List.countP_reverse]
  induction np with
  | zero => simp
  | succ k ih =>
    rw [List.range_succ, List.countP_append, ih]
    by_cases h1 : p < k
    · have : ¬ (k = p) := by omega
      have h2 : p < k + 1 := by omega
      simp [h1, h2, this]
    · by_cases h2 : k = p
      · subst h2; simp
      · have h3 : ¬ (p < k + 1) := by omega
        simp [h1, h2, h3]

/-- **every photon is emitted exactly once** by the circuit the solver builds (any target, any size) -/
theorem solve_emits_each_photon_once (target : STab) (s : St) (h : solve target = .ok s) :
    s.np = target.n ∧ ∀ p, emitCount p s.circ = if p < target.n then 1 else 0 := by
  unfold solve at h
  cases h0 : determineNEmitters target with
  | error e => rw [h0] at h; cases h
  | ok ne =>
    rw [h0] at h; simp only at h
    generalize (List.range ne).foldl (fun (acc : STab) _ => (acc.insertQubit acc.n).norm) target = t0 at h
    cases h1 : photonLoop { np := target.n, ne := ne, t := t0, circ := [] } ((List.range target.n).reverse.map (· + 1)) with
    | error e => rw [h1] at h; cases h
    | ok s1 =>
      rw [h1] at h; simp only at h
      obtain ⟨p1, p2, p3⟩ := photonLoop_emits _ _ s1 h1
      cases h2 : s1.t.rref with
      | error e => rw [h2] at h; cases h
      | ok v =>
        obtain ⟨t2, b⟩ := v
        rw [h2] at h; simp only at h
        split at h
        · cases h
        · cases h3 : t2.inverseCircuit with
          | error e => rw [h3] at h; cases h
          | ok w =>
            obtain ⟨tz, inv⟩ := w
            rw [h3] at h; simp only at h
            cases h4 : addGatesFromStr { s1 with t := t2 } inv with
            | error e => rw [h4] at h; cases h
            | ok s3 =>
              rw [h4] at h; simp only at h
              have k4 := keeps_addGatesFromStr _ s3 inv h4
              have k5 := keeps_foldlM _ (fun (acc : St) (i : Nat) (acc' : St) hacc => by
                split at hacc
                · exact (keeps_gate acc _).trans (keeps_addOneQubit _ acc' _ _ hacc)
                · injection hacc with hacc; rw [← hacc]; exact Keeps.refl acc) _ s3 s h
              refine ⟨(k5.np_eq.trans k4.np_eq).trans p1, fun p => ?_⟩
              rw [k5.emits p, k4.emits p]
              show emitCount p s1.circ = _
              rw [p3 p, absorbs_loop]
              simp [emitCount_eq]

/-- the circuit has exactly the number of emitters computed from the height function of the target -/
theorem solve_emitter_count (target : STab) (s : St) (h : solve target = .ok s) :
    determineNEmitters target = .ok s.ne := by
  unfold solve at h
  cases h0 : determineNEmitters target with
  | error e => rw [h0] at h; cases h
  | ok ne =>
    rw [h0] at h; simp only at h
    generalize (List.range ne).foldl (fun (acc : STab) _ => (acc.insertQubit acc.n).norm) target = t0 at h
    cases h1 : photonLoop { np := target.n, ne := ne, t := t0, circ := [] } ((List.range target.n).reverse.map (· + 1)) with
    | error e => rw [h1] at h; cases h
    | ok s1 =>
      rw [h1] at h; simp only at h
      obtain ⟨_, p2, _⟩ := photonLoop_emits _ _ s1 h1
      cases h2 : s1.t.rref with
      | error e => rw [h2] at h; cases h
      | ok v =>
        obtain ⟨t2, b⟩ := v
        rw [h2] at h; simp only at h
        split at h
        · cases h
        · cases h3 : t2.inverseCircuit with
          | error e => rw [h3] at h; cases h
          | ok w =>
            obtain ⟨tz, inv⟩ := w
            rw [h3] at h; simp only at h
            cases h4 : addGatesFromStr { s1 with t := t2 } inv with
            | error e => rw [h4] at h; cases h
            | ok s3 =>
              rw [h4] at h; simp only at h
              have k4 := keeps_addGatesFromStr _ s3 inv h4
              have k5 := keeps_foldlM _ (fun (acc : St) (i : Nat) (acc' : St) hacc => by
                split at hacc
                · exact (keeps_gate acc _).trans (keeps_addOneQubit _ acc' _ _ hacc)
                · injection hacc with hacc; rw [← hacc]; exact Keeps.refl acc) _ s3 s h
              have : s.ne = ne := (k5.ne_eq.trans k4.ne_eq).trans p2
              rw [this]

end Graphiq.Solver
