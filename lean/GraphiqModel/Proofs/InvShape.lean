/-
  Proofs/InvShape.lean — the shape of the gate list `inverse_circuit` returns: six segments in this order,
  `H* · CNOT* · CZ* · P* · H* · X*`, every qubit index in range, every two-qubit gate with control < target.  All sizes.
-/
import GraphiqModel.Proofs.InvCount
namespace Graphiq
open PRow Tab
namespace STab

theorem foldl_circ_append {α : Type} (step : InvState → α → InvState) (P : Gate → Prop) (l : List α) (s : InvState)
    (hstep : ∀ s x, x ∈ l → ∃ l', (step s x).circ = s.circ ++ l' ∧ ∀ g, g ∈ l' → P g) :
    ∃ L, (l.foldl step s).circ = s.circ ++ L ∧ ∀ g, g ∈ L → P g := by
  induction l generalizing s with
  | nil => exact ⟨[], by simp, fun g hg => by cases hg⟩
  | cons x rest ih =>
    simp only [List.foldl_cons]
    obtain ⟨l1, e1, p1⟩ := hstep s x List.mem_cons_self
    obtain ⟨L, e2, p2⟩ := ih (step s x) (fun s' y hy => hstep s' y (List.mem_cons_of_mem _ hy))
    refine ⟨l1 ++ L, by rw [e2, e1, List.append_assoc], fun g hg => ?_⟩
    rcases List.mem_append.mp hg with h | h
    · exact p1 g h
    · exact p2 g h

theorem gate_circ (st : InvState) (g : Gate) : (st.gate g).circ = st.circ ++ [g] := rfl

/-- a step that either emits the gate `g` or leaves the state's list alone -/
theorem step_emits (P : Gate → Prop) (s s' : InvState) (g : Gate) (hg : P g)
    (h : s'.circ = s.circ ++ [g] ∨ s'.circ = s.circ) : ∃ l', s'.circ = s.circ ++ l' ∧ ∀ x, x ∈ l' → P x := by
  rcases h with h | h
  · exact ⟨[g], h, fun x hx => by rw [List.mem_singleton.mp hx]; exact hg⟩
  · exact ⟨[], by rw [h]; simp, fun x hx => by cases hx⟩

def IsH (n : Nat) (g : Gate) : Prop := ∃ q, q < n ∧ g = .H q
def IsCNOT (n : Nat) (g : Gate) : Prop := ∃ c t, c < t ∧ t < n ∧ g = .CNOT c t
def IsCZ (n : Nat) (g : Gate) : Prop := ∃ c t, c < t ∧ t < n ∧ g = .CZ c t
def IsP (n : Nat) (g : Gate) : Prop := ∃ q, q < n ∧ g = .P q
def IsX (n : Nat) (g : Gate) : Prop := ∃ q, q < n ∧ g = .X q

theorem block1_shape (n : Nat) (l : List Nat) (hl : ∀ j, j ∈ l → j < n) (s s' : InvState)
    (h : l.foldlM (invStep1 n) s = .ok s') : ∃ L, s'.circ = s.circ ++ L ∧ ∀ g, g ∈ L → IsH n g := by
  induction l generalizing s with
  | nil =>
    simp only [List.foldlM_nil] at h
    injection h with h
    exact ⟨[], by rw [h]; simp, fun g hg => by cases hg⟩
  | cons x rest ih =>
    rw [List.foldlM_cons] at h
    cases hx : invStep1 n s x with
    | error e => rw [hx] at h; cases h
    | ok s1 =>
      rw [hx] at h
      have hxn := hl x List.mem_cons_self
      -- the step emits `H x` or nothing
      have e1 : s1.circ = s.circ ++ [Gate.H x] ∨ s1.circ = s.circ := by
        unfold invStep1 at hx
        generalize s.t.pauliTypeFinder x x = ft at hx
        obtain ⟨xs, ys, zs⟩ := ft
        simp only at hx
        split at hx
        · injection hx with hx; right; rw [← hx, swap_circ]
        · split at hx
          · injection hx with hx; right; rw [← hx, swap_circ]
          · split at hx
            · injection hx with hx; right; rw [← hx]
            · split at hx
              · cases hx
              · injection hx with hx
                rw [← hx]
                split
                · left; rw [gate_circ, invClear_circ, swap_circ]
                · right; rw [invClear_circ, swap_circ]
      obtain ⟨l1, p1, q1⟩ := step_emits (IsH n) s s1 (.H x) ⟨x, hxn, rfl⟩ e1
      obtain ⟨L, e2, p2⟩ := ih (fun j hj => hl j (List.mem_cons_of_mem _ hj)) s1 h
      refine ⟨l1 ++ L, by rw [e2, p1, List.append_assoc], fun g hg => ?_⟩
      rcases List.mem_append.mp hg with h' | h'
      · exact q1 g h'
      · exact p2 g h'

/-- **the gate list of `inverse_circuit` is `H* · CNOT* · CZ* · P* · H* · X*`** -/
theorem inverseCircuit_shape (t t' : STab) (circ : List Gate) (hg : t.Good) (h : t.inverseCircuit = .ok (t', circ)) :
    ∃ l1 l2 l3 l4 l5 l6, circ = l1 ++ l2 ++ l3 ++ l4 ++ l5 ++ l6 ∧
      (∀ g, g ∈ l1 → IsH t.n g) ∧ (∀ g, g ∈ l2 → IsCNOT t.n g) ∧ (∀ g, g ∈ l3 → IsCZ t.n g) ∧
      (∀ g, g ∈ l4 → IsP t.n g) ∧ (∀ g, g ∈ l5 → IsH t.n g) ∧ (∀ g, g ∈ l6 → IsX t.n g) := by
  obtain ⟨t0, s, hc, hs, _, e2⟩ := inverseCircuit_eq t t' circ h
  have hn : t0.n = t.n := (canonicalForm_spanEq t t0 hg hc).1.n_eq.symm
  unfold invBlocks at hs
  split at hs
  · cases hs
  · next s1 h1 =>
    injection hs with hs
    unfold invBlock1 at h1
    obtain ⟨l1, e1, p1⟩ := block1_shape t0.n (List.range t0.n) (fun j hj => List.mem_range.mp hj) _ s1 h1
    simp only [List.nil_append] at e1
    -- blocks 2 – 7
    obtain ⟨l2, e2', p2⟩ := foldl_circ_append invStep2 (IsCNOT t0.n) (pairsLt t0.n) s1 (fun s jk hm => by
      obtain ⟨a, b⟩ := mem_pairsLt t0.n jk hm
      apply step_emits (IsCNOT t0.n) s _ (.CNOT jk.1 jk.2) ⟨jk.1, jk.2, a, b, rfl⟩
      unfold invStep2; split
      · left; rfl
      · right; rfl)
    obtain ⟨l3, e3, p3⟩ := foldl_circ_append invStep3 (IsCZ t0.n) (pairsLt t0.n) ((pairsLt t0.n).foldl invStep2 s1)
      (fun s jk hm => by
        obtain ⟨a, b⟩ := mem_pairsLt t0.n jk hm
        apply step_emits (IsCZ t0.n) s _ (.CZ jk.1 jk.2) ⟨jk.1, jk.2, a, b, rfl⟩
        unfold invStep3; split
        · left; rfl
        · right; rfl)
    obtain ⟨l4, e4, p4⟩ := foldl_circ_append invStep4 (IsP t0.n) (List.range t0.n)
      ((pairsLt t0.n).foldl invStep3 ((pairsLt t0.n).foldl invStep2 s1))
      (fun s j hm => by
        apply step_emits (IsP t0.n) s _ (.P j) ⟨j, List.mem_range.mp hm, rfl⟩
        unfold invStep4; split
        · left; rfl
        · right; rfl)
    obtain ⟨l5, e5, p5⟩ := foldl_circ_append invStep5 (IsH t0.n) (List.range t0.n)
      ((List.range t0.n).foldl invStep4 ((pairsLt t0.n).foldl invStep3 ((pairsLt t0.n).foldl invStep2 s1)))
      (fun s j hm => by
        apply step_emits (IsH t0.n) s _ (.H j) ⟨j, List.mem_range.mp hm, rfl⟩
        unfold invStep5; split
        · left; rfl
        · right; rfl)
    generalize hs5 : (List.range t0.n).foldl invStep5
      ((List.range t0.n).foldl invStep4 ((pairsLt t0.n).foldl invStep3 ((pairsLt t0.n).foldl invStep2 s1))) = s5 at e5
    have e6 := block6_circ (pairsLt t0.n) s5
    generalize hs6 : (pairsLt t0.n).foldl invStep6 s5 = s6 at e6
    obtain ⟨l6, e7, p7⟩ := foldl_circ_append invStep7 (IsX t0.n) ((List.range t0.n).filter fun i => (s6.t.row i).r) s6
      (fun s i hm => by
        have hi : i < t0.n := List.mem_range.mp (List.mem_filter.mp hm).1
        exact ⟨[.X i], rfl, fun x hx => by rw [List.mem_singleton.mp hx]; exact ⟨i, hi, rfl⟩⟩)
    have hfin : s.circ = l1 ++ l2 ++ l3 ++ l4 ++ l5 ++ l6 := by
      rw [← hs]
      unfold invRest
      simp only
      rw [hs5, hs6, e7, e6, e5, e4, e3, e2', e1]
    rw [hn] at p1 p2 p3 p4 p5 p7
    exact ⟨l1, l2, l3, l4, l5, l6, by rw [← e2, hfin], p1, p2, p3, p4, p5, p7⟩

end STab
end Graphiq
