/-
  Proofs/InverseCircuit.lean — soundness of `inverse_circuit` by a tracking invariant: at every point of the synthesis
  the current tableau generates exactly the image, under the gate list collected so far, of the input's stabilizer group.
-/
import GraphiqModel.Proofs.StabTableau
namespace Graphiq
open PRow Tab

/-- a gate whose arguments are in range (and distinct for two-qubit gates) -/
def Gate.WF (n : Nat) : Gate → Prop
  | .H q | .P q | .Pdag q | .X q | .Y q | .Z q => q < n
  | .I _ => True
  | .CNOT c t | .CZ c t => c < n ∧ t < n ∧ c ≠ t

theorem isAut_id (n : Nat) : IsAut n (id : PRow → PRow) :=
  ⟨fun _ _ => rfl, fun _ _ => EqOn.refl _ _, fun _ _ h => h⟩

theorem Gate.isAut (n : Nat) (g : Gate) (h : g.WF n) : IsAut n g.act := by
  cases g with
  | H q => exact isAut_h n q h
  | P q => exact isAut_s n q h
  | Pdag q => exact isAut_sdg n q h
  | X q => exact isAut_xg n q h
  | Y q => exact isAut_yg n q h
  | Z q => exact isAut_zg n q h
  | I q => exact isAut_id n
  | CNOT c t => exact isAut_cnot n c t h.1 h.2.1 h.2.2
  | CZ c t => exact isAut_cz n c t h.1 h.2.1 h.2.2

theorem Gate.act_ip (g : Gate) (a : PRow) : (g.act a).ip = a.ip := by
  cases g <;> rfl

theorem Gate.act_one (n : Nat) (g : Gate) : EqOn n (g.act PRow.one) PRow.one := by
  cases g <;>
    (refine ⟨fun j _ => ?_, ?_, ?_⟩ <;>
      simp [Gate.act, PRow.h, PRow.s, PRow.sdg, PRow.xg, PRow.yg, PRow.zg, PRow.cnot, PRow.cz, PRow.one])

/-- action of a gate list on a row, first gate first -/
def actCirc (c : List Gate) (a : PRow) : PRow := c.foldl (fun a g => g.act a) a

theorem actCirc_append (c : List Gate) (g : Gate) (a : PRow) : actCirc (c ++ [g]) a = g.act (actCirc c a) := by
  simp [actCirc, List.foldl_append]

namespace STab

theorem applyGate_fwd (t : STab) (g : Gate) (hg : g.WF t.n) (b : PRow) (hb : t.Spn b) :
    (t.applyGate g).Spn (g.act b) := by
  have aut := g.isAut t.n hg
  unfold Spn at hb ⊢
  show InSpan t.n t.n (fun i => g.act (t.row i)) (g.act b)
  induction hb with
  | one => exact InSpan.eqv _ _ InSpan.one (Gate.act_one t.n g).symm
  | gen i hi => exact InSpan.gen i hi
  | mul a b _ _ iha ihb => exact InSpan.eqv _ _ (InSpan.mul _ _ iha ihb) (aut.mul a b).symm
  | eqv a b _ hab iha => exact InSpan.eqv _ _ iha (aut.congr a b hab)

theorem applyGate_bwd (t : STab) (g : Gate) (hg : g.WF t.n) (b' : PRow) (hb : (t.applyGate g).Spn b') :
    ∃ b, t.Spn b ∧ EqOn t.n (g.act b) b' := by
  have aut := g.isAut t.n hg
  unfold Spn at hb
  have hb2 : InSpan t.n t.n (fun i => g.act (t.row i)) b' := hb
  clear hb
  induction hb2 with
  | one => exact ⟨PRow.one, InSpan.one, Gate.act_one t.n g⟩
  | gen i hi => exact ⟨t.row i, InSpan.gen i hi, EqOn.refl _ _⟩
  | mul a b _ _ iha ihb =>
    obtain ⟨a0, ha0, ea⟩ := iha
    obtain ⟨b0, hb0, eb⟩ := ihb
    exact ⟨PRow.mul t.n a0 b0, InSpan.mul _ _ ha0 hb0, (aut.mul a0 b0).trans (mul_congr t.n _ _ _ _ ea eb)⟩
  | eqv a b _ hab iha =>
    obtain ⟨a0, ha0, ea⟩ := iha
    exact ⟨a0, ha0, ea.trans hab⟩

theorem applyGate_good (t : STab) (g : Gate) (hg : g.WF t.n) (hgood : t.Good) : (t.applyGate g).Good := by
  have aut := g.isAut t.n hg
  constructor
  · intro i hi
    show (g.act (t.row i)).ip = false
    rw [Gate.act_ip]; exact hgood.real i hi
  · intro i k hi hk
    show sp t.n (g.act (t.row i)) (g.act (t.row k)) = false
    rw [aut.sp]; exact hgood.comm i k hi hk

end STab

open STab

/-- the tracking invariant of the synthesis -/
structure Tracks (t0 : STab) (st : InvState) : Prop where
  n_eq : st.t.n = t0.n
  good : st.t.Good
  wf : ∀ g, g ∈ st.circ → g.WF t0.n
  fwd : ∀ a, t0.Spn a → st.t.Spn (actCirc st.circ a)
  bwd : ∀ b, st.t.Spn b → ∃ a, t0.Spn a ∧ EqOn t0.n (actCirc st.circ a) b

theorem tracks_init (t0 : STab) (hg : t0.Good) : Tracks t0 { t := t0, circ := [] } where
  n_eq := rfl
  good := hg
  wf := fun _ h => by simp at h
  fwd := fun a ha => ha
  bwd := fun b hb => ⟨b, hb, EqOn.refl _ _⟩

/-- replacing the tableau by one with the same signed group keeps the invariant -/
theorem tracks_spanEq (t0 : STab) (st : InvState) (t' : STab) (h : Tracks t0 st) (hs : SpanEq st.t t') (hg : t'.Good) :
    Tracks t0 { st with t := t' } :=
  ⟨hs.n_eq.symm.trans h.n_eq, hg, h.wf, fun a ha => hs.sub _ (h.fwd a ha), fun b hb => h.bwd b (hs.sup b hb)⟩

theorem tracks_swap (t0 : STab) (st : InvState) (a b : Nat) (h : Tracks t0 st) (ha : a < st.t.n) (hb : b < st.t.n) :
    Tracks t0 (st.swap a b) :=
  tracks_spanEq t0 st _ h ((rowSwap_spanEq st.t a b ha hb).trans (norm_spanEq _))
    (norm_good _ (rowSwap_good st.t a b ha hb h.good))

theorem tracks_rsum (t0 : STab) (st : InvState) (a b : Nat) (h : Tracks t0 st) (ha : a < st.t.n) (hb : b < st.t.n)
    (hne : a ≠ b) : Tracks t0 (st.rsum a b) :=
  tracks_spanEq t0 st _ h ((rowSum_spanEq st.t a b ha hb hne h.good).trans (norm_spanEq _))
    (norm_good _ (rowSum_good st.t a b ha hb h.good))

theorem tracks_gate (t0 : STab) (st : InvState) (g : Gate) (h : Tracks t0 st) (hg : g.WF st.t.n) :
    Tracks t0 (st.gate g) := by
  have hg0 : g.WF t0.n := h.n_eq ▸ hg
  have aut := g.isAut t0.n hg0
  have sN := norm_spanEq (st.t.applyGate g)
  refine ⟨?_, norm_good _ (applyGate_good st.t g hg h.good), ?_, ?_, ?_⟩
  · exact h.n_eq
  · intro g' hm
    simp only [InvState.gate, List.mem_append, List.mem_singleton] at hm
    rcases hm with hm | hm
    · exact h.wf g' hm
    · rw [hm]; exact hg0
  · intro a ha
    show (st.t.applyGate g).norm.Spn (actCirc (st.circ ++ [g]) a)
    rw [actCirc_append]
    exact sN.sub _ (applyGate_fwd st.t g hg _ (h.fwd a ha))
  · intro b' hb'
    have hb2 : (st.t.applyGate g).Spn b' := sN.sup b' hb'
    obtain ⟨b, hb, eb⟩ := applyGate_bwd st.t g hg b' hb2
    obtain ⟨a, ha, ea⟩ := h.bwd b hb
    refine ⟨a, ha, ?_⟩
    show EqOn t0.n (actCirc (st.circ ++ [g]) a) b'
    rw [actCirc_append]
    have eb' : EqOn t0.n (g.act b) b' := h.n_eq ▸ eb
    exact (aut.congr _ _ ea).trans eb'

/-! ### each block step keeps the invariant -/

theorem mem_pairsLt (n : Nat) (jk : Nat × Nat) (h : jk ∈ pairsLt n) : jk.1 < jk.2 ∧ jk.2 < n := by
  simp only [pairsLt, List.mem_flatMap, List.mem_range, List.mem_map, List.mem_filter, decide_eq_true_eq] at h
  obtain ⟨j, _, k, ⟨hk, hjk⟩, e⟩ := h
  rw [← e]; exact ⟨hjk, hk⟩

theorem tracks_foldl {α : Type} (t0 : STab) (step : InvState → α → InvState) (l : List α) (P : α → Prop)
    (hl : ∀ x, x ∈ l → P x) (hstep : ∀ st x, Tracks t0 st → P x → Tracks t0 (step st x))
    (st : InvState) (h : Tracks t0 st) : Tracks t0 (l.foldl step st) := by
  induction l generalizing st with
  | nil => exact h
  | cons x rest ih =>
    simp only [List.foldl]
    exact ih (fun y hy => hl y (List.mem_cons_of_mem _ hy)) (step st x) (hstep st x h (hl x List.mem_cons_self))

/-- the clearing loop of block 1 is a sequence of row products -/
theorem tracks_invClear (t0 : STab) (st : InvState) (j : Nat) (h : Tracks t0 st) (hj : j < t0.n) :
    Tracks t0 (invClear t0.n j st) := by
  unfold invClear
  refine tracks_foldl t0 _ _ (fun i => j < i ∧ i < t0.n) ?_ ?_ st h
  · intro i hi
    simp only [List.mem_filter, List.mem_range, decide_eq_true_eq] at hi
    exact ⟨hi.2, hi.1⟩
  · intro st' i h' hi
    show Tracks t0 (if _ then _ else _)
    split
    · exact tracks_rsum t0 st' j i h' (by rw [h'.n_eq]; exact hj) (by rw [h'.n_eq]; exact hi.2) (by omega)
    · exact h'

theorem tracks_step1 (t0 : STab) (st st' : InvState) (j : Nat) (h : Tracks t0 st) (hj : j < t0.n)
    (hs : invStep1 t0.n st j = .ok st') : Tracks t0 st' := by
  have hjn : j < st.t.n := h.n_eq ▸ hj
  unfold invStep1 at hs
  generalize hft : st.t.pauliTypeFinder j j = ft at hs
  obtain ⟨xs, ys, zs⟩ := ft
  simp only at hs
  have bound : ∀ f, (f ∈ xs ∨ f ∈ ys ∨ f ∈ zs) → f < st.t.n := by
    intro f hf
    have := mem_typeFinder st.t j j f (by rw [hft]; exact hf)
    exact this.2
  split at hs
  · next f hf =>
    injection hs with hs; subst hs
    exact tracks_swap t0 st j f h hjn (bound f (Or.inl (List.mem_of_mem_head? hf)))
  · split at hs
    · next f hf =>
      injection hs with hs; subst hs
      exact tracks_swap t0 st j f h hjn (bound f (Or.inr (Or.inl (List.mem_of_mem_head? hf))))
    · split at hs
      · injection hs with hs; subst hs; exact h
      · split at hs
        · cases hs
        · next f hf =>
          injection hs with hs; subst hs
          have hfz : f ∈ zs := (List.mem_filter.mp (List.mem_of_getLast? hf)).1
          have h1 := tracks_swap t0 st j f h hjn (bound f (Or.inr (Or.inr hfz)))
          have h2 := tracks_invClear t0 _ j h1 hj
          split
          · exact tracks_gate t0 _ (.H j) h2 (by rw [h2.n_eq]; exact hj)
          · exact h2

theorem tracks_step2 (t0 : STab) (st : InvState) (jk : Nat × Nat) (h : Tracks t0 st) (hm : jk ∈ pairsLt t0.n) :
    Tracks t0 (invStep2 st jk) := by
  have hb := mem_pairsLt _ _ hm
  unfold invStep2
  split
  · exact tracks_gate t0 st _ h (by show jk.1 < st.t.n ∧ jk.2 < st.t.n ∧ jk.1 ≠ jk.2; rw [h.n_eq]; omega)
  · exact h

theorem tracks_step3 (t0 : STab) (st : InvState) (jk : Nat × Nat) (h : Tracks t0 st) (hm : jk ∈ pairsLt t0.n) :
    Tracks t0 (invStep3 st jk) := by
  have hb := mem_pairsLt _ _ hm
  unfold invStep3
  split
  · exact tracks_gate t0 st _ h (by show jk.1 < st.t.n ∧ jk.2 < st.t.n ∧ jk.1 ≠ jk.2; rw [h.n_eq]; omega)
  · exact h

theorem tracks_step4 (t0 : STab) (st : InvState) (j : Nat) (h : Tracks t0 st) (hj : j < t0.n) :
    Tracks t0 (invStep4 st j) := by
  unfold invStep4
  split
  · exact tracks_gate t0 st _ h (by show j < st.t.n; rw [h.n_eq]; exact hj)
  · exact h

theorem tracks_step5 (t0 : STab) (st : InvState) (j : Nat) (h : Tracks t0 st) (hj : j < t0.n) :
    Tracks t0 (invStep5 st j) := by
  unfold invStep5
  split
  · exact tracks_gate t0 st _ h (by show j < st.t.n; rw [h.n_eq]; exact hj)
  · exact h

theorem tracks_step6 (t0 : STab) (st : InvState) (jk : Nat × Nat) (h : Tracks t0 st) (hm : jk ∈ pairsLt t0.n) :
    Tracks t0 (invStep6 st jk) := by
  have hb := mem_pairsLt _ _ hm
  unfold invStep6
  split
  · exact tracks_rsum t0 st jk.1 jk.2 h (by rw [h.n_eq]; omega) (by rw [h.n_eq]; omega) (by omega)
  · exact h

theorem tracks_step7 (t0 : STab) (st : InvState) (i : Nat) (h : Tracks t0 st) (hi : i < t0.n) :
    Tracks t0 (invStep7 st i) := by
  unfold invStep7
  exact tracks_gate t0 st _ h (by show i < st.t.n; rw [h.n_eq]; exact hi)

/-- block 1 as a monadic fold: every step that returns keeps the invariant -/
theorem tracks_foldlM (t0 : STab) (l : List Nat) (hl : ∀ x, x ∈ l → x < t0.n) (st st' : InvState) (h : Tracks t0 st)
    (hs : l.foldlM (invStep1 t0.n) st = .ok st') : Tracks t0 st' := by
  induction l generalizing st with
  | nil =>
    simp only [List.foldlM_nil] at hs
    injection hs with hs; subst hs; exact h
  | cons x rest ih =>
    simp only [List.foldlM_cons] at hs
    cases h1 : invStep1 t0.n st x with
    | error e => rw [h1] at hs; cases hs
    | ok s1 =>
      rw [h1] at hs
      exact ih (fun y hy => hl y (List.mem_cons_of_mem _ hy)) s1
        (tracks_step1 t0 st s1 x h (hl x List.mem_cons_self) h1) hs

theorem tracks_invBlock1 (t0 : STab) (hg : t0.Good) (s1 : InvState) (h : invBlock1 t0 = .ok s1) : Tracks t0 s1 :=
  tracks_foldlM t0 (List.range t0.n) (fun x hx => List.mem_range.mp hx) _ s1 (tracks_init t0 hg) h

theorem tracks_invRest (t0 : STab) (s1 : InvState) (h1 : Tracks t0 s1) : Tracks t0 (invRest t0.n s1) := by
  unfold invRest
  have lt_of_range : ∀ x, x ∈ List.range t0.n → x < t0.n := fun x hx => List.mem_range.mp hx
  have h2 := tracks_foldl t0 invStep2 (pairsLt t0.n) (fun jk => jk ∈ pairsLt t0.n) (fun _ h => h)
    (fun st jk h hm => tracks_step2 t0 st jk h hm) _ h1
  have h3 := tracks_foldl t0 invStep3 (pairsLt t0.n) (fun jk => jk ∈ pairsLt t0.n) (fun _ h => h)
    (fun st jk h hm => tracks_step3 t0 st jk h hm) _ h2
  have h4 := tracks_foldl t0 invStep4 (List.range t0.n) (fun j => j < t0.n) lt_of_range
    (fun st j h hj => tracks_step4 t0 st j h hj) _ h3
  have h5 := tracks_foldl t0 invStep5 (List.range t0.n) (fun j => j < t0.n) lt_of_range
    (fun st j h hj => tracks_step5 t0 st j h hj) _ h4
  have h6 := tracks_foldl t0 invStep6 (pairsLt t0.n) (fun jk => jk ∈ pairsLt t0.n) (fun _ h => h)
    (fun st jk h hm => tracks_step6 t0 st jk h hm) _ h5
  exact tracks_foldl t0 invStep7 _ (fun j => j < t0.n)
    (fun x hx => List.mem_range.mp (List.mem_filter.mp hx).1)
    (fun st j h hj => tracks_step7 t0 st j h hj) _ h6

theorem tracks_invBlocks (t0 : STab) (hg : t0.Good) (s : InvState) (h : invBlocks t0 = .ok s) : Tracks t0 s := by
  unfold invBlocks at h
  split at h
  · cases h
  · next s1 h1 =>
    injection h with h; subst h
    exact tracks_invRest t0 s1 (tracks_invBlock1 t0 hg s1 h1)

/-- what `inverse_circuit` returns, in terms of the blocks -/
theorem inverseCircuit_eq (t t' : STab) (circ : List Gate) (h : t.inverseCircuit = .ok (t', circ)) :
    ∃ t0 s, t.canonicalForm = .ok t0 ∧ invBlocks t0 = .ok s ∧ s.t = t' ∧ s.circ = circ := by
  unfold STab.inverseCircuit at h
  split at h
  · cases h
  · next t0 hc =>
    split at h
    · cases h
    · next s hs =>
      injection h with h
      exact ⟨t0, s, hc, hs, congrArg Prod.fst h, congrArg Prod.snd h⟩

/-! ### running the reversed list (with `P ↔ P_dag`) undoes the circuit: `run_circuit(..., reverse=True)` -/

theorem h_h (n q : Nat) (a : PRow) : EqOn n (PRow.h q (PRow.h q a)) a := by
  refine ⟨fun j _ => ?_, ?_, ?_⟩
  · by_cases e : j = q <;> simp [PRow.h, e]
  · simp [PRow.h]; cases a.x q <;> cases a.z q <;> cases a.r <;> rfl
  · rfl

theorem s4 (n q : Nat) (a : PRow) : EqOn n (PRow.s q (PRow.s q (PRow.s q (PRow.s q a)))) a := by
  refine ⟨fun j _ => ?_, ?_, ?_⟩
  · by_cases e : j = q
    · subst e; simp [PRow.s]
    · simp [PRow.s, e]
  · simp [PRow.s]; cases a.x q <;> cases a.z q <;> cases a.r <;> rfl
  · rfl

theorem cnot_cnot (n c t : Nat) (hct : c ≠ t) (a : PRow) : EqOn n (PRow.cnot c t (PRow.cnot c t a)) a := by
  have htc : t ≠ c := Ne.symm hct
  refine ⟨fun j _ => ?_, ?_, ?_⟩
  · by_cases e1 : j = t
    · subst e1; simp [PRow.cnot, hct, htc]
    · by_cases e2 : j = c
      · subst e2; simp [PRow.cnot, hct, htc]
      · simp [PRow.cnot, e1, e2]
  · simp [PRow.cnot, hct, htc]
    cases a.x c <;> cases a.z c <;> cases a.x t <;> cases a.z t <;> cases a.r <;> rfl
  · rfl

/-- every gate is undone by its `rev` -/
theorem Gate.rev_cancel (n : Nat) (g : Gate) (hg : g.WF n) (a : PRow) : EqOn n (g.rev.act (g.act a)) a := by
  cases g with
  | H q => exact h_h n q a
  | P q => exact s4 n q a
  | Pdag q =>
    show EqOn n (PRow.s q (PRow.sdg q a)) a
    exact s4 n q a
  | X q =>
    show EqOn n (PRow.xg q (PRow.xg q a)) a
    unfold PRow.xg PRow.zg
    have aH := isAut_h n q hg
    have aS := isAut_s n q hg
    -- H S S (H H) S S H = H (S S S S) H = H H = id
    exact (aH.congr _ _ (aS.congr _ _ (aS.congr _ _ (h_h n q _)))).trans
      ((aH.congr _ _ (s4 n q _)).trans (h_h n q a))
  | Y q =>
    show EqOn n (PRow.yg q (PRow.yg q a)) a
    -- brute force on the bits of site q
    refine ⟨fun j _ => ?_, ?_, ?_⟩
    · by_cases e : j = q
      · subst e; simp [PRow.yg, PRow.xg, PRow.zg, PRow.h, PRow.s]
      · simp [PRow.yg, PRow.xg, PRow.zg, PRow.h, PRow.s, e]
    · simp [PRow.yg, PRow.xg, PRow.zg, PRow.h, PRow.s]
      cases a.x q <;> cases a.z q <;> cases a.r <;> rfl
    · rfl
  | Z q =>
    show EqOn n (PRow.zg q (PRow.zg q a)) a
    exact s4 n q a
  | I q => exact EqOn.refl _ _
  | CNOT c t => exact cnot_cnot n c t hg.2.2 a
  | CZ c t =>
    show EqOn n (PRow.cz c t (PRow.cz c t a)) a
    unfold PRow.cz
    have aH := isAut_h n t hg.2.1
    have aC := isAut_cnot n c t hg.1 hg.2.1 hg.2.2
    exact (aH.congr _ _ (aC.congr _ _ (h_h n t _))).trans
      ((aH.congr _ _ (cnot_cnot n c t hg.2.2 _)).trans (h_h n t a))

theorem Gate.rev_WF (n : Nat) (g : Gate) (hg : g.WF n) : g.rev.WF n := by
  cases g <;> exact hg

theorem actCirc_congr (n : Nat) (c : List Gate) (hc : ∀ g, g ∈ c → g.WF n) (a b : PRow) (h : EqOn n a b) :
    EqOn n (actCirc c a) (actCirc c b) := by
  induction c generalizing a b with
  | nil => exact h
  | cons g rest ih =>
    simp only [actCirc, List.foldl] at ih ⊢
    exact ih (fun g' hg' => hc g' (List.mem_cons_of_mem _ hg')) _ _ ((g.isAut n (hc g List.mem_cons_self)).congr _ _ h)

/-- the reversed gate list with `P ↔ P_dag`, as executed by `run_circuit(reverse=True)` -/
def revCirc (c : List Gate) : List Gate := c.reverse.map Gate.rev

theorem revCirc_cancel (n : Nat) (c : List Gate) (hc : ∀ g, g ∈ c → g.WF n) (a : PRow) :
    EqOn n (actCirc (revCirc c) (actCirc c a)) a := by
  induction c generalizing a with
  | nil => exact EqOn.refl _ _
  | cons g rest ih =>
    have hrest : ∀ g', g' ∈ rest → g'.WF n := fun g' hg' => hc g' (List.mem_cons_of_mem _ hg')
    have hg := hc g List.mem_cons_self
    have e1 : actCirc (g :: rest) a = actCirc rest (g.act a) := rfl
    have e2 : revCirc (g :: rest) = revCirc rest ++ [g.rev] := by simp [revCirc]
    rw [e1, e2, actCirc_append]
    have := ih hrest (g.act a)
    exact ((g.rev.isAut n (Gate.rev_WF n g hg)).congr _ _ this).trans (Gate.rev_cancel n g hg a)

/-! ### the end of the synthesis: the all-|0⟩ tableau -/

theorem beqOn_eqOn (n : Nat) (a b : PRow) (h : PRow.beqOn n a b = true) : EqOn n a b := by
  unfold PRow.beqOn at h
  simp only [Bool.and_eq_true, List.all_eq_true, List.mem_range, beq_iff_eq] at h
  exact ⟨fun j hj => h.1.1 j hj, h.1.2, h.2⟩

theorem isZero_rows (t : STab) (hg : t.Good) (hz : t.isZero = true) (i : Nat) (hi : i < t.n) :
    EqOn t.n (t.row i) (PRow.Zq i) := by
  unfold STab.isZero at hz
  simp only [List.all_eq_true, List.mem_range] at hz
  have := beqOn_eqOn _ _ _ (hz i hi)
  rw [with_ip_false _ (hg.real i hi)] at this
  exact this

theorem isZero_spanEq (t : STab) (hg : t.Good) (hz : t.isZero = true) : SpanEq t (STab.zero t.n) := by
  apply spanEq_of_gens t (STab.zero t.n) rfl
  · intro i hi
    exact InSpan.eqv _ _ (spn_gen t i hi) (isZero_rows t hg hz i hi)
  · intro i hi
    exact InSpan.eqv _ _ (spn_gen (STab.zero t.n) i hi) (isZero_rows t hg hz i hi).symm

/-- the two halves of the tracking invariant for the value returned by `inverse_circuit` -/
theorem inverseCircuit_tracks (t t' : STab) (circ : List Gate) (hg : t.Good) (h : t.inverseCircuit = .ok (t', circ)) :
    t'.n = t.n ∧ t'.Good ∧ (∀ g, g ∈ circ → g.WF t.n) ∧
    (∀ a, t.Spn a → t'.Spn (actCirc circ a)) ∧
    (∀ b, t'.Spn b → ∃ a, t.Spn a ∧ EqOn t.n (actCirc circ a) b) := by
  obtain ⟨t0, s, hc, hs, e1, e2⟩ := inverseCircuit_eq t t' circ h
  obtain ⟨sc, g0⟩ := canonicalForm_spanEq t t0 hg hc
  have tr := tracks_invBlocks t0 g0 s hs
  have hn : t0.n = t.n := sc.n_eq.symm
  subst e1; subst e2
  refine ⟨tr.n_eq.trans hn, tr.good, fun g hgm => hn ▸ tr.wf g hgm, ?_, ?_⟩
  · intro a ha; exact tr.fwd a (sc.sub a ha)
  · intro b hb
    obtain ⟨a, ha, ea⟩ := tr.bwd b hb
    exact ⟨a, sc.sup a ha, hn ▸ ea⟩

end Graphiq
