/-
  Proofs/InvBridge.lean — from the postcondition of `canonical_form` (`Canon`, Proofs/CanonShape.lean) to the loop
  invariant of the first block of `inverse_circuit` (`Inv1 … 0`, Proofs/InvBlock1.lean).  All clauses are read off the two
  echelon invariants except `surj`: *for every column `q` that is not an X pivot column there is a set of x-free rows
  whose z-bits, restricted to the non-pivot columns, sum to the unit vector `e_q`*.

  Argument (all sizes): an x-free row commutes with every X-block pivot row, so its z-bit at the pivot column `px a`
  equals the parity over the non-pivot columns `c` of `x_a[c] ∧ z_i[c]`; hence a combination of x-free rows that vanishes
  on the non-pivot columns vanishes everywhere, hence (Z-block echelon shape) is the empty combination.  The `n × n`
  matrix whose rows `a < k` are the unit vectors `e_{px a}` and whose rows `i ≥ k` are the z-rows restricted to the non-pivot
  columns therefore has a trivial left kernel; `S ↦ S·B` is an injective self-map of the finite set of bit vectors, hence
  surjective (`Finite.surjective_of_injective` — the only use of Mathlib).
-/
import GraphiqModel.Proofs.InvBlock1
import Mathlib.Data.Fintype.Card
import Mathlib.Data.Fintype.Pi
namespace Graphiq
open PRow Tab
namespace STab

/-! ### GF(2) facts -/

/-- exchanging two parities -/
theorem parityTo_fubini (a b : Nat) (g : Nat → Nat → Bool) :
    parityTo a (fun i => parityTo b (fun j => g i j)) = parityTo b (fun j => parityTo a (fun i => g i j)) := by
  induction a with
  | zero => simp only [parityTo]; rw [parityTo_false]
  | succ k ih =>
    simp only [parityTo]
    rw [ih, ← parityTo_xor]

/-- a bit vector indexed by `Fin n`, read at a natural number -/
def extv {n : Nat} (S : Fin n → Bool) (i : Nat) : Bool := if h : i < n then S ⟨i, h⟩ else false

theorem extv_lt {n : Nat} (S : Fin n → Bool) (i : Nat) (h : i < n) : extv S i = S ⟨i, h⟩ := by
  unfold extv; rw [dif_pos h]

/-- **a square GF(2) matrix with trivial left kernel: every vector is a combination of its rows** (an injective self-map
    of the finite set of bit vectors of length `n` is surjective) -/
theorem gf2_rows_span (n : Nat) (B : Nat → Nat → Bool)
    (hker : ∀ S : Nat → Bool, (∀ c, c < n → parityTo n (fun i => S i && B i c) = false) → ∀ i, i < n → S i = false)
    (v : Nat → Bool) : ∃ S : Nat → Bool, ∀ c, c < n → parityTo n (fun i => S i && B i c) = v c := by
  let F : (Fin n → Bool) → (Fin n → Bool) := fun S c => parityTo n (fun i => extv S i && B i c)
  have hinj : Function.Injective F := by
    intro S S' h
    have hz := hker (fun i => xor (extv S i) (extv S' i)) (by
      intro c hc
      have e : ∀ i, i < n → (xor (extv S i) (extv S' i) && B i c) = xor (extv S i && B i c) (extv S' i && B i c) := by
        intro i _
        cases extv S i <;> cases extv S' i <;> cases B i c <;> rfl
      rw [parityTo_congr n _ _ e, parityTo_xor]
      have := congrFun h ⟨c, hc⟩
      simp only [F] at this
      rw [this]; simp)
    funext ⟨i, hi⟩
    have := hz i hi
    rw [extv_lt S i hi, extv_lt S' i hi] at this
    revert this
    cases S ⟨i, hi⟩ <;> cases S' ⟨i, hi⟩ <;> simp
  obtain ⟨S, hS⟩ := Finite.surjective_of_injective hinj (fun c => v c)
  refine ⟨extv S, fun c hc => ?_⟩
  have := congrFun hS ⟨c, hc⟩
  exact this

/-! ### the matrix of the bridge -/

/-- Boolean version of `IsPiv` -/
def pivB (k : Nat) (px : Nat → Nat) (c : Nat) : Bool := (List.range k).any fun a => px a == c

theorem pivB_iff (k : Nat) (px : Nat → Nat) (c : Nat) : pivB k px c = true ↔ IsPiv k px c := by
  unfold pivB IsPiv
  simp only [List.any_eq_true, List.mem_range, beq_iff_eq]

theorem pivB_false (k : Nat) (px : Nat → Nat) (c : Nat) (h : ¬ IsPiv k px c) : pivB k px c = false := by
  cases hh : pivB k px c
  · rfl
  · exact absurd ((pivB_iff k px c).1 hh) h

/-- rows `a < k`: the unit vector of the pivot column `px a`; rows `i ≥ k`: the z-bits on the non-pivot columns -/
def bridgeM (t : STab) (k : Nat) (px : Nat → Nat) (i c : Nat) : Bool :=
  if i < k then decide (c = px i) else (zb t i c && !pivB k px c)

section
variable (t : STab) (k : Nat) (px pz : Nat → Nat)

/-- a combination read at a pivot column is the coefficient of that pivot's unit row -/
theorem bridgeM_pivcol (hx : PInv t.n (xb t) px 0 k t.n) (S : Nat → Bool) (a : Nat) (ha : a < k) :
    parityTo t.n (fun i => S i && bridgeM t k px i (px a)) = S a := by
  have hk := hx.pr_le
  have e : ∀ i, i < t.n → (S i && bridgeM t k px i (px a)) = (decide (i = a) && S i) := by
    intro i _
    unfold bridgeM
    by_cases hi : i < k
    · rw [if_pos hi]
      by_cases hia : i = a
      · subst hia; simp
      · have : px a ≠ px i := by
          intro e
          rcases Nat.lt_or_gt_of_ne hia with h | h
          · have := hx.mono i a (Nat.zero_le _) h ha; omega
          · have := hx.mono a i (Nat.zero_le _) h hi; omega
        simp [hia, this]
    · rw [if_neg hi]
      have hp : pivB k px (px a) = true := (pivB_iff k px (px a)).2 ⟨a, ha, rfl⟩
      have hia : i ≠ a := by omega
      simp [hp, hia]
  rw [parityTo_congr t.n _ _ e, parityTo_single t.n a S (by omega)]

/-- at a non-pivot column, a combination without unit rows is the combination of the z-bits -/
theorem bridgeM_nonpiv (S : Nat → Bool) (hS : ∀ a, a < k → S a = false) (c : Nat) (hc : ¬ IsPiv k px c) :
    parityTo t.n (fun i => S i && bridgeM t k px i c) = parityTo t.n (fun i => S i && zb t i c) := by
  apply parityTo_congr
  intro i _
  unfold bridgeM
  by_cases hi : i < k
  · rw [hS i hi]; rfl
  · rw [if_neg hi, pivB_false k px c hc]; simp

/-- **the x-free rows are independent already on the non-pivot columns**: a combination of rows `≥ k` whose z-bits
    vanish on every column that is not an X pivot column is the empty combination -/
theorem zfree_indep (hg : t.Good) (hx : PInv t.n (xb t) px 0 k t.n) (hz : PInv t.n (zb t) pz k t.n t.n)
    (S : Nat → Bool) (hS : ∀ a, a < k → S a = false)
    (hv : ∀ c, c < t.n → ¬ IsPiv k px c → parityTo t.n (fun i => S i && zb t i c) = false) :
    ∀ i, i < t.n → S i = false := by
  have hk := hx.pr_le
  -- an x-free row commutes with the pivot row `a`: the parity of `x_a ∧ z_i` vanishes
  have hcomm : ∀ a i, a < k → k ≤ i → i < t.n → parityTo t.n (fun c => xb t a c && zb t i c) = false := by
    intro a i ha hki hi
    have := hg.comm a i (by omega) hi
    unfold sp at this
    rw [← this]
    apply parityTo_congr
    intro c hc
    have hx0 : (t.row i).x c = false := hx.below i c hki hi hc
    show ((t.row a).x c && (t.row i).z c) = _
    rw [hx0]; simp
  -- hence the combination vanishes at the pivot columns too
  have hpiv : ∀ a, a < k → parityTo t.n (fun i => S i && zb t i (px a)) = false := by
    intro a ha
    have hpa : px a < t.n := hx.piv_lt a (Nat.zero_le _) ha
    have e1 : parityTo t.n (fun c => xb t a c && parityTo t.n (fun i => S i && zb t i c))
        = parityTo t.n (fun i => S i && zb t i (px a)) := by
      have e : ∀ c, c < t.n → (xb t a c && parityTo t.n (fun i => S i && zb t i c))
          = (decide (c = px a) && parityTo t.n (fun i => S i && zb t i c)) := by
        intro c hc
        by_cases hcp : IsPiv k px c
        · obtain ⟨a', ha', e'⟩ := hcp
          by_cases haa : a' = a
          · subst haa; subst e'
            have : xb t a' (px a') = true := hx.piv_one a' (Nat.zero_le _) ha'
            rw [this]; simp
          · have h1 : xb t a c = false := by
              rw [← e']; exact hx.piv_clear a' a (Nat.zero_le _) ha' (by omega) (fun e => haa e.symm)
            have h2 : c ≠ px a := by
              intro e; rw [← e'] at e
              rcases Nat.lt_or_gt_of_ne haa with h | h
              · have := hx.mono a' a (Nat.zero_le _) h ha; omega
              · have := hx.mono a a' (Nat.zero_le _) h ha'; omega
            rw [h1]; simp [h2]
        · rw [hv c hc hcp]; simp
      rw [parityTo_congr t.n _ _ e, parityTo_single t.n (px a) _ hpa]
    rw [← e1]
    have e2 : ∀ c, c < t.n → (xb t a c && parityTo t.n (fun i => S i && zb t i c))
        = parityTo t.n (fun i => xb t a c && (S i && zb t i c)) := by
      intro c _; rw [parityTo_and_const]
    rw [parityTo_congr t.n _ _ e2, parityTo_fubini]
    apply parityTo_zero
    intro i hi
    by_cases hik : i < k
    · apply parityTo_zero; intro c _; rw [hS i hik]; simp
    · have e3 : ∀ c, c < t.n → (xb t a c && (S i && zb t i c)) = (S i && (xb t a c && zb t i c)) := by
        intro c _; cases xb t a c <;> cases S i <;> cases zb t i c <;> rfl
      rw [parityTo_congr t.n _ _ e3, parityTo_and_const, hcomm a i ha (by omega) hi]; simp
  -- so it vanishes at every column, and the Z-block echelon shape reads off the coefficients
  intro i hi
  by_cases hik : i < k
  · exact hS i hik
  · have hpz : pz i < t.n := hz.piv_lt i (by omega) hi
    have hc := hz.coef S i (by omega) hi
    rw [← hc]
    by_cases hcp : IsPiv k px (pz i)
    · obtain ⟨a, ha, e⟩ := hcp
      rw [← e]; exact hpiv a ha
    · exact hv (pz i) hpz hcp

/-- the bridge matrix has a trivial left kernel -/
theorem bridgeM_ker (hg : t.Good) (hx : PInv t.n (xb t) px 0 k t.n) (hz : PInv t.n (zb t) pz k t.n t.n)
    (S : Nat → Bool) (h : ∀ c, c < t.n → parityTo t.n (fun i => S i && bridgeM t k px i c) = false) :
    ∀ i, i < t.n → S i = false := by
  have hS : ∀ a, a < k → S a = false := by
    intro a ha
    rw [← bridgeM_pivcol t k px hx S a ha]
    exact h (px a) (hx.piv_lt a (Nat.zero_le _) ha)
  apply zfree_indep t k px pz hg hx hz S hS
  intro c hc hcp
  rw [← bridgeM_nonpiv t k px S hS c hcp]
  exact h c hc

/-- **the clause `surj` of the block-1 invariant holds on every `Canon` tableau** -/
theorem canon_surj (hg : t.Good) (hx : PInv t.n (xb t) px 0 k t.n) (hz : PInv t.n (zb t) pz k t.n t.n)
    (q : Nat) (hqp : ¬ IsPiv k px q) :
    ∃ S : Nat → Bool, (∀ a, a < k → S a = false) ∧
      ∀ c, c < t.n → ¬ IsPiv k px c → parityTo t.n (fun i => S i && zb t i c) = decide (c = q) := by
  obtain ⟨S, hS⟩ := gf2_rows_span t.n (bridgeM t k px) (bridgeM_ker t k px pz hg hx hz) (fun c => decide (c = q))
  have hS0 : ∀ a, a < k → S a = false := by
    intro a ha
    rw [← bridgeM_pivcol t k px hx S a ha, hS (px a) (hx.piv_lt a (Nat.zero_le _) ha)]
    have : px a ≠ q := fun e => hqp ⟨a, ha, e⟩
    simp [this]
  refine ⟨S, hS0, fun c hc hcp => ?_⟩
  rw [← bridgeM_nonpiv t k px S hS0 c hcp]
  exact hS c hc

end

/-! ### the bridge -/

/-- **`Canon` ∧ `Good` ⟹ the block-1 invariant at column 0** -/
theorem canon_inv1 (c : STab) (hc : Canon c) (hg : c.Good) : ∃ k px, Inv1 c.n k px c 0 := by
  obtain ⟨k, px, pz, hx, hz⟩ := hc
  have hk := hx.pr_le
  refine ⟨k, px, rfl, hg, fun a ha => hx.piv_lt a (Nat.zero_le _) ha, ?_, fun _ _ h => by omega, fun _ h => by omega,
    ?_, ?_, ?_⟩
  · intro a a' ha ha' e
    apply Classical.byContradiction; intro hne
    rcases Nat.lt_or_gt_of_ne hne with h | h
    · have := hx.mono a a' (Nat.zero_le _) h ha'; omega
    · have := hx.mono a' a (Nat.zero_le _) h ha; omega
  · intro a ha _
    exact ⟨a, Nat.zero_le _, by omega, hx.piv_one a (Nat.zero_le _) ha,
      fun m hm hne => hx.piv_clear a m (Nat.zero_le _) ha hm hne, fun c' hc' => hx.lead a c' (Nat.zero_le _) ha hc'⟩
  · intro i c' _ hi hc' hxb
    have hik : i < k := by
      apply Classical.byContradiction; intro hge
      rw [hx.below i c' (by omega) hi hc'] at hxb; cases hxb
    exact ⟨i, hik, Nat.zero_le _, hx.piv_one i (Nat.zero_le _) hik⟩
  · intro q _ _ hqp
    obtain ⟨S, hS0, hS⟩ := canon_surj c k px pz hg hx hz q hqp
    refine ⟨S, ?_, fun c' _ hc' hcp => hS c' hc' hcp⟩
    intro i hi hSi
    have hik : k ≤ i := by
      apply Classical.byContradiction; intro hlt
      rw [hS0 i (by omega)] at hSi; cases hSi
    exact ⟨Nat.zero_le _, fun c' hc' => hx.below i c' hik hi hc'⟩

/-- block 1 never raises on the canonical form of a state, and blocks 2–7 then end in |0…0⟩ -/
theorem invBlocks_complete (c : STab) (hc : Canon c) (hg : c.Good) :
    ∃ s, invBlocks c = .ok s ∧ s.t.isZero = true := by
  obtain ⟨k, px, hinv⟩ := canon_inv1 c hc hg
  obtain ⟨s1, e1, hn, hg1, hp1⟩ := invBlock1_post c k px hinv
  refine ⟨invRest c.n s1, by unfold invBlocks; rw [e1], ?_⟩
  have := invRest_isZero s1 hg1 hp1
  rw [hn] at this; exact this

/-- **completeness of `inverse_circuit`**: whenever `canonical_form` returns on a real commuting generating set (its
    final assert passes: the generators are independent), `inverse_circuit` returns — in particular the `z_list[-1]`
    IndexError is unreachable — and the tableau it returns is exactly |0…0⟩ -/
theorem inverseCircuit_complete_of_canon (t c : STab) (hg : t.Good) (hc : t.canonicalForm = .ok c) :
    ∃ t' circ, t.inverseCircuit = .ok (t', circ) ∧ t'.isZero = true := by
  obtain ⟨_, gc⟩ := canonicalForm_spanEq t c hg hc
  obtain ⟨s, e, hz⟩ := invBlocks_complete c (canonicalForm_canon t c hc) gc
  exact ⟨s.t, s.circ, by unfold STab.inverseCircuit; rw [hc]; simp only; rw [e], hz⟩

/-- whatever `inverse_circuit` returns on a real commuting generating set is |0…0⟩ -/
theorem inverseCircuit_isZero (t t' : STab) (circ : List Gate) (hg : t.Good) (h : t.inverseCircuit = .ok (t', circ)) :
    t'.isZero = true := by
  obtain ⟨t0, s, hc, hs, e1, _⟩ := inverseCircuit_eq t t' circ h
  obtain ⟨_, gc⟩ := canonicalForm_spanEq t t0 hg hc
  obtain ⟨s', e, hz⟩ := invBlocks_complete t0 (canonicalForm_canon t t0 hc) gc
  rw [hs] at e
  injection e with e
  rw [← e1, e]; exact hz

/-- the only error `inverse_circuit` can raise on a real commuting generating set is the final assert of
    `canonical_form` (dependent generators): never the IndexError of `z_list[-1]` -/
theorem inverseCircuit_error (t : STab) (hg : t.Good) (e : Err) (h : t.inverseCircuit = .error e) :
    t.canonicalForm = .error .assertion := by
  cases hc : t.canonicalForm with
  | error e' =>
    unfold canonicalForm at hc
    split at hc
    · cases hc
    · injection hc with hc; rw [← hc]
  | ok c =>
    obtain ⟨t', circ, h', _⟩ := inverseCircuit_complete_of_canon t c hg hc
    rw [h'] at h; cases h

end STab
end Graphiq
