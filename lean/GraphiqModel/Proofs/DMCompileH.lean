/-
  Proofs/DMCompileH.lean — the Hilbert-space semantics of the density-matrix backend's compile loop
  (`CompilerBase.compile` noise-free path + `DensityMatrixCompiler.compile_one_gate` + the `DensityMatrix` methods
  `apply_unitary`, `apply_measurement`, `apply_measurement_controlled_gate`, `apply_channel`) over complex matrices,
  and the theorem that ties it to the stabilizer backend's compile loop `stabRun`:

      dmRunH ne np d script ops = ρ(stabRun ne np d script ops)   with the same classical record,

  for every circuit, every register mix, every measurement setting and every script of drawn bits (`dmRunH_eq_stab`),
  by induction over the operation list (`dmStepH_stab` is the step).

  `dmStepH` mirrors `compile_one_gate` branch by branch:
    * one-qubit gates     : `apply_unitary(get_one_qubit_gate(n, q, u))`, nothing for `Identity`;
    * CNOT / CZ           : `apply_unitary(get_two_qubit_controlled_gate(n, c, t, u))`
                            (`ValueError` for equal positions);
    * classical CNOT / CZ : `apply_measurement_controlled_gate(projectors_zbasis(n, c), get_one_qubit_gate(n, t, u))`,
                            then `classical_registers[creg] = outcome`;
    * measure-CNOT-reset  : the same with `u = X`, the register write, then `apply_channel(get_reset_qubit_kraus(n, c))`;
    * Z measurement       : `apply_measurement(projectors_zbasis(n, q))`, register write;
    * one-qubit wrapper   : its gates in reversed list order (`sequence(unwrapped=True)`).
-/
import GraphiqModel.Proofs.HilbertBridgeOps
import GraphiqModel.Proofs.Circuit
namespace Graphiq
namespace DMH
open Hilbert Matrix PRow

/-- state of the density-matrix compile loop: the matrix and the classical bookkeeping of `RunState` -/
structure HState (n : Nat) where
  ρ : DMat n
  writes : List (Nat × Bool)
  script : List Bool
  rand : List Bool
  outs : List Bool

/-- the density-matrix-side picture of a stabilizer run state -/
noncomputable def hstate (n : Nat) (s : RunState) : HState n :=
  { ρ := tabRho n s.t, writes := s.writes, script := s.script, rand := s.rand, outs := s.outs }

/-- one generator of the one-qubit alphabet: `Identity` is skipped, the others are `apply_unitary` of the embedded 2×2
    matrix of functions.py -/
noncomputable def gen1H (n : Nat) (ρ : DMat n) (g : Cliff.Gen) (q : Nat) : DMat n :=
  match g with
  | .I => ρ
  | .H => applyUnitary ρ (oneQ n q hadamardM)
  | .P => applyUnitary ρ (oneQ n q phaseM)
  | .X => applyUnitary ρ (oneQ n q sigmaX)
  | .Y => applyUnitary ρ (oneQ n q sigmaY)
  | .Z => applyUnitary ρ (oneQ n q sigmaZ)

namespace HState
variable {n : Nat}

/-- `state.apply_measurement(projectors_zbasis(n, q), determinism)` with the bookkeeping of the run -/
noncomputable def measure (s : HState n) (d : Det) (q : Nat) : HState n × Bool :=
  let m := measureH s.ρ (projZ n q false) (projZ n q true) d s.script
  ({ s with ρ := m.1, script := m.2.2.1, rand := s.rand ++ [m.2.2.2], outs := s.outs ++ [m.2.1] }, m.2.1)

/-- `if outcome == 1: self.apply_unitary(target_gate)` -/
noncomputable def condU (s : HState n) (b : Bool) (U : DMat n) : HState n :=
  { s with ρ := if b then applyUnitary s.ρ U else s.ρ }

/-- `classical_registers[creg] = outcome` -/
def write (s : HState n) (creg : Nat) (out : Bool) : HState n := { s with writes := s.writes ++ [(creg, out)] }

/-- `state.apply_channel(get_reset_qubit_kraus(n, q))` -/
noncomputable def reset (s : HState n) (q : Nat) : HState n := { s with ρ := applyChannel s.ρ (resetKraus n q) }

end HState

/-- one operation of `DensityMatrixCompiler.compile_one_gate`; `none` = a qubit index out of range or equal control and
    target of a unitary two-qubit gate (the Python raises) -/
noncomputable def dmStepH (np n : Nat) (d : Det) (s : HState n) (op : COp) : Option (HState n) :=
  let ix := qIndex np
  match op with
  | .gate1 g q => if ix q < n then some { s with ρ := gen1H n s.ρ g (ix q) } else none
  | .pdag q => if ix q < n then some { s with ρ := applyUnitary s.ρ (oneQ n (ix q) phaseDagM) } else none
  | .cnot c t =>
    if ix c < n ∧ ix t < n then
      (if ix c = ix t then none else some { s with ρ := applyUnitary s.ρ (ctrlG n (ix c) (ix t) sigmaX) })
    else none
  | .cz c t =>
    if ix c < n ∧ ix t < n then
      (if ix c = ix t then none else some { s with ρ := applyUnitary s.ρ (ctrlG n (ix c) (ix t) sigmaZ) })
    else none
  | .ccx c t creg =>
    if ix c < n ∧ ix t < n then
      let m := s.measure d (ix c)
      some ((m.1.condU m.2 (oneQ n (ix t) sigmaX)).write creg m.2)
    else none
  | .ccz c t creg =>
    if ix c < n ∧ ix t < n then
      let m := s.measure d (ix c)
      some ((m.1.condU m.2 (oneQ n (ix t) sigmaZ)).write creg m.2)
    else none
  | .mcr c t creg =>
    if ix c < n ∧ ix t < n then
      let m := s.measure d (ix c)
      some (((m.1.condU m.2 (oneQ n (ix t) sigmaX)).write creg m.2).reset (ix c))
    else none
  | .measz q creg =>
    if ix q < n then
      let m := s.measure d (ix q)
      some (m.1.write creg m.2)
    else none
  | .wrap gs q =>
    if ix q < n then some { s with ρ := gs.reverse.foldl (fun ρ g => gen1H n ρ g (ix q)) s.ρ } else none

/-- `create_n_product_state(n, state_ketz0())` : `|0…0⟩⟨0…0|` -/
noncomputable def ket0H (n : Nat) : DMat n :=
  Matrix.of fun a b => if a = (fun _ => false) ∧ b = (fun _ => false) then 1 else 0

/-- the compile loop from a given initial density matrix (`compile(circuit, initial_state=…)`) -/
noncomputable def dmRunFromH {n : Nat} (ρ0 : DMat n) (np : Nat) (d : Det) (script : List Bool) (ops : List COp) :
    Option (HState n) :=
  ops.foldlM (dmStepH np n d) { ρ := ρ0, writes := [], script := script, rand := [], outs := [] }

/-- the compile loop on the all-`|0⟩` state -/
noncomputable def dmRunH (ne np : Nat) (d : Det) (script : List Bool) (ops : List COp) : Option (HState (ne + np)) :=
  dmRunFromH (ket0H (ne + np)) np d script ops

/-! ### the steps -/

theorem tabRho_norm_of (n : Nat) (u : Tab) (hu : u.n = n) : tabRho n u.norm = tabRho n u := by
  subst hu; exact tabRho_norm u

/-- one generator: the density-matrix step is the tableau step -/
theorem gen1H_tab (t : Tab) (hv : t.Valid) (q : Nat) (hq : q < t.n) (g : Cliff.Gen) :
    gen1H t.n (tabRho t.n t) g q = tabRho t.n (gen1 t g q) := by
  cases g with
  | I => rfl
  | H =>
    show applyUnitary _ (oneQ t.n q hadamardM) = _
    rw [hadamard_gate]; exact applyUnitary_gate t hv (Gate.H q) hq
  | P => exact applyUnitary_gate t hv (Gate.P q) hq
  | X => exact applyUnitary_gate t hv (Gate.X q) hq
  | Y => exact applyUnitary_gate t hv (Gate.Y q) hq
  | Z => exact applyUnitary_gate t hv (Gate.Z q) hq

theorem gen1H_foldl_tab (n q : Nat) (hq : q < n) (gs : List Cliff.Gen) :
    ∀ t : Tab, t.n = n → t.Valid →
      gs.foldl (fun ρ g => gen1H n ρ g q) (tabRho n t) = tabRho n (gs.foldl (fun t g => gen1 t g q) t) := by
  induction gs with
  | nil => intro t _ _; rfl
  | cons g rest ih =>
    intro t hn hv
    simp only [List.foldl]
    have h1 : gen1H n (tabRho n t) g q = tabRho n (gen1 t g q) := by
      subst hn; exact gen1H_tab t hv q hq g
    rw [h1]
    exact ih (gen1 t g q) ((gen1_n t g q).trans hn) (gen1_valid t g q (hn ▸ hq) hv)

/-- the measurement step with its bookkeeping -/
theorem hmeasure_tab (s : RunState) (hv : s.t.Valid) (hr : s.t.StabReal) (d : Det) (q : Nat) (hq : q < s.t.n) :
    (hstate s.t.n s).measure d q = (hstate s.t.n (s.measure d q).1, (s.measure d q).2) := by
  have h := measureH_tab s hv hr d q hq
  unfold HState.measure
  simp only [hstate]
  rw [h]
  simp only [RunState.measure]

theorem condX_tab (n : Nat) (s : RunState) (hn : s.t.n = n) (hv : s.t.Valid) (b : Bool) (q : Nat) (hq : q < n) :
    (hstate n s).condU b (oneQ n q sigmaX) = hstate n (s.condX b q) := by
  subst hn
  cases b
  · rfl
  · simp only [HState.condU, hstate, RunState.condX, if_true]
    congr 1
    rw [tabRho_norm_of s.t.n (s.t.xGate q) rfl]
    exact applyUnitary_gate s.t hv (Gate.X q) hq

theorem condZ_tab (n : Nat) (s : RunState) (hn : s.t.n = n) (hv : s.t.Valid) (b : Bool) (q : Nat) (hq : q < n) :
    (hstate n s).condU b (oneQ n q sigmaZ) = hstate n (s.condZ b q) := by
  subst hn
  cases b
  · rfl
  · simp only [HState.condU, hstate, RunState.condZ, if_true]
    congr 1
    rw [tabRho_norm_of s.t.n (s.t.zGate q) rfl]
    exact applyUnitary_gate s.t hv (Gate.Z q) hq

theorem measure_stabReal (s : RunState) (hv : s.t.Valid) (hr : s.t.StabReal) (d : Det) (q : Nat) :
    (s.measure d q).1.t.StabReal := by
  unfold RunState.measure
  exact norm_stabReal _ (zMeasure_stabReal' s.t q _ hv hr)

theorem condX_stabReal (s : RunState) (hr : s.t.StabReal) (b : Bool) (q : Nat) : (s.condX b q).t.StabReal := by
  cases b
  · exact hr
  · exact norm_stabReal _ (gate_stabReal s.t (Gate.X q) hr)

theorem condZ_stabReal (s : RunState) (hr : s.t.StabReal) (b : Bool) (q : Nat) : (s.condZ b q).t.StabReal := by
  cases b
  · exact hr
  · exact norm_stabReal _ (gate_stabReal s.t (Gate.Z q) hr)

/-- after measuring `c` and the conditional `X` on `t` (equal positions allowed) qubit `c` still has a definite Z value -/
theorem pivot_after_condX (s : RunState) (hv : s.t.Valid) (hr : s.t.StabReal) (d : Det) (c t : Nat)
    (hc : c < s.t.n) (ht : t < s.t.n) :
    (((s.measure d c).1.condX (s.measure d c).2 t).t).pivot c = none := by
  have hok1 := measure_ok s.t.n s d c hc ⟨hv, rfl⟩
  have hr1 := measure_stabReal s hv hr d c
  have hfix := measure_fixes s hv hr d c hc
  generalize (s.measure d c).1 = s1 at hok1 hr1 hfix
  generalize (s.measure d c).2 = o at hfix
  obtain ⟨hv1, hn1⟩ := hok1
  have hok2 := condX_ok s.t.n s1 o t ht ⟨hv1, hn1⟩
  have hr2 := condX_stabReal s1 hr1 o t
  have hρ2 := condX_tab s.t.n s1 hn1 hv1 o t ht
  have hρ2' : tabRho s.t.n (s1.condX o t).t = if o then applyUnitary (tabRho s.t.n s1.t) (oneQ s.t.n t sigmaX)
      else tabRho s.t.n s1.t := by
    have := congrArg HState.ρ hρ2
    exact this.symm
  have hn2 : (s1.condX o t).t.n = s.t.n := hok2.2
  -- a projector of qubit c fixes the state
  have key : ∃ s' : Bool, proj s.t.n (Zq c s') * tabRho s.t.n (s1.condX o t).t = tabRho s.t.n (s1.condX o t).t := by
    cases o with
    | false =>
      refine ⟨false, ?_⟩
      rw [hρ2']; exact hfix
    | true =>
      have hherm : (tabRho s.t.n s1.t)ᴴ = tabRho s.t.n s1.t := by
        have := tabRho_hermitian s1.t hv1
        rw [hn1] at this; exact this
      have hX : (pauliMat s.t.n (Xq t))ᴴ = pauliMat s.t.n (Xq t) := pauliMat_hermitian _ _ rfl
      have hU : applyUnitary (tabRho s.t.n s1.t) (oneQ s.t.n t sigmaX)
          = pauliMat s.t.n (Xq t) * tabRho s.t.n s1.t * pauliMat s.t.n (Xq t) := by
        rw [applyUnitary_of_hermitian _ _ hherm, oneQ_sigmaX _ _ ht, hX]
      rw [hρ2']
      simp only [if_true]
      rw [hU]
      by_cases hct : c = t
      · subst hct
        refine ⟨false, ?_⟩
        rw [← Matrix.mul_assoc, ← Matrix.mul_assoc, proj_Zq_mul_Xq _ _ hc false, Matrix.mul_assoc (pauliMat _ _),
          show (!false) = true from rfl, hfix]
      · refine ⟨true, ?_⟩
        rw [← Matrix.mul_assoc, ← Matrix.mul_assoc, proj_Zq_comm_Xq _ _ _ hc hct true, Matrix.mul_assoc (pauliMat _ _),
          hfix]
  obtain ⟨s', hs'⟩ := key
  have := pivot_none_of_fixed (s1.condX o t).t hok2.1 hr2 c (by rw [hn2]; exact hc) s' (by rw [hn2]; exact hs')
  exact this

/-- the reset step of measure-and-reset -/
theorem reset_tab (n : Nat) (s : RunState) (hn : s.t.n = n) (hv : s.t.Valid) (hr : s.t.StabReal) (d : Det) (q : Nat)
    (hq : q < n) (hp : s.t.pivot q = none) : (hstate n s).reset q = hstate n (s.resetQ d q) := by
  subst hn
  have hscr : (s.offer d (s.t.pivot q).isSome).2 = s.script := by
    rw [hp]; cases d <;> rfl
  simp only [HState.reset, hstate, RunState.resetQ]
  rw [hscr, tabRho_norm_of _ _ (Tab.resetZ_n s.t q false _), resetChannel_det s.t hv hr q hq hp]

/-! ### one operation -/

/-- the invariant carried through the run -/
def RunInv (n : Nat) (s : RunState) : Prop := s.t.Valid ∧ s.t.n = n ∧ s.t.StabReal

theorem resetQ_stabReal (s : RunState) (hr : s.t.StabReal) (d : Det) (q : Nat) (hp : s.t.pivot q = none) :
    (s.resetQ d q).t.StabReal := by
  unfold RunState.resetQ
  apply norm_stabReal
  cases hrr : (s.t.measScratch q).r with
  | false =>
    have e : ∀ o, s.t.resetZ q false o = s.t := by intro o; simp [Tab.resetZ, Tab.zMeasure, hp, hrr]
    rw [e]; exact hr
  | true =>
    have e : ∀ o, s.t.resetZ q false o = s.t.xGate q := by intro o; simp [Tab.resetZ, Tab.zMeasure, hp, hrr]
    rw [e]; exact gate_stabReal s.t (Gate.X q) hr

theorem gen1_stabReal (t : Tab) (g : Cliff.Gen) (q : Nat) (hr : t.StabReal) : (gen1 t g q).StabReal := by
  cases g with
  | I => exact hr
  | H => exact gate_stabReal t (Gate.H q) hr
  | P => exact gate_stabReal t (Gate.P q) hr
  | X => exact gate_stabReal t (Gate.X q) hr
  | Y => exact gate_stabReal t (Gate.Y q) hr
  | Z => exact gate_stabReal t (Gate.Z q) hr

theorem gen1_foldl_stabReal (gs : List Cliff.Gen) (q : Nat) :
    ∀ t : Tab, t.StabReal → (gs.foldl (fun t g => gen1 t g q) t).StabReal := by
  induction gs with
  | nil => intro t h; exact h
  | cons g rest ih => intro t h; exact ih _ (gen1_stabReal t g q h)

/-- every operation keeps the stabilizer rows real -/
theorem stepOp_stabReal (np n : Nat) (d : Det) (s s' : RunState) (op : COp) (h : RunInv n s)
    (hs : stepOp np n d s op = some s') : s'.t.StabReal := by
  obtain ⟨hv, hn, hr⟩ := h
  subst hn
  cases op with
  | gate1 g q =>
    simp only [stepOp] at hs
    split at hs
    · injection hs with hs; rw [← hs]; exact norm_stabReal _ (gen1_stabReal s.t g _ hr)
    · cases hs
  | pdag q =>
    simp only [stepOp] at hs
    split at hs
    · injection hs with hs; rw [← hs]; exact norm_stabReal _ (gate_stabReal s.t (Gate.Pdag _) hr)
    · cases hs
  | cnot c t =>
    simp only [stepOp] at hs
    split at hs
    · injection hs with hs; rw [← hs]; exact norm_stabReal _ (gate_stabReal s.t (Gate.CNOT _ _) hr)
    · cases hs
  | cz c t =>
    simp only [stepOp] at hs
    split at hs
    · injection hs with hs; rw [← hs]; exact norm_stabReal _ (gate_stabReal s.t (Gate.CZ _ _) hr)
    · cases hs
  | ccx c t creg =>
    simp only [stepOp] at hs
    split at hs
    · injection hs with hs; rw [← hs]
      exact condX_stabReal _ (measure_stabReal s hv hr d _) _ _
    · cases hs
  | ccz c t creg =>
    simp only [stepOp] at hs
    split at hs
    · injection hs with hs; rw [← hs]
      exact condZ_stabReal _ (measure_stabReal s hv hr d _) _ _
    · cases hs
  | mcr c t creg =>
    simp only [stepOp] at hs
    split at hs
    · next hq =>
      injection hs with hs; rw [← hs]
      exact resetQ_stabReal _ (condX_stabReal _ (measure_stabReal s hv hr d _) _ _) d _
        (pivot_after_condX s hv hr d _ _ hq.1 hq.2)
    · cases hs
  | measz q creg =>
    simp only [stepOp] at hs
    split at hs
    · injection hs with hs; rw [← hs]
      exact measure_stabReal s hv hr d _
    · cases hs
  | wrap gs q =>
    simp only [stepOp] at hs
    split at hs
    · injection hs with hs; rw [← hs]
      exact norm_stabReal _ (gen1_foldl_stabReal gs.reverse _ s.t hr)
    · cases hs

theorem stepOp_inv (np n : Nat) (d : Det) (s s' : RunState) (op : COp) (hwf : op.WF np) (h : RunInv n s)
    (hs : stepOp np n d s op = some s') : RunInv n s' := by
  have hok := stepOp_ok np n d s s' op hwf ⟨h.1, h.2.1⟩ hs
  exact ⟨hok.1, hok.2, stepOp_stabReal np n d s s' op h hs⟩

/-- **One operation.**  From the density matrix of the current tableau, the density-matrix backend's step returns the
    density matrix of the stabilizer backend's next tableau, with the same writes, script, randomness log and outcomes. -/
theorem dmStepH_stab (np n : Nat) (d : Det) (s s' : RunState) (op : COp) (hwf : op.WF np) (h : RunInv n s)
    (hs : stepOp np n d s op = some s') : dmStepH np n d (hstate n s) op = some (hstate n s') := by
  obtain ⟨hv, hn, hr⟩ := h
  subst hn
  have hgate : ∀ (g : Gate), g.WF s.t.n →
      applyUnitary (tabRho s.t.n s.t) (gateMat s.t.n g) = tabRho s.t.n (s.t.map g.act).norm := by
    intro g hg
    rw [tabRho_norm_of s.t.n (s.t.map g.act) rfl]
    exact applyUnitary_gate s.t hv g hg
  cases op with
  | gate1 g q =>
    simp only [stepOp] at hs
    simp only [dmStepH]
    split at hs
    · next hq =>
      injection hs with hs; rw [← hs, if_pos hq]
      simp only [hstate]
      rw [gen1H_tab s.t hv _ hq g, tabRho_norm_of _ _ (gen1_n s.t g _)]
    · cases hs
  | pdag q =>
    simp only [stepOp] at hs
    simp only [dmStepH]
    split at hs
    · next hq =>
      injection hs with hs; rw [← hs, if_pos hq]
      simp only [hstate]
      rw [show oneQ s.t.n (qIndex np q) phaseDagM = gateMat s.t.n (Gate.Pdag (qIndex np q)) from rfl, hgate (Gate.Pdag (qIndex np q)) hq]
      rfl
    · cases hs
  | cnot c t =>
    simp only [stepOp] at hs
    simp only [dmStepH]
    split at hs
    · next hq =>
      injection hs with hs; rw [← hs, if_pos hq, if_neg hwf]
      simp only [hstate]
      rw [ctrlG_eq _ _ _ hq.1 hq.2 hwf,
        show ctrlQ s.t.n (qIndex np c) (qIndex np t) sigmaX = gateMat s.t.n (Gate.CNOT (qIndex np c) (qIndex np t)) from rfl,
        hgate (Gate.CNOT (qIndex np c) (qIndex np t)) ⟨hq.1, hq.2, hwf⟩]
      rfl
    · cases hs
  | cz c t =>
    simp only [stepOp] at hs
    simp only [dmStepH]
    split at hs
    · next hq =>
      injection hs with hs; rw [← hs, if_pos hq, if_neg hwf]
      simp only [hstate]
      rw [ctrlG_eq _ _ _ hq.1 hq.2 hwf,
        show ctrlQ s.t.n (qIndex np c) (qIndex np t) sigmaZ = gateMat s.t.n (Gate.CZ (qIndex np c) (qIndex np t)) from rfl,
        hgate (Gate.CZ (qIndex np c) (qIndex np t)) ⟨hq.1, hq.2, hwf⟩]
      rfl
    · cases hs
  | ccx c t creg =>
    simp only [stepOp] at hs
    simp only [dmStepH]
    split at hs
    · next hq =>
      injection hs with hs; rw [← hs, if_pos hq]
      have hok1 := measure_ok s.t.n s d _ hq.1 ⟨hv, rfl⟩
      simp only [hmeasure_tab s hv hr d _ hq.1]
      rw [condX_tab s.t.n _ hok1.2 hok1.1 _ _ hq.2]
      rfl
    · cases hs
  | ccz c t creg =>
    simp only [stepOp] at hs
    simp only [dmStepH]
    split at hs
    · next hq =>
      injection hs with hs; rw [← hs, if_pos hq]
      have hok1 := measure_ok s.t.n s d _ hq.1 ⟨hv, rfl⟩
      simp only [hmeasure_tab s hv hr d _ hq.1]
      rw [condZ_tab s.t.n _ hok1.2 hok1.1 _ _ hq.2]
      rfl
    · cases hs
  | mcr c t creg =>
    simp only [stepOp] at hs
    simp only [dmStepH]
    split at hs
    · next hq =>
      injection hs with hs; rw [← hs, if_pos hq]
      have hok1 := measure_ok s.t.n s d _ hq.1 ⟨hv, rfl⟩
      have hr1 := measure_stabReal s hv hr d (qIndex np c)
      have hok2 := condX_ok s.t.n _ (s.measure d (qIndex np c)).2 _ hq.2 hok1
      have hr2 := condX_stabReal _ hr1 (s.measure d (qIndex np c)).2 (qIndex np t)
      have hp := pivot_after_condX s hv hr d _ _ hq.1 hq.2
      simp only [hmeasure_tab s hv hr d _ hq.1]
      rw [condX_tab s.t.n _ hok1.2 hok1.1 _ _ hq.2]
      have hw : (hstate s.t.n ((s.measure d (qIndex np c)).1.condX (s.measure d (qIndex np c)).2 (qIndex np t))).write creg
          (s.measure d (qIndex np c)).2
          = hstate s.t.n (((s.measure d (qIndex np c)).1.condX (s.measure d (qIndex np c)).2 (qIndex np t)).write creg
              (s.measure d (qIndex np c)).2) := rfl
      rw [hw, reset_tab s.t.n (((s.measure d (qIndex np c)).1.condX (s.measure d (qIndex np c)).2 (qIndex np t)).write creg
        (s.measure d (qIndex np c)).2) hok2.2 hok2.1 hr2 d _ hq.1 hp]
    · cases hs
  | measz q creg =>
    simp only [stepOp] at hs
    simp only [dmStepH]
    split at hs
    · next hq =>
      injection hs with hs; rw [← hs, if_pos hq]
      simp only [hmeasure_tab s hv hr d _ hq]
      rfl
    · cases hs
  | wrap gs q =>
    simp only [stepOp] at hs
    simp only [dmStepH]
    split at hs
    · next hq =>
      injection hs with hs; rw [← hs, if_pos hq]
      simp only [hstate]
      rw [gen1H_foldl_tab s.t.n _ hq gs.reverse s.t rfl hv,
        tabRho_norm_of _ _ (gen1_foldl_valid gs.reverse s.t _ hq hv).2]
    · cases hs

/-! ### the whole run -/

theorem dmFoldH_stab (np n : Nat) (d : Det) (ops : List COp) (hwf : ∀ op, op ∈ ops → op.WF np) :
    ∀ (s s' : RunState), RunInv n s → ops.foldlM (stepOp np n d) s = some s' →
      ops.foldlM (dmStepH np n d) (hstate n s) = some (hstate n s') := by
  induction ops with
  | nil =>
    intro s s' _ hs
    simp only [List.foldlM] at hs ⊢
    injection hs with hs
    rw [hs]; rfl
  | cons op rest ih =>
    intro s s' hinv hs
    simp only [List.foldlM] at hs ⊢
    cases h1 : stepOp np n d s op with
    | none => rw [h1] at hs; simp at hs
    | some s1 =>
      rw [h1] at hs
      simp only [Option.bind_eq_bind, Option.bind_some] at hs
      rw [dmStepH_stab np n d s s1 op (hwf op List.mem_cons_self) hinv h1]
      simp only [Option.bind_eq_bind, Option.bind_some]
      exact ih (fun o ho => hwf o (List.mem_cons_of_mem _ ho)) s1 s'
        (stepOp_inv np n d s s1 op (hwf op List.mem_cons_self) hinv h1) hs

/-- the all-`|0⟩` density matrix is the state of `CliffordTableau(n)` -/
theorem ket0H_eq (n : Nat) : ket0H n = tabRho n (Tab.ket0 n) := by
  unfold tabRho
  rw [rho_ket0]
  ext a b
  rw [rho_zero]
  rfl

theorem ket0_inv (n : Nat) : RunInv n { t := Tab.ket0 n, writes := [], script := [], rand := [], outs := [] } :=
  ⟨Tab.ket0_valid n, rfl, ket0_stabReal n⟩

/-- **Backend agreement from any valid initial tableau** (`compile(circuit, initial_state=…)`): started on `ρ(t0)`, the
    density-matrix compile loop ends in `ρ` of the tableau the stabilizer compile loop ends in, with the same record. -/
theorem dmRunFromH_eq_stab (t0 : Tab) (hv : t0.Valid) (hr : t0.StabReal) (np : Nat) (d : Det) (script : List Bool)
    (ops : List COp) (hwf : ∀ op, op ∈ ops → op.WF np) (s : RunState) (h : stabRunFrom t0 np d script ops = some s) :
    dmRunFromH (tabRho t0.n t0) np d script ops = some (hstate t0.n s) := by
  unfold stabRunFrom at h
  exact dmFoldH_stab np t0.n d ops hwf _ s ⟨hv, rfl, hr⟩ h

/-- **Backend agreement.**  For every circuit over the whole operation alphabet, every register mix, every measurement
    setting and every script of drawn bits: whenever the stabilizer compile loop returns the run state `s`, the
    density-matrix compile loop returns the density matrix `ρ(s.t) = ∏ (1 + g_i)/2` of its tableau, the same register
    writes, the same remaining script, the same list of outcomes (and the outcomes it could draw with positive
    probability are exactly those the tableau calls random). -/
theorem dmRunH_eq_stab (ne np : Nat) (d : Det) (script : List Bool) (ops : List COp)
    (hwf : ∀ op, op ∈ ops → op.WF np) (s : RunState) (h : stabRun ne np d script ops = some s) :
    dmRunH ne np d script ops = some (hstate (ne + np) s) := by
  unfold stabRun at h
  unfold dmRunH
  rw [ket0H_eq]
  exact dmRunFromH_eq_stab (Tab.ket0 (ne + np)) (Tab.ket0_valid _) (ket0_stabReal _) np d script ops hwf s h

/-! ### the failing runs agree too -/

/-- where the stabilizer step rejects an operation (a qubit index out of range) the density-matrix step does too -/
theorem dmStepH_none (np n : Nat) (d : Det) (s : RunState) (h : HState n) (op : COp)
    (hs : stepOp np n d s op = none) : dmStepH np n d h op = none := by
  cases op <;> simp only [stepOp] at hs <;> simp only [dmStepH] <;> split at hs <;>
    first
    | (rename_i hq; rw [if_neg hq])
    | cases hs

theorem dmFoldH_map (np n : Nat) (d : Det) (ops : List COp) (hwf : ∀ op, op ∈ ops → op.WF np) :
    ∀ (s : RunState), RunInv n s →
      ops.foldlM (dmStepH np n d) (hstate n s) = (ops.foldlM (stepOp np n d) s).map (hstate n) := by
  induction ops with
  | nil => intro s _; rfl
  | cons op rest ih =>
    intro s hinv
    simp only [List.foldlM]
    cases h1 : stepOp np n d s op with
    | none =>
      rw [dmStepH_none np n d s _ op h1]
      rfl
    | some s1 =>
      rw [dmStepH_stab np n d s s1 op (hwf op List.mem_cons_self) hinv h1]
      simp only [Option.bind_eq_bind, Option.bind_some]
      exact ih (fun o ho => hwf o (List.mem_cons_of_mem _ ho)) s1
        (stepOp_inv np n d s s1 op (hwf op List.mem_cons_self) hinv h1)

/-- **Backend agreement, total form**: the two compile loops fail on the same circuits (an index out of range) and
    otherwise `dmRunH = ρ(stabRun)` with the same record. -/
theorem dmRunH_eq_map (ne np : Nat) (d : Det) (script : List Bool) (ops : List COp)
    (hwf : ∀ op, op ∈ ops → op.WF np) :
    dmRunH ne np d script ops = (stabRun ne np d script ops).map (hstate (ne + np)) := by
  unfold stabRun stabRunFrom dmRunH dmRunFromH
  rw [ket0H_eq]
  exact dmFoldH_map np (ne + np) d ops hwf
    { t := Tab.ket0 (ne + np), writes := [], script := script, rand := [], outs := [] }
    ⟨Tab.ket0_valid _, rfl, ket0_stabReal _⟩

/-- an operation whose qubit indices are in range -/
def COp.InRange (np n : Nat) : COp → Prop
  | .gate1 _ q | .pdag q | .measz q _ | .wrap _ q => qIndex np q < n
  | .cnot c t | .cz c t | .ccx c t _ | .ccz c t _ | .mcr c t _ => qIndex np c < n ∧ qIndex np t < n

theorem stepOp_isSome (np n : Nat) (d : Det) (s : RunState) (op : COp) (h : COp.InRange np n op) :
    ∃ s', stepOp np n d s op = some s' := by
  cases op <;> simp only [COp.InRange] at h <;> simp only [stepOp, h, if_true, and_self] <;> exact ⟨_, rfl⟩

/-- the stabilizer compile loop returns on every circuit whose indices are in range -/
theorem stabFold_total (np n : Nat) (d : Det) (ops : List COp) (h : ∀ op, op ∈ ops → COp.InRange np n op) :
    ∀ s : RunState, ∃ s', ops.foldlM (stepOp np n d) s = some s' := by
  induction ops with
  | nil => intro s; exact ⟨s, rfl⟩
  | cons op rest ih =>
    intro s
    obtain ⟨s1, h1⟩ := stepOp_isSome np n d s op (h op List.mem_cons_self)
    obtain ⟨s2, h2⟩ := ih (fun o ho => h o (List.mem_cons_of_mem _ ho)) s1
    refine ⟨s2, ?_⟩
    simp only [List.foldlM, h1, Option.bind_eq_bind, Option.bind_some]
    exact h2

/-! ### consequences for the matrix the density-matrix backend returns -/

/-- the final matrix is a pure stabilizer state: Hermitian, idempotent, trace 1 -/
theorem hstate_pure (n : Nat) (s : RunState) (h : RunInv n s) :
    ((hstate n s).ρ)ᴴ = (hstate n s).ρ ∧ (hstate n s).ρ * (hstate n s).ρ = (hstate n s).ρ ∧
    Matrix.trace (hstate n s).ρ = 1 := by
  obtain ⟨hv, hn, _⟩ := h
  subst hn
  exact ⟨tabRho_hermitian s.t hv, tabRho_idem s.t hv, tabRho_trace s.t hv⟩

theorem stabRun_inv (ne np : Nat) (d : Det) (script : List Bool) (ops : List COp)
    (hwf : ∀ op, op ∈ ops → op.WF np) (s : RunState) (h : stabRun ne np d script ops = some s) :
    RunInv (ne + np) s := by
  unfold stabRun stabRunFrom at h
  have key : ∀ (ops : List COp), (∀ op, op ∈ ops → op.WF np) → ∀ s0 s1 : RunState, RunInv (ne + np) s0 →
      ops.foldlM (stepOp np (ne + np) d) s0 = some s1 → RunInv (ne + np) s1 := by
    intro ops
    induction ops with
    | nil => intro _ s0 s1 h0 hs; simp only [List.foldlM] at hs; injection hs with hs; rw [← hs]; exact h0
    | cons op rest ih =>
      intro hw s0 s1 h0 hs
      simp only [List.foldlM] at hs
      cases h1 : stepOp np (ne + np) d s0 op with
      | none => rw [h1] at hs; simp at hs
      | some s' =>
        rw [h1] at hs
        simp only [Option.bind_eq_bind, Option.bind_some] at hs
        exact ih (fun o ho => hw o (List.mem_cons_of_mem _ ho)) s' s1
          (stepOp_inv np (ne + np) d s0 s' op (hw op List.mem_cons_self) h0 h1) hs
  exact key ops hwf _ s ⟨Tab.ket0_valid _, rfl, ket0_stabReal _⟩ h

/-! ### the classical record is the list of outcomes -/

/-- the classical bookkeeping of a run: every measurement writes its outcome, in order -/
def Book (s : RunState) : Prop := s.writes.map (·.2) = s.outs ∧ s.rand.length = s.outs.length

theorem stepOp_book (np n : Nat) (d : Det) (s s' : RunState) (op : COp) (h : Book s)
    (hs : stepOp np n d s op = some s') : Book s' := by
  obtain ⟨h1, h2⟩ := h
  cases op <;> simp only [stepOp] at hs <;> split at hs <;>
    first
    | (injection hs with hs
       subst hs
       simp [Book, RunState.measure, RunState.write, RunState.condX, RunState.condZ, RunState.resetQ, h1, h2])
    | cases hs

theorem stabRun_book (ne np : Nat) (d : Det) (script : List Bool) (ops : List COp) (s : RunState)
    (h : stabRun ne np d script ops = some s) : Book s := by
  unfold stabRun stabRunFrom at h
  have key : ∀ (ops : List COp) (s0 s1 : RunState), Book s0 →
      ops.foldlM (stepOp np (ne + np) d) s0 = some s1 → Book s1 := by
    intro ops
    induction ops with
    | nil => intro s0 s1 h0 hs; simp only [List.foldlM] at hs; injection hs with hs; rw [← hs]; exact h0
    | cons op rest ih =>
      intro s0 s1 h0 hs
      simp only [List.foldlM] at hs
      cases h1 : stepOp np (ne + np) d s0 op with
      | none => rw [h1] at hs; simp at hs
      | some s' =>
        rw [h1] at hs
        simp only [Option.bind_eq_bind, Option.bind_some] at hs
        exact ih s' s1 (stepOp_book np (ne + np) d s0 s' op h0 h1) hs
  exact key ops _ s ⟨rfl, rfl⟩ h

/-! ### the outcomes actually drawn -/

/-- the outcomes of the random measurements of a run, in order -/
def randOuts (s : RunState) : List Bool := ((s.rand.zip s.outs).filter (·.1)).map (·.2)

/-- number of random measurements -/
def nRand (s : RunState) : Nat := (s.rand.filter id).length

/-- what a run has done with its setting and its drawn bits -/
def Drawn (d : Det) (script0 : List Bool) (s : RunState) : Prop :=
  s.rand.length = s.outs.length ∧
  match d with
  | .zero => s.script = script0 ∧ ∀ o, o ∈ randOuts s → o = false
  | .one => s.script = script0 ∧ ∀ o, o ∈ randOuts s → o = true
  | .prob => s.script = script0.drop (nRand s) ∧ randOuts s = (List.range (nRand s)).map fun i => script0.getD i false

theorem randOuts_snoc (s : RunState) (h : s.rand.length = s.outs.length) (r o : Bool) (t' : Tab) (w : List (Nat × Bool))
    (sc : List Bool) :
    randOuts { t := t', writes := w, script := sc, rand := s.rand ++ [r], outs := s.outs ++ [o] }
      = randOuts s ++ (if r then [o] else []) := by
  unfold randOuts
  simp only
  rw [List.zip_append h]
  cases r <;> simp

theorem nRand_snoc (s : RunState) (r o : Bool) (t' : Tab) (w : List (Nat × Bool)) (sc : List Bool) :
    nRand { t := t', writes := w, script := sc, rand := s.rand ++ [r], outs := s.outs ++ [o] }
      = nRand s + (if r then 1 else 0) := by
  unfold nRand
  cases r <;> simp

theorem measure_drawn (d : Det) (script0 : List Bool) (s : RunState) (q : Nat) (h : Drawn d script0 s) :
    Drawn d script0 (s.measure d q).1 := by
  obtain ⟨hl, hd⟩ := h
  unfold RunState.measure
  refine ⟨by simp [hl], ?_⟩
  cases hp : s.t.pivot q with
  | none =>
    have e1 := randOuts_snoc s hl false (s.t.measScratch q).r
    have e2 := nRand_snoc s false (s.t.measScratch q).r
    cases d <;> simp only [Tab.zMeasure, hp, Option.isSome_none, RunState.offer, Bool.false_eq_true, if_false] <;>
      simp only [e1, e2, Bool.false_eq_true, if_false, List.append_nil, Nat.add_zero] <;> exact hd
  | some p =>
    cases d with
    | zero =>
      simp only [Tab.zMeasure, hp, Option.isSome_some, RunState.offer]
      rw [randOuts_snoc s hl true false]
      refine ⟨hd.1, fun o ho => ?_⟩
      simp only [if_true, List.mem_append, List.mem_singleton] at ho
      rcases ho with ho | ho
      · exact hd.2 o ho
      · exact ho
    | one =>
      simp only [Tab.zMeasure, hp, Option.isSome_some, RunState.offer]
      rw [randOuts_snoc s hl true true]
      refine ⟨hd.1, fun o ho => ?_⟩
      simp only [if_true, List.mem_append, List.mem_singleton] at ho
      rcases ho with ho | ho
      · exact hd.2 o ho
      · exact ho
    | prob =>
      simp only [Tab.zMeasure, hp, Option.isSome_some, RunState.offer, if_true]
      rw [randOuts_snoc s hl true, nRand_snoc s true]
      simp only [if_true]
      obtain ⟨hs, ho⟩ := hd
      refine ⟨?_, ?_⟩
      · rw [hs, List.tail_drop]
      · rw [ho, List.range_succ, List.map_append, hs]
        simp [List.headD_eq_head?_getD, List.getD_eq_getElem?_getD]

theorem drawn_congr (d : Det) (script0 : List Bool) (s s' : RunState) (h1 : s'.rand = s.rand) (h2 : s'.outs = s.outs)
    (h3 : s'.script = s.script) (h : Drawn d script0 s) : Drawn d script0 s' := by
  unfold Drawn randOuts nRand at h ⊢
  rw [h1, h2, h3]
  exact h

theorem stepOp_drawn (np n : Nat) (d : Det) (script0 : List Bool) (s s' : RunState) (op : COp) (hinv : RunInv n s)
    (h : Drawn d script0 s) (hs : stepOp np n d s op = some s') : Drawn d script0 s' := by
  obtain ⟨hv, hn, hr⟩ := hinv
  subst hn
  cases op with
  | gate1 g q =>
    simp only [stepOp] at hs
    split at hs
    · injection hs with hs; subst hs; exact drawn_congr d script0 s _ rfl rfl rfl h
    · cases hs
  | pdag q =>
    simp only [stepOp] at hs
    split at hs
    · injection hs with hs; subst hs; exact drawn_congr d script0 s _ rfl rfl rfl h
    · cases hs
  | cnot c t =>
    simp only [stepOp] at hs
    split at hs
    · injection hs with hs; subst hs; exact drawn_congr d script0 s _ rfl rfl rfl h
    · cases hs
  | cz c t =>
    simp only [stepOp] at hs
    split at hs
    · injection hs with hs; subst hs; exact drawn_congr d script0 s _ rfl rfl rfl h
    · cases hs
  | wrap gs q =>
    simp only [stepOp] at hs
    split at hs
    · injection hs with hs; subst hs; exact drawn_congr d script0 s _ rfl rfl rfl h
    · cases hs
  | measz q creg =>
    simp only [stepOp] at hs
    split at hs
    · injection hs with hs; subst hs
      exact drawn_congr d script0 _ _ rfl rfl rfl (measure_drawn d script0 s _ h)
    · cases hs
  | ccx c t creg =>
    simp only [stepOp] at hs
    split at hs
    · injection hs with hs; subst hs
      exact drawn_congr d script0 _ _ rfl rfl rfl (measure_drawn d script0 s _ h)
    · cases hs
  | ccz c t creg =>
    simp only [stepOp] at hs
    split at hs
    · injection hs with hs; subst hs
      exact drawn_congr d script0 _ _ rfl rfl rfl (measure_drawn d script0 s _ h)
    · cases hs
  | mcr c t creg =>
    simp only [stepOp] at hs
    split at hs
    · next hq =>
      injection hs with hs; subst hs
      have hp := pivot_after_condX s hv hr d _ _ hq.1 hq.2
      refine drawn_congr d script0 (s.measure d (qIndex np c)).1 _ rfl rfl ?_ (measure_drawn d script0 s (qIndex np c) h)
      show (RunState.offer (((s.measure d (qIndex np c)).1.condX (s.measure d (qIndex np c)).2 (qIndex np t)).write creg
          (s.measure d (qIndex np c)).2) d
        ((((s.measure d (qIndex np c)).1.condX (s.measure d (qIndex np c)).2 (qIndex np t)).write creg
          (s.measure d (qIndex np c)).2).t.pivot (qIndex np c)).isSome).2 = (s.measure d (qIndex np c)).1.script
      have : (((s.measure d (qIndex np c)).1.condX (s.measure d (qIndex np c)).2 (qIndex np t)).write creg
          (s.measure d (qIndex np c)).2).t.pivot (qIndex np c) = none := hp
      rw [this]
      cases d <;> rfl
    · cases hs

/-- **The outcomes actually drawn.**  After any run: under forced 0 / forced 1 every *random* measurement reported 0 / 1
    and no drawn bit was read; under `"probabilistic"` the random measurements reported, in order, the first `k` drawn
    bits (`false` beyond the end of the script) and exactly those `k` were consumed, `k` = number of random measurements.
    (Deterministic measurements report what the state dictates under every setting: `measurement_setting_semantics`.) -/
theorem stabRun_drawn (ne np : Nat) (d : Det) (script : List Bool) (ops : List COp) (hwf : ∀ op, op ∈ ops → op.WF np)
    (s : RunState) (h : stabRun ne np d script ops = some s) : Drawn d script s := by
  unfold stabRun stabRunFrom at h
  have key : ∀ (ops : List COp), (∀ op, op ∈ ops → op.WF np) → ∀ (s0 s1 : RunState), RunInv (ne + np) s0 → Drawn d script s0 →
      ops.foldlM (stepOp np (ne + np) d) s0 = some s1 → Drawn d script s1 := by
    intro ops
    induction ops with
    | nil => intro _ s0 s1 _ h0 hs; simp only [List.foldlM] at hs; injection hs with hs; rw [← hs]; exact h0
    | cons op rest ih =>
      intro hw s0 s1 hi h0 hs
      simp only [List.foldlM] at hs
      cases h1 : stepOp np (ne + np) d s0 op with
      | none => rw [h1] at hs; simp at hs
      | some s' =>
        rw [h1] at hs
        simp only [Option.bind_eq_bind, Option.bind_some] at hs
        exact ih (fun o ho => hw o (List.mem_cons_of_mem _ ho)) s' s1
          (stepOp_inv np (ne + np) d s0 s' op (hw op List.mem_cons_self) hi h1)
          (stepOp_drawn np (ne + np) d script s0 s' op hi h0 h1) hs
  refine key ops hwf _ s ⟨Tab.ket0_valid _, rfl, Hilbert.ket0_stabReal _⟩ ?_ h
  refine ⟨rfl, ?_⟩
  cases d
  · exact ⟨rfl, fun o ho => by simp [randOuts] at ho⟩
  · exact ⟨rfl, fun o ho => by simp [randOuts] at ho⟩
  · exact ⟨rfl, rfl⟩

end DMH
end Graphiq
