/-
  Proofs/SolverSoundInv.lean — the soundness invariant of the time-reversed solver model, function by function.

  `Inv np ne T0 s`: the working tableau `s.t` is a real commuting generating set on `np + ne` qubits, and the circuit recorded so
  far, run forwards from the group of `s.t`, generates exactly the target group `T0` whatever the measurement outcomes
  (`GGen`, Proofs/SolverSoundSem.lean).  Every helper of `Model/Solver.lean` keeps it.
-/
import GraphiqModel.Proofs.SolverSoundKey
import GraphiqModel.Proofs.SolverSoundCliff
import GraphiqModel.Proofs.SolverSoundRref
import GraphiqModel.Proofs.SolverSoundRows
namespace Graphiq.Solver
open Graphiq Graphiq.Cliff PRow STab Tab

/-! ### `_add_one_qubit_gate` -/

theorem dropWhile_head_false {α : Type} (p : α → Bool) (l : List α) (a : α) (r : List α) (h : l.dropWhile p = a :: r) :
    p a = false := by
  induction l with
  | nil => simp at h
  | cons x rest ih =>
    by_cases hx : p x = true
    · rw [List.dropWhile_cons_of_pos hx] at h; exact ih h
    · rw [List.dropWhile_cons_of_neg hx] at h
      injection h with h1 _
      rw [← h1]; simpa using hx

theorem mem_takeWhile_true {α : Type} (p : α → Bool) (l : List α) (a : α) (h : a ∈ l.takeWhile p) : p a = true := by
  induction l with
  | nil => simp at h
  | cons x rest ih =>
    by_cases hx : p x = true
    · rw [List.takeWhile_cons_of_pos hx] at h
      rcases List.mem_cons.mp h with e | e
      · rw [e]; exact hx
      · exact ih e
    · rw [List.takeWhile_cons_of_neg hx] at h; simp at h

theorem actW_identityPair (q : Nat) (a : PRow) : actW q identityPair a = a := by
  rw [actW_eq_lift, tblW_identityPair, lift_one]

theorem actW_lift_fun (q : Nat) (w : List Gen) : actW q w = lift q (tblW w) := funext fun a => actW_eq_lift q w a

/-- a wrapper whose simplified word is the identity pair does nothing -/
theorem img_actW_identity (n q : Nat) (w m : List Gen) (hs : simplify w = some m) (hm : m = identityPair)
    (S : PSet) (hS : Closed n S) : img n (actW q w) S = S := by
  apply img_id_of n _ _ S hS
  intro a
  rw [actW_of_tbl q w m (by rw [simplify_tbl w m hs]), hm, actW_identityPair]
  exact EqOn.refl _ _

/-- **`_add_one_qubit_gate` is sound**: whatever it does to the circuit (insert a simplified wrapper first on the wire, merge with
    the wrapper that is first on the wire, drop an identity), the new circuit run from `S` does what the old circuit did from the
    image of `S` under the forward action of the gate list -/
theorem addOneQubit_ggen (np ne : Nat) (T0 : PSet) (s s' : St) (gs : List Gen) (q : Nat) (hnp : s.np = np) (hq : q < np + ne)
    (h : addOneQubit s gs q = .ok s') (S : PSet) (hS : Closed (np + ne) S)
    (hg : GGen np ne T0 s.circ (img (np + ne) (actW q gs) S)) : GGen np ne T0 s'.circ S := by
  unfold addOneQubit at h
  simp only at h
  have hsplit : s.circ = s.circ.takeWhile (fun o => !o.touches s.np q) ++ s.circ.dropWhile (fun o => !o.touches s.np q) :=
    (List.takeWhile_append_dropWhile).symm
  have hpre : ∀ op, op ∈ s.circ.takeWhile (fun o => !o.touches s.np q) → op.touches np q = false := by
    intro op hop
    have := mem_takeWhile_true _ _ _ hop
    rw [← hnp]; simpa using this
  have hpost := dropWhile_head_false (fun o => !o.touches s.np q) s.circ
  generalize s.circ.takeWhile (fun o => !o.touches s.np q) = pre at h hsplit hpre
  generalize s.circ.dropWhile (fun o => !o.touches s.np q) = post at h hsplit hpost
  have haut := actW_isAut (np + ne) q hq gs
  rw [actW_lift_fun] at haut hg
  split at h
  · next old q' rest =>
    have hqq : q' = q := by
      have := hpost _ _ rfl
      simpa [SOp.touches] using this
    subst hqq
    rw [hsplit] at hg
    split at h
    · cases h
    · next g' hsimp =>
      have htbl : tblW g' = (tblW old).comp (tblW gs) := by rw [simplify_tbl _ _ hsimp, tblW_append]
      -- running the old wrapper after the local map = running the merged wrapper
      have key : ∀ S1 : PSet, img (np + ne) (actW q' old) (img (np + ne) (lift q' (tblW gs)) S1) = img (np + ne) (actW q' g') S1 := by
        intro S1
        rw [img_img _ _ _ (actW_isAut (np + ne) q' hq old)]
        apply img_congr
        intro a
        rw [actW_eq_lift, actW_eq_lift, lift_comp, htbl]
      split at h
      · next hid =>
        injection h with h; rw [← h]
        show GGen np ne T0 (pre ++ rest) S
        refine ggen_insert np ne q' T0 (tblW gs) (tblW_fix gs) haut (SOp.wrap old q' :: rest) rest ?_ pre hpre S hS hg
        intro S1 hS1 h1
        obtain ⟨_, h2⟩ : gpre np ne (SOp.wrap old q') _ ∧ ∀ o, GGen np ne T0 rest (gstep np ne (SOp.wrap old q') o _) := h1
        have := h2 false
        show GGen np ne T0 rest S1
        have e : gstep np ne (SOp.wrap old q') false (img (np + ne) (lift q' (tblW gs)) S1) = S1 := by
          show img (np + ne) (actW q' old) (img (np + ne) (lift q' (tblW gs)) S1) = S1
          rw [key S1]
          apply img_id_of _ _ _ S1 hS1
          intro a; rw [hid, actW_identityPair]; exact EqOn.refl _ _
        rw [e] at this; exact this
      · injection h with h; rw [← h]
        show GGen np ne T0 (pre ++ SOp.wrap g' q' :: rest) S
        refine ggen_insert np ne q' T0 (tblW gs) (tblW_fix gs) haut (SOp.wrap old q' :: rest) (SOp.wrap g' q' :: rest) ?_ pre hpre S hS hg
        intro S1 _ h1
        obtain ⟨_, h2⟩ : gpre np ne (SOp.wrap old q') _ ∧ ∀ o, GGen np ne T0 rest (gstep np ne (SOp.wrap old q') o _) := h1
        refine ⟨⟨hq, trivial⟩, fun o => ?_⟩
        have := h2 o
        show GGen np ne T0 rest (img (np + ne) (actW q' g') S1)
        rw [← key S1]; exact this
  · split at h
    · cases h
    · next g' hsimp =>
      have e : img (np + ne) (lift q (tblW gs)) S = img (np + ne) (actW q g') S := by
        apply img_congr; intro a
        rw [actW_eq_lift, simplify_tbl _ _ hsimp]
      split at h
      · next hid =>
        injection h with h; rw [← h]
        rw [e, img_id_of _ _ (fun a => by rw [hid, actW_identityPair]; exact EqOn.refl _ _) S hS] at hg
        exact hg
      · injection h with h; rw [← h]
        show GGen np ne T0 (SOp.wrap g' q :: s.circ) S
        refine ⟨⟨hq, trivial⟩, fun o => ?_⟩
        show GGen np ne T0 s.circ (img (np + ne) (actW q g') S)
        rw [← e]; exact hg

/-! ### the invariant -/

structure Inv (np ne : Nat) (T0 : PSet) (s : St) : Prop where
  np_eq : s.np = np
  ne_eq : s.ne = ne
  n_eq : s.t.n = np + ne
  good : s.t.Good
  gen : GGen np ne T0 s.circ s.t.Spn

/-- the group of the tableau after a tableau gate is the image of the group -/
theorem gate_spn (s : St) (G : Gate) (hG : G.WF s.t.n) : (s.gate G).t.Spn = img s.t.n G.act s.t.Spn := by
  apply pset_ext; intro b
  have sN := norm_spanEq (s.t.applyGate G)
  constructor
  · intro hb
    obtain ⟨a, ha, ea⟩ := applyGate_bwd s.t G hG b (sN.sup b hb)
    exact ⟨a, ha, ea⟩
  · rintro ⟨a, ha, ea⟩
    exact sN.sub b (InSpan.eqv _ _ (applyGate_fwd s.t G hG a ha) ea)

theorem gate_good (s : St) (G : Gate) (hG : G.WF s.t.n) (hg : s.t.Good) : (s.gate G).t.Good :=
  norm_good _ (applyGate_good s.t G hG hg)

/-- replacing the tableau by another generating set of the same signed group -/
theorem inv_spanEq (np ne : Nat) (T0 : PSet) (s : St) (t' : STab) (h : Inv np ne T0 s) (hs : SpanEq s.t t') (hg : t'.Good) :
    Inv np ne T0 { s with t := t' } :=
  ⟨h.np_eq, h.ne_eq, hs.n_eq.symm.trans h.n_eq, hg, by
    show GGen np ne T0 s.circ t'.Spn
    rw [← spanEq_spn _ _ hs]; exact h.gen⟩

/-- tableau gate(s) with row map `f` on the tableau + a one-qubit wrapper whose forward action undoes `f` -/
theorem inv_wrap (np ne : Nat) (T0 : PSet) (s s1 s' : St) (gs : List Gen) (q : Nat) (f : PRow → PRow)
    (h : Inv np ne T0 s) (hq : q < np + ne)
    (h1np : s1.np = s.np) (h1ne : s1.ne = s.ne) (h1c : s1.circ = s.circ) (h1n : s1.t.n = s.t.n) (h1g : s1.t.Good)
    (h1s : s1.t.Spn = img (np + ne) f s.t.Spn)
    (hundo : ∀ a, EqOn (np + ne) (actW q gs (f a)) a)
    (ha : addOneQubit s1 gs q = .ok s') : Inv np ne T0 s' := by
  obtain ⟨et, enp, ene⟩ := addOneQubit_t s1 s' gs q ha
  refine ⟨enp.trans (h1np.trans h.np_eq), ene.trans (h1ne.trans h.ne_eq), by rw [et, h1n]; exact h.n_eq, by rw [et]; exact h1g, ?_⟩
  rw [et]
  have hcl : Closed (np + ne) s.t.Spn := h.n_eq ▸ spn_closed s.t
  have hcl1 : Closed (np + ne) s1.t.Spn := (h1n.trans h.n_eq) ▸ spn_closed s1.t
  apply addOneQubit_ggen np ne T0 s1 s' gs q (h1np.trans h.np_eq) hq ha _ hcl1
  rw [h1c, h1s, img_cancel _ _ _ (actW_isAut _ q hq gs) hundo _ hcl]
  exact h.gen

theorem table_undo (n q : Nat) (gs : List Gen) (t : L1) (ht : (tblW gs).comp t = L1.one) (a : PRow) :
    EqOn n (actW q gs (lift q t a)) a := by
  rw [actW_eq_lift, lift_comp, ht, lift_one]; exact EqOn.refl _ _

/-! ### the helpers that pair a tableau gate with a recorded operation -/

theorem changeToZ_cases (s : St) (row col : Nat) :
    changeToZ s row col = (s.gate (.H col), [.H]) ∨
    changeToZ s row col = ((s.gate (.Pdag col)).gate (.H col), [.P, .H]) ∨
    changeToZ s row col = (s, []) := by
  unfold changeToZ
  split
  · exact Or.inl rfl
  · exact Or.inr (Or.inl rfl)
  · exact Or.inr (Or.inr rfl)

theorem tbl_H : (tblW [Gen.H]).comp tH = L1.one := by decide
theorem tbl_PH : (tblW [Gen.P, Gen.H]).comp (tH.comp tSdg) = L1.one := by decide
theorem tbl_X : (tblW [Gen.X]).comp tX = L1.one := by decide
theorem tbl_ZP : (tblW [Gen.Z, Gen.P]).comp tS = L1.one := by decide

/-- `_change_pauli_type(…, 'z')` followed by `_add_one_qubit_gate` with the returned list -/
theorem inv_changeToZ (np ne : Nat) (T0 : PSet) (s s' : St) (row col : Nat) (h : Inv np ne T0 s) (hcol : col < np + ne)
    (ha : addOneQubit (changeToZ s row col).1 (changeToZ s row col).2 col = .ok s') : Inv np ne T0 s' := by
  have hcn : col < s.t.n := h.n_eq ▸ hcol
  rcases changeToZ_cases s row col with e | e | e <;> rw [e] at ha <;> simp only at ha
  · refine inv_wrap np ne T0 s (s.gate (.H col)) s' _ col (PRow.h col) h hcol rfl rfl rfl rfl (gate_good s (.H col) hcn h.good) ?_ ?_ ha
    · rw [gate_spn s (.H col) hcn, h.n_eq]; rfl
    · intro a; rw [h_eq_lift]; exact table_undo _ col _ tH tbl_H a
  · have hg1 := gate_good s (.Pdag col) hcn h.good
    refine inv_wrap np ne T0 s ((s.gate (.Pdag col)).gate (.H col)) s' _ col (fun a => PRow.h col (PRow.sdg col a)) h hcol rfl rfl rfl rfl
      (gate_good (s.gate (.Pdag col)) (.H col) hcn hg1) ?_ ?_ ha
    · rw [gate_spn (s.gate (.Pdag col)) (.H col) hcn, gate_spn s (.Pdag col) hcn]
      show img s.t.n (PRow.h col) (img s.t.n (PRow.sdg col) s.t.Spn) = _
      rw [h.n_eq, img_img _ _ _ (isAut_h _ col hcol)]
    · intro a
      show EqOn _ (actW col [Gen.P, Gen.H] (PRow.h col (PRow.sdg col a))) a
      rw [h_eq_lift, sdg_eq_lift, lift_comp]; exact table_undo _ col _ _ tbl_PH a
  · refine inv_wrap np ne T0 s s s' _ col id h hcol rfl rfl rfl rfl h.good ?_ ?_ ha
    · exact (img_id_of _ _ (fun a => EqOn.refl _ _) _ (h.n_eq ▸ spn_closed s.t)).symm
    · intro a; exact EqOn.refl _ _

/-- `if tableau.phase[g] == 1: x_gate(tableau, emitter); add [SigmaX]` -/
theorem inv_fixSign (np ne : Nat) (T0 : PSet) (s s' : St) (g e : Nat) (h : Inv np ne T0 s) (he : e < ne)
    (ha : fixSign s g e = .ok s') : Inv np ne T0 s' := by
  unfold fixSign at ha
  have hq : s.np + e < np + ne := by rw [h.np_eq]; omega
  have hqn : s.np + e < s.t.n := h.n_eq ▸ hq
  split at ha
  · refine inv_wrap np ne T0 s (s.gate (.X (s.np + e))) s' _ (s.np + e) (PRow.xg (s.np + e)) h hq rfl rfl rfl rfl (gate_good s (.X (s.np + e)) hqn h.good) ?_ ?_ ha
    · rw [gate_spn s (.X (s.np + e)) hqn, h.n_eq]; rfl
    · intro a; rw [xg_eq_lift]; exact table_undo _ _ _ tX tbl_X a
  · injection ha with ha; rw [← ha]; exact h

/-- `_add_one_emitter_cnot` + `cnot_gate` on the tableau -/
theorem inv_addEmitterCnot (np ne : Nat) (T0 : PSet) (s : St) (c t : Nat) (h : Inv np ne T0 s) (hc : c < ne) (ht : t < ne)
    (hct : c ≠ t) : Inv np ne T0 (addEmitterCnot s c t) := by
  have hwf : (Gate.CNOT (s.np + c) (s.np + t)).WF s.t.n := by
    show s.np + c < s.t.n ∧ s.np + t < s.t.n ∧ s.np + c ≠ s.np + t
    rw [h.n_eq, h.np_eq]; omega
  refine ⟨h.np_eq, h.ne_eq, h.n_eq, gate_good s _ hwf h.good, ?_⟩
  show GGen np ne T0 (SOp.cnotEE c t :: s.circ) (s.gate (Gate.CNOT (s.np + c) (s.np + t))).t.Spn
  refine ⟨⟨⟨hc, ht, hct⟩, trivial⟩, fun o => ?_⟩
  show GGen np ne T0 s.circ (img (np + ne) (PRow.cnot (np + c) (np + t)) _)
  rw [gate_spn s _ hwf, h.n_eq, h.np_eq]
  show GGen np ne T0 s.circ (img (np + ne) (PRow.cnot (np + c) (np + t)) (img (np + ne) (PRow.cnot (np + c) (np + t)) s.t.Spn))
  rw [img_cancel _ _ _ (isAut_cnot _ _ _ (by omega) (by omega) (by omega)) (fun a => cnot_cnot _ _ _ (by omega) a) _
    (h.n_eq ▸ spn_closed s.t)]
  exact h.gen

theorem inv_foldl {α : Type} (np ne : Nat) (T0 : PSet) (f : St → α → St) (P : α → Prop)
    (hf : ∀ s x, Inv np ne T0 s → P x → Inv np ne T0 (f s x)) (l : List α) (hl : ∀ x, x ∈ l → P x) (s : St)
    (hs : Inv np ne T0 s) : Inv np ne T0 (l.foldl f s) := by
  induction l generalizing s with
  | nil => exact hs
  | cons x rest ih =>
    simp only [List.foldl]
    exact ih (fun y hy => hl y (List.mem_cons_of_mem _ hy)) _ (hf s x hs (hl x List.mem_cons_self))

theorem inv_foldlM {α : Type} (np ne : Nat) (T0 : PSet) (f : St → α → Except Err St) (P : α → Prop)
    (hf : ∀ s x s', Inv np ne T0 s → P x → f s x = .ok s' → Inv np ne T0 s') (l : List α) (hl : ∀ x, x ∈ l → P x) (s s' : St)
    (hs : Inv np ne T0 s) (h : l.foldlM f s = .ok s') : Inv np ne T0 s' := by
  induction l generalizing s with
  | nil =>
    simp only [List.foldlM, pure, Except.pure] at h
    injection h with h; rw [← h]; exact hs
  | cons x rest ih =>
    simp only [List.foldlM] at h
    cases h1 : f s x with
    | error e => rw [h1] at h; simp [bind, Except.bind] at h
    | ok s1 =>
      rw [h1] at h
      simp only [bind, Except.bind] at h
      exact ih (fun y hy => hl y (List.mem_cons_of_mem _ hy)) s1 (hf s x s1 hs (hl x List.mem_cons_self) h1) h

/-- `_transform_generator_emitters` -/
theorem inv_transformGeneratorEmitters (np ne : Nat) (T0 : PSet) (s s' : St) (g tgt : Nat) (h : Inv np ne T0 s) (ht : tgt < ne)
    (ha : transformGeneratorEmitters s g tgt = .ok s') : Inv np ne T0 s' := by
  unfold transformGeneratorEmitters at ha
  split at ha
  · injection ha with ha; rw [← ha]; exact h
  · split at ha
    · cases ha
    · injection ha with ha; rw [← ha]
      apply inv_foldl np ne T0 _ (fun c => c < ne ∧ c ≠ tgt) (fun a c ha hc => inv_addEmitterCnot np ne T0 a c tgt ha hc.1 ht hc.2) _ _ s h
      intro c hc
      simp only [List.mem_filter, List.mem_range, decide_eq_true_eq] at hc
      exact ⟨h.ne_eq ▸ hc.1.1, hc.2⟩

/-- the loop over the emitters: `change_pauli_type(…, 'z')` + `_add_one_qubit_gate` -/
theorem inv_allEmittersToZ (np ne : Nat) (T0 : PSet) (s s' : St) (g : Nat) (skip : Bool) (h : Inv np ne T0 s)
    (ha : allEmittersToZ s g skip = .ok s') : Inv np ne T0 s' := by
  unfold allEmittersToZ at ha
  refine inv_foldlM np ne T0 _ (fun i => i < ne) ?_ _ (fun i hi => h.ne_eq ▸ List.mem_range.mp hi) s s' h ha
  intro a i a' hinv hi hstep
  simp only at hstep
  have hcol : a.np + i < np + ne := by rw [hinv.np_eq]; omega
  split at hstep
  · next hsk =>
    injection hstep with hstep; rw [← hstep]
    rcases changeToZ_cases a g (a.np + i) with e | e | e <;> rw [e] at hsk ⊢ <;> simp at hsk ⊢
    exact hinv
  · exact inv_changeToZ np ne T0 a a' g (a.np + i) hinv hcol hstep

/-! ### the time-reversed measurement -/

/-- **`_time_reversed_measurement` keeps the invariant**: the solver singles out an emitter in `+Z`, applies `H` and `CNOT(e→photon)` to its
    tableau and records `MeasurementCNOTandReset`; by `mcr_key` the recorded operation undoes exactly that, for both outcomes -/
theorem inv_timeReversedMeasurement (np ne : Nat) (T0 : PSet) (s s' : St) (photon : Nat) (h : Inv np ne T0 s) (hph : photon < np)
    (ha : timeReversedMeasurement s photon = .ok s') : Inv np ne T0 s' := by
  unfold timeReversedMeasurement at ha
  simp only at ha
  split at ha
  · cases ha
  · next g grest hcands =>
    have hgm : g ∈ (List.range s.t.n).filter fun i => (List.range s.np).all fun j => !(s.t.row i).x j && !(s.t.row i).z j := by
      rw [hcands]; exact List.mem_cons_self
    simp only [List.mem_filter, List.mem_range, List.all_eq_true, Bool.and_eq_true, Bool.not_eq_true'] at hgm
    obtain ⟨hg, hphot⟩ := hgm
    split at ha
    · cases ha
    · next e erest hem =>
      have hee : e ∈ emitterIndices s g := by rw [hem]; exact List.mem_cons_self
      have he : e < ne := by
        have := hee
        simp only [emitterIndices, List.mem_filter, List.mem_range] at this
        exact h.ne_eq ▸ this.1
      cases h1 : allEmittersToZ s g true with
      | error err => rw [h1] at ha; cases ha
      | ok s1 =>
        rw [h1] at ha; simp only at ha
        cases h2 : transformGeneratorEmitters s1 g e with
        | error err => rw [h2] at ha; cases ha
        | ok s2 =>
          rw [h2] at ha; simp only at ha
          cases h3 : fixSign s2 g e with
          | error err => rw [h3] at ha; cases ha
          | ok s3 =>
            rw [h3] at ha; simp only at ha
            injection ha with ha; rw [← ha]
            have i1 := inv_allEmittersToZ np ne T0 s s1 g true h h1
            have i2 := inv_transformGeneratorEmitters np ne T0 s1 s2 g e i1 he h2
            have i3 := inv_fixSign np ne T0 s2 s3 g e i2 he h3
            obtain ⟨hrow, hn3, _, _⟩ := singleOut_row s s1 s2 s3 g e (by rw [h.n_eq, h.np_eq, h.ne_eq]) hg (h.good.real g hg)
              (fun j hj => hphot j hj) hee h1 h2 h3
            rw [h.np_eq, h.ne_eq] at hrow
            rw [h.np_eq]
            have hE : np + e < s3.t.n := by rw [i3.n_eq]; omega
            have hwfH : (Gate.H (np + e)).WF s3.t.n := hE
            have hwfC : (Gate.CNOT (np + e) photon).WF (s3.gate (.H (np + e))).t.n := by
              show np + e < s3.t.n ∧ photon < s3.t.n ∧ np + e ≠ photon
              rw [i3.n_eq]; omega
            have hg3 : g < s3.t.n := by rw [hn3]; exact hg
            have hcl : Closed (np + ne) s3.t.Spn := i3.n_eq ▸ spn_closed s3.t
            have hZ : s3.t.Spn (Zq (np + e) false) := by
              refine InSpan.eqv _ _ (spn_gen s3.t g hg3) ?_
              rw [i3.n_eq]; exact hrow
            have hx : ∀ a, s3.t.Spn a → a.x (np + e) = false := by
              intro a haS
              have := spn_comm s3.t i3.good a _ haS hZ
              rw [sp_Zq _ _ _ _ hE] at this; exact this
            obtain ⟨k1, k2⟩ := mcr_key (np + ne) (np + e) photon (by omega) (by omega) (by omega) s3.t.Spn hcl hx hZ
            have hS' : (({ (s3.gate (.H (np + e))) with circ := SOp.mcr e photon :: (s3.gate (.H (np + e))).circ } : St).gate
                (.CNOT (np + e) photon)).t.Spn = img (np + ne) (fun a => PRow.cnot (np + e) photon (PRow.h (np + e) a)) s3.t.Spn := by
              have e1 := gate_spn ({ (s3.gate (.H (np + e))) with circ := SOp.mcr e photon :: (s3.gate (.H (np + e))).circ } : St)
                (.CNOT (np + e) photon) hwfC
              rw [e1]
              show img (s3.gate (.H (np + e))).t.n _ (s3.gate (.H (np + e))).t.Spn = _
              rw [gate_spn s3 (.H (np + e)) hwfH]
              show img s3.t.n (PRow.cnot (np + e) photon) (img s3.t.n (PRow.h (np + e)) s3.t.Spn) = _
              rw [i3.n_eq, img_img _ _ _ (isAut_cnot _ _ _ (by omega) (by omega) (by omega))]
            refine ⟨i3.np_eq, i3.ne_eq, i3.n_eq, ?_, ?_⟩
            · exact gate_good _ _ hwfC (gate_good s3 _ hwfH i3.good)
            · show GGen np ne T0 (SOp.mcr e photon :: s3.circ) _
              rw [hS']
              refine ⟨⟨⟨he, hph⟩, k1⟩, fun o => ?_⟩
              show GGen np ne T0 s3.circ (mcrPost (np + ne) (np + e) photon o _)
              rw [k2 o]; exact i3.gen

/-! ### photon absorption -/

/-- `_add_emitter_photon_cnot` + `cnot_gate` on the tableau -/
theorem inv_emit (np ne : Nat) (T0 : PSet) (s : St) (e p : Nat) (h : Inv np ne T0 s) (he : e < ne) (hp : p < np) :
    Inv np ne T0 (({ s with circ := SOp.emit e p :: s.circ } : St).gate (.CNOT (np + e) p)) := by
  have hwf : (Gate.CNOT (np + e) p).WF s.t.n := by
    show np + e < s.t.n ∧ p < s.t.n ∧ np + e ≠ p
    rw [h.n_eq]; omega
  refine ⟨h.np_eq, h.ne_eq, h.n_eq, gate_good ({ s with circ := SOp.emit e p :: s.circ } : St) _ hwf h.good, ?_⟩
  show GGen np ne T0 (SOp.emit e p :: s.circ) _
  refine ⟨⟨⟨he, hp⟩, trivial⟩, fun o => ?_⟩
  show GGen np ne T0 s.circ (img (np + ne) (PRow.cnot (np + e) p) _)
  rw [gate_spn ({ s with circ := SOp.emit e p :: s.circ } : St) _ hwf]
  show GGen np ne T0 s.circ (img (np + ne) (PRow.cnot (np + e) p) (img s.t.n (PRow.cnot (np + e) p) s.t.Spn))
  rw [h.n_eq, img_cancel _ _ _ (isAut_cnot _ _ _ (by omega) (by omega) (by omega)) (fun a => cnot_cnot _ _ _ (by omega) a) _
    (h.n_eq ▸ spn_closed s.t)]
  exact h.gen

/-- the row sums that clear the absorbed photon's column from the other generators -/
theorem inv_rowSums (np ne : Nat) (T0 : PSet) (s : St) (g : Nat) (zs : List Nat) (h : Inv np ne T0 s) (hg : g < s.t.n)
    (hz : ∀ i, i ∈ zs → i < s.t.n ∧ g ≠ i) :
    Inv np ne T0 { s with t := (zs.foldl (fun acc i => acc.rowSum g i) s.t).norm } := by
  have e := eqv_foldl_rowSum s.t g zs s.t hg hz (Eqv.refl s.t h.good)
  exact inv_spanEq np ne T0 s _ h (e.se.trans (norm_spanEq _)) (norm_good _ e.good)

/-- **`_add_photon_absorption` keeps the invariant** -/
theorem inv_addPhotonAbsorption (np ne : Nat) (T0 : PSet) (s s' : St) (photon : Nat) (h : Inv np ne T0 s) (hph : photon < np)
    (ha : addPhotonAbsorption s photon = .ok s') : Inv np ne T0 s' := by
  unfold addPhotonAbsorption at ha
  split at ha
  · cases ha
  · next g hgsel =>
    have hg : g < s.t.n := by
      have := List.mem_of_mem_head? hgsel
      simp only [List.mem_filter, List.mem_reverse, List.mem_range] at this
      exact this.1
    have hcol : photon < np + ne := by omega
    have i1' : ∀ s1, addOneQubit (changeToZ s g photon).1 (changeToZ s g photon).2 photon = .ok s1 → Inv np ne T0 s1 :=
      fun s1 hs1 => inv_changeToZ np ne T0 s s1 g photon h hcol hs1
    have n0 : (changeToZ s g photon).1.t.n = s.t.n := by
      rcases changeToZ_cases s g photon with e | e | e <;> rw [e] <;> rfl
    generalize changeToZ s g photon = r at ha i1' n0
    obtain ⟨s0, gl⟩ := r
    simp only at ha i1' n0
    cases h1 : addOneQubit s0 gl photon with
    | error err => rw [h1] at ha; cases ha
    | ok s1 =>
      rw [h1] at ha; simp only at ha
      have i1 := i1' s1 h1
      split at ha
      · cases ha
      · next e erest hem =>
        have he : e < ne := by
          have : e ∈ emitterIndices s1 g := by rw [hem]; exact List.mem_cons_self
          simp only [emitterIndices, List.mem_filter, List.mem_range] at this
          exact i1.ne_eq ▸ this.1
        cases h2 : allEmittersToZ s1 g false with
        | error err => rw [h2] at ha; cases ha
        | ok s2 =>
          rw [h2] at ha; simp only at ha
          cases h3 : transformGeneratorEmitters s2 g e with
          | error err => rw [h3] at ha; cases ha
          | ok s3 =>
            rw [h3] at ha; simp only at ha
            cases h4 : fixSign s3 g e with
            | error err => rw [h4] at ha; cases ha
            | ok s4 =>
              rw [h4] at ha; simp only at ha
              injection ha with ha; rw [← ha]
              have i2 := inv_allEmittersToZ np ne T0 s1 s2 g false i1 h2
              have i3 := inv_transformGeneratorEmitters np ne T0 s2 s3 g e i2 he h3
              have i4 := inv_fixSign np ne T0 s3 s4 g e i3 he h4
              rw [h.np_eq]
              have i6 := inv_emit np ne T0 s4 e photon i4 he hph
              have hn6 : (({ s4 with circ := SOp.emit e photon :: s4.circ } : St).gate (.CNOT (np + e) photon)).t.n = s.t.n := by
                show s4.t.n = s.t.n
                rw [i4.n_eq, h.n_eq]
              refine inv_rowSums np ne T0 _ g _ i6 (by rw [hn6]; exact hg) ?_
              intro i hi
              simp only [List.mem_filter, List.mem_range, decide_eq_true_eq] at hi
              exact ⟨hi.1.1, Ne.symm hi.2⟩

/-! ### the final disentangling of the emitters (`_add_gates_from_str`) -/

/-- `_add_one_qubit_gate(list)` then a tableau gate whose row map is undone by the list -/
theorem inv_wrap_then_gate (np ne : Nat) (T0 : PSet) (s a1 : St) (gs : List Gen) (q : Nat) (G : Gate)
    (h : Inv np ne T0 s) (hq : q < np + ne) (hG : G.WF (np + ne)) (hundo : ∀ a, EqOn (np + ne) (actW q gs (G.act a)) a)
    (ha : addOneQubit s gs q = .ok a1) : Inv np ne T0 (a1.gate G) := by
  obtain ⟨et, enp, ene⟩ := addOneQubit_t s a1 gs q ha
  have hGn : G.WF a1.t.n := by rw [et, h.n_eq]; exact hG
  refine ⟨enp.trans h.np_eq, ene.trans h.ne_eq, by show a1.t.n = _; rw [et]; exact h.n_eq, gate_good a1 G hGn (et ▸ h.good), ?_⟩
  show GGen np ne T0 a1.circ (a1.gate G).t.Spn
  rw [gate_spn a1 G hGn, et, h.n_eq]
  have hcl : Closed (np + ne) s.t.Spn := h.n_eq ▸ spn_closed s.t
  apply addOneQubit_ggen np ne T0 s a1 gs q h.np_eq hq ha _ (img_closed _ _ (gmap_gate _ G hG) _ hcl)
  rw [img_cancel _ _ _ (actW_isAut _ q hq gs) hundo _ hcl]
  exact h.gen

theorem undo_H (n q : Nat) (a : PRow) : EqOn n (actW q [Gen.H] ((Gate.H q).act a)) a := by
  show EqOn n (actW q [Gen.H] (PRow.h q a)) a
  rw [h_eq_lift]; exact table_undo n q _ tH tbl_H a
theorem undo_P (n q : Nat) (a : PRow) : EqOn n (actW q [Gen.Z, Gen.P] ((Gate.P q).act a)) a := by
  show EqOn n (actW q [Gen.Z, Gen.P] (PRow.s q a)) a
  rw [s_eq_lift]; exact table_undo n q _ tS tbl_ZP a
theorem undo_X (n q : Nat) (a : PRow) : EqOn n (actW q [Gen.X] ((Gate.X q).act a)) a := by
  show EqOn n (actW q [Gen.X] (PRow.xg q a)) a
  rw [xg_eq_lift]; exact table_undo n q _ tX tbl_X a

/-- the body of the loop of `_add_gates_from_str` -/
def gateStep (acc : St) (g : Gate) : Except Err St :=
  match g with
  | .H q => (addOneQubit acc [.H] q).map fun (a : St) => a.gate (.H q)
  | .P q => (addOneQubit acc [.Z, .P] q).map fun (a : St) => a.gate (.P q)
  | .X q => (addOneQubit acc [.X] q).map fun (a : St) => a.gate (.X q)
  | .CNOT c t => if acc.np ≤ c ∧ acc.np ≤ t then .ok (addEmitterCnot acc (c - acc.np) (t - acc.np)) else .error .key
  | .CZ c t =>
    if acc.np ≤ c ∧ acc.np ≤ t then
      match addOneQubit acc [.H] t with
      | .error e => .error e
      | .ok a1 =>
        let a2 := addEmitterCnot (a1.gate (.H t)) (c - acc.np) (t - acc.np)
        (addOneQubit a2 [.H] t).map fun (a : St) => a.gate (.H t)
    else .error .key
  | _ => .error .value

theorem addGatesFromStr_eq (s : St) (gl : List Gate) : addGatesFromStr s gl = gl.foldlM gateStep s := rfl

/-- one gate of the inverse-circuit list -/
theorem inv_gateFromStr (np ne : Nat) (T0 : PSet) (acc a' : St) (g : Gate) (h : Inv np ne T0 acc) (hg : g.WF (np + ne))
    (ha : gateStep acc g = .ok a') : Inv np ne T0 a' := by
  unfold gateStep at ha
  cases g with
  | H q =>
    simp only at ha
    cases h1 : addOneQubit acc [.H] q with
    | error e => rw [h1] at ha; simp [Except.map] at ha
    | ok a1 =>
      rw [h1] at ha; simp only [Except.map] at ha
      injection ha with ha; rw [← ha]
      exact inv_wrap_then_gate np ne T0 acc a1 _ q (.H q) h hg hg (undo_H _ q) h1
  | P q =>
    simp only at ha
    cases h1 : addOneQubit acc [.Z, .P] q with
    | error e => rw [h1] at ha; simp [Except.map] at ha
    | ok a1 =>
      rw [h1] at ha; simp only [Except.map] at ha
      injection ha with ha; rw [← ha]
      exact inv_wrap_then_gate np ne T0 acc a1 _ q (.P q) h hg hg (undo_P _ q) h1
  | X q =>
    simp only at ha
    cases h1 : addOneQubit acc [.X] q with
    | error e => rw [h1] at ha; simp [Except.map] at ha
    | ok a1 =>
      rw [h1] at ha; simp only [Except.map] at ha
      injection ha with ha; rw [← ha]
      exact inv_wrap_then_gate np ne T0 acc a1 _ q (.X q) h hg hg (undo_X _ q) h1
  | CNOT c t =>
    simp only at ha
    obtain ⟨hc, ht, hct⟩ : c < np + ne ∧ t < np + ne ∧ c ≠ t := hg
    split at ha
    · next hb =>
      injection ha with ha; rw [← ha]
      rw [h.np_eq] at hb ⊢
      exact inv_addEmitterCnot np ne T0 acc _ _ h (by omega) (by omega) (by omega)
    · cases ha
  | CZ c t =>
    simp only at ha
    obtain ⟨hc, ht, hct⟩ : c < np + ne ∧ t < np + ne ∧ c ≠ t := hg
    split at ha
    · next hb =>
      cases h1 : addOneQubit acc [.H] t with
      | error e => rw [h1] at ha; cases ha
      | ok a1 =>
        rw [h1] at ha; simp only at ha
        have j1 := inv_wrap_then_gate np ne T0 acc a1 _ t (.H t) h ht ht (undo_H _ t) h1
        rw [h.np_eq] at hb ha
        have j2 := inv_addEmitterCnot np ne T0 (a1.gate (.H t)) (c - np) (t - np) j1 (by omega) (by omega) (by omega)
        cases h2 : addOneQubit (addEmitterCnot (a1.gate (.H t)) (c - np) (t - np)) [.H] t with
        | error e => rw [h2] at ha; simp [Except.map] at ha
        | ok a3 =>
          rw [h2] at ha; simp only [Except.map] at ha
          injection ha with ha; rw [← ha]
          exact inv_wrap_then_gate np ne T0 _ a3 _ t (.H t) j2 ht ht (undo_H _ t) h2
    · cases ha
  | Pdag q => simp at ha
  | Y q => simp at ha
  | Z q => simp at ha
  | I q => simp at ha

theorem inv_addGatesFromStr (np ne : Nat) (T0 : PSet) (s s' : St) (gl : List Gate) (h : Inv np ne T0 s)
    (hgl : ∀ g, g ∈ gl → g.WF (np + ne)) (ha : addGatesFromStr s gl = .ok s') : Inv np ne T0 s' := by
  rw [addGatesFromStr_eq] at ha
  exact inv_foldlM np ne T0 gateStep (fun g => g.WF (np + ne)) (fun acc g a' hacc hg hstep => inv_gateFromStr np ne T0 acc a' g hacc hg hstep)
    gl hgl s s' h ha

/-! ### the photon loop and `solve` -/

theorem inv_rref (np ne : Nat) (T0 : PSet) (s : St) (t1 : STab) (brs : List String) (h : Inv np ne T0 s)
    (hr : s.t.rref = .ok (t1, brs)) : Inv np ne T0 { s with t := t1 } := by
  obtain ⟨se, g1⟩ := rref_spanEq_ss s.t t1 brs h.good hr
  exact inv_spanEq np ne T0 s t1 h se g1

theorem inv_photonLoop (np ne : Nat) (T0 : PSet) (js : List Nat) (hjs : ∀ j, j ∈ js → 1 ≤ j ∧ j ≤ np) (s s' : St)
    (h : Inv np ne T0 s) (ha : photonLoop s js = .ok s') : Inv np ne T0 s' := by
  induction js generalizing s with
  | nil => simp only [photonLoop] at ha; injection ha with ha; rw [← ha]; exact h
  | cons j rest ih =>
    have hj := hjs j List.mem_cons_self
    simp only [photonLoop] at ha
    cases h1 : s.t.rref with
    | error e => rw [h1] at ha; cases ha
    | ok v =>
      obtain ⟨t1, brs⟩ := v
      rw [h1] at ha; simp only at ha
      cases h2 : t1.heightFuncList with
      | error e => rw [h2] at ha; cases ha
      | ok hl =>
        rw [h2] at ha; simp only at ha
        have i1 := inv_rref np ne T0 s t1 brs h h1
        have hstep : ∀ s3, (if (0 :: hl).getD j 0 < (0 :: hl).getD (j - 1) 0 then
              match timeReversedMeasurement { s with t := t1 } (j - 1) with
              | .error e => Except.error e
              | .ok s2 => match s2.t.rref with
                | .error e => Except.error e
                | .ok (t2, _) => Except.ok { s2 with t := t2 }
            else Except.ok { s with t := t1 }) = Except.ok s3 → Inv np ne T0 s3 := by
          intro s3 hs3
          split at hs3
          · cases h3 : timeReversedMeasurement { s with t := t1 } (j - 1) with
            | error e => rw [h3] at hs3; cases hs3
            | ok s2 =>
              rw [h3] at hs3; simp only at hs3
              have i2 := inv_timeReversedMeasurement np ne T0 _ s2 (j - 1) i1 (by omega) h3
              cases h4 : s2.t.rref with
              | error e => rw [h4] at hs3; cases hs3
              | ok w =>
                obtain ⟨t2, b2⟩ := w
                rw [h4] at hs3; simp only at hs3
                injection hs3 with hs3; rw [← hs3]
                exact inv_rref np ne T0 s2 t2 b2 i2 h4
          · injection hs3 with hs3; rw [← hs3]; exact i1
        generalize hst : (if (0 :: hl).getD j 0 < (0 :: hl).getD (j - 1) 0 then
              match timeReversedMeasurement { s with t := t1 } (j - 1) with
              | .error e => Except.error e
              | .ok s2 => match s2.t.rref with
                | .error e => Except.error e
                | .ok (t2, _) => Except.ok { s2 with t := t2 }
            else Except.ok { s with t := t1 }) = step at ha hstep
        cases step with
        | error e => cases ha
        | ok s3 =>
          simp only at ha
          have i3 := hstep s3 rfl
          cases h5 : addPhotonAbsorption s3 (j - 1) with
          | error e => rw [h5] at ha; cases ha
          | ok s4 =>
            rw [h5] at ha; simp only at ha
            have i4 := inv_addPhotonAbsorption np ne T0 s3 s4 (j - 1) i3 (by omega) h5
            exact ih (fun j' hj' => hjs j' (List.mem_cons_of_mem _ hj')) s4 i4 ha

/-- the target with `ne` emitter qubits in |0⟩ appended: the tableau `solve` starts from -/
def withEmitters (target : STab) (ne : Nat) : STab :=
  (List.range ne).foldl (fun (acc : STab) _ => (acc.insertQubit acc.n).norm) target

theorem insertQubit_good (t : STab) (hg : t.Good) : (t.insertQubit t.n).Good := by
  have row_lt : ∀ i, i < t.n → (t.insertQubit t.n).row i = (t.row i).insertCol t.n := by
    intro i hi; simp [STab.insertQubit, hi]
  have row_n : (t.insertQubit t.n).row t.n = Zq t.n := by simp [STab.insertQubit]
  constructor
  · intro i hi
    have hi' : i < t.n + 1 := hi
    by_cases e : i < t.n
    · rw [row_lt i e]; exact hg.real i e
    · have : i = t.n := by omega
      rw [this, row_n]; rfl
  · intro i k hi hk
    have hi' : i < t.n + 1 := hi
    have hk' : k < t.n + 1 := hk
    show sp (t.n + 1) _ _ = false
    by_cases e1 : i < t.n <;> by_cases e2 : k < t.n
    · rw [row_lt i e1, row_lt k e2, sp_insertCol _ _ (Nat.le_refl _)]; exact hg.comm i k e1 e2
    · have : k = t.n := by omega
      rw [this, row_lt i e1, row_n]; exact sp_insertCol_Zq _ _ (Nat.le_refl _) _
    · have : i = t.n := by omega
      rw [this, row_lt k e2, row_n, sp_comm]; exact sp_insertCol_Zq _ _ (Nat.le_refl _) _
    · have h1 : i = t.n := by omega
      have h2 : k = t.n := by omega
      rw [h1, h2]; exact sp_self _ _

theorem withEmitters_good (target : STab) (hg : target.Good) (ne : Nat) :
    (withEmitters target ne).Good ∧ (withEmitters target ne).n = target.n + ne := by
  unfold withEmitters
  induction ne with
  | zero => exact ⟨hg, rfl⟩
  | succ k ih =>
    rw [List.range_succ, List.foldl_append]
    simp only [List.foldl]
    refine ⟨norm_good _ (insertQubit_good _ ih.1), ?_⟩
    have hn1 : ∀ t : STab, ((t.insertQubit t.n).norm).n = t.n + 1 := fun _ => rfl
    rw [hn1, ih.2]; omega

/-- **the invariant holds for what `solve` returns**: with `np = target.n` photons and `ne = s.ne` emitters, the recorded circuit run
    forwards from the group of the final working tableau generates exactly the group of `target ⊗ |0…0⟩` -/
theorem solve_inv (target : STab) (hg : target.Good) (s : St) (h : solve target = .ok s) :
    Inv target.n s.ne (withEmitters target s.ne).Spn s := by
  have hne := solve_emitter_count target s h
  unfold solve at h
  cases h0 : determineNEmitters target with
  | error e => rw [h0] at h; cases h
  | ok ne =>
    rw [h0] at h hne; simp only at h
    have ene : s.ne = ne := by injection hne with hne; exact hne.symm
    rw [ene]
    obtain ⟨g0, n0⟩ := withEmitters_good target hg ne
    have i0 : Inv target.n ne (withEmitters target ne).Spn { np := target.n, ne := ne, t := withEmitters target ne, circ := [] } :=
      ⟨rfl, rfl, n0, g0, rfl⟩
    have e0 : (List.range ne).foldl (fun (acc : STab) _ => (acc.insertQubit acc.n).norm) target = withEmitters target ne := rfl
    rw [e0] at h
    cases h1 : photonLoop { np := target.n, ne := ne, t := withEmitters target ne, circ := [] } ((List.range target.n).reverse.map (· + 1)) with
    | error e => rw [h1] at h; cases h
    | ok s1 =>
      rw [h1] at h; simp only at h
      have i1 := inv_photonLoop target.n ne _ _ (by
        intro j hj
        simp only [List.mem_map, List.mem_reverse, List.mem_range] at hj
        obtain ⟨a, ha, e⟩ := hj
        omega) _ s1 i0 h1
      cases h2 : s1.t.rref with
      | error e => rw [h2] at h; cases h
      | ok v =>
        obtain ⟨t2, b⟩ := v
        rw [h2] at h; simp only at h
        have i2 := inv_rref _ _ _ s1 t2 b i1 h2
        split at h
        · cases h
        · cases h3 : t2.inverseCircuit with
          | error e => rw [h3] at h; cases h
          | ok w =>
            obtain ⟨tz, inv⟩ := w
            rw [h3] at h; simp only at h
            obtain ⟨_, _, hwf, _, _⟩ := inverseCircuit_tracks t2 tz inv i2.good h3
            have hn2 : t2.n = target.n + ne := i2.n_eq
            cases h4 : addGatesFromStr { s1 with t := t2 } inv with
            | error e => rw [h4] at h; cases h
            | ok s3 =>
              rw [h4] at h; simp only at h
              have i3 := inv_addGatesFromStr _ _ _ _ s3 inv i2 (fun g hgm => hn2 ▸ hwf g hgm) h4
              refine inv_foldlM _ _ _ _ (fun i => i < ne) ?_ _ (fun i hi => List.mem_range.mp hi) s3 s i3 h
              intro acc i acc' hacc hi hstep
              split at hstep
              · have hq : target.n + i < target.n + ne := by omega
                have hqn : target.n + i < acc.t.n := hacc.n_eq ▸ hq
                refine inv_wrap _ _ _ acc (acc.gate (.X (target.n + i))) acc' _ (target.n + i) (PRow.xg (target.n + i)) hacc hq
                  rfl rfl rfl rfl (gate_good acc (.X (target.n + i)) hqn hacc.good) ?_ ?_ hstep
                · rw [gate_spn acc (.X (target.n + i)) hqn, hacc.n_eq]; rfl
                · intro a; rw [xg_eq_lift]; exact table_undo _ _ _ tX tbl_X a
              · injection hstep with hstep; rw [← hstep]; exact hacc

end Graphiq.Solver
