/-
  Proofs/LCBlock.lean — a local Clifford between two graphs with the same connected components is exactly one local
  Clifford per component (repair of D14).

  * `equation_restrict`: for a vertex set `c` that no edge of the first graph leaves, equation `(i, i')` of the linear
    system of the induced pair, read on the restricted vector, is equation `(c[i], c[i'])` of the whole system;
  * `equation_cross`: the equations between two different components are trivial;
  * `block_solution_iff`: `Q` is a valid solution for `(A, B)` iff every restriction is a valid solution for the induced pair
    (block-diagonal assembly ⇐, restriction ⇒);
  * `sub_simple`, `sub_connected`: the induced graph of a component is simple and connected.
-/
import GraphiqModel.Proofs.LCComp
import GraphiqModel.Proofs.LCSeqLoop
namespace Graphiq.LC
open Graphiq

/-- the restriction of a solution vector to the vertices of `c`, re-indexed by position in `c` -/
def restrictQ (q : Nat → Bool) (c : List Nat) (idx : Nat) : Bool := q (4 * c.getD (idx / 4) 0 + idx % 4)

theorem restrictQ_at (q : Nat → Bool) (c : List Nat) (i t : Nat) (ht : t < 4) :
    restrictQ q c (4 * i + t) = q (4 * c.getD i 0 + t) := by
  unfold restrictQ
  have h1 : (4 * i + t) / 4 = i := by omega
  have h2 : (4 * i + t) % 4 = t := by omega
  rw [h1, h2]

theorem restrictQ_at0 (q : Nat → Bool) (c : List Nat) (i : Nat) : restrictQ q c (4 * i) = q (4 * c.getD i 0) :=
  restrictQ_at q c i 0 (by omega)

/-- the induced subgraph on the vertex list `c`, re-indexed by position (`adj[np.ix_(c, c)]`) -/
def subAdj (A : Adj) (c : List Nat) : Adj := fun i j => A (c.getD i 0) (c.getD j 0)

theorem subMat_f (a : BMat) (c : List Nat) : (subMat a c).f = subAdj a.f c := rfl
theorem subMat_r (a : BMat) (c : List Nat) : (subMat a c).r = c.length := rfl

/-- no edge of `A` joins `c` to a vertex outside `c` -/
def ClosedIn (n : Nat) (A : Adj) (c : List Nat) : Prop :=
  ∀ j ∈ c, ∀ m, m < n → m ∉ c → A m j = false ∧ A j m = false

theorem detQ_restrict (q : Nat → Bool) (c : List Nat) (i : Nat) : detQ (restrictQ q c) i = detQ q (c.getD i 0) := by
  unfold detQ
  rw [restrictQ_at0, restrictQ_at q c i 1 (by omega), restrictQ_at q c i 2 (by omega), restrictQ_at q c i 3 (by omega)]

theorem mem_filter_range (n : Nat) (p : Nat → Bool) (x : Nat) : x ∈ (List.range n).filter p ↔ x < n ∧ p x = true := by
  rw [List.mem_filter, List.mem_range]

theorem filter_range_nodup (n : Nat) (p : Nat → Bool) : ((List.range n).filter p).Nodup :=
  List.Nodup.sublist List.filter_sublist List.nodup_range

theorem getD_inj_of_nodup (c : List Nat) (hn : c.Nodup) (i j : Nat) (hi : i < c.length) (hj : j < c.length) :
    c.getD i 0 = c.getD j 0 ↔ i = j := by
  rw [getD_of_lt c i hi, getD_of_lt c j hj]
  exact List.getElem_inj hn

/-- **restriction of one equation**: on a vertex set (given as a filter of `range n`) that no edge of `A` enters from
    outside, the equation of the induced pair is the equation of the whole pair -/
theorem equation_restrict (n : Nat) (A B : Adj) (p : Nat → Bool) (q : Nat → Bool)
    (hcl : ∀ m, m < n → p m = false → ∀ j ∈ (List.range n).filter p, A m j = false)
    (i i' : Nat) (hi : i < ((List.range n).filter p).length) (hi' : i' < ((List.range n).filter p).length) :
    equation ((List.range n).filter p).length (subAdj A ((List.range n).filter p)) (subAdj B ((List.range n).filter p))
        (restrictQ q ((List.range n).filter p)) i i' =
      equation n A B q (((List.range n).filter p).getD i 0) (((List.range n).filter p).getD i' 0) := by
  generalize hc : (List.range n).filter p = c at *
  have hnd : c.Nodup := by rw [← hc]; exact filter_range_nodup n p
  have hmi : c.getD i 0 ∈ c := getD_mem_of_lt c i hi
  unfold equation
  have e1 : parityTo n (fun m => A m (c.getD i 0) && B m (c.getD i' 0) && q (4 * m + 2)) =
      parityTo c.length (fun m => subAdj A c m i && subAdj B c m i' && restrictQ q c (4 * m + 2)) := by
    have : parityTo n (fun m => A m (c.getD i 0) && B m (c.getD i' 0) && q (4 * m + 2)) =
        parityTo n (fun m => p m && (A m (c.getD i 0) && B m (c.getD i' 0) && q (4 * m + 2))) := by
      apply parityTo_congr
      intro m hm
      cases hp : p m
      · rw [hcl m hm hp _ hmi]; rfl
      · rfl
    rw [this, parityTo_filter n p, hc]
    apply parityTo_congr
    intro m _
    rw [restrictQ_at q c m 2 (by omega)]
    rfl
  rw [e1, restrictQ_at0, restrictQ_at q c i 3 (by omega), restrictQ_at q c i 1 (by omega)]
  have e4 : decide (i = i') = decide (c.getD i 0 = c.getD i' 0) := by
    apply decide_eq_decide.mpr
    exact (getD_inj_of_nodup c hnd i i' hi hi').symm
  rw [e4]
  rfl

/-- **the equations between different components are trivial** -/
theorem equation_cross (n : Nat) (A B : Adj) (q : Nat → Bool) (c1 c2 : List Nat) (j k : Nat) (hj : j ∈ c1) (hk : k ∈ c2)
    (hjn : j < n) (hkn : k < n) (hdis : ∀ v, v ∈ c1 → v ∉ c2) (hA : ClosedIn n A c1) (hB : ClosedIn n B c2) :
    equation n A B q j k = false := by
  have hk1 : k ∉ c1 := fun h => hdis k h hk
  have hj2 : j ∉ c2 := hdis j hj
  have hjk : j ≠ k := fun e => hk1 (e ▸ hj)
  unfold equation
  have e1 : parityTo n (fun m => A m j && B m k && q (4 * m + 2)) = false := by
    apply parityTo_zero
    intro m hm
    by_cases hm1 : m ∈ c1
    · rw [(hB k hk m hm (hdis m hm1)).1]; simp
    · rw [(hA j hj m hm hm1).1]; simp
  rw [e1, (hA j hj k hkn hk1).2, (hB k hk j hjn hj2).1]
  simp [hjk]

/-- a list of vertex sets that partitions `0..n-1`, each given as a filter of `range n` -/
structure Partition (n : Nat) (comps : List (List Nat)) : Prop where
  filt : ∀ c ∈ comps, ∃ p : Nat → Bool, c = (List.range n).filter p
  cover : ∀ v, v < n → ∃ c ∈ comps, v ∈ c
  disjoint : comps.Pairwise fun c1 c2 => ∀ v, v ∈ c1 → v ∉ c2

theorem pairwise_either (l : List (List Nat)) (h : l.Pairwise fun c1 c2 => ∀ v, v ∈ c1 → v ∉ c2) :
    ∀ c1 ∈ l, ∀ c2 ∈ l, c1 = c2 ∨ ∀ v, v ∈ c1 → v ∉ c2 := by
  induction l with
  | nil => intro c1 h1; cases h1
  | cons x l ih =>
    rw [List.pairwise_cons] at h
    intro c1 h1 c2 h2
    rcases List.mem_cons.mp h1 with e1 | m1 <;> rcases List.mem_cons.mp h2 with e2 | m2
    · exact Or.inl (e1.trans e2.symm)
    · rw [e1]; exact Or.inr (h.1 c2 m2)
    · rw [e2]; exact Or.inr (fun v hv hv2 => h.1 c1 m1 v hv2 hv)
    · exact ih h.2 c1 m1 c2 m2

theorem Partition.lt {n : Nat} {comps : List (List Nat)} (hP : Partition n comps) (c : List Nat) (hc : c ∈ comps)
    (v : Nat) (hv : v ∈ c) : v < n := by
  obtain ⟨p, e⟩ := hP.filt c hc
  rw [e] at hv
  exact ((mem_filter_range n p v).mp hv).1

theorem Partition.nodup {n : Nat} {comps : List (List Nat)} (hP : Partition n comps) (c : List Nat) (hc : c ∈ comps) :
    c.Nodup := by
  obtain ⟨p, e⟩ := hP.filt c hc
  rw [e]; exact filter_range_nodup n p

/-- **a local Clifford for a pair of graphs with common components is one local Clifford per component**: `q` satisfies
    every equation of the system for `(A, B)` with invertible blocks iff, for every component, its restriction does so for
    the induced pair.  (⇐: block-diagonal assembly of per-component solutions; ⇒: restriction) -/
theorem block_solution_iff (n : Nat) (A B : Adj) (comps : List (List Nat)) (q : Nat → Bool) (hP : Partition n comps)
    (hA : ∀ c ∈ comps, ClosedIn n A c) (hB : ∀ c ∈ comps, ClosedIn n B c) :
    ((∀ j k, j < n → k < n → equation n A B q j k = false) ∧ ∀ m, m < n → detQ q m = true) ↔
      ∀ c ∈ comps,
        (∀ i i', i < c.length → i' < c.length →
          equation c.length (subAdj A c) (subAdj B c) (restrictQ q c) i i' = false) ∧
        ∀ i, i < c.length → detQ (restrictQ q c) i = true := by
  have hrestr : ∀ c ∈ comps, ∀ i i', i < c.length → i' < c.length →
      equation c.length (subAdj A c) (subAdj B c) (restrictQ q c) i i' =
        equation n A B q (c.getD i 0) (c.getD i' 0) := by
    intro c hc i i' hi hi'
    obtain ⟨p, e⟩ := hP.filt c hc
    subst e
    apply equation_restrict n A B p q _ i i' hi hi'
    intro m hm hpm j hj
    have : m ∉ (List.range n).filter p := by
      intro h; rw [((mem_filter_range n p m).mp h).2] at hpm; cases hpm
    exact (hA _ hc j hj m hm this).1
  constructor
  · rintro ⟨h1, h2⟩ c hc
    refine ⟨fun i i' hi hi' => ?_, fun i hi => ?_⟩
    · rw [hrestr c hc i i' hi hi']
      exact h1 _ _ (hP.lt c hc _ (getD_mem_of_lt c i hi)) (hP.lt c hc _ (getD_mem_of_lt c i' hi'))
    · rw [detQ_restrict]
      exact h2 _ (hP.lt c hc _ (getD_mem_of_lt c i hi))
  · intro h
    refine ⟨fun j k hj hk => ?_, fun m hm => ?_⟩
    · obtain ⟨c1, hc1, hj1⟩ := hP.cover j hj
      obtain ⟨c2, hc2, hk2⟩ := hP.cover k hk
      rcases pairwise_either comps hP.disjoint c1 hc1 c2 hc2 with e | hdis
      · subst e
        obtain ⟨i, hi, ei⟩ := exists_getD_of_mem c1 j hj1
        obtain ⟨i', hi', ei'⟩ := exists_getD_of_mem c1 k hk2
        rw [← ei, ← ei', ← hrestr c1 hc1 i i' hi hi']
        exact (h c1 hc1).1 i i' hi hi'
      · exact equation_cross n A B q c1 c2 j k hj1 hk2 hj hk hdis (hA c1 hc1) (hB c2 hc2)
    · obtain ⟨c, hc, hm1⟩ := hP.cover m hm
      obtain ⟨i, hi, ei⟩ := exists_getD_of_mem c m hm1
      rw [← ei, ← detQ_restrict]
      exact (h c hc).2 i hi

/-! ### the induced graph of a component -/

def Connected (k : Nat) (A : Adj) : Prop := ∀ i j, i < k → j < k → Reach k A i j

theorem sub_simple (n : Nat) (A : Adj) (hA : Simple n A) (c : List Nat) (hc : ∀ v ∈ c, v < n) :
    Simple c.length (subAdj A c) := by
  refine ⟨fun i j hi hj => ?_, fun i hi => ?_⟩
  · exact hA.1 _ _ (hc _ (getD_mem_of_lt c i hi)) (hc _ (getD_mem_of_lt c j hj))
  · exact hA.2 _ (hc _ (getD_mem_of_lt c i hi))

/-- a path of `A` that starts in the class `c` is a path of the induced graph -/
theorem reach_sub (n : Nat) (A : Adj) (s : Nat) (hs : s < n) (i : Nat) (hi : i < (componentOf n A s).length) (y : Nat)
    (r : Reach n A ((componentOf n A s).getD i 0) y) :
    ∃ t, t < (componentOf n A s).length ∧ (componentOf n A s).getD t 0 = y ∧
      Reach (componentOf n A s).length (subAdj A (componentOf n A s)) i t := by
  induction r with
  | refl => exact ⟨i, hi, rfl, Reach.refl _⟩
  | tail r0 hj hk ha ih =>
    rename_i j k
    obtain ⟨t, ht, et, rt⟩ := ih
    have hci := (mem_componentOf n A s hs _).mp (getD_mem_of_lt _ i hi)
    have hkc : k ∈ componentOf n A s :=
      (mem_componentOf n A s hs k).mpr ⟨hk, (hci.2.trans r0).tail hj hk ha⟩
    obtain ⟨t', ht', et'⟩ := exists_getD_of_mem _ k hkc
    refine ⟨t', ht', et', rt.tail ht ht' ?_⟩
    show A _ _ = true
    rw [et, et']; exact ha

/-- **the induced graph of a component is connected** -/
theorem sub_connected (n : Nat) (A : Adj) (hA : ∀ i j, i < n → j < n → A i j = A j i) (s : Nat) (hs : s < n) :
    Connected (componentOf n A s).length (subAdj A (componentOf n A s)) := by
  intro i j hi hj
  have hci := (mem_componentOf n A s hs _).mp (getD_mem_of_lt _ i hi)
  have hcj := (mem_componentOf n A s hs _).mp (getD_mem_of_lt _ j hj)
  obtain ⟨t, ht, et, rt⟩ := reach_sub n A s hs i hi _ ((hci.2.symm hA).trans hcj.2)
  have hnd : (componentOf n A s).Nodup := by rw [componentOf_eq_filter]; exact filter_range_nodup n _
  have : t = j := (getD_inj_of_nodup _ hnd t j ht hj).mp et
  rw [← this]; exact rt

/-- no edge of a symmetric graph leaves a reachability class -/
theorem componentOf_closed (n : Nat) (A : Adj) (hA : ∀ i j, i < n → j < n → A i j = A j i) (s : Nat) (hs : s < n) :
    ClosedIn n A (componentOf n A s) := by
  intro j hj m hm hmc
  have hjc := (mem_componentOf n A s hs j).mp hj
  have h2 : A j m = false := by
    cases h : A j m
    · rfl
    · exact absurd ((mem_componentOf n A s hs m).mpr ⟨hm, hjc.2.tail hjc.1 hm h⟩) hmc
  exact ⟨by rw [hA m j hm hjc.1]; exact h2, h2⟩

/-- the components of a symmetric graph form a `Partition` into closed sets -/
theorem connectedComponents_partition (n : Nat) (A : Adj) (hA : ∀ i j, i < n → j < n → A i j = A j i) :
    Partition n (connectedComponents n A) ∧ (∀ c ∈ connectedComponents n A, ClosedIn n A c) ∧
      ∀ c ∈ connectedComponents n A, ∃ s, s < n ∧ c = componentOf n A s := by
  obtain ⟨h1, h2⟩ := connectedComponents_spec n A hA
  refine ⟨⟨fun c hc => ?_, h2, h1.disjoint⟩, fun c hc => ?_, h1.isClass⟩
  · obtain ⟨s, _, e⟩ := h1.isClass c hc
    exact ⟨_, by rw [e, componentOf_eq_filter]⟩
  · obtain ⟨s, hs, e⟩ := h1.isClass c hc
    rw [e]; exact componentOf_closed n A hA s hs

end Graphiq.LC
