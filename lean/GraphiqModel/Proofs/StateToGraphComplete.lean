/-
  Proofs/StateToGraphComplete.lean — completeness (totality) of the modelled `_graph_finder` as repaired in /repo 86ab4f1:
  on `n` linearly independent, pairwise commuting rows `[X | Z]` (n ≥ 1) none of its assertions fires, for every inverse
  computation that returns a left inverse on matrices with trivial kernel (`InvOK`; the exact `gf2InvF` is one).
  Steps: `row_reduction` keeps independence and commutation and leaves an echelon X part; `_position_finder` returns the non-pivot
  columns; after the Hadamards the X part has trivial kernel (`hadamard_rows_independent`), so the determinant assertion does not
  fire and the inverse passes the re-check `x_inv @ x.T = I`; `final_z = z.T @ x_inv` is symmetric because the rows commute
  (`X Zᵀ = Z Xᵀ`), so "Final Z matrix is not a graph" does not fire.  All sizes.
-/
import GraphiqModel.Proofs.StateToGraphRank
import GraphiqModel.Proofs.StateToGraphInv
namespace Graphiq
namespace S2G
open Matrix

/-! ### `final_z` is symmetric -/

theorem toMat_transpose (n : Nat) (A : Adj) : toMat n (transpose A) = (toMat n A)ᵀ := by
  ext i j; rfl

theorem zmod2_eq_of_add_eq_zero (a b : ZMod 2) (h : a + b = 0) : a = b := by
  revert a b; decide

/-- pairwise commutation of the rows `[x_i | z_i]` is `X Zᵀ = Z Xᵀ` -/
theorem comm_toMat (n : Nat) (x z : Adj)
    (hcomm : ∀ i k, i < n → k < n → bsp n (x i) (z i) (x k) (z k) = false) :
    toMat n x * (toMat n z)ᵀ = toMat n z * (toMat n x)ᵀ := by
  ext i k
  have h := hcomm i.val k.val i.isLt k.isLt
  have h2 : b2z (bsp n (x i.val) (z i.val) (x k.val) (z k.val)) = 0 := by rw [h]; rfl
  unfold bsp at h2
  rw [b2z_parity] at h2
  simp only [b2z_xor, b2z_and, Finset.sum_add_distrib] at h2
  have := zmod2_eq_of_add_eq_zero _ _ h2
  simp only [Matrix.mul_apply, Matrix.transpose_apply, toMat]
  exact this

/-- **`final_z = z.T @ x_inv` is a symmetric matrix** when the rows `[x_i | z_i]` commute pairwise and `x_inv @ x.T = I` -/
theorem finalZ_symm (n : Nat) (x z xinv : Adj)
    (hcomm : ∀ i k, i < n → k < n → bsp n (x i) (z i) (x k) (z k) = false)
    (hinv : ∀ i j, i < n → j < n → matMul n xinv (transpose x) i j = decide (i = j)) :
    ∀ i j, i < n → j < n → matMul n (transpose z) xinv i j = matMul n (transpose z) xinv j i := by
  have hXZ := comm_toMat n x z hcomm
  generalize hX : toMat n x = X at hXZ
  generalize hZ : toMat n z = Z at hXZ
  have hYX : toMat n xinv * Xᵀ = 1 := by
    rw [← hX, ← toMat_transpose, ← toMat_mul]; exact (toMat_one_iff n _).mpr hinv
  generalize hY : toMat n xinv = Y at hYX
  have hXY : Xᵀ * Y = 1 := mul_eq_one_comm.mp hYX
  have hYtX : Yᵀ * X = 1 := by
    have := congrArg Matrix.transpose hXY
    simpa [Matrix.transpose_mul] using this
  have hF : toMat n (matMul n (transpose z) xinv) = Zᵀ * Y := by rw [toMat_mul, toMat_transpose, hZ, hY]
  have hsym : (Zᵀ * Y)ᵀ = Zᵀ * Y := by
    rw [Matrix.transpose_mul, Matrix.transpose_transpose]
    calc Yᵀ * Z = Yᵀ * Z * (Xᵀ * Y) := by rw [hXY, Matrix.mul_one]
      _ = Yᵀ * (Z * Xᵀ) * Y := by simp only [Matrix.mul_assoc]
      _ = Yᵀ * (X * Zᵀ) * Y := by rw [hXZ]
      _ = (Yᵀ * X) * Zᵀ * Y := by simp only [Matrix.mul_assoc]
      _ = Zᵀ * Y := by rw [hYtX, Matrix.one_mul]
  intro i j hi hj
  have := congrFun (congrFun hsym ⟨i, hi⟩) ⟨j, hj⟩
  rw [Matrix.transpose_apply, ← hF] at this
  exact (b2z_inj _ _ this).symm

/-! ### the tail of `_graph_finder` returns -/

theorem graphFinderTail_ok (m2 : XZ) (xinv : Adj) (hpos : List Nat) (rank : Int)
    (hinv : ∀ i j, i < m2.n → j < m2.n → matMul m2.n xinv (transpose m2.x) i j = decide (i = j))
    (hsym : ∀ i j, i < m2.n → j < m2.n →
      matMul m2.n (transpose m2.z) xinv i j = matMul m2.n (transpose m2.z) xinv j i) :
    ∃ g, graphFinderTail m2 xinv hpos rank = .ok g := by
  unfold graphFinderTail
  simp only
  split
  · next h =>
    exfalso
    simp only [Bool.not_eq_true', ← Bool.not_eq_true, List.all_eq_true, List.mem_range, beq_iff_eq] at h
    apply h
    intro i hi j hj
    rw [BMat.norm_agree _ i j hi hj, BMat.norm_agree _ j i hj hi]
    show (if i = j then false else _) = (if j = i then false else _)
    by_cases e : i = j
    · subst e; rfl
    · have e' : ¬ (j = i) := fun h => e h.symm
      rw [if_neg e, if_neg e', BMat.norm_agree _ i j hi hj, BMat.norm_agree _ j i hj hi]
      exact hsym i j hi hj
  · split
    · next h =>
      exfalso
      simp only [Bool.not_eq_true', ← Bool.not_eq_true, List.all_eq_true, List.mem_range, beq_iff_eq] at h
      apply h
      intro i hi j hj
      exact hinv i j hi hj
    · exact ⟨_, rfl⟩

/-! ### `_graph_finder` returns -/

theorem comm_norm (m : XZ) (h : Comm m) : Comm m.norm := comm_of_bequiv (bequiv_norm m) h

/-- **completeness of `_graph_finder`** (every n ≥ 1): on independent, pairwise commuting rows no assertion fires, for every
    inverse computation `inv` that is correct on matrices with trivial kernel -/
theorem graphFinderWith_complete (inv : Nat → Adj → Option Adj) (m0 : XZ) (hn : 0 < m0.n) (hinv : InvOK inv m0.n)
    (hc : Comm m0) (hi : Indep m0) : ∃ g, graphFinderWith inv m0 = .ok g := by
  unfold graphFinderWith
  rw [if_neg (by omega)]
  have hred := bequiv_rowReduction m0.norm hn
  have hech := rowReduction_ech m0.norm hn
  have hind1 := indep_rowReduction m0.norm hn (indep_norm m0 hi)
  generalize hrr : m0.norm.rowReduction = rr at hred hech hind1
  obtain ⟨m1, rank0⟩ := rr
  simp only at hred hech hind1 ⊢
  have hn1 : m1.n = m0.n := hred.2
  have hcomm1 : Comm m1 := comm_of_bequiv hred.1 (comm_norm m0 hc)
  obtain ⟨r, piv, he⟩ := hech
  generalize hpos : positionFinder m0.n m1.x = pos
  have hpm : ∀ q, q ∈ pos ↔ q < m1.n ∧ ∀ i, i < r → piv i ≠ q := by
    rw [← hpos, ← hn1]; exact positionFinder_ech m1 r piv he
  have hrows := hadamard_rows_independent m1 r piv he pos hpm hcomm1 hind1
  generalize hm2 : (m1.hadamardTransform pos).norm = m2
  have hn2 : m2.n = m0.n := by rw [← hm2]; exact hn1
  have hm2x : ∀ i k, i < m0.n → k < m0.n → m2.x i k = hx pos (m1.x i) (m1.z i) k := by
    intro i k hi hk
    rw [← hm2, norm_x _ i k (by show i < m1.n; omega) (by show k < m1.n; omega)]; rfl
  have hm2z : ∀ i k, i < m0.n → k < m0.n → m2.z i k = hx pos (m1.z i) (m1.x i) k := by
    intro i k hi hk
    rw [← hm2, norm_z _ i k (by show i < m1.n; omega) (by show k < m1.n; omega)]; rfl
  -- the transposed X part has trivial kernel
  have hInj : Inj m0.n (transpose m2.x) := by
    intro v hv j hj
    apply hrows v _ j (by omega)
    intro c hcn
    rw [hn1] at hcn ⊢
    rw [← hv c hcn]
    apply parityTo_congr
    intro i hi
    show (v i && hx pos (m1.x i) (m1.z i) c) = (m2.x i c && v i)
    rw [hm2x i c hi hcn, Bool.and_comm]
  obtain ⟨M, eM, hM⟩ := hinv _ hInj
  rw [eM]
  simp only
  -- the rows after the Hadamards still commute
  have hcomm2 : ∀ i k, i < m0.n → k < m0.n → bsp m0.n (m2.x i) (m2.z i) (m2.x k) (m2.z k) = false := by
    intro i k hi hk
    have h1 := hcomm1 i k (by omega) (by omega)
    rw [hn1, ← bsp_hx m0.n pos] at h1
    rw [← h1]
    unfold bsp
    apply parityTo_congr
    intro j hj
    rw [hm2x i j hi hj, hm2x k j hk hj, hm2z i j hi hj, hm2z k j hk hj]
  apply graphFinderTail_ok
  · rw [hn2]; exact hM
  · rw [hn2]; exact finalZ_symm m0.n m2.x m2.z M hcomm2 hM

/-- the matrix handed to the inverse computation (the transposed X part after row reduction and Hadamards) has trivial kernel -/
theorem hadamard_x_inj (m0 : XZ) (hn : 0 < m0.n) (hc : Comm m0) (hi : Indep m0) :
    Inj m0.n (transpose
      ((m0.norm.rowReduction.1.hadamardTransform (positionFinder m0.n m0.norm.rowReduction.1.x)).norm).x) := by
  have hred := bequiv_rowReduction m0.norm hn
  have hech := rowReduction_ech m0.norm hn
  have hind1 := indep_rowReduction m0.norm hn (indep_norm m0 hi)
  generalize m0.norm.rowReduction.1 = m1 at hred hech hind1 ⊢
  have hn1 : m1.n = m0.n := hred.2
  have hcomm1 : Comm m1 := comm_of_bequiv hred.1 (comm_norm m0 hc)
  obtain ⟨r, piv, he⟩ := hech
  generalize hpos : positionFinder m0.n m1.x = pos
  have hpm : ∀ q, q ∈ pos ↔ q < m1.n ∧ ∀ i, i < r → piv i ≠ q := by
    rw [← hpos, ← hn1]; exact positionFinder_ech m1 r piv he
  have hrows := hadamard_rows_independent m1 r piv he pos hpm hcomm1 hind1
  intro v hv j hj
  apply hrows v _ j (by omega)
  intro c hcn
  rw [hn1] at hcn ⊢
  rw [← hv c hcn]
  apply parityTo_congr
  intro i hi
  show (v i && hx pos (m1.x i) (m1.z i) c) = ((m1.hadamardTransform pos).norm.x i c && v i)
  rw [norm_x _ i c (by show i < m1.n; omega) (by show c < m1.n; omega), Bool.and_comm]
  rfl

theorem BMat.norm_congr (a b : BMat) (hr : a.r = b.r) (hc : a.c = b.c)
    (h : ∀ i j, i < a.r → j < a.c → a.f i j = b.f i j) : a.norm = b.norm := by
  obtain ⟨ar, ac, af⟩ := a
  obtain ⟨br, bc, bf⟩ := b
  simp only at hr hc h
  subst hr hc
  unfold BMat.norm
  simp only
  have : (fun i : Fin ar => Array.ofFn (n := ac) fun j => af i.val j.val) =
      (fun i : Fin ar => Array.ofFn (n := ac) fun j => bf i.val j.val) := by
    funext i
    congr 1
    funext j
    exact h i.val j.val i.isLt j.isLt
  rw [this]

theorem all_range_congr (n : Nat) (f g : Nat → Bool) (h : ∀ i, i < n → f i = g i) :
    (List.range n).all f = (List.range n).all g := by
  apply Bool.eq_iff_iff.mpr
  simp only [List.all_eq_true, List.mem_range]
  exact ⟨fun hf i hi => (h i hi) ▸ hf i hi, fun hg i hi => (h i hi).symm ▸ hg i hi⟩

/-- the tail of `_graph_finder` reads the inverse candidate only below `n` -/
theorem graphFinderTail_congr (m2 : XZ) (xinv xinv' : Adj) (hpos : List Nat) (rank : Int)
    (h : ∀ i j, i < m2.n → j < m2.n → xinv i j = xinv' i j) :
    graphFinderTail m2 xinv hpos rank = graphFinderTail m2 xinv' hpos rank := by
  have hfz : (BMat.ofAdj m2.n (matMul m2.n (transpose m2.z) xinv)).norm =
      (BMat.ofAdj m2.n (matMul m2.n (transpose m2.z) xinv')).norm := by
    refine BMat.norm_congr (BMat.ofAdj m2.n (matMul m2.n (transpose m2.z) xinv))
      (BMat.ofAdj m2.n (matMul m2.n (transpose m2.z) xinv')) rfl rfl ?_
    intro i j _ hj
    show matMul m2.n (transpose m2.z) xinv i j = matMul m2.n (transpose m2.z) xinv' i j
    simp only [matMul]
    apply parityTo_congr
    intro k hk
    rw [h k j hk hj]
  have hchk : ((List.range m2.n).all fun i => (List.range m2.n).all fun j =>
      matMul m2.n xinv (transpose m2.x) i j == decide (i = j)) =
      ((List.range m2.n).all fun i => (List.range m2.n).all fun j =>
      matMul m2.n xinv' (transpose m2.x) i j == decide (i = j)) := by
    apply all_range_congr; intro i hi
    apply all_range_congr; intro j _
    have : matMul m2.n xinv (transpose m2.x) i j = matMul m2.n xinv' (transpose m2.x) i j := by
      simp only [matMul]
      apply parityTo_congr
      intro k hk
      rw [h i k hi hk]
    rw [this]
  unfold graphFinderTail
  simp only
  rw [hfz, hchk]

/-- two inverse computations that agree (below `n`) on matrices with trivial kernel give the same `_graph_finder` on stabilizer
    states -/
theorem graphFinderWith_congr (inv inv' : Nat → Adj → Option Adj) (m0 : XZ) (hn : 0 < m0.n) (hc : Comm m0) (hi : Indep m0)
    (h : ∀ A, Inj m0.n A → ∃ M M', inv m0.n A = some M ∧ inv' m0.n A = some M' ∧
      ∀ i j, i < m0.n → j < m0.n → M i j = M' i j) :
    graphFinderWith inv m0 = graphFinderWith inv' m0 := by
  have hinj := hadamard_x_inj m0 hn hc hi
  have hred := bequiv_rowReduction m0.norm hn
  unfold graphFinderWith
  rw [if_neg (by omega), if_neg (by omega)]
  generalize m0.norm.rowReduction = rr at hinj hred
  obtain ⟨m1, rank0⟩ := rr
  simp only at hinj hred ⊢
  obtain ⟨M, M', e, e', hM⟩ := h _ hinj
  rw [e, e']
  simp only
  apply graphFinderTail_congr
  intro i j hi hj
  have hn2 : ((m1.hadamardTransform (positionFinder m0.n m1.x)).norm).n = m0.n := hred.2
  rw [hn2] at hi hj
  exact hM i j hi hj

theorem graphFinder_complete (m0 : XZ) (hn : 0 < m0.n) (hc : Comm m0) (hi : Indep m0) : ∃ g, graphFinder m0 = .ok g :=
  graphFinderWith_complete gf2InvF m0 hn (gf2InvF_ok m0.n) hc hi

end S2G
end Graphiq
