/-
  Proofs/HilbertDimTensor.lean — `tensor([a, b])` of clifford.py is the tensor product of the states, for all sizes.

  * `blockEquiv : Bits (m+n) ≃ Bits m × Bits n` (first `m` qubits | last `n` qubits);
  * `kronB A B` : the Kronecker product `A ⊗ₖ B` of Mathlib re-indexed along `blockEquiv` (qubit 0 is the left-most
    factor, as in `np.kron`);
  * `pauliMat_block` : `pauliMat (m+n) P = pauliMat m P ⊗ pauliMat n (P shifted left by m)`;
  * **`rho_tensor`** : `ρ(tensor2 a b) = ρ(a) ⊗ ρ(b)` — no hypothesis on the tableaux.
-/
import GraphiqModel.Proofs.HilbertDimSite
import GraphiqModel.Proofs.TabSpecOps
namespace Graphiq
namespace Hilbert
open Matrix PRow TabSpec Tab
open scoped Kronecker

/-! ### splitting a bit string into two blocks -/

def leftB {m n : Nat} (b : Bits (m + n)) : Bits m := fun j => bx b j.val
def rightB {m n : Nat} (b : Bits (m + n)) : Bits n := fun j => bx b (m + j.val)
def joinB {m n : Nat} (a : Bits m) (c : Bits n) : Bits (m + n) :=
  fun j => if j.val < m then bx a j.val else bx c (j.val - m)

theorem bx_leftB {m n : Nat} (b : Bits (m + n)) (j : Nat) (hj : j < m) : bx (leftB b) j = bx b j := by
  rw [bx_lt _ _ hj]; rfl
theorem bx_rightB {m n : Nat} (b : Bits (m + n)) (j : Nat) (hj : j < n) : bx (rightB b) j = bx b (m + j) := by
  rw [bx_lt _ _ hj]; rfl
theorem bx_joinB {m n : Nat} (a : Bits m) (c : Bits n) (j : Nat) (hj : j < m + n) :
    bx (joinB a c) j = if j < m then bx a j else bx c (j - m) := by
  rw [bx_lt _ _ hj]; rfl

theorem leftB_joinB {m n : Nat} (a : Bits m) (c : Bits n) : leftB (joinB a c) = a := by
  apply bits_ext; intro j hj
  rw [bx_leftB _ j hj, bx_joinB a c j (by omega), if_pos hj]

theorem rightB_joinB {m n : Nat} (a : Bits m) (c : Bits n) : rightB (joinB a c) = c := by
  apply bits_ext; intro j hj
  rw [bx_rightB _ j hj, bx_joinB a c (m + j) (by omega), if_neg (by omega)]
  congr 1; omega

theorem joinB_left_right {m n : Nat} (b : Bits (m + n)) : joinB (leftB b) (rightB b) = b := by
  apply bits_ext; intro j hj
  rw [bx_joinB _ _ j hj]
  by_cases h : j < m
  · rw [if_pos h, bx_leftB b j h]
  · rw [if_neg h, bx_rightB b (j - m) (by omega)]
    congr 1; omega

/-- **`Bits (m+n) ≃ Bits m × Bits n`** -/
def blockEquiv (m n : Nat) : Bits (m + n) ≃ Bits m × Bits n where
  toFun b := (leftB b, rightB b)
  invFun p := joinB p.1 p.2
  left_inv b := joinB_left_right b
  right_inv p := by
    show (leftB (joinB p.1 p.2), rightB (joinB p.1 p.2)) = p
    rw [leftB_joinB, rightB_joinB]

theorem bits_block_ext {m n : Nat} (a b : Bits (m + n)) : a = b ↔ leftB a = leftB b ∧ rightB a = rightB b := by
  constructor
  · intro h; subst h; exact ⟨rfl, rfl⟩
  · intro ⟨h1, h2⟩
    have := congrArg (blockEquiv m n).symm (show (blockEquiv m n) a = (blockEquiv m n) b from Prod.ext h1 h2)
    simpa using this

/-! ### the Kronecker product of two operators -/

/-- `A` on the first `m` qubits, `B` on the last `n` -/
noncomputable def kronB {m n : Nat} (A : Matrix (Bits m) (Bits m) ℂ) (B : Matrix (Bits n) (Bits n) ℂ) :
    Matrix (Bits (m + n)) (Bits (m + n)) ℂ :=
  Matrix.of fun a b => A (leftB a) (leftB b) * B (rightB a) (rightB b)

theorem kronB_apply {m n : Nat} (A : Matrix (Bits m) (Bits m) ℂ) (B : Matrix (Bits n) (Bits n) ℂ)
    (a b : Bits (m + n)) : kronB A B a b = A (leftB a) (leftB b) * B (rightB a) (rightB b) := rfl

theorem kronB_eq_kronecker {m n : Nat} (A : Matrix (Bits m) (Bits m) ℂ) (B : Matrix (Bits n) (Bits n) ℂ) :
    kronB A B = (A ⊗ₖ B).submatrix (blockEquiv m n) (blockEquiv m n) := rfl

theorem kronB_mul {m n : Nat} (A A' : Matrix (Bits m) (Bits m) ℂ) (B B' : Matrix (Bits n) (Bits n) ℂ) :
    kronB A B * kronB A' B' = kronB (A * A') (B * B') := by
  rw [kronB_eq_kronecker, kronB_eq_kronecker, kronB_eq_kronecker, Matrix.submatrix_mul_equiv, Matrix.mul_kronecker_mul]

theorem kronB_one {m n : Nat} : kronB (1 : Matrix (Bits m) (Bits m) ℂ) (1 : Matrix (Bits n) (Bits n) ℂ) = 1 := by
  rw [kronB_eq_kronecker, Matrix.one_kronecker_one, Matrix.submatrix_one_equiv]

theorem kronB_conjTranspose {m n : Nat} (A : Matrix (Bits m) (Bits m) ℂ) (B : Matrix (Bits n) (Bits n) ℂ) :
    (kronB A B)ᴴ = kronB Aᴴ Bᴴ := by
  ext a b; simp only [Matrix.conjTranspose_apply, kronB_apply, star_mul']

theorem trace_kronB {m n : Nat} (A : Matrix (Bits m) (Bits m) ℂ) (B : Matrix (Bits n) (Bits n) ℂ) :
    Matrix.trace (kronB A B) = Matrix.trace A * Matrix.trace B := by
  rw [kronB_eq_kronecker, trace_submatrix_equiv, Matrix.trace_kronecker]

theorem kronB_add_left {m n : Nat} (A A' : Matrix (Bits m) (Bits m) ℂ) (B : Matrix (Bits n) (Bits n) ℂ) :
    kronB (A + A') B = kronB A B + kronB A' B := by
  ext a b; simp only [kronB_apply, Matrix.add_apply, add_mul]
theorem kronB_add_right {m n : Nat} (A : Matrix (Bits m) (Bits m) ℂ) (B B' : Matrix (Bits n) (Bits n) ℂ) :
    kronB A (B + B') = kronB A B + kronB A B' := by
  ext a b; simp only [kronB_apply, Matrix.add_apply, mul_add]
theorem kronB_smul_left {m n : Nat} (c : ℂ) (A : Matrix (Bits m) (Bits m) ℂ) (B : Matrix (Bits n) (Bits n) ℂ) :
    kronB (c • A) B = c • kronB A B := by
  ext a b; simp only [kronB_apply, Matrix.smul_apply, smul_eq_mul]; ring
theorem kronB_smul_right {m n : Nat} (c : ℂ) (A : Matrix (Bits m) (Bits m) ℂ) (B : Matrix (Bits n) (Bits n) ℂ) :
    kronB A (c • B) = c • kronB A B := by
  ext a b; simp only [kronB_apply, Matrix.smul_apply, smul_eq_mul]; ring

/-! ### the matrix of a Pauli row factorises across the cut -/

/-- the sites `m, m+1, …` of a row, moved to `0, 1, …`, without phase -/
def tailRow (m : Nat) (P : PRow) : PRow := ⟨fun j => P.x (m + j), fun j => P.z (m + j), false, false⟩

theorem flip_block {m n : Nat} (x : Nat → Bool) (b : Bits (m + n)) :
    leftB (flip x b) = flip x (leftB b) ∧ rightB (flip x b) = flip (fun j => x (m + j)) (rightB b) := by
  constructor
  · apply bits_ext; intro j hj
    rw [bx_leftB _ j hj, bx_flip _ _ _ (by omega), bx_flip _ _ _ hj, bx_leftB _ j hj]
  · apply bits_ext; intro j hj
    rw [bx_rightB _ j hj, bx_flip _ _ _ (by omega), bx_flip _ _ _ hj, bx_rightB _ j hj]

theorem pexp_block (m n : Nat) (P : PRow) (b : Bits (m + n)) :
    pexp (m + n) P b = pexp m P (leftB b) + pexp n (tailRow m P) (rightB b) := by
  unfold pexp
  rw [sumTo_split]
  have e1 : sumTo m (fun j => sFun (P.x j) (P.z j) (bx b j)) = sumTo m (fun j => sFun (P.x j) (P.z j) (bx (leftB b) j)) :=
    sumTo_congr m _ _ (fun j hj => by rw [bx_leftB b j hj])
  have e2 : sumTo n (fun j => sFun (P.x (m + j)) (P.z (m + j)) (bx b (m + j)))
      = sumTo n (fun j => sFun ((tailRow m P).x j) ((tailRow m P).z j) (bx (rightB b) j)) :=
    sumTo_congr n _ _ (fun j hj => by rw [bx_rightB b j hj]; rfl)
  have e3 : (tailRow m P).ph = 0 := rfl
  rw [e1, e2, e3]; omega

/-- **Kronecker structure across a cut.**  `pauliMat (m+n) P = pauliMat m P ⊗ pauliMat n (P on the last n sites)`
    (the phase bits are carried by the first factor) -/
theorem pauliMat_block (m n : Nat) (P : PRow) :
    pauliMat (m + n) P = kronB (pauliMat m P) (pauliMat n (tailRow m P)) := by
  ext a b
  rw [kronB_apply, pauliMat_apply, pauliMat_apply, pauliMat_apply]
  have hf : a = flip P.x b ↔ leftB a = flip P.x (leftB b) ∧ rightB a = flip (tailRow m P).x (rightB b) := by
    rw [bits_block_ext, (flip_block P.x b).1, (flip_block P.x b).2]
    rfl
  by_cases h1 : leftB a = flip P.x (leftB b)
  · by_cases h2 : rightB a = flip (tailRow m P).x (rightB b)
    · rw [if_pos (hf.mpr ⟨h1, h2⟩), if_pos h1, if_pos h2, pexp_block, iPow_add]
    · rw [if_neg (fun h => h2 (hf.mp h).2), if_neg h2, mul_zero]
  · rw [if_neg (fun h => h1 (hf.mp h).1), if_neg h1, zero_mul]

/-- a row of the left factor, embedded: `P ⊗ 1` -/
theorem pauliMat_truncCols (m n : Nat) (P : PRow) :
    pauliMat (m + n) (P.truncCols m) = kronB (pauliMat m P) 1 := by
  rw [pauliMat_block]
  have e1 : EqOn m (P.truncCols m) P := by
    refine ⟨fun j hj => ?_, rfl, rfl⟩
    simp [PRow.truncCols, hj]
  have e2 : EqOn n (tailRow m (P.truncCols m)) PRow.one := by
    refine ⟨fun j _ => ?_, rfl, rfl⟩
    simp [tailRow, PRow.truncCols, PRow.one]
  rw [pauliMat_congr m _ _ e1, pauliMat_congr n _ _ e2, pauliMat_one]

/-- a row of the right factor, embedded: `1 ⊗ Q` -/
theorem pauliMat_shiftCols (m n : Nat) (Q : PRow) :
    pauliMat (m + n) (Q.shiftCols m) = kronB 1 (pauliMat n Q) := by
  rw [pauliMat_block]
  have e1 : pauliMat m (Q.shiftCols m) = iPow Q.ph • 1 := by
    rw [pauliMat_phase]
    have : EqOn m (bare (Q.shiftCols m)) PRow.one := by
      refine ⟨fun j hj => ?_, rfl, rfl⟩
      simp [bare, PRow.shiftCols, PRow.one, hj]
    rw [pauliMat_congr m _ _ this, pauliMat_one]
    rfl
  have e2 : EqOn n (tailRow m (Q.shiftCols m)) (bare Q) := by
    refine ⟨fun j _ => ?_, rfl, rfl⟩
    simp [tailRow, PRow.shiftCols, bare]
  rw [e1, pauliMat_congr n _ _ e2, kronB_smul_left, ← kronB_smul_right, ← pauliMat_phase]

theorem proj_truncCols (m n : Nat) (P : PRow) : proj (m + n) (P.truncCols m) = kronB (proj m P) 1 := by
  unfold proj
  rw [pauliMat_truncCols, kronB_smul_left, kronB_add_left, kronB_one]

theorem proj_shiftCols (m n : Nat) (Q : PRow) : proj (m + n) (Q.shiftCols m) = kronB 1 (proj n Q) := by
  unfold proj
  rw [pauliMat_shiftCols, kronB_smul_right, kronB_add_right, kronB_one]

/-! ### products of generators -/

theorem rhoTo_add (N : Nat) (r : Nat → PRow) (k l : Nat) :
    rhoTo N r (k + l) = rhoTo N r k * rhoTo N (fun i => r (k + i)) l := by
  induction l with
  | zero => show rhoTo N r k = rhoTo N r k * 1; rw [Matrix.mul_one]
  | succ j ih =>
    show rhoTo N r (k + j) * proj N (r (k + j)) = rhoTo N r k * (rhoTo N (fun i => r (k + i)) j * proj N (r (k + j)))
    rw [ih, Matrix.mul_assoc]

theorem kronB_rhoTo_left (m n : Nat) (r : Nat → PRow) (k : Nat) :
    kronB (rhoTo m r k) (1 : Matrix (Bits n) (Bits n) ℂ) = rhoTo (m + n) (fun i => (r i).truncCols m) k := by
  induction k with
  | zero => exact kronB_one
  | succ j ih =>
    show kronB (rhoTo m r j * proj m (r j)) 1 = rhoTo (m + n) _ j * proj (m + n) ((r j).truncCols m)
    rw [← ih, proj_truncCols, kronB_mul, Matrix.mul_one]

theorem kronB_rhoTo_right (m n : Nat) (r : Nat → PRow) (k : Nat) :
    kronB (1 : Matrix (Bits m) (Bits m) ℂ) (rhoTo n r k) = rhoTo (m + n) (fun i => (r i).shiftCols m) k := by
  induction k with
  | zero => exact kronB_one
  | succ j ih =>
    show kronB 1 (rhoTo n r j * proj n (r j)) = rhoTo (m + n) _ j * proj (m + n) ((r j).shiftCols m)
    rw [← ih, proj_shiftCols, kronB_mul, Matrix.mul_one]

/-- **`tensor` on density matrices**: `ρ(tensor([a, b])) = ρ(a) ⊗ ρ(b)`, for all tableaux of all sizes -/
theorem rho_tensor (a b : Tab) :
    rho (a.n + b.n) (STab.ofTab (tensor2 a b)) = kronB (rho a.n (STab.ofTab a)) (rho b.n (STab.ofTab b)) := by
  have hsplit : kronB (rho a.n (STab.ofTab a)) (rho b.n (STab.ofTab b))
      = kronB (rho a.n (STab.ofTab a)) 1 * kronB 1 (rho b.n (STab.ofTab b)) := by
    rw [kronB_mul, Matrix.mul_one, Matrix.one_mul]
  rw [hsplit]
  show rhoTo (a.n + b.n) (STab.ofTab (tensor2 a b)).row (a.n + b.n)
    = kronB (rhoTo a.n (STab.ofTab a).row a.n) 1 * kronB 1 (rhoTo b.n (STab.ofTab b).row b.n)
  rw [kronB_rhoTo_left, kronB_rhoTo_right, rhoTo_add]
  congr 1
  · apply rhoTo_congr
    intro i hi
    show EqOn (a.n + b.n) { (tensor2 a b).stab i with ip := false } (({ a.stab i with ip := false } : PRow).truncCols a.n)
    rw [tensor_stab_left a b i hi]
    exact EqOn.refl _ _
  · apply rhoTo_congr
    intro i hi
    show EqOn (a.n + b.n) { (tensor2 a b).stab (a.n + i) with ip := false }
      (({ b.stab i with ip := false } : PRow).shiftCols a.n)
    rw [tensor_stab_right a b (a.n + i) (by omega) (by omega)]
    have : a.n + i - a.n = i := by omega
    rw [this]
    exact EqOn.refl _ _

end Hilbert
end Graphiq
