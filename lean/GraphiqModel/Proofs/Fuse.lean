/-
  Fuse.lean — the list edit that `group_one_qubit_gates` performs on the operation sequence of one wire (C12), as pure
  list functions:

    * `gOp o`        — the operation is groupable (label "one-qubit" and a genuine one-qubit gate class);
    * `kindsOf o`    — the gate classes the loop appends for it (`op.operations` of a wrapper, else `[type(op)]`);
    * `runKinds run` — the gate list built for a run of adjacent groupable operations given in wire order: the loop
                       walks the wire backwards, so the classes of the LAST operation come first (= the wrapper's
                       "matrix order": `unwrap()` reverses it again);
    * `fuseWire r l` — scan the wire; every maximal run of adjacent groupable operations is replaced by ONE wrapper on
                       register `r` with gate list `runKinds run` (nothing at all if that list is empty — a run of
                       empty wrappers); every other operation stays where it is;
    * `fuseBack`     — the same computed the way the code does it (backwards, with the pending gate list);
    * `flatOps`      — the flattened sequence of a wire: the primitive gate classes of groupable operations in
                       application order, every other operation as it is.
  Proved here: `fuseBack = fuseWire` and `flatOps (fuseWire r l) = flatOps l`.
-/
import GraphiqModel.Proofs.PrepOrder
set_option linter.unusedSectionVars false
set_option linter.unusedSimpArgs false
namespace Graphiq
namespace Dag

/-- `groupable` of `group_one_qubit_gates`, as a predicate of the operation held by the node -/
def gOp (o : Op) : Bool := o.indexKeys.contains "one-qubit" && o.kind.isOneQubitBase

/-- `gate_list += op.operations` / `gate_list.append(op.__class__)` -/
def kindsOf (o : Op) : List Kind := if o.kind = .wrapper then o.inner else [o.kind]

/-- the gate list the loop builds for a run (wire order) of groupable operations: last operation first -/
def runKinds (run : List Op) : List Kind := run.reverse.flatMap kindsOf

/-- `OneQubitGateWrapper(gate_list, register, reg_type)` -/
def wrapperOn (r : Reg) (gates : List Kind) : Op := ⟨.wrapper, [r], [], ["one-qubit"], gates⟩

/-- `if … and gate_list: insert_at(OneQubitGateWrapper(gate_list, …))` -/
def flushK (r : Reg) (gates : List Kind) : List Op := if gates = [] then [] else [wrapperOn r gates]

/-- what a maximal run is replaced by -/
def fuseRun (r : Reg) (run : List Op) : List Op := flushK r (runKinds run)

/-- forward scan; `run` = the groupable operations collected since the last non-groupable one (wire order) -/
def fuseFwd (r : Reg) : List Op → List Op → List Op
  | run, [] => fuseRun r run
  | run, o :: t => if gOp o then fuseFwd r (run ++ [o]) t else fuseRun r run ++ o :: fuseFwd r [] t

/-- **the list edit of `group_one_qubit_gates` on one wire** -/
def fuseWire (r : Reg) (l : List Op) : List Op := fuseFwd r [] l

/-- the backward scan of the code: the list is the part of the wire still to visit, nearest operation first; `gates`
    is the pending gate list -/
def fuseBack (r : Reg) : List Op → List Kind → List Op
  | [], gates => flushK r gates
  | o :: rest, gates => if gOp o then fuseBack r rest (gates ++ kindsOf o) else fuseBack r rest [] ++ o :: flushK r gates

theorem runKinds_nil : runKinds [] = [] := rfl

theorem runKinds_cons (o : Op) (run : List Op) : runKinds (o :: run) = runKinds run ++ kindsOf o := by
  simp [runKinds, List.flatMap_append]

theorem runKinds_append (a b : List Op) : runKinds (a ++ b) = runKinds b ++ runKinds a := by
  simp [runKinds, List.flatMap_append]

/-- a stretch of groupable operations only extends the pending gate list -/
theorem fuseBack_run (r : Reg) (pre : List Op) (hpre : ∀ o ∈ pre, gOp o = true) (rest : List Op) (gates : List Kind) :
    fuseBack r (pre.reverse ++ rest) gates = fuseBack r rest (gates ++ runKinds pre) := by
  induction pre generalizing rest with
  | nil => simp [runKinds]
  | cons a t ih =>
    rw [List.reverse_cons, List.append_assoc, ih (fun o ho => hpre o (List.mem_cons_of_mem _ ho))]
    simp only [List.singleton_append, fuseBack, hpre a (by simp), if_true, runKinds_cons, List.append_assoc]

/-- a non-groupable operation splits the scan -/
theorem fuseBack_split (r : Reg) (x : List Op) (o : Op) (ho : gOp o = false) (y : List Op) (gates : List Kind) :
    fuseBack r (x ++ o :: y) gates = fuseBack r y [] ++ o :: fuseBack r x gates := by
  induction x generalizing gates with
  | nil => simp [fuseBack, ho]
  | cons a t ih =>
    by_cases ha : gOp a = true
    · simp only [List.cons_append, fuseBack, ha, if_true, ih]
    · simp only [List.cons_append, fuseBack, ha, Bool.false_eq_true, if_false, ih, List.append_assoc, List.cons_append]

/-- **the backward scan of the code computes the forward description** -/
theorem fuseBack_eq_fuseFwd (r : Reg) (l : List Op) :
    ∀ pre : List Op, (∀ o ∈ pre, gOp o = true) → fuseBack r (pre ++ l).reverse [] = fuseFwd r pre l := by
  induction l with
  | nil =>
    intro pre hpre
    have := fuseBack_run r pre hpre [] []
    simp only [List.append_nil, List.nil_append] at this ⊢
    rw [this]; rfl
  | cons o t ih =>
    intro pre hpre
    by_cases ho : gOp o = true
    · have := ih (pre ++ [o]) (by
        intro a ha
        rcases List.mem_append.mp ha with ha | ha
        · exact hpre a ha
        · simp at ha; rw [ha]; exact ho)
      simp only [fuseFwd, ho, if_true]
      rw [← this]; simp
    · have ho' : gOp o = false := by simpa using ho
      simp only [fuseFwd, ho, Bool.false_eq_true, if_false]
      rw [List.reverse_append, List.reverse_cons, List.append_assoc, List.singleton_append,
        fuseBack_split r t.reverse o ho' pre.reverse []]
      have h1 := fuseBack_run r pre hpre [] []
      simp only [List.append_nil, List.nil_append] at h1
      have h2 := ih [] (by simp)
      simp only [List.nil_append] at h2
      rw [h1, h2]; rfl

theorem fuseBack_eq_fuseWire (r : Reg) (l : List Op) : fuseBack r l.reverse [] = fuseWire r l := by
  have := fuseBack_eq_fuseFwd r l [] (by simp)
  simpa [fuseWire] using this

/-! ## the flattened sequence is unchanged -/

/-- the flattened sequence of a wire: primitive gate classes (application order) of groupable operations, every other
    operation as it is -/
def flatOps (l : List Op) : List (Kind ⊕ Op) :=
  l.flatMap fun o => if gOp o then (kindsOf o).reverse.map Sum.inl else [Sum.inr o]

theorem flatOps_append (a b : List Op) : flatOps (a ++ b) = flatOps a ++ flatOps b := by
  simp [flatOps, List.flatMap_append]

theorem flatOps_run (run : List Op) (h : ∀ o ∈ run, gOp o = true) : flatOps run = (runKinds run).reverse.map Sum.inl := by
  induction run with
  | nil => rfl
  | cons a t ih =>
    rw [runKinds_cons, List.reverse_append, List.map_append, ← ih (fun o ho => h o (List.mem_cons_of_mem _ ho))]
    simp [flatOps, h a (by simp)]

theorem gOp_wrapperOn (r : Reg) (gates : List Kind) : gOp (wrapperOn r gates) = true := by
  simp [gOp, wrapperOn, Op.indexKeys, Kind.isOneQubitBase]

theorem flatOps_fuseRun (r : Reg) (run : List Op) (h : ∀ o ∈ run, gOp o = true) : flatOps (fuseRun r run) = flatOps run := by
  rw [flatOps_run run h]
  unfold fuseRun flushK
  by_cases hk : runKinds run = []
  · rw [if_pos hk, hk]; rfl
  · rw [if_neg hk]
    have hg := gOp_wrapperOn r (runKinds run)
    have hkk : kindsOf (wrapperOn r (runKinds run)) = runKinds run := by simp [kindsOf, wrapperOn]
    simp [flatOps, hg, hkk]

theorem flatOps_fuseFwd (r : Reg) (l : List Op) :
    ∀ run : List Op, (∀ o ∈ run, gOp o = true) → flatOps (fuseFwd r run l) = flatOps (run ++ l) := by
  induction l with
  | nil => intro run h; simp only [fuseFwd, List.append_nil]; exact flatOps_fuseRun r run h
  | cons o t ih =>
    intro run h
    by_cases ho : gOp o = true
    · simp only [fuseFwd, ho, if_true]
      rw [ih (run ++ [o]) (by
        intro a ha
        rcases List.mem_append.mp ha with ha | ha
        · exact h a ha
        · simp at ha; rw [ha]; exact ho)]
      simp
    · simp only [fuseFwd, ho, Bool.false_eq_true, if_false]
      have e : fuseRun r run ++ o :: fuseFwd r [] t = fuseRun r run ++ ([o] ++ fuseFwd r [] t) := rfl
      have e2 : run ++ o :: t = run ++ ([o] ++ t) := rfl
      rw [e, e2, flatOps_append, flatOps_append, flatOps_append, flatOps_append, flatOps_fuseRun r run h, ih [] (by simp)]
      rfl

/-- **fusing does not change the flattened sequence of the wire** -/
theorem flatOps_fuseWire (r : Reg) (l : List Op) : flatOps (fuseWire r l) = flatOps l := by
  have := flatOps_fuseFwd r l [] (by simp)
  simpa [fuseWire] using this

end Dag
end Graphiq
