/-
  Proofs/MixtureDMMeasure.lean — Z measurements on a stabilizer mixture at the Hilbert-space level, every number of qubits.

  HISTORICAL (graphiq before the repair of finding F2; `Mix.measureOld`): `MixedStabilizer.apply_measurement` measured every
  branch on its own.  When all branches agree on "random?" and on the
  outcome (`uniformMeas`, the flag the model's `StabSt.nonUniform` accumulates), per-branch measurement *is* the joint
  measurement of `R = Σ_k w_k ρ(T_k)`:

  * all branches random (`measure_random`): the new mixture stands for `2 · Π_o R Π_o` (`o` the forced outcome), and
    `tr(R Π_0) = tr(R Π_1) = (Σ w_k)/2`;
  * all branches deterministic with the same outcome `o` (`measure_det`): the mixture is unchanged, `Π_o R Π_o = R`,
    `tr(R Π_o) = Σ w_k`, `tr(R Π_¬o) = 0`.

  Also: reality of the stabilizer rows (`StabReal`, needed by the measurement theorems of HilbertMeasure) is an invariant of
  every step of the mixture compile (`MixGood`).
-/
import GraphiqModel.Proofs.MixtureDMPhysical
namespace Graphiq
namespace MixDM
open Matrix Hilbert Noise DM PRow

/-! ### the invariant: every branch is a valid `n`-qubit tableau with real stabilizer rows -/

def MixGood (n : Nat) (m : Mixture) : Prop := ∀ x ∈ m, x.2.n = n ∧ x.2.Valid ∧ x.2.StabReal

theorem MixGood.ok {n : Nat} {m : Mixture} (h : MixGood n m) : MixOK n m := fun x hx => ⟨(h x hx).1, (h x hx).2.1⟩
theorem MixGood.mixN {n : Nat} {m : Mixture} (h : MixGood n m) : MixN n m := fun x hx => (h x hx).1
theorem MixGood.tail {n : Nat} {x : Rat × Tab} {m : Mixture} (h : MixGood n (x :: m)) : MixGood n m :=
  fun y hy => h y (List.mem_cons_of_mem _ hy)
theorem MixGood.head {n : Nat} {x : Rat × Tab} {m : Mixture} (h : MixGood n (x :: m)) :
    x.2.n = n ∧ x.2.Valid ∧ x.2.StabReal := h x List.mem_cons_self

def MixReal (m : Mixture) : Prop := ∀ x ∈ m, x.2.StabReal

theorem mixGood_of (n : Nat) (m : Mixture) (h1 : MixOK n m) (h2 : MixReal m) : MixGood n m :=
  fun x hx => ⟨(h1 x hx).1, (h1 x hx).2, h2 x hx⟩

theorem norm_stabReal (t : Tab) (hr : t.StabReal) : t.norm.StabReal := by
  intro i h1 h2
  have h2' : i < 2 * t.n := h2
  rw [Tab.norm_row t i h2']
  exact hr i h1 h2'

theorem mapTab_real (f : Tab → Tab) (hf : ∀ t : Tab, t.StabReal → (f t).StabReal) (m : Mixture) (hm : MixReal m) :
    MixReal (Mix.mapTab f m) := by
  intro x hx
  simp only [Mix.mapTab, List.mem_map] at hx
  obtain ⟨⟨p, t⟩, hy, rfl⟩ := hx
  exact norm_stabReal _ (hf t (hm (p, t) hy))

theorem reduce_real (fuel : Nat) (m : Mixture) (hm : MixReal m) : MixReal (Mix.reduce fuel m) := by
  intro x hx
  obtain ⟨y, hy, e⟩ := reduce_tabs fuel m x hx
  rw [e]; exact hm y hy

theorem applyNoise_real (nm : NoiseM) (q : Nat) (m m' : Mixture) (hm : MixReal m)
    (h : Mix.applyNoise nm q m = .ok m') : MixReal m' := by
  cases nm with
  | none => simp [Mix.applyNoise] at h; subst h; exact hm
  | depol p a =>
    simp only [Mix.applyNoise] at h
    rw [Mix.depolarize_unfold] at h
    split at h; · cases h
    split at h; · cases h
    injection h with h; subst h
    apply reduce_real
    intro x hx
    simp only [List.mem_flatMap, Mix.depolBranch, List.mem_filterMap, List.mem_range] at hx
    obtain ⟨⟨pi, ti⟩, hy, k, _, hk⟩ := hx
    simp only at hk
    split at hk
    · injection hk with hk; subst hk
      show (Mix.pauliGate k ti q).norm.StabReal
      rw [pauliGate_eq]
      exact norm_stabReal _ (gate_stabReal ti _ (hm (pi, ti) hy))
    · cases hk
  | pauli k a =>
    simp only [Mix.applyNoise] at h
    cases k <;> simp only [Mix.pauliError] at h
    · injection h with h; subst h; exact hm
    · injection h with h; subst h; exact mapTab_real _ (fun t hr => gate_stabReal t (.X q) hr) m hm
    · injection h with h; subst h; exact mapTab_real _ (fun t hr => gate_stabReal t (.Y q) hr) m hm
    · injection h with h; subst h; exact mapTab_real _ (fun t hr => gate_stabReal t (.Z q) hr) m hm
    · cases h
  | loss r a =>
    simp [Mix.applyNoise] at h; subst h
    intro x hx
    simp only [Mix.photonLoss, List.mem_map] at hx
    obtain ⟨⟨p, t⟩, hy, rfl⟩ := hx
    exact hm (p, t) hy
  | replace => simp [Mix.applyNoise] at h
  | other => simp [Mix.applyNoise] at h

theorem zMeasure_stabReal (t : Tab) (hv : t.Valid) (hr : t.StabReal) (q : Nat) (o : Bool) : (t.zMeasure q o).1.StabReal := by
  unfold Tab.zMeasure
  split
  · next p hp =>
    obtain ⟨h1, h2, _⟩ := Tab.pivot_spec t q p hp
    exact measRandom_stabReal t hv hr q p o h1 h2
  · exact hr

theorem measureOld_ok (n q : Nat) (hq : q < n) (det : Bool) (m : Mixture) (hm : MixOK n m) :
    MixOK n (Mix.measureOld q det m).1 := by
  intro x hx
  simp only [Mix.measureOld, List.map_map, List.mem_map] at hx
  obtain ⟨⟨p, t⟩, hy, rfl⟩ := hx
  obtain ⟨h1, h2⟩ := hm (p, t) hy
  simp only [Function.comp]
  refine ⟨?_, ?_⟩
  · rw [Tab.norm_n, Tab.zMeasure_n]; exact h1
  · exact Tab.norm_valid _ (Tab.zMeasure_valid t q det (h1 ▸ hq) h2)

theorem measure_good (n q : Nat) (hq : q < n) (det : Bool) (m : Mixture) (hm : MixGood n m) :
    MixGood n (Mix.measureOld q det m).1 := by
  apply mixGood_of n _ (measureOld_ok n q hq det m hm.ok)
  intro x hx
  simp only [Mix.measureOld, List.map_map, List.mem_map] at hx
  obtain ⟨⟨p, t⟩, hy, rfl⟩ := hx
  obtain ⟨_, h2, h3⟩ := hm (p, t) hy
  exact norm_stabReal _ (zMeasure_stabReal t h2 h3 q det)

/-! ### the Z projectors -/

/-- `Π_s = (1 + (−1)^s Z_q)/2` -/
noncomputable def projZ (n q : Nat) (s : Bool) : HMat n := proj n (Zq q s)

theorem projZ_idem (n q : Nat) (s : Bool) : projZ n q s * projZ n q s = projZ n q s := proj_idem n _ rfl
theorem projZ_herm (n q : Nat) (s : Bool) : (projZ n q s)ᴴ = projZ n q s := proj_hermitian n _ rfl

theorem trace_mul_projZ {n : Nat} (q : Nat) (s : Bool) (R : HMat n) :
    (R * projZ n q s).trace = (projZ n q s * R * projZ n q s).trace := by
  rw [Matrix.trace_mul_cycle, projZ_idem, Matrix.trace_mul_comm]

/-! ### one branch -/

/-- random branch of one tableau: the measured, tabulated tableau is `2 Π_o ρ Π_o`; both outcomes have probability ½ -/
theorem branch_random (n : Nat) (t : Tab) (hn : t.n = n) (hv : t.Valid) (hr : t.StabReal) (q : Nat) (hq : q < n) (det : Bool)
    (p : Nat) (hp : t.pivot q = some p) :
    tabRho n (t.zMeasure q det).1.norm = (2 : ℂ) • (projZ n q det * tabRho n t * projZ n q det) ∧
    (t.zMeasure q det).2.1 = det ∧
    ∀ s, (tabRho n t * projZ n q s).trace = 1 / 2 := by
  subst hn
  obtain ⟨h1, h2, h3⟩ := Tab.pivot_spec t q p hp
  have e : t.zMeasure q det = (t.measRandom q p det, det, p) := by unfold Tab.zMeasure; rw [hp]
  rw [e]
  refine ⟨?_, rfl, ?_⟩
  · show tabRho t.n (t.measRandom q p det).norm = _
    rw [tabRho_norm t.n (t.measRandom q p det) rfl]
    show rho t.n (STab.ofTab (t.measRandom q p det)) = _
    have := measRandom_state t hv hr q p det hq h1 h2 h3
    unfold projZ tabRho
    rw [this, smul_smul]
    norm_num
  · intro s
    rw [trace_mul_projZ]
    exact measRandom_prob t hv hr q p s hq h1 h2 h3

/-- deterministic branch of one tableau -/
theorem branch_det (n : Nat) (t : Tab) (hn : t.n = n) (hv : t.Valid) (hr : t.StabReal) (q : Nat) (hq : q < n) (det : Bool)
    (hp : t.pivot q = none) :
    tabRho n (t.zMeasure q det).1.norm = tabRho n t ∧
    projZ n q (t.zMeasure q det).2.1 * tabRho n t * projZ n q (t.zMeasure q det).2.1 = tabRho n t ∧
    (tabRho n t * projZ n q (t.zMeasure q det).2.1).trace = 1 ∧
    (tabRho n t * projZ n q (!(t.zMeasure q det).2.1)).trace = 0 := by
  subst hn
  have e : t.zMeasure q det = (t, (t.measScratch q).r, 0) := by unfold Tab.zMeasure; rw [hp]
  rw [e]
  obtain ⟨_, h2, h3⟩ := measDet_state t hv hr q hq hp
  refine ⟨tabRho_norm t.n t rfl, h2, ?_, ?_⟩
  · rw [trace_mul_projZ]
    show (proj t.n (Zq q (t.measScratch q).r) * rho t.n (STab.ofTab t) * proj t.n (Zq q (t.measScratch q).r)).trace = 1
    rw [h2]; exact rho_ofTab_trace t hv
  · rw [Matrix.trace_mul_comm]
    show (proj t.n (Zq q (!(t.measScratch q).r)) * rho t.n (STab.ofTab t)).trace = 0
    rw [h3]; simp

/-! ### the mixture, all branches alike -/

/-- every branch agrees with `(r0, o0)` on "random?" and on the outcome -/
def Uniform (q : Nat) (det : Bool) (r0 o0 : Bool) (m : Mixture) : Prop :=
  ∀ x ∈ m, (x.2.pivot q).isSome = r0 ∧ (x.2.zMeasure q det).2.1 = o0

theorem uniformMeas_spec (q : Nat) (det : Bool) (w0 : Rat) (t0 : Tab) (rest : Mixture)
    (h : uniformMeas q det ((w0, t0) :: rest) = true) :
    Uniform q det (t0.pivot q).isSome (t0.zMeasure q det).2.1 ((w0, t0) :: rest) := by
  intro x hx
  rcases List.mem_cons.1 hx with e | hx
  · subst e; exact ⟨rfl, rfl⟩
  · simp only [uniformMeas, List.all_eq_true, Bool.and_eq_true, beq_iff_eq] at h
    exact h x hx

theorem measure_cons (q : Nat) (det : Bool) (w : Rat) (t : Tab) (m : Mixture) :
    (Mix.measureOld q det ((w, t) :: m)).1 = (w, (t.zMeasure q det).1.norm) :: (Mix.measureOld q det m).1 ∧
    (Mix.measureOld q det ((w, t) :: m)).2 = (t.zMeasure q det).2.1 :: (Mix.measureOld q det m).2 := by
  simp [Mix.measureOld]

/-- all branches random: per-branch measurement is the joint measurement with forced outcome -/
theorem measure_random (n q : Nat) (hq : q < n) (det : Bool) : ∀ (m : Mixture), MixGood n m → Uniform q det true det m →
    mixRho n (Mix.measureOld q det m).1 = (2 : ℂ) • (projZ n q det * mixRho n m * projZ n q det) ∧
    (∀ s, (mixRho n m * projZ n q s).trace = ((Mix.total m : ℚ) : ℂ) / 2) ∧
    (∀ o ∈ (Mix.measureOld q det m).2, o = det)
  | [], _, _ => by
    refine ⟨by simp [Mix.measureOld, mixRho_nil], fun s => by simp [mixRho_nil, Mix.total_nil], fun o ho => ?_⟩
    simp [Mix.measureOld] at ho
  | (w, t) :: rest, hg, hu => by
    obtain ⟨hn, hv, hr⟩ := hg.head
    obtain ⟨u1, _⟩ := hu (w, t) List.mem_cons_self
    obtain ⟨p, hp⟩ := Option.isSome_iff_exists.1 u1
    obtain ⟨b1, b2, b3⟩ := branch_random n t hn hv hr q hq det p hp
    obtain ⟨i1, i2, i3⟩ := measure_random n q hq det rest hg.tail (fun x hx => hu x (List.mem_cons_of_mem _ hx))
    obtain ⟨c1, c2⟩ := measure_cons q det w t rest
    refine ⟨?_, fun s => ?_, fun o ho => ?_⟩
    · rw [c1, mixRho_cons, mixRho_cons, b1, i1, Matrix.mul_add, Matrix.add_mul, Matrix.mul_smul, Matrix.smul_mul,
        smul_add, smul_comm]
    · rw [mixRho_cons, Matrix.add_mul, Matrix.trace_add, Matrix.smul_mul, Matrix.trace_smul, b3 s, i2 s, Mix.total_cons]
      simp only [smul_eq_mul]
      push_cast
      ring
    · rw [c2] at ho
      rcases List.mem_cons.1 ho with e | ho
      · rw [e, b2]
      · exact i3 o ho

/-- all branches deterministic with the same outcome `o0`: nothing changes, `Π_{o0}` fixes the state -/
theorem measure_det (n q : Nat) (hq : q < n) (det o0 : Bool) : ∀ (m : Mixture), MixGood n m → Uniform q det false o0 m →
    mixRho n (Mix.measureOld q det m).1 = mixRho n m ∧
    projZ n q o0 * mixRho n m * projZ n q o0 = mixRho n m ∧
    (mixRho n m * projZ n q o0).trace = ((Mix.total m : ℚ) : ℂ) ∧
    (mixRho n m * projZ n q (!o0)).trace = 0 ∧
    (∀ o ∈ (Mix.measureOld q det m).2, o = o0)
  | [], _, _ => by
    refine ⟨by simp [Mix.measureOld, mixRho_nil], by simp [mixRho_nil], by simp [mixRho_nil, Mix.total_nil],
      by simp [mixRho_nil], fun o ho => ?_⟩
    simp [Mix.measureOld] at ho
  | (w, t) :: rest, hg, hu => by
    obtain ⟨hn, hv, hr⟩ := hg.head
    obtain ⟨u1, u2⟩ := hu (w, t) List.mem_cons_self
    have hp : t.pivot q = none := by
      cases h : t.pivot q with
      | none => rfl
      | some p => rw [h] at u1; simp at u1
    obtain ⟨b1, b2, b3, b4⟩ := branch_det n t hn hv hr q hq det hp
    simp only at u2
    rw [u2] at b2 b3 b4
    obtain ⟨i1, i2, i3, i4, i5⟩ := measure_det n q hq det o0 rest hg.tail (fun x hx => hu x (List.mem_cons_of_mem _ hx))
    obtain ⟨c1, c2⟩ := measure_cons q det w t rest
    refine ⟨?_, ?_, ?_, ?_, fun o ho => ?_⟩
    · rw [c1, mixRho_cons, mixRho_cons, b1, i1]
    · rw [mixRho_cons, Matrix.mul_add, Matrix.add_mul, Matrix.mul_smul, Matrix.smul_mul, b2, i2]
    · rw [mixRho_cons, Matrix.add_mul, Matrix.trace_add, Matrix.smul_mul, Matrix.trace_smul, b3, i3, Mix.total_cons]
      simp only [smul_eq_mul]
      push_cast
      ring
    · rw [mixRho_cons, Matrix.add_mul, Matrix.trace_add, Matrix.smul_mul, Matrix.trace_smul, b4, i4]
      simp
    · rw [c2] at ho
      rcases List.mem_cons.1 ho with e | ho
      · rw [e]; exact u2
      · exact i5 o ho

end MixDM
end Graphiq
