/-
  Proofs/MixtureDMBridgeStab.lean — the executable "stabilizer → density matrix" conversions are the Hilbert-space states:

  * `toC_pauliMat` : `DM.pauliMat n p` (the `np.kron` chain of one-site Paulis of the row's labels, qubit 0 left-most) is
    `Hilbert.pauliMat n (bare p)`;
  * `toC_stabilizerDensity` : `DM.stabilizerDensity t = ∏_k (I + (−1)^{r_k} g_k)/2` is `ρ(STab.ofTab t)`;
  * `toC_mixtureDensity` : `Noise.mixtureDensity n m` is `mixRho n m = Σ_k w_k ρ(T_k)`.
-/
import GraphiqModel.Proofs.MixtureDMBridgeGate
namespace Graphiq
namespace MixDM
open Matrix Hilbert Noise DM

theorem foldl_congr_mem {α β : Type} (f g : β → α → β) (l : List α) (h : ∀ acc, ∀ x ∈ l, f acc x = g acc x) (b : β) :
    l.foldl f b = l.foldl g b := by
  induction l generalizing b with
  | nil => rfl
  | cons x xs ih =>
    simp only [List.foldl_cons]
    rw [h b x List.mem_cons_self]
    exact ih (fun acc y hy => h acc y (List.mem_cons_of_mem _ hy)) _

/-! ### Pauli strings -/

/-- the product of the one-site entries, read from the bits -/
def pe (m : Nat) (p : PRow) {n : Nat} (a b : Bits n) : GQ :=
  (List.range m).foldl (fun acc k => acc * (pauli1 (p.x k) (p.z k)).e (b2n (bx a k)) (b2n (bx b k))) 1

theorem pauliEntry_idx (n : Nat) (p : PRow) (a b : Bits n) : pauliEntry n p (idx a) (idx b) = pe n p a b := by
  unfold pauliEntry pe
  apply foldl_congr_mem
  intro acc k hk
  have hk' := List.mem_range.1 hk
  have ba : idx a / pow2 (n - k - 1) % 2 = b2n (bx a k) := idx_bit a k hk'
  have bb : idx b / pow2 (n - k - 1) % 2 = b2n (bx b k) := idx_bit b k hk'
  rw [ba, bb]

theorem pe_succ (m : Nat) (p : PRow) {n : Nat} (a b : Bits n) :
    pe (m + 1) p a b = pe m p a b * (pauli1 (p.x m) (p.z m)).e (b2n (bx a m)) (b2n (bx b m)) := by
  unfold pe
  rw [List.range_succ, List.foldl_append]
  rfl

theorem pe_init (m : Nat) (p : PRow) {n : Nat} (a b : Bits (n + 1)) (hm : m ≤ n) :
    pe m p (initB a) (initB b) = pe m p a b := by
  unfold pe
  apply foldl_congr_mem
  intro acc k hk
  have hk' : k < n := Nat.lt_of_lt_of_le (List.mem_range.1 hk) hm
  rw [bx_initB a k hk', bx_initB b k hk']

theorem toC2_pauli1 (x z : Bool) : toC2 (pauli1 x z) = sigma x z := by
  cases x <;> cases z <;> simp only [pauli1, if_true, if_false, Bool.false_eq_true]
  · rw [toC2_id2, sigma_ff]
  · rw [toC2_sigmaz, sigma_ft]
  · rw [toC2_sigmax, sigma_tf]
  · rw [toC2_sigmay, sigma_tt]

theorem bare_ph (p : PRow) : (bare p).ph = 0 := by
  simp [bare, PRow.ph, Bool.toInt']

theorem gqC_pe : ∀ (n : Nat) (p : PRow) (a b : Bits n), gqC (pe n p a b) = Hilbert.pauliMat n (bare p) a b
  | 0, p, a, b => by
    have hab : a = flip (bare p).x b := by funext j; exact j.elim0
    rw [Hilbert.pauliMat_apply, if_pos hab]
    unfold pexp
    rw [bare_ph]
    show gqC 1 = iPow (0 + 0)
    rw [gqC_one]; simp [iPow_zero]
  | n + 1, p, a, b => by
    rw [pauliMat_succ, pe_succ, gqC_mul, ← pe_init n p a b (Nat.le_refl n), gqC_pe n p (initB a) (initB b),
      bx_lastB, bx_lastB, ← toC2_apply, toC2_pauli1]
    rfl

/-- **the `np.kron` chain of one-site Paulis is the Pauli string** (labels only; the sign is applied by the caller) -/
theorem toC_pauliMat (n : Nat) (p : PRow) : toC n (DM.pauliMat n p) = Hilbert.pauliMat n (bare p) := by
  ext a b
  rw [toC_apply]
  show gqC (pauliEntry n p (idx a) (idx b)) = _
  rw [pauliEntry_idx, gqC_pe]

/-! ### one stabilizer state -/

/-- the signed generator: `(−1)^r · g` -/
theorem signed_pauli (n : Nat) (p : PRow) :
    (((if p.r then -1 else 1 : Rat) : ℚ) : ℂ) • Hilbert.pauliMat n (bare p) = Hilbert.pauliMat n { p with ip := false } := by
  rw [pauliMat_phase n { p with ip := false }]
  have hb : bare { p with ip := false } = bare p := rfl
  have hp : PRow.ph { p with ip := false } = 2 * Bool.toInt' p.r := by simp [PRow.ph, Bool.toInt']
  rw [hb, hp, iPow_two_mul_toInt']
  cases p.r <;> simp

/-- one factor `(I + (−1)^r g)/2` of `stabilizerDensity` -/
theorem toC_factor (n : Nat) (p : PRow) :
    toC n (Mat.smul (1/2) (Mat.add (Mat.smul (if p.r then -1 else 1) (DM.pauliMat n p).norm) (Mat.eye (pow2 n)))).norm
      = proj n { p with ip := false } := by
  have s0 : (DM.pauliMat n p).n = 2 ^ n := rfl
  have s1 : (Mat.smul (1/2) (Mat.add (Mat.smul (if p.r then -1 else 1) (DM.pauliMat n p).norm) (Mat.eye (pow2 n)))).n
      = 2 ^ n := rfl
  rw [toC_norm n _ s1, toC_smul, toC_add, toC_smul, toC_norm n _ s0, toC_pauliMat, toC_eye, signed_pauli]
  unfold proj
  rw [add_comm]
  congr 1
  norm_num

/-- the first `m` factors -/
theorem toC_stabilizerDensity_to (t : Tab) : ∀ (m : Nat),
    toC t.n ((List.range m).foldl (fun ρ k =>
        let g := (DM.pauliMat t.n (t.row (k + t.n))).norm
        let sg : Rat := if (t.row (k + t.n)).r then -1 else 1
        (Mat.mul ρ (Mat.smul (1/2) (Mat.add (Mat.smul sg g) (Mat.eye (pow2 t.n)))).norm).norm) (Mat.eye (pow2 t.n)))
      = rhoTo t.n (STab.ofTab t).row m ∧
    ((List.range m).foldl (fun ρ k =>
        let g := (DM.pauliMat t.n (t.row (k + t.n))).norm
        let sg : Rat := if (t.row (k + t.n)).r then -1 else 1
        (Mat.mul ρ (Mat.smul (1/2) (Mat.add (Mat.smul sg g) (Mat.eye (pow2 t.n)))).norm).norm) (Mat.eye (pow2 t.n))).n
      = 2 ^ t.n
  | 0 => ⟨by simp only [List.range_zero, List.foldl_nil]; rw [toC_eye]; rfl, rfl⟩
  | m + 1 => by
    obtain ⟨e, hn⟩ := toC_stabilizerDensity_to t m
    rw [List.range_succ, List.foldl_append]
    simp only [List.foldl_cons, List.foldl_nil]
    refine ⟨?_, hn⟩
    have s1 : (Mat.mul ((List.range m).foldl (fun ρ k =>
        (Mat.mul ρ (Mat.smul (1/2) (Mat.add (Mat.smul (if (t.row (k + t.n)).r then -1 else 1)
          (DM.pauliMat t.n (t.row (k + t.n))).norm) (Mat.eye (pow2 t.n)))).norm).norm) (Mat.eye (pow2 t.n)))
        (Mat.smul (1/2) (Mat.add (Mat.smul (if (t.row (m + t.n)).r then -1 else 1)
          (DM.pauliMat t.n (t.row (m + t.n))).norm) (Mat.eye (pow2 t.n)))).norm).n = 2 ^ t.n := hn
    rw [toC_norm t.n _ s1, toC_mul t.n _ _ hn, e, toC_factor]
    rfl

/-- **`stabilizerDensity t = ∏_k (I + (−1)^{r_k} g_k)/2` is the state `ρ(T)`** of the stabilizer half of the tableau -/
theorem toC_stabilizerDensity (n : Nat) (t : Tab) (hn : t.n = n) :
    toC n (stabilizerDensity t) = tabRho n t ∧ (stabilizerDensity t).n = 2 ^ n := by
  subst hn
  exact toC_stabilizerDensity_to t t.n

/-! ### the mixture -/

theorem toC_mixtureFold (n : Nat) : ∀ (m : Mixture) (acc : Mat), MixN n m → acc.n = 2 ^ n →
    toC n (m.foldl (fun acc x => (Mat.add acc (Mat.smul x.1 (stabilizerDensity x.2)).norm).norm) acc)
      = toC n acc + mixRho n m ∧
    (m.foldl (fun acc x => (Mat.add acc (Mat.smul x.1 (stabilizerDensity x.2)).norm).norm) acc).n = 2 ^ n
  | [], acc, _, ha => ⟨by simp [mixRho_nil], ha⟩
  | (w, t) :: rest, acc, hm, ha => by
    simp only [List.foldl_cons]
    obtain ⟨es, ns⟩ := toC_stabilizerDensity n t hm.head
    have s1 : (Mat.smul w (stabilizerDensity t)).n = 2 ^ n := ns
    have s2 : (Mat.add acc (Mat.smul w (stabilizerDensity t)).norm).n = 2 ^ n := ha
    have s3 : (Mat.add acc (Mat.smul w (stabilizerDensity t)).norm).norm.n = 2 ^ n := ha
    obtain ⟨e, hn⟩ := toC_mixtureFold n rest _ hm.tail s3
    refine ⟨?_, hn⟩
    rw [e, toC_norm n _ s2, toC_add, toC_norm n _ s1, toC_smul, es, mixRho_cons, add_assoc]

/-- **`mixtureDensity n m` is `Σ_k w_k ρ(T_k)`** -/
theorem toC_mixtureDensity (n : Nat) (m : Mixture) (hm : MixN n m) :
    toC n (mixtureDensity n m) = mixRho n m ∧ (mixtureDensity n m).n = 2 ^ n := by
  obtain ⟨e, hn⟩ := toC_mixtureFold n m (Mat.zero (pow2 n)) hm rfl
  exact ⟨by unfold mixtureDensity; rw [e, toC_zero, zero_add], hn⟩

end MixDM
end Graphiq
