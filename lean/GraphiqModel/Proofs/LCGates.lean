/-
  Proofs/LCGates.lean — the gates of `converter_gate_list`, without appeal to the validation inside `lc_check`:

  for every local Clifford `Q` that solves the linear system for `(A, B)` with invertible blocks, the gate list built from
  `local_clifford_ops(Q)` runs on the graph state of `A` (no exception), gives a valid tableau with Hermitian stabilizers, and
  every generator `K_k(B)` of the graph state of `B` commutes with all of its stabilizers — hence lies, up to sign, in its
  stabilizer group (`gates_map_state_up_to_signs`): the gates map `|A⟩` to `|B⟩` up to the Pauli-Z corrections that
  `_phase_correction` supplies.
-/
import GraphiqModel.Proofs.LCSeqLoop
import GraphiqModel.Proofs.TabSpecGroup
namespace Graphiq.LC
open Graphiq PRow Tab Graphiq.TabSpec

/-! ### one named gate on one row -/

theorem gateRow_ip (name : String) (q : Nat) (p : PRow) : (gateRow name q p).ip = p.ip := by
  unfold gateRow
  split <;> rfl

theorem h_sameBits (n q : Nat) (p p' : PRow) (h : SameBits n p p') : SameBits n (PRow.h q p) (PRow.h q p') := by
  intro j hj
  obtain ⟨h1, h2⟩ := h j hj
  refine ⟨?_, ?_⟩
  · show (if j = q then p.z j else p.x j) = (if j = q then p'.z j else p'.x j)
    rw [h1, h2]
  · show (if j = q then p.x j else p.z j) = (if j = q then p'.x j else p'.z j)
    rw [h1, h2]

theorem s_sameBits (n q : Nat) (hq : q < n) (p p' : PRow) (h : SameBits n p p') : SameBits n (PRow.s q p) (PRow.s q p') := by
  intro j hj
  obtain ⟨h1, h2⟩ := h j hj
  refine ⟨h1, ?_⟩
  show (if j = q then xor (p.z j) (p.x q) else p.z j) = (if j = q then xor (p'.z j) (p'.x q) else p'.z j)
  rw [h2, (h q hq).1]

/-- the bits after a named gate depend only on the bits before -/
theorem gateRow_sameBits (n : Nat) (name : String) (q : Nat) (hq : q < n) (p p' : PRow) (h : SameBits n p p') :
    SameBits n (gateRow name q p) (gateRow name q p') := by
  unfold gateRow
  split
  · exact h_sameBits n q _ _ h
  · exact s_sameBits n q hq _ _ h
  · exact s_sameBits n q hq _ _ (s_sameBits n q hq _ _ (s_sameBits n q hq _ _ h))
  · exact h_sameBits n q _ _ (s_sameBits n q hq _ _ (s_sameBits n q hq _ _ (h_sameBits n q _ _ h)))
  · exact s_sameBits n q hq _ _ (h_sameBits n q _ _ (s_sameBits n q hq _ _ (s_sameBits n q hq _ _
      (h_sameBits n q _ _ (s_sameBits n q hq _ _ (s_sameBits n q hq _ _ (s_sameBits n q hq _ _ h)))))))
  · exact s_sameBits n q hq _ _ (s_sameBits n q hq _ _ h)
  · exact h

def GoodName (name : String) : Prop :=
  name = "I" ∨ name = "H" ∨ name = "P" ∨ name = "P_dag" ∨ name = "X" ∨ name = "Y" ∨ name = "Z"

/-- `applyGate` with a supported name on a qubit of the tableau maps every row by `gateRow` -/
theorem applyGate_rows (t : Tab) (name : String) (q : Nat) (hq : q < t.n) (hname : GoodName name) :
    ∃ t', applyGate t name q = .ok t' ∧ t'.n = t.n ∧ ∀ r, t'.row r = gateRow name q (t.row r) := by
  unfold applyGate
  rw [if_pos hq]
  rcases hname with h | h | h | h | h | h | h <;> subst h
  · exact ⟨t, rfl, rfl, fun _ => rfl⟩
  · exact ⟨_, rfl, rfl, fun _ => rfl⟩
  · exact ⟨_, rfl, rfl, fun _ => rfl⟩
  · exact ⟨_, rfl, rfl, fun _ => rfl⟩
  · exact ⟨_, rfl, rfl, fun _ => rfl⟩
  · exact ⟨_, rfl, rfl, fun _ => rfl⟩
  · exact ⟨_, rfl, rfl, fun _ => rfl⟩

/-- **running a list of supported one-qubit gates never fails**, and every row of the result has the bits of the row obtained
    by folding `gateRow` over the list, and the same `ip` flag -/
theorem runGates_rows (t : Tab) (gates : List (String × Nat)) (hg : ∀ g ∈ gates, GoodName g.1 ∧ g.2 < t.n) :
    ∃ t', runGates t gates = .ok t' ∧ t'.n = t.n ∧ ∀ r, r < 2 * t.n →
      SameBits t.n (t'.row r) (gates.foldl (fun p g => gateRow g.1 g.2 p) (t.row r)) ∧
      (t'.row r).ip = (t.row r).ip := by
  induction gates generalizing t with
  | nil => exact ⟨t, rfl, rfl, fun r _ => ⟨fun _ _ => ⟨rfl, rfl⟩, rfl⟩⟩
  | cons g rest ih =>
    obtain ⟨hgn, hgq⟩ := hg g List.mem_cons_self
    obtain ⟨t1, e1, n1, r1⟩ := applyGate_rows t g.1 g.2 hgq hgn
    obtain ⟨t', e', n', r'⟩ := ih t1.norm (fun g' hg' => by
      have := hg g' (List.mem_cons_of_mem _ hg')
      exact ⟨this.1, by rw [tab_norm_n, n1]; exact this.2⟩)
    refine ⟨t', by simp only [runGates, e1]; exact e', by rw [n', tab_norm_n, n1], fun r hr => ?_⟩
    have hr1 : r < 2 * t1.n := by rw [n1]; exact hr
    obtain ⟨b1, i1⟩ := r' r (by rw [tab_norm_n]; exact hr1)
    rw [tab_norm_n, n1] at b1
    have hnorm : EqOn t.n (t1.norm.row r) (gateRow g.1 g.2 (t.row r)) := by
      rw [tab_norm_row t1 r hr1, n1, ← r1 r]
      exact prow_norm_eqOn t.n _
    refine ⟨?_, ?_⟩
    · intro j hj
      rw [(b1 j hj).1, (b1 j hj).2]
      -- congruence of the remaining fold in the starting row
      have hcongr : ∀ (l : List (String × Nat)) (p p' : PRow), (∀ g' ∈ l, g'.2 < t.n) → SameBits t.n p p' →
          SameBits t.n (l.foldl (fun p g => gateRow g.1 g.2 p) p) (l.foldl (fun p g => gateRow g.1 g.2 p) p') := by
        intro l
        induction l with
        | nil => intro p p' _ h; exact h
        | cons g' l' ihl =>
          intro p p' hl h
          exact ihl _ _ (fun g'' h'' => hl g'' (List.mem_cons_of_mem _ h''))
            (gateRow_sameBits t.n g'.1 g'.2 (hl g' List.mem_cons_self) p p' h)
      exact hcongr rest _ _ (fun g' hg' => (hg g' (List.mem_cons_of_mem _ hg')).2) hnorm.1 j hj
    · rw [i1, tab_norm_row t1 r hr1]
      show ((t1.row r).norm t1.n).ip = _
      rw [(prow_norm_eqOn t1.n (t1.row r)).2.2, r1 r, gateRow_ip]

/-! ### the gate list of `converter_gate_list` acts block by block -/

/-- the gate list `converter_gate_list` builds from the names of `local_clifford_ops`, numbering the qubits from `k` -/
def gatesFrom (names : List (List String)) (k : Nat) : List (String × Nat) :=
  (names.zipIdx k).flatMap fun (ops, i) => ops.reverse.map fun o => (o, i)

theorem foldl_gatesFrom (names : List (List String)) (k : Nat) (p : PRow) :
    (gatesFrom names k).foldl (fun p g => gateRow g.1 g.2 p) p =
      (names.zipIdx k).foldl (fun p e => applyNames e.1 e.2 p) p := by
  unfold gatesFrom
  rw [List.foldl_flatMap]
  congr 1
  funext p e
  rw [List.foldl_map]
  rfl

/-- the blocks act on their own qubits: after the gates of the qubits `k … k + len − 1`, the bits of those qubits are the
    blocks applied to the old bits, the other qubits are untouched -/
theorem blocks_bits (blk : Nat → Bool × Bool × Bool × Bool) (names : List (List String)) (k : Nat)
    (hnames : ∀ t ops, names[t]? = some ops →
      blockOps (blk (k + t)).1 (blk (k + t)).2.1 (blk (k + t)).2.2.1 (blk (k + t)).2.2.2 = some ops) (p : PRow) :
    ∀ j, (k ≤ j ∧ j < k + names.length →
        ((names.zipIdx k).foldl (fun p e => applyNames e.1 e.2 p) p).z j = xor ((blk j).1 && p.z j) ((blk j).2.1 && p.x j) ∧
        ((names.zipIdx k).foldl (fun p e => applyNames e.1 e.2 p) p).x j = xor ((blk j).2.2.1 && p.z j) ((blk j).2.2.2 && p.x j)) ∧
      (¬ (k ≤ j ∧ j < k + names.length) →
        ((names.zipIdx k).foldl (fun p e => applyNames e.1 e.2 p) p).z j = p.z j ∧
        ((names.zipIdx k).foldl (fun p e => applyNames e.1 e.2 p) p).x j = p.x j) := by
  induction names generalizing k p with
  | nil =>
    intro j
    refine ⟨fun h => by simp at h; omega, fun _ => ⟨rfl, rfl⟩⟩
  | cons ops rest ih =>
    intro j
    rw [List.zipIdx_cons, List.foldl_cons]
    have hblk := hnames 0 ops (by simp)
    rw [Nat.add_zero] at hblk
    obtain ⟨a1, a2, a3⟩ := blockOps_action _ _ _ _ ops hblk k p
    have ihj := ih (k + 1) (fun t ops' ht => by
      have := hnames (t + 1) ops' (by simpa using ht)
      have e : k + (t + 1) = k + 1 + t := by omega
      rw [e] at this; exact this) (applyNames ops k p) j
    constructor
    · rintro ⟨h1, h2⟩
      rw [List.length_cons] at h2
      by_cases e : j = k
      · subst e
        obtain ⟨z1, x1⟩ := ihj.2 (by omega)
        rw [z1, x1, a1, a2]
        exact ⟨rfl, rfl⟩
      · obtain ⟨z1, x1⟩ := ihj.1 ⟨by omega, by omega⟩
        rw [z1, x1, (a3 j e).1, (a3 j e).2]
        exact ⟨rfl, rfl⟩
    · intro hn
      rw [List.length_cons] at hn
      have e : j ≠ k := by omega
      obtain ⟨z1, x1⟩ := ihj.2 (by omega)
      rw [z1, x1, (a3 j e).1, (a3 j e).2]
      exact ⟨rfl, rfl⟩

/-! ### the names of `local_clifford_ops` for a valid `Q` -/

theorem filterMap_range_all_some {α : Type} (f : Nat → Option α) (g : Nat → α) (n : Nat)
    (h : ∀ i, i < n → f i = some (g i)) : (List.range n).filterMap f = (List.range n).map g := by
  induction n with
  | zero => rfl
  | succ n ih =>
    rw [List.range_succ, List.filterMap_append, List.map_append, ih (fun i hi => h i (by omega))]
    simp [h n (by omega)]

/-- the block of qubit `i` in a solution vector -/
def blkOf (v : List Bool) (i : Nat) : Bool × Bool × Bool × Bool :=
  (vget v (4 * i), vget v (4 * i + 1), vget v (4 * i + 2), vget v (4 * i + 3))

theorem blockOps_isSome_of_valid (n : Nat) (v : List Bool) (hv : isValidClifford n v = true) (i : Nat) (hi : i < n) :
    ∃ ops, blockOps (vget v (4 * i)) (vget v (4 * i + 1)) (vget v (4 * i + 2)) (vget v (4 * i + 3)) = some ops := by
  have hd := detQ_of_valid n v hv i hi
  unfold detQ at hd
  have := blockOps_complete (vget v (4 * i)) (vget v (4 * i + 1)) (vget v (4 * i + 2)) (vget v (4 * i + 3))
  rw [hd] at this
  exact Option.isSome_iff_exists.mp this

/-- for a valid `Q`, `local_clifford_ops` lists one name per qubit, in order -/
theorem localCliffordOps_valid (n : Nat) (v : List Bool) (hv : isValidClifford n v = true) :
    (localCliffordOps n v).length = n ∧
      ∀ t ops, (localCliffordOps n v)[t]? = some ops →
        blockOps (blkOf v t).1 (blkOf v t).2.1 (blkOf v t).2.2.1 (blkOf v t).2.2.2 = some ops := by
  let f : Nat → Option (List String) := fun i =>
    blockOps (vget v (4 * i)) (vget v (4 * i + 1)) (vget v (4 * i + 2)) (vget v (4 * i + 3))
  have hf : ∀ i, i < n → f i = some ((f i).getD []) := by
    intro i hi
    obtain ⟨ops, e⟩ := blockOps_isSome_of_valid n v hv i hi
    show f i = _
    have : f i = some ops := e
    rw [this]; rfl
  have e : localCliffordOps n v = (List.range n).map fun i => (f i).getD [] :=
    filterMap_range_all_some f _ n hf
  rw [e]
  refine ⟨by simp, fun t ops ht => ?_⟩
  rw [List.getElem?_map] at ht
  by_cases htn : t < n
  · rw [List.getElem?_range htn] at ht
    have : (f t).getD [] = ops := by simpa using ht
    show f t = some ops
    rw [hf t htn, this]
  · rw [List.getElem?_eq_none (by simp; omega)] at ht
    simp at ht

theorem blockOps_names_good (a b c d : Bool) (ops : List String) (h : blockOps a b c d = some ops) :
    ∀ o ∈ ops, GoodName o := by
  cases a <;> cases b <;> cases c <;> cases d <;> simp [blockOps] at h <;> subst h <;> intro o ho <;>
    simp at ho <;> (rcases ho with rfl | rfl | rfl | rfl <;> simp [GoodName]) 

/-! ### the gates of a valid `Q` on the graph state of `A` -/

/-- the gate list of `converter_gate_list` before the phase correction -/
def qGates (n : Nat) (v : List Bool) : List (String × Nat) := gatesFrom (localCliffordOps n v) 0

theorem qGates_good (n : Nat) (v : List Bool) (hv : isValidClifford n v = true) :
    ∀ g ∈ qGates n v, GoodName g.1 ∧ g.2 < n := by
  obtain ⟨hlen, hnames⟩ := localCliffordOps_valid n v hv
  intro g hg
  unfold qGates gatesFrom at hg
  rw [List.mem_flatMap] at hg
  obtain ⟨⟨ops, i⟩, he, hg⟩ := hg
  rw [List.mem_map] at hg
  obtain ⟨o, ho, e⟩ := hg
  obtain ⟨hi, hops⟩ := List.mem_zipIdx' he
  have hget : (localCliffordOps n v)[i]? = some ops := by
    rw [List.getElem?_eq_getElem hi, hops]
  have hb := hnames i ops hget
  rw [← e]
  exact ⟨blockOps_names_good _ _ _ _ ops hb o (List.mem_reverse.mp ho), by rw [← hlen]; exact hi⟩

/-- bits of a row after the gates of a valid `Q`: block `j` applied to the bits of qubit `j` -/
theorem qGates_bits (n : Nat) (v : List Bool) (hv : isValidClifford n v = true) (p : PRow) (j : Nat) (hj : j < n) :
    ((qGates n v).foldl (fun p g => gateRow g.1 g.2 p) p).z j =
        xor (vget v (4 * j) && p.z j) (vget v (4 * j + 1) && p.x j) ∧
    ((qGates n v).foldl (fun p g => gateRow g.1 g.2 p) p).x j =
        xor (vget v (4 * j + 2) && p.z j) (vget v (4 * j + 3) && p.x j) := by
  obtain ⟨hlen, hnames⟩ := localCliffordOps_valid n v hv
  unfold qGates
  rw [foldl_gatesFrom]
  have := (blocks_bits (blkOf v) (localCliffordOps n v) 0
    (fun t ops ht => by rw [Nat.zero_add]; exact hnames t ops ht) p j).1 ⟨Nat.zero_le _, by rw [hlen]; omega⟩
  exact this

theorem sp_sameBits_right (n : Nat) (a b b' : PRow) (h : SameBits n b b') : sp n a b = sp n a b' := by
  unfold sp
  apply parityTo_congr
  intro j hj
  rw [(h j hj).1, (h j hj).2]

theorem graphTab_stab (n : Nat) (A : Adj) (i : Nat) : (graphTab n A).row (i + n) = graphGen A i := by
  show (if i + n < n then PRow.Zq (i + n) else graphGen A (i + n - n)) = _
  rw [if_neg (by omega), Nat.add_sub_cancel]

/-- **the symplectic product of `K_k(B)` with the image of `K_i(A)` under the gates of `Q` is equation `(i, k)` of the linear
    system** -/
theorem sp_image_is_equation (n : Nat) (A B : Adj) (hA : Simple n A) (hB : Simple n B) (v : List Bool)
    (hv : isValidClifford n v = true) (i k : Nat) (hi : i < n) (hk : k < n) :
    sp n (graphGen B k) ((qGates n v).foldl (fun p g => gateRow g.1 g.2 p) (graphGen A i)) =
      equation n A B (vget v) i k := by
  unfold sp equation
  have hb : ∀ j, j < n →
      xor ((graphGen B k).x j && ((qGates n v).foldl (fun p g => gateRow g.1 g.2 p) (graphGen A i)).z j)
          ((graphGen B k).z j && ((qGates n v).foldl (fun p g => gateRow g.1 g.2 p) (graphGen A i)).x j) =
      xor (xor (decide (j = k) && (vget v (4 * k) && A i k)) (decide (j = k) && (vget v (4 * k + 1) && decide (i = k))))
          (xor (A j i && B j k && vget v (4 * j + 2)) (decide (j = i) && (B i k && vget v (4 * i + 3)))) := by
    intro j hj
    obtain ⟨hz, hx⟩ := qGates_bits n v hv (graphGen A i) j hj
    rw [hz, hx]
    show xor (decide (j = k) && xor (vget v (4 * j) && A i j) (vget v (4 * j + 1) && decide (j = i)))
        (B k j && xor (vget v (4 * j + 2) && A i j) (vget v (4 * j + 3) && decide (j = i))) = _
    rw [hA.1 j i hj hi, hB.1 j k hj hk]
    by_cases e1 : j = k <;> by_cases e2 : j = i
    · subst e1; subst e2
      simp
      cases vget v (4 * j) <;> cases vget v (4 * j + 1) <;> cases vget v (4 * j + 2) <;> cases vget v (4 * j + 3) <;>
        cases A j j <;> cases B j j <;> rfl
    · subst e1
      have e3 : ¬ i = j := fun x => e2 x.symm
      simp [e2, e3]
      cases vget v (4 * j) <;> cases vget v (4 * j + 2) <;> cases A i j <;> cases B j j <;> rfl
    · subst e2
      have e3 : ¬ k = j := fun x => e1 x.symm
      rw [hB.1 j k hj hk]
      simp [e1, e3]
      cases vget v (4 * j + 2) <;> cases vget v (4 * j + 3) <;> cases A j j <;> cases B k j <;> rfl
    · simp [e1, e2]
      cases vget v (4 * j + 2) <;> cases A i j <;> cases B k j <;> rfl
  rw [parityTo_congr n _ _ hb, parityTo_xor, parityTo_xor, parityTo_xor, parityTo_single n k _ hk,
    parityTo_single n k _ hk, parityTo_single n i _ hi]
  by_cases e : i = k
  · subst e
    cases (parityTo n fun m => A m i && B m i && vget v (4 * m + 2)) <;> cases A i i <;> cases B i i <;>
      cases vget v (4 * i) <;> cases vget v (4 * i + 1) <;> cases vget v (4 * i + 3) <;> simp
  · cases (parityTo n fun m => A m i && B m k && vget v (4 * m + 2)) <;> cases A i k <;> cases B i k <;>
      cases vget v (4 * k) <;> cases vget v (4 * k + 1) <;> cases vget v (4 * i + 3) <;> cases vget v (4 * i + 1) <;>
      simp [e]

/-- **the gates of a valid `Q` map the graph state of `A` to the graph state of `B` up to signs**: the gate list runs
    without exception on the graph-state tableau of `A`; the result is a valid tableau with Hermitian stabilizers; and every
    generator `K_k(B)` commutes with all of its stabilizers (that is exactly equation `(i, k)` of the linear system), so `K_k(B)`
    or `−K_k(B)` lies in its stabilizer group (maximality of the group of a valid tableau) -/
theorem gates_map_state_up_to_signs (n : Nat) (A B : Adj) (hA : Simple n A) (hB : Simple n B) (v : List Bool)
    (hq : ∀ j k, j < n → k < n → equation n A B (vget v) j k = false) (hv : isValidClifford n v = true) :
    ∃ t, runGates (graphTab n A) (qGates n v) = .ok t ∧ t.n = n ∧ t.Valid ∧ t.StabReal ∧
      ∀ k, k < n → Grp t (graphGen B k) ∨ Grp t (negate (graphGen B k)) := by
  obtain ⟨t, e, hn, hrows⟩ := runGates_rows (graphTab n A) (qGates n v) (qGates_good n v hv)
  have hn' : t.n = n := hn
  obtain ⟨_, hval⟩ := runGates_spec (graphTab n A) t (qGates n v) (graphTab_valid n A hA) e
  have hreal : t.StabReal := by
    intro i h1 h2
    rw [hn'] at h1 h2
    rw [(hrows i h2).2]
    show (if i < n then PRow.Zq i else graphGen A (i - n)).ip = false
    split <;> rfl
  refine ⟨t, e, hn', hval, hreal, fun k hk => ?_⟩
  apply grp_maximal t hval hreal (graphGen B k) rfl
  intro i hi
  rw [hn'] at hi ⊢
  have hb := (hrows (i + n) (by show i + n < 2 * n; omega)).1
  have : t.stab i = t.row (i + n) := by show t.row (i + t.n) = _; rw [hn']
  rw [this, sp_sameBits_right n _ _ _ hb, graphTab_stab, sp_image_is_equation n A B hA hB v hv i k hi hk]
  exact hq i k hi hk

end Graphiq.LC
