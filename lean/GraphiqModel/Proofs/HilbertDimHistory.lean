/-
  Proofs/HilbertDimHistory.lean — the density-matrix semantics of the whole tableau API, and the per-operation refinement
  lemma: the density matrix of the tableau after one API call is the quantum operation of that call applied to the density
  matrix before it (all sizes, all outcome scripts).

  `DState` = (number of qubits, matrix on that many qubits).  The operations:
  gates and swap `ρ ↦ U ρ U†`; Z-measurement with a forced / drawn outcome `o` — the outcome that occurs is `o` unless it
  has probability `tr(Π_o ρ) = 0`, then it is `¬o`; the state becomes `Π ρ Π / tr(Π ρ)`; reset = measurement, then `X_q` iff
  the outcome is not the intended state; insertion `ρ ↦ ρ ⊗_p |0⟩⟨0|`; removal = measurement, then partial trace over the
  qubit; partial trace = removals, highest index first, a drawn outcome being consumed only by a random measurement.
-/
import GraphiqModel.Proofs.HilbertDimPtrace
import GraphiqModel.Proofs.HilbertTab
namespace Graphiq
namespace Hilbert
open Matrix PRow TabSpec Tab

/-- a density matrix together with its number of qubits -/
structure DState where
  n : Nat
  ρ : Matrix (Bits n) (Bits n) ℂ

/-- the state described by (the stabilizer half of) a Clifford tableau -/
noncomputable def dstate (t : Tab) : DState := ⟨t.n, rho t.n (STab.ofTab t)⟩

theorem dstate_eq (t : Tab) (m : Nat) (h : t.n = m) : dstate t = ⟨m, rho m (STab.ofTab t)⟩ := by
  subst h; rfl

/-! ### the quantum operations -/

/-- unitary evolution `ρ ↦ U ρ U†` -/
noncomputable def dConj (U : (n : Nat) → Matrix (Bits n) (Bits n) ℂ) (s : DState) : DState :=
  ⟨s.n, U s.n * s.ρ * (U s.n)ᴴ⟩

open Classical in
/-- the outcome of a Z-measurement of qubit `q` with forced / drawn outcome `o`: it is `o` unless `o` has probability 0 -/
noncomputable def measOutcome (n q : Nat) (o : Bool) (ρ : Matrix (Bits n) (Bits n) ℂ) : Bool :=
  if Matrix.trace (proj n (Zq q o) * ρ) = 0 then !o else o

/-- the normalised post-measurement state `Π ρ Π / tr(Π ρ)` for the outcome that occurs -/
noncomputable def postMeas (n q : Nat) (o : Bool) (ρ : Matrix (Bits n) (Bits n) ℂ) : Matrix (Bits n) (Bits n) ℂ :=
  (Matrix.trace (proj n (Zq q (measOutcome n q o ρ)) * ρ))⁻¹ •
    (proj n (Zq q (measOutcome n q o ρ)) * ρ * proj n (Zq q (measOutcome n q o ρ)))

noncomputable def dMeas (q : Nat) (o : Bool) (s : DState) : DState := ⟨s.n, postMeas s.n q o s.ρ⟩

noncomputable def dResetZ (q : Nat) (i o : Bool) (s : DState) : DState :=
  if measOutcome s.n q o s.ρ = i then dMeas q o s else dConj (fun n => gateMat n (.X q)) (dMeas q o s)

noncomputable def dInsert (p : Nat) (s : DState) : DState := ⟨s.n + 1, insSite p s.ρ (ketbra false)⟩

noncomputable def dRemove (q : Nat) (o : Bool) : DState → DState
  | ⟨0, ρ⟩ => ⟨0, ρ⟩
  | ⟨m + 1, ρ⟩ => ⟨m, ptraceSite q (postMeas (m + 1) q o ρ)⟩

/-- both outcomes of a Z-measurement of qubit `q` have non-zero probability -/
def dRandom (q : Nat) (s : DState) : Prop :=
  Matrix.trace (proj s.n (Zq q false) * s.ρ) ≠ 0 ∧ Matrix.trace (proj s.n (Zq q true) * s.ρ) ≠ 0

open Classical in
noncomputable def dPtraceGo : List Nat → List Bool → DState → DState
  | [], _, s => s
  | q :: rest, os, s => dPtraceGo rest (if dRandom q s then os.tail else os) (dRemove q (os.headD false) s)

noncomputable def dPtrace (keep : List Nat) (os : List Bool) (s : DState) : DState :=
  dPtraceGo (removalList s.n keep) os s

/-- **density-matrix semantics of one API call** (the outcome scripts are part of `Op`) -/
noncomputable def dOp : Tab.Op → DState → DState
  | .h q, s => dConj (fun n => gateMat n (.H q)) s
  | .s q, s => dConj (fun n => gateMat n (.P q)) s
  | .sdg q, s => dConj (fun n => gateMat n (.Pdag q)) s
  | .x q, s => dConj (fun n => gateMat n (.X q)) s
  | .y q, s => dConj (fun n => gateMat n (.Y q)) s
  | .z q, s => dConj (fun n => gateMat n (.Z q)) s
  | .cnot c t, s => dConj (fun n => gateMat n (.CNOT c t)) s
  | .cz c t, s => dConj (fun n => gateMat n (.CZ c t)) s
  | .swap a b, s => dConj (fun n => swapMat n a b) s
  | .meas q o, s => dMeas q o s
  | .resetZ q i o, s => dResetZ q i o s
  | .resetX q i o, s => dConj (fun n => gateMat n (.H q)) (dResetZ q i o s)
  | .resetY q i o, s => dConj (fun n => gateMat n (.P q)) (dConj (fun n => gateMat n (.H q)) (dResetZ q i o s))
  | .insert p, s => dInsert p s
  | .add, s => dInsert s.n s
  | .remove q o, s => dRemove q o s
  | .ptrace keep os, s => dPtrace keep os s

/-- density-matrix semantics of a history -/
noncomputable def dOps : List Tab.Op → DState → DState
  | [], s => s
  | op :: rest, s => dOps rest (dOp op s)

/-! ### refinement, one operation at a time -/

theorem gate_tracks_density (t : Tab) (g : Gate) (hg : g.WF t.n) :
    dstate (t.map g.act) = dConj (fun n => gateMat n g) (dstate t) := by
  exact congrArg (DState.mk t.n) (rho_tab_gate t g hg).symm

theorem swap_tracks_density (t : Tab) (a b : Nat) (ha : a < t.n) (hb : b < t.n) :
    dstate (t.swapGate a b) = dConj (fun n => swapMat n a b) (dstate t) := by
  exact congrArg (DState.mk t.n) (rho_tab_swap t a b ha hb).symm

/-- `tr(Π ρ Π) = tr(Π ρ)` for a projector `Π` -/
theorem trace_proj_sandwich (n : Nat) (z : PRow) (hz : z.ip = false) (M : Matrix (Bits n) (Bits n) ℂ) :
    Matrix.trace (proj n z * M * proj n z) = Matrix.trace (proj n z * M) := by
  rw [Matrix.trace_mul_comm, ← Matrix.mul_assoc, proj_idem n z hz]

/-- **Z-measurement on density matrices**: the outcome reported by `z_measurement_gate` is the outcome that occurs
    (the forced one unless it has probability 0) and the new tableau is the normalised post-measurement state -/
theorem meas_density (t : Tab) (q : Nat) (o : Bool) (hq : q < t.n) (hv : t.Valid) (hr : t.StabReal) :
    measOutcome t.n q o (rho t.n (STab.ofTab t)) = (t.zMeasure q o).2.1 ∧
    postMeas t.n q o (rho t.n (STab.ofTab t)) = rho t.n (STab.ofTab (t.zMeasure q o).1) ∧
    (dRandom q (dstate t) ↔ (t.pivot q).isSome = true) := by
  cases hp : t.pivot q with
  | some p =>
    obtain ⟨h1, h2, h3⟩ := pivot_spec t q p hp
    have e : t.zMeasure q o = (t.measRandom q p o, o, p) := by simp [zMeasure, hp]
    have pr : ∀ o', Matrix.trace (proj t.n (Zq q o') * rho t.n (STab.ofTab t)) = 1 / 2 := by
      intro o'
      rw [← trace_proj_sandwich t.n (Zq q o') rfl]
      exact measRandom_prob t hv hr q p o' hq h1 h2 h3
    have ho : measOutcome t.n q o (rho t.n (STab.ofTab t)) = o := by
      unfold measOutcome
      rw [pr o, if_neg (by norm_num)]
    refine ⟨by rw [ho, e], ?_, ?_⟩
    · unfold postMeas
      rw [ho, pr o, measRandom_state t hv hr q p o hq h1 h2 h3, e, smul_smul]
      norm_num
    · constructor
      · intro _; rfl
      · intro _
        exact ⟨by show Matrix.trace (proj t.n (Zq q false) * rho t.n (STab.ofTab t)) ≠ 0; rw [pr]; norm_num,
          by show Matrix.trace (proj t.n (Zq q true) * rho t.n (STab.ofTab t)) ≠ 0; rw [pr]; norm_num⟩
  | none =>
    have e : t.zMeasure q o = (t, (t.measScratch q).r, 0) := by simp [zMeasure, hp]
    obtain ⟨d1, d2, d3⟩ := measDet_state t hv hr q hq hp
    have d4 : proj t.n (Zq q (t.measScratch q).r) * rho t.n (STab.ofTab t) = rho t.n (STab.ofTab t) :=
      proj_mul_of_fixed t.n _ _ d1
    have tr1 := rho_ofTab_trace t hv
    have ho : measOutcome t.n q o (rho t.n (STab.ofTab t)) = (t.measScratch q).r := by
      unfold measOutcome
      by_cases hos : o = (t.measScratch q).r
      · rw [hos, d4, tr1, if_neg (by norm_num)]
      · have : o = !(t.measScratch q).r := by
          revert hos; cases o <;> cases (t.measScratch q).r <;> simp
        rw [this, d3, Matrix.trace_zero, if_pos rfl]
        simp
    refine ⟨by rw [ho, e], ?_, ?_⟩
    · unfold postMeas
      rw [ho, d2, d4, tr1, e]
      simp
    · constructor
      · intro hrand
        exfalso
        have h0 : Matrix.trace (proj t.n (Zq q (!(t.measScratch q).r)) * rho t.n (STab.ofTab t)) = 0 := by
          rw [d3, Matrix.trace_zero]
        cases hs : (t.measScratch q).r
        · rw [hs] at h0; exact hrand.2 h0
        · rw [hs] at h0; exact hrand.1 h0
      · intro h; cases h

theorem meas_tracks_density (t : Tab) (q : Nat) (o : Bool) (hq : q < t.n) (hv : t.Valid) (hr : t.StabReal) :
    dstate (t.zMeasure q o).1 = dMeas q o (dstate t) := by
  rw [dstate_eq _ t.n (zMeasure_n t q o)]
  exact congrArg (DState.mk t.n) (meas_density t q o hq hv hr).2.1.symm

theorem resetZ_tracks_density (t : Tab) (q : Nat) (i o : Bool) (hq : q < t.n) (hv : t.Valid) (hr : t.StabReal) :
    dstate (t.resetZ q i o) = dResetZ q i o (dstate t) := by
  rw [resetZ_eq t q i o hr]
  unfold dResetZ
  have ho : measOutcome (dstate t).n q o (dstate t).ρ = (t.zMeasure q o).2.1 := (meas_density t q o hq hv hr).1
  rw [ho]
  by_cases h : (t.zMeasure q o).2.1 = i
  · rw [if_pos h, if_pos h]; exact meas_tracks_density t q o hq hv hr
  · rw [if_neg h, if_neg h, ← meas_tracks_density t q o hq hv hr]
    exact gate_tracks_density (t.zMeasure q o).1 (.X q) (by show q < _; rw [zMeasure_n]; exact hq)

theorem insert_tracks_density (t : Tab) (p : Nat) (hp : p ≤ t.n) (hv : t.Valid) (hr : t.StabReal) :
    dstate (t.insertQubit p) = dInsert p (dstate t) := by
  exact congrArg (DState.mk (t.n + 1)) (rho_insertQubit t p hp hv hr)

theorem remove_tracks_density (t t' : Tab) (q : Nat) (o : Bool) (hq : q < t.n) (hv : t.Valid) (hr : t.StabReal)
    (h : t.removeQubit q o = .ok t') : dstate t' = dRemove q o (dstate t) := by
  obtain ⟨m, hm⟩ : ∃ m, t.n = m + 1 := ⟨t.n - 1, by omega⟩
  have hn' := (rho_removeQubit_measured m t t' q o hm hq hv hr h).1
  have e := rho_removeQubit m t t' q o hm hq hv hr h
  have pm := (meas_density t q o hq hv hr).2.1
  rw [dstate_eq t' m hn', dstate_eq t (m + 1) hm]
  rw [hm] at pm
  exact congrArg (DState.mk m) (e.trans (congrArg (ptraceSite q) pm.symm))

theorem norm_tracks_density (t : Tab) : dstate t.norm = dstate t := by
  exact congrArg (DState.mk t.n) (rho_tab_norm t)

open Classical in
theorem ptrace_go_tracks_density (rem : List Nat) :
    ∀ (t t' : Tab) (os : List Bool), t.Valid → t.StabReal → partialTrace.go t rem os = .ok t' →
      dstate t' = dPtraceGo rem os (dstate t) := by
  induction rem with
  | nil =>
    intro t t' os _ _ h
    simp [partialTrace.go] at h
    subst h; rfl
  | cons q rest ih =>
    intro t t' os hv hr h
    simp only [partialTrace.go] at h
    cases hrm : t.removeQubit? q (os.headD false) with
    | error e => rw [hrm] at h; simp at h
    | ok t1 =>
      rw [hrm] at h
      simp only at h
      obtain ⟨hq, _, v1, r1, _⟩ := removeQubit?_grp t t1 q _ hv hr hrm
      have hrm' : t.removeQubit q (os.headD false) = .ok t1 := by
        unfold removeQubit? at hrm; rw [if_pos hq] at hrm; exact hrm
      have hrand := (meas_density t q (os.headD false) hq hv hr).2.2
      have := ih t1.norm t' _ (tnorm_valid t1 v1) (norm_stabReal t1 r1) h
      rw [this, norm_tracks_density, remove_tracks_density t t1 q _ hq hv hr hrm']
      show _ = dPtraceGo rest (if dRandom q (dstate t) then os.tail else os) (dRemove q (os.headD false) (dstate t))
      by_cases hp : (t.pivot q).isSome = true
      · rw [if_pos hp, if_pos (hrand.mpr hp)]
      · rw [if_neg hp, if_neg (fun h => hp (hrand.mp h))]

/-- **one API call refines the density-matrix semantics** -/
theorem op_tracks_density (t t' : Tab) (op : Tab.Op) (out : Option (Bool × Bool)) (hop : OpWF op) (hv : t.Valid)
    (hr : t.StabReal) (h : t.applyOp op = .ok (t', out)) : dstate t' = dOp op (dstate t) := by
  cases op with
  | h q =>
    simp only [applyOp] at h; split at h <;> simp at h
    rw [← h.1]; exact gate_tracks_density t (.H q) (by assumption)
  | s q =>
    simp only [applyOp] at h; split at h <;> simp at h
    rw [← h.1]; exact gate_tracks_density t (.P q) (by assumption)
  | sdg q =>
    simp only [applyOp] at h; split at h <;> simp at h
    rw [← h.1]; exact gate_tracks_density t (.Pdag q) (by assumption)
  | x q =>
    simp only [applyOp] at h; split at h <;> simp at h
    rw [← h.1]; exact gate_tracks_density t (.X q) (by assumption)
  | y q =>
    simp only [applyOp] at h; split at h <;> simp at h
    rw [← h.1]; exact gate_tracks_density t (.Y q) (by assumption)
  | z q =>
    simp only [applyOp] at h; split at h <;> simp at h
    rw [← h.1]; exact gate_tracks_density t (.Z q) (by assumption)
  | cnot c tg =>
    simp only [applyOp] at h; split at h <;> simp at h
    rename_i hb
    rw [← h.1]; exact gate_tracks_density t (.CNOT c tg) ⟨hb.1, hb.2, hop⟩
  | cz c tg =>
    simp only [applyOp] at h; split at h <;> simp at h
    rename_i hb
    rw [← h.1]; exact gate_tracks_density t (.CZ c tg) ⟨hb.1, hb.2, hop⟩
  | swap a b =>
    simp only [applyOp] at h; split at h <;> simp at h
    rename_i hb
    rw [← h.1]; exact swap_tracks_density t a b hb.1 hb.2
  | meas q o =>
    simp only [applyOp] at h; split at h <;> simp at h
    rename_i hq
    rw [← h.1]; exact meas_tracks_density t q o hq hv hr
  | resetZ q i o =>
    simp only [applyOp] at h; split at h <;> simp at h
    rename_i hq
    rw [← h.1]; exact resetZ_tracks_density t q i o hq hv hr
  | resetX q i o =>
    simp only [applyOp] at h; split at h <;> simp at h
    rename_i hq
    rw [← h.1]
    show dstate ((t.resetZ q i o).map (Gate.H q).act) = _
    rw [gate_tracks_density _ (.H q) (by show q < (t.resetZ q i o).n; rw [resetZ_n]; exact hq),
      resetZ_tracks_density t q i o hq hv hr]
    rfl
  | resetY q i o =>
    simp only [applyOp] at h; split at h <;> simp at h
    rename_i hq
    rw [← h.1]
    show dstate (((t.resetZ q i o).map (Gate.H q).act).map (Gate.P q).act) = _
    rw [gate_tracks_density _ (.P q) (by show q < (t.resetZ q i o).n; rw [resetZ_n]; exact hq),
      gate_tracks_density _ (.H q) (by show q < (t.resetZ q i o).n; rw [resetZ_n]; exact hq),
      resetZ_tracks_density t q i o hq hv hr]
    rfl
  | insert p =>
    simp only [applyOp] at h; split at h <;> simp at h
    rename_i hp
    rw [← h.1]; exact insert_tracks_density t p hp hv hr
  | add =>
    simp only [applyOp] at h; simp at h
    rw [← h.1]; exact insert_tracks_density t t.n (Nat.le_refl _) hv hr
  | remove q o =>
    simp only [applyOp] at h
    cases hrm : t.removeQubit? q o with
    | error e => rw [hrm] at h; simp at h
    | ok t1 =>
      rw [hrm] at h; simp at h
      rw [← h.1]
      obtain ⟨hq, _⟩ := removeQubit?_grp t t1 q o hv hr hrm
      have hrm' : t.removeQubit q o = .ok t1 := by
        unfold removeQubit? at hrm; rw [if_pos hq] at hrm; exact hrm
      exact remove_tracks_density t t1 q o hq hv hr hrm'
  | ptrace k os =>
    simp only [applyOp] at h
    cases hrm : t.partialTrace k os with
    | error e => rw [hrm] at h; simp at h
    | ok t1 =>
      rw [hrm] at h; simp at h
      rw [← h.1]
      rw [partialTrace_eq] at hrm
      exact ptrace_go_tracks_density (removalList t.n k) t t1 os hv hr hrm

end Hilbert
end Graphiq
