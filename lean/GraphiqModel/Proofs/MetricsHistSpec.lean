/-
  MetricsHistSpec.lean — the C18 metric theorems for EVERY circuit satisfying DagInv, relative to any schedule of it.

  For a circuit `c` with wires `P` (`Good c P`), plain operations (`AllPlain c`) and any schedule `L` (`Sched c P L`; one
  exists — `sched_exists` — and every topological order is one — `schedOf_sched`), every metric of metrics.py as coded
  (label index, prepared copy, `reg_gate_history`, literal `_max_depth` recursion) equals its op-list specification
  `Spec.*` on the scheduled operation list `L.map snd` (operations as wired).  Nothing about how the circuit was made.
-/
import GraphiqModel.Proofs.MetricsHist
set_option linter.unusedSectionVars false
set_option linter.unusedSimpArgs false
namespace Graphiq
namespace Metrics
open Dag Relation

/-! ## the schedule is a permutation of the operation nodes -/

theorem nodup_of_nodup_fst {l : List (NodeId × Op)} (h : (l.map (·.1)).Nodup) : l.Nodup := by
  induction l with
  | nil => exact List.nodup_nil
  | cons a t ih =>
    rw [List.map_cons, List.nodup_cons] at h
    rw [List.nodup_cons]
    exact ⟨fun hm => h.1 (List.mem_map.mpr ⟨a, hm, rfl⟩), ih h.2⟩

theorem Sched.perm {c : Dag} {P : Paths} {L : List (NodeId × Op)} (g : Good c P) (hS : Sched c P L) :
    L.Perm ((c.nodes.filter isOpNode).map (fun q => (q.1, wiredOp P q.1 q.2))) := by
  have hfst : ((c.nodes.filter isOpNode).map (fun q => (q.1, wiredOp P q.1 q.2))).map (·.1) = (c.nodes.filter isOpNode).map (·.1) := by
    rw [List.map_map]; rfl
  have hnd2 : ((c.nodes.filter isOpNode).map (fun q => (q.1, wiredOp P q.1 q.2))).Nodup := by
    apply nodup_of_nodup_fst
    rw [hfst]
    exact List.Nodup.sublist (List.Sublist.map _ List.filter_sublist) g.inv.ids_nodup
  rw [List.perm_ext_iff_of_nodup (nodup_of_nodup_fst hS.nodup) hnd2]
  intro p
  rw [hS.nodes p, List.mem_map]
  constructor
  · rintro ⟨hi, o, hm, ho⟩
    exact ⟨(p.1, o), mem_opNodes.mpr ⟨hi, hm⟩, Prod.ext rfl ho.symm⟩
  · rintro ⟨q, hq, rfl⟩
    obtain ⟨hi, hm⟩ := mem_opNodes.mp hq
    exact ⟨hi, q.2, hm, rfl⟩

/-- counting scheduled operations by a predicate that does not look at the classical registers = counting the
    operations held by the operation nodes -/
theorem Sched.countP_eq {c : Dag} {P : Paths} {L : List (NodeId × Op)} (g : Good c P) (hS : Sched c P L) (f : Op → Bool)
    (hf : ∀ P n o, f (wiredOp P n o) = f o) : (L.map (·.2)).countP f = (opsOf c).countP f := by
  have hp := (hS.perm g).map (·.2)
  rw [hp.countP_eq]
  unfold opsOf
  rw [List.map_map, List.countP_map, List.countP_map]
  apply countP_congr_mem
  intro q _
  exact hf P q.1 q.2

/-- the scheduled operations are well formed and plain -/
theorem Sched.wf_plain {c : Dag} {P : Paths} {L : List (NodeId × Op)} (g : Good c P) (hpl : AllPlain c) (hS : Sched c P L) :
    ∀ o ∈ L.map (·.2), OpWF o ∧ PlainOp' o := by
  intro o ho
  obtain ⟨p, hp, rfl⟩ := List.mem_map.mp ho
  obtain ⟨i, o', _, hm, hpo⟩ := hS.op_node hp
  rw [hpo]
  exact ⟨wiredOp_wf (g.inv.op_wf i o' hm), plainOp'_wiredOp (hpl i o' hm)⟩

/-- no operation of the circuit is filed under the key "Input" (class name `Input`, or a user label "Input"): all the depth
    theorems need — weaker than `AllPlain`, it admits arbitrary other user labels such as the solver's "Fixed" -/
def NoInputKey (c : Dag) : Prop := ∀ i o, (NodeId.op i, o) ∈ c.nodes → "Input" ∉ o.indexKeys

theorem noInputKey_of_allPlain {c : Dag} {P : Paths} (g : Good c P) (hpl : AllPlain c) : NoInputKey c :=
  fun i o hm => Dag.input_not_key (g.inv.op_wf i o hm) (hpl i o hm).toPlainOp

theorem Sched.input_not_key_of {c : Dag} {P : Paths} {L : List (NodeId × Op)} (hk : NoInputKey c) (hS : Sched c P L) :
    ∀ p ∈ L, "Input" ∉ p.2.indexKeys := by
  intro p hp
  obtain ⟨i, o, _, hm, hpo⟩ := hS.op_node hp
  rw [hpo, wiredOp_indexKeys]
  exact hk i o hm

theorem Sched.input_not_key {c : Dag} {P : Paths} {L : List (NodeId × Op)} (g : Good c P) (hpl : AllPlain c) (hS : Sched c P L) :
    ∀ p ∈ L, "Input" ∉ p.2.indexKeys := hS.input_not_key_of (noInputKey_of_allPlain g hpl)

/-! ## counting metrics -/

/-- the hypothesis of the two label-index counts: at most two quantum registers, and no operation carries one of the three
    queried names as a (user) label — every other user label is admitted -/
def CountOK (c : Dag) : Prop := ∀ i o, (NodeId.op i, o) ∈ c.nodes →
  o.qregs.length ≤ 2 ∧ "Emitter-Emitter" ∉ o.labels ∧ "CNOT" ∉ o.labels ∧ "MeasurementCNOTandReset" ∉ o.labels

theorem countOK_of_allPlain {c : Dag} (hpl : AllPlain c) : CountOK c := by
  intro i o hm
  have hp := (hpl i o hm).toPlainOp
  exact ⟨hp.arity, fun h => hp.labels _ h (by decide), fun h => hp.labels _ h (by decide), fun h => hp.labels _ h (by decide)⟩

theorem cnot_pred_eq_of {op : Op} (hwf : OpWF op) (har : op.qregs.length ≤ 2) (hl1 : "Emitter-Emitter" ∉ op.labels)
    (hl2 : "CNOT" ∉ op.labels) :
    (["Emitter-Emitter", "CNOT"].all fun l => op.indexKeys.contains l) =
      (decide (op.kind = .cnot) && decide (op.qregs.map (·.ty) = [.e, .e])) := by
  have := cnot_keys_iff_of hwf har hl1 hl2
  by_cases hc : op.kind = .cnot ∧ op.qregs.map (·.ty) = [.e, .e]
  · have := this.mpr hc
    simp [hc.1, hc.2, this.1, this.2]
  · have hn : ¬ ("Emitter-Emitter" ∈ op.indexKeys ∧ "CNOT" ∈ op.indexKeys) := fun h => hc (this.mp h)
    have h1 : (decide (op.kind = .cnot) && decide (op.qregs.map (·.ty) = [.e, .e])) = false := by
      by_cases hk : op.kind = .cnot
      · have : ¬ op.qregs.map (·.ty) = [.e, .e] := fun h => hc ⟨hk, h⟩
        simp [hk, this]
      · simp [hk]
    rw [h1]
    simp only [List.all_cons, List.all_nil, Bool.and_true]
    by_cases h2 : "Emitter-Emitter" ∈ op.indexKeys
    · have : "CNOT" ∉ op.indexKeys := fun h => hn ⟨h2, h⟩
      simp [h2, this]
    · simp [h2]

/-- **`CircuitCnotCount` on any circuit satisfying DagInv** = number of emitter–emitter CNOTs of the scheduled list (hypothesis
    `CountOK`: no operation carries one of the queried names as a label) -/
theorem cnotCount_eq_spec_sched_of {c : Dag} {P : Paths} {L : List (NodeId × Op)} (g : Good c P) (hc : CountOK c)
    (hS : Sched c P L) : Metrics.cnotCount c = Spec.cnotCount (L.map (·.2)) := by
  rw [cnotCount_eq_length, length_getNodeByLabels_ops ⟨P, g⟩ _ (by decide) (by decide)]
  unfold Spec.cnotCount
  rw [hS.countP_eq g _ (fun _ _ _ => rfl)]
  apply countP_congr_mem
  intro op hop
  obtain ⟨i, hm⟩ := mem_opsOf.mp hop
  obtain ⟨h1, h2, h3, _⟩ := hc i op hm
  exact cnot_pred_eq_of (g.inv.op_wf i op hm) h1 h2 h3

theorem cnotCount_eq_spec_sched {c : Dag} {P : Paths} {L : List (NodeId × Op)} (g : Good c P) (hpl : AllPlain c)
    (hS : Sched c P L) : Metrics.cnotCount c = Spec.cnotCount (L.map (·.2)) :=
  cnotCount_eq_spec_sched_of g (countOK_of_allPlain hpl) hS

/-- **`CircuitMeasureCount` on any circuit satisfying DagInv** (hypothesis `CountOK`) -/
theorem measureCount_eq_spec_sched_of {c : Dag} {P : Paths} {L : List (NodeId × Op)} (g : Good c P) (hc : CountOK c)
    (hS : Sched c P L) : Metrics.measureCount c = Spec.measureCount (L.map (·.2)) := by
  unfold Metrics.measureCount
  rw [length_getNodeByLabels_ops ⟨P, g⟩ _ (by decide) (by decide)]
  unfold Spec.measureCount
  rw [hS.countP_eq g _ (fun _ _ _ => rfl)]
  apply countP_congr_mem
  intro op hop
  obtain ⟨i, hm⟩ := mem_opsOf.mp hop
  obtain ⟨h1, _, _, h4⟩ := hc i op hm
  have := mcr_keys_iff_of (g.inv.op_wf i op hm) h1 h4
  by_cases hk : op.kind = .mcr
  · simp [hk, this.mpr hk]
  · have : "MeasurementCNOTandReset" ∉ op.indexKeys := fun h => hk (this.mp h)
    simp [hk, this]

theorem measureCount_eq_spec_sched {c : Dag} {P : Paths} {L : List (NodeId × Op)} (g : Good c P) (hpl : AllPlain c)
    (hS : Sched c P L) : Metrics.measureCount c = Spec.measureCount (L.map (·.2)) :=
  measureCount_eq_spec_sched_of g (countOK_of_allPlain hpl) hS

/-! ## the prepared copy of any circuit with a schedule -/

/-- **the prepared copy** `unwrap_nodes(); remove_identity()` of ANY circuit satisfying DagInv with plain operations and a
    schedule `L`: both calls succeed, the copy satisfies DagInv, has the same registers, plain operations, and a schedule
    holding exactly the unwrapped, identity-free list of `L`'s operations, in order -/
theorem prep_sched_gen {c : Dag} {P : Paths} {L : List (NodeId × Op)} (g : Good c P) (hpl : AllPlain c) (hS : Sched c P L) :
    ∃ c' P' L', prep c = .ok c' ∧ Good c' P' ∧ Sched c' P' L' ∧ L'.map (·.2) = Spec.unwrapSeq (L.map (·.2)) ∧
      c'.regs = c.regs ∧ AllPlain c' := by
  have hLpl := hS.wf_plain g hpl
  obtain ⟨P1, L1, g1, hS1, hL1⟩ := unwrapNodes_sched g hS hpl
  obtain ⟨_, _, hr1⟩ := unwrapNodes_good g
  have he1 : c.unwrapNodes.2 = none := (unwrapNodes_count g hpl (fun _ => true)).1
  have hpl1 : AllPlain c.unwrapNodes.1 := by
    intro i o hm
    have h1 : wiredOp P1 (.op i) o ∈ L1.map (·.2) := List.mem_map.mpr ⟨_, hS1.mem_of_node hm, rfl⟩
    rw [hL1] at h1
    exact plainOp'_of_wiredOp (plain_flatMap_unwrap (fun o ho => (hLpl o ho).2) _ h1)
  obtain ⟨P2, L2, g2, hS2, hL2⟩ := removeIdentity_sched g1 hS1 hpl1
  obtain ⟨_, _, hr2⟩ := removeIdentity_good g1
  have he2 : c.unwrapNodes.1.removeIdentity.2 = none := (removeIdentity_count g1 hpl1 (fun _ => true)).1
  have hpl2 : AllPlain c.unwrapNodes.1.removeIdentity.1 := by
    intro i o hm
    have h1 : wiredOp P2 (.op i) o ∈ L2.map (·.2) := List.mem_map.mpr ⟨_, hS2.mem_of_node hm, rfl⟩
    rw [hL2, hL1] at h1
    exact plainOp'_of_wiredOp (plain_flatMap_unwrap (fun o ho => (hLpl o ho).2) _ (List.mem_filter.mp h1).1)
  have hprep : prep c = .ok c.unwrapNodes.1.removeIdentity.1 := by
    unfold prep
    cases hu : c.unwrapNodes with
    | mk c1 e1 =>
      rw [hu] at he1 he2
      simp only at he1 he2
      subst he1
      simp only
      cases hrm : c1.removeIdentity with
      | mk c2 e2 =>
        rw [hrm] at he2
        simp only at he2
        subst he2
        rfl
  refine ⟨_, P2, L2, hprep, g2, hS2, ?_, hr2.trans hr1, hpl2⟩
  rw [hL2, hL1, unwrapSeq_eq]

/-! ## unitary count -/

/-- **`CircuitUnitaryCount` on any circuit satisfying DagInv** -/
theorem unitaryCount_eq_spec_sched {c : Dag} {P : Paths} {L : List (NodeId × Op)} (g : Good c P) (hpl : AllPlain c)
    (hS : Sched c P L) : Metrics.unitaryCount c = .ok (Spec.unitaryCount (L.map (·.2))) := by
  obtain ⟨c', P', L', hprep, g', hS', hL', _, hpl'⟩ := prep_sched_gen g hpl hS
  unfold Metrics.unitaryCount
  rw [hprep]
  show Except.ok _ = _
  congr 1
  have hlab : ∀ k : Kind, k.name ≠ "Input" → k.name ≠ "Output" → k.name ≠ "one-qubit" → k.name ≠ "two-qubit" →
      (k.name ≠ "Emitter" ∧ k.name ≠ "Photonic" ∧ k.name ≠ "Emitter-Emitter" ∧ k.name ≠ "Emitter-Photonic" ∧
        k.name ≠ "Photonic-Emitter" ∧ k.name ≠ "Photonic-Photonic") →
      (if dictHas c'.nodeDict k.name then (c'.getNodeByLabels [k.name]).length else 0) =
        (Spec.unwrapSeq (L.map (·.2))).countP (fun o => decide (o.kind = k)) := by
    intro k h1 h2 h3 h4 h5
    rw [length_getNodeByLabels_single ⟨P', g'⟩ k.name h1 h2, ← hL', hS'.countP_eq g' _ (fun _ _ _ => rfl)]
    apply countP_congr_mem
    intro o ho
    obtain ⟨i, hm⟩ := mem_opsOf.mp ho
    exact contains_kindName_iff (g'.inv.op_wf i o hm) (hpl' i o hm).toPlainOp k h3 h4 h5
  have hstep : ∀ (n : Nat) (l : String), (if dictHas c'.nodeDict l = true then n + (c'.getNodeByLabels [l]).length else n) =
      n + (if dictHas c'.nodeDict l then (c'.getNodeByLabels [l]).length else 0) := by
    intro n l; by_cases h : dictHas c'.nodeDict l = true <;> simp [h]
  unfold Spec.unitaryCount
  rw [countP_counted]
  simp only [unitaryLabels, List.foldl_cons, List.foldl_nil, hstep]
  have e1 : (if dictHas c'.nodeDict "SigmaX" = true then (c'.getNodeByLabels ["SigmaX"]).length else 0) = _ :=
    hlab .sigmaX (by decide) (by decide) (by decide) (by decide) (by decide)
  have e2 : (if dictHas c'.nodeDict "SigmaY" = true then (c'.getNodeByLabels ["SigmaY"]).length else 0) = _ :=
    hlab .sigmaY (by decide) (by decide) (by decide) (by decide) (by decide)
  have e3 : (if dictHas c'.nodeDict "SigmaZ" = true then (c'.getNodeByLabels ["SigmaZ"]).length else 0) = _ :=
    hlab .sigmaZ (by decide) (by decide) (by decide) (by decide) (by decide)
  have e4 : (if dictHas c'.nodeDict "Phase" = true then (c'.getNodeByLabels ["Phase"]).length else 0) = _ :=
    hlab .phase (by decide) (by decide) (by decide) (by decide) (by decide)
  have e5 : (if dictHas c'.nodeDict "PhaseDagger" = true then (c'.getNodeByLabels ["PhaseDagger"]).length else 0) = _ :=
    hlab .phaseDagger (by decide) (by decide) (by decide) (by decide) (by decide)
  have e6 : (if dictHas c'.nodeDict "Hadamard" = true then (c'.getNodeByLabels ["Hadamard"]).length else 0) = _ :=
    hlab .hadamard (by decide) (by decide) (by decide) (by decide) (by decide)
  have e7 : (if dictHas c'.nodeDict "CNOT" = true then (c'.getNodeByLabels ["CNOT"]).length else 0) = _ :=
    hlab .cnot (by decide) (by decide) (by decide) (by decide) (by decide)
  rw [e1, e2, e3, e4, e5, e6, e7]
  omega

/-! ## emitter metrics on the prepared copy -/

/-- the length of an emitter's wire = the number of scheduled operations acting on it + 2 -/
theorem Sched.emitter_wire_length {c : Dag} {P : Paths} {L : List (NodeId × Op)} (hS : Sched c P L) {i : Nat}
    (hl : c.live ⟨.e, i⟩) : ((P ⟨.e, i⟩).length : Int) - 2 = ((Spec.emitterWire (L.map (·.2)) i).length : Int) := by
  have hr : (⟨.e, i⟩ : Reg).ty ≠ .c := by simp
  have hops : (Spec.emitterWire (L.map (·.2)) i).map (·.1) =
      (L.filter (fun p => decide ((⟨.e, i⟩ : Reg) ∈ opRegs p.2))).map (·.2) := by
    rw [emitterWire_ops, sched_wire_ops L hr]
  have hlen : (Spec.emitterWire (L.map (·.2)) i).length = (schedWire L ⟨.e, i⟩).length := by
    have := congrArg List.length hops
    simpa [schedWire] using this
  rw [hS.wire _ hl, hlen]
  simp only [List.length_cons, List.length_append, List.length_nil]
  push_cast; omega

/-- **`CircuitMaxEmitDepth` on any circuit satisfying DagInv** -/
theorem maxEmitDepth_eq_spec_sched {c : Dag} {P : Paths} {L : List (NodeId × Op)} (g : Good c P) (hpl : AllPlain c)
    (hS : Sched c P L) : Metrics.maxEmitDepth c = Spec.maxEmitDepth c.nE (L.map (·.2)) := by
  obtain ⟨c', P', L', hprep, g', hS', hL', hregs, _⟩ := prep_sched_gen g hpl hS
  have hnE : c'.nE = c.nE := congrFun hregs .e
  unfold Metrics.maxEmitDepth Spec.maxEmitDepth
  rw [hprep]
  show (do let ds ← (List.range c'.nE).mapM _; maxOrErr ds) = _
  have hmap : (List.range c'.nE).mapM (fun i => do
        let h ← c'.regGateHistory ⟨.e, i⟩
        pure ((h.length : Int) - 2)) =
      .ok ((List.range c'.nE).map fun i => ((Spec.emitterWire (Spec.unwrapSeq (L.map (·.2))) i).length : Int)) := by
    apply mapM_range_ok'
    intro i hi
    have hl : c'.live ⟨.e, i⟩ := hi
    rw [regGateHistory_eq_wire g'.inv hl]
    show Except.ok _ = _
    congr 1
    rw [hS'.emitter_wire_length hl, hL']
  rw [hmap, hnE]
  rfl

/-- **`CircuitMaxEmitResetDepth` on any circuit satisfying DagInv** -/
theorem maxEmitResetDepth_eq_spec_sched {c : Dag} {P : Paths} {L : List (NodeId × Op)} (g : Good c P) (hpl : AllPlain c)
    (hS : Sched c P L) : Metrics.maxEmitResetDepth c = Spec.maxEmitResetDepth c.nE (L.map (·.2)) := by
  obtain ⟨c', P', L', hprep, g', hS', hL', hregs, _⟩ := prep_sched_gen g hpl hS
  have hnE : c'.nE = c.nE := congrFun hregs .e
  unfold Metrics.maxEmitResetDepth Spec.maxEmitResetDepth
  rw [hprep, ← hnE]
  show (do let ds ← (List.range c'.nE).mapM _; maxOrErr ds) = (do let ds ← (List.range c'.nE).mapM _; maxOrErr ds)
  congr 1
  apply mapM_congr_mem
  intro i hi
  have hl : c'.live ⟨.e, i⟩ := List.mem_range.mp hi
  rw [regGateHistory_eq_wire g'.inv hl]
  show maxOrErr (diffs ((markNodes c' (P' ⟨.e, i⟩)).map fun p => ((p.1 : Nat) : Int))) = _
  rw [reset_marks_eq g' hS' hl, hL']

/-- **`CircuitMaxEmitEffDepth` on any circuit satisfying DagInv** (the literal `_max_depth` recursion on the prepared copy) -/
theorem maxEmitEffDepth_eq_spec_sched {c : Dag} {P : Paths} {L : List (NodeId × Op)} (g : Good c P) (hpl : AllPlain c)
    (hS : Sched c P L) : Metrics.maxEmitEffDepth c = Spec.maxEmitEffDepth c.nE (L.map (·.2)) := by
  obtain ⟨c', P', L', hprep, g', hS', hL', hregs, hpl'⟩ := prep_sched_gen g hpl hS
  have hnE : c'.nE = c.nE := congrFun hregs .e
  have hkey := hS'.input_not_key g' hpl'
  unfold Metrics.maxEmitEffDepth Spec.maxEmitEffDepth
  rw [hprep, ← hnE]
  show (do let ds ← (List.range c'.nE).mapM _; maxOrErr ds) = (do let ds ← (List.range c'.nE).mapM _; maxOrErr ds)
  congr 1
  apply mapM_congr_mem
  intro i hi
  have hl : c'.live ⟨.e, i⟩ := List.mem_range.mp hi
  rw [regGateHistory_eq_wire g'.inv hl]
  show (do let depths ← (markNodes c' (P' ⟨.e, i⟩)).mapM (fun p : Nat × NodeId => c'.maxDepth (c'.nodes.length + 1) p.2)
           maxOrErr (diffs depths)) = _
  rw [eff_depths_eq g' hS' hkey hl, hL']
  rfl

/-! ## register depth -/

/-- **`register_depth` on any circuit satisfying DagInv**: `calculate_reg_depth(t)` — the literal `_max_depth(out)` recursion
    with the model's fuel — returns the ASAP depth of every register of the type on the scheduled operation list -/
theorem calculateRegDepth_eq_spec_sched_of {c : Dag} {P : Paths} {L : List (NodeId × Op)} (g : Good c P) (hk : NoInputKey c)
    (hS : Sched c P L) (t : RegType) :
    c.calculateRegDepth t = .ok ((List.range (c.regs t)).map (fun i => (Spec.regDepth (L.map (·.2)) ⟨t, i⟩ : Int))) := by
  unfold calculateRegDepth
  apply mapM_range_ok
  intro i hi
  have hl : c.live ⟨t, i⟩ := hi
  apply maxDepth_of_hasDepth ((sched_depth g hS (hS.input_not_key_of hk)).2 _ hl)
  have hb := regDepth_le_length (L.map (·.2)) ⟨t, i⟩
  have hlt := hS.length_lt g hl
  rw [List.length_map] at hb
  push_cast; omega

/-- … in particular on circuits with plain operations -/
theorem calculateRegDepth_eq_spec_sched {c : Dag} {P : Paths} {L : List (NodeId × Op)} (g : Good c P) (hpl : AllPlain c)
    (hS : Sched c P L) (t : RegType) :
    c.calculateRegDepth t = .ok ((List.range (c.regs t)).map (fun i => (Spec.regDepth (L.map (·.2)) ⟨t, i⟩ : Int))) :=
  calculateRegDepth_eq_spec_sched_of g (noInputKey_of_allPlain g hpl) hS t

end Metrics
end Graphiq

/-! ## the rewrites `unwrap_nodes` / `remove_identity` on the scheduled operation list -/
namespace Graphiq
namespace Metrics
open Dag Relation

/-- `unwrap_nodes` on any circuit with a schedule: succeeds, keeps DagInv and plainness, and the result has a schedule whose
    operation list is the unwrapped list -/
theorem unwrapNodes_sched_gen {c : Dag} {P : Paths} {L : List (NodeId × Op)} (g : Good c P) (hpl : AllPlain c) (hS : Sched c P L) :
    c.unwrapNodes.2 = none ∧ ∃ P' L', Good c.unwrapNodes.1 P' ∧ Sched c.unwrapNodes.1 P' L' ∧ AllPlain c.unwrapNodes.1 ∧
      L'.map (·.2) = (L.map (·.2)).flatMap Op.unwrap := by
  have hLpl := hS.wf_plain g hpl
  obtain ⟨P1, L1, g1, hS1, hL1⟩ := unwrapNodes_sched g hS hpl
  refine ⟨(unwrapNodes_count g hpl (fun _ => true)).1, P1, L1, g1, hS1, ?_, hL1⟩
  intro i o hm
  have h1 : wiredOp P1 (.op i) o ∈ L1.map (·.2) := List.mem_map.mpr ⟨_, hS1.mem_of_node hm, rfl⟩
  rw [hL1] at h1
  exact plainOp'_of_wiredOp (plain_flatMap_unwrap (fun o ho => (hLpl o ho).2) _ h1)

/-- `remove_identity` on any circuit with a schedule: the result's schedule holds the non-identity operations, in order -/
theorem removeIdentity_sched_gen {c : Dag} {P : Paths} {L : List (NodeId × Op)} (g : Good c P) (hpl : AllPlain c) (hS : Sched c P L) :
    c.removeIdentity.2 = none ∧ ∃ P' L', Good c.removeIdentity.1 P' ∧ Sched c.removeIdentity.1 P' L' ∧ AllPlain c.removeIdentity.1 ∧
      L'.map (·.2) = (L.map (·.2)).filter (fun o => !decide (o.kind = .identity)) := by
  have hLpl := hS.wf_plain g hpl
  obtain ⟨P2, L2, g2, hS2, hL2⟩ := removeIdentity_sched g hS hpl
  refine ⟨(removeIdentity_count g hpl (fun _ => true)).1, P2, L2, g2, hS2, ?_, hL2⟩
  intro i o hm
  have h1 : wiredOp P2 (.op i) o ∈ L2.map (·.2) := List.mem_map.mpr ⟨_, hS2.mem_of_node hm, rfl⟩
  rw [hL2] at h1
  exact plainOp'_of_wiredOp (hLpl _ (List.mem_filter.mp h1).1).2

end Metrics
end Graphiq
