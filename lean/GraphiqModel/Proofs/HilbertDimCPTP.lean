/-
  Proofs/HilbertDimCPTP.lean — the density-matrix semantics `dOp` of the tableau API is a family of genuine quantum
  operations: on *every* density matrix (positive semidefinite, trace one — not only on stabilizer states) every in-range
  API call returns a density matrix.  This checks the normalisations and projectors in the definitions of
  `Proofs/HilbertDimHistory.lean` independently of the tableau model.
-/
import GraphiqModel.Proofs.HilbertDimProg
import Mathlib.Analysis.Matrix.Order
namespace Graphiq
namespace Hilbert
open Matrix PRow TabSpec Tab
open scoped ComplexOrder Kronecker

/-- a density matrix: positive semidefinite with trace one -/
def IsDensity (s : DState) : Prop := s.ρ.PosSemidef ∧ Matrix.trace s.ρ = 1

/-! ### unitary conjugation -/

theorem conj_isDensity (n : Nat) (U ρ : Matrix (Bits n) (Bits n) ℂ) (hU : Uᴴ * U = 1) (hρ : ρ.PosSemidef)
    (ht : Matrix.trace ρ = 1) : (U * ρ * Uᴴ).PosSemidef ∧ Matrix.trace (U * ρ * Uᴴ) = 1 :=
  ⟨hρ.mul_mul_conjTranspose_same U, by rw [trace_conj_unitary U ρ hU, ht]⟩

/-! ### measurement -/

theorem proj_Zq_add (n q : Nat) : proj n (Zq q false) + proj n (Zq q true) = 1 := by
  have hneg : pauliMat n (Zq q true) = -pauliMat n (Zq q false) := pauliMat_neg n (Zq q false)
  unfold proj
  rw [hneg, ← smul_add]
  have : (1 : Matrix (Bits n) (Bits n) ℂ) + pauliMat n (Zq q false) + (1 + -pauliMat n (Zq q false)) = (2 : ℂ) • 1 := by
    rw [two_smul]; abel
  rw [this, smul_smul]; norm_num

theorem proj_sandwich_psd (n : Nat) (z : PRow) (hz : z.ip = false) (ρ : Matrix (Bits n) (Bits n) ℂ)
    (hρ : ρ.PosSemidef) : (proj n z * ρ * proj n z).PosSemidef := by
  have := hρ.mul_mul_conjTranspose_same (proj n z)
  rw [proj_hermitian n z hz] at this
  exact this

theorem trace_proj_nonneg (n : Nat) (z : PRow) (hz : z.ip = false) (ρ : Matrix (Bits n) (Bits n) ℂ)
    (hρ : ρ.PosSemidef) : 0 ≤ Matrix.trace (proj n z * ρ) := by
  rw [← trace_proj_sandwich n z hz]
  exact (proj_sandwich_psd n z hz ρ hρ).trace_nonneg

/-- the outcome that `measOutcome` selects has non-zero probability -/
theorem measOutcome_prob_ne_zero (n q : Nat) (o : Bool) (ρ : Matrix (Bits n) (Bits n) ℂ) (ht : Matrix.trace ρ = 1) :
    Matrix.trace (proj n (Zq q (measOutcome n q o ρ)) * ρ) ≠ 0 := by
  have hsum : Matrix.trace (proj n (Zq q false) * ρ) + Matrix.trace (proj n (Zq q true) * ρ) = 1 := by
    rw [← Matrix.trace_add, ← Matrix.add_mul, proj_Zq_add, Matrix.one_mul, ht]
  unfold measOutcome
  by_cases h : Matrix.trace (proj n (Zq q o) * ρ) = 0
  · rw [if_pos h]
    intro h2
    cases o
    · rw [h] at hsum; simp at h2; rw [h2] at hsum; norm_num at hsum
    · rw [h] at hsum; simp at h2; rw [h2] at hsum; norm_num at hsum
  · rw [if_neg h]; exact h

theorem postMeas_isDensity (n q : Nat) (o : Bool) (ρ : Matrix (Bits n) (Bits n) ℂ) (hρ : ρ.PosSemidef)
    (ht : Matrix.trace ρ = 1) : (postMeas n q o ρ).PosSemidef ∧ Matrix.trace (postMeas n q o ρ) = 1 := by
  have hne := measOutcome_prob_ne_zero n q o ρ ht
  have hnn := trace_proj_nonneg n (Zq q (measOutcome n q o ρ)) rfl ρ hρ
  have hpos : 0 < Matrix.trace (proj n (Zq q (measOutcome n q o ρ)) * ρ) := lt_of_le_of_ne hnn (Ne.symm hne)
  have hinv : 0 ≤ (Matrix.trace (proj n (Zq q (measOutcome n q o ρ)) * ρ))⁻¹ := le_of_lt (RCLike.inv_pos_of_pos hpos)
  unfold postMeas
  refine ⟨(proj_sandwich_psd n _ rfl ρ hρ).smul hinv, ?_⟩
  rw [Matrix.trace_smul, trace_proj_sandwich n _ rfl, smul_eq_mul, inv_mul_cancel₀ hne]

/-! ### insertion and removal -/

theorem ketbra_psd (s : Bool) : (ketbra s).PosSemidef := by
  have h : ketbra s = Matrix.diagonal (fun b : Bool => if b = s then (1 : ℂ) else 0) := by
    ext a b
    cases s <;> cases a <;> cases b <;> simp [ketbra]
  rw [h]
  apply Matrix.PosSemidef.diagonal
  intro b
  show (0 : ℂ) ≤ if b = s then 1 else 0
  split <;> simp

theorem trace_ketbra (s : Bool) : Matrix.trace (ketbra s) = 1 := by
  cases s <;> simp [ketbra, Matrix.trace]

theorem insSite_psd {m : Nat} (q : Nat) (hq : q ≤ m) (A : Matrix (Bits m) (Bits m) ℂ) (u : Matrix Bool Bool ℂ)
    (hA : A.PosSemidef) (hu : u.PosSemidef) : (insSite q A u).PosSemidef := by
  rw [insSite_eq_kronecker q hq]
  exact (hA.kronecker hu).submatrix _

theorem kronB_psd {m n : Nat} (A : Matrix (Bits m) (Bits m) ℂ) (B : Matrix (Bits n) (Bits n) ℂ)
    (hA : A.PosSemidef) (hB : B.PosSemidef) : (kronB A B).PosSemidef := by
  rw [kronB_eq_kronecker]
  exact (hA.kronecker hB).submatrix _

theorem ptraceSite_psd {m : Nat} (q : Nat) (M : Matrix (Bits (m + 1)) (Bits (m + 1)) ℂ) (hM : M.PosSemidef) :
    (ptraceSite q M).PosSemidef := by
  have h : ptraceSite q M = M.submatrix (fun a => insB q a false) (fun a => insB q a false)
      + M.submatrix (fun a => insB q a true) (fun a => insB q a true) := by
    ext a b; rw [ptraceSite_apply]; rfl
  rw [h]
  exact (hM.submatrix _).add (hM.submatrix _)

/-! ### every API call maps density matrices to density matrices -/

/-- the arguments of an API call are in range for `n` qubits (what the `assert`s of the Python check) -/
def OpInB (n : Nat) : Tab.Op → Prop
  | .h q | .s q | .sdg q | .x q | .y q | .z q => q < n
  | .cnot c t | .cz c t => c < n ∧ t < n ∧ c ≠ t
  | .swap a b => a < n ∧ b < n
  | .meas q _ => q < n
  | .resetZ q _ _ | .resetX q _ _ | .resetY q _ _ => q < n
  | .insert p => p ≤ n
  | .add => True
  | .remove q _ => q < n
  | .ptrace _ _ => True

theorem dConj_gate_isDensity (g : Gate) (s : DState) (hs : IsDensity s) (hg : g.WF s.n) :
    IsDensity (dConj (fun n => gateMat n g) s) :=
  conj_isDensity s.n _ s.ρ (gate_unitary s.n g hg).2 hs.1 hs.2

theorem dMeas_isDensity (q : Nat) (o : Bool) (s : DState) (hs : IsDensity s) : IsDensity (dMeas q o s) :=
  postMeas_isDensity s.n q o s.ρ hs.1 hs.2

theorem dResetZ_isDensity (q : Nat) (i o : Bool) (s : DState) (hs : IsDensity s) (hq : q < s.n) :
    IsDensity (dResetZ q i o s) := by
  unfold dResetZ
  split
  · exact dMeas_isDensity q o s hs
  · exact dConj_gate_isDensity (.X q) (dMeas q o s) (dMeas_isDensity q o s hs) hq

theorem dInsert_isDensity (p : Nat) (s : DState) (hs : IsDensity s) (hp : p ≤ s.n) : IsDensity (dInsert p s) :=
  ⟨insSite_psd p hp s.ρ _ hs.1 (ketbra_psd false), by
    show Matrix.trace (insSite p s.ρ (ketbra false)) = 1
    rw [trace_insSite p hp, hs.2, trace_ketbra, _root_.mul_one]⟩

theorem dRemove_isDensity (q : Nat) (o : Bool) (s : DState) (hs : IsDensity s) (hq : q < s.n) :
    IsDensity (dRemove q o s) ∧ (dRemove q o s).n = s.n - 1 := by
  obtain ⟨n, ρ⟩ := s
  cases n with
  | zero => exact absurd hq (Nat.not_lt_zero _)
  | succ m =>
    have hm := postMeas_isDensity (m + 1) q o ρ hs.1 hs.2
    refine ⟨⟨ptraceSite_psd q _ hm.1, ?_⟩, rfl⟩
    show Matrix.trace (ptraceSite q (postMeas (m + 1) q o ρ)) = 1
    have hq' : q < m + 1 := hq
    rw [trace_ptraceSite q (by omega), hm.2]

open Classical in
theorem dPtraceGo_isDensity (rem : List Nat) : ∀ (os : List Bool) (s : DState), IsDensity s → rem.Pairwise (· > ·) →
    (∀ q, q ∈ rem → q < s.n) → IsDensity (dPtraceGo rem os s) := by
  induction rem with
  | nil => intro os s hs _ _; exact hs
  | cons q rest ih =>
    intro os s hs hpw hlt
    have hp := List.pairwise_cons.mp hpw
    have hq := hlt q List.mem_cons_self
    obtain ⟨h1, h2⟩ := dRemove_isDensity q (os.headD false) s hs hq
    show IsDensity (dPtraceGo rest _ (dRemove q (os.headD false) s))
    apply ih _ _ h1 hp.2
    intro q' hq'
    have := hp.1 q' hq'
    rw [h2]; omega

/-- **every in-range API call is a quantum operation**: density matrix in, density matrix out -/
theorem dOp_isDensity (op : Tab.Op) (s : DState) (hs : IsDensity s) (hb : OpInB s.n op) : IsDensity (dOp op s) := by
  cases op with
  | h q => exact dConj_gate_isDensity (.H q) s hs hb
  | s q => exact dConj_gate_isDensity (.P q) s hs hb
  | sdg q => exact dConj_gate_isDensity (.Pdag q) s hs hb
  | x q => exact dConj_gate_isDensity (.X q) s hs hb
  | y q => exact dConj_gate_isDensity (.Y q) s hs hb
  | z q => exact dConj_gate_isDensity (.Z q) s hs hb
  | cnot c t => exact dConj_gate_isDensity (.CNOT c t) s hs hb
  | cz c t => exact dConj_gate_isDensity (.CZ c t) s hs hb
  | swap a b => exact conj_isDensity s.n _ s.ρ (swap_unitary s.n a b hb.1 hb.2).2 hs.1 hs.2
  | meas q o => exact dMeas_isDensity q o s hs
  | resetZ q i o => exact dResetZ_isDensity q i o s hs hb
  | resetX q i o =>
    exact dConj_gate_isDensity (.H q) (dResetZ q i o s) (dResetZ_isDensity q i o s hs hb)
      (by unfold dResetZ; split <;> exact hb)
  | resetY q i o =>
    have h1 := dConj_gate_isDensity (.H q) (dResetZ q i o s) (dResetZ_isDensity q i o s hs hb)
      (by unfold dResetZ; split <;> exact hb)
    exact dConj_gate_isDensity (.P q) _ h1 (by unfold dResetZ; split <;> exact hb)
  | insert p => exact dInsert_isDensity p s hs hb
  | add => exact dInsert_isDensity s.n s hs (Nat.le_refl _)
  | remove q o => exact (dRemove_isDensity q o s hs hb).1
  | ptrace keep os =>
    exact dPtraceGo_isDensity (removalList s.n keep) os s hs (removalList_desc s.n keep)
      (fun q hq => ((mem_removalList s.n keep q).mp hq).1)

/-- the arguments stay in range along a history -/
def OpsInB : List Tab.Op → DState → Prop
  | [], _ => True
  | op :: rest, s => OpInB s.n op ∧ OpsInB rest (dOp op s)

theorem dOps_isDensity (ops : List Tab.Op) : ∀ s, IsDensity s → OpsInB ops s → IsDensity (dOps ops s) := by
  induction ops with
  | nil => intro s hs _; exact hs
  | cons op rest ih => intro s hs hb; exact ih _ (dOp_isDensity op s hs hb.1) hb.2

theorem dTensor_isDensity (s1 s2 : DState) (h1 : IsDensity s1) (h2 : IsDensity s2) : IsDensity (dTensor s1 s2) :=
  ⟨kronB_psd _ _ h1.1 h2.1, by
    show Matrix.trace (kronB s1.ρ s2.ρ) = 1
    rw [trace_kronB, h1.2, h2.2, _root_.mul_one]⟩

end Hilbert
end Graphiq
