/-
  Proofs/LCComp.lean — connected components for the repaired `is_lc_equivalent` (repair of D14).

  * `Reach n A i j`: `j` is reachable from `i` along edges of `A` inside the vertex set `0..n-1`;
  * the breadth-first search of `_connected_components` computes exactly the reachability class (`mem_bfs`,
    `mem_componentOf`), with `fuel = n` (`bfsLoop_inv`);
  * `connectedComponents` is a list of pairwise disjoint classes covering `0..n-1` (`connectedComponents_spec`), and depends on
    the graph only through its reachability relation (`connectedComponents_congr_reach`);
  * local complementation does not change reachability (`reach_localComp`), hence graphs in the same LC orbit have the same
    components as vertex sets (`components_lc_invariant`).
-/
import GraphiqModel.Proofs.LC
namespace Graphiq.LC
open Graphiq

/-! ### reachability -/

/-- `j` is reachable from `i` by a path of edges of `A` between vertices `< n` -/
inductive Reach (n : Nat) (A : Adj) : Nat → Nat → Prop
  | refl (i : Nat) : Reach n A i i
  | tail {i j k : Nat} : Reach n A i j → j < n → k < n → A j k = true → Reach n A i k

theorem Reach.trans {n : Nat} {A : Adj} {i j k : Nat} (h1 : Reach n A i j) (h2 : Reach n A j k) : Reach n A i k := by
  induction h2 with
  | refl => exact h1
  | tail _ hj hk ha ih => exact Reach.tail ih hj hk ha

theorem Reach.single {n : Nat} {A : Adj} {i j : Nat} (hi : i < n) (hj : j < n) (h : A i j = true) : Reach n A i j :=
  Reach.tail (Reach.refl i) hi hj h

theorem Reach.lt_right {n : Nat} {A : Adj} {i j : Nat} (h : Reach n A i j) (hi : i < n) : j < n := by
  cases h with
  | refl => exact hi
  | tail _ _ hk _ => exact hk

theorem Reach.symm {n : Nat} {A : Adj} {i j : Nat} (hA : ∀ i j, i < n → j < n → A i j = A j i) (h : Reach n A i j) :
    Reach n A j i := by
  induction h with
  | refl => exact Reach.refl _
  | tail _ hj hk ha ih =>
    exact (Reach.single hk hj (by rw [hA _ _ hk hj]; exact ha)).trans ih

/-- if every edge of `A` is a path of `B` then every path of `A` is a path of `B` -/
theorem Reach.mono_of {n : Nat} {A B : Adj} (h : ∀ i j, i < n → j < n → A i j = true → Reach n B i j) {i j : Nat}
    (r : Reach n A i j) : Reach n B i j := by
  induction r with
  | refl => exact Reach.refl _
  | tail _ hj hk ha ih => exact ih.trans (h _ _ hj hk ha)

theorem Reach.congr {n : Nat} {A B : Adj} (h : EqAdj n A B) {i j : Nat} (r : Reach n A i j) : Reach n B i j :=
  Reach.mono_of (fun i j hi hj ha => Reach.single hi hj (by rw [← h i j hi hj]; exact ha)) r

/-! ### the breadth-first search -/

theorem getD_of_lt (l : List Nat) (t : Nat) (ht : t < l.length) : l.getD t 0 = l[t] := by
  simp [List.getD, List.getElem?_eq_getElem ht]

theorem getD_mem_of_lt (l : List Nat) (t : Nat) (ht : t < l.length) : l.getD t 0 ∈ l := by
  rw [getD_of_lt l t ht]; exact List.getElem_mem ht

theorem exists_getD_of_mem (l : List Nat) (x : Nat) (h : x ∈ l) : ∃ t, t < l.length ∧ l.getD t 0 = x := by
  obtain ⟨t, ht, e⟩ := List.mem_iff_getElem.mp h
  exact ⟨t, ht, by rw [getD_of_lt l t ht]; exact e⟩

/-- one pass of the inner loop appends, in order, the not yet listed neighbours of `node` among `l` -/
theorem visit_fold (A : Adj) (node : Nat) (l comp : List Nat) :
    ∃ extra, l.foldl (fun c other => if A node other && !c.contains other then c ++ [other] else c) comp = comp ++ extra ∧
      (∀ x ∈ extra, x ∈ l ∧ A node x = true) ∧
      (∀ x ∈ l, A node x = true → x ∈ comp ++ extra) ∧ (comp.Nodup → (comp ++ extra).Nodup) := by
  induction l generalizing comp with
  | nil => exact ⟨[], by simp, by simp, by simp, by simp⟩
  | cons o l ih =>
    rw [List.foldl_cons]
    by_cases hc : (A node o && !comp.contains o) = true
    · rw [if_pos hc]
      obtain ⟨extra, e, h1, h2, h3⟩ := ih (comp ++ [o])
      have hao : A node o = true := by
        cases h : A node o
        · rw [h] at hc; simp at hc
        · rfl
      have hno : o ∉ comp := by
        intro hm
        have : comp.contains o = true := by simpa using hm
        rw [this, hao] at hc; simp at hc
      refine ⟨o :: extra, by rw [e]; simp, ?_, ?_, ?_⟩
      · intro x hx
        rcases List.mem_cons.mp hx with rfl | hx
        · exact ⟨List.mem_cons_self, hao⟩
        · exact ⟨List.mem_cons_of_mem _ (h1 x hx).1, (h1 x hx).2⟩
      · intro x hx hax
        rcases List.mem_cons.mp hx with rfl | hx
        · simp
        · have := h2 x hx hax
          simpa using this
      · intro hn
        have : (comp ++ [o]).Nodup := by
          rw [List.nodup_append]
          refine ⟨hn, by simp, ?_⟩
          intro a ha b hb
          have : b = o := by simpa using hb
          rw [this]
          intro e
          exact hno (e ▸ ha)
        have := h3 this
        simpa using this
    · rw [if_neg hc]
      obtain ⟨extra, e, h1, h2, h3⟩ := ih comp
      refine ⟨extra, e, ?_, ?_, h3⟩
      · intro x hx
        exact ⟨List.mem_cons_of_mem _ (h1 x hx).1, (h1 x hx).2⟩
      · intro x hx hax
        rcases List.mem_cons.mp hx with rfl | hx
        · have : comp.contains x = true := by
            cases h : comp.contains x
            · rw [h, hax] at hc; simp at hc
            · rfl
          have : x ∈ comp := by simpa using this
          exact List.mem_append_left _ this
        · exact h2 x hx hax

theorem bfsVisit_spec (n : Nat) (A : Adj) (node : Nat) (comp : List Nat) :
    ∃ extra, bfsVisit n A node comp = comp ++ extra ∧ (∀ x ∈ extra, x < n ∧ A node x = true) ∧
      (∀ x, x < n → A node x = true → x ∈ comp ++ extra) ∧ (comp.Nodup → (comp ++ extra).Nodup) := by
  obtain ⟨extra, e, h1, h2, h3⟩ := visit_fold A node (List.range n) comp
  refine ⟨extra, e, ?_, ?_, h3⟩
  · intro x hx
    exact ⟨List.mem_range.mp (h1 x hx).1, (h1 x hx).2⟩
  · intro x hx hax
    exact h2 x (List.mem_range.mpr hx) hax

/-- the invariant of `for node in component:`; `idx` = position of the iterator -/
structure BfsInv (n : Nat) (A : Adj) (start idx : Nat) (comp : List Nat) : Prop where
  nodup : comp.Nodup
  mem : ∀ x ∈ comp, x < n ∧ Reach n A start x
  start_mem : start ∈ comp
  idx_le : idx ≤ comp.length
  closed : ∀ t, t < idx → ∀ x, x < n → A (comp.getD t 0) x = true → x ∈ comp

theorem BfsInv.length_le {n : Nat} {A : Adj} {start idx : Nat} {comp : List Nat} (h : BfsInv n A start idx comp) :
    comp.length ≤ n := by
  have := h.nodup.length_le_of_subset (l₂ := List.range n) (fun x hx => List.mem_range.mpr (h.mem x hx).1)
  simpa using this

/-- the loop keeps the invariant and, with `fuel + idx ≥ n`, ends with the iterator at the end of the list -/
theorem bfsLoop_inv (n : Nat) (A : Adj) (start : Nat) (fuel idx : Nat) (comp : List Nat) (h : BfsInv n A start idx comp)
    (hf : n ≤ fuel + idx) :
    BfsInv n A start (bfsLoop n A fuel idx comp).length (bfsLoop n A fuel idx comp) := by
  induction fuel generalizing idx comp with
  | zero =>
    have hl := h.length_le
    have hi := h.idx_le
    have e : idx = comp.length := by omega
    show BfsInv n A start comp.length comp
    rw [← e]; exact h
  | succ fuel ih =>
    unfold bfsLoop
    by_cases hlt : idx < comp.length
    · rw [if_pos hlt]
      apply ih
      · obtain ⟨extra, e, h1, h2, h3⟩ := bfsVisit_spec n A (comp.getD idx 0) comp
        rw [e]
        have hnode := h.mem _ (getD_mem_of_lt comp idx hlt)
        refine ⟨h3 h.nodup, ?_, List.mem_append_left _ h.start_mem, by rw [List.length_append]; omega, ?_⟩
        · intro x hx
          rcases List.mem_append.mp hx with hx | hx
          · exact h.mem x hx
          · exact ⟨(h1 x hx).1, hnode.2.tail hnode.1 (h1 x hx).1 (h1 x hx).2⟩
        · intro t ht x hx hax
          have htl : t < comp.length := by omega
          rw [getD_append_left' comp extra t htl] at hax
          by_cases hti : t < idx
          · exact List.mem_append_left _ (h.closed t hti x hx hax)
          · have : t = idx := by omega
            subst this
            exact h2 x hx hax
      · omega
    · rw [if_neg hlt]
      have hi := h.idx_le
      have e : idx = comp.length := by omega
      rw [← e]; exact h

/-- **the breadth-first list of `start` is its reachability class** -/
theorem mem_bfs (n : Nat) (A : Adj) (start : Nat) (hs : start < n) (x : Nat) :
    x ∈ bfsLoop n A n 0 [start] ↔ Reach n A start x := by
  have h0 : BfsInv n A start 0 [start] :=
    ⟨by simp, by intro x hx; have : x = start := by simpa using hx
                 rw [this]; exact ⟨hs, Reach.refl _⟩, by simp, by simp, by intro t ht; omega⟩
  have hfin := bfsLoop_inv n A start n 0 [start] h0 (by omega)
  constructor
  · intro hx
    exact (hfin.mem x hx).2
  · intro r
    induction r with
    | refl => exact hfin.start_mem
    | tail _ hj hk ha ih =>
      obtain ⟨t, ht, e⟩ := exists_getD_of_mem _ _ ih
      exact hfin.closed t ht _ hk (by rw [e]; exact ha)

theorem bfs_nodup (n : Nat) (A : Adj) (start : Nat) (hs : start < n) : (bfsLoop n A n 0 [start]).Nodup := by
  have h0 : BfsInv n A start 0 [start] :=
    ⟨by simp, by intro x hx; have : x = start := by simpa using hx
                 rw [this]; exact ⟨hs, Reach.refl _⟩, by simp, by simp, by intro t ht; omega⟩
  exact (bfsLoop_inv n A start n 0 [start] h0 (by omega)).nodup

/-- `componentOf` is a filter of `range n` (so it is sorted and duplicate-free) … -/
theorem componentOf_eq_filter (n : Nat) (A : Adj) (start : Nat) :
    componentOf n A start = (List.range n).filter fun v => (bfsLoop n A n 0 [start]).contains v := rfl

/-- … whose members are the vertices reachable from `start` -/
theorem mem_componentOf (n : Nat) (A : Adj) (start : Nat) (hs : start < n) (x : Nat) :
    x ∈ componentOf n A start ↔ x < n ∧ Reach n A start x := by
  rw [componentOf_eq_filter, List.mem_filter, List.mem_range]
  have : ((bfsLoop n A n 0 [start]).contains x = true) ↔ x ∈ bfsLoop n A n 0 [start] := by simp
  rw [this, mem_bfs n A start hs x]

theorem self_mem_componentOf (n : Nat) (A : Adj) (start : Nat) (hs : start < n) : start ∈ componentOf n A start :=
  (mem_componentOf n A start hs start).mpr ⟨hs, Reach.refl _⟩

/-- the component depends on the graph only through reachability from `start` -/
theorem componentOf_congr (n : Nat) (A B : Adj) (s s' : Nat) (hs : s < n) (hs' : s' < n)
    (h : ∀ x, x < n → (Reach n A s x ↔ Reach n B s' x)) : componentOf n A s = componentOf n B s' := by
  rw [componentOf_eq_filter, componentOf_eq_filter]
  apply List.filter_congr
  intro x hx
  have hx' := List.mem_range.mp hx
  have e1 : ((bfsLoop n A n 0 [s]).contains x = true) ↔ Reach n A s x := by
    rw [← mem_bfs n A s hs x]; simp
  have e2 : ((bfsLoop n B n 0 [s']).contains x = true) ↔ Reach n B s' x := by
    rw [← mem_bfs n B s' hs' x]; simp
  rw [Bool.eq_iff_iff, e1, e2]
  exact h x hx'

/-! ### the list of components -/

/-- what `connectedComponents` guarantees: every entry is the class of a vertex, different entries are disjoint -/
structure CCInv (n : Nat) (A : Adj) (comps : List (List Nat)) : Prop where
  isClass : ∀ c ∈ comps, ∃ s, s < n ∧ c = componentOf n A s
  disjoint : comps.Pairwise fun c1 c2 => ∀ v, v ∈ c1 → v ∉ c2

/-- two classes with a common vertex are the same list (symmetric graphs) -/
theorem componentOf_eq_of_common (n : Nat) (A : Adj) (hA : ∀ i j, i < n → j < n → A i j = A j i) (s1 s2 v : Nat)
    (h1 : s1 < n) (h2 : s2 < n) (hv1 : v ∈ componentOf n A s1) (hv2 : v ∈ componentOf n A s2) :
    componentOf n A s1 = componentOf n A s2 := by
  have r1 := ((mem_componentOf n A s1 h1 v).mp hv1).2
  have r2 := ((mem_componentOf n A s2 h2 v).mp hv2).2
  apply componentOf_congr n A A s1 s2 h1 h2
  intro x _
  constructor
  · intro r; exact (r2.trans (r1.symm hA)).trans r
  · intro r; exact (r1.trans (r2.symm hA)).trans r

theorem cc_fold (n : Nat) (A : Adj) (hA : ∀ i j, i < n → j < n → A i j = A j i) (l : List Nat) (acc : List (List Nat))
    (hacc : CCInv n A acc) (hl : ∀ s ∈ l, s < n) :
    CCInv n A (l.foldl (fun comps start =>
        if comps.any (fun c => c.contains start) then comps else comps ++ [componentOf n A start]) acc) ∧
      (∀ c ∈ acc, c ∈ l.foldl (fun comps start =>
        if comps.any (fun c => c.contains start) then comps else comps ++ [componentOf n A start]) acc) ∧
      (∀ s ∈ l, ∃ c ∈ l.foldl (fun comps start =>
        if comps.any (fun c => c.contains start) then comps else comps ++ [componentOf n A start]) acc, s ∈ c) := by
  induction l generalizing acc with
  | nil => exact ⟨hacc, fun c hc => hc, by simp⟩
  | cons s l ih =>
    rw [List.foldl_cons]
    have hs : s < n := hl s List.mem_cons_self
    have hl' : ∀ t ∈ l, t < n := fun t ht => hl t (List.mem_cons_of_mem _ ht)
    by_cases hany : (acc.any fun c => c.contains s) = true
    · rw [if_pos hany]
      obtain ⟨i1, i2, i3⟩ := ih acc hacc hl'
      refine ⟨i1, i2, ?_⟩
      intro t ht
      rcases List.mem_cons.mp ht with rfl | ht
      · obtain ⟨c, hc, hcs⟩ := List.any_eq_true.mp hany
        exact ⟨c, i2 c hc, by simpa using hcs⟩
      · exact i3 t ht
    · rw [if_neg hany]
      have hnone : ∀ c ∈ acc, s ∉ c := by
        intro c hc hsc
        apply hany
        exact List.any_eq_true.mpr ⟨c, hc, by simpa using hsc⟩
      have hacc' : CCInv n A (acc ++ [componentOf n A s]) := by
        constructor
        · intro c hc
          rcases List.mem_append.mp hc with hc | hc
          · exact hacc.isClass c hc
          · exact ⟨s, hs, by simpa using hc⟩
        · rw [List.pairwise_append]
          refine ⟨hacc.disjoint, by simp, ?_⟩
          intro c1 hc1 c2 hc2 v hv1 hv2
          have e2 : c2 = componentOf n A s := by simpa using hc2
          obtain ⟨s1, hs1, e1⟩ := hacc.isClass c1 hc1
          rw [e1] at hv1
          rw [e2] at hv2
          have := componentOf_eq_of_common n A hA s1 s v hs1 hs hv1 hv2
          apply hnone c1 hc1
          rw [e1, this]
          exact self_mem_componentOf n A s hs
      obtain ⟨i1, i2, i3⟩ := ih (acc ++ [componentOf n A s]) hacc' hl'
      refine ⟨i1, fun c hc => i2 c (List.mem_append_left _ hc), ?_⟩
      intro t ht
      rcases List.mem_cons.mp ht with rfl | ht
      · exact ⟨componentOf n A t, i2 _ (by simp), self_mem_componentOf n A t hs⟩
      · exact i3 t ht

/-- **`_connected_components` returns a partition of the vertex set into reachability classes** -/
theorem connectedComponents_spec (n : Nat) (A : Adj) (hA : ∀ i j, i < n → j < n → A i j = A j i) :
    CCInv n A (connectedComponents n A) ∧ ∀ v, v < n → ∃ c ∈ connectedComponents n A, v ∈ c := by
  obtain ⟨h1, _, h3⟩ := cc_fold n A hA (List.range n) [] ⟨by simp, by simp⟩ (fun s hs => List.mem_range.mp hs)
  exact ⟨h1, fun v hv => h3 v (List.mem_range.mpr hv)⟩

theorem foldl_congr_mem {α β : Type} (f g : β → α → β) (l : List α) (b : β) (h : ∀ acc, ∀ x ∈ l, f acc x = g acc x) :
    l.foldl f b = l.foldl g b := by
  induction l generalizing b with
  | nil => rfl
  | cons x l ih =>
    rw [List.foldl_cons, List.foldl_cons, h b x List.mem_cons_self]
    exact ih _ (fun acc y hy => h acc y (List.mem_cons_of_mem _ hy))

/-- the list of components depends on the graph only through the classes -/
theorem connectedComponents_congr (n : Nat) (A B : Adj) (h : ∀ s, s < n → componentOf n A s = componentOf n B s) :
    connectedComponents n A = connectedComponents n B := by
  unfold connectedComponents
  apply foldl_congr_mem
  intro acc s hs
  rw [h s (List.mem_range.mp hs)]

theorem connectedComponents_congr_reach (n : Nat) (A B : Adj) (h : ∀ i j, Reach n A i j ↔ Reach n B i j) :
    connectedComponents n A = connectedComponents n B :=
  connectedComponents_congr n A B fun s hs => componentOf_congr n A B s s hs hs fun x _ => h s x

/-! ### local complementation preserves the components -/

/-- an edge of the complemented graph is an edge or a path `i – v – j` of the original graph -/
theorem reach_of_localComp_edge (n : Nat) (A : Adj) (v : Nat) (hv : v < n) (i j : Nat) (hi : i < n) (hj : j < n)
    (h : localComp A v i j = true) : Reach n A i j := by
  unfold localComp at h
  by_cases e : i = j
  · rw [if_pos e] at h; cases h
  · rw [if_neg e] at h
    cases hij : A i j
    · rw [hij] at h
      have h' : (A i v && A v j) = true := by simpa using h
      have h1 : A i v = true := by
        cases hh : A i v
        · rw [hh] at h'; simp at h'
        · rfl
      have h2 : A v j = true := by
        cases hh : A v j
        · rw [hh] at h'; simp at h'
        · rfl
      exact (Reach.single hi hv h1).trans (Reach.single hv hj h2)
    · exact Reach.single hi hj hij

/-- **local complementation does not change reachability** -/
theorem reach_localComp (n : Nat) (A : Adj) (v : Nat) (hv : v < n) (hA : Simple n A) (i j : Nat) :
    Reach n (localComp A v) i j ↔ Reach n A i j := by
  constructor
  · exact Reach.mono_of (fun i j hi hj h => reach_of_localComp_edge n A v hv i j hi hj h)
  · intro r
    have hinv := localComp_involution_simple n A v hv hA
    have r' : Reach n (localComp (localComp A v) v) i j := Reach.congr hinv.symm r
    exact Reach.mono_of (fun i j hi hj h => reach_of_localComp_edge n (localComp A v) v hv i j hi hj h) r'

theorem reach_applySeq (n : Nat) (A : Adj) (vs : List Nat) (hA : Simple n A) (hvs : ∀ v ∈ vs, v < n) (i j : Nat) :
    Reach n (applySeq A vs) i j ↔ Reach n A i j := by
  induction vs generalizing A with
  | nil => exact Iff.rfl
  | cons v vs ih =>
    have hv : v < n := hvs v List.mem_cons_self
    show Reach n (applySeq (localComp A v) vs) i j ↔ _
    rw [ih (localComp A v) (localComp_simple n A v hv hA) (fun w hw => hvs w (List.mem_cons_of_mem _ hw))]
    exact reach_localComp n A v hv hA i j

/-- **the connected components (as vertex sets) are an invariant of the LC orbit** -/
theorem components_lc_invariant (n : Nat) (A B : Adj) (hA : Simple n A) (vs : List Nat) (hvs : ∀ v ∈ vs, v < n)
    (hB : EqAdj n (applySeq A vs) B) : connectedComponents n A = connectedComponents n B := by
  apply connectedComponents_congr_reach
  intro i j
  rw [← reach_applySeq n A vs hA hvs i j]
  exact ⟨Reach.congr hB, Reach.congr hB.symm⟩

end Graphiq.LC
