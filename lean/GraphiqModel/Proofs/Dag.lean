/-
  Dag.lean — invariants of the circuit-DAG model and their preservation by the primitives of circuit_dag.py.

  `Inv c P`   : structural consistency of the concrete state `c` with respect to the abstract per-register wires
                `P : Reg → List NodeId` (the full path `inp k, …, out k` of every live register `k`): the keyed edges are
                exactly the consecutive pairs of the wires, nodes/ids/registers agree, both indexes agree with the graph.
  `Mem c P`   : the wire of a quantum register visits exactly the operation nodes acting on it (classical: only such).
  `Acyclic c` : no directed cycle.
-/
import GraphiqModel.Proofs.DagBasic
set_option linter.unusedSectionVars false
set_option linter.unusedSimpArgs false
namespace Graphiq
namespace Dag
open Relation

/-! ## basic definitions -/

/-- register `k` exists in the circuit -/
def live (c : Dag) (k : Reg) : Prop := k.idx < c.regs k.ty

instance (c : Dag) (k : Reg) : Decidable (c.live k) := by unfold live; infer_instance

/-- the edge relation of the graph -/
def E (c : Dag) (a b : NodeId) : Prop := ∃ e ∈ c.edges, e.src = a ∧ e.dst = b

def Acyclic (c : Dag) : Prop := AcyclicRel c.E

abbrev Paths := Reg → List NodeId

def setPath (P : Paths) (k : Reg) (l : List NodeId) : Paths := fun k' => if k' = k then l else P k'

@[simp] theorem setPath_same (P : Paths) (k : Reg) (l : List NodeId) : setPath P k l k = l := by simp [setPath]
theorem setPath_other (P : Paths) {k k' : Reg} (l : List NodeId) (h : k' ≠ k) : setPath P k l k' = P k' := by
  simp [setPath, h]

/-- the `node_dict` keys of a node -/
def indexKeysOf (n : NodeId) (op : Op) : List String :=
  match n with
  | .inp _ => ["Input"]
  | .out _ => ["Output"]
  | .op _ => op.indexKeys

/-- how often node `n` must be listed under label `l` -/
def indexCount (c : Dag) (n : NodeId) (l : String) : Nat :=
  match c.opOf? n with
  | some op => (indexKeysOf n op).count l
  | none => 0

/-- well-formed operation argument of an edit: a gate (not an I/O marker) on at least one, pairwise distinct,
    quantum registers (`OperationBase` asserts the register types are "e"/"p") -/
structure OpWF (op : Op) : Prop where
  not_input : op.kind ≠ .input
  not_output : op.kind ≠ .output
  qregs_ne : op.qregs ≠ []
  qregs_nodup : op.qregs.Nodup
  cregs_nodup : op.cregs.Nodup
  qregs_quantum : ∀ r ∈ op.qregs, r.ty ≠ .c
  /-- a `OneQubitGateWrapper` is a one-qubit operation wrapping one-qubit gate classes -/
  wrapper_shape : op.kind = .wrapper → (∃ r, op.qregs = [r]) ∧ op.cregs = [] ∧ ∀ k ∈ op.inner, k.isOneQubitBase = true
  /-- user labels do not collide with the class name under which wrappers are indexed -/
  wrapper_key : "OneQubitGateWrapper" ∈ op.indexKeys → op.kind = .wrapper

structure Inv (c : Dag) (P : Paths) : Prop where
  edges_nodup : c.edges.Nodup
  edges_iff : ∀ e, e ∈ c.edges ↔ Consec (P e.key) e.src e.dst
  dead : ∀ k, ¬ c.live k → P k = []
  shape : ∀ k, c.live k → ∃ mid, P k = .inp k :: (mid ++ [.out k]) ∧ ∀ n ∈ mid, ∃ i, n = NodeId.op i
  nodup : ∀ k, (P k).Nodup
  mem_nodes : ∀ k n, n ∈ P k → n ∈ c.nodeIds
  edgeDict_ok : ∀ t e, (dictGet c.edgeDict t).count e = if e ∈ c.edges ∧ e.key.ty = t then 1 else 0
  ids_nodup : c.nodeIds.Nodup
  inp_iff : ∀ r, NodeId.inp r ∈ c.nodeIds ↔ c.live r
  out_iff : ∀ r, NodeId.out r ∈ c.nodeIds ↔ c.live r
  inp_op : ∀ r op, (NodeId.inp r, op) ∈ c.nodes → op = Op.io .input r
  out_op : ∀ r op, (NodeId.out r, op) ∈ c.nodes → op = Op.io .output r
  op_range : ∀ i, NodeId.op i ∈ c.nodeIds → 1 ≤ i ∧ i ≤ c.nodeId
  op_wf : ∀ i op, (NodeId.op i, op) ∈ c.nodes → OpWF op
  nodeDict_ok : ∀ l n, (dictGet c.nodeDict l).count n = c.indexCount n l

/-- the wire of a quantum register visits exactly the operations acting on it; a classical wire only such -/
structure Mem (c : Dag) (P : Paths) : Prop where
  mem_q : ∀ i op, (NodeId.op i, op) ∈ c.nodes → ∀ k, k.ty ≠ .c → (NodeId.op i ∈ P k ↔ k ∈ op.qregs)
  mem_c : ∀ i op, (NodeId.op i, op) ∈ c.nodes → ∀ r, NodeId.op i ∈ P ⟨.c, r⟩ → r ∈ op.cregs

/-- all three together, for given wires -/
structure Good (c : Dag) (P : Paths) : Prop where
  inv : Inv c P
  mem : Mem c P
  acyc : Acyclic c

/-- **DagInv** of DESIGN §4 C12 -/
def DagInv (c : Dag) : Prop := ∃ P, Good c P

/-! ## projections of the primitives -/

@[simp] theorem addEdge_nodes (c : Dag) (u v k) : (c.addEdge u v k).nodes = c.nodes := rfl
@[simp] theorem addEdge_nodeDict (c : Dag) (u v k) : (c.addEdge u v k).nodeDict = c.nodeDict := rfl
@[simp] theorem addEdge_nodeId (c : Dag) (u v k) : (c.addEdge u v k).nodeId = c.nodeId := rfl
@[simp] theorem addEdge_regs (c : Dag) (u v k) : (c.addEdge u v k).regs = c.regs := by funext t; cases t <;> rfl
@[simp] theorem removeEdge_nodes (c : Dag) (e) : (c.removeEdge e).nodes = c.nodes := rfl
@[simp] theorem removeEdge_nodeDict (c : Dag) (e) : (c.removeEdge e).nodeDict = c.nodeDict := rfl
@[simp] theorem removeEdge_nodeId (c : Dag) (e) : (c.removeEdge e).nodeId = c.nodeId := rfl
@[simp] theorem removeEdge_regs (c : Dag) (e) : (c.removeEdge e).regs = c.regs := by funext t; cases t <;> rfl
@[simp] theorem splice_nodes (c : Dag) (n e) : (c.splice n e).nodes = c.nodes := rfl
@[simp] theorem splice_nodeDict (c : Dag) (n e) : (c.splice n e).nodeDict = c.nodeDict := rfl
@[simp] theorem splice_nodeId (c : Dag) (n e) : (c.splice n e).nodeId = c.nodeId := rfl
@[simp] theorem splice_regs (c : Dag) (n e) : (c.splice n e).regs = c.regs := by funext t; cases t <;> rfl

theorem nodeIds_eq_of_nodes {c c' : Dag} (h : c'.nodes = c.nodes) : c'.nodeIds = c.nodeIds := by simp [nodeIds, h]
theorem opOf_eq_of_nodes {c c' : Dag} (h : c'.nodes = c.nodes) (n : NodeId) : c'.opOf? n = c.opOf? n := by
  simp [opOf?, h]
theorem indexCount_eq_of_nodes {c c' : Dag} (h : c'.nodes = c.nodes) (n : NodeId) (l : String) :
    c'.indexCount n l = c.indexCount n l := by simp [indexCount, opOf_eq_of_nodes h]
theorem live_eq_of_regs {c c' : Dag} (h : c'.regs = c.regs) (k : Reg) : c'.live k ↔ c.live k := by simp [live, h]

theorem mem_addEdge (c : Dag) (u v : NodeId) (k : Reg) (e : Edge) :
    e ∈ (c.addEdge u v k).edges ↔ e ∈ c.edges ∨ e = ⟨u, v, k⟩ := by
  unfold addEdge
  by_cases h : (⟨u, v, k⟩ : Edge) ∈ c.edges
  · simp only [h, if_true]
    constructor
    · exact Or.inl
    · rintro (h' | rfl); exact h'; exact h
  · simp [h]

theorem mem_removeEdge_imp (c : Dag) (e e' : Edge) (h : e' ∈ (c.removeEdge e).edges) : e' ∈ c.edges :=
  List.mem_of_mem_erase h

theorem mem_splice_imp (c : Dag) (n : NodeId) (e e' : Edge) (h : e' ∈ (c.splice n e).edges) :
    e' ∈ c.edges ∨ e' = ⟨e.src, n, e.key⟩ ∨ e' = ⟨n, e.dst, e.key⟩ := by
  have h1 := mem_removeEdge_imp _ _ _ h
  rw [mem_addEdge, mem_addEdge] at h1
  tauto

/-! ## the splice step -/

theorem insertAfter_append_of_mem {α : Type} [DecidableEq α] {l1 l2 : List α} {u n : α} (hu : u ∈ l1) :
    insertAfter (l1 ++ l2) u n = insertAfter l1 u n ++ l2 := by
  induction l1 with
  | nil => simp at hu
  | cons a t ih =>
    by_cases h : a = u
    · simp [insertAfter, h]
    · have : u ∈ t := by
        rcases List.mem_cons.mp hu with e | e
        · exact absurd e.symm h
        · exact e
      simp [insertAfter, h, ih this]

theorem Inv.live_of_edge {c : Dag} {P : Paths} (h : Inv c P) {e : Edge} (he : e ∈ c.edges) : c.live e.key := by
  by_cases hl : c.live e.key
  · exact hl
  · have := (h.edges_iff e).mp he
    rw [h.dead _ hl] at this
    simp at this

theorem Inv.src_ne_out {c : Dag} {P : Paths} (h : Inv c P) {e : Edge} (he : e ∈ c.edges) : e.src ≠ .out e.key := by
  intro hsrc
  obtain ⟨mid, hP, _⟩ := h.shape _ (h.live_of_edge he)
  have hc := (h.edges_iff e).mp he
  have hn := h.nodup e.key
  rw [hP, hsrc] at hc
  rw [hP] at hn
  have e1 : NodeId.inp e.key :: (mid ++ [NodeId.out e.key]) = (NodeId.inp e.key :: mid) ++ [NodeId.out e.key] := by simp
  rw [e1] at hc hn
  exact consec_last_no_succ hn hc

theorem Inv.dst_ne_inp {c : Dag} {P : Paths} (h : Inv c P) {e : Edge} (he : e ∈ c.edges) : e.dst ≠ .inp e.key := by
  intro hdst
  obtain ⟨mid, hP, _⟩ := h.shape _ (h.live_of_edge he)
  have hc := (h.edges_iff e).mp he
  have hn := h.nodup e.key
  rw [hP, hdst] at hc
  rw [hP] at hn
  exact consec_head_no_pred hn hc

theorem count_singleton_ne {α : Type} [DecidableEq α] {a b : α} (h : a ≠ b) : [a].count b = 0 := by
  simp [List.count_cons, h]

theorem prop_splice {A B C D : Prop} (hB : B → ¬ D) (hC : C → ¬ D) :
    ((A ∨ B ∨ C) ∧ ¬ D) ↔ ((A ∧ ¬ D) ∨ B ∨ C) := by tauto

theorem prop_other {A B C D : Prop} (hB : ¬ B) (hC : ¬ C) (hD : ¬ D) : ((A ∨ B ∨ C) ∧ ¬ D) ↔ A := by tauto

/-- hypotheses of a splice step, unpacked -/
structure SpliceHyp (c : Dag) (P : Paths) (n u v : NodeId) (k : Reg) : Prop where
  inv : Inv c P
  he : (⟨u, v, k⟩ : Edge) ∈ c.edges
  hnodes : n ∈ c.nodeIds
  hnP : n ∉ P k

namespace SpliceHyp
variable {c : Dag} {P : Paths} {n u v : NodeId} {k : Reg} (H : SpliceHyp c P n u v k)
include H

theorem cons : Consec (P k) u v := (H.inv.edges_iff ⟨u, v, k⟩).mp H.he
theorem nu : n ≠ u := fun e => H.hnP (e ▸ H.cons.mem.1)
theorem nv : n ≠ v := fun e => H.hnP (e ▸ H.cons.mem.2)
theorem e1_notin : (⟨u, n, k⟩ : Edge) ∉ c.edges := fun hm => H.hnP ((H.inv.edges_iff ⟨u, n, k⟩).mp hm).mem.2
theorem e2_notin : (⟨n, v, k⟩ : Edge) ∉ c.edges := fun hm => H.hnP ((H.inv.edges_iff ⟨n, v, k⟩).mp hm).mem.1
theorem e12 : (⟨n, v, k⟩ : Edge) ≠ ⟨u, n, k⟩ := by intro e; injection e with e _ _; exact H.nu e

theorem edges_eq : (c.splice n ⟨u, v, k⟩).edges =
    ((c.edges ++ [(⟨u, n, k⟩ : Edge)]) ++ [(⟨n, v, k⟩ : Edge)]).erase ⟨u, v, k⟩ := by
  simp only [splice, addEdge, removeEdge]
  have he2' : (⟨n, v, k⟩ : Edge) ∉ c.edges ++ [⟨u, n, k⟩] := by
    intro hm
    rcases List.mem_append.mp hm with hm | hm
    · exact H.e2_notin hm
    · exact H.e12 (List.mem_singleton.mp hm)
  rw [if_neg H.e1_notin, if_neg he2']

theorem nodup2 : ((c.edges ++ [(⟨u, n, k⟩ : Edge)]) ++ [(⟨n, v, k⟩ : Edge)]).Nodup := by
  rw [List.nodup_append]
  refine ⟨?_, by simp, ?_⟩
  · rw [List.nodup_append]
    refine ⟨H.inv.edges_nodup, by simp, ?_⟩
    intro a ha b hb; simp at hb; subst hb; intro e; subst e; exact H.e1_notin ha
  · intro a ha b hb; simp at hb; subst hb; intro e; subst e
    rcases List.mem_append.mp ha with ha | ha
    · exact H.e2_notin ha
    · exact H.e12 (List.mem_singleton.mp ha)

theorem mem_iff (e' : Edge) : e' ∈ (c.splice n ⟨u, v, k⟩).edges ↔
    (e' ∈ c.edges ∨ e' = ⟨u, n, k⟩ ∨ e' = ⟨n, v, k⟩) ∧ e' ≠ ⟨u, v, k⟩ := by
  rw [H.edges_eq, H.nodup2.mem_erase_iff]
  simp only [List.mem_append, List.mem_singleton]
  constructor
  · rintro ⟨h1, (h2 | h2) | h2⟩
    · exact ⟨Or.inl h2, h1⟩
    · exact ⟨Or.inr (Or.inl h2), h1⟩
    · exact ⟨Or.inr (Or.inr h2), h1⟩
  · rintro ⟨h2 | h2 | h2, h1⟩
    · exact ⟨h1, Or.inl (Or.inl h2)⟩
    · exact ⟨h1, Or.inl (Or.inr h2)⟩
    · exact ⟨h1, Or.inr h2⟩

theorem edges_iff (e' : Edge) : e' ∈ (c.splice n ⟨u, v, k⟩).edges ↔
    Consec (setPath P k (insertAfter (P k) u n) e'.key) e'.src e'.dst := by
  rw [H.mem_iff]
  by_cases hk : e'.key = k
  · obtain ⟨x, y, k'⟩ := e'
    simp only at hk; subst hk
    simp only [setPath_same]
    rw [consec_insertAfter (H.inv.nodup k') H.cons H.hnP, ← H.inv.edges_iff ⟨x, y, k'⟩]
    simp only [Edge.mk.injEq, ne_eq, and_true]
    exact prop_splice (fun ⟨_, h1⟩ ⟨_, h2⟩ => H.nv (h1.symm.trans h2)) (fun ⟨h1, _⟩ ⟨h2, _⟩ => H.nu (h1.symm.trans h2))
  · rw [setPath_other _ _ hk, ← H.inv.edges_iff e']
    exact prop_other (fun e => hk (by rw [e])) (fun e => hk (by rw [e])) (fun e => hk (by rw [e]))

theorem edgeDict_ok (t : RegType) (e' : Edge) :
    (dictGet (c.splice n ⟨u, v, k⟩).edgeDict t).count e' =
      if e' ∈ (c.splice n ⟨u, v, k⟩).edges ∧ e'.key.ty = t then 1 else 0 := by
  have hedict : (c.splice n ⟨u, v, k⟩).edgeDict =
      dictRemove (dictAppend (dictAppend c.edgeDict k.ty ⟨u, n, k⟩) k.ty ⟨n, v, k⟩) k.ty ⟨u, v, k⟩ := rfl
  rw [hedict, dictGet_dictRemove]
  have hm := H.mem_iff e'
  by_cases ht : t = k.ty
  · subst ht
    rw [if_pos rfl, dictGet_dictAppend, if_pos rfl, dictGet_dictAppend, if_pos rfl, List.count_erase, List.count_append,
      List.count_append, H.inv.edgeDict_ok]
    have huv1 : (⟨u, v, k⟩ : Edge) ≠ ⟨u, n, k⟩ := by intro e; injection e with _ e _; exact H.nv e.symm
    have huv2 : (⟨u, v, k⟩ : Edge) ≠ ⟨n, v, k⟩ := by intro e; injection e with e _ _; exact H.nu e.symm
    by_cases c0 : e' = ⟨u, v, k⟩
    · subst c0
      have hr : ¬ ((⟨u, v, k⟩ : Edge) ∈ (c.splice n ⟨u, v, k⟩).edges ∧ (⟨u, v, k⟩ : Edge).key.ty = k.ty) := by
        rw [hm]; intro h; exact h.1.2 rfl
      rw [if_neg hr, if_pos ⟨H.he, rfl⟩, count_singleton_ne (Ne.symm huv1), count_singleton_ne (Ne.symm huv2)]
      simp
    · have c0' : ¬ ((⟨u, v, k⟩ : Edge) == e') = true := by simpa using fun e => c0 e.symm
      rw [if_neg c0', Nat.sub_zero]
      by_cases c1 : e' = ⟨u, n, k⟩
      · subst c1
        have hr : ((⟨u, n, k⟩ : Edge) ∈ (c.splice n ⟨u, v, k⟩).edges ∧ (⟨u, n, k⟩ : Edge).key.ty = k.ty) := by
          rw [hm]; exact ⟨⟨Or.inr (Or.inl rfl), c0⟩, rfl⟩
        have hl : ¬ ((⟨u, n, k⟩ : Edge) ∈ c.edges ∧ (⟨u, n, k⟩ : Edge).key.ty = k.ty) := fun h => H.e1_notin h.1
        rw [if_pos hr, if_neg hl, count_singleton_ne H.e12]
        simp
      · by_cases c2 : e' = ⟨n, v, k⟩
        · subst c2
          have hr : ((⟨n, v, k⟩ : Edge) ∈ (c.splice n ⟨u, v, k⟩).edges ∧ (⟨n, v, k⟩ : Edge).key.ty = k.ty) := by
            rw [hm]; exact ⟨⟨Or.inr (Or.inr rfl), c0⟩, rfl⟩
          have hl : ¬ ((⟨n, v, k⟩ : Edge) ∈ c.edges ∧ (⟨n, v, k⟩ : Edge).key.ty = k.ty) := fun h => H.e2_notin h.1
          rw [if_pos hr, if_neg hl, count_singleton_ne (Ne.symm H.e12)]
          simp
        · rw [count_singleton_ne (Ne.symm c1), count_singleton_ne (Ne.symm c2)]
          simp only [Nat.add_zero]
          have hiff : (e' ∈ (c.splice n ⟨u, v, k⟩).edges ∧ e'.key.ty = k.ty) ↔ (e' ∈ c.edges ∧ e'.key.ty = k.ty) := by
            rw [hm]
            constructor
            · rintro ⟨⟨h1 | h1 | h1, _⟩, h2⟩
              · exact ⟨h1, h2⟩
              · exact absurd h1 c1
              · exact absurd h1 c2
            · rintro ⟨h1, h2⟩; exact ⟨⟨Or.inl h1, c0⟩, h2⟩
          by_cases hc : e' ∈ c.edges ∧ e'.key.ty = k.ty
          · rw [if_pos hc, if_pos (hiff.mpr hc)]
          · rw [if_neg hc, if_neg (fun h => hc (hiff.mp h))]
  · rw [if_neg ht, dictGet_dictAppend, if_neg ht, dictGet_dictAppend, if_neg ht, H.inv.edgeDict_ok]
    have ht' : ¬ k.ty = t := fun e => ht e.symm
    have hiff : (e' ∈ (c.splice n ⟨u, v, k⟩).edges ∧ e'.key.ty = t) ↔ (e' ∈ c.edges ∧ e'.key.ty = t) := by
      rw [hm]
      constructor
      · rintro ⟨⟨h1 | h1 | h1, _⟩, h2⟩
        · exact ⟨h1, h2⟩
        · exact absurd (by rw [← h2, h1]) ht'
        · exact absurd (by rw [← h2, h1]) ht'
      · rintro ⟨h1, h2⟩
        exact ⟨⟨Or.inl h1, fun e => ht' (by rw [← h2, e])⟩, h2⟩
    by_cases hc : e' ∈ c.edges ∧ e'.key.ty = t
    · rw [if_pos hc, if_pos (hiff.mpr hc)]
    · rw [if_neg hc, if_neg (fun h => hc (hiff.mp h))]

end SpliceHyp

/-- put node `n` (an operation node of the circuit, not yet on the wire) on the edge `e`: all structural
    invariants survive with `n` inserted after `e.src` on the wire of `e.key` -/
theorem splice_inv {c : Dag} {P : Paths} (h : Inv c P) {e : Edge} (he : e ∈ c.edges) {n : NodeId} {i : Nat}
    (hn : n = .op i) (hnodes : n ∈ c.nodeIds) (hnP : n ∉ P e.key) :
    Inv (c.splice n e) (setPath P e.key (insertAfter (P e.key) e.src n)) := by
  obtain ⟨u, v, k⟩ := e
  simp only at hnP ⊢
  have H : SpliceHyp c P n u v k := ⟨h, he, hnodes, hnP⟩
  have hlive : c.live k := h.live_of_edge he
  have hu : u ∈ P k := H.cons.mem.1
  refine
    { edges_nodup := by rw [H.edges_eq]; exact H.nodup2.erase _
      edges_iff := H.edges_iff
      dead := ?_
      shape := ?_
      nodup := ?_
      mem_nodes := ?_
      edgeDict_ok := H.edgeDict_ok
      ids_nodup := by simpa [nodeIds] using h.ids_nodup
      inp_iff := by intro r; simpa [nodeIds, live] using h.inp_iff r
      out_iff := by intro r; simpa [nodeIds, live] using h.out_iff r
      inp_op := by intro r op; simpa using h.inp_op r op
      out_op := by intro r op; simpa using h.out_op r op
      op_range := by intro j; simpa [nodeIds] using h.op_range j
      op_wf := by intro j op; simpa using h.op_wf j op
      nodeDict_ok := by
        intro l m
        rw [splice_nodeDict, indexCount_eq_of_nodes (splice_nodes c n _)]
        exact h.nodeDict_ok l m }
  · -- dead
    intro k' hk'
    have hk' : ¬ c.live k' := by simpa [live] using hk'
    have : k' ≠ k := fun e => hk' (e ▸ hlive)
    rw [setPath_other _ _ this]; exact h.dead k' hk'
  · -- shape
    intro k' hk'
    have hk' : c.live k' := by simpa [live] using hk'
    by_cases hkk : k' = k
    · subst hkk
      obtain ⟨mid, hP, hmid⟩ := h.shape _ hlive
      simp only [setPath_same]
      rw [hP]
      by_cases hu0 : NodeId.inp k' = u
      · refine ⟨n :: mid, by simp [insertAfter, hu0], ?_⟩
        intro m hm; rcases List.mem_cons.mp hm with rfl | hm
        · exact ⟨i, hn⟩
        · exact hmid m hm
      · have hu' : u ∈ mid := by
          rw [hP] at hu
          rcases List.mem_cons.mp hu with e | hu
          · exact absurd e.symm hu0
          · rcases List.mem_append.mp hu with hu | hu
            · exact hu
            · simp at hu
              exact absurd hu (h.src_ne_out he)
        refine ⟨insertAfter mid u n, ?_, ?_⟩
        · simp [insertAfter, hu0, insertAfter_append_of_mem hu']
        · intro m hm
          rcases (mem_insertAfter hu').mp hm with hm | rfl
          · exact hmid m hm
          · exact ⟨i, hn⟩
    · rw [setPath_other _ _ hkk]; exact h.shape k' hk'
  · -- nodup
    intro k'
    by_cases hkk : k' = k
    · subst hkk; simp only [setPath_same]; exact insertAfter_nodup (h.nodup k') hnP
    · rw [setPath_other _ _ hkk]; exact h.nodup k'
  · -- mem_nodes
    intro k' m hm
    rw [nodeIds_eq_of_nodes (splice_nodes c n _)]
    by_cases hkk : k' = k
    · subst hkk
      simp only [setPath_same] at hm
      rcases (mem_insertAfter hu).mp hm with hm | rfl
      · exact h.mem_nodes _ m hm
      · exact hnodes
    · rw [setPath_other _ _ hkk] at hm; exact h.mem_nodes k' m hm


/-! ## node lookups -/

theorem mem_nodeIds {c : Dag} {n : NodeId} : n ∈ c.nodeIds ↔ ∃ op, (n, op) ∈ c.nodes := by
  simp [nodeIds]

theorem hasNode_iff {c : Dag} {n : NodeId} : c.hasNode n = true ↔ n ∈ c.nodeIds := by
  simp [hasNode]

theorem find_fst_of_nodup {l : List (NodeId × Op)} (hnd : (l.map (·.1)).Nodup) {n : NodeId} {op : Op}
    (h : (n, op) ∈ l) : l.find? (fun p => p.1 = n) = some (n, op) := by
  induction l with
  | nil => simp at h
  | cons a t ih =>
    have hnd' : a.1 ∉ t.map (·.1) ∧ (t.map (·.1)).Nodup := by
      rw [List.map_cons] at hnd; exact List.nodup_cons.mp hnd
    rcases List.mem_cons.mp h with rfl | h
    · simp
    · have : a.1 ≠ n := by
        intro e
        apply hnd'.1
        rw [e]
        exact List.mem_map.mpr ⟨(n, op), h, rfl⟩
      simp [List.find?_cons, this, ih hnd'.2 h]

theorem opOf_eq_some {c : Dag} (hnd : c.nodeIds.Nodup) {n : NodeId} {op : Op} :
    c.opOf? n = some op ↔ (n, op) ∈ c.nodes := by
  constructor
  · intro h
    unfold opOf? at h
    split at h
    · rename_i p hp
      have := List.find?_some hp
      have hm := List.mem_of_find?_eq_some hp
      simp at this h
      subst h; rw [← this]; exact hm
    · simp at h
  · intro h
    unfold opOf?
    rw [find_fst_of_nodup hnd h]

theorem opOf_eq_none {c : Dag} {n : NodeId} : c.opOf? n = none ↔ n ∉ c.nodeIds := by
  unfold opOf?
  constructor
  · intro h hm
    obtain ⟨op, hop⟩ := mem_nodeIds.mp hm
    split at h
    · simp at h
    · rename_i hf
      have := List.find?_eq_none.mp hf (n, op) hop
      simp at this
  · intro h
    split
    · rename_i p hp
      have hm := List.mem_of_find?_eq_some hp
      have := List.find?_some hp
      simp at this
      exact absurd (mem_nodeIds.mpr ⟨p.2, by rw [← this]; exact hm⟩) h
    · rfl

/-! ## `_unique_node_id` + `_add_node` -/

theorem Inv.op_fresh {c : Dag} {P : Paths} (h : Inv c P) : NodeId.op (c.nodeId + 1) ∉ c.nodeIds := by
  intro hm
  have := (h.op_range _ hm).2
  omega

theorem newNode_nodes {c : Dag} {P : Paths} (h : Inv c P) (op : Op) :
    (c.newNode op).nodes = c.nodes ++ [(.op (c.nodeId + 1), op)] := by
  have : ({ c with nodeId := c.nodeId + 1 } : Dag).hasNode (.op (c.nodeId + 1)) = false := by
    have := h.op_fresh
    simpa [hasNode, nodeIds] using this
  simp only [newNode, addNode, this]
  simp

@[simp] theorem newNode_edges (c : Dag) (op : Op) : (c.newNode op).edges = c.edges := rfl
@[simp] theorem newNode_edgeDict (c : Dag) (op : Op) : (c.newNode op).edgeDict = c.edgeDict := rfl
@[simp] theorem newNode_nodeId (c : Dag) (op : Op) : (c.newNode op).nodeId = c.nodeId + 1 := rfl
@[simp] theorem newNode_regs (c : Dag) (op : Op) : (c.newNode op).regs = c.regs := by funext t; cases t <;> rfl
theorem newNode_nodeDict (c : Dag) (op : Op) :
    (c.newNode op).nodeDict = op.indexKeys.foldl (fun d k => dictAppend d k (.op (c.nodeId + 1))) c.nodeDict := rfl

theorem newNode_inv {c : Dag} {P : Paths} (h : Inv c P) {op : Op} (hop : OpWF op) : Inv (c.newNode op) P := by
  have hnodes := newNode_nodes h op
  have hfresh := h.op_fresh
  have hids : (c.newNode op).nodeIds = c.nodeIds ++ [.op (c.nodeId + 1)] := by simp [nodeIds, hnodes]
  have hnd' : (c.newNode op).nodeIds.Nodup := by
    rw [hids, List.nodup_append]
    refine ⟨h.ids_nodup, by simp, ?_⟩
    intro a ha b hb; simp at hb; subst hb; intro e; subst e; exact hfresh ha
  refine
    { edges_nodup := h.edges_nodup
      edges_iff := h.edges_iff
      dead := by intro k hk; exact h.dead k (by simpa [live] using hk)
      shape := by intro k hk; exact h.shape k (by simpa [live] using hk)
      nodup := h.nodup
      mem_nodes := by intro k n hn; rw [hids]; exact List.mem_append_left _ (h.mem_nodes k n hn)
      edgeDict_ok := h.edgeDict_ok
      ids_nodup := hnd'
      inp_iff := by intro r; rw [hids]; simpa [live] using h.inp_iff r
      out_iff := by intro r; rw [hids]; simpa [live] using h.out_iff r
      inp_op := by
        intro r op' hm; rw [hnodes] at hm
        rcases List.mem_append.mp hm with hm | hm
        · exact h.inp_op r op' hm
        · simp at hm
      out_op := by
        intro r op' hm; rw [hnodes] at hm
        rcases List.mem_append.mp hm with hm | hm
        · exact h.out_op r op' hm
        · simp at hm
      op_range := by
        intro j hj; rw [hids] at hj
        rcases List.mem_append.mp hj with hj | hj
        · have := h.op_range j hj; simp only [newNode_nodeId]; omega
        · simp at hj; subst hj; simp only [newNode_nodeId]; omega
      op_wf := by
        intro j op' hm; rw [hnodes] at hm
        rcases List.mem_append.mp hm with hm | hm
        · exact h.op_wf j op' hm
        · simp at hm; rw [hm.2]; exact hop
      nodeDict_ok := ?_ }
  intro l m
  rw [newNode_nodeDict, count_dictGet_foldl_append, h.nodeDict_ok]
  by_cases hm : m = .op (c.nodeId + 1)
  · subst hm
    have h1 : c.opOf? (.op (c.nodeId + 1)) = none := opOf_eq_none.mpr hfresh
    have h2 : (c.newNode op).opOf? (.op (c.nodeId + 1)) = some op :=
      (opOf_eq_some hnd').mpr (by rw [hnodes]; simp)
    simp [indexCount, h1, h2, indexKeysOf]
  · have : (c.newNode op).opOf? m = c.opOf? m := by
      cases hc : c.opOf? m with
      | none =>
        apply opOf_eq_none.mpr
        rw [hids]; intro hmm
        rcases List.mem_append.mp hmm with hmm | hmm
        · exact (opOf_eq_none.mp hc) hmm
        · simp at hmm; exact hm hmm
      | some op' =>
        apply (opOf_eq_some hnd').mpr
        rw [hnodes]; exact List.mem_append_left _ ((opOf_eq_some h.ids_nodup).mp hc)
    simp [indexCount, this, hm]


/-! ## `_add_reg_if_absent` -/

theorem AcyclicRel.add_sink_edge {α : Type} {E : α → α → Prop} (hE : AcyclicRel E) {x y : α}
    (hy : ∀ b, ¬ E y b) (hxy : x ≠ y) : AcyclicRel (fun a b => E a b ∨ (a = x ∧ b = y)) := by
  have key : ∀ {a b}, TransGen (fun a b => E a b ∨ (a = x ∧ b = y)) a b → TransGen E a b ∨ b = y := by
    intro a b hab
    induction hab with
    | single h => rcases h with h | ⟨_, h⟩; exact Or.inl (TransGen.single h); exact Or.inr h
    | tail _ h2 ih =>
      rcases h2 with h2 | ⟨_, h2⟩
      · rcases ih with ih | ih
        · exact Or.inl (ih.tail h2)
        · subst ih; exact absurd h2 (hy _)
      · exact Or.inr h2
  intro a haa
  rcases key haa with h | h
  · exact hE a h
  · subst h
    rcases TransGen.head'_iff.mp haa with ⟨c, hc, _⟩
    rcases hc with hc | ⟨hc, _⟩
    · exact hy _ hc
    · exact hxy hc.symm

theorem Inv.edge_nodes {c : Dag} {P : Paths} (h : Inv c P) {e : Edge} (he : e ∈ c.edges) :
    e.src ∈ c.nodeIds ∧ e.dst ∈ c.nodeIds := by
  have := ((h.edges_iff e).mp he).mem
  exact ⟨h.mem_nodes _ _ this.1, h.mem_nodes _ _ this.2⟩

theorem E_nodes {c : Dag} {P : Paths} (h : Inv c P) {a b : NodeId} (hab : c.E a b) : a ∈ c.nodeIds ∧ b ∈ c.nodeIds := by
  obtain ⟨e, he, rfl, rfl⟩ := hab
  exact h.edge_nodes he

theorem incReg_regs (c : Dag) (t t' : RegType) : (c.incReg t).regs t' = if t' = t then c.regs t + 1 else c.regs t' := by
  cases t <;> cases t' <;> simp [incReg, regs]

@[simp] theorem incReg_nodes (c : Dag) (t : RegType) : (c.incReg t).nodes = c.nodes := by cases t <;> rfl
@[simp] theorem incReg_edges (c : Dag) (t : RegType) : (c.incReg t).edges = c.edges := by cases t <;> rfl
@[simp] theorem incReg_nodeDict (c : Dag) (t : RegType) : (c.incReg t).nodeDict = c.nodeDict := by cases t <;> rfl
@[simp] theorem incReg_edgeDict (c : Dag) (t : RegType) : (c.incReg t).edgeDict = c.edgeDict := by cases t <;> rfl
@[simp] theorem incReg_nodeId (c : Dag) (t : RegType) : (c.incReg t).nodeId = c.nodeId := by cases t <;> rfl

/-- the state `_add_reg_if_absent` produces when it creates register `r` -/
def withNewReg (c : Dag) (r : Reg) : Dag :=
  { (c.incReg r.ty) with
    nodes := c.nodes ++ [(.inp r, Op.io .input r), (.out r, Op.io .output r)],
    nodeDict := dictAppend (dictAppend c.nodeDict "Input" (.inp r)) "Output" (.out r),
    edges := c.edges ++ [⟨.inp r, .out r, r⟩],
    edgeDict := dictAppend c.edgeDict r.ty ⟨.inp r, .out r, r⟩ }

theorem withNewReg_regs (c : Dag) (r : Reg) (t : RegType) :
    (c.withNewReg r).regs t = if t = r.ty then c.regs r.ty + 1 else c.regs t := by
  have : (c.withNewReg r).regs t = (c.incReg r.ty).regs t := by cases t <;> rfl
  rw [this, incReg_regs]

theorem filter_eq_singleton {α : Type} {l : List α} {p : α → Bool} {a : α} (hnd : l.Nodup) (ha : a ∈ l) (hpa : p a = true)
    (huniq : ∀ x ∈ l, p x = true → x = a) : l.filter p = [a] := by
  induction l with
  | nil => simp at ha
  | cons b t ih =>
    have hnd' := List.nodup_cons.mp hnd
    rcases List.mem_cons.mp ha with rfl | ha
    · have : t.filter p = [] := by
        rw [List.filter_eq_nil_iff]
        intro x hx hpx
        have := huniq x (List.mem_cons_of_mem _ hx) hpx
        subst this; exact hnd'.1 hx
      simp [List.filter_cons, hpa, this]
    · have hb : p b = false := by
        cases hpb : p b with
        | false => rfl
        | true =>
          have := huniq b (by simp) hpb
          subst this; exact absurd ha hnd'.1
      rw [List.filter_cons, hb]
      simpa using ih hnd'.2 ha (fun x hx => huniq x (List.mem_cons_of_mem _ hx))

theorem addRegIfAbsent_new {c : Dag} {P : Paths} (h : Inv c P) {r : Reg} (hr : r.idx = c.regs r.ty) :
    c.addRegIfAbsent r = (c.withNewReg r, none) := by
  have hnl : ¬ c.live r := by simp [live, hr]
  have hinp : NodeId.inp r ∉ c.nodeIds := fun hm => hnl ((h.inp_iff r).mp hm)
  have hout : NodeId.out r ∉ c.nodeIds := fun hm => hnl ((h.out_iff r).mp hm)
  have he : (⟨.inp r, .out r, r⟩ : Edge) ∉ c.edges := fun hm => hinp (h.edge_nodes hm).1
  unfold addRegIfAbsent
  have h1 : ¬ c.regs r.ty < r.idx := by omega
  have h2 : ¬ ((c.incReg r.ty).hasNode (.inp r) = true) := by
    rw [hasNode_iff]; simpa [nodeIds] using hinp
  simp only [h1, if_false, hr, if_true, h2]
  -- the in-edges of the fresh output node
  have hfil : (c.edges ++ [(⟨.inp r, .out r, r⟩ : Edge)]).filter (fun e => e.dst = .out r) = [⟨.inp r, .out r, r⟩] := by
    rw [List.filter_append]
    have : c.edges.filter (fun e => e.dst = .out r) = [] := by
      rw [List.filter_eq_nil_iff]
      intro e hm hd
      simp at hd
      exact hout (hd ▸ (h.edge_nodes hm).2)
    rw [this]; simp
  simp only [inEdges, incReg_edges, he, if_false, hfil, List.head?_cons]
  simp [withNewReg]

theorem addRegIfAbsent_old {c : Dag} {P : Paths} (h : Inv c P) {r : Reg} (hr : c.live r) :
    c.addRegIfAbsent r = (c, none) := by
  unfold addRegIfAbsent
  have h1 : ¬ c.regs r.ty < r.idx := by unfold live at hr; omega
  have h2 : ¬ r.idx = c.regs r.ty := by unfold live at hr; omega
  have h3 : c.hasNode (.inp r) = true := hasNode_iff.mpr ((h.inp_iff r).mpr hr)
  simp [h1, h2, h3]

theorem addRegIfAbsent_gap {c : Dag} {r : Reg} (hr : c.regs r.ty < r.idx) :
    c.addRegIfAbsent r = (c, some .value) := by
  unfold addRegIfAbsent; simp [hr]


theorem withNewReg_live (c : Dag) (r k : Reg) (hr : r.idx = c.regs r.ty) :
    (c.withNewReg r).live k ↔ c.live k ∨ k = r := by
  unfold live
  rw [withNewReg_regs]
  by_cases ht : k.ty = r.ty
  · simp only [ht, if_true]
    constructor
    · intro h
      by_cases hk : k.idx < c.regs r.ty
      · exact Or.inl hk
      · right
        cases k; cases r; simp_all; omega
    · rintro (h | rfl)
      · omega
      · omega
  · simp only [ht, if_false]
    constructor
    · exact Or.inl
    · rintro (h | rfl)
      · exact h
      · exact absurd rfl ht

theorem withNewReg_inv {c : Dag} {P : Paths} (h : Inv c P) {r : Reg} (hr : r.idx = c.regs r.ty) :
    Inv (c.withNewReg r) (setPath P r [.inp r, .out r]) := by
  have hnl : ¬ c.live r := by simp [live, hr]
  have hinp : NodeId.inp r ∉ c.nodeIds := fun hm => hnl ((h.inp_iff r).mp hm)
  have hout : NodeId.out r ∉ c.nodeIds := fun hm => hnl ((h.out_iff r).mp hm)
  have he : (⟨.inp r, .out r, r⟩ : Edge) ∉ c.edges := fun hm => hinp (h.edge_nodes hm).1
  have hPr : P r = [] := h.dead r hnl
  have hnodes : (c.withNewReg r).nodes = c.nodes ++ [(.inp r, Op.io .input r), (.out r, Op.io .output r)] := rfl
  have hids : (c.withNewReg r).nodeIds = c.nodeIds ++ [.inp r, .out r] := by simp [nodeIds, hnodes]
  have hedges : (c.withNewReg r).edges = c.edges ++ [⟨.inp r, .out r, r⟩] := rfl
  have hnd' : (c.withNewReg r).nodeIds.Nodup := by
    rw [hids, List.nodup_append]
    refine ⟨h.ids_nodup, by simp, ?_⟩
    intro a ha b hb e; subst e
    simp at hb
    rcases hb with rfl | rfl
    · exact hinp ha
    · exact hout ha
  have hopOld : ∀ m, m ∈ c.nodeIds → (c.withNewReg r).opOf? m = c.opOf? m := by
    intro m hm
    obtain ⟨op, hop⟩ := mem_nodeIds.mp hm
    rw [(opOf_eq_some h.ids_nodup).mpr hop]
    exact (opOf_eq_some hnd').mpr (by rw [hnodes]; exact List.mem_append_left _ hop)
  refine
    { edges_nodup := by
        rw [hedges, List.nodup_append]
        refine ⟨h.edges_nodup, by simp, ?_⟩
        intro a ha b hb e; subst e; simp at hb; subst hb; exact he ha
      edges_iff := ?_
      dead := ?_
      shape := ?_
      nodup := ?_
      mem_nodes := ?_
      edgeDict_ok := ?_
      ids_nodup := hnd'
      inp_iff := ?_
      out_iff := ?_
      inp_op := ?_
      out_op := ?_
      op_range := ?_
      op_wf := ?_
      nodeDict_ok := ?_ }
  · -- edges_iff
    intro e'
    rw [hedges, List.mem_append, List.mem_singleton]
    by_cases hk : e'.key = r
    · obtain ⟨x, y, k⟩ := e'
      simp only at hk; subst hk
      simp only [setPath_same, consec_cons_cons, consec_single, or_false]
      constructor
      · rintro (hm | hm)
        · exact absurd (h.live_of_edge hm) hnl
        · injection hm with h1 h2 _; exact ⟨h1.symm, h2.symm⟩
      · rintro ⟨rfl, rfl⟩; exact Or.inr rfl
    · rw [setPath_other _ _ hk, ← h.edges_iff e']
      constructor
      · rintro (hm | hm)
        · exact hm
        · exact absurd (by rw [hm]) hk
      · exact Or.inl
  · -- dead
    intro k hk
    rw [withNewReg_live c r k hr] at hk
    have hkr : k ≠ r := fun e => hk (Or.inr e)
    rw [setPath_other _ _ hkr]
    exact h.dead k (fun hl => hk (Or.inl hl))
  · -- shape
    intro k hk
    rw [withNewReg_live c r k hr] at hk
    by_cases hkr : k = r
    · subst hkr
      exact ⟨[], by simp, by simp⟩
    · rw [setPath_other _ _ hkr]
      rcases hk with hk | hk
      · exact h.shape k hk
      · exact absurd hk hkr
  · -- nodup
    intro k
    by_cases hkr : k = r
    · subst hkr; simp
    · rw [setPath_other _ _ hkr]; exact h.nodup k
  · -- mem_nodes
    intro k n hn
    rw [hids]
    by_cases hkr : k = r
    · subst hkr
      simp only [setPath_same] at hn
      exact List.mem_append_right _ hn
    · rw [setPath_other _ _ hkr] at hn
      exact List.mem_append_left _ (h.mem_nodes k n hn)
  · -- edgeDict_ok
    intro t e'
    have hed : (c.withNewReg r).edgeDict = dictAppend c.edgeDict r.ty ⟨.inp r, .out r, r⟩ := rfl
    rw [hed, dictGet_dictAppend, hedges]
    by_cases ht : t = r.ty
    · subst ht
      rw [if_pos rfl, List.count_append, h.edgeDict_ok]
      by_cases c0 : e' = ⟨.inp r, .out r, r⟩
      · subst c0
        simp [he]
      · rw [count_singleton_ne (Ne.symm c0)]
        simp [c0]
    · rw [if_neg ht, h.edgeDict_ok]
      by_cases c0 : e' = ⟨.inp r, .out r, r⟩
      · subst c0
        have : ¬ r.ty = t := fun e => ht e.symm
        simp [he, this]
      · simp [c0]
  · -- inp_iff
    intro k
    rw [hids, withNewReg_live c r k hr, List.mem_append, h.inp_iff k]
    simp
  · -- out_iff
    intro k
    rw [hids, withNewReg_live c r k hr, List.mem_append, h.out_iff k]
    simp
  · -- inp_op
    intro k op hm
    rw [hnodes] at hm
    rcases List.mem_append.mp hm with hm | hm
    · exact h.inp_op k op hm
    · simp at hm; obtain ⟨rfl, rfl⟩ := hm; rfl
  · -- out_op
    intro k op hm
    rw [hnodes] at hm
    rcases List.mem_append.mp hm with hm | hm
    · exact h.out_op k op hm
    · simp at hm; obtain ⟨rfl, rfl⟩ := hm; rfl
  · -- op_range
    intro j hj
    rw [hids] at hj
    rcases List.mem_append.mp hj with hj | hj
    · have := h.op_range j hj
      have hid : (c.withNewReg r).nodeId = c.nodeId := by simp [withNewReg]
      rw [hid]; exact this
    · simp at hj
  · -- op_wf
    intro j op hm
    rw [hnodes] at hm
    rcases List.mem_append.mp hm with hm | hm
    · exact h.op_wf j op hm
    · simp at hm
  · -- nodeDict_ok
    intro l m
    have hnd : (c.withNewReg r).nodeDict = dictAppend (dictAppend c.nodeDict "Input" (.inp r)) "Output" (.out r) := rfl
    rw [hnd, count_dictGet_dictAppend, count_dictGet_dictAppend, h.nodeDict_ok]
    have hio : NodeId.out r ≠ NodeId.inp r := by intro e; cases e
    have hIO : ¬ ("Output" = "Input") := by decide
    by_cases hmi : m = .inp r
    · subst hmi
      have h1 : c.opOf? (.inp r) = none := opOf_eq_none.mpr hinp
      have h2 : (c.withNewReg r).opOf? (.inp r) = some (Op.io .input r) :=
        (opOf_eq_some hnd').mpr (by rw [hnodes]; simp)
      simp only [indexCount, h1, h2, indexKeysOf, Ne.symm hio, and_false, if_false, and_true, Nat.add_zero, Nat.zero_add]
      by_cases hl : l = "Input"
      · subst hl; simp
      · have : ¬ "Input" = l := fun e => hl e.symm
        simp [hl, this]
    · by_cases hmo : m = .out r
      · subst hmo
        have h1 : c.opOf? (.out r) = none := opOf_eq_none.mpr hout
        have h2 : (c.withNewReg r).opOf? (.out r) = some (Op.io .output r) :=
          (opOf_eq_some hnd').mpr (by rw [hnodes]; simp)
        simp only [indexCount, h1, h2, indexKeysOf, hio, and_false, if_false, and_true, Nat.add_zero, Nat.zero_add]
        by_cases hl : l = "Output"
        · subst hl; simp
        · have : ¬ "Output" = l := fun e => hl e.symm
          simp [hl, this]
      · have hop : (c.withNewReg r).opOf? m = c.opOf? m := by
          by_cases hmm : m ∈ c.nodeIds
          · exact hopOld m hmm
          · rw [opOf_eq_none.mpr hmm]
            apply opOf_eq_none.mpr
            rw [hids]; intro hx
            rcases List.mem_append.mp hx with hx | hx
            · exact hmm hx
            · simp at hx; rcases hx with hx | hx
              · exact hmi hx
              · exact hmo hx
        simp [indexCount, hop, hmi, hmo]


theorem Good.qregs_live {c : Dag} {P : Paths} (g : Good c P) {i : Nat} {op : Op} (hm : (NodeId.op i, op) ∈ c.nodes)
    {k : Reg} (hk : k ∈ op.qregs) : c.live k := by
  have hq := (g.inv.op_wf i op hm).qregs_quantum k hk
  have := (g.mem.mem_q i op hm k hq).mpr hk
  by_cases hl : c.live k
  · exact hl
  · rw [g.inv.dead k hl] at this; simp at this

theorem withNewReg_good {c : Dag} {P : Paths} (g : Good c P) {r : Reg} (hr : r.idx = c.regs r.ty) :
    Good (c.withNewReg r) (setPath P r [.inp r, .out r]) := by
  have hnl : ¬ c.live r := by simp [live, hr]
  have hout : NodeId.out r ∉ c.nodeIds := fun hm => hnl ((g.inv.out_iff r).mp hm)
  have hnodes : (c.withNewReg r).nodes = c.nodes ++ [(.inp r, Op.io .input r), (.out r, Op.io .output r)] := rfl
  have hopn : ∀ i op, (NodeId.op i, op) ∈ (c.withNewReg r).nodes → (NodeId.op i, op) ∈ c.nodes := by
    intro i op hm
    rw [hnodes] at hm
    rcases List.mem_append.mp hm with hm | hm
    · exact hm
    · simp at hm
  refine ⟨withNewReg_inv g.inv hr, ⟨?_, ?_⟩, ?_⟩
  · intro i op hm k hk
    have hm' := hopn i op hm
    by_cases hkr : k = r
    · subst hkr
      simp only [setPath_same]
      constructor
      · intro h; simp at h
      · intro h; exact absurd (g.qregs_live hm' h) hnl
    · rw [setPath_other _ _ hkr]; exact g.mem.mem_q i op hm' k hk
  · intro i op hm k hk
    have hm' := hopn i op hm
    by_cases hkr : (⟨.c, k⟩ : Reg) = r
    · rw [hkr] at hk; simp at hk
    · rw [setPath_other _ _ hkr] at hk; exact g.mem.mem_c i op hm' k hk
  · -- acyclic
    have hE : ∀ a b, (c.withNewReg r).E a b → (c.E a b ∨ (a = .inp r ∧ b = .out r)) := by
      rintro a b ⟨e, he, rfl, rfl⟩
      have hedges : (c.withNewReg r).edges = c.edges ++ [⟨.inp r, .out r, r⟩] := rfl
      rw [hedges] at he
      rcases List.mem_append.mp he with he | he
      · exact Or.inl ⟨e, he, rfl, rfl⟩
      · simp at he; subst he; exact Or.inr ⟨rfl, rfl⟩
    have hs : ∀ b, ¬ c.E (.out r) b := fun b hb => hout (E_nodes g.inv hb).1
    have : AcyclicRel (fun a b => c.E a b ∨ (a = NodeId.inp r ∧ b = NodeId.out r)) :=
      AcyclicRel.add_sink_edge g.acyc hs (by intro e; cases e)
    exact this.mono hE

/-- `_add_reg_if_absent` keeps DagInv whatever it returns; on success the register exists afterwards, and the
    register counts change only by the creation of `r` -/
theorem addRegIfAbsent_good {c : Dag} {P : Paths} (g : Good c P) (r : Reg) :
    ∃ P', Good (c.addRegIfAbsent r).1 P' ∧ ((c.addRegIfAbsent r).2 = none → (c.addRegIfAbsent r).1.live r) ∧
      (∀ k, c.live k → (c.addRegIfAbsent r).1.live k) ∧ (c.addRegIfAbsent r).1.nodeId = c.nodeId := by
  by_cases h1 : c.regs r.ty < r.idx
  · rw [addRegIfAbsent_gap h1]; exact ⟨P, g, by simp, fun k hk => hk, rfl⟩
  · by_cases h2 : r.idx = c.regs r.ty
    · rw [addRegIfAbsent_new g.inv h2]
      refine ⟨_, withNewReg_good g h2, ?_, ?_, by simp [withNewReg]⟩
      · intro _; exact (withNewReg_live c r r h2).mpr (Or.inr rfl)
      · intro k hk; exact (withNewReg_live c r k h2).mpr (Or.inl hk)
    · have hl : c.live r := by unfold live; omega
      rw [addRegIfAbsent_old g.inv hl]; exact ⟨P, g, fun _ => hl, fun k hk => hk, rfl⟩

theorem addRegs_good {c : Dag} {P : Paths} (g : Good c P) (rs : List Reg) :
    ∃ P', Good (c.addRegs rs).1 P' ∧ ((c.addRegs rs).2 = none → ∀ r ∈ rs, (c.addRegs rs).1.live r) ∧
      (∀ k, c.live k → (c.addRegs rs).1.live k) ∧ (c.addRegs rs).1.nodeId = c.nodeId := by
  induction rs generalizing c P with
  | nil => exact ⟨P, g, by simp [addRegs], fun k hk => hk, rfl⟩
  | cons r rs ih =>
    obtain ⟨P1, g1, hl1, hmono1, hid1⟩ := addRegIfAbsent_good g r
    unfold addRegs
    cases hres : c.addRegIfAbsent r with
    | mk c1 err =>
      rw [hres] at g1 hl1 hmono1 hid1
      simp only at g1 hl1 hmono1 hid1
      cases err with
      | some e => exact ⟨P1, g1, by simp, hmono1, hid1⟩
      | none =>
        obtain ⟨P2, g2, hl2, hmono2, hid2⟩ := ih g1
        refine ⟨P2, g2, ?_, fun k hk => hmono2 k (hmono1 k hk), hid2.trans hid1⟩
        intro hnone r' hr'
        rcases List.mem_cons.mp hr' with rfl | hr'
        · exact hmono2 _ (hl1 rfl)
        · exact hl2 hnone r' hr'

theorem mem_insertSorted (r : Reg) (l : List Reg) (x : Reg) : x ∈ insertSorted r l ↔ x = r ∨ x ∈ l := by
  induction l with
  | nil => simp [insertSorted]
  | cons a t ih =>
    unfold insertSorted
    split
    · simp
    · simp [ih]; tauto

theorem mem_sortRegs (l : List Reg) (x : Reg) : x ∈ sortRegs l ↔ x ∈ l := by
  induction l with
  | nil => simp [sortRegs]
  | cons a t ih =>
    have : sortRegs (a :: t) = insertSorted a (sortRegs t) := rfl
    rw [this, mem_insertSorted, ih]; simp

/-- all registers an operation is wired to by `add` -/
def opRegs (op : Op) : List Reg := op.qregs ++ op.cregs.map (Reg.mk .c)

theorem ensureRegs_good {c : Dag} {P : Paths} (g : Good c P) (op : Op) :
    ∃ P', Good (c.ensureRegs op).1 P' ∧ ((c.ensureRegs op).2 = none → ∀ r ∈ opRegs op, (c.ensureRegs op).1.live r) ∧
      (∀ k, c.live k → (c.ensureRegs op).1.live k) ∧ (c.ensureRegs op).1.nodeId = c.nodeId := by
  obtain ⟨P1, g1, hl1, hmono1, hid1⟩ := addRegs_good g (op.cregs.map (Reg.mk .c))
  unfold ensureRegs
  cases hres : c.addRegs (op.cregs.map (Reg.mk .c)) with
  | mk c1 err =>
    rw [hres] at g1 hl1 hmono1 hid1
    simp only at g1 hl1 hmono1 hid1
    cases err with
    | some e => exact ⟨P1, g1, by simp, hmono1, hid1⟩
    | none =>
      simp only
      by_cases hq : op.qregs.isEmpty = true
      · simp only [hq, if_true]; exact ⟨P1, g1, by simp, hmono1, hid1⟩
      · simp only [hq]
        obtain ⟨P2, g2, hl2, hmono2, hid2⟩ := addRegs_good g1 (sortRegs op.qregs)
        refine ⟨P2, g2, ?_, fun k hk => hmono2 k (hmono1 k hk), hid2.trans hid1⟩
        intro hnone r hr
        rcases List.mem_append.mp hr with hr | hr
        · exact hl2 hnone r ((mem_sortRegs _ _).mpr hr)
        · exact hmono2 _ (hl1 rfl r hr)


/-! ## splicing a node onto several wires (`_add`, `_insert_at`) -/

def splicePaths (n : NodeId) (es : List Edge) (P : Paths) : Paths :=
  es.foldl (fun P e => setPath P e.key (insertAfter (P e.key) e.src n)) P

def spliceAll (c : Dag) (n : NodeId) (es : List Edge) : Dag := es.foldl (fun c e => c.splice n e) c

theorem splicePaths_other (n : NodeId) (es : List Edge) (P : Paths) (k : Reg) (hk : k ∉ es.map (·.key)) :
    splicePaths n es P k = P k := by
  induction es generalizing P with
  | nil => rfl
  | cons e rest ih =>
    simp only [List.map_cons, List.mem_cons, not_or] at hk
    unfold splicePaths
    rw [List.foldl_cons]
    have := ih (setPath P e.key (insertAfter (P e.key) e.src n)) hk.2
    unfold splicePaths at this
    rw [this, setPath_other _ _ hk.1]

theorem splicePaths_mem (n : NodeId) (es : List Edge) (P : Paths) (hkeys : (es.map (·.key)).Nodup)
    (e : Edge) (he : e ∈ es) : splicePaths n es P e.key = insertAfter (P e.key) e.src n := by
  induction es generalizing P with
  | nil => simp at he
  | cons e0 rest ih =>
    have hnd : e0.key ∉ rest.map (·.key) ∧ (rest.map (·.key)).Nodup := by
      rw [List.map_cons] at hkeys; exact List.nodup_cons.mp hkeys
    unfold splicePaths
    rw [List.foldl_cons]
    rcases List.mem_cons.mp he with rfl | he
    · have := splicePaths_other n rest (setPath P e.key (insertAfter (P e.key) e.src n)) e.key hnd.1
      unfold splicePaths at this
      rw [this, setPath_same]
    · have hne : e.key ≠ e0.key := by
        intro heq
        exact hnd.1 (heq ▸ List.mem_map.mpr ⟨e, he, rfl⟩)
      have := ih (setPath P e0.key (insertAfter (P e0.key) e0.src n)) hnd.2 he
      unfold splicePaths at this
      rw [this, setPath_other _ _ hne]

theorem spliceAll_inv {c : Dag} {P : Paths} (h : Inv c P) {n : NodeId} {i : Nat} (hn : n = .op i)
    (hnodes : n ∈ c.nodeIds) (es : List Edge) (hmem : ∀ e ∈ es, e ∈ c.edges) (hkeys : (es.map (·.key)).Nodup)
    (hnP : ∀ e ∈ es, n ∉ P e.key) :
    Inv (c.spliceAll n es) (splicePaths n es P) ∧ c.insertEdges n es = (c.spliceAll n es, none) := by
  induction es generalizing c P with
  | nil => exact ⟨h, rfl⟩
  | cons e rest ih =>
    have hnd : e.key ∉ rest.map (·.key) ∧ (rest.map (·.key)).Nodup := by
      rw [List.map_cons] at hkeys; exact List.nodup_cons.mp hkeys
    have he : e ∈ c.edges := hmem e (by simp)
    have h1 := splice_inv h he hn hnodes (hnP e (by simp))
    have H : SpliceHyp c P n e.src e.dst e.key := ⟨h, he, hnodes, hnP e (by simp)⟩
    have hne : ∀ e' ∈ rest, e'.key ≠ e.key := by
      intro e' he' heq
      exact hnd.1 (heq ▸ List.mem_map.mpr ⟨e', he', rfl⟩)
    have hmem' : ∀ e' ∈ rest, e' ∈ (c.splice n e).edges := by
      intro e' he'
      have := (H.mem_iff e').mpr ⟨Or.inl (hmem e' (List.mem_cons_of_mem _ he')), fun heq => hne e' he' (by rw [heq])⟩
      exact this
    have hnP' : ∀ e' ∈ rest, n ∉ setPath P e.key (insertAfter (P e.key) e.src n) e'.key := by
      intro e' he'
      rw [setPath_other _ _ (hne e' he')]
      exact hnP e' (List.mem_cons_of_mem _ he')
    have hnodes' : n ∈ (c.splice n e).nodeIds := by rw [nodeIds_eq_of_nodes (splice_nodes c n e)]; exact hnodes
    obtain ⟨hi, hins⟩ := ih h1 hnodes' hmem' hnd.2 hnP'
    refine ⟨hi, ?_⟩
    show insertEdges c n (e :: rest) = _
    unfold insertEdges
    rw [if_pos he, hins]
    rfl

/-- membership in the wires after splicing -/
theorem mem_splicePaths {c : Dag} {P : Paths} (h : Inv c P) (n : NodeId) (es : List Edge) (hmem : ∀ e ∈ es, e ∈ c.edges)
    (hkeys : (es.map (·.key)).Nodup) (k : Reg) (x : NodeId) :
    x ∈ splicePaths n es P k ↔ x ∈ P k ∨ (x = n ∧ k ∈ es.map (·.key)) := by
  by_cases hk : k ∈ es.map (·.key)
  · obtain ⟨e, he, rfl⟩ := List.mem_map.mp hk
    rw [splicePaths_mem n es P hkeys e he]
    have hu : e.src ∈ P e.key := ((h.edges_iff e).mp (hmem e he)).mem.1
    rw [mem_insertAfter hu]
    simp [hk]
  · rw [splicePaths_other n es P k hk]; simp [hk]

/-- the edges after splicing, read off the wires: old edges, edges into the new node from the sources of the
    spliced edges, edges out of it to their targets -/
theorem E_spliceAll {c c' : Dag} {P : Paths} (h : Inv c P) (n : NodeId) (es : List Edge) (hmem : ∀ e ∈ es, e ∈ c.edges)
    (hkeys : (es.map (·.key)).Nodup) (hnP : ∀ e ∈ es, n ∉ P e.key) (h' : Inv c' (splicePaths n es P)) (a b : NodeId)
    (hab : c'.E a b) :
    InsRel c.E n (fun u => ∃ e ∈ es, e.src = u) (fun v => ∃ e ∈ es, e.dst = v) a b := by
  obtain ⟨e', he', rfl, rfl⟩ := hab
  have hc := (h'.edges_iff e').mp he'
  by_cases hk : e'.key ∈ es.map (·.key)
  · obtain ⟨e, he, hek⟩ := List.mem_map.mp hk
    have hcons : Consec (P e.key) e.src e.dst := (h.edges_iff e).mp (hmem e he)
    rw [← hek, splicePaths_mem n es P hkeys e he, consec_insertAfter (h.nodup _) hcons (hnP e he)] at hc
    rcases hc with ⟨hc, _⟩ | ⟨h1, h2⟩ | ⟨h1, h2⟩
    · left
      exact ⟨⟨e'.src, e'.dst, e.key⟩, (h.edges_iff ⟨e'.src, e'.dst, e.key⟩).mpr hc, rfl, rfl⟩
    · right; left; exact ⟨h2, e, he, h1.symm⟩
    · right; right; exact ⟨h1, e, he, h2.symm⟩
  · rw [splicePaths_other n es P _ hk] at hc
    left
    exact ⟨e', (h.edges_iff e').mpr hc, rfl, rfl⟩

theorem spliceAll_acyclic {c c' : Dag} {P : Paths} (hinv : Inv c P) (hac : Acyclic c) (n : NodeId) (es : List Edge)
    (hmem : ∀ e ∈ es, e ∈ c.edges) (hkeys : (es.map (·.key)).Nodup) (hnP : ∀ k, n ∉ P k)
    (h' : Inv c' (splicePaths n es P))
    (hno : ∀ e1 ∈ es, ∀ e2 ∈ es, ¬ ReflTransGen c.E e1.dst e2.src) : Acyclic c' := by
  have hfresh : ∀ a, ¬ c.E a n ∧ ¬ c.E n a := by
    intro a
    constructor
    · rintro ⟨e, he, _, hd⟩
      exact hnP e.key (hd ▸ ((hinv.edges_iff e).mp he).mem.2)
    · rintro ⟨e, he, hs, _⟩
      exact hnP e.key (hs ▸ ((hinv.edges_iff e).mp he).mem.1)
  have hins : AcyclicRel (InsRel c.E n (fun u => ∃ e ∈ es, e.src = u) (fun v => ∃ e ∈ es, e.dst = v)) := by
    apply AcyclicRel.insert_fresh hac hfresh
    · rintro u ⟨e, he, rfl⟩ heq
      exact hnP e.key (heq ▸ ((hinv.edges_iff e).mp (hmem e he)).mem.1)
    · rintro v ⟨e, he, rfl⟩ heq
      exact hnP e.key (heq ▸ ((hinv.edges_iff e).mp (hmem e he)).mem.2)
    · rintro u v ⟨e2, he2, rfl⟩ ⟨e1, he1, rfl⟩
      exact hno e1 he1 e2 he2
  exact hins.mono (fun a b hab => E_spliceAll hinv n es hmem hkeys (fun e _ => hnP e.key) h' a b hab)


/-! ## `_add` -/

theorem Inv.mem_path_cases {c : Dag} {P : Paths} (h : Inv c P) {k : Reg} {x : NodeId} (hx : x ∈ P k) :
    x = .inp k ∨ x = .out k ∨ ∃ i, x = .op i := by
  by_cases hl : c.live k
  · obtain ⟨mid, hP, hmid⟩ := h.shape k hl
    rw [hP] at hx
    rcases List.mem_cons.mp hx with hx | hx
    · exact Or.inl hx
    · rcases List.mem_append.mp hx with hx | hx
      · exact Or.inr (Or.inr (hmid x hx))
      · simp at hx; exact Or.inr (Or.inl hx)
  · rw [h.dead k hl] at hx; simp at hx

theorem Inv.out_mem {c : Dag} {P : Paths} (h : Inv c P) {k k' : Reg} (hx : NodeId.out k ∈ P k') : k' = k := by
  rcases h.mem_path_cases hx with e | e | ⟨i, e⟩
  · cases e
  · injection e with e; exact e.symm
  · cases e

theorem Inv.inp_mem {c : Dag} {P : Paths} (h : Inv c P) {k k' : Reg} (hx : NodeId.inp k ∈ P k') : k' = k := by
  rcases h.mem_path_cases hx with e | e | ⟨i, e⟩
  · injection e with e; exact e.symm
  · cases e
  · cases e

/-- the node before `out k` on the wire of `k` -/
def predOut (P : Paths) (k : Reg) : NodeId := ((P k).dropLast.getLast?).getD (.inp k)

/-- the edge into `out k` -/
def lastEdge (P : Paths) (k : Reg) : Edge := ⟨predOut P k, .out k, k⟩

theorem Inv.path_split_last {c : Dag} {P : Paths} (h : Inv c P) {k : Reg} (hl : c.live k) :
    ∃ pre, P k = pre ++ [predOut P k, .out k] := by
  obtain ⟨mid, hP, _⟩ := h.shape k hl
  have hne : NodeId.inp k :: mid ≠ [] := by simp
  have hdl : (P k).dropLast = .inp k :: mid := by
    rw [hP, show NodeId.inp k :: (mid ++ [NodeId.out k]) = (NodeId.inp k :: mid) ++ [NodeId.out k] by simp,
      List.dropLast_concat]
  refine ⟨(NodeId.inp k :: mid).dropLast, ?_⟩
  have hp : predOut P k = (NodeId.inp k :: mid).getLast hne := by
    unfold predOut; rw [hdl, List.getLast?_eq_some_getLast hne]; rfl
  rw [hp, hP]
  have := List.dropLast_concat_getLast hne
  calc NodeId.inp k :: (mid ++ [NodeId.out k]) = (NodeId.inp k :: mid) ++ [NodeId.out k] := by simp
    _ = ((NodeId.inp k :: mid).dropLast ++ [(NodeId.inp k :: mid).getLast hne]) ++ [NodeId.out k] := by rw [this]
    _ = _ := by rw [List.append_assoc]; rfl

theorem Inv.lastEdge_mem {c : Dag} {P : Paths} (h : Inv c P) {k : Reg} (hl : c.live k) : lastEdge P k ∈ c.edges := by
  obtain ⟨pre, hP⟩ := h.path_split_last hl
  rw [h.edges_iff]
  show Consec (P k) (predOut P k) (.out k)
  rw [hP]; exact consec_iff_append.mpr ⟨pre, [], rfl⟩

theorem Inv.inEdges_out {c : Dag} {P : Paths} (h : Inv c P) {k : Reg} (hl : c.live k) :
    c.inEdges (.out k) = [lastEdge P k] := by
  unfold inEdges
  apply filter_eq_singleton h.edges_nodup (h.lastEdge_mem hl)
  · simp [lastEdge]
  · intro e he hd
    have hd : e.dst = .out k := by simpa using hd
    have hc := (h.edges_iff e).mp he
    rw [hd] at hc
    have hk : e.key = k := h.out_mem hc.mem.2
    have hc2 := (h.edges_iff _).mp (h.lastEdge_mem hl)
    simp only [lastEdge] at hc2
    rw [hk] at hc
    have := consec_pred_unique (h.nodup k) hc hc2
    obtain ⟨s, d, ky⟩ := e
    simp only at hd hk this
    subst hd hk this
    rfl

theorem addLoop_eq {c : Dag} {P : Paths} (h : Inv c P) {n : NodeId} {i : Nat} (hn : n = .op i)
    (hnodes : n ∈ c.nodeIds) (ks : List Reg) (hks : ks.Nodup) (hlive : ∀ k ∈ ks, c.live k) (hnP : ∀ k ∈ ks, n ∉ P k) :
    (ks.map NodeId.out).foldl (fun c o => (c.inEdges o).foldl (fun c e => c.splice n e) c) c =
      c.spliceAll n (ks.map (lastEdge P)) := by
  induction ks generalizing c P with
  | nil => rfl
  | cons k rest ih =>
    have hnd := List.nodup_cons.mp hks
    have hl : c.live k := hlive k (by simp)
    have he := h.lastEdge_mem hl
    simp only [List.map_cons, List.foldl_cons, spliceAll]
    rw [h.inEdges_out hl]
    simp only [List.foldl_cons, List.foldl_nil]
    have h1 := splice_inv h he hn hnodes (hnP k (by simp))
    have hnodes' : n ∈ (c.splice n (lastEdge P k)).nodeIds := by
      rw [nodeIds_eq_of_nodes (splice_nodes c n _)]; exact hnodes
    have hlive' : ∀ k' ∈ rest, (c.splice n (lastEdge P k)).live k' := by
      intro k' hk'; simpa [live] using hlive k' (List.mem_cons_of_mem _ hk')
    have hne : ∀ k' ∈ rest, k' ≠ k := fun k' hk' e => hnd.1 (e ▸ hk')
    have hnP' : ∀ k' ∈ rest, n ∉ setPath P (lastEdge P k).key (insertAfter (P (lastEdge P k).key) (lastEdge P k).src n) k' := by
      intro k' hk'
      show n ∉ setPath P k (insertAfter (P k) (predOut P k) n) k'
      rw [setPath_other _ _ (hne k' hk')]
      exact hnP k' (List.mem_cons_of_mem _ hk')
    rw [ih h1 hnodes' hnd.2 hlive' hnP']
    unfold spliceAll
    congr 1
    apply List.map_congr_left
    intro k' hk'
    show lastEdge (setPath P k (insertAfter (P k) (predOut P k) n)) k' = lastEdge P k'
    simp only [lastEdge, predOut]
    rw [setPath_other _ _ (hne k' hk')]

/-- an output node has no out-edges -/
theorem Inv.out_sink {c : Dag} {P : Paths} (h : Inv c P) (k : Reg) (b : NodeId) : ¬ c.E (.out k) b := by
  rintro ⟨e, he, hs, _⟩
  have := h.src_ne_out he
  have hc := ((h.edges_iff e).mp he).mem.1
  rw [hs] at hc
  have hk := h.out_mem hc
  rw [hk, hs] at this
  exact this rfl

/-- an input node has no in-edges -/
theorem Inv.inp_source {c : Dag} {P : Paths} (h : Inv c P) (k : Reg) (a : NodeId) : ¬ c.E a (.inp k) := by
  rintro ⟨e, he, _, hd⟩
  have := h.dst_ne_inp he
  have hc := ((h.edges_iff e).mp he).mem.2
  rw [hd] at hc
  have hk := h.inp_mem hc
  rw [hk, hd] at this
  exact this rfl

theorem opRegs_nodup {op : Op} (hop : OpWF op) : (opRegs op).Nodup := by
  unfold opRegs
  rw [List.nodup_append]
  refine ⟨hop.qregs_nodup, ?_, ?_⟩
  · exact nodup_map_of_inj (fun a b e => by injection e) hop.cregs_nodup
  · intro a ha b hb e; subst e
    obtain ⟨r, _, rfl⟩ := List.mem_map.mp hb
    exact hop.qregs_quantum _ ha rfl

theorem add_eq_fold (c : Dag) (op : Op) :
    c.add_ op = ((opRegs op).map NodeId.out).foldl
      (fun c' o => (c'.inEdges o).foldl (fun c'' e => c''.splice (.op (c.nodeId + 1)) e) c') (c.newNode op) := by
  simp [add_, opRegs, List.map_append, List.map_map, Function.comp_def]

@[simp] theorem spliceAll_nodes (c : Dag) (n : NodeId) (es : List Edge) : (c.spliceAll n es).nodes = c.nodes := by
  induction es generalizing c with
  | nil => rfl
  | cons e rest ih => simp only [spliceAll, List.foldl_cons] at ih ⊢; rw [ih]; rfl

@[simp] theorem spliceAll_regs (c : Dag) (n : NodeId) (es : List Edge) : (c.spliceAll n es).regs = c.regs := by
  induction es generalizing c with
  | nil => rfl
  | cons e rest ih => simp only [spliceAll, List.foldl_cons] at ih ⊢; rw [ih]; simp

@[simp] theorem spliceAll_nodeId (c : Dag) (n : NodeId) (es : List Edge) : (c.spliceAll n es).nodeId = c.nodeId := by
  induction es generalizing c with
  | nil => rfl
  | cons e rest ih => simp only [spliceAll, List.foldl_cons] at ih ⊢; rw [ih]; rfl

theorem reflTransGen_of_sink {α : Type} {E : α → α → Prop} {a b : α} (hs : ∀ x, ¬ E a x) (h : ReflTransGen E a b) :
    a = b := by
  rcases ReflTransGen.cases_head h with e | ⟨c, hc, _⟩
  · exact e
  · exact absurd hc (hs c)

/-- the Mem clause after putting a brand-new node `n` (operation `op`) on the wires `keys` -/
theorem mem_after_splice {c : Dag} {P : Paths} (g : Good c P) {op : Op} (hop : OpWF op) {c' : Dag} {P' : Paths}
    (hnodes : c'.nodes = c.nodes ++ [(.op (c.nodeId + 1), op)]) (keys : List Reg)
    (hP' : ∀ k x, x ∈ P' k ↔ x ∈ P k ∨ (x = .op (c.nodeId + 1) ∧ k ∈ keys))
    (hq : ∀ k, k.ty ≠ .c → (k ∈ keys ↔ k ∈ op.qregs)) (hc : ∀ r, (⟨.c, r⟩ : Reg) ∈ keys → r ∈ op.cregs) :
    Mem c' P' := by
  have hfresh := g.inv.op_fresh
  have hnP : ∀ k, NodeId.op (c.nodeId + 1) ∉ P k := fun k hm => hfresh (g.inv.mem_nodes k _ hm)
  have hcases : ∀ i o, (NodeId.op i, o) ∈ c'.nodes →
      ((NodeId.op i, o) ∈ c.nodes ∧ i ≠ c.nodeId + 1) ∨ (i = c.nodeId + 1 ∧ o = op) := by
    intro i o hm
    rw [hnodes] at hm
    rcases List.mem_append.mp hm with hm | hm
    · left
      refine ⟨hm, ?_⟩
      intro e; subst e
      exact hfresh (mem_nodeIds.mpr ⟨o, hm⟩)
    · simp at hm; exact Or.inr hm
  constructor
  · intro i o hm k hk
    rcases hcases i o hm with ⟨hm', hne⟩ | ⟨rfl, rfl⟩
    · rw [hP', ← g.mem.mem_q i o hm' k hk]
      constructor
      · rintro (h | ⟨h, _⟩)
        · exact h
        · injection h with h; exact absurd h hne
      · exact Or.inl
    · rw [hP', ← hq k hk]
      constructor
      · rintro (h | ⟨_, h⟩)
        · exact absurd h (hnP k)
        · exact h
      · intro h; exact Or.inr ⟨rfl, h⟩
  · intro i o hm r hr
    rcases hcases i o hm with ⟨hm', hne⟩ | ⟨rfl, rfl⟩
    · rw [hP'] at hr
      rcases hr with hr | ⟨h, _⟩
      · exact g.mem.mem_c i o hm' r hr
      · injection h with h; exact absurd h hne
    · rw [hP'] at hr
      rcases hr with hr | ⟨_, hr⟩
      · exact absurd hr (hnP _)
      · exact hc r hr

/-- `_add` on a circuit that already has all registers of the operation -/
theorem add_good' {c : Dag} {P : Paths} (g : Good c P) {op : Op} (hop : OpWF op) (hlive : ∀ r ∈ opRegs op, c.live r) :
    ∃ P', Good (c.add_ op) P' ∧ (c.add_ op).regs = c.regs ∧ (c.add_ op).nodeId = c.nodeId + 1 ∧
      (c.add_ op).nodes = c.nodes ++ [(.op (c.nodeId + 1), op)] ∧
      (∀ k x, x ∈ P' k ↔ x ∈ P k ∨ (x = .op (c.nodeId + 1) ∧ k ∈ opRegs op)) := by
  let n := NodeId.op (c.nodeId + 1)
  have hfresh := g.inv.op_fresh
  have hnP : ∀ k, n ∉ P k := fun k hm => hfresh (g.inv.mem_nodes k _ hm)
  have h0 : Inv (c.newNode op) P := newNode_inv g.inv hop
  have hn0 : n ∈ (c.newNode op).nodeIds := by
    simp [nodeIds, newNode_nodes g.inv op, n]
  have hlive0 : ∀ k ∈ opRegs op, (c.newNode op).live k := by
    intro k hk; simpa [live] using hlive k hk
  have heq : c.add_ op = (c.newNode op).spliceAll n ((opRegs op).map (lastEdge P)) := by
    rw [add_eq_fold]
    exact addLoop_eq h0 rfl hn0 (opRegs op) (opRegs_nodup hop) hlive0 (fun k _ => hnP k)
  have hkeys : ((opRegs op).map (lastEdge P)).map (·.key) = opRegs op := by
    rw [List.map_map]; simp [lastEdge, Function.comp_def]
  have hmem : ∀ e ∈ (opRegs op).map (lastEdge P), e ∈ (c.newNode op).edges := by
    intro e he
    obtain ⟨k, hk, rfl⟩ := List.mem_map.mp he
    exact h0.lastEdge_mem (hlive0 k hk)
  have hknd : (((opRegs op).map (lastEdge P)).map (·.key)).Nodup := by rw [hkeys]; exact opRegs_nodup hop
  obtain ⟨hinv, _⟩ := spliceAll_inv h0 (i := c.nodeId + 1) rfl hn0 _ hmem hknd (fun e _ => hnP e.key)
  have hnodes : (c.add_ op).nodes = c.nodes ++ [(.op (c.nodeId + 1), op)] := by
    rw [heq, spliceAll_nodes, newNode_nodes g.inv op]
  have hP' : ∀ k x, x ∈ splicePaths n ((opRegs op).map (lastEdge P)) P k ↔ x ∈ P k ∨ (x = n ∧ k ∈ opRegs op) := by
    intro k x
    rw [mem_splicePaths h0 n _ hmem hknd k x, hkeys]
  refine ⟨splicePaths n ((opRegs op).map (lastEdge P)) P, ⟨by rw [heq]; exact hinv, ?_, ?_⟩, ?_, ?_, hnodes, hP'⟩
  · -- Mem
    apply mem_after_splice g hop hnodes (opRegs op) hP'
    · intro k hk
      unfold opRegs
      rw [List.mem_append]
      constructor
      · rintro (h | h)
        · exact h
        · obtain ⟨r, _, rfl⟩ := List.mem_map.mp h
          exact absurd rfl hk
      · exact Or.inl
    · intro r hr
      unfold opRegs at hr
      rcases List.mem_append.mp hr with h | h
      · exact absurd rfl (hop.qregs_quantum _ h)
      · obtain ⟨r', hr', e⟩ := List.mem_map.mp h
        injection e with _ e; subst e; exact hr'
  · -- acyclic
    rw [heq]
    have hac0 : Acyclic (c.newNode op) := g.acyc
    apply spliceAll_acyclic h0 hac0 n _ hmem hknd hnP hinv
    intro e1 he1 e2 he2 hreach
    obtain ⟨k1, _, rfl⟩ := List.mem_map.mp he1
    have := reflTransGen_of_sink (h0.out_sink k1) hreach
    have hsink := h0.out_sink k1 e2.dst
    apply hsink
    exact ⟨e2, hmem e2 he2, this.symm, rfl⟩
  · rw [heq]; simp
  · rw [heq]; simp


/-- the wires after `_add`: the new node inserted before `out k` on every wire `k` of the operation -/
theorem add_struct {c : Dag} {P : Paths} (g : Good c P) {op : Op} (hop : OpWF op) (hlive : ∀ r ∈ opRegs op, c.live r) :
    Inv (c.add_ op) (splicePaths (.op (c.nodeId + 1)) ((opRegs op).map (lastEdge P)) P) := by
  let n := NodeId.op (c.nodeId + 1)
  have hfresh := g.inv.op_fresh
  have hnP : ∀ k, n ∉ P k := fun k hm => hfresh (g.inv.mem_nodes k _ hm)
  have h0 : Inv (c.newNode op) P := newNode_inv g.inv hop
  have hn0 : n ∈ (c.newNode op).nodeIds := by simp [nodeIds, newNode_nodes g.inv op, n]
  have hlive0 : ∀ k ∈ opRegs op, (c.newNode op).live k := by
    intro k hk; simpa [live] using hlive k hk
  have heq : c.add_ op = (c.newNode op).spliceAll n ((opRegs op).map (lastEdge P)) := by
    rw [add_eq_fold]
    exact addLoop_eq h0 rfl hn0 (opRegs op) (opRegs_nodup hop) hlive0 (fun k _ => hnP k)
  have hkeys : ((opRegs op).map (lastEdge P)).map (·.key) = opRegs op := by
    rw [List.map_map]; simp [lastEdge, Function.comp_def]
  have hmem : ∀ e ∈ (opRegs op).map (lastEdge P), e ∈ (c.newNode op).edges := by
    intro e he
    obtain ⟨k, hk, rfl⟩ := List.mem_map.mp he
    exact h0.lastEdge_mem (hlive0 k hk)
  have hknd : (((opRegs op).map (lastEdge P)).map (·.key)).Nodup := by rw [hkeys]; exact opRegs_nodup hop
  rw [heq]
  exact (spliceAll_inv h0 (i := c.nodeId + 1) rfl hn0 _ hmem hknd (fun e _ => hnP e.key)).1

/-- **edge effect of `_add`**: the edges into the outputs of the operation's registers are replaced by an edge into the
    new node and an edge from the new node to the output; all other edges are untouched -/
theorem add_edges_iff {c : Dag} {P : Paths} (g : Good c P) {op : Op} (hop : OpWF op) (hlive : ∀ r ∈ opRegs op, c.live r)
    (e : Edge) :
    e ∈ (c.add_ op).edges ↔ (e ∈ c.edges ∧ ∀ k ∈ opRegs op, e ≠ lastEdge P k) ∨
      ∃ k ∈ opRegs op, e = ⟨predOut P k, .op (c.nodeId + 1), k⟩ ∨ e = ⟨.op (c.nodeId + 1), .out k, k⟩ := by
  have hinv := add_struct g hop hlive
  have hfresh := g.inv.op_fresh
  have hnP : ∀ k, NodeId.op (c.nodeId + 1) ∉ P k := fun k hm => hfresh (g.inv.mem_nodes k _ hm)
  have hkeys : ((opRegs op).map (lastEdge P)).map (·.key) = opRegs op := by
    rw [List.map_map]; simp [lastEdge, Function.comp_def]
  have hknd : (((opRegs op).map (lastEdge P)).map (·.key)).Nodup := by rw [hkeys]; exact opRegs_nodup hop
  rw [hinv.edges_iff]
  by_cases hk : e.key ∈ opRegs op
  · have hmemE : lastEdge P e.key ∈ (opRegs op).map (lastEdge P) := List.mem_map.mpr ⟨e.key, hk, rfl⟩
    have := splicePaths_mem (.op (c.nodeId + 1)) _ P hknd (lastEdge P e.key) hmemE
    simp only [lastEdge] at this
    rw [this]
    have hcons : Consec (P e.key) (predOut P e.key) (.out e.key) :=
      (g.inv.edges_iff (lastEdge P e.key)).mp (g.inv.lastEdge_mem (hlive _ hk))
    rw [consec_insertAfter (g.inv.nodup _) hcons (hnP _), ← g.inv.edges_iff e]
    obtain ⟨x, y, k⟩ := e
    simp only at hk ⊢
    constructor
    · rintro (⟨h1, h2⟩ | ⟨h1, h2⟩ | ⟨h1, h2⟩)
      · left
        refine ⟨h1, ?_⟩
        intro k' hk' heq
        simp only [lastEdge] at heq
        injection heq with e1 e2 e3
        subst e3
        exact h2 ⟨e1, e2⟩
      · right; exact ⟨k, hk, Or.inl (by rw [h1, h2])⟩
      · right; exact ⟨k, hk, Or.inr (by rw [h1, h2])⟩
    · rintro (⟨h1, h2⟩ | ⟨k', hk', h | h⟩)
      · left
        refine ⟨h1, ?_⟩
        rintro ⟨rfl, rfl⟩
        exact h2 k hk rfl
      · injection h with e1 e2 e3; subst e3; right; left; exact ⟨e1, e2⟩
      · injection h with e1 e2 e3; subst e3; right; right; exact ⟨e1, e2⟩
  · have hk' : e.key ∉ ((opRegs op).map (lastEdge P)).map (·.key) := by rw [hkeys]; exact hk
    rw [splicePaths_other _ _ P _ hk', ← g.inv.edges_iff e]
    constructor
    · intro h1
      left
      refine ⟨h1, ?_⟩
      intro k hk2 heq
      apply hk; rw [heq]; exact hk2
    · rintro (⟨h1, _⟩ | ⟨k, hk2, h | h⟩)
      · exact h1
      · exfalso; apply hk; rw [h]; exact hk2
      · exfalso; apply hk; rw [h]; exact hk2

/-- **`add` keeps DagInv** — also when it raises (`ValueError` of the register prologue: only registers were added) -/
theorem add_good {c : Dag} {P : Paths} (g : Good c P) {op : Op} (hop : OpWF op) : ∃ P', Good (c.add op).1 P' := by
  obtain ⟨P1, g1, hl1, _, _⟩ := ensureRegs_good g op
  unfold add
  cases hres : c.ensureRegs op with
  | mk c1 err =>
    rw [hres] at g1 hl1
    simp only at g1 hl1
    cases err with
    | some e => exact ⟨P1, g1⟩
    | none =>
      obtain ⟨P2, g2, _⟩ := add_good' g1 hop (hl1 rfl)
      exact ⟨P2, g2⟩

/-- well-formed edge argument of `insert_at` (evaluated after the register prologue, which only adds isolated
    `in → out` wires): one existing edge per quantum register of the operation, keyed by that register, and no path
    from the head of one to the tail of another (`find_incompatible_edges`, see `compatible_no_path`) -/
structure InsertOK (c : Dag) (op : Op) (es : List Edge) : Prop where
  mem : ∀ e ∈ es, e ∈ c.edges
  keys : es.map (·.key) = op.qregs
  compat : ∀ e1 ∈ es, ∀ e2 ∈ es, e1 ≠ e2 → ¬ ReflTransGen c.E e1.dst e2.src

theorem insertAt_good' {c : Dag} {P : Paths} (g : Good c P) {op : Op} (hop : OpWF op) {es : List Edge}
    (hok : InsertOK c op es) :
    (c.insertAt_ op es).2 = none ∧ ∃ P', Good (c.insertAt_ op es).1 P' ∧ (c.insertAt_ op es).1.regs = c.regs ∧
      (c.insertAt_ op es).1.nodeId = c.nodeId + 1 ∧
      (c.insertAt_ op es).1.nodes = c.nodes ++ [(.op (c.nodeId + 1), op)] ∧
      (∀ k x, x ∈ P' k ↔ x ∈ P k ∨ (x = .op (c.nodeId + 1) ∧ k ∈ op.qregs)) := by
  let n := NodeId.op (c.nodeId + 1)
  have hfresh := g.inv.op_fresh
  have hnP : ∀ k, n ∉ P k := fun k hm => hfresh (g.inv.mem_nodes k _ hm)
  have h0 : Inv (c.newNode op) P := newNode_inv g.inv hop
  have hn0 : n ∈ (c.newNode op).nodeIds := by simp [nodeIds, newNode_nodes g.inv op, n]
  have hmem : ∀ e ∈ es, e ∈ (c.newNode op).edges := hok.mem
  have hknd : (es.map (·.key)).Nodup := by rw [hok.keys]; exact hop.qregs_nodup
  obtain ⟨hinv, hins⟩ := spliceAll_inv h0 (i := c.nodeId + 1) rfl hn0 es hmem hknd (fun e _ => hnP e.key)
  have heq : c.insertAt_ op es = ((c.newNode op).spliceAll n es, none) := hins
  have hnodes : (c.insertAt_ op es).1.nodes = c.nodes ++ [(.op (c.nodeId + 1), op)] := by
    rw [heq]; simp only [spliceAll_nodes]; exact newNode_nodes g.inv op
  have hP' : ∀ k x, x ∈ splicePaths n es P k ↔ x ∈ P k ∨ (x = n ∧ k ∈ op.qregs) := by
    intro k x
    rw [mem_splicePaths h0 n es hmem hknd k x, hok.keys]
  refine ⟨by rw [heq], splicePaths n es P, ⟨by rw [heq]; exact hinv, ?_, ?_⟩, ?_, ?_, hnodes, hP'⟩
  · apply mem_after_splice g hop hnodes op.qregs hP'
    · intro k _; exact Iff.rfl
    · intro r hr; exact absurd rfl (hop.qregs_quantum _ hr)
  · rw [heq]
    have hac0 : Acyclic (c.newNode op) := g.acyc
    apply spliceAll_acyclic h0 hac0 n es hmem hknd hnP hinv
    intro e1 he1 e2 he2
    by_cases he : e1 = e2
    · subst he
      exact hac0.no_back ⟨e1, hmem e1 he1, rfl, rfl⟩
    · exact hok.compat e1 he1 e2 he2 he
  · rw [heq]; simp
  · rw [heq]; simp

/-- **`insert_at` keeps DagInv**: on well-formed edges (a compatible pair for a two-qubit operation) it succeeds and
    the result is consistent — in particular acyclic; if the register prologue raises, only registers were added -/
theorem insertAt_good {c : Dag} {P : Paths} (g : Good c P) {op : Op} (hop : OpWF op) {es : List Edge}
    (hok : InsertOK (c.ensureRegs op).1 op es) :
    (∃ P', Good (c.insertAt op es).1 P') ∧ ((c.ensureRegs op).2 = none → (c.insertAt op es).2 = none) := by
  obtain ⟨P1, g1, hl1, _, _⟩ := ensureRegs_good g op
  unfold insertAt
  cases hres : c.ensureRegs op with
  | mk c1 err =>
    rw [hres] at g1 hl1 hok
    simp only at g1 hl1 hok
    cases err with
    | some e => exact ⟨⟨P1, g1⟩, by simp⟩
    | none =>
      have hlen : es.length = op.qregs.length := by rw [← hok.keys, List.length_map]
      simp only [hlen, ne_eq, not_true_eq_false, if_false]
      obtain ⟨hnone, P2, g2, _⟩ := insertAt_good' g1 hop hok
      exact ⟨⟨P2, g2⟩, fun _ => hnone⟩


/-! ## `_remove_node`: the edge bookkeeping of the double loop -/

/-- the graph's edge list is duplicate-free and `edge_dict` lists exactly the graph's edges, by register type -/
structure EdgeOK (c : Dag) : Prop where
  nodup : c.edges.Nodup
  dict : ∀ t e, (dictGet c.edgeDict t).count e = if e ∈ c.edges ∧ e.key.ty = t then 1 else 0

theorem Inv.edgeOK {c : Dag} {P : Paths} (h : Inv c P) : EdgeOK c := ⟨h.edges_nodup, h.edgeDict_ok⟩

theorem ite_congr_prop {p q : Prop} [Decidable p] [Decidable q] (h : p ↔ q) (a b : Nat) :
    (if p then a else b) = (if q then a else b) := by
  by_cases hp : p
  · rw [if_pos hp, if_pos (h.mp hp)]
  · rw [if_neg hp, if_neg (fun hq => hp (h.mpr hq))]

theorem EdgeOK.addEdge {c : Dag} (h : EdgeOK c) {u v : NodeId} {k : Reg} (hnew : (⟨u, v, k⟩ : Edge) ∉ c.edges) :
    EdgeOK (c.addEdge u v k) := by
  have hedges : (c.addEdge u v k).edges = c.edges ++ [⟨u, v, k⟩] := by simp [Dag.addEdge, hnew]
  have hdict : (c.addEdge u v k).edgeDict = dictAppend c.edgeDict k.ty ⟨u, v, k⟩ := rfl
  constructor
  · rw [hedges, List.nodup_append]
    refine ⟨h.nodup, by simp, ?_⟩
    intro a ha b hb e; subst e; simp at hb; subst hb; exact hnew ha
  · intro t e
    rw [hdict, count_dictGet_dictAppend, h.dict, hedges]
    by_cases he : e = ⟨u, v, k⟩
    · subst he
      by_cases ht : t = k.ty
      · subst ht; simp [hnew]
      · have : ¬ k.ty = t := fun e => ht e.symm
        simp [hnew, ht, this]
    · have : (e ∈ c.edges ++ [(⟨u, v, k⟩ : Edge)] ∧ e.key.ty = t) ↔ (e ∈ c.edges ∧ e.key.ty = t) := by
        simp [he]
      rw [ite_congr_prop this]; simp [he]

theorem EdgeOK.removeEdge {c : Dag} (h : EdgeOK c) (e0 : Edge) : EdgeOK (c.removeEdge e0) := by
  have hedges : (c.removeEdge e0).edges = c.edges.erase e0 := rfl
  have hdict : (c.removeEdge e0).edgeDict = dictRemove c.edgeDict e0.key.ty e0 := rfl
  constructor
  · rw [hedges]; exact h.nodup.erase _
  · intro t e
    rw [hdict, dictGet_dictRemove, hedges]
    by_cases ht : t = e0.key.ty
    · subst ht
      rw [if_pos rfl, List.count_erase, h.dict]
      by_cases he : e = e0
      · subst he
        have : ¬ (e ∈ c.edges.erase e ∧ e.key.ty = e.key.ty) := by
          rw [h.nodup.mem_erase_iff]; intro hh; exact hh.1.1 rfl
        rw [if_neg this]
        by_cases hm : e ∈ c.edges <;> simp [hm]
      · have hne : ¬ (e0 == e) = true := by simpa using fun e' => he e'.symm
        rw [if_neg hne, Nat.sub_zero]
        apply ite_congr_prop
        rw [h.nodup.mem_erase_iff]; simp [he]
    · rw [if_neg ht, h.dict]
      apply ite_congr_prop
      rw [h.nodup.mem_erase_iff]
      constructor
      · rintro ⟨h1, h2⟩
        refine ⟨⟨?_, h1⟩, h2⟩
        intro e'; subst e'; exact ht h2.symm
      · rintro ⟨⟨_, h1⟩, h2⟩; exact ⟨h1, h2⟩

theorem mem_removeEdge {c : Dag} (h : EdgeOK c) (e0 e : Edge) : e ∈ (c.removeEdge e0).edges ↔ e ∈ c.edges ∧ e ≠ e0 := by
  show e ∈ c.edges.erase e0 ↔ _
  rw [h.nodup.mem_erase_iff]; tauto

/-- the new edge that re-joins a wire across the removed node -/
def joinEdge (ein eout : Edge) : Edge := ⟨ein.src, eout.dst, eout.key⟩

def innerJoin (c : Dag) (ein : Edge) (outs : List Edge) : Dag :=
  outs.foldl (fun c eout => if ein.key = eout.key then c.addEdge ein.src eout.dst eout.key else c) c

theorem innerJoin_cons (c : Dag) (ein eout : Edge) (rest : List Edge) :
    innerJoin c ein (eout :: rest) =
      innerJoin (if ein.key = eout.key then c.addEdge ein.src eout.dst eout.key else c) ein rest := rfl

theorem innerJoin_spec (ein : Edge) (outs : List Edge) (hkeys : (outs.map (·.key)).Nodup) (c : Dag) (h : EdgeOK c)
    (hnew : ∀ eout ∈ outs, ein.key = eout.key → joinEdge ein eout ∉ c.edges) :
    EdgeOK (innerJoin c ein outs) ∧
    (∀ e, e ∈ (innerJoin c ein outs).edges ↔ e ∈ c.edges ∨ ∃ eout ∈ outs, ein.key = eout.key ∧ e = joinEdge ein eout) ∧
    (innerJoin c ein outs).nodes = c.nodes ∧ (innerJoin c ein outs).nodeDict = c.nodeDict ∧
    (innerJoin c ein outs).nodeId = c.nodeId ∧ (innerJoin c ein outs).regs = c.regs := by
  induction outs generalizing c with
  | nil => exact ⟨h, by simp [innerJoin], rfl, rfl, rfl, rfl⟩
  | cons eout rest ih =>
    have hnd : eout.key ∉ rest.map (·.key) ∧ (rest.map (·.key)).Nodup := by
      rw [List.map_cons] at hkeys; exact List.nodup_cons.mp hkeys
    rw [innerJoin_cons]
    by_cases hk : ein.key = eout.key
    · rw [if_pos hk]
      have hn := hnew eout (by simp) hk
      have h1 := h.addEdge (u := ein.src) (v := eout.dst) (k := eout.key) hn
      have hnomatch : ∀ e' ∈ rest, ein.key ≠ e'.key := by
        intro e' he' heq
        exact hnd.1 (List.mem_map.mpr ⟨e', he', by rw [← heq, hk]⟩)
      obtain ⟨a1, a2, a3, a4, a5, a6⟩ := ih hnd.2 (c.addEdge ein.src eout.dst eout.key) h1
        (fun e' he' heq => absurd heq (hnomatch e' he'))
      refine ⟨a1, ?_, a3, a4, a5, by rw [a6]; simp⟩
      intro e
      rw [a2 e, mem_addEdge]
      constructor
      · rintro ((h' | h') | ⟨e', he', heq, _⟩)
        · exact Or.inl h'
        · exact Or.inr ⟨eout, by simp, hk, h'⟩
        · exact absurd heq (hnomatch e' he')
      · rintro (h' | ⟨e', he', heq, hje⟩)
        · exact Or.inl (Or.inl h')
        · rcases List.mem_cons.mp he' with rfl | he'
          · exact Or.inl (Or.inr hje)
          · exact absurd heq (hnomatch e' he')
    · rw [if_neg hk]
      obtain ⟨a1, a2, a3, a4, a5, a6⟩ := ih hnd.2 c h (fun e' he' heq => hnew e' (List.mem_cons_of_mem _ he') heq)
      refine ⟨a1, ?_, a3, a4, a5, a6⟩
      intro e
      rw [a2 e]
      constructor
      · rintro (h' | ⟨e', he', heq, hje⟩)
        · exact Or.inl h'
        · exact Or.inr ⟨e', List.mem_cons_of_mem _ he', heq, hje⟩
      · rintro (h' | ⟨e', he', heq, hje⟩)
        · exact Or.inl h'
        · rcases List.mem_cons.mp he' with rfl | he'
          · exact absurd heq hk
          · exact Or.inr ⟨e', he', heq, hje⟩

def outerJoin (c : Dag) (ins outs : List Edge) : Dag :=
  ins.foldl (fun c ein => (innerJoin c ein outs).removeEdge ein) c

theorem outerJoin_cons (c : Dag) (ein : Edge) (rest outs : List Edge) :
    outerJoin c (ein :: rest) outs = outerJoin ((innerJoin c ein outs).removeEdge ein) rest outs := rfl

theorem outerJoin_spec (outs : List Edge) (hkeys : (outs.map (·.key)).Nodup) (ins : List Edge)
    (hins : (ins.map (·.key)).Nodup) (c : Dag) (h : EdgeOK c)
    (hnew : ∀ ein ∈ ins, ∀ eout ∈ outs, ein.key = eout.key → joinEdge ein eout ∉ c.edges)
    (hdist : ∀ ein ∈ ins, ∀ eout ∈ outs, ∀ ein' ∈ ins, joinEdge ein eout ≠ ein') :
    EdgeOK (outerJoin c ins outs) ∧
    (∀ e, e ∈ (outerJoin c ins outs).edges ↔ (e ∈ c.edges ∧ e ∉ ins) ∨
        ∃ ein ∈ ins, ∃ eout ∈ outs, ein.key = eout.key ∧ e = joinEdge ein eout) ∧
    (outerJoin c ins outs).nodes = c.nodes ∧ (outerJoin c ins outs).nodeDict = c.nodeDict ∧
    (outerJoin c ins outs).nodeId = c.nodeId ∧ (outerJoin c ins outs).regs = c.regs := by
  induction ins generalizing c with
  | nil => exact ⟨h, by simp [outerJoin], rfl, rfl, rfl, rfl⟩
  | cons ein rest ih =>
    have hnd : ein.key ∉ rest.map (·.key) ∧ (rest.map (·.key)).Nodup := by
      rw [List.map_cons] at hins; exact List.nodup_cons.mp hins
    rw [outerJoin_cons]
    obtain ⟨b1, b2, b3, b4, b5, b6⟩ := innerJoin_spec ein outs hkeys c h (fun eout he hk => hnew ein (by simp) eout he hk)
    have h1 : EdgeOK ((innerJoin c ein outs).removeEdge ein) := b1.removeEdge ein
    have hmem1 : ∀ e, e ∈ ((innerJoin c ein outs).removeEdge ein).edges ↔
        (e ∈ c.edges ∨ ∃ eout ∈ outs, ein.key = eout.key ∧ e = joinEdge ein eout) ∧ e ≠ ein := by
      intro e; rw [mem_removeEdge b1, b2]
    -- new edges for the remaining in-edges are still absent
    have hnew' : ∀ ein' ∈ rest, ∀ eout ∈ outs, ein'.key = eout.key →
        joinEdge ein' eout ∉ ((innerJoin c ein outs).removeEdge ein).edges := by
      intro ein' he' eout heo hk hm
      rw [hmem1] at hm
      rcases hm.1 with hm1 | ⟨eout2, heo2, hk2, hje⟩
      · exact hnew ein' (List.mem_cons_of_mem _ he') eout heo hk hm1
      · -- joinEdge ein' eout = joinEdge ein eout2 forces equal keys
        have : eout.key = eout2.key := by
          have := congrArg Edge.key hje; simpa [joinEdge] using this
        apply hnd.1
        apply List.mem_map.mpr
        exact ⟨ein', he', by rw [hk, this, ← hk2]⟩
    obtain ⟨a1, a2, a3, a4, a5, a6⟩ := ih hnd.2 ((innerJoin c ein outs).removeEdge ein) h1 hnew'
      (fun e1 he1 eo heo e2 he2 => hdist e1 (List.mem_cons_of_mem _ he1) eo heo e2 (List.mem_cons_of_mem _ he2))
    refine ⟨a1, ?_, by rw [a3]; exact b3, by rw [a4]; exact b4, by rw [a5]; exact b5, by rw [a6]; simpa using b6⟩
    intro e
    rw [a2 e, hmem1]
    constructor
    · rintro (⟨⟨h' | ⟨eout, heo, hk, hje⟩, hne⟩, hnr⟩ | ⟨ein', he', eout, heo, hk, hje⟩)
      · left; exact ⟨h', by simp [hne, hnr]⟩
      · right; exact ⟨ein, by simp, eout, heo, hk, hje⟩
      · right; exact ⟨ein', List.mem_cons_of_mem _ he', eout, heo, hk, hje⟩
    · rintro (⟨h', hni⟩ | ⟨ein', he', eout, heo, hk, hje⟩)
      · simp only [List.mem_cons, not_or] at hni
        left; exact ⟨⟨Or.inl h', hni.1⟩, hni.2⟩
      · rcases List.mem_cons.mp he' with rfl | he'
        · left
          refine ⟨⟨Or.inr ⟨eout, heo, hk, hje⟩, ?_⟩, ?_⟩
          · rw [hje]; exact hdist ein' (by simp) eout heo ein' (by simp)
          · rw [hje]; intro hm; exact hdist ein' (by simp) eout heo _ (List.mem_cons_of_mem _ hm) rfl
        · right; exact ⟨ein', he', eout, heo, hk, hje⟩

theorem removeAll_spec (outs : List Edge) (c : Dag) (h : EdgeOK c) :
    EdgeOK (outs.foldl (fun c e => c.removeEdge e) c) ∧
    (∀ e, e ∈ (outs.foldl (fun c e => c.removeEdge e) c).edges ↔ e ∈ c.edges ∧ e ∉ outs) ∧
    (outs.foldl (fun c e => c.removeEdge e) c).nodes = c.nodes ∧
    (outs.foldl (fun c e => c.removeEdge e) c).nodeDict = c.nodeDict ∧
    (outs.foldl (fun c e => c.removeEdge e) c).nodeId = c.nodeId ∧
    (outs.foldl (fun c e => c.removeEdge e) c).regs = c.regs := by
  induction outs generalizing c with
  | nil => exact ⟨h, by simp, rfl, rfl, rfl, rfl⟩
  | cons e0 rest ih =>
    rw [List.foldl_cons]
    obtain ⟨a1, a2, a3, a4, a5, a6⟩ := ih (c.removeEdge e0) (h.removeEdge e0)
    refine ⟨a1, ?_, a3, a4, a5, by rw [a6]; simp⟩
    intro e
    rw [a2, mem_removeEdge h]
    simp only [List.mem_cons, not_or]
    tauto

theorem rejoin_eq (c : Dag) (ins outs : List Edge) :
    c.rejoin ins outs = outs.foldl (fun c e => c.removeEdge e) (outerJoin c ins outs) := rfl


/-! ## `remove_op` -/

/-- an operation node on a wire has a predecessor and a successor there -/
theorem Inv.op_neighbours {c : Dag} {P : Paths} (h : Inv c P) {k : Reg} {i : Nat} (hm : NodeId.op i ∈ P k) :
    ∃ a b, Consec (P k) a (.op i) ∧ Consec (P k) (.op i) b := by
  have hl : c.live k := by
    by_cases hl : c.live k
    · exact hl
    · rw [h.dead k hl] at hm; simp at hm
  obtain ⟨mid, hP, _⟩ := h.shape k hl
  rw [hP] at hm ⊢
  have hm' : NodeId.op i ∈ mid := by
    rcases List.mem_cons.mp hm with e | hm
    · cases e
    · rcases List.mem_append.mp hm with hm | hm
      · exact hm
      · simp at hm
  obtain ⟨a, ha⟩ := exists_pred_of_mem (a := NodeId.inp k) (List.mem_append_left [NodeId.out k] hm')
  have : NodeId.inp k :: (mid ++ [NodeId.out k]) = (NodeId.inp k :: mid) ++ NodeId.out k :: [] := by simp
  obtain ⟨b, hb⟩ := exists_succ_of_mem_append (l1 := NodeId.inp k :: mid) (b := NodeId.out k) (l2 := [])
    (List.mem_cons_of_mem _ hm')
  exact ⟨a, b, ha, by rw [this]; exact hb⟩

/-- the state `remove_op` returns for an existing node -/
def removed (c : Dag) (n : NodeId) (op : Op) : Dag :=
  let c1 := c.rejoin (c.inEdges n) (c.outEdges n)
  { c1 with nodeDict := op.indexKeys.foldl (fun d k => dictRemove d k n) c1.nodeDict,
            nodes := c1.nodes.filter (fun p => p.1 ≠ n),
            edges := c1.edges.filter (fun e => e.src ≠ n ∧ e.dst ≠ n) }

theorem removeOp_eq {c : Dag} {n : NodeId} {op : Op} (h : c.opOf? n = some op) : c.removeOp n = (c.removed n op, none) := by
  unfold removeOp; rw [h]; rfl

structure RemoveFacts (c : Dag) (P : Paths) (n : NodeId) : Prop where
  rejoin_ok : EdgeOK (c.rejoin (c.inEdges n) (c.outEdges n))
  mem : ∀ e, e ∈ (c.rejoin (c.inEdges n) (c.outEdges n)).edges ↔
    (e ∈ c.edges ∧ e.dst ≠ n ∧ e.src ≠ n) ∨
      ∃ ein ∈ c.edges, ∃ eout ∈ c.edges, ein.dst = n ∧ eout.src = n ∧ ein.key = eout.key ∧ e = joinEdge ein eout
  nodes : (c.rejoin (c.inEdges n) (c.outEdges n)).nodes = c.nodes
  nodeDict : (c.rejoin (c.inEdges n) (c.outEdges n)).nodeDict = c.nodeDict
  nodeId : (c.rejoin (c.inEdges n) (c.outEdges n)).nodeId = c.nodeId
  regs : (c.rejoin (c.inEdges n) (c.outEdges n)).regs = c.regs

theorem removeFacts {c : Dag} {P : Paths} (h : Inv c P) (n : NodeId) : RemoveFacts c P n := by
  have hin : ∀ e, e ∈ c.inEdges n ↔ e ∈ c.edges ∧ e.dst = n := by intro e; simp [inEdges]
  have hout : ∀ e, e ∈ c.outEdges n ↔ e ∈ c.edges ∧ e.src = n := by intro e; simp [outEdges]
  have hinj_in : ∀ a ∈ c.inEdges n, ∀ b ∈ c.inEdges n, a.key = b.key → a = b := by
    intro a ha b hb hk
    have ha' := (hin a).mp ha
    have hb' := (hin b).mp hb
    have c1 := (h.edges_iff a).mp ha'.1
    have c2 := (h.edges_iff b).mp hb'.1
    rw [ha'.2] at c1; rw [hb'.2, ← hk] at c2
    have := consec_pred_unique (h.nodup _) c1 c2
    obtain ⟨s1, d1, k1⟩ := a; obtain ⟨s2, d2, k2⟩ := b
    simp only at hk this ha' hb'
    rw [this, hk, ha'.2, hb'.2]
  have hinj_out : ∀ a ∈ c.outEdges n, ∀ b ∈ c.outEdges n, a.key = b.key → a = b := by
    intro a ha b hb hk
    have ha' := (hout a).mp ha
    have hb' := (hout b).mp hb
    have c1 := (h.edges_iff a).mp ha'.1
    have c2 := (h.edges_iff b).mp hb'.1
    rw [ha'.2] at c1; rw [hb'.2, ← hk] at c2
    have := consec_succ_unique (h.nodup _) c1 c2
    obtain ⟨s1, d1, k1⟩ := a; obtain ⟨s2, d2, k2⟩ := b
    simp only at hk this ha' hb'
    rw [this, hk, ha'.2, hb'.2]
  have hk_in : ((c.inEdges n).map (·.key)).Nodup :=
    nodup_map_of_inj_on (h.edges_nodup.filter _) hinj_in
  have hk_out : ((c.outEdges n).map (·.key)).Nodup :=
    nodup_map_of_inj_on (h.edges_nodup.filter _) hinj_out
  -- the successor of n is not n; the predecessor of n is not n
  have hdst_ne : ∀ e ∈ c.outEdges n, e.dst ≠ n := by
    intro e he
    have he' := (hout e).mp he
    have := ((h.edges_iff e).mp he'.1).ne (h.nodup _)
    rw [he'.2] at this; exact fun e' => this e'.symm
  have hsrc_ne : ∀ e ∈ c.inEdges n, e.src ≠ n := by
    intro e he
    have he' := (hin e).mp he
    have := ((h.edges_iff e).mp he'.1).ne (h.nodup _)
    rw [he'.2] at this; exact this
  have hnew : ∀ ein ∈ c.inEdges n, ∀ eout ∈ c.outEdges n, ein.key = eout.key → joinEdge ein eout ∉ c.edges := by
    intro ein hi eout ho hk hm
    have hi' := (hin ein).mp hi
    have c1 := (h.edges_iff ein).mp hi'.1
    have c3 := (h.edges_iff _).mp hm
    simp only [joinEdge] at c3
    rw [← hk] at c3; rw [hi'.2] at c1
    have := consec_succ_unique (h.nodup _) c1 c3
    exact hdst_ne eout ho this.symm
  have hdist : ∀ ein ∈ c.inEdges n, ∀ eout ∈ c.outEdges n, ∀ ein' ∈ c.inEdges n, joinEdge ein eout ≠ ein' := by
    intro ein _ eout ho ein' hi' heq
    have := congrArg Edge.dst heq
    simp only [joinEdge] at this
    rw [((hin ein').mp hi').2] at this
    exact hdst_ne eout ho this
  obtain ⟨a1, a2, a3, a4, a5, a6⟩ := outerJoin_spec (c.outEdges n) hk_out (c.inEdges n) hk_in c h.edgeOK hnew hdist
  obtain ⟨b1, b2, b3, b4, b5, b6⟩ := removeAll_spec (c.outEdges n) (outerJoin c (c.inEdges n) (c.outEdges n)) a1
  rw [← rejoin_eq] at b1 b2 b3 b4 b5 b6
  refine ⟨b1, ?_, b3.trans a3, b4.trans a4, b5.trans a5, b6.trans a6⟩
  intro e
  rw [b2, a2]
  constructor
  · rintro ⟨⟨he, hni⟩ | ⟨ein, hi, eout, ho, hk, hje⟩, hno⟩
    · left
      refine ⟨he, fun hd => hni ((hin e).mpr ⟨he, hd⟩), fun hs => hno ((hout e).mpr ⟨he, hs⟩)⟩
    · right
      exact ⟨ein, ((hin ein).mp hi).1, eout, ((hout eout).mp ho).1, ((hin ein).mp hi).2, ((hout eout).mp ho).2, hk, hje⟩
  · rintro (⟨he, hd, hs⟩ | ⟨ein, hi, eout, ho, hid, hos, hk, hje⟩)
    · exact ⟨Or.inl ⟨he, fun hm => hd ((hin e).mp hm).2⟩, fun hm => hs ((hout e).mp hm).2⟩
    · have hi' := (hin ein).mpr ⟨hi, hid⟩
      have ho' := (hout eout).mpr ⟨ho, hos⟩
      refine ⟨Or.inr ⟨ein, hi', eout, ho', hk, hje⟩, ?_⟩
      intro hm
      have := ((hout e).mp hm).2
      rw [hje] at this
      exact hsrc_ne ein hi' this


def erasePaths (P : Paths) (n : NodeId) : Paths := fun k => (P k).erase n

theorem removed_edges_iff {c : Dag} {P : Paths} (h : Inv c P) {i : Nat} (e : Edge) :
    ((e ∈ c.edges ∧ e.dst ≠ .op i ∧ e.src ≠ .op i) ∨
      ∃ ein ∈ c.edges, ∃ eout ∈ c.edges, ein.dst = .op i ∧ eout.src = .op i ∧ ein.key = eout.key ∧ e = joinEdge ein eout) ↔
    Consec (erasePaths P (.op i) e.key) e.src e.dst := by
  unfold erasePaths
  by_cases hn : NodeId.op i ∈ P e.key
  · obtain ⟨a, b, ha, hb⟩ := h.op_neighbours hn
    rw [consec_erase (h.nodup _) ha hb]
    constructor
    · rintro (⟨he, hd, hs⟩ | ⟨ein, hi, eout, ho, hid, hos, hk, hje⟩)
      · exact Or.inl ⟨(h.edges_iff e).mp he, hs, hd⟩
      · right
        have hke : e.key = eout.key := by rw [hje]; rfl
        have c1 := (h.edges_iff ein).mp hi
        have c2 := (h.edges_iff eout).mp ho
        rw [hid, hk, ← hke] at c1
        rw [hos, ← hke] at c2
        have e1 := consec_pred_unique (h.nodup _) c1 ha
        have e2 := consec_succ_unique (h.nodup _) c2 hb
        rw [hje]; exact ⟨e1, e2⟩
    · rintro (⟨hc, hs, hd⟩ | ⟨hs, hd⟩)
      · exact Or.inl ⟨(h.edges_iff e).mpr hc, hd, hs⟩
      · right
        refine ⟨⟨a, .op i, e.key⟩, (h.edges_iff _).mpr ha, ⟨.op i, b, e.key⟩, (h.edges_iff _).mpr hb, rfl, rfl, rfl, ?_⟩
        obtain ⟨s, d, k⟩ := e
        simp only at hs hd
        simp [joinEdge, hs, hd]
  · rw [List.erase_of_not_mem hn]
    constructor
    · rintro (⟨he, _, _⟩ | ⟨ein, hi, eout, ho, hid, hos, hk, hje⟩)
      · exact (h.edges_iff e).mp he
      · exfalso
        have hke : e.key = eout.key := by rw [hje]; rfl
        have c2 := (h.edges_iff eout).mp ho
        rw [hos, ← hke] at c2
        exact hn c2.mem.1
    · intro hc
      left
      refine ⟨(h.edges_iff e).mpr hc, ?_, ?_⟩
      · intro hd; exact hn (hd ▸ hc.mem.2)
      · intro hs; exact hn (hs ▸ hc.mem.1)

theorem removed_inv {c : Dag} {P : Paths} (h : Inv c P) {i : Nat} {op : Op} (hop : (NodeId.op i, op) ∈ c.nodes) :
    Inv (c.removed (.op i) op) (erasePaths P (.op i)) := by
  have F := removeFacts h (.op i)
  have hfilter : (c.rejoin (c.inEdges (.op i)) (c.outEdges (.op i))).edges.filter
      (fun e => e.src ≠ .op i ∧ e.dst ≠ .op i) = (c.rejoin (c.inEdges (.op i)) (c.outEdges (.op i))).edges := by
    rw [List.filter_eq_self]
    intro e he
    have hc := (removed_edges_iff h e).mp ((F.mem e).mp he)
    unfold erasePaths at hc
    have h1 := (h.nodup e.key).mem_erase_iff.mp hc.mem.1
    have h2 := (h.nodup e.key).mem_erase_iff.mp hc.mem.2
    simp [h1.1, h2.1]
  have hedges : (c.removed (.op i) op).edges = (c.rejoin (c.inEdges (.op i)) (c.outEdges (.op i))).edges := by
    simp only [removed]; exact hfilter
  have hnodes : (c.removed (.op i) op).nodes = c.nodes.filter (fun p => p.1 ≠ .op i) := by
    simp only [removed, F.nodes]
  have hids : (c.removed (.op i) op).nodeIds = c.nodeIds.filter (fun m => m ≠ .op i) := by
    simp only [nodeIds, hnodes, List.filter_map]; rfl
  have hregs : (c.removed (.op i) op).regs = c.regs := by
    have : (c.removed (.op i) op).regs = (c.rejoin (c.inEdges (.op i)) (c.outEdges (.op i))).regs := by
      funext t; cases t <;> rfl
    rw [this, F.regs]
  have hnd' : (c.removed (.op i) op).nodeIds.Nodup := by rw [hids]; exact h.ids_nodup.filter _
  have hmemn : ∀ m o, (m, o) ∈ (c.removed (.op i) op).nodes ↔ (m, o) ∈ c.nodes ∧ m ≠ .op i := by
    intro m o; rw [hnodes, List.mem_filter]; simp
  have hopOf : ∀ m, m ≠ .op i → (c.removed (.op i) op).opOf? m = c.opOf? m := by
    intro m hm
    cases hc : c.opOf? m with
    | none =>
      apply opOf_eq_none.mpr
      rw [hids, List.mem_filter]; intro hx; exact (opOf_eq_none.mp hc) hx.1
    | some o =>
      apply (opOf_eq_some hnd').mpr
      rw [hmemn]; exact ⟨(opOf_eq_some h.ids_nodup).mp hc, hm⟩
  refine
    { edges_nodup := by rw [hedges]; exact F.rejoin_ok.nodup
      edges_iff := by intro e; rw [hedges, F.mem, removed_edges_iff h]
      dead := by
        intro k hk
        have : ¬ c.live k := by simpa [live, hregs] using hk
        simp [erasePaths, h.dead k this]
      shape := ?_
      nodup := fun k => (h.nodup k).erase _
      mem_nodes := ?_
      edgeDict_ok := ?_
      ids_nodup := hnd'
      inp_iff := by
        intro r; rw [hids, List.mem_filter, live_eq_of_regs hregs, ← h.inp_iff r]; simp
      out_iff := by
        intro r; rw [hids, List.mem_filter, live_eq_of_regs hregs, ← h.out_iff r]; simp
      inp_op := by intro r o hm; exact h.inp_op r o ((hmemn _ _).mp hm).1
      out_op := by intro r o hm; exact h.out_op r o ((hmemn _ _).mp hm).1
      op_range := by
        intro j hj
        rw [hids, List.mem_filter] at hj
        have hid : (c.removed (.op i) op).nodeId = c.nodeId := F.nodeId
        rw [hid]; exact h.op_range j hj.1
      op_wf := by intro j o hm; exact h.op_wf j o ((hmemn _ _).mp hm).1
      nodeDict_ok := ?_ }
  · -- shape
    intro k hk
    have hk : c.live k := by simpa [live, hregs] using hk
    obtain ⟨mid, hP, hmid⟩ := h.shape k hk
    refine ⟨mid.erase (.op i), ?_, fun m hm => hmid m (List.mem_of_mem_erase hm)⟩
    unfold erasePaths
    rw [hP, List.erase_cons_tail (by simp)]
    by_cases hm : NodeId.op i ∈ mid
    · rw [List.erase_append_left _ hm]
    · rw [List.erase_append_right _ hm, List.erase_of_not_mem hm]
      simp
  · -- mem_nodes
    intro k m hm
    unfold erasePaths at hm
    have := (h.nodup k).mem_erase_iff.mp hm
    rw [hids, List.mem_filter]
    exact ⟨h.mem_nodes k m this.2, by simpa using this.1⟩
  · -- edgeDict_ok
    intro t e
    have hd : (c.removed (.op i) op).edgeDict = (c.rejoin (c.inEdges (.op i)) (c.outEdges (.op i))).edgeDict := rfl
    rw [hd, hedges]; exact F.rejoin_ok.dict t e
  · -- nodeDict_ok
    intro l m
    have hd : (c.removed (.op i) op).nodeDict = op.indexKeys.foldl (fun d k => dictRemove d k (.op i)) c.nodeDict := by
      simp only [removed, F.nodeDict]
    rw [hd, count_dictGet_foldl_remove, h.nodeDict_ok]
    by_cases hm : m = .op i
    · subst hm
      have h1 : c.opOf? (.op i) = some op := (opOf_eq_some h.ids_nodup).mpr hop
      have h2 : (c.removed (.op i) op).opOf? (.op i) = none := by
        apply opOf_eq_none.mpr; rw [hids, List.mem_filter]; simp
      simp [indexCount, h1, h2, indexKeysOf]
    · simp [indexCount, hopOf m hm, hm]

theorem removed_good {c : Dag} {P : Paths} (g : Good c P) {i : Nat} {op : Op} (hop : (NodeId.op i, op) ∈ c.nodes) :
    Good (c.removed (.op i) op) (erasePaths P (.op i)) := by
  have hinv := removed_inv g.inv hop
  have F := removeFacts g.inv (.op i)
  have hnodes : (c.removed (.op i) op).nodes = c.nodes.filter (fun p => p.1 ≠ .op i) := by
    simp only [removed, F.nodes]
  refine ⟨hinv, ⟨?_, ?_⟩, ?_⟩
  · intro j o hm k hk
    rw [hnodes, List.mem_filter] at hm
    have hne : NodeId.op j ≠ .op i := by simpa using hm.2
    unfold erasePaths
    rw [List.mem_erase_of_ne hne]
    exact g.mem.mem_q j o hm.1 k hk
  · intro j o hm r hr
    rw [hnodes, List.mem_filter] at hm
    unfold erasePaths at hr
    exact g.mem.mem_c j o hm.1 r (List.mem_of_mem_erase hr)
  · -- acyclic: every edge of the result is an old path
    apply AcyclicRel.of_sub_transGen g.acyc
    rintro a b ⟨e, he, rfl, rfl⟩
    have hedges : (c.removed (.op i) op).edges ⊆ (c.rejoin (c.inEdges (.op i)) (c.outEdges (.op i))).edges := by
      simp only [removed]; intro x hx; exact (List.mem_filter.mp hx).1
    rcases (F.mem e).mp (hedges he) with ⟨he', _, _⟩ | ⟨ein, hi, eout, ho, hid, hos, _, hje⟩
    · exact TransGen.single ⟨e, he', rfl, rfl⟩
    · rw [hje]
      simp only [joinEdge]
      exact TransGen.tail (TransGen.single ⟨ein, hi, rfl, hid⟩) ⟨eout, ho, hos, rfl⟩

/-- **`remove_op` keeps DagInv** (for an operation node; the register counts and `_node_id` are untouched) -/
theorem removeOp_good {c : Dag} {P : Paths} (g : Good c P) {i : Nat} (hi : NodeId.op i ∈ c.nodeIds) :
    (c.removeOp (.op i)).2 = none ∧ Good (c.removeOp (.op i)).1 (erasePaths P (.op i)) ∧
      (c.removeOp (.op i)).1.regs = c.regs ∧ (c.removeOp (.op i)).1.nodeId = c.nodeId := by
  obtain ⟨op, hop⟩ := mem_nodeIds.mp hi
  have h1 : c.opOf? (.op i) = some op := (opOf_eq_some g.inv.ids_nodup).mpr hop
  rw [removeOp_eq h1]
  have F := removeFacts g.inv (.op i)
  refine ⟨rfl, removed_good g hop, ?_, F.nodeId⟩
  have : (c.removed (.op i) op).regs = (c.rejoin (c.inEdges (.op i)) (c.outEdges (.op i))).regs := by
    funext t; cases t <;> rfl
  rw [this, F.regs]


/-! ## `replace_op` -/

def replaced (c : Dag) (n : NodeId) (old new : Op) : Dag :=
  { c with nodeDict := new.indexKeys.foldl (fun d k => dictAppend d k n)
                         (old.indexKeys.foldl (fun d k => dictRemove d k n) c.nodeDict),
           nodes := c.nodes.map (fun p => if p.1 = n then (n, new) else p) }

theorem replaceOp_eq {c : Dag} {n : NodeId} {old new : Op} (h : c.opOf? n = some old)
    (hq : old.qregs = new.qregs) (hc : old.cregs = new.cregs) : c.replaceOp n new = (c.replaced n old new, none) := by
  unfold replaceOp; rw [h]; simp [hq, hc, replaced]

theorem mem_replaced_nodes {c : Dag} {n : NodeId} {old new : Op} (m : NodeId) (o : Op) :
    (m, o) ∈ (c.replaced n old new).nodes ↔ (m ≠ n ∧ (m, o) ∈ c.nodes) ∨ (m = n ∧ o = new ∧ n ∈ c.nodeIds) := by
  simp only [replaced, List.mem_map]
  constructor
  · rintro ⟨p, hp, he⟩
    by_cases hpn : p.1 = n
    · rw [if_pos hpn] at he
      injection he with h1 h2
      right; exact ⟨h1.symm, h2.symm, mem_nodeIds.mpr ⟨p.2, by rw [← hpn]; exact hp⟩⟩
    · rw [if_neg hpn] at he
      subst he; left; exact ⟨hpn, hp⟩
  · rintro (⟨hne, hm⟩ | ⟨rfl, rfl, hn⟩)
    · exact ⟨(m, o), hm, by simp [hne]⟩
    · obtain ⟨o', ho'⟩ := mem_nodeIds.mp hn
      exact ⟨(m, o'), ho', by simp⟩

theorem replaced_nodeIds (c : Dag) (n : NodeId) (old new : Op) : (c.replaced n old new).nodeIds = c.nodeIds := by
  simp only [nodeIds, replaced, List.map_map]
  apply List.map_congr_left
  intro p _
  by_cases h : p.1 = n <;> simp [h]

theorem replaced_good {c : Dag} {P : Paths} (g : Good c P) {i : Nat} {old new : Op} (hold : (NodeId.op i, old) ∈ c.nodes)
    (hnew : OpWF new) (hq : old.qregs = new.qregs) (hc : old.cregs = new.cregs) :
    Good (c.replaced (.op i) old new) P := by
  have h := g.inv
  have hids := replaced_nodeIds c (.op i) old new
  have hregs : (c.replaced (.op i) old new).regs = c.regs := by funext t; cases t <;> rfl
  have hi : NodeId.op i ∈ c.nodeIds := mem_nodeIds.mpr ⟨old, hold⟩
  have hnd' : (c.replaced (.op i) old new).nodeIds.Nodup := by rw [hids]; exact h.ids_nodup
  have hold_uniq : ∀ o, (NodeId.op i, o) ∈ c.nodes → o = old := by
    intro o ho
    have h1 := (opOf_eq_some h.ids_nodup).mpr ho
    have h2 := (opOf_eq_some h.ids_nodup).mpr hold
    rw [h1] at h2; injection h2
  refine ⟨?_, ⟨?_, ?_⟩, g.acyc⟩
  · refine
      { edges_nodup := h.edges_nodup
        edges_iff := h.edges_iff
        dead := by intro k hk; exact h.dead k (by simpa [live, hregs] using hk)
        shape := by intro k hk; exact h.shape k (by simpa [live, hregs] using hk)
        nodup := h.nodup
        mem_nodes := by intro k m hm; rw [hids]; exact h.mem_nodes k m hm
        edgeDict_ok := h.edgeDict_ok
        ids_nodup := hnd'
        inp_iff := by intro r; rw [hids, live_eq_of_regs hregs]; exact h.inp_iff r
        out_iff := by intro r; rw [hids, live_eq_of_regs hregs]; exact h.out_iff r
        inp_op := by
          intro r o hm
          rcases (mem_replaced_nodes _ _).mp hm with ⟨_, hm⟩ | ⟨e, _, _⟩
          · exact h.inp_op r o hm
          · cases e
        out_op := by
          intro r o hm
          rcases (mem_replaced_nodes _ _).mp hm with ⟨_, hm⟩ | ⟨e, _, _⟩
          · exact h.out_op r o hm
          · cases e
        op_range := by intro j hj; rw [hids] at hj; exact h.op_range j hj
        op_wf := by
          intro j o hm
          rcases (mem_replaced_nodes _ _).mp hm with ⟨_, hm⟩ | ⟨_, e, _⟩
          · exact h.op_wf j o hm
          · rw [e]; exact hnew
        nodeDict_ok := ?_ }
    intro l m
    have hd : (c.replaced (.op i) old new).nodeDict = new.indexKeys.foldl (fun d k => dictAppend d k (.op i))
        (old.indexKeys.foldl (fun d k => dictRemove d k (.op i)) c.nodeDict) := rfl
    rw [hd, count_dictGet_foldl_append, count_dictGet_foldl_remove, h.nodeDict_ok]
    by_cases hm : m = .op i
    · subst hm
      have h1 : c.opOf? (.op i) = some old := (opOf_eq_some h.ids_nodup).mpr hold
      have h2 : (c.replaced (.op i) old new).opOf? (.op i) = some new :=
        (opOf_eq_some hnd').mpr ((mem_replaced_nodes _ _).mpr (Or.inr ⟨rfl, rfl, hi⟩))
      simp [indexCount, h1, h2, indexKeysOf]
    · have : (c.replaced (.op i) old new).opOf? m = c.opOf? m := by
        cases hc' : c.opOf? m with
        | none =>
          apply opOf_eq_none.mpr; rw [hids]; exact opOf_eq_none.mp hc'
        | some o =>
          apply (opOf_eq_some hnd').mpr
          exact (mem_replaced_nodes _ _).mpr (Or.inl ⟨hm, (opOf_eq_some h.ids_nodup).mp hc'⟩)
      simp [indexCount, this, hm]
  · intro j o hm k hk
    rcases (mem_replaced_nodes _ _).mp hm with ⟨_, hm⟩ | ⟨e, rfl, _⟩
    · exact g.mem.mem_q j o hm k hk
    · injection e with e; subst e
      rw [← hq]; exact g.mem.mem_q j old hold k hk
  · intro j o hm r hr
    rcases (mem_replaced_nodes _ _).mp hm with ⟨_, hm⟩ | ⟨e, rfl, _⟩
    · exact g.mem.mem_c j o hm r hr
    · injection e with e; subst e
      rw [← hc]; exact g.mem.mem_c j old hold r hr

/-- **`replace_op` keeps DagInv** whatever it returns (it changes the state only when it succeeds) -/
theorem replaceOp_good {c : Dag} {P : Paths} (g : Good c P) {i : Nat} {new : Op} (hnew : OpWF new) :
    Good (c.replaceOp (.op i) new).1 P ∧ (c.replaceOp (.op i) new).1.regs = c.regs := by
  unfold replaceOp
  cases hc : c.opOf? (.op i) with
  | none => exact ⟨g, rfl⟩
  | some old =>
    simp only
    by_cases hne : old.qregs ≠ new.qregs ∨ old.cregs ≠ new.cregs
    · rw [if_pos hne]; exact ⟨g, rfl⟩
    · rw [if_neg hne]
      have hq : old.qregs = new.qregs := by
        by_cases h : old.qregs = new.qregs
        · exact h
        · exact absurd (Or.inl h) hne
      have hcr : old.cregs = new.cregs := by
        by_cases h : old.cregs = new.cregs
        · exact h
        · exact absurd (Or.inr h) hne
      have := replaced_good g ((opOf_eq_some g.inv.ids_nodup).mp hc) hnew hq hcr
      refine ⟨this, ?_⟩
      funext t; cases t <;> rfl

/-- **`add_*_register` keeps DagInv** -/
theorem addRegister_good {c : Dag} {P : Paths} (g : Good c P) (t : RegType) (size : Nat) :
    ∃ P', Good (c.addRegister t size).1 P' := by
  unfold addRegister
  by_cases hs : size ≠ 1
  · rw [if_pos hs]; exact ⟨P, g⟩
  · rw [if_neg hs]
    obtain ⟨P', g', _⟩ := addRegIfAbsent_good g ⟨t, c.regs t⟩
    exact ⟨P', g'⟩


/-! ## the initial circuit -/

theorem empty_good : Good Dag.empty (fun _ => []) := by
  refine ⟨?_, ⟨?_, ?_⟩, ?_⟩
  · refine
      { edges_nodup := by simp [Dag.empty]
        edges_iff := by intro e; simp [Dag.empty]
        dead := fun _ _ => rfl
        shape := by intro k hk; cases k with | mk t i => cases t <;> simp [live, regs, Dag.empty] at hk
        nodup := by intro k; simp
        mem_nodes := by intro k n hn; simp at hn
        edgeDict_ok := by intro t e; simp [Dag.empty, dictGet]
        ids_nodup := by simp [nodeIds, Dag.empty]
        inp_iff := by
          intro r; cases r with | mk t i => cases t <;> simp [nodeIds, Dag.empty, live, regs]
        out_iff := by
          intro r; cases r with | mk t i => cases t <;> simp [nodeIds, Dag.empty, live, regs]
        inp_op := by intro r o hm; simp [Dag.empty] at hm
        out_op := by intro r o hm; simp [Dag.empty] at hm
        op_range := by intro j hj; simp [nodeIds, Dag.empty] at hj
        op_wf := by intro j o hm; simp [Dag.empty] at hm
        nodeDict_ok := by intro l n; simp [Dag.empty, dictGet, indexCount, opOf?] }
  · intro i o hm; simp [Dag.empty] at hm
  · intro i o hm; simp [Dag.empty] at hm
  · intro a haa
    rcases TransGen.head'_iff.mp haa with ⟨b, ⟨e, he, _⟩, _⟩
    simp [Dag.empty] at he

/-- **`CircuitDAG(n_emitter, n_photon, n_classical)` satisfies DagInv** -/
theorem init_good (ne np nc : Nat) : ∃ P, Good (Dag.init ne np nc) P := by
  obtain ⟨P, g, _⟩ := addRegs_good empty_good
    ((List.range ne).map (Reg.mk .e) ++ (List.range np).map (Reg.mk .p) ++ (List.range nc).map (Reg.mk .c))
  exact ⟨P, g⟩


/-! ## composite edits: `remove_identity`, `group_one_qubit_gates`, `unwrap_nodes` -/

theorem addRegs_live_eq {c : Dag} {P : Paths} (h : Inv c P) (rs : List Reg) (hl : ∀ r ∈ rs, c.live r) :
    c.addRegs rs = (c, none) := by
  induction rs with
  | nil => rfl
  | cons r rest ih =>
    unfold addRegs
    rw [addRegIfAbsent_old h (hl r (by simp))]
    exact ih (fun r' hr' => hl r' (List.mem_cons_of_mem _ hr'))

theorem ensureRegs_live_eq {c : Dag} {P : Paths} (h : Inv c P) {op : Op} (hq : op.qregs ≠ [])
    (hl : ∀ r ∈ opRegs op, c.live r) : c.ensureRegs op = (c, none) := by
  unfold ensureRegs
  rw [addRegs_live_eq h _ (fun r hr => hl r (List.mem_append_right _ hr))]
  have : op.qregs.isEmpty = false := by cases hq' : op.qregs with
    | nil => exact absurd hq' hq
    | cons a t => rfl
  simp only [this]
  exact addRegs_live_eq h _ (fun r hr => hl r (List.mem_append_left _ ((mem_sortRegs _ _).mp hr)))

/-- members of a `node_dict` list are nodes of the graph carrying that key -/
theorem Inv.mem_nodeDict {c : Dag} {P : Paths} (h : Inv c P) {l : String} {n : NodeId} (hn : n ∈ dictGet c.nodeDict l) :
    ∃ op, (n, op) ∈ c.nodes ∧ l ∈ indexKeysOf n op := by
  have hc : 0 < (dictGet c.nodeDict l).count n := List.count_pos_iff.mpr hn
  rw [h.nodeDict_ok] at hc
  unfold indexCount at hc
  cases ho : c.opOf? n with
  | none => rw [ho] at hc; simp at hc
  | some op =>
    rw [ho] at hc
    exact ⟨op, (opOf_eq_some h.ids_nodup).mp ho, List.count_pos_iff.mp hc⟩

theorem removeOp_absent {c : Dag} {n : NodeId} (h : c.opOf? n = none) : (c.removeOp n).1 = c := by
  unfold removeOp; rw [h]

/-- removing any list of operation-node ids (present or not) keeps DagInv -/
theorem removeAll_good {c : Dag} {P : Paths} (g : Good c P) (ns : List NodeId) (hns : ∀ n ∈ ns, ∃ i, n = NodeId.op i) :
    ∃ P', Good (c.removeAll ns).1 P' ∧ (c.removeAll ns).1.regs = c.regs := by
  induction ns generalizing c P with
  | nil => exact ⟨P, g, rfl⟩
  | cons n rest ih =>
    obtain ⟨i, rfl⟩ := hns n (by simp)
    unfold removeAll
    by_cases hp : NodeId.op i ∈ c.nodeIds
    · obtain ⟨h1, h2, h3, _⟩ := removeOp_good g hp
      cases hres : c.removeOp (.op i) with
      | mk c1 err =>
        rw [hres] at h1 h2 h3
        simp only at h1 h2 h3
        subst h1
        obtain ⟨P', g', hr'⟩ := ih h2 (fun n hn => hns n (List.mem_cons_of_mem _ hn))
        exact ⟨P', g', hr'.trans h3⟩
    · have hnone : c.opOf? (.op i) = none := opOf_eq_none.mpr hp
      have : c.removeOp (.op i) = (c, some .networkx) := by unfold removeOp; rw [hnone]
      rw [this]; exact ⟨P, g, rfl⟩

theorem Inv.nodeDict_ops {c : Dag} {P : Paths} (h : Inv c P) {l : String} (hl1 : l ≠ "Input") (hl2 : l ≠ "Output")
    {n : NodeId} (hn : n ∈ dictGet c.nodeDict l) : ∃ i, n = NodeId.op i := by
  obtain ⟨op, _, hk⟩ := h.mem_nodeDict hn
  cases n with
  | inp r => simp [indexKeysOf] at hk; exact absurd hk hl1
  | out r => simp [indexKeysOf] at hk; exact absurd hk hl2
  | op i => exact ⟨i, rfl⟩

/-- **`remove_identity` keeps DagInv** (and the register counts) -/
theorem removeIdentity_good {c : Dag} {P : Paths} (g : Good c P) :
    ∃ P', Good c.removeIdentity.1 P' ∧ c.removeIdentity.1.regs = c.regs := by
  unfold removeIdentity
  by_cases hh : dictHas c.nodeDict "Identity" = true
  · rw [if_pos hh]
    exact removeAll_good g _ (fun n hn => g.inv.nodeDict_ops (by decide) (by decide) hn)
  · rw [if_neg hh]; exact ⟨P, g, rfl⟩

/-- `insert_at` of a one-register operation on one existing edge of that register -/
theorem insertAt_single_good {c : Dag} {P : Paths} (g : Good c P) {w : Op} (hw : OpWF w) {r : Reg}
    (hq : w.qregs = [r]) (hc : w.cregs = []) {ie : Edge} (hie : ie ∈ c.edges) (hk : ie.key = r) :
    (c.insertAt w [ie]).2 = none ∧ ∃ P', Good (c.insertAt w [ie]).1 P' ∧ (c.insertAt w [ie]).1.regs = c.regs ∧
      (c.insertAt w [ie]).1.nodeId = c.nodeId + 1 ∧
      (c.insertAt w [ie]).1.nodes = c.nodes ++ [(.op (c.nodeId + 1), w)] ∧
      (∀ k x, x ∈ P' k ↔ x ∈ P k ∨ (x = .op (c.nodeId + 1) ∧ k = r)) := by
  have hlive : c.live r := hk ▸ g.inv.live_of_edge hie
  have hens : c.ensureRegs w = (c, none) := by
    apply ensureRegs_live_eq g.inv (by rw [hq]; simp)
    intro r' hr'; unfold opRegs at hr'; rw [hq, hc] at hr'; simp at hr'; subst hr'; exact hlive
  have hok : InsertOK c w [ie] := by
    refine ⟨by simpa using hie, by simp [hq, hk], ?_⟩
    intro e1 he1 e2 he2 hne
    simp at he1 he2; subst he1 he2; exact absurd rfl hne
  obtain ⟨h1, P', g', h2, h3, h4, h5⟩ := insertAt_good' g hw hok
  have heq : c.insertAt w [ie] = c.insertAt_ w [ie] := by
    unfold insertAt; rw [hens]; simp [hq]
  rw [heq]
  refine ⟨h1, P', g', h2, h3, h4, ?_⟩
  intro k x; rw [h5 k x, hq]; simp


theorem mkWrapper_wf {gates : List Kind} {r : Reg} {w : Op} (h : mkWrapper gates r = some w) :
    OpWF w ∧ w.qregs = [r] ∧ w.cregs = [] := by
  unfold mkWrapper at h
  by_cases hc : r.ty = .c
  · simp [hc] at h
  · rw [if_neg hc] at h
    by_cases hall : gates.all Kind.isOneQubitBase = true
    · rw [if_pos hall] at h
      injection h with h; subst h
      refine ⟨?_, rfl, rfl⟩
      exact
        { not_input := by simp
          not_output := by simp
          qregs_ne := by simp
          qregs_nodup := by simp
          cregs_nodup := by simp
          qregs_quantum := by intro r' hr'; simp at hr'; subst hr'; exact hc
          wrapper_shape := fun _ => ⟨⟨r, rfl⟩, rfl, fun k hk => List.all_eq_true.mp hall k hk⟩
          wrapper_key := fun _ => rfl }
    · rw [if_neg hall] at h; simp at h

theorem groupTake_good {c : Dag} {P : Paths} (g : Good c P) (node : NodeId) (gates : List Kind) :
    ∃ P', Good (groupTake c node gates).1 P' ∧ (groupTake c node gates).1.regs = c.regs := by
  unfold groupTake
  by_cases hc : c.groupable node = true
  · rw [if_pos hc]
    have hmem : node ∈ dictGet c.nodeDict "one-qubit" := by
      unfold groupable at hc
      have := (Bool.and_eq_true _ _).mp hc
      simpa using this.1
    obtain ⟨i, rfl⟩ := g.inv.nodeDict_ops (by decide) (by decide) hmem
    obtain ⟨op, hop, _⟩ := g.inv.mem_nodeDict hmem
    rw [(opOf_eq_some g.inv.ids_nodup).mpr hop]
    simp only
    obtain ⟨_, h2, h3, _⟩ := removeOp_good g (mem_nodeIds.mpr ⟨op, hop⟩)
    exact ⟨_, h2, h3⟩
  · rw [if_neg hc]; exact ⟨P, g, rfl⟩

theorem mem_of_edgeFromReg {es : List Edge} {r : Reg} {e : Edge} (h : edgeFromReg es r = some e) : e ∈ es ∧ e.key = r := by
  unfold edgeFromReg at h
  exact ⟨List.mem_of_find?_eq_some h, by simpa using List.find?_some h⟩

theorem groupFlush_good {c : Dag} {P : Paths} (g : Good c P) (r : Reg) (next : NodeId) (gates : List Kind) :
    ∃ P', Good (groupFlush c r next gates).1 P' ∧ (groupFlush c r next gates).1.regs = c.regs := by
  unfold groupFlush
  cases he : edgeFromReg (c.outEdges next) r with
  | none => exact ⟨P, g, rfl⟩
  | some ie =>
    simp only
    cases hw : mkWrapper gates r with
    | none => exact ⟨P, g, rfl⟩
    | some w =>
      simp only
      obtain ⟨hwf, hq, hcr⟩ := mkWrapper_wf hw
      have hie := mem_of_edgeFromReg he
      have hie' : ie ∈ c.edges := (List.mem_filter.mp hie.1).1
      obtain ⟨_, P', g', hr, _⟩ := insertAt_single_good g hwf hq hcr hie' hie.2
      exact ⟨P', g', hr⟩

theorem groupWalk_good (r : Reg) (fuel : Nat) : ∀ {c : Dag} {P : Paths}, Good c P → ∀ (node : NodeId) (gates : List Kind),
    ∃ P', Good (groupWalk r fuel c node gates).1 P' ∧ (groupWalk r fuel c node gates).1.regs = c.regs := by
  induction fuel with
  | zero => intro c P g node gates; exact ⟨P, g, rfl⟩
  | succ fuel ih =>
    intro c P g node gates
    unfold groupWalk
    by_cases hin : (dictGet c.nodeDict "Input").contains node = true
    · rw [if_pos hin]; exact ⟨P, g, rfl⟩
    · rw [if_neg hin]
      cases he : edgeFromReg (c.inEdges node) r with
      | none => exact ⟨P, g, rfl⟩
      | some edge =>
        simp only
        obtain ⟨P1, g1, hr1⟩ := groupTake_good g node gates
        cases ht : groupTake c node gates with
        | mk c1 rest =>
          obtain ⟨gates1, err⟩ := rest
          rw [ht] at g1 hr1
          simp only at g1 hr1
          cases err with
          | some e => exact ⟨P1, g1, hr1⟩
          | none =>
            simp only
            by_cases hcond : (!(c1.groupable edge.src) && !gates1.isEmpty) = true
            · rw [if_pos hcond]
              obtain ⟨P2, g2, hr2⟩ := groupFlush_good g1 r edge.src gates1
              cases hf : groupFlush c1 r edge.src gates1 with
              | mk c2 err2 =>
                rw [hf] at g2 hr2
                simp only at g2 hr2
                cases err2 with
                | some e => exact ⟨P2, g2, hr2.trans hr1⟩
                | none =>
                  obtain ⟨P3, g3, hr3⟩ := ih g2 edge.src []
                  exact ⟨P3, g3, hr3.trans (hr2.trans hr1)⟩
            · rw [if_neg hcond]
              obtain ⟨P3, g3, hr3⟩ := ih g1 edge.src gates1
              exact ⟨P3, g3, hr3.trans hr1⟩

theorem groupLoop_good {c : Dag} {P : Paths} (g : Good c P) (os : List NodeId) :
    ∃ P', Good (c.groupLoop os).1 P' ∧ (c.groupLoop os).1.regs = c.regs := by
  induction os generalizing c P with
  | nil => exact ⟨P, g, rfl⟩
  | cons o rest ih =>
    unfold groupLoop
    cases ho : c.opOf? o with
    | none => exact ⟨P, g, rfl⟩
    | some op =>
      simp only
      generalize outReg o op = r
      cases he : edgeFromReg (c.inEdges o) r with
      | none => exact ⟨P, g, rfl⟩
      | some e =>
        simp only
        obtain ⟨P1, g1, hr1⟩ := groupWalk_good r (c.nodes.length + 1) g e.src []
        cases hw : groupWalk r (c.nodes.length + 1) c e.src [] with
        | mk c1 err =>
          rw [hw] at g1 hr1
          simp only at g1 hr1
          cases err with
          | some e' => exact ⟨P1, g1, hr1⟩
          | none =>
            obtain ⟨P2, g2, hr2⟩ := ih g1
            exact ⟨P2, g2, hr2.trans hr1⟩

/-- **`group_one_qubit_gates` keeps DagInv** whatever it returns, and never changes the register counts -/
theorem groupOneQubitGates_good {c : Dag} {P : Paths} (g : Good c P) :
    ∃ P', Good c.groupOneQubitGates.1 P' ∧ c.groupOneQubitGates.1.regs = c.regs := by
  unfold groupOneQubitGates
  exact groupLoop_good g _


/-! ### `unwrap_nodes` -/

theorem oneQubit_wf {k : Kind} {r : Reg} (hk : k.isOneQubitBase = true) (hr : r.ty ≠ .c) : OpWF (Op.oneQubit k r) := by
  have hparse : (Op.oneQubit k r).parseQRegTypes = regTypeWord r.ty := rfl
  exact
    { not_input := by intro e; simp [Op.oneQubit] at e; subst e; simp [Kind.isOneQubitBase] at hk
      not_output := by intro e; simp [Op.oneQubit] at e; subst e; simp [Kind.isOneQubitBase] at hk
      qregs_ne := by simp [Op.oneQubit]
      qregs_nodup := by simp [Op.oneQubit]
      cregs_nodup := by simp [Op.oneQubit]
      qregs_quantum := by intro r' hr'; simp [Op.oneQubit] at hr'; subst hr'; exact hr
      wrapper_shape := fun _ => ⟨⟨r, rfl⟩, rfl, by simp [Op.oneQubit]⟩
      wrapper_key := by
        intro hm
        simp only [Op.indexKeys, hparse] at hm
        simp only [Op.oneQubit, List.mem_append, List.mem_cons, List.mem_singleton, List.not_mem_nil, or_false] at hm
        rcases hm with hm | hm | hm
        · exact absurd hm (by decide)
        · show k = .wrapper
          cases k <;> first | rfl | exact absurd hm (by decide)
        · cases hrt : r.ty <;> rw [hrt] at hm <;> exact absurd hm (by decide) }

/-- the in-edges of a one-register operation node: the one edge of its wire -/
theorem inEdges_single {c : Dag} {P : Paths} (g : Good c P) {i : Nat} {w : Op} (hw : (NodeId.op i, w) ∈ c.nodes) {r : Reg}
    (hq : w.qregs = [r]) (hc : w.cregs = []) :
    ∃ a, c.inEdges (.op i) = [⟨a, .op i, r⟩] ∧ (⟨a, .op i, r⟩ : Edge) ∈ c.edges := by
  have hwf := g.inv.op_wf i w hw
  have hrq : r.ty ≠ .c := hwf.qregs_quantum r (by rw [hq]; simp)
  have hon : NodeId.op i ∈ P r := (g.mem.mem_q i w hw r hrq).mpr (by rw [hq]; simp)
  obtain ⟨a, _, ha, _⟩ := g.inv.op_neighbours hon
  have hedge : (⟨a, .op i, r⟩ : Edge) ∈ c.edges := (g.inv.edges_iff _).mpr ha
  refine ⟨a, ?_, hedge⟩
  unfold inEdges
  apply filter_eq_singleton g.inv.edges_nodup hedge (by simp)
  intro e he hd
  have hd : e.dst = .op i := by simpa using hd
  have hc' := (g.inv.edges_iff e).mp he
  rw [hd] at hc'
  have hk : e.key = r := by
    by_cases hty : e.key.ty = .c
    · exfalso
      have : e.key = ⟨.c, e.key.idx⟩ := by cases hk : e.key with | mk t j => simp [hk] at hty; subst hty; rfl
      have hm := hc'.mem.2
      rw [this] at hm
      have := g.mem.mem_c i w hw _ hm
      rw [hc] at this; simp at this
    · have := (g.mem.mem_q i w hw e.key hty).mp hc'.mem.2
      rw [hq] at this; simpa using this
  rw [hk] at hc'
  have := consec_pred_unique (g.inv.nodup r) hc' ha
  obtain ⟨s, d, ky⟩ := e
  simp only at hd hk this
  subst hd hk this; rfl

theorem unwrapOne_good {c : Dag} {P : Paths} (g : Good c P) {i : Nat} {w : Op} (hw : (NodeId.op i, w) ∈ c.nodes) {r : Reg}
    (hq : w.qregs = [r]) (hc : w.cregs = []) (os : List Op)
    (hos : ∀ o ∈ os, OpWF o ∧ o.qregs = [r] ∧ o.cregs = []) :
    (c.unwrapOne (.op i) os).2 = none ∧ ∃ P', Good (c.unwrapOne (.op i) os).1 P' ∧
      (c.unwrapOne (.op i) os).1.regs = c.regs ∧ c.nodeId ≤ (c.unwrapOne (.op i) os).1.nodeId ∧
      (NodeId.op i, w) ∈ (c.unwrapOne (.op i) os).1.nodes ∧
      (∀ m o, (m, o) ∈ (c.unwrapOne (.op i) os).1.nodes → (m, o) ∈ c.nodes ∨ ∃ j, m = NodeId.op j ∧ c.nodeId < j) := by
  induction os generalizing c P with
  | nil => exact ⟨rfl, P, g, rfl, Nat.le_refl _, hw, fun m o h => Or.inl h⟩
  | cons o rest ih =>
    obtain ⟨hwf, hoq, hoc⟩ := hos o (by simp)
    obtain ⟨a, hin, hedge⟩ := inEdges_single g hw hq hc
    unfold unwrapOne
    rw [hin]
    obtain ⟨h1, P1, g1, hr1, hid1, hn1, _⟩ := insertAt_single_good g hwf hoq hoc hedge rfl
    cases hres : c.insertAt o [⟨a, .op i, r⟩] with
    | mk c1 err =>
      rw [hres] at h1 g1 hr1 hid1 hn1
      simp only at h1 g1 hr1 hid1 hn1
      subst h1
      simp only
      have hw1 : (NodeId.op i, w) ∈ c1.nodes := by rw [hn1]; exact List.mem_append_left _ hw
      obtain ⟨b1, P2, g2, b2, b3, b4, b5⟩ := ih g1 hw1 (fun o' ho' => hos o' (List.mem_cons_of_mem _ ho'))
      refine ⟨b1, P2, g2, b2.trans hr1, by omega, b4, ?_⟩
      intro m o' hm
      rcases b5 m o' hm with hm | ⟨j, hj, hlt⟩
      · rw [hn1] at hm
        rcases List.mem_append.mp hm with hm | hm
        · exact Or.inl hm
        · simp at hm; exact Or.inr ⟨c.nodeId + 1, hm.1, by omega⟩
      · exact Or.inr ⟨j, hj, by omega⟩

theorem unwrap_ops_wf {w : Op} (hwf : OpWF w) (hk : w.kind = .wrapper) {r : Reg} (hq : w.qregs = [r]) :
    ∀ o ∈ w.unwrap, OpWF o ∧ o.qregs = [r] ∧ o.cregs = [] := by
  intro o ho
  have hrq : r.ty ≠ .c := hwf.qregs_quantum r (by rw [hq]; simp)
  unfold Op.unwrap at ho
  rw [hk] at ho
  simp only [hq, List.headD_cons] at ho
  obtain ⟨k, hk', rfl⟩ := List.mem_map.mp ho
  have := (hwf.wrapper_shape hk).2.2 k (List.mem_reverse.mp hk')
  exact ⟨oneQubit_wf this hrq, rfl, rfl⟩

theorem unwrapLoop_good {c : Dag} {P : Paths} (g : Good c P) (ns : List NodeId)
    (hns : ∀ n ∈ ns, (∃ j, n = NodeId.op j ∧ j ≤ c.nodeId) ∧ ∀ op, (n, op) ∈ c.nodes → op.kind = .wrapper) :
    ∃ P', Good (c.unwrapLoop ns).1 P' ∧ (c.unwrapLoop ns).1.regs = c.regs := by
  induction ns generalizing c P with
  | nil => exact ⟨P, g, rfl⟩
  | cons n rest ih =>
    obtain ⟨⟨i, rfl, hile⟩, hkind⟩ := hns n (by simp)
    unfold unwrapLoop
    cases ho : c.opOf? (.op i) with
    | none => exact ⟨P, g, rfl⟩
    | some w =>
      simp only
      have hw : (NodeId.op i, w) ∈ c.nodes := (opOf_eq_some g.inv.ids_nodup).mp ho
      have hk := hkind w hw
      have hwf := g.inv.op_wf i w hw
      obtain ⟨⟨r, hq⟩, hc, _⟩ := hwf.wrapper_shape hk
      obtain ⟨a1, P1, g1, a2, a3, a4, a5⟩ := unwrapOne_good g hw hq hc w.unwrap (unwrap_ops_wf hwf hk hq)
      cases hres : c.unwrapOne (.op i) w.unwrap with
      | mk c1 err =>
        rw [hres] at a1 g1 a2 a3 a4 a5
        simp only at a1 g1 a2 a3 a4 a5
        subst a1
        simp only
        obtain ⟨b1, b2, b3, b4⟩ := removeOp_good g1 (mem_nodeIds.mpr ⟨w, a4⟩)
        have hrm := removeOp_eq ((opOf_eq_some g1.inv.ids_nodup).mpr a4)
        cases hres2 : c1.removeOp (.op i) with
        | mk c2 err2 =>
          rw [hres2] at b1 b2 b3 b4 hrm
          simp only at b1 b2 b3 b4
          subst b1
          simp only
          have hn2 : ∀ m o, (m, o) ∈ c2.nodes → (m, o) ∈ c1.nodes := by
            intro m o hm
            have : c2 = c1.removed (.op i) w := by injection hrm
            rw [this] at hm
            have F := removeFacts g1.inv (.op i)
            simp only [removed, F.nodes] at hm
            exact (List.mem_filter.mp hm).1
          have hns' : ∀ n ∈ rest, (∃ j, n = NodeId.op j ∧ j ≤ c2.nodeId) ∧ ∀ op, (n, op) ∈ c2.nodes → op.kind = .wrapper := by
            intro n hn
            obtain ⟨⟨j, rfl, hj⟩, hkj⟩ := hns n (List.mem_cons_of_mem _ hn)
            refine ⟨⟨j, rfl, by omega⟩, ?_⟩
            intro op hop
            rcases a5 _ _ (hn2 _ _ hop) with h | ⟨j', hj', hlt⟩
            · exact hkj op h
            · injection hj' with hj'; omega
          obtain ⟨P3, g3, hr3⟩ := ih b2 hns'
          exact ⟨P3, g3, hr3.trans (b3.trans a2)⟩

/-- **`unwrap_nodes` keeps DagInv** and the register counts -/
theorem unwrapNodes_good {c : Dag} {P : Paths} (g : Good c P) :
    ∃ P', Good c.unwrapNodes.1 P' ∧ c.unwrapNodes.1.regs = c.regs := by
  unfold unwrapNodes
  by_cases hh : dictHas c.nodeDict "OneQubitGateWrapper" = true
  · rw [if_pos hh]
    apply unwrapLoop_good g
    intro n hn
    obtain ⟨i, rfl⟩ := g.inv.nodeDict_ops (by decide) (by decide) hn
    obtain ⟨op, hop, hkey⟩ := g.inv.mem_nodeDict hn
    refine ⟨⟨i, rfl, (g.inv.op_range i (mem_nodeIds.mpr ⟨op, hop⟩)).2⟩, ?_⟩
    intro op' hop'
    have h1 := (opOf_eq_some g.inv.ids_nodup).mpr hop
    have h2 := (opOf_eq_some g.inv.ids_nodup).mpr hop'
    rw [h1] at h2; injection h2 with h2; subst h2
    exact (g.inv.op_wf i op hop).wrapper_key hkey
  · rw [if_neg hh]; exact ⟨P, g, rfl⟩


/-! ## what DagInv says about the graph -/

/-- a node without in-edges is a register input, and conversely -/
theorem Good.source_iff {c : Dag} {P : Paths} (g : Good c P) {n : NodeId} (hn : n ∈ c.nodeIds) :
    (∀ a, ¬ c.E a n) ↔ ∃ r, n = .inp r := by
  constructor
  · intro hsrc
    cases n with
    | inp r => exact ⟨r, rfl⟩
    | out r =>
      exfalso
      have hl := (g.inv.out_iff r).mp hn
      exact hsrc _ ⟨lastEdge P r, g.inv.lastEdge_mem hl, rfl, rfl⟩
    | op i =>
      exfalso
      obtain ⟨op, hop⟩ := mem_nodeIds.mp hn
      have hwf := g.inv.op_wf i op hop
      obtain ⟨k, hk⟩ := List.exists_mem_of_ne_nil _ hwf.qregs_ne
      have hon := (g.mem.mem_q i op hop k (hwf.qregs_quantum k hk)).mpr hk
      obtain ⟨a, _, ha, _⟩ := g.inv.op_neighbours hon
      exact hsrc a ⟨⟨a, .op i, k⟩, (g.inv.edges_iff _).mpr ha, rfl, rfl⟩
  · rintro ⟨r, rfl⟩ a; exact g.inv.inp_source r a

/-- a node without out-edges is a register output, and conversely -/
theorem Good.sink_iff {c : Dag} {P : Paths} (g : Good c P) {n : NodeId} (hn : n ∈ c.nodeIds) :
    (∀ b, ¬ c.E n b) ↔ ∃ r, n = .out r := by
  constructor
  · intro hsnk
    cases n with
    | out r => exact ⟨r, rfl⟩
    | inp r =>
      exfalso
      have hl := (g.inv.inp_iff r).mp hn
      obtain ⟨mid, hP, _⟩ := g.inv.shape r hl
      have : ∃ y, Consec (P r) (.inp r) y := by
        rw [hP]
        cases mid with
        | nil => exact ⟨.out r, by simp [consec_cons_cons]⟩
        | cons m t => exact ⟨m, by simp [consec_cons_cons]⟩
      obtain ⟨y, hy⟩ := this
      exact hsnk y ⟨⟨.inp r, y, r⟩, (g.inv.edges_iff _).mpr hy, rfl, rfl⟩
    | op i =>
      exfalso
      obtain ⟨op, hop⟩ := mem_nodeIds.mp hn
      have hwf := g.inv.op_wf i op hop
      obtain ⟨k, hk⟩ := List.exists_mem_of_ne_nil _ hwf.qregs_ne
      have hon := (g.mem.mem_q i op hop k (hwf.qregs_quantum k hk)).mpr hk
      obtain ⟨_, b, _, hb⟩ := g.inv.op_neighbours hon
      exact hsnk b ⟨⟨.op i, b, k⟩, (g.inv.edges_iff _).mpr hb, rfl, rfl⟩
  · rintro ⟨r, rfl⟩ b; exact g.inv.out_sink r b

/-- number of input nodes of a type = the register count of that type -/
theorem Inv.input_count {c : Dag} {P : Paths} (h : Inv c P) (t : RegType) :
    (c.nodeIds.filter (fun n => match n with | .inp r => r.ty = t | _ => false)).length = c.regs t := by
  let f := fun n : NodeId => match n with | .inp r => decide (r.ty = t) | _ => false
  have hnd1 : (c.nodeIds.filter f).Nodup := h.ids_nodup.filter _
  let l2 := (List.range (c.regs t)).map (fun j => NodeId.inp ⟨t, j⟩)
  have hnd2 : l2.Nodup := nodup_map_of_inj (fun a b e => by injection e with e; injection e) List.nodup_range
  have hsub1 : c.nodeIds.filter f ⊆ l2 := by
    intro n hn
    obtain ⟨hn1, hn2⟩ := List.mem_filter.mp hn
    cases n with
    | inp r =>
      have hrt : r.ty = t := by simpa [f] using hn2
      have hl := (h.inp_iff r).mp hn1
      apply List.mem_map.mpr
      refine ⟨r.idx, ?_, ?_⟩
      · rw [List.mem_range]; unfold live at hl; rw [hrt] at hl; exact hl
      · cases r; simp at hrt; subst hrt; rfl
    | out r => simp [f] at hn2
    | op i => simp [f] at hn2
  have hsub2 : l2 ⊆ c.nodeIds.filter f := by
    intro n hn
    obtain ⟨j, hj, rfl⟩ := List.mem_map.mp hn
    rw [List.mem_range] at hj
    apply List.mem_filter.mpr
    exact ⟨(h.inp_iff ⟨t, j⟩).mpr hj, by simp [f]⟩
  have h1 := hnd1.length_le_of_subset hsub1
  have h2 := hnd2.length_le_of_subset hsub2
  have hlen : l2.length = c.regs t := by simp [l2]
  show (c.nodeIds.filter f).length = c.regs t
  omega

/-! ## `find_incompatible_edges` under the networkx specification -/

/-- recorded specification of `nx.ancestors(G, n)`: the nodes with a non-empty path to `n` -/
def AncSpec (c : Dag) (n : NodeId) (anc : List NodeId) : Prop := ∀ x, x ∈ anc ↔ TransGen c.E x n

/-- recorded specification of `nx.descendants(G, n)`: the nodes reachable from `n` by a non-empty path -/
def DescSpec (c : Dag) (n : NodeId) (desc : List NodeId) : Prop := ∀ x, x ∈ desc ↔ TransGen c.E n x

/-- an edge the circuit does **not** report incompatible with `first` has no path from the head of `first` to its
    tail and none from its head to the tail of `first` — exactly the hypotheses of `InsertOK.compat` -/
theorem compatible_no_path {c : Dag} {first e2 : Edge} {anc desc : List NodeId} {L : List Edge}
    (hanc : AncSpec c first.src anc) (hdesc : DescSpec c first.dst desc)
    (hL : c.findIncompatibleEdgesWith anc desc first = .ok L) (he2 : e2 ∈ c.edges) (hcompat : e2 ∉ L) :
    ¬ ReflTransGen c.E first.dst e2.src ∧ ¬ ReflTransGen c.E e2.dst first.src := by
  unfold findIncompatibleEdgesWith at hL
  split at hL
  · simp at hL
  · injection hL with hL
    subst hL
    rw [List.mem_eraseDups] at hcompat
    simp only [List.mem_append, List.mem_cons, List.mem_flatMap, not_or] at hcompat
    constructor
    · intro hr
      rcases reflTransGen_iff_eq_or_transGen.mp hr with heq | ht
      · exact hcompat.2.1 (by simp [outEdges, he2, heq])
      · exact hcompat.2.2 ⟨e2.src, (hdesc _).mpr ht, by simp [outEdges, he2]⟩
    · intro hr
      rcases reflTransGen_iff_eq_or_transGen.mp hr with heq | ht
      · exact hcompat.1.2.1 (by simp [inEdges, he2, heq])
      · have : TransGen c.E e2.src first.src := TransGen.head ⟨e2, he2, rfl, rfl⟩ ht
        exact hcompat.1.2.2 ⟨e2.src, (hanc _).mpr this, by simp [outEdges, he2]⟩

/-! ## any linear extension runs along every wire in wire order -/

/-- recorded specification of `nx.topological_sort`: position function `pos` of a linear extension -/
def LinearExt (c : Dag) (pos : NodeId → Nat) : Prop := ∀ e ∈ c.edges, pos e.src < pos e.dst

theorem pos_lt_of_before {c : Dag} {P : Paths} (h : Inv c P) {pos : NodeId → Nat} (hlin : LinearExt c pos) (k : Reg) :
    ∀ (l1 l2 l3 : List NodeId) (x y : NodeId), P k = l1 ++ x :: (l2 ++ y :: l3) → pos x < pos y := by
  intro l1 l2
  induction l2 generalizing l1 with
  | nil =>
    intro l3 x y hP
    have hc : Consec (P k) x y := consec_iff_append.mpr ⟨l1, l3, by simpa using hP⟩
    exact hlin ⟨x, y, k⟩ ((h.edges_iff ⟨x, y, k⟩).mpr hc)
  | cons z t ih =>
    intro l3 x y hP
    have hc : Consec (P k) x z := consec_iff_append.mpr ⟨l1, t ++ y :: l3, by simpa using hP⟩
    have h1 : pos x < pos z := hlin ⟨x, z, k⟩ ((h.edges_iff ⟨x, z, k⟩).mpr hc)
    have h2 : pos z < pos y := ih (l1 ++ [x]) l3 z y (by simpa using hP)
    omega

end Dag
end Graphiq
