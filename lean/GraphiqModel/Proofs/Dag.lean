/-
  Dag.lean — invariants of the circuit-DAG model and their preservation by the primitives of circuit_dag.py.

  `Inv c P`   : structural consistency of the concrete state `c` with respect to the abstract per-register wires
                `P : Reg → List NodeId` (the full path `inp k, …, out k` of every live register `k`): the keyed edges are
                exactly the consecutive pairs of the wires, nodes/ids/registers agree, both indexes agree with the graph.
  `Mem c P`   : the wire of a quantum register visits exactly the operation nodes acting on it (classical: only such).
  `Acyclic c` : no directed cycle.
-/
import GraphiqModel.Proofs.DagBasic
set_option linter.unusedSectionVars false
set_option linter.unusedSimpArgs false
namespace Graphiq
namespace Dag
open Relation

/-! ## basic definitions -/

/-- register `k` exists in the circuit -/
def live (c : Dag) (k : Reg) : Prop := k.idx < c.regs k.ty

instance (c : Dag) (k : Reg) : Decidable (c.live k) := by unfold live; infer_instance

/-- the edge relation of the graph -/
def E (c : Dag) (a b : NodeId) : Prop := ∃ e ∈ c.edges, e.src = a ∧ e.dst = b

def Acyclic (c : Dag) : Prop := AcyclicRel c.E

abbrev Paths := Reg → List NodeId

def setPath (P : Paths) (k : Reg) (l : List NodeId) : Paths := fun k' => if k' = k then l else P k'

@[simp] theorem setPath_same (P : Paths) (k : Reg) (l : List NodeId) : setPath P k l k = l := by simp [setPath]
theorem setPath_other (P : Paths) {k k' : Reg} (l : List NodeId) (h : k' ≠ k) : setPath P k l k' = P k' := by
  simp [setPath, h]

/-- the `node_dict` keys of a node -/
def indexKeysOf (n : NodeId) (op : Op) : List String :=
  match n with
  | .inp _ => ["Input"]
  | .out _ => ["Output"]
  | .op _ => op.indexKeys

/-- how often node `n` must be listed under label `l` -/
def indexCount (c : Dag) (n : NodeId) (l : String) : Nat :=
  match c.opOf? n with
  | some op => (indexKeysOf n op).count l
  | none => 0

/-- well-formed operation argument of an edit: a gate (not an I/O marker) on at least one, pairwise distinct,
    quantum registers (`OperationBase` asserts the register types are "e"/"p") -/
structure OpWF (op : Op) : Prop where
  not_input : op.kind ≠ .input
  not_output : op.kind ≠ .output
  qregs_ne : op.qregs ≠ []
  qregs_nodup : op.qregs.Nodup
  cregs_nodup : op.cregs.Nodup
  qregs_quantum : ∀ r ∈ op.qregs, r.ty ≠ .c

structure Inv (c : Dag) (P : Paths) : Prop where
  edges_nodup : c.edges.Nodup
  edges_iff : ∀ e, e ∈ c.edges ↔ Consec (P e.key) e.src e.dst
  dead : ∀ k, ¬ c.live k → P k = []
  shape : ∀ k, c.live k → ∃ mid, P k = .inp k :: (mid ++ [.out k]) ∧ ∀ n ∈ mid, ∃ i, n = NodeId.op i
  nodup : ∀ k, (P k).Nodup
  mem_nodes : ∀ k n, n ∈ P k → n ∈ c.nodeIds
  edgeDict_ok : ∀ t e, (dictGet c.edgeDict t).count e = if e ∈ c.edges ∧ e.key.ty = t then 1 else 0
  ids_nodup : c.nodeIds.Nodup
  inp_iff : ∀ r, NodeId.inp r ∈ c.nodeIds ↔ c.live r
  out_iff : ∀ r, NodeId.out r ∈ c.nodeIds ↔ c.live r
  inp_op : ∀ r op, (NodeId.inp r, op) ∈ c.nodes → op = Op.io .input r
  out_op : ∀ r op, (NodeId.out r, op) ∈ c.nodes → op = Op.io .output r
  op_range : ∀ i, NodeId.op i ∈ c.nodeIds → 1 ≤ i ∧ i ≤ c.nodeId
  op_wf : ∀ i op, (NodeId.op i, op) ∈ c.nodes → OpWF op
  nodeDict_ok : ∀ l n, (dictGet c.nodeDict l).count n = c.indexCount n l

/-- the wire of a quantum register visits exactly the operations acting on it; a classical wire only such -/
structure Mem (c : Dag) (P : Paths) : Prop where
  mem_q : ∀ i op, (NodeId.op i, op) ∈ c.nodes → ∀ k, k.ty ≠ .c → (NodeId.op i ∈ P k ↔ k ∈ op.qregs)
  mem_c : ∀ i op, (NodeId.op i, op) ∈ c.nodes → ∀ r, NodeId.op i ∈ P ⟨.c, r⟩ → r ∈ op.cregs

/-- all three together, for given wires -/
structure Good (c : Dag) (P : Paths) : Prop where
  inv : Inv c P
  mem : Mem c P
  acyc : Acyclic c

/-- **DagInv** of DESIGN §4 C12 -/
def DagInv (c : Dag) : Prop := ∃ P, Good c P

/-! ## projections of the primitives -/

@[simp] theorem addEdge_nodes (c : Dag) (u v k) : (c.addEdge u v k).nodes = c.nodes := rfl
@[simp] theorem addEdge_nodeDict (c : Dag) (u v k) : (c.addEdge u v k).nodeDict = c.nodeDict := rfl
@[simp] theorem addEdge_nodeId (c : Dag) (u v k) : (c.addEdge u v k).nodeId = c.nodeId := rfl
@[simp] theorem addEdge_regs (c : Dag) (u v k) : (c.addEdge u v k).regs = c.regs := by funext t; cases t <;> rfl
@[simp] theorem removeEdge_nodes (c : Dag) (e) : (c.removeEdge e).nodes = c.nodes := rfl
@[simp] theorem removeEdge_nodeDict (c : Dag) (e) : (c.removeEdge e).nodeDict = c.nodeDict := rfl
@[simp] theorem removeEdge_nodeId (c : Dag) (e) : (c.removeEdge e).nodeId = c.nodeId := rfl
@[simp] theorem removeEdge_regs (c : Dag) (e) : (c.removeEdge e).regs = c.regs := by funext t; cases t <;> rfl
@[simp] theorem splice_nodes (c : Dag) (n e) : (c.splice n e).nodes = c.nodes := rfl
@[simp] theorem splice_nodeDict (c : Dag) (n e) : (c.splice n e).nodeDict = c.nodeDict := rfl
@[simp] theorem splice_nodeId (c : Dag) (n e) : (c.splice n e).nodeId = c.nodeId := rfl
@[simp] theorem splice_regs (c : Dag) (n e) : (c.splice n e).regs = c.regs := by funext t; cases t <;> rfl

theorem nodeIds_eq_of_nodes {c c' : Dag} (h : c'.nodes = c.nodes) : c'.nodeIds = c.nodeIds := by simp [nodeIds, h]
theorem opOf_eq_of_nodes {c c' : Dag} (h : c'.nodes = c.nodes) (n : NodeId) : c'.opOf? n = c.opOf? n := by
  simp [opOf?, h]
theorem indexCount_eq_of_nodes {c c' : Dag} (h : c'.nodes = c.nodes) (n : NodeId) (l : String) :
    c'.indexCount n l = c.indexCount n l := by simp [indexCount, opOf_eq_of_nodes h]
theorem live_eq_of_regs {c c' : Dag} (h : c'.regs = c.regs) (k : Reg) : c'.live k ↔ c.live k := by simp [live, h]

theorem mem_addEdge (c : Dag) (u v : NodeId) (k : Reg) (e : Edge) :
    e ∈ (c.addEdge u v k).edges ↔ e ∈ c.edges ∨ e = ⟨u, v, k⟩ := by
  unfold addEdge
  by_cases h : (⟨u, v, k⟩ : Edge) ∈ c.edges
  · simp only [h, if_true]
    constructor
    · exact Or.inl
    · rintro (h' | rfl); exact h'; exact h
  · simp [h]

theorem mem_removeEdge_imp (c : Dag) (e e' : Edge) (h : e' ∈ (c.removeEdge e).edges) : e' ∈ c.edges :=
  List.mem_of_mem_erase h

theorem mem_splice_imp (c : Dag) (n : NodeId) (e e' : Edge) (h : e' ∈ (c.splice n e).edges) :
    e' ∈ c.edges ∨ e' = ⟨e.src, n, e.key⟩ ∨ e' = ⟨n, e.dst, e.key⟩ := by
  have h1 := mem_removeEdge_imp _ _ _ h
  rw [mem_addEdge, mem_addEdge] at h1
  tauto

/-! ## the splice step -/

theorem insertAfter_append_of_mem {α : Type} [DecidableEq α] {l1 l2 : List α} {u n : α} (hu : u ∈ l1) :
    insertAfter (l1 ++ l2) u n = insertAfter l1 u n ++ l2 := by
  induction l1 with
  | nil => simp at hu
  | cons a t ih =>
    by_cases h : a = u
    · simp [insertAfter, h]
    · have : u ∈ t := by
        rcases List.mem_cons.mp hu with e | e
        · exact absurd e.symm h
        · exact e
      simp [insertAfter, h, ih this]

theorem Inv.live_of_edge {c : Dag} {P : Paths} (h : Inv c P) {e : Edge} (he : e ∈ c.edges) : c.live e.key := by
  by_cases hl : c.live e.key
  · exact hl
  · have := (h.edges_iff e).mp he
    rw [h.dead _ hl] at this
    simp at this

theorem Inv.src_ne_out {c : Dag} {P : Paths} (h : Inv c P) {e : Edge} (he : e ∈ c.edges) : e.src ≠ .out e.key := by
  intro hsrc
  obtain ⟨mid, hP, _⟩ := h.shape _ (h.live_of_edge he)
  have hc := (h.edges_iff e).mp he
  have hn := h.nodup e.key
  rw [hP, hsrc] at hc
  rw [hP] at hn
  have e1 : NodeId.inp e.key :: (mid ++ [NodeId.out e.key]) = (NodeId.inp e.key :: mid) ++ [NodeId.out e.key] := by simp
  rw [e1] at hc hn
  exact consec_last_no_succ hn hc

theorem Inv.dst_ne_inp {c : Dag} {P : Paths} (h : Inv c P) {e : Edge} (he : e ∈ c.edges) : e.dst ≠ .inp e.key := by
  intro hdst
  obtain ⟨mid, hP, _⟩ := h.shape _ (h.live_of_edge he)
  have hc := (h.edges_iff e).mp he
  have hn := h.nodup e.key
  rw [hP, hdst] at hc
  rw [hP] at hn
  exact consec_head_no_pred hn hc

theorem count_singleton_ne {α : Type} [DecidableEq α] {a b : α} (h : a ≠ b) : [a].count b = 0 := by
  simp [List.count_cons, h]

theorem prop_splice {A B C D : Prop} (hB : B → ¬ D) (hC : C → ¬ D) :
    ((A ∨ B ∨ C) ∧ ¬ D) ↔ ((A ∧ ¬ D) ∨ B ∨ C) := by tauto

theorem prop_other {A B C D : Prop} (hB : ¬ B) (hC : ¬ C) (hD : ¬ D) : ((A ∨ B ∨ C) ∧ ¬ D) ↔ A := by tauto

/-- hypotheses of a splice step, unpacked -/
structure SpliceHyp (c : Dag) (P : Paths) (n u v : NodeId) (k : Reg) : Prop where
  inv : Inv c P
  he : (⟨u, v, k⟩ : Edge) ∈ c.edges
  hnodes : n ∈ c.nodeIds
  hnP : n ∉ P k

namespace SpliceHyp
variable {c : Dag} {P : Paths} {n u v : NodeId} {k : Reg} (H : SpliceHyp c P n u v k)
include H

theorem cons : Consec (P k) u v := (H.inv.edges_iff ⟨u, v, k⟩).mp H.he
theorem nu : n ≠ u := fun e => H.hnP (e ▸ H.cons.mem.1)
theorem nv : n ≠ v := fun e => H.hnP (e ▸ H.cons.mem.2)
theorem e1_notin : (⟨u, n, k⟩ : Edge) ∉ c.edges := fun hm => H.hnP ((H.inv.edges_iff ⟨u, n, k⟩).mp hm).mem.2
theorem e2_notin : (⟨n, v, k⟩ : Edge) ∉ c.edges := fun hm => H.hnP ((H.inv.edges_iff ⟨n, v, k⟩).mp hm).mem.1
theorem e12 : (⟨n, v, k⟩ : Edge) ≠ ⟨u, n, k⟩ := by intro e; injection e with e _ _; exact H.nu e

theorem edges_eq : (c.splice n ⟨u, v, k⟩).edges =
    ((c.edges ++ [(⟨u, n, k⟩ : Edge)]) ++ [(⟨n, v, k⟩ : Edge)]).erase ⟨u, v, k⟩ := by
  simp only [splice, addEdge, removeEdge]
  have he2' : (⟨n, v, k⟩ : Edge) ∉ c.edges ++ [⟨u, n, k⟩] := by
    intro hm
    rcases List.mem_append.mp hm with hm | hm
    · exact H.e2_notin hm
    · exact H.e12 (List.mem_singleton.mp hm)
  rw [if_neg H.e1_notin, if_neg he2']

theorem nodup2 : ((c.edges ++ [(⟨u, n, k⟩ : Edge)]) ++ [(⟨n, v, k⟩ : Edge)]).Nodup := by
  rw [List.nodup_append]
  refine ⟨?_, by simp, ?_⟩
  · rw [List.nodup_append]
    refine ⟨H.inv.edges_nodup, by simp, ?_⟩
    intro a ha b hb; simp at hb; subst hb; intro e; subst e; exact H.e1_notin ha
  · intro a ha b hb; simp at hb; subst hb; intro e; subst e
    rcases List.mem_append.mp ha with ha | ha
    · exact H.e2_notin ha
    · exact H.e12 (List.mem_singleton.mp ha)

theorem mem_iff (e' : Edge) : e' ∈ (c.splice n ⟨u, v, k⟩).edges ↔
    (e' ∈ c.edges ∨ e' = ⟨u, n, k⟩ ∨ e' = ⟨n, v, k⟩) ∧ e' ≠ ⟨u, v, k⟩ := by
  rw [H.edges_eq, H.nodup2.mem_erase_iff]
  simp only [List.mem_append, List.mem_singleton]
  constructor
  · rintro ⟨h1, (h2 | h2) | h2⟩
    · exact ⟨Or.inl h2, h1⟩
    · exact ⟨Or.inr (Or.inl h2), h1⟩
    · exact ⟨Or.inr (Or.inr h2), h1⟩
  · rintro ⟨h2 | h2 | h2, h1⟩
    · exact ⟨h1, Or.inl (Or.inl h2)⟩
    · exact ⟨h1, Or.inl (Or.inr h2)⟩
    · exact ⟨h1, Or.inr h2⟩

theorem edges_iff (e' : Edge) : e' ∈ (c.splice n ⟨u, v, k⟩).edges ↔
    Consec (setPath P k (insertAfter (P k) u n) e'.key) e'.src e'.dst := by
  rw [H.mem_iff]
  by_cases hk : e'.key = k
  · obtain ⟨x, y, k'⟩ := e'
    simp only at hk; subst hk
    simp only [setPath_same]
    rw [consec_insertAfter (H.inv.nodup k') H.cons H.hnP, ← H.inv.edges_iff ⟨x, y, k'⟩]
    simp only [Edge.mk.injEq, ne_eq, and_true]
    exact prop_splice (fun ⟨_, h1⟩ ⟨_, h2⟩ => H.nv (h1.symm.trans h2)) (fun ⟨h1, _⟩ ⟨h2, _⟩ => H.nu (h1.symm.trans h2))
  · rw [setPath_other _ _ hk, ← H.inv.edges_iff e']
    exact prop_other (fun e => hk (by rw [e])) (fun e => hk (by rw [e])) (fun e => hk (by rw [e]))

theorem edgeDict_ok (t : RegType) (e' : Edge) :
    (dictGet (c.splice n ⟨u, v, k⟩).edgeDict t).count e' =
      if e' ∈ (c.splice n ⟨u, v, k⟩).edges ∧ e'.key.ty = t then 1 else 0 := by
  have hedict : (c.splice n ⟨u, v, k⟩).edgeDict =
      dictRemove (dictAppend (dictAppend c.edgeDict k.ty ⟨u, n, k⟩) k.ty ⟨n, v, k⟩) k.ty ⟨u, v, k⟩ := rfl
  rw [hedict, dictGet_dictRemove]
  have hm := H.mem_iff e'
  by_cases ht : t = k.ty
  · subst ht
    rw [if_pos rfl, dictGet_dictAppend, if_pos rfl, dictGet_dictAppend, if_pos rfl, List.count_erase, List.count_append,
      List.count_append, H.inv.edgeDict_ok]
    have huv1 : (⟨u, v, k⟩ : Edge) ≠ ⟨u, n, k⟩ := by intro e; injection e with _ e _; exact H.nv e.symm
    have huv2 : (⟨u, v, k⟩ : Edge) ≠ ⟨n, v, k⟩ := by intro e; injection e with e _ _; exact H.nu e.symm
    by_cases c0 : e' = ⟨u, v, k⟩
    · subst c0
      have hr : ¬ ((⟨u, v, k⟩ : Edge) ∈ (c.splice n ⟨u, v, k⟩).edges ∧ (⟨u, v, k⟩ : Edge).key.ty = k.ty) := by
        rw [hm]; intro h; exact h.1.2 rfl
      rw [if_neg hr, if_pos ⟨H.he, rfl⟩, count_singleton_ne (Ne.symm huv1), count_singleton_ne (Ne.symm huv2)]
      simp
    · have c0' : ¬ ((⟨u, v, k⟩ : Edge) == e') = true := by simpa using fun e => c0 e.symm
      rw [if_neg c0', Nat.sub_zero]
      by_cases c1 : e' = ⟨u, n, k⟩
      · subst c1
        have hr : ((⟨u, n, k⟩ : Edge) ∈ (c.splice n ⟨u, v, k⟩).edges ∧ (⟨u, n, k⟩ : Edge).key.ty = k.ty) := by
          rw [hm]; exact ⟨⟨Or.inr (Or.inl rfl), c0⟩, rfl⟩
        have hl : ¬ ((⟨u, n, k⟩ : Edge) ∈ c.edges ∧ (⟨u, n, k⟩ : Edge).key.ty = k.ty) := fun h => H.e1_notin h.1
        rw [if_pos hr, if_neg hl, count_singleton_ne H.e12]
        simp
      · by_cases c2 : e' = ⟨n, v, k⟩
        · subst c2
          have hr : ((⟨n, v, k⟩ : Edge) ∈ (c.splice n ⟨u, v, k⟩).edges ∧ (⟨n, v, k⟩ : Edge).key.ty = k.ty) := by
            rw [hm]; exact ⟨⟨Or.inr (Or.inr rfl), c0⟩, rfl⟩
          have hl : ¬ ((⟨n, v, k⟩ : Edge) ∈ c.edges ∧ (⟨n, v, k⟩ : Edge).key.ty = k.ty) := fun h => H.e2_notin h.1
          rw [if_pos hr, if_neg hl, count_singleton_ne (Ne.symm H.e12)]
          simp
        · rw [count_singleton_ne (Ne.symm c1), count_singleton_ne (Ne.symm c2)]
          simp only [Nat.add_zero]
          have hiff : (e' ∈ (c.splice n ⟨u, v, k⟩).edges ∧ e'.key.ty = k.ty) ↔ (e' ∈ c.edges ∧ e'.key.ty = k.ty) := by
            rw [hm]
            constructor
            · rintro ⟨⟨h1 | h1 | h1, _⟩, h2⟩
              · exact ⟨h1, h2⟩
              · exact absurd h1 c1
              · exact absurd h1 c2
            · rintro ⟨h1, h2⟩; exact ⟨⟨Or.inl h1, c0⟩, h2⟩
          by_cases hc : e' ∈ c.edges ∧ e'.key.ty = k.ty
          · rw [if_pos hc, if_pos (hiff.mpr hc)]
          · rw [if_neg hc, if_neg (fun h => hc (hiff.mp h))]
  · rw [if_neg ht, dictGet_dictAppend, if_neg ht, dictGet_dictAppend, if_neg ht, H.inv.edgeDict_ok]
    have ht' : ¬ k.ty = t := fun e => ht e.symm
    have hiff : (e' ∈ (c.splice n ⟨u, v, k⟩).edges ∧ e'.key.ty = t) ↔ (e' ∈ c.edges ∧ e'.key.ty = t) := by
      rw [hm]
      constructor
      · rintro ⟨⟨h1 | h1 | h1, _⟩, h2⟩
        · exact ⟨h1, h2⟩
        · exact absurd (by rw [← h2, h1]) ht'
        · exact absurd (by rw [← h2, h1]) ht'
      · rintro ⟨h1, h2⟩
        exact ⟨⟨Or.inl h1, fun e => ht' (by rw [← h2, e])⟩, h2⟩
    by_cases hc : e' ∈ c.edges ∧ e'.key.ty = t
    · rw [if_pos hc, if_pos (hiff.mpr hc)]
    · rw [if_neg hc, if_neg (fun h => hc (hiff.mp h))]

end SpliceHyp

/-- put node `n` (an operation node of the circuit, not yet on the wire) on the edge `e`: all structural
    invariants survive with `n` inserted after `e.src` on the wire of `e.key` -/
theorem splice_inv {c : Dag} {P : Paths} (h : Inv c P) {e : Edge} (he : e ∈ c.edges) {n : NodeId} {i : Nat}
    (hn : n = .op i) (hnodes : n ∈ c.nodeIds) (hnP : n ∉ P e.key) :
    Inv (c.splice n e) (setPath P e.key (insertAfter (P e.key) e.src n)) := by
  obtain ⟨u, v, k⟩ := e
  simp only at hnP ⊢
  have H : SpliceHyp c P n u v k := ⟨h, he, hnodes, hnP⟩
  have hlive : c.live k := h.live_of_edge he
  have hu : u ∈ P k := H.cons.mem.1
  refine
    { edges_nodup := by rw [H.edges_eq]; exact H.nodup2.erase _
      edges_iff := H.edges_iff
      dead := ?_
      shape := ?_
      nodup := ?_
      mem_nodes := ?_
      edgeDict_ok := H.edgeDict_ok
      ids_nodup := by simpa [nodeIds] using h.ids_nodup
      inp_iff := by intro r; simpa [nodeIds, live] using h.inp_iff r
      out_iff := by intro r; simpa [nodeIds, live] using h.out_iff r
      inp_op := by intro r op; simpa using h.inp_op r op
      out_op := by intro r op; simpa using h.out_op r op
      op_range := by intro j; simpa [nodeIds] using h.op_range j
      op_wf := by intro j op; simpa using h.op_wf j op
      nodeDict_ok := by
        intro l m
        rw [splice_nodeDict, indexCount_eq_of_nodes (splice_nodes c n _)]
        exact h.nodeDict_ok l m }
  · -- dead
    intro k' hk'
    have hk' : ¬ c.live k' := by simpa [live] using hk'
    have : k' ≠ k := fun e => hk' (e ▸ hlive)
    rw [setPath_other _ _ this]; exact h.dead k' hk'
  · -- shape
    intro k' hk'
    have hk' : c.live k' := by simpa [live] using hk'
    by_cases hkk : k' = k
    · subst hkk
      obtain ⟨mid, hP, hmid⟩ := h.shape _ hlive
      simp only [setPath_same]
      rw [hP]
      by_cases hu0 : NodeId.inp k' = u
      · refine ⟨n :: mid, by simp [insertAfter, hu0], ?_⟩
        intro m hm; rcases List.mem_cons.mp hm with rfl | hm
        · exact ⟨i, hn⟩
        · exact hmid m hm
      · have hu' : u ∈ mid := by
          rw [hP] at hu
          rcases List.mem_cons.mp hu with e | hu
          · exact absurd e.symm hu0
          · rcases List.mem_append.mp hu with hu | hu
            · exact hu
            · simp at hu
              exact absurd hu (h.src_ne_out he)
        refine ⟨insertAfter mid u n, ?_, ?_⟩
        · simp [insertAfter, hu0, insertAfter_append_of_mem hu']
        · intro m hm
          rcases (mem_insertAfter hu').mp hm with hm | rfl
          · exact hmid m hm
          · exact ⟨i, hn⟩
    · rw [setPath_other _ _ hkk]; exact h.shape k' hk'
  · -- nodup
    intro k'
    by_cases hkk : k' = k
    · subst hkk; simp only [setPath_same]; exact insertAfter_nodup (h.nodup k') hnP
    · rw [setPath_other _ _ hkk]; exact h.nodup k'
  · -- mem_nodes
    intro k' m hm
    rw [nodeIds_eq_of_nodes (splice_nodes c n _)]
    by_cases hkk : k' = k
    · subst hkk
      simp only [setPath_same] at hm
      rcases (mem_insertAfter hu).mp hm with hm | rfl
      · exact h.mem_nodes _ m hm
      · exact hnodes
    · rw [setPath_other _ _ hkk] at hm; exact h.mem_nodes k' m hm


/-! ## node lookups -/

theorem mem_nodeIds {c : Dag} {n : NodeId} : n ∈ c.nodeIds ↔ ∃ op, (n, op) ∈ c.nodes := by
  simp [nodeIds]

theorem hasNode_iff {c : Dag} {n : NodeId} : c.hasNode n = true ↔ n ∈ c.nodeIds := by
  simp [hasNode]

theorem find_fst_of_nodup {l : List (NodeId × Op)} (hnd : (l.map (·.1)).Nodup) {n : NodeId} {op : Op}
    (h : (n, op) ∈ l) : l.find? (fun p => p.1 = n) = some (n, op) := by
  induction l with
  | nil => simp at h
  | cons a t ih =>
    have hnd' : a.1 ∉ t.map (·.1) ∧ (t.map (·.1)).Nodup := by
      rw [List.map_cons] at hnd; exact List.nodup_cons.mp hnd
    rcases List.mem_cons.mp h with rfl | h
    · simp
    · have : a.1 ≠ n := by
        intro e
        apply hnd'.1
        rw [e]
        exact List.mem_map.mpr ⟨(n, op), h, rfl⟩
      simp [List.find?_cons, this, ih hnd'.2 h]

theorem opOf_eq_some {c : Dag} (hnd : c.nodeIds.Nodup) {n : NodeId} {op : Op} :
    c.opOf? n = some op ↔ (n, op) ∈ c.nodes := by
  constructor
  · intro h
    unfold opOf? at h
    split at h
    · rename_i p hp
      have := List.find?_some hp
      have hm := List.mem_of_find?_eq_some hp
      simp at this h
      subst h; rw [← this]; exact hm
    · simp at h
  · intro h
    unfold opOf?
    rw [find_fst_of_nodup hnd h]

theorem opOf_eq_none {c : Dag} {n : NodeId} : c.opOf? n = none ↔ n ∉ c.nodeIds := by
  unfold opOf?
  constructor
  · intro h hm
    obtain ⟨op, hop⟩ := mem_nodeIds.mp hm
    split at h
    · simp at h
    · rename_i hf
      have := List.find?_eq_none.mp hf (n, op) hop
      simp at this
  · intro h
    split
    · rename_i p hp
      have hm := List.mem_of_find?_eq_some hp
      have := List.find?_some hp
      simp at this
      exact absurd (mem_nodeIds.mpr ⟨p.2, by rw [← this]; exact hm⟩) h
    · rfl

/-! ## `_unique_node_id` + `_add_node` -/

theorem Inv.op_fresh {c : Dag} {P : Paths} (h : Inv c P) : NodeId.op (c.nodeId + 1) ∉ c.nodeIds := by
  intro hm
  have := (h.op_range _ hm).2
  omega

theorem newNode_nodes {c : Dag} {P : Paths} (h : Inv c P) (op : Op) :
    (c.newNode op).nodes = c.nodes ++ [(.op (c.nodeId + 1), op)] := by
  have : ({ c with nodeId := c.nodeId + 1 } : Dag).hasNode (.op (c.nodeId + 1)) = false := by
    have := h.op_fresh
    simpa [hasNode, nodeIds] using this
  simp only [newNode, addNode, this]
  simp

@[simp] theorem newNode_edges (c : Dag) (op : Op) : (c.newNode op).edges = c.edges := rfl
@[simp] theorem newNode_edgeDict (c : Dag) (op : Op) : (c.newNode op).edgeDict = c.edgeDict := rfl
@[simp] theorem newNode_nodeId (c : Dag) (op : Op) : (c.newNode op).nodeId = c.nodeId + 1 := rfl
@[simp] theorem newNode_regs (c : Dag) (op : Op) : (c.newNode op).regs = c.regs := by funext t; cases t <;> rfl
theorem newNode_nodeDict (c : Dag) (op : Op) :
    (c.newNode op).nodeDict = op.indexKeys.foldl (fun d k => dictAppend d k (.op (c.nodeId + 1))) c.nodeDict := rfl

theorem newNode_inv {c : Dag} {P : Paths} (h : Inv c P) {op : Op} (hop : OpWF op) : Inv (c.newNode op) P := by
  have hnodes := newNode_nodes h op
  have hfresh := h.op_fresh
  have hids : (c.newNode op).nodeIds = c.nodeIds ++ [.op (c.nodeId + 1)] := by simp [nodeIds, hnodes]
  have hnd' : (c.newNode op).nodeIds.Nodup := by
    rw [hids, List.nodup_append]
    refine ⟨h.ids_nodup, by simp, ?_⟩
    intro a ha b hb; simp at hb; subst hb; intro e; subst e; exact hfresh ha
  refine
    { edges_nodup := h.edges_nodup
      edges_iff := h.edges_iff
      dead := by intro k hk; exact h.dead k (by simpa [live] using hk)
      shape := by intro k hk; exact h.shape k (by simpa [live] using hk)
      nodup := h.nodup
      mem_nodes := by intro k n hn; rw [hids]; exact List.mem_append_left _ (h.mem_nodes k n hn)
      edgeDict_ok := h.edgeDict_ok
      ids_nodup := hnd'
      inp_iff := by intro r; rw [hids]; simpa [live] using h.inp_iff r
      out_iff := by intro r; rw [hids]; simpa [live] using h.out_iff r
      inp_op := by
        intro r op' hm; rw [hnodes] at hm
        rcases List.mem_append.mp hm with hm | hm
        · exact h.inp_op r op' hm
        · simp at hm
      out_op := by
        intro r op' hm; rw [hnodes] at hm
        rcases List.mem_append.mp hm with hm | hm
        · exact h.out_op r op' hm
        · simp at hm
      op_range := by
        intro j hj; rw [hids] at hj
        rcases List.mem_append.mp hj with hj | hj
        · have := h.op_range j hj; simp only [newNode_nodeId]; omega
        · simp at hj; subst hj; simp only [newNode_nodeId]; omega
      op_wf := by
        intro j op' hm; rw [hnodes] at hm
        rcases List.mem_append.mp hm with hm | hm
        · exact h.op_wf j op' hm
        · simp at hm; rw [hm.2]; exact hop
      nodeDict_ok := ?_ }
  intro l m
  rw [newNode_nodeDict, count_dictGet_foldl_append, h.nodeDict_ok]
  by_cases hm : m = .op (c.nodeId + 1)
  · subst hm
    have h1 : c.opOf? (.op (c.nodeId + 1)) = none := opOf_eq_none.mpr hfresh
    have h2 : (c.newNode op).opOf? (.op (c.nodeId + 1)) = some op :=
      (opOf_eq_some hnd').mpr (by rw [hnodes]; simp)
    simp [indexCount, h1, h2, indexKeysOf]
  · have : (c.newNode op).opOf? m = c.opOf? m := by
      cases hc : c.opOf? m with
      | none =>
        apply opOf_eq_none.mpr
        rw [hids]; intro hmm
        rcases List.mem_append.mp hmm with hmm | hmm
        · exact (opOf_eq_none.mp hc) hmm
        · simp at hmm; exact hm hmm
      | some op' =>
        apply (opOf_eq_some hnd').mpr
        rw [hnodes]; exact List.mem_append_left _ ((opOf_eq_some h.ids_nodup).mp hc)
    simp [indexCount, this, hm]


/-! ## `_add_reg_if_absent` -/

theorem AcyclicRel.add_sink_edge {α : Type} {E : α → α → Prop} (hE : AcyclicRel E) {x y : α}
    (hy : ∀ b, ¬ E y b) (hxy : x ≠ y) : AcyclicRel (fun a b => E a b ∨ (a = x ∧ b = y)) := by
  have key : ∀ {a b}, TransGen (fun a b => E a b ∨ (a = x ∧ b = y)) a b → TransGen E a b ∨ b = y := by
    intro a b hab
    induction hab with
    | single h => rcases h with h | ⟨_, h⟩; exact Or.inl (TransGen.single h); exact Or.inr h
    | tail _ h2 ih =>
      rcases h2 with h2 | ⟨_, h2⟩
      · rcases ih with ih | ih
        · exact Or.inl (ih.tail h2)
        · subst ih; exact absurd h2 (hy _)
      · exact Or.inr h2
  intro a haa
  rcases key haa with h | h
  · exact hE a h
  · subst h
    rcases TransGen.head'_iff.mp haa with ⟨c, hc, _⟩
    rcases hc with hc | ⟨hc, _⟩
    · exact hy _ hc
    · exact hxy hc.symm

theorem Inv.edge_nodes {c : Dag} {P : Paths} (h : Inv c P) {e : Edge} (he : e ∈ c.edges) :
    e.src ∈ c.nodeIds ∧ e.dst ∈ c.nodeIds := by
  have := ((h.edges_iff e).mp he).mem
  exact ⟨h.mem_nodes _ _ this.1, h.mem_nodes _ _ this.2⟩

theorem E_nodes {c : Dag} {P : Paths} (h : Inv c P) {a b : NodeId} (hab : c.E a b) : a ∈ c.nodeIds ∧ b ∈ c.nodeIds := by
  obtain ⟨e, he, rfl, rfl⟩ := hab
  exact h.edge_nodes he

theorem incReg_regs (c : Dag) (t t' : RegType) : (c.incReg t).regs t' = if t' = t then c.regs t + 1 else c.regs t' := by
  cases t <;> cases t' <;> simp [incReg, regs]

@[simp] theorem incReg_nodes (c : Dag) (t : RegType) : (c.incReg t).nodes = c.nodes := by cases t <;> rfl
@[simp] theorem incReg_edges (c : Dag) (t : RegType) : (c.incReg t).edges = c.edges := by cases t <;> rfl
@[simp] theorem incReg_nodeDict (c : Dag) (t : RegType) : (c.incReg t).nodeDict = c.nodeDict := by cases t <;> rfl
@[simp] theorem incReg_edgeDict (c : Dag) (t : RegType) : (c.incReg t).edgeDict = c.edgeDict := by cases t <;> rfl
@[simp] theorem incReg_nodeId (c : Dag) (t : RegType) : (c.incReg t).nodeId = c.nodeId := by cases t <;> rfl

/-- the state `_add_reg_if_absent` produces when it creates register `r` -/
def withNewReg (c : Dag) (r : Reg) : Dag :=
  { (c.incReg r.ty) with
    nodes := c.nodes ++ [(.inp r, Op.io .input r), (.out r, Op.io .output r)],
    nodeDict := dictAppend (dictAppend c.nodeDict "Input" (.inp r)) "Output" (.out r),
    edges := c.edges ++ [⟨.inp r, .out r, r⟩],
    edgeDict := dictAppend c.edgeDict r.ty ⟨.inp r, .out r, r⟩ }

theorem withNewReg_regs (c : Dag) (r : Reg) (t : RegType) :
    (c.withNewReg r).regs t = if t = r.ty then c.regs r.ty + 1 else c.regs t := by
  have : (c.withNewReg r).regs t = (c.incReg r.ty).regs t := by cases t <;> rfl
  rw [this, incReg_regs]

theorem filter_eq_singleton {α : Type} {l : List α} {p : α → Bool} {a : α} (hnd : l.Nodup) (ha : a ∈ l) (hpa : p a = true)
    (huniq : ∀ x ∈ l, p x = true → x = a) : l.filter p = [a] := by
  induction l with
  | nil => simp at ha
  | cons b t ih =>
    have hnd' := List.nodup_cons.mp hnd
    rcases List.mem_cons.mp ha with rfl | ha
    · have : t.filter p = [] := by
        rw [List.filter_eq_nil_iff]
        intro x hx hpx
        have := huniq x (List.mem_cons_of_mem _ hx) hpx
        subst this; exact hnd'.1 hx
      simp [List.filter_cons, hpa, this]
    · have hb : p b = false := by
        cases hpb : p b with
        | false => rfl
        | true =>
          have := huniq b (by simp) hpb
          subst this; exact absurd ha hnd'.1
      rw [List.filter_cons, hb]
      simpa using ih hnd'.2 ha (fun x hx => huniq x (List.mem_cons_of_mem _ hx))

theorem addRegIfAbsent_new {c : Dag} {P : Paths} (h : Inv c P) {r : Reg} (hr : r.idx = c.regs r.ty) :
    c.addRegIfAbsent r = (c.withNewReg r, none) := by
  have hnl : ¬ c.live r := by simp [live, hr]
  have hinp : NodeId.inp r ∉ c.nodeIds := fun hm => hnl ((h.inp_iff r).mp hm)
  have hout : NodeId.out r ∉ c.nodeIds := fun hm => hnl ((h.out_iff r).mp hm)
  have he : (⟨.inp r, .out r, r⟩ : Edge) ∉ c.edges := fun hm => hinp (h.edge_nodes hm).1
  unfold addRegIfAbsent
  have h1 : ¬ c.regs r.ty < r.idx := by omega
  have h2 : ¬ ((c.incReg r.ty).hasNode (.inp r) = true) := by
    rw [hasNode_iff]; simpa [nodeIds] using hinp
  simp only [h1, if_false, hr, if_true, h2]
  -- the in-edges of the fresh output node
  have hfil : (c.edges ++ [(⟨.inp r, .out r, r⟩ : Edge)]).filter (fun e => e.dst = .out r) = [⟨.inp r, .out r, r⟩] := by
    rw [List.filter_append]
    have : c.edges.filter (fun e => e.dst = .out r) = [] := by
      rw [List.filter_eq_nil_iff]
      intro e hm hd
      simp at hd
      exact hout (hd ▸ (h.edge_nodes hm).2)
    rw [this]; simp
  simp only [inEdges, incReg_edges, he, if_false, hfil, List.head?_cons]
  simp [withNewReg]

theorem addRegIfAbsent_old {c : Dag} {P : Paths} (h : Inv c P) {r : Reg} (hr : c.live r) :
    c.addRegIfAbsent r = (c, none) := by
  unfold addRegIfAbsent
  have h1 : ¬ c.regs r.ty < r.idx := by unfold live at hr; omega
  have h2 : ¬ r.idx = c.regs r.ty := by unfold live at hr; omega
  have h3 : c.hasNode (.inp r) = true := hasNode_iff.mpr ((h.inp_iff r).mpr hr)
  simp [h1, h2, h3]

theorem addRegIfAbsent_gap {c : Dag} {r : Reg} (hr : c.regs r.ty < r.idx) :
    c.addRegIfAbsent r = (c, some .value) := by
  unfold addRegIfAbsent; simp [hr]


theorem withNewReg_live (c : Dag) (r k : Reg) (hr : r.idx = c.regs r.ty) :
    (c.withNewReg r).live k ↔ c.live k ∨ k = r := by
  unfold live
  rw [withNewReg_regs]
  by_cases ht : k.ty = r.ty
  · simp only [ht, if_true]
    constructor
    · intro h
      by_cases hk : k.idx < c.regs r.ty
      · exact Or.inl hk
      · right
        cases k; cases r; simp_all; omega
    · rintro (h | rfl)
      · omega
      · omega
  · simp only [ht, if_false]
    constructor
    · exact Or.inl
    · rintro (h | rfl)
      · exact h
      · exact absurd rfl ht

theorem withNewReg_inv {c : Dag} {P : Paths} (h : Inv c P) {r : Reg} (hr : r.idx = c.regs r.ty) :
    Inv (c.withNewReg r) (setPath P r [.inp r, .out r]) := by
  have hnl : ¬ c.live r := by simp [live, hr]
  have hinp : NodeId.inp r ∉ c.nodeIds := fun hm => hnl ((h.inp_iff r).mp hm)
  have hout : NodeId.out r ∉ c.nodeIds := fun hm => hnl ((h.out_iff r).mp hm)
  have he : (⟨.inp r, .out r, r⟩ : Edge) ∉ c.edges := fun hm => hinp (h.edge_nodes hm).1
  have hPr : P r = [] := h.dead r hnl
  have hnodes : (c.withNewReg r).nodes = c.nodes ++ [(.inp r, Op.io .input r), (.out r, Op.io .output r)] := rfl
  have hids : (c.withNewReg r).nodeIds = c.nodeIds ++ [.inp r, .out r] := by simp [nodeIds, hnodes]
  have hedges : (c.withNewReg r).edges = c.edges ++ [⟨.inp r, .out r, r⟩] := rfl
  have hnd' : (c.withNewReg r).nodeIds.Nodup := by
    rw [hids, List.nodup_append]
    refine ⟨h.ids_nodup, by simp, ?_⟩
    intro a ha b hb e; subst e
    simp at hb
    rcases hb with rfl | rfl
    · exact hinp ha
    · exact hout ha
  have hopOld : ∀ m, m ∈ c.nodeIds → (c.withNewReg r).opOf? m = c.opOf? m := by
    intro m hm
    obtain ⟨op, hop⟩ := mem_nodeIds.mp hm
    rw [(opOf_eq_some h.ids_nodup).mpr hop]
    exact (opOf_eq_some hnd').mpr (by rw [hnodes]; exact List.mem_append_left _ hop)
  refine
    { edges_nodup := by
        rw [hedges, List.nodup_append]
        refine ⟨h.edges_nodup, by simp, ?_⟩
        intro a ha b hb e; subst e; simp at hb; subst hb; exact he ha
      edges_iff := ?_
      dead := ?_
      shape := ?_
      nodup := ?_
      mem_nodes := ?_
      edgeDict_ok := ?_
      ids_nodup := hnd'
      inp_iff := ?_
      out_iff := ?_
      inp_op := ?_
      out_op := ?_
      op_range := ?_
      op_wf := ?_
      nodeDict_ok := ?_ }
  · -- edges_iff
    intro e'
    rw [hedges, List.mem_append, List.mem_singleton]
    by_cases hk : e'.key = r
    · obtain ⟨x, y, k⟩ := e'
      simp only at hk; subst hk
      simp only [setPath_same, consec_cons_cons, consec_single, or_false]
      constructor
      · rintro (hm | hm)
        · exact absurd (h.live_of_edge hm) hnl
        · injection hm with h1 h2 _; exact ⟨h1.symm, h2.symm⟩
      · rintro ⟨rfl, rfl⟩; exact Or.inr rfl
    · rw [setPath_other _ _ hk, ← h.edges_iff e']
      constructor
      · rintro (hm | hm)
        · exact hm
        · exact absurd (by rw [hm]) hk
      · exact Or.inl
  · -- dead
    intro k hk
    rw [withNewReg_live c r k hr] at hk
    have hkr : k ≠ r := fun e => hk (Or.inr e)
    rw [setPath_other _ _ hkr]
    exact h.dead k (fun hl => hk (Or.inl hl))
  · -- shape
    intro k hk
    rw [withNewReg_live c r k hr] at hk
    by_cases hkr : k = r
    · subst hkr
      exact ⟨[], by simp, by simp⟩
    · rw [setPath_other _ _ hkr]
      rcases hk with hk | hk
      · exact h.shape k hk
      · exact absurd hk hkr
  · -- nodup
    intro k
    by_cases hkr : k = r
    · subst hkr; simp
    · rw [setPath_other _ _ hkr]; exact h.nodup k
  · -- mem_nodes
    intro k n hn
    rw [hids]
    by_cases hkr : k = r
    · subst hkr
      simp only [setPath_same] at hn
      exact List.mem_append_right _ hn
    · rw [setPath_other _ _ hkr] at hn
      exact List.mem_append_left _ (h.mem_nodes k n hn)
  · -- edgeDict_ok
    intro t e'
    have hed : (c.withNewReg r).edgeDict = dictAppend c.edgeDict r.ty ⟨.inp r, .out r, r⟩ := rfl
    rw [hed, dictGet_dictAppend, hedges]
    by_cases ht : t = r.ty
    · subst ht
      rw [if_pos rfl, List.count_append, h.edgeDict_ok]
      by_cases c0 : e' = ⟨.inp r, .out r, r⟩
      · subst c0
        simp [he]
      · rw [count_singleton_ne (Ne.symm c0)]
        simp [c0]
    · rw [if_neg ht, h.edgeDict_ok]
      by_cases c0 : e' = ⟨.inp r, .out r, r⟩
      · subst c0
        have : ¬ r.ty = t := fun e => ht e.symm
        simp [he, this]
      · simp [c0]
  · -- inp_iff
    intro k
    rw [hids, withNewReg_live c r k hr, List.mem_append, h.inp_iff k]
    simp
  · -- out_iff
    intro k
    rw [hids, withNewReg_live c r k hr, List.mem_append, h.out_iff k]
    simp
  · -- inp_op
    intro k op hm
    rw [hnodes] at hm
    rcases List.mem_append.mp hm with hm | hm
    · exact h.inp_op k op hm
    · simp at hm; obtain ⟨rfl, rfl⟩ := hm; rfl
  · -- out_op
    intro k op hm
    rw [hnodes] at hm
    rcases List.mem_append.mp hm with hm | hm
    · exact h.out_op k op hm
    · simp at hm; obtain ⟨rfl, rfl⟩ := hm; rfl
  · -- op_range
    intro j hj
    rw [hids] at hj
    rcases List.mem_append.mp hj with hj | hj
    · have := h.op_range j hj
      have hid : (c.withNewReg r).nodeId = c.nodeId := by simp [withNewReg]
      rw [hid]; exact this
    · simp at hj
  · -- op_wf
    intro j op hm
    rw [hnodes] at hm
    rcases List.mem_append.mp hm with hm | hm
    · exact h.op_wf j op hm
    · simp at hm
  · -- nodeDict_ok
    intro l m
    have hnd : (c.withNewReg r).nodeDict = dictAppend (dictAppend c.nodeDict "Input" (.inp r)) "Output" (.out r) := rfl
    rw [hnd, count_dictGet_dictAppend, count_dictGet_dictAppend, h.nodeDict_ok]
    have hio : NodeId.out r ≠ NodeId.inp r := by intro e; cases e
    have hIO : ¬ ("Output" = "Input") := by decide
    by_cases hmi : m = .inp r
    · subst hmi
      have h1 : c.opOf? (.inp r) = none := opOf_eq_none.mpr hinp
      have h2 : (c.withNewReg r).opOf? (.inp r) = some (Op.io .input r) :=
        (opOf_eq_some hnd').mpr (by rw [hnodes]; simp)
      simp only [indexCount, h1, h2, indexKeysOf, Ne.symm hio, and_false, if_false, and_true, Nat.add_zero, Nat.zero_add]
      by_cases hl : l = "Input"
      · subst hl; simp
      · have : ¬ "Input" = l := fun e => hl e.symm
        simp [hl, this]
    · by_cases hmo : m = .out r
      · subst hmo
        have h1 : c.opOf? (.out r) = none := opOf_eq_none.mpr hout
        have h2 : (c.withNewReg r).opOf? (.out r) = some (Op.io .output r) :=
          (opOf_eq_some hnd').mpr (by rw [hnodes]; simp)
        simp only [indexCount, h1, h2, indexKeysOf, hio, and_false, if_false, and_true, Nat.add_zero, Nat.zero_add]
        by_cases hl : l = "Output"
        · subst hl; simp
        · have : ¬ "Output" = l := fun e => hl e.symm
          simp [hl, this]
      · have hop : (c.withNewReg r).opOf? m = c.opOf? m := by
          by_cases hmm : m ∈ c.nodeIds
          · exact hopOld m hmm
          · rw [opOf_eq_none.mpr hmm]
            apply opOf_eq_none.mpr
            rw [hids]; intro hx
            rcases List.mem_append.mp hx with hx | hx
            · exact hmm hx
            · simp at hx; rcases hx with hx | hx
              · exact hmi hx
              · exact hmo hx
        simp [indexCount, hop, hmi, hmo]


theorem Good.qregs_live {c : Dag} {P : Paths} (g : Good c P) {i : Nat} {op : Op} (hm : (NodeId.op i, op) ∈ c.nodes)
    {k : Reg} (hk : k ∈ op.qregs) : c.live k := by
  have hq := (g.inv.op_wf i op hm).qregs_quantum k hk
  have := (g.mem.mem_q i op hm k hq).mpr hk
  by_cases hl : c.live k
  · exact hl
  · rw [g.inv.dead k hl] at this; simp at this

theorem withNewReg_good {c : Dag} {P : Paths} (g : Good c P) {r : Reg} (hr : r.idx = c.regs r.ty) :
    Good (c.withNewReg r) (setPath P r [.inp r, .out r]) := by
  have hnl : ¬ c.live r := by simp [live, hr]
  have hout : NodeId.out r ∉ c.nodeIds := fun hm => hnl ((g.inv.out_iff r).mp hm)
  have hnodes : (c.withNewReg r).nodes = c.nodes ++ [(.inp r, Op.io .input r), (.out r, Op.io .output r)] := rfl
  have hopn : ∀ i op, (NodeId.op i, op) ∈ (c.withNewReg r).nodes → (NodeId.op i, op) ∈ c.nodes := by
    intro i op hm
    rw [hnodes] at hm
    rcases List.mem_append.mp hm with hm | hm
    · exact hm
    · simp at hm
  refine ⟨withNewReg_inv g.inv hr, ⟨?_, ?_⟩, ?_⟩
  · intro i op hm k hk
    have hm' := hopn i op hm
    by_cases hkr : k = r
    · subst hkr
      simp only [setPath_same]
      constructor
      · intro h; simp at h
      · intro h; exact absurd (g.qregs_live hm' h) hnl
    · rw [setPath_other _ _ hkr]; exact g.mem.mem_q i op hm' k hk
  · intro i op hm k hk
    have hm' := hopn i op hm
    by_cases hkr : (⟨.c, k⟩ : Reg) = r
    · rw [hkr] at hk; simp at hk
    · rw [setPath_other _ _ hkr] at hk; exact g.mem.mem_c i op hm' k hk
  · -- acyclic
    have hE : ∀ a b, (c.withNewReg r).E a b → (c.E a b ∨ (a = .inp r ∧ b = .out r)) := by
      rintro a b ⟨e, he, rfl, rfl⟩
      have hedges : (c.withNewReg r).edges = c.edges ++ [⟨.inp r, .out r, r⟩] := rfl
      rw [hedges] at he
      rcases List.mem_append.mp he with he | he
      · exact Or.inl ⟨e, he, rfl, rfl⟩
      · simp at he; subst he; exact Or.inr ⟨rfl, rfl⟩
    have hs : ∀ b, ¬ c.E (.out r) b := fun b hb => hout (E_nodes g.inv hb).1
    have : AcyclicRel (fun a b => c.E a b ∨ (a = NodeId.inp r ∧ b = NodeId.out r)) :=
      AcyclicRel.add_sink_edge g.acyc hs (by intro e; cases e)
    exact this.mono hE

/-- `_add_reg_if_absent` keeps DagInv whatever it returns; on success the register exists afterwards, and the
    register counts change only by the creation of `r` -/
theorem addRegIfAbsent_good {c : Dag} {P : Paths} (g : Good c P) (r : Reg) :
    ∃ P', Good (c.addRegIfAbsent r).1 P' ∧ ((c.addRegIfAbsent r).2 = none → (c.addRegIfAbsent r).1.live r) ∧
      (∀ k, c.live k → (c.addRegIfAbsent r).1.live k) ∧ (c.addRegIfAbsent r).1.nodeId = c.nodeId := by
  by_cases h1 : c.regs r.ty < r.idx
  · rw [addRegIfAbsent_gap h1]; exact ⟨P, g, by simp, fun k hk => hk, rfl⟩
  · by_cases h2 : r.idx = c.regs r.ty
    · rw [addRegIfAbsent_new g.inv h2]
      refine ⟨_, withNewReg_good g h2, ?_, ?_, by simp [withNewReg]⟩
      · intro _; exact (withNewReg_live c r r h2).mpr (Or.inr rfl)
      · intro k hk; exact (withNewReg_live c r k h2).mpr (Or.inl hk)
    · have hl : c.live r := by unfold live; omega
      rw [addRegIfAbsent_old g.inv hl]; exact ⟨P, g, fun _ => hl, fun k hk => hk, rfl⟩

theorem addRegs_good {c : Dag} {P : Paths} (g : Good c P) (rs : List Reg) :
    ∃ P', Good (c.addRegs rs).1 P' ∧ ((c.addRegs rs).2 = none → ∀ r ∈ rs, (c.addRegs rs).1.live r) ∧
      (∀ k, c.live k → (c.addRegs rs).1.live k) ∧ (c.addRegs rs).1.nodeId = c.nodeId := by
  induction rs generalizing c P with
  | nil => exact ⟨P, g, by simp [addRegs], fun k hk => hk, rfl⟩
  | cons r rs ih =>
    obtain ⟨P1, g1, hl1, hmono1, hid1⟩ := addRegIfAbsent_good g r
    unfold addRegs
    cases hres : c.addRegIfAbsent r with
    | mk c1 err =>
      rw [hres] at g1 hl1 hmono1 hid1
      simp only at g1 hl1 hmono1 hid1
      cases err with
      | some e => exact ⟨P1, g1, by simp, hmono1, hid1⟩
      | none =>
        obtain ⟨P2, g2, hl2, hmono2, hid2⟩ := ih g1
        refine ⟨P2, g2, ?_, fun k hk => hmono2 k (hmono1 k hk), hid2.trans hid1⟩
        intro hnone r' hr'
        rcases List.mem_cons.mp hr' with rfl | hr'
        · exact hmono2 _ (hl1 rfl)
        · exact hl2 hnone r' hr'

theorem mem_insertSorted (r : Reg) (l : List Reg) (x : Reg) : x ∈ insertSorted r l ↔ x = r ∨ x ∈ l := by
  induction l with
  | nil => simp [insertSorted]
  | cons a t ih =>
    unfold insertSorted
    split
    · simp
    · simp [ih]; tauto

theorem mem_sortRegs (l : List Reg) (x : Reg) : x ∈ sortRegs l ↔ x ∈ l := by
  induction l with
  | nil => simp [sortRegs]
  | cons a t ih =>
    have : sortRegs (a :: t) = insertSorted a (sortRegs t) := rfl
    rw [this, mem_insertSorted, ih]; simp

/-- all registers an operation is wired to by `add` -/
def opRegs (op : Op) : List Reg := op.qregs ++ op.cregs.map (Reg.mk .c)

theorem ensureRegs_good {c : Dag} {P : Paths} (g : Good c P) (op : Op) :
    ∃ P', Good (c.ensureRegs op).1 P' ∧ ((c.ensureRegs op).2 = none → ∀ r ∈ opRegs op, (c.ensureRegs op).1.live r) ∧
      (∀ k, c.live k → (c.ensureRegs op).1.live k) ∧ (c.ensureRegs op).1.nodeId = c.nodeId := by
  obtain ⟨P1, g1, hl1, hmono1, hid1⟩ := addRegs_good g (op.cregs.map (Reg.mk .c))
  unfold ensureRegs
  cases hres : c.addRegs (op.cregs.map (Reg.mk .c)) with
  | mk c1 err =>
    rw [hres] at g1 hl1 hmono1 hid1
    simp only at g1 hl1 hmono1 hid1
    cases err with
    | some e => exact ⟨P1, g1, by simp, hmono1, hid1⟩
    | none =>
      simp only
      by_cases hq : op.qregs.isEmpty = true
      · simp only [hq, if_true]; exact ⟨P1, g1, by simp, hmono1, hid1⟩
      · simp only [hq]
        obtain ⟨P2, g2, hl2, hmono2, hid2⟩ := addRegs_good g1 (sortRegs op.qregs)
        refine ⟨P2, g2, ?_, fun k hk => hmono2 k (hmono1 k hk), hid2.trans hid1⟩
        intro hnone r hr
        rcases List.mem_append.mp hr with hr | hr
        · exact hl2 hnone r ((mem_sortRegs _ _).mpr hr)
        · exact hmono2 _ (hl1 rfl r hr)

end Dag
end Graphiq
