/-
  Proofs/CommuteLocal.lean — row maps that act on a set of sites only, and why two of them with disjoint supports commute.

  `Local S f`: the row map `f` (the action of a Clifford gate on a signed Pauli row) leaves every site outside `S` alone,
  leaves the i-phase bit alone, its new bits on `S` depend on the old bits on `S` only, and the sign *change* depends on
  the old bits on `S` only.  `h q`, `s q` are local on `{q}`, `cnot c t` on `{c, t}`; locality is closed under
  composition and under enlarging the support, which gives all the gates of `transformation.py`.

  Main results: `Local.comm` (two local maps with disjoint supports commute, literally, on every row),
  `Local.fix_Zq` (a local automorphism fixes `±Z_q` for `q` outside its support).
-/
import GraphiqModel.Proofs.TabSpecHistory
namespace Graphiq.Commute
open Graphiq PRow TabSpec

/-- the two rows have the same Pauli letters on the sites in `S` -/
def AgreeOn (S : Nat → Prop) (a b : PRow) : Prop := ∀ j, S j → a.x j = b.x j ∧ a.z j = b.z j

theorem AgreeOn.refl (S : Nat → Prop) (a : PRow) : AgreeOn S a a := fun _ _ => ⟨rfl, rfl⟩

/-- `f` acts on the sites `S` only -/
structure Local (S : Nat → Prop) (f : PRow → PRow) : Prop where
  off : ∀ p j, ¬ S j → (f p).x j = p.x j ∧ (f p).z j = p.z j
  ip : ∀ p, (f p).ip = p.ip
  on : ∀ p p', AgreeOn S p p' → AgreeOn S (f p) (f p')
  sign : ∀ p p', AgreeOn S p p' → xor (f p).r p.r = xor (f p').r p'.r

theorem bool_comm_aux (a b c d e : Bool) (h1 : xor a b = xor c d) (h2 : xor e c = xor b d) : a = e := by
  revert h1 h2; cases a <;> cases b <;> cases c <;> cases d <;> cases e <;> simp

/-- **two row maps acting on disjoint sets of sites commute** (literally, on every row) -/
theorem Local.comm {S T : Nat → Prop} {f g : PRow → PRow} (hf : Local S f) (hg : Local T g)
    (hd : ∀ j, S j → ¬ T j) (p : PRow) : f (g p) = g (f p) := by
  have hgp : AgreeOn S (g p) p := fun j hj => hg.off p j (hd j hj)
  have hfp : AgreeOn T (f p) p := fun j hj => hf.off p j (fun h => hd j h hj)
  have hbits : ∀ j, (f (g p)).x j = (g (f p)).x j ∧ (f (g p)).z j = (g (f p)).z j := by
    intro j
    by_cases hS : S j
    · have h1 := hf.on _ _ hgp j hS
      have h2 := hg.off (f p) j (hd j hS)
      exact ⟨h1.1.trans h2.1.symm, h1.2.trans h2.2.symm⟩
    · by_cases hT : T j
      · have h1 := hg.on _ _ hfp j hT
        have h2 := hf.off (g p) j hS
        exact ⟨h2.1.trans h1.1.symm, h2.2.trans h1.2.symm⟩
      · have h1 := hf.off (g p) j hS
        have h2 := hg.off p j hT
        have h3 := hg.off (f p) j hT
        have h4 := hf.off p j hS
        exact ⟨h1.1.trans (h2.1.trans (h4.1.symm.trans h3.1.symm)), h1.2.trans (h2.2.trans (h4.2.symm.trans h3.2.symm))⟩
  have hr : (f (g p)).r = (g (f p)).r :=
    bool_comm_aux _ _ _ _ _ (hf.sign _ _ hgp) (hg.sign _ _ hfp)
  have hip : (f (g p)).ip = (g (f p)).ip := by rw [hf.ip, hg.ip, hg.ip, hf.ip]
  have hx : (f (g p)).x = (g (f p)).x := funext fun j => (hbits j).1
  have hz : (f (g p)).z = (g (f p)).z := funext fun j => (hbits j).2
  generalize f (g p) = a at *
  generalize g (f p) = b at *
  cases a; cases b
  simp only at hx hz hr hip
  subst hx hz hr hip
  rfl

theorem Local.comp {S : Nat → Prop} {f g : PRow → PRow} (hf : Local S f) (hg : Local S g) :
    Local S (fun p => f (g p)) where
  off p j hj := ⟨((hf.off (g p) j hj).1).trans (hg.off p j hj).1, ((hf.off (g p) j hj).2).trans (hg.off p j hj).2⟩
  ip p := (hf.ip _).trans (hg.ip p)
  on p p' h := hf.on _ _ (hg.on _ _ h)
  sign p p' h := by
    have h1 := hf.sign _ _ (hg.on _ _ h)
    have h2 := hg.sign _ _ h
    revert h1 h2
    generalize (f (g p)).r = a; generalize (g p).r = b; generalize (f (g p')).r = c; generalize (g p').r = d
    generalize p.r = e; generalize p'.r = e'
    cases a <;> cases b <;> cases c <;> cases d <;> cases e <;> cases e' <;> simp

theorem Local.mono {S T : Nat → Prop} {f : PRow → PRow} (hf : Local S f) (hST : ∀ j, S j → T j) : Local T f where
  off p j hj := hf.off p j (fun h => hj (hST j h))
  ip := hf.ip
  on p p' h := by
    intro j hj
    by_cases hS : S j
    · exact hf.on p p' (fun k hk => h k (hST k hk)) j hS
    · have h1 := hf.off p j hS
      have h2 := hf.off p' j hS
      have h3 := h j hj
      exact ⟨h1.1.trans (h3.1.trans h2.1.symm), h1.2.trans (h3.2.trans h2.2.symm)⟩
  sign p p' h := hf.sign p p' (fun k hk => h k (hST k hk))

/-! ### the gates of `transformation.py` are local -/

theorem local_h (q : Nat) : Local (fun j => j = q) (PRow.h q) where
  off p j hj := by simp [PRow.h, hj]
  ip _ := rfl
  on p p' h := by
    intro j hj
    have := h j hj
    simp only [PRow.h]
    subst hj
    simp [this.1, this.2]
  sign p p' h := by
    have := h q rfl
    simp only [PRow.h, this.1, this.2]
    cases p.r <;> cases p'.r <;> cases p'.x q <;> cases p'.z q <;> rfl

theorem local_s (q : Nat) : Local (fun j => j = q) (PRow.s q) where
  off p j hj := by simp [PRow.s, hj]
  ip _ := rfl
  on p p' h := by
    intro j hj
    have := h j hj
    simp only [PRow.s]
    subst hj
    simp [this.1, this.2]
  sign p p' h := by
    have := h q rfl
    simp only [PRow.s, this.1, this.2]
    cases p.r <;> cases p'.r <;> cases p'.x q <;> cases p'.z q <;> rfl

theorem local_cnot (c t : Nat) : Local (fun j => j = c ∨ j = t) (PRow.cnot c t) where
  off p j hj := by
    have h1 : j ≠ c := fun h => hj (Or.inl h)
    have h2 : j ≠ t := fun h => hj (Or.inr h)
    simp [PRow.cnot, h1, h2]
  ip _ := rfl
  on p p' h := by
    intro j hj
    have hc := h c (Or.inl rfl)
    have ht := h t (Or.inr rfl)
    have hj' := h j hj
    simp [PRow.cnot, hc.1, hc.2, ht.1, ht.2, hj'.1, hj'.2]
  sign p p' h := by
    have hc := h c (Or.inl rfl)
    have ht := h t (Or.inr rfl)
    simp only [PRow.cnot, hc.1, hc.2, ht.1, ht.2]
    cases p.r <;> cases p'.r <;> cases p'.x c <;> cases p'.z c <;> cases p'.x t <;> cases p'.z t <;> rfl

theorem local_sdg (q : Nat) : Local (fun j => j = q) (PRow.sdg q) :=
  (local_s q).comp ((local_s q).comp (local_s q))
theorem local_zg (q : Nat) : Local (fun j => j = q) (PRow.zg q) := (local_s q).comp (local_s q)
theorem local_xg (q : Nat) : Local (fun j => j = q) (PRow.xg q) :=
  (local_h q).comp ((local_zg q).comp (local_h q))
theorem local_yg (q : Nat) : Local (fun j => j = q) (PRow.yg q) :=
  (local_s q).comp ((local_xg q).comp ((local_zg q).comp (local_s q)))
theorem local_cz (c t : Nat) : Local (fun j => j = c ∨ j = t) (PRow.cz c t) :=
  ((local_h t).mono (fun _ h => Or.inr h)).comp ((local_cnot c t).comp ((local_h t).mono (fun _ h => Or.inr h)))
theorem local_id (S : Nat → Prop) : Local S (fun p => p) where
  off _ _ _ := ⟨rfl, rfl⟩
  ip _ := rfl
  on _ _ h := h
  sign _ _ _ := by simp

/-! ### what a local automorphism does to rows supported elsewhere -/

/-- a local map does not change whether a row anticommutes with `Z_q`, `q` outside the support -/
theorem Local.x_off {S : Nat → Prop} {f : PRow → PRow} (hf : Local S f) {q : Nat} (hq : ¬ S q) (p : PRow) :
    (f p).x q = p.x q := (hf.off p q hq).1

/-- a local map that fixes the identity row fixes `±Z_q` for every `q` outside its support -/
theorem Local.fix_Zq {S : Nat → Prop} {f : PRow → PRow} (hf : Local S f) {n : Nat} (h1 : EqOn n (f PRow.one) PRow.one)
    {q : Nat} (hq : ¬ S q) (o : Bool) : EqOn n (f (Zq q o)) (Zq q o) := by
  have hag : AgreeOn S (Zq q o) PRow.one := by
    intro j hj
    have : j ≠ q := fun h => hq (h ▸ hj)
    simp [Zq, PRow.one, this]
  refine ⟨fun j hj => ?_, ?_, ?_⟩
  · by_cases hS : S j
    · have h2 := hf.on _ _ hag j hS
      have h3 := h1.1 j hj
      have h4 := hag j hS
      exact ⟨h2.1.trans (h3.1.trans h4.1.symm), h2.2.trans (h3.2.trans h4.2.symm)⟩
    · exact hf.off _ j hS
  · have h2 := hf.sign _ _ hag
    have h3 := h1.2.1
    rw [h3] at h2
    simpa [PRow.one] using h2
  · rw [hf.ip]

end Graphiq.Commute
