/-
  Proofs/MixtureDMTotalMeas.lean — both compilers return on every circuit of the measurement class as well (all n):
  runnable measurement-free operations (Proofs/MixtureDMTotal) and noiseless `MeasurementZ` / `ClassicalCNOT` / `ClassicalCZ` /
  `MeasurementCNOTandReset` on existing qubits.  (The density-matrix compile may return the NaN state `ρ = none` after a
  measurement whose conditional probability is 0; it still returns.)
-/
import GraphiqModel.Proofs.MixtureDMJointCircuit
namespace Graphiq
namespace MixDM
open Matrix Hilbert Noise DM

/-- runnable operations, measurements included -/
inductive OpRuns2 (n np : Nat) (op : COp) : Prop
  | unitary (h : OpRuns n np op)
  | meas (hk : MeasAny op.kind) (hw : OpWF n np op) (h0 : op.n0.isNone = true) (h1 : op.n1.isNone = true)

def ActRuns2 (n np : Nat) (arr : Array COp) : Act → Prop
  | .gate k => ∀ op, arr[k]? = some op → OpWF n np op ∧ op.kind ≠ .param ∧ (MFree op ∨ MeasAny op.kind)
  | .noise _ _ q nm => q < n ∧ NoiseRuns nm
  | .replace _ => False

theorem OpRuns2.gate {n np : Nat} {op : COp} (h : OpRuns2 n np op) :
    OpWF n np op ∧ op.kind ≠ .param ∧ (MFree op ∨ MeasAny op.kind) := by
  cases h with
  | unitary h => exact ⟨h.ok.wf, h.notParam, Or.inl h.ok.mfree⟩
  | meas hk hw _ _ =>
    refine ⟨hw, ?_, Or.inr hk⟩
    intro e
    rcases hk with h | h | h | h <;> rw [e] at h <;> cases h

/-! ### the stabilizer side -/

theorem conditioned_ne_nil (f : Tab → Tab) (outs : List Bool) (m : Mixture) (hl : outs.length = m.length) (h : m ≠ []) :
    Mix.conditioned f outs m ≠ [] := by
  cases m with
  | nil => exact absurd rfl h
  | cons x xs =>
    cases outs with
    | nil => simp at hl
    | cons o os => simp [Mix.conditioned]

theorem stabMeasGate_runs (np n : Nat) (det : Bool) (op : COp) (hk : MeasAny op.kind) (hw : OpWF n np op) (s : StabSt) :
    ∃ s1, stabGate np n det op s = .ok s1 ∧ (s.mix ≠ [] → s1.mix ≠ []) := by
  have hq1 := hw.1
  unfold stabGate
  simp only
  have cls : ∀ (f : Tab → Tab) (reset : Bool), op.kind.isClassicalCtrl = true →
      ∃ s1, stabClassical n (qIndex np op.r1 op.t1) (qIndex np op.r2 op.t2) op.c det f reset s = .ok s1 ∧
        (s.mix ≠ [] → s1.mix ≠ []) := by
    intro f reset hc
    unfold stabClassical
    rw [if_pos ⟨hq1, hw.2.1 (Or.inr hc)⟩]
    refine ⟨_, rfl, ?_⟩
    intro hm
    have hl := Mix.measure_lengths (qIndex np op.r1 op.t1) det s.mix
    have h2 := conditioned_ne_nil f _ _ hl (measure_ne_nil _ det s.mix hm)
    cases reset
    · simpa using h2
    · simpa using mapTab_ne_nil _ _ h2
  rcases hk with hk | hk | hk | hk <;> simp only [hk]
  · unfold stabMeasZ
    rw [if_pos hq1]
    exact ⟨_, rfl, measure_ne_nil _ det s.mix⟩
  · exact cls _ _ (by simp [hk, Kind.isClassicalCtrl])
  · exact cls _ _ (by simp [hk, Kind.isClassicalCtrl])
  · exact cls _ _ (by simp [hk, Kind.isClassicalCtrl])

theorem stabAct_runs2 (np n : Nat) (det : Bool) (arr : Array COp) (a : Act) (ha : ActRuns2 n np arr a) (s : StabSt)
    (hm : s.mix ≠ []) : ∃ s1, stabAct np n det arr s a = .ok s1 ∧ s1.mix ≠ [] := by
  cases a with
  | gate k =>
    simp only [stabAct]
    cases hk : arr[k]? with
    | none =>
      rw [getD_none arr k hk]
      exact ⟨s, rfl, hm⟩
    | some op =>
      rw [getD_some arr k op hk]
      obtain ⟨h1, h2, h3⟩ := ha op hk
      rcases h3 with hf | hme
      · obtain ⟨s1, e1, e2⟩ := stabGate_runs np n det op hf h1 h2 s
        exact ⟨s1, e1, e2 hm⟩
      · obtain ⟨s1, e1, e2⟩ := stabMeasGate_runs np n det op hme h1 s
        exact ⟨s1, e1, e2 hm⟩
  | noise k side q nm =>
    simp only [stabAct]
    obtain ⟨m', e1, e2⟩ := applyNoise_runs nm ha.2 q s.mix hm
    rw [e1]
    exact ⟨_, rfl, e2⟩
  | replace k => exact absurd ha id

theorem runStabActs_runs2 (np n : Nat) (det : Bool) (arr : Array COp) : ∀ (acts : List Act) (s : StabSt),
    (∀ a ∈ acts, ActRuns2 n np arr a) → s.mix ≠ [] → ∃ s', runStabActs np n det arr acts s = .ok s' ∧ s'.mix ≠ []
  | [], s, _, hm => ⟨s, rfl, hm⟩
  | a :: as, s, hw, hm => by
    obtain ⟨s1, e1, m1⟩ := stabAct_runs2 np n det arr a (hw a List.mem_cons_self) s hm
    obtain ⟨s', e2, m2⟩ := runStabActs_runs2 np n det arr as s1 (fun b hb => hw b (List.mem_cons_of_mem _ hb)) m1
    exact ⟨s', by simp only [runStabActs, e1, e2], m2⟩

theorem placeOp_runs2 (ns : Bool) (be : Backend) (n np : Nat) (arr : Array COp) (op : COp) (k : Nat) (ho : OpRuns2 n np op)
    (harr : ∀ (j : Nat) (o : COp), arr[j]? = some o → OpRuns2 n np o) :
    ∃ acts, placeOp ns be np op k = .ok acts ∧ ∀ a ∈ acts, ActRuns2 n np arr a := by
  have hgate : ActRuns2 n np arr (.gate k) := fun o ho' => (harr k o ho').gate
  cases ho with
  | meas hk hw h0 h1 =>
    refine ⟨[.gate k], placeOp_none ns be np op k h0 h1, ?_⟩
    intro a ha; simp only [List.mem_singleton] at ha; subst ha; exact hgate
  | unitary h =>
    cases ns with
    | false =>
      refine ⟨[.gate k], placeOp_off be np op k, ?_⟩
      intro a ha; simp only [List.mem_singleton] at ha; subst ha; exact hgate
    | true =>
      refine ⟨_, placeOp_supported be np op k h.supported, ?_⟩
      have hwant : ∀ af, ∀ a ∈ wanted np op k af, ActRuns2 n np arr a := by
        intro af a ha
        unfold wanted at ha
        rcases List.mem_append.1 ha with ha | ha
        · split at ha
          · simp only [List.mem_singleton] at ha; subst ha
            exact ⟨h.ok.wf.1, h.add0, h.bad0, h.ok.p0⟩
          · cases ha
        · split at ha
          · rename_i hc
            simp only [Bool.and_eq_true] at hc
            simp only [List.mem_singleton] at ha; subst ha
            exact ⟨h.ok.wf.2.1 (Or.inl hc.1.1), h.add1 hc.1.1, h.bad1 hc.1.1, h.ok.p1⟩
          · cases ha
      intro a ha
      rcases List.mem_append.1 ha with ha | ha
      · rcases List.mem_append.1 ha with ha | ha
        · exact hwant false a ha
        · simp only [List.mem_singleton] at ha; subst ha; exact hgate
      · exact hwant true a ha

theorem stabGo_runs2 (ns : Bool) (np n : Nat) (det : Bool) (arr : Array COp)
    (harr : ∀ (j : Nat) (o : COp), arr[j]? = some o → OpRuns2 n np o) : ∀ (ops : List COp) (k : Nat) (s : StabSt),
    (∀ op ∈ ops, OpRuns2 n np op) → s.mix ≠ [] → ∃ s', stabGo ns np n det arr ops k s = .ok s'
  | [], _, s, _, _ => ⟨s, rfl⟩
  | op :: rest, k, s, hw, hm => by
    have ho := hw op List.mem_cons_self
    obtain ⟨acts, hp, hacts⟩ := placeOp_runs2 ns .stab n np arr op k ho harr
    obtain ⟨s1, e1, m1⟩ := runStabActs_runs2 np n det arr acts s hacts hm
    obtain ⟨s', e2⟩ := stabGo_runs2 ns np n det arr harr rest (k + 1) s1 (fun o h => hw o (List.mem_cons_of_mem _ h)) m1
    refine ⟨s', ?_⟩
    simp only [stabGo]
    have hk : (op.kind == Kind.param) = false := by
      cases h : op.kind <;> first | rfl | exact absurd h ho.gate.2.1
    rw [hk]
    simp only [Bool.false_eq_true, if_false, hp, e1, e2]

/-- **`StabilizerCompiler.compile` returns** on every circuit of the measurement class -/
theorem compileStab_runs2 (ns : Bool) (ne np nc : Nat) (det : Bool) (ops : List COp)
    (hw : ∀ op ∈ ops, OpRuns2 (ne + np) np op) : ∃ s, compileStab ns ne np nc det ops = .ok s := by
  unfold compileStab
  exact stabGo_runs2 ns np (ne + np) det ops.toArray (by
      intro j op hop
      apply hw
      have : op ∈ ops.toArray := Array.mem_of_getElem? hop
      simpa using this) ops 0 _ hw (by simp)

/-! ### the density-matrix side -/

/-- a defined matrix has size `2^n` -/
def DSize (n : Nat) (d : DmSt) : Prop := ∀ ρ, d.ρ = some ρ → ρ.n = 2 ^ n

theorem applyMeasurement_runs (ρ p0 p1 : Mat) (det : Bool) (hn : ρ.n = p0.n) (hp : p1.n = p0.n) :
    ∃ r o, applyMeasurement ρ p0 p1 det = .ok (r, o) ∧ ∀ ρ', r = some ρ' → ρ'.n = p0.n := by
  rw [applyMeasurement_eq ρ p0 p1 det hn]
  simp only
  generalize (if det = true then !isclose0 (prOf ρ p1) else isclose0 (prOf ρ p0)) = oc
  by_cases hz : (if 0 < prOf ρ p0 + prOf ρ p1 then (if oc = true then prOf ρ p1 else prOf ρ p0) / (prOf ρ p0 + prOf ρ p1) else 1) = 0
  · rw [if_pos hz]; exact ⟨none, oc, rfl, fun ρ' h => by cases h⟩
  · rw [if_neg hz]
    refine ⟨_, oc, rfl, ?_⟩
    intro ρ' h
    injection h with h; subst h
    show (if oc = true then p1 else p0).n = p0.n
    cases oc <;> simp [hp]

theorem dmMeasGate_runs (np n : Nat) (det : Bool) (op : COp) (hk : MeasAny op.kind) (hw : OpWF n np op) (d : DmSt)
    (hd : DSize n d) : ∃ d1, dmGate np n det op d = .ok d1 ∧ DSize n d1 := by
  have hq1 := hw.1
  unfold dmGate
  cases hρ : d.ρ with
  | none => exact ⟨d, rfl, hd⟩
  | some ρ =>
    have hρn := hd ρ hρ
    simp only
    have hproj : ∃ p0 p1, projectorsZ n (qIndex np op.r1 op.t1) = .ok (p0, p1) ∧ p0.n = 2 ^ n ∧ p1.n = 2 ^ n := by
      unfold projectorsZ; rw [if_pos hq1]; exact ⟨_, _, rfl, rfl, rfl⟩
    obtain ⟨p0, p1, hp, n0, n1⟩ := hproj
    obtain ⟨r, o, ha, hr⟩ := applyMeasurement_runs ρ p0 p1 det (by rw [hρn, n0]) (by rw [n0, n1])
    have classical : ∀ (g : Mat) (reset : Bool), g.n = 2 → op.kind.isClassicalCtrl = true →
        ∃ d1, (match projectorsZ n (qIndex np op.r1 op.t1) with
          | .error e => (Except.error e : Except Err DmSt)
          | .ok (p0, p1) =>
            match applyMeasurement ρ p0 p1 det with
            | .error e => .error e
            | .ok (none, o) => .ok { ρ := none, creg := setRec d.creg op.c (if o then 1 else 0) }
            | .ok (some ρ1, o) =>
              match (if o then applyUnitary ρ1 ⟨1, getOneQubitGate n (qIndex np op.r2 op.t2) g⟩ else .ok ρ1 : Except Err Mat) with
              | .error e => .error e
              | .ok ρ2 =>
                (if reset then applyChannel ρ2 (resetKraus n (qIndex np op.r1 op.t1)) else .ok ρ2 : Except Err Mat).map
                  fun r => { ρ := some r, creg := setRec d.creg op.c (if o then 1 else 0) }) = .ok d1 ∧ DSize n d1 := by
      intro g reset hgn hc
      have hq2 := hw.2.1 (Or.inr hc)
      rw [hp]
      simp only
      rw [ha]
      cases r with
      | none => exact ⟨_, rfl, fun ρ' h => by cases h⟩
      | some ρ1 =>
        simp only
        have hs1 : ρ1.n = 2 ^ n := by rw [hr ρ1 rfl, n0]
        have hgs := oneQubitGate_n n (qIndex np op.r2 op.t2) hq2 g hgn
        have h2 : ∃ ρ2, (if o then applyUnitary ρ1 ⟨1, getOneQubitGate n (qIndex np op.r2 op.t2) g⟩ else .ok ρ1 : Except Err Mat)
            = .ok ρ2 ∧ ρ2.n = 2 ^ n := by
          cases o with
          | false => exact ⟨ρ1, rfl, hs1⟩
          | true =>
            obtain ⟨r2, e, hr2⟩ := applyUnitary_runs ρ1 ⟨1, getOneQubitGate n (qIndex np op.r2 op.t2) g⟩ (by rw [hs1, hgs])
            exact ⟨r2, e, by rw [hr2, hgs]⟩
        obtain ⟨ρ2, e2, hs2⟩ := h2
        rw [e2]
        simp only
        cases reset with
        | false =>
          refine ⟨_, rfl, ?_⟩
          intro ρ' h; injection h with h; subst h; exact hs2
        | true =>
          simp only [if_true]
          have hk0 := oneQubitGate_n n (qIndex np op.r1 op.t1) hq1 (Mat.m2 1 0 0 0) rfl
          obtain ⟨r3, e3, hr3⟩ := applyChannel_runs ρ2 ⟨1, getOneQubitGate n (qIndex np op.r1 op.t1) (Mat.m2 1 0 0 0)⟩
            [⟨1, getOneQubitGate n (qIndex np op.r1 op.t1) (Mat.m2 0 1 0 0)⟩] (by rw [hs2, hk0])
          have e3' : applyChannel ρ2 (resetKraus n (qIndex np op.r1 op.t1)) = .ok r3 := e3
          rw [e3']
          refine ⟨_, rfl, ?_⟩
          intro ρ' h; injection h with h; subst h; rw [hr3, hs2]
    rcases hk with hk | hk | hk | hk <;> simp only [hk]
    · rw [hp]
      simp only
      rw [ha]
      refine ⟨_, rfl, ?_⟩
      intro ρ' h
      simp only at h
      rw [hr ρ' h, n0]
    · exact classical Mat.sigmax false rfl (by simp [hk, Kind.isClassicalCtrl])
    · exact classical Mat.sigmaz false rfl (by simp [hk, Kind.isClassicalCtrl])
    · exact classical Mat.sigmax true rfl (by simp [hk, Kind.isClassicalCtrl])

theorem dmAct_runs2 (np n : Nat) (det : Bool) (arr : Array COp) (a : Act) (ha : ActRuns2 n np arr a) (d : DmSt)
    (hd : DSize n d) : ∃ d1, dmAct np n det arr d a = .ok d1 ∧ DSize n d1 := by
  cases a with
  | gate k =>
    simp only [dmAct]
    cases hk : arr[k]? with
    | none =>
      rw [getD_none arr k hk]
      refine ⟨d, ?_, hd⟩
      unfold dmGate
      cases d.ρ <;> rfl
    | some op =>
      rw [getD_some arr k op hk]
      obtain ⟨h1, h2, h3⟩ := ha op hk
      rcases h3 with hf | hme
      · cases hρ : d.ρ with
        | none =>
          refine ⟨d, ?_, hd⟩
          unfold dmGate; rw [hρ]
        | some ρ =>
          obtain ⟨d1, ρ1, e1, e2, e3⟩ := dmGate_runs np n det op hf h1 h2 d ρ hρ (hd ρ hρ)
          exact ⟨d1, e1, fun ρ' h => by rw [e2] at h; injection h with h; subst h; exact e3⟩
      · exact dmMeasGate_runs np n det op hme h1 d hd
  | noise k side q nm =>
    simp only [dmAct]
    cases hρ : d.ρ with
    | none => exact ⟨d, rfl, hd⟩
    | some ρ =>
      simp only
      obtain ⟨ρ1, e1, n1⟩ := dmNoise_runs n q ha.1 nm ha.2 ρ (hd ρ hρ)
      rw [e1]
      exact ⟨_, rfl, fun ρ' h => by injection h with h; subst h; exact n1⟩
  | replace k => exact absurd ha id

theorem runDmActs_runs2 (np n : Nat) (det : Bool) (arr : Array COp) : ∀ (acts : List Act) (d : DmSt),
    (∀ a ∈ acts, ActRuns2 n np arr a) → DSize n d → ∃ d', runDmActs np n det arr acts d = .ok d' ∧ DSize n d'
  | [], d, _, hd => ⟨d, rfl, hd⟩
  | a :: as, d, hw, hd => by
    obtain ⟨d1, e1, h1⟩ := dmAct_runs2 np n det arr a (hw a List.mem_cons_self) d hd
    obtain ⟨d', e2, h2⟩ := runDmActs_runs2 np n det arr as d1 (fun b hb => hw b (List.mem_cons_of_mem _ hb)) h1
    exact ⟨d', by simp only [runDmActs, e1, e2], h2⟩

theorem dmGo_runs2 (ns : Bool) (np n : Nat) (det : Bool) (arr : Array COp)
    (harr : ∀ (j : Nat) (o : COp), arr[j]? = some o → OpRuns2 n np o) : ∀ (ops : List COp) (k : Nat) (d : DmSt),
    (∀ op ∈ ops, OpRuns2 n np op) → DSize n d → ∃ d', dmGo ns np n det arr ops k d = .ok d'
  | [], _, d, _, _ => ⟨d, rfl⟩
  | op :: rest, k, d, hw, hd => by
    have ho := hw op List.mem_cons_self
    obtain ⟨acts, hp, hacts⟩ := placeOp_runs2 ns .dm n np arr op k ho harr
    obtain ⟨d1, e1, h1⟩ := runDmActs_runs2 np n det arr acts d hacts hd
    obtain ⟨d', e2⟩ := dmGo_runs2 ns np n det arr harr rest (k + 1) d1 (fun o h => hw o (List.mem_cons_of_mem _ h)) h1
    exact ⟨d', by simp only [dmGo, hp, e1, e2]⟩

/-- **`DensityMatrixCompiler.compile` returns** on every circuit of the measurement class -/
theorem compileDM_runs2 (ns : Bool) (ne np nc : Nat) (det : Bool) (ops : List COp)
    (hw : ∀ op ∈ ops, OpRuns2 (ne + np) np op) : ∃ d, compileDM ns ne np nc det ops = .ok d := by
  unfold compileDM
  exact dmGo_runs2 ns np (ne + np) det ops.toArray (by
      intro j op hop
      apply hw
      have : op ∈ ops.toArray := Array.mem_of_getElem? hop
      simpa using this) ops 0 _ hw (by
      intro ρ h
      injection h with h; subst h
      rfl)

end MixDM
end Graphiq
