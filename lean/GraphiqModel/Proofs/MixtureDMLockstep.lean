/-
  Proofs/MixtureDMLockstep.lean — C06 (c) with measurements on which all branches agree, every number of qubits.

  The two compilers are run in lockstep over the same placement trace.  Invariant: the density matrix of the density-matrix
  model is `Σ_k w_k ρ(T_k)` of the stabilizer model's mixture, every branch a valid tableau with real stabilizer rows.
  Unitary gates and noise keep it by the theorems of MixtureDMCompile / MixtureDMBridgeGate; a Z measurement (`MeasurementZ`,
  and the measurement inside `ClassicalCNOT` / `ClassicalCZ`) keeps it when the flags the stabilizer model accumulates stay
  off: `nonUniform = false` (all branches agree on "random?" and on the outcome) and `lossMeas = false` (total weight 1 at
  the measurement, so that the `isclose` thresholds of `DensityMatrix.apply_measurement` decide as the tableau does).

  * `toC_projectorsZ`, `applyMeasurement_random`, `applyMeasurement_det` : `projectors_zbasis`, `apply_measurement`;
  * `measure_lockstep` : one measurement on both sides;
  * `go_lockstep`, `dm_equals_mixture_meas` : whole circuits.
-/
import GraphiqModel.Proofs.MixtureDMReset
namespace Graphiq
namespace MixDM
open Matrix Hilbert Noise DM PRow

/-! ### `projectors_zbasis`, `apply_measurement` -/

theorem toC_projectorsZ (n q : Nat) (hq : q < n) (p0 p1 : Mat) (h : projectorsZ n q = .ok (p0, p1)) :
    toC n p0 = projZ n q false ∧ toC n p1 = projZ n q true ∧ p0.n = 2 ^ n ∧ p1.n = 2 ^ n := by
  unfold projectorsZ at h
  rw [if_pos hq] at h
  injection h with h
  injection h with h0 h1
  subst h0; subst h1
  have key : ∀ (s : Bool) (v : Nat), v = b2n s →
      toC n ⟨pow2 n, fun i j => if i = j ∧ (i / pow2 (n - q - 1)) % 2 = v then 1 else 0⟩ = projZ n q s := by
    intro s v hv
    ext a b
    unfold projZ
    rw [toC_apply, proj_Zq n q hq s, Matrix.diagonal_apply]
    have bit : idx a / pow2 (n - q - 1) % 2 = b2n (bx a q) := idx_bit a q hq
    show gqC (if idx a = idx b ∧ idx a / pow2 (n - q - 1) % 2 = v then 1 else 0) = _
    rw [bit, hv]
    by_cases hab : a = b
    · subst hab
      by_cases hs : bx a q = s
      · rw [if_pos ⟨rfl, by rw [hs]⟩, if_pos rfl, if_pos hs, gqC_one]
      · rw [if_neg (fun h' => hs (b2n_inj _ _ h'.2)), if_pos rfl, if_neg hs, gqC_zero]
    · rw [if_neg (fun h' => hab (idx_injective a b h'.1)), if_neg hab, gqC_zero]
  exact ⟨key false 0 rfl, key true 1 rfl, rfl, rfl⟩

/-- twice the absolute tolerance of `np.isclose`: with a total weight above it the thresholds of
    `DensityMatrix.apply_measurement` decide "random / deterministic" and the outcome as the tableaux do -/
def wThr : Rat := 2 / 100000000

theorem isclose0_false (x : Rat) (h : 1 / 100000000 < x) : isclose0 x = false := by
  unfold isclose0
  rw [rat_abs_eq, abs_of_pos (by linarith)]
  exact decide_eq_false (by linarith)

theorem isclose0_zero : isclose0 0 = true := by
  unfold isclose0; rw [rat_abs_eq]; norm_num

/-- both outcomes have probability ½ (of the weight `W`): the forced outcome is taken, the state is `2 · Π ρ Π` -/
theorem applyMeasurement_random (ρ p0 p1 : Mat) (det : Bool) (W : Rat) (hW : wThr < W) (hn : ρ.n = p0.n)
    (hp0 : (ρ.mul p0).trace.re = W / 2) (hp1 : (ρ.mul p1).trace.re = W / 2) :
    applyMeasurement ρ p0 p1 det = .ok (some (Mat.smul 2 (Mat.conjBy (if det then p1 else p0) ρ)).norm, det) := by
  unfold wThr at hW
  unfold applyMeasurement
  rw [if_neg (fun h => h hn)]
  simp only [hp0, hp1]
  have hpos : ¬ (W / 2 < 0) := by linarith
  have hic : isclose0 (W / 2) = false := isclose0_false _ (by linarith)
  have hW0 : W ≠ 0 := by linarith
  have hWp : 0 < W := by linarith
  have h3 : W / 2 / W = 1 / 2 := by field_simp
  cases det <;> norm_num [hpos, hic, hWp, h3]

/-- outcome `o0` has probability 1: it is reported whatever the forced outcome, the state is `Π ρ Π` -/
theorem applyMeasurement_det (ρ p0 p1 : Mat) (det o0 : Bool) (W : Rat) (hW : wThr < W) (hn : ρ.n = p0.n)
    (hp0 : (ρ.mul p0).trace.re = if o0 then 0 else W) (hp1 : (ρ.mul p1).trace.re = if o0 then W else 0) :
    applyMeasurement ρ p0 p1 det = .ok (some (Mat.smul 1 (Mat.conjBy (if o0 then p1 else p0) ρ)).norm, o0) := by
  unfold wThr at hW
  unfold applyMeasurement
  rw [if_neg (fun h => h hn)]
  simp only [hp0, hp1]
  have hpos : ¬ (W < 0) := by linarith
  have hic : isclose0 W = false := isclose0_false _ (by linarith)
  have hW0 : W ≠ 0 := by linarith
  have hWp : 0 < W := by linarith
  cases det <;> cases o0 <;> simp [hpos, hic, isclose0_zero, hWp, hW0]

/-! ### the invariant -/

theorem mixRho_herm (n : Nat) : ∀ (m : Mixture), MixGood n m → (mixRho n m)ᴴ = mixRho n m
  | [], _ => by simp [mixRho_nil]
  | (w, t) :: rest, hg => by
    obtain ⟨hn, hv, _⟩ := hg.head
    rw [mixRho_cons]
    apply add_herm _ _ (smul_herm _ _ ?_) (mixRho_herm n rest hg.tail)
    subst hn
    exact rho_hermitian (STab.ofTab t) (ofTab_good t hv)

/-- the density matrix is `Σ_k w_k ρ(T_k)`, every branch is a valid tableau with real stabilizer rows -/
structure Inv (n : Nat) (s : StabSt) (d : DmSt) : Prop where
  dm : ∃ ρ, d.ρ = some ρ ∧ ρ.n = 2 ^ n ∧ toC n ρ = mixRho n s.mix
  good : MixGood n s.mix
  creg : d.creg = s.creg

/-- the outcome `outcomes[0]` the mixture records, when all branches report `o` -/
theorem head_outcome (q : Nat) (det : Bool) (m : Mixture) (o : Bool) (hne : m ≠ [])
    (hall : ∀ o' ∈ (Mix.measure q det m).2, o' = o) : (Mix.measure q det m).2.headD false = o := by
  cases m with
  | nil => exact absurd rfl hne
  | cons x rest =>
    obtain ⟨w, t⟩ := x
    have e : (Mix.measure q det ((w, t) :: rest)).2 = (t.zMeasure q det).2.1 :: (Mix.measure q det rest).2 := by
      simp [Mix.measure]
    rw [e] at hall ⊢
    exact hall _ List.mem_cons_self

theorem total_ne_nil (m : Mixture) (h : wThr < Mix.total m) : m ≠ [] := by
  intro e; subst e; simp [Mix.total_nil, wThr] at h; norm_num at h

theorem trace_re_of (n : Nat) (ρ p : Mat) (hρ : ρ.n = 2 ^ n) (x : Rat)
    (h : (toC n ρ * toC n p).trace = ((x : ℚ) : ℂ)) : (ρ.mul p).trace.re = x := by
  have e : (ρ.mul p).trace = ⟨x, 0⟩ := by
    apply gqC_injective
    rw [gqC_mulTrace n ρ p hρ, h, gqC_ofRat]
  rw [e]

/-- **one measurement on both sides**: total weight above the threshold, all branches alike -/
theorem measure_lockstep (n q : Nat) (hq : q < n) (det : Bool) (m : Mixture) (ρ p0 p1 : Mat) (hg : MixGood n m)
    (hρn : ρ.n = 2 ^ n) (hρ : toC n ρ = mixRho n m) (ht : wThr < Mix.total m) (hu : uniformMeas q det m = true)
    (hp : projectorsZ n q = .ok (p0, p1)) :
    ∃ ρ' o, applyMeasurement ρ p0 p1 det = .ok (some ρ', o) ∧ ρ'.n = 2 ^ n ∧
      toC n ρ' = mixRho n (Mix.measure q det m).1 ∧ (∀ o' ∈ (Mix.measure q det m).2, o' = o) ∧
      Fixed n q o (Mix.measure q det m).1 := by
  obtain ⟨e0, e1, n0, n1⟩ := toC_projectorsZ n q hq p0 p1 hp
  have hnn : ρ.n = p0.n := by rw [hρn, n0]
  cases m with
  | nil => exact absurd rfl (total_ne_nil _ ht)
  | cons x rest =>
    obtain ⟨w0, t0⟩ := x
    have hspec := uniformMeas_spec q det w0 t0 rest hu
    obtain ⟨hn0, hv0, hr0⟩ := hg.head
    cases hr : (t0.pivot q).isSome with
    | true =>
      obtain ⟨pp, hpp⟩ := Option.isSome_iff_exists.1 hr
      have ho : (t0.zMeasure q det).2.1 = det := (branch_random n t0 hn0 hv0 hr0 q hq det pp hpp).2.1
      rw [hr, ho] at hspec
      obtain ⟨r1, r2, r3⟩ := measure_random n q hq det _ hg hspec
      have t0' : (ρ.mul p0).trace.re = Mix.total ((w0, t0) :: rest) / 2 :=
        trace_re_of n ρ p0 hρn _ (by rw [hρ, e0, r2 false]; push_cast; ring)
      have t1' : (ρ.mul p1).trace.re = Mix.total ((w0, t0) :: rest) / 2 :=
        trace_re_of n ρ p1 hρn _ (by rw [hρ, e1, r2 true]; push_cast; ring)
      refine ⟨_, det, applyMeasurement_random ρ p0 p1 det _ ht hnn t0' t1', ?_, ?_, r3, measure_fixed n q hq det _ _ _ hg hspec⟩
      · show (if det = true then p1 else p0).n = 2 ^ n
        cases det <;> simp [n0, n1]
      · have hsz : (Mat.smul 2 (Mat.conjBy (if det = true then p1 else p0) ρ)).n = 2 ^ n := by
          show (if det = true then p1 else p0).n = 2 ^ n
          cases det <;> simp [n0, n1]
        have hpn : (if det = true then p1 else p0).n = 2 ^ n := by cases det <;> simp [n0, n1]
        have hpc : toC n (if det = true then p1 else p0) = projZ n q det := by cases det <;> simp [e0, e1]
        rw [toC_norm n _ hsz, toC_smul, toC_conjBy n _ _ hpn, hpc, hρ, r1]
        unfold conjH
        rw [projZ_herm]
        push_cast
        rfl
    | false =>
      rw [hr] at hspec
      obtain ⟨r1, r2, r3, r4, r5⟩ := measure_det n q hq det (t0.zMeasure q det).2.1 _ hg hspec
      have hfx := measure_fixed n q hq det _ _ _ hg hspec
      generalize (t0.zMeasure q det).2.1 = o0 at r2 r3 r4 r5 hfx
      have t0' : (ρ.mul p0).trace.re = if o0 then 0 else Mix.total ((w0, t0) :: rest) := by
        cases o0
        · exact trace_re_of n ρ p0 hρn (Mix.total ((w0, t0) :: rest)) (by rw [hρ, e0, r3])
        · exact trace_re_of n ρ p0 hρn 0 (by rw [hρ, e0]; simpa using r4)
      have t1' : (ρ.mul p1).trace.re = if o0 then Mix.total ((w0, t0) :: rest) else 0 := by
        cases o0
        · exact trace_re_of n ρ p1 hρn 0 (by rw [hρ, e1]; simpa using r4)
        · exact trace_re_of n ρ p1 hρn (Mix.total ((w0, t0) :: rest)) (by rw [hρ, e1, r3])
      have hpn : (if o0 = true then p1 else p0).n = 2 ^ n := by cases o0 <;> simp [n0, n1]
      have hpc : toC n (if o0 = true then p1 else p0) = projZ n q o0 := by cases o0 <;> simp [e0, e1]
      refine ⟨_, o0, applyMeasurement_det ρ p0 p1 det o0 _ ht hnn t0' t1', hpn, ?_, r5, hfx⟩
      have hsz : (Mat.smul 1 (Mat.conjBy (if o0 = true then p1 else p0) ρ)).n = 2 ^ n := hpn
      rw [toC_norm n _ hsz, toC_smul, toC_conjBy n _ _ hpn, hpc, hρ, r1]
      unfold conjH
      rw [projZ_herm, r2]
      simp

/-! ### gates with a measurement -/

theorem conditioned_all (f : Tab → Tab) (o : Bool) : ∀ (outs : List Bool) (m : Mixture), outs.length = m.length →
    (∀ x ∈ outs, x = o) → Mix.conditioned f outs m = if o then Mix.mapTab f m else m
  | [], [], _, _ => by cases o <;> simp [Mix.conditioned, Mix.mapTab]
  | [], _ :: _, h, _ => by simp at h
  | _ :: _, [], h, _ => by simp at h
  | o' :: os, (p, t) :: m, h, ha => by
    have ih := conditioned_all f o os m (by simpa using h) (fun x hx => ha x (List.mem_cons_of_mem _ hx))
    have e : o' = o := ha o' List.mem_cons_self
    subst e
    have : Mix.conditioned f (o' :: os) ((p, t) :: m) =
        (if o' then (p, (f t).norm) else (p, t)) :: Mix.conditioned f os m := by simp [Mix.conditioned]
    rw [this, ih]
    cases o' <;> simp [Mix.mapTab]

/-- the operations with a measurement that are covered: `MeasurementZ`, `ClassicalCNOT`, `ClassicalCZ`, without noise -/
def MeasKind (k : Kind) : Prop := k = .measZ ∨ k = .ccnot ∨ k = .ccz

/-- `compile_one_gate` for an operation with a measurement, both sides, flags off -/
theorem measGate_lockstep (np n : Nat) (det : Bool) (op : COp) (hk : MeasKind op.kind) (hw : OpWF n np op)
    (s s1 : StabSt) (d d1 : DmSt) (hI : Inv n s d)
    (hs : stabGate np n det op s = .ok s1) (hd : dmGate np n det op d = .ok d1)
    (hu : s1.nonUniform = false) (hW : wThr < Mix.total s.mix) : Inv n s1 d1 := by
  obtain ⟨⟨ρ, hρs, hρn, hρ⟩, hg, hcr⟩ := hI
  have hq1 := hw.1
  have hne := total_ne_nil _ hW
  unfold stabGate at hs
  unfold dmGate at hd
  simp only [hρs] at hd
  rcases hk with hk | hk | hk <;> simp only [hk] at hs hd
  · -- MeasurementZ
    unfold stabMeasZ at hs
    rw [if_pos hq1] at hs
    injection hs with hs; subst hs
    simp only [Bool.or_eq_false_iff, Bool.not_eq_false'] at hu
    cases hp : projectorsZ n (qIndex np op.r1 op.t1) with
    | error e => rw [hp] at hd; cases hd
    | ok pp =>
      obtain ⟨p0, p1⟩ := pp
      rw [hp] at hd
      simp only at hd
      obtain ⟨ρ', o, hm, hn', hc, hall, _⟩ := measure_lockstep n _ hq1 det s.mix ρ p0 p1 hg hρn hρ hW hu.2 hp
      have hhead := head_outcome _ det s.mix o hne hall
      rw [hm] at hd
      injection hd with hd; subst hd
      refine ⟨⟨ρ', rfl, hn', hc⟩, measure_good n _ hq1 det s.mix hg, ?_⟩
      show setRec d.creg op.c _ = setRec s.creg op.c _
      rw [hcr, hhead]
  all_goals
    -- ClassicalCNOT / ClassicalCZ: measure the control, apply the Pauli to the target in the branches with outcome 1
    have hq2 := hw.2.1 (Or.inr (by simp [hk, Kind.isClassicalCtrl]))
    unfold stabClassical at hs
    rw [if_pos ⟨hq1, hq2⟩] at hs
    injection hs with hs; subst hs
    simp only [Bool.or_eq_false_iff, Bool.not_eq_false'] at hu
    cases hp : projectorsZ n (qIndex np op.r1 op.t1) with
    | error e => rw [hp] at hd; cases hd
    | ok pp =>
      obtain ⟨p0, p1⟩ := pp
      rw [hp] at hd
      simp only at hd
      obtain ⟨ρ', o, hm, hn', hc, hall, _⟩ := measure_lockstep n _ hq1 det s.mix ρ p0 p1 hg hρn hρ hW hu.2 hp
      rw [hm] at hd
      simp only at hd
      have hlen := Mix.measure_length (qIndex np op.r1 op.t1) det s.mix
      have hgm := measure_good n _ hq1 det s.mix hg
      have hhead := head_outcome _ det s.mix o hne hall
      simp only [Bool.false_eq_true, if_false]
      rw [conditioned_all _ o _ _ (by rw [hlen.1, hlen.2]) hall]
      cases o with
      | false =>
        simp only [Bool.false_eq_true, if_false] at hd ⊢
        injection hd with hd; subst hd
        refine ⟨⟨ρ', rfl, hn', hc⟩, hgm, ?_⟩
        show setRec d.creg op.c _ = setRec s.creg op.c _
        rw [hcr, hhead]; rfl
      | true =>
        simp only [if_true] at hd ⊢
        have hh : (toC n ρ')ᴴ = toC n ρ' := by rw [hc]; exact mixRho_herm n _ hgm
        first
        | (cases hu' : applyUnitary ρ' ⟨1, getOneQubitGate n (qIndex np op.r2 op.t2) Mat.sigmax⟩ with
           | error e => rw [hu'] at hd; cases hd
           | ok r =>
             rw [hu'] at hd
             simp only [Bool.false_eq_true, if_false] at hd
             injection hd with hd; subst hd
             obtain ⟨e, hr⟩ := applyUnitary_toC n ρ' ⟨1, getOneQubitGate n (qIndex np op.r2 op.t2) Mat.sigmax⟩ hn'
               (oneQubitGate_n n _ hq2 Mat.sigmax rfl) hh r hu'
             refine ⟨⟨r, rfl, hr, ?_⟩, ?_, ?_⟩
             · rw [e]
               show _ • conjH (toC n (getOneQubitGate n (qIndex np op.r2 op.t2) Mat.sigmax)) _ = _
               rw [toC_oneQubitGate n _ hq2, toC2_sigmax, hc]
               have := mixRho_mapGate n (.X (qIndex np op.r2 op.t2)) hq2 _ hgm.mixN
               simp only [Rat.cast_one, one_smul]
               exact this.symm
             · exact mixGood_of n _ (mapTab_ok n _ (keeps_x n _ hq2) _ hgm.ok)
                 (mapTab_real _ (fun t hr => gate_stabReal t (.X (qIndex np op.r2 op.t2)) hr) _ (fun x hx => (hgm x hx).2.2))
             · show setRec d.creg op.c _ = setRec s.creg op.c _
               rw [hcr, hhead]; rfl)
        | (cases hu' : applyUnitary ρ' ⟨1, getOneQubitGate n (qIndex np op.r2 op.t2) Mat.sigmaz⟩ with
           | error e => rw [hu'] at hd; cases hd
           | ok r =>
             rw [hu'] at hd
             simp only [Bool.false_eq_true, if_false] at hd
             injection hd with hd; subst hd
             obtain ⟨e, hr⟩ := applyUnitary_toC n ρ' ⟨1, getOneQubitGate n (qIndex np op.r2 op.t2) Mat.sigmaz⟩ hn'
               (oneQubitGate_n n _ hq2 Mat.sigmaz rfl) hh r hu'
             refine ⟨⟨r, rfl, hr, ?_⟩, ?_, ?_⟩
             · rw [e]
               show _ • conjH (toC n (getOneQubitGate n (qIndex np op.r2 op.t2) Mat.sigmaz)) _ = _
               rw [toC_oneQubitGate n _ hq2, toC2_sigmaz, hc]
               have := mixRho_mapGate n (.Z (qIndex np op.r2 op.t2)) hq2 _ hgm.mixN
               simp only [Rat.cast_one, one_smul]
               exact this.symm
             · exact mixGood_of n _ (mapTab_ok n _ (keeps_z n _ hq2) _ hgm.ok)
                 (mapTab_real _ (fun t hr => gate_stabReal t (.Z (qIndex np op.r2 op.t2)) hr) _ (fun x hx => (hgm x hx).2.2))
             · show setRec d.creg op.c _ = setRec s.creg op.c _
               rw [hcr, hhead]; rfl)

/-! ### `MeasurementCNOTandReset` -/

/-- the 2×2 diagonal projector `|s⟩⟨s|` -/
noncomputable def diag2 (s : Bool) : Matrix Bool Bool ℂ := Matrix.of fun a b => if a = b ∧ a = s then 1 else 0

theorem toC2_ket0bra0 : toC2 (Mat.m2 1 0 0 0) = diag2 false := by
  ext a b; cases a <;> cases b <;> simp [toC2, b2n, Mat.m2, diag2, gqC_zero, gqC_one]

theorem toC2_ket0bra1 : toC2 (Mat.m2 0 1 0 0) = sigmaX * diag2 true := by
  ext a b
  cases a <;> cases b <;>
    simp [toC2, b2n, Mat.m2, diag2, sigmaX, gqC_zero, gqC_one, Matrix.mul_apply, Fintype.sum_bool]

theorem oneQ_diag2 (n q : Nat) (hq : q < n) (s : Bool) : oneQ n q (diag2 s) = projZ n q s := by
  unfold projZ
  rw [proj_Zq n q hq s]
  ext a b
  rw [oneQ_apply, Matrix.diagonal_apply]
  simp only [diag2, Matrix.of_apply]
  by_cases hab : a = b
  · subst hab
    rw [if_pos (fun _ _ => rfl), if_pos rfl]
    by_cases hs : bx a q = s
    · rw [if_pos ⟨rfl, hs⟩, if_pos hs]
    · rw [if_neg (fun h => hs h.2), if_neg hs]
  · rw [if_neg hab]
    by_cases ho : ∀ j : Fin n, j.val ≠ q → a j = b j
    · rw [if_pos ho]
      have hne : bx a q ≠ bx b q := fun e => hab ((bits_eq_iff_site q a b).2 ⟨ho, e⟩)
      rw [if_neg (fun h => hne h.1)]
    · rw [if_neg ho]

theorem resetH_herm (n q : Nat) (R : HMat n) (h : Rᴴ = R) : (resetH n q R)ᴴ = resetH n q R := by
  unfold resetH
  exact add_herm _ _ (conjH_herm _ _ h) (conjH_herm _ _ h)

/-- **`get_reset_qubit_kraus` through `apply_channel`** is the reset channel -/
theorem dmReset_toC (n q : Nat) (hq : q < n) (ρ ρ' : Mat) (hρn : ρ.n = 2 ^ n) (hh : (toC n ρ)ᴴ = toC n ρ)
    (h : applyChannel ρ (resetKraus n q) = .ok ρ') : toC n ρ' = resetH n q (toC n ρ) ∧ ρ'.n = 2 ^ n := by
  unfold resetKraus applyChannel at h
  simp only at h
  split at h; · cases h
  injection h with h; subst h
  simp only [List.foldl_cons, List.foldl_nil]
  have k0 := oneQubitGate_n n q hq (Mat.m2 1 0 0 0) rfl
  have k1 := oneQubitGate_n n q hq (Mat.m2 0 1 0 0) rfl
  have h0 : (Mat.zero ρ.n).n = 2 ^ n := hρn
  obtain ⟨e1, n1⟩ := chanStep_toC n (Mat.zero ρ.n) _ ρ 1 h0 k0
  obtain ⟨e2, n2⟩ := chanStep_toC n _ _ ρ 1 n1 k1
  refine ⟨?_, n2⟩
  rw [toC_hermNorm n _ n2, e2, e1, toC_zero, toC_oneQubitGate n q hq, toC_oneQubitGate n q hq, toC2_ket0bra0, toC2_ket0bra1,
    ← oneQ_mul n q hq, oneQ_diag2 n q hq, oneQ_diag2 n q hq]
  have hd : resetH n q (toC n ρ) = 0 + ((1 : ℚ) : ℂ) • conjH (projZ n q false) (toC n ρ)
      + ((1 : ℚ) : ℂ) • conjH (oneQ n q sigmaX * projZ n q true) (toC n ρ) := by
    unfold resetH
    simp only [Rat.cast_one, one_smul, zero_add]
    rfl
  rw [← hd]
  exact hermH_of_herm _ (resetH_herm n q _ hh)

/-- `compile_one_gate` for `MeasurementCNOTandReset` (distinct qubits, no noise attached), both sides, flag off -/
theorem mcrGate_lockstep (np n : Nat) (det : Bool) (op : COp) (hk : op.kind = .mcr) (hw : OpWF n np op)
    (hne : qIndex np op.r1 op.t1 ≠ qIndex np op.r2 op.t2)
    (s s1 : StabSt) (d d1 : DmSt) (hI : Inv n s d)
    (hs : stabGate np n det op s = .ok s1) (hd : dmGate np n det op d = .ok d1)
    (hu : s1.nonUniform = false) (hW : wThr < Mix.total s.mix) : Inv n s1 d1 := by
  obtain ⟨⟨ρ, hρs, hρn, hρ⟩, hg, hcr⟩ := hI
  have hq1 := hw.1
  have hne' := total_ne_nil _ hW
  have hq2 := hw.2.1 (Or.inr (by simp [hk, Kind.isClassicalCtrl]))
  unfold stabGate at hs
  unfold dmGate at hd
  simp only [hρs, hk] at hs hd
  unfold stabClassical at hs
  rw [if_pos ⟨hq1, hq2⟩] at hs
  injection hs with hs; subst hs
  simp only [Bool.or_eq_false_iff, Bool.not_eq_false'] at hu
  cases hp : projectorsZ n (qIndex np op.r1 op.t1) with
  | error e => rw [hp] at hd; cases hd
  | ok pp =>
    obtain ⟨p0, p1⟩ := pp
    rw [hp] at hd
    simp only at hd
    obtain ⟨ρ', o, hm, hn', hc, hall, hfx⟩ := measure_lockstep n _ hq1 det s.mix ρ p0 p1 hg hρn hρ hW hu.2 hp
    rw [hm] at hd
    simp only at hd
    have hlen := Mix.measure_length (qIndex np op.r1 op.t1) det s.mix
    have hgm := measure_good n _ hq1 det s.mix hg
    have hhead := head_outcome _ det s.mix o hne' hall
    simp only [if_true]
    rw [conditioned_all _ o _ _ (by rw [hlen.1, hlen.2]) hall]
    have hh : (toC n ρ')ᴴ = toC n ρ' := by rw [hc]; exact mixRho_herm n _ hgm
    -- the state after the conditional X on the target: `ρ2` on the DM side, `m2` on the mixture side
    have step2 : ∀ (ρ2 : Mat),
        (if o = true then applyUnitary ρ' ⟨1, getOneQubitGate n (qIndex np op.r2 op.t2) Mat.sigmax⟩ else .ok ρ') = .ok ρ2 →
        ρ2.n = 2 ^ n ∧
        toC n ρ2 = mixRho n (if o = true then Mix.mapTab (fun t => t.xGate (qIndex np op.r2 op.t2))
          (Mix.measure (qIndex np op.r1 op.t1) det s.mix).1 else (Mix.measure (qIndex np op.r1 op.t1) det s.mix).1) ∧
        MixGood n (if o = true then Mix.mapTab (fun t => t.xGate (qIndex np op.r2 op.t2))
          (Mix.measure (qIndex np op.r1 op.t1) det s.mix).1 else (Mix.measure (qIndex np op.r1 op.t1) det s.mix).1) ∧
        Fixed n (qIndex np op.r1 op.t1) o (if o = true then Mix.mapTab (fun t => t.xGate (qIndex np op.r2 op.t2))
          (Mix.measure (qIndex np op.r1 op.t1) det s.mix).1 else (Mix.measure (qIndex np op.r1 op.t1) det s.mix).1) := by
      intro ρ2 h2
      cases o with
      | false =>
        simp only [Bool.false_eq_true, if_false] at h2 ⊢
        injection h2 with h2; subst h2
        exact ⟨hn', hc, hgm, hfx⟩
      | true =>
        simp only [if_true] at h2 ⊢
        obtain ⟨e, hr⟩ := applyUnitary_toC n ρ' ⟨1, getOneQubitGate n (qIndex np op.r2 op.t2) Mat.sigmax⟩ hn'
          (oneQubitGate_n n _ hq2 Mat.sigmax rfl) hh ρ2 h2
        refine ⟨hr, ?_, ?_, mapX_fixed n _ _ hq2 hne true _ hgm.mixN hfx⟩
        · rw [e]
          show _ • conjH (toC n (getOneQubitGate n (qIndex np op.r2 op.t2) Mat.sigmax)) _ = _
          rw [toC_oneQubitGate n _ hq2, toC2_sigmax, hc]
          have := mixRho_mapGate n (.X (qIndex np op.r2 op.t2)) hq2 _ hgm.mixN
          simp only [Rat.cast_one, one_smul]
          exact this.symm
        · exact mixGood_of n _ (mapTab_ok n _ (keeps_x n _ hq2) _ hgm.ok)
            (mapTab_real _ (fun t hr => gate_stabReal t (.X (qIndex np op.r2 op.t2)) hr) _ (fun x hx => (hgm x hx).2.2))
    cases h2 : (if o = true then applyUnitary ρ' ⟨1, getOneQubitGate n (qIndex np op.r2 op.t2) Mat.sigmax⟩ else .ok ρ') with
    | error e => rw [h2] at hd; cases hd
    | ok ρ2 =>
      rw [h2] at hd
      simp only [if_true] at hd
      obtain ⟨n2, c2, g2, f2⟩ := step2 ρ2 h2
      have hh2 : (toC n ρ2)ᴴ = toC n ρ2 := by rw [c2]; exact mixRho_herm n _ g2
      cases h3 : applyChannel ρ2 (resetKraus n (qIndex np op.r1 op.t1)) with
      | error e => rw [h3] at hd; cases hd
      | ok r =>
        rw [h3] at hd
        injection hd with hd; subst hd
        obtain ⟨e3, n3⟩ := dmReset_toC n _ hq1 ρ2 r n2 hh2 h3
        refine ⟨⟨r, rfl, n3, ?_⟩, reset_good n _ hq1 det _ g2, ?_⟩
        · rw [e3, c2, resetH_of_fixed n _ hq1 o _ (fixed_mixRho n _ o _ f2), mixRho_reset n _ hq1 det o _ g2 f2]
        · show setRec d.creg op.c _ = setRec s.creg op.c _
          rw [hcr, hhead]

/-! ### flags only ever switch on -/

theorem stabGate_flags (np n : Nat) (det : Bool) (op : COp) (s s1 : StabSt) (h : stabGate np n det op s = .ok s1) :
    (s1.nonUniform = false → s.nonUniform = false) ∧ (s1.lossMeas = false → s.lossMeas = false) := by
  unfold stabGate at h
  simp only at h
  have m1 : ∀ (q : Nat) (f : Tab → Tab), stabMap1 n q f s = .ok s1 →
      (s1.nonUniform = false → s.nonUniform = false) ∧ (s1.lossMeas = false → s.lossMeas = false) := by
    intro q f h; unfold stabMap1 at h; split at h
    · injection h with h; subst h; exact ⟨id, id⟩
    · cases h
  have m2 : ∀ (q1 q2 : Nat) (f : Tab → Tab), stabMap2 n q1 q2 f s = .ok s1 →
      (s1.nonUniform = false → s.nonUniform = false) ∧ (s1.lossMeas = false → s.lossMeas = false) := by
    intro q1 q2 f h; unfold stabMap2 at h; split at h
    · injection h with h; subst h; exact ⟨id, id⟩
    · cases h
  have m3 : ∀ (q1 q2 c : Nat) (f : Tab → Tab) (r : Bool), stabClassical n q1 q2 c det f r s = .ok s1 →
      (s1.nonUniform = false → s.nonUniform = false) ∧ (s1.lossMeas = false → s.lossMeas = false) := by
    intro q1 q2 c f r h; unfold stabClassical at h; split at h
    · injection h with h; subst h
      exact ⟨fun h => (Bool.or_eq_false_iff.1 h).1, fun h => (Bool.or_eq_false_iff.1 h).1⟩
    · cases h
  have m4 : ∀ (q1 c : Nat), stabMeasZ n q1 c det s = .ok s1 →
      (s1.nonUniform = false → s.nonUniform = false) ∧ (s1.lossMeas = false → s.lossMeas = false) := by
    intro q1 c h; unfold stabMeasZ at h; split at h
    · injection h with h; subst h
      exact ⟨fun h => (Bool.or_eq_false_iff.1 h).1, fun h => (Bool.or_eq_false_iff.1 h).1⟩
    · cases h
  cases hk : op.kind <;> simp only [hk] at h
  all_goals first
    | (injection h with h; subst h; exact ⟨id, id⟩)
    | exact m1 _ _ h
    | exact m2 _ _ _ h
    | exact m3 _ _ _ _ _ h
    | exact m4 _ _ h
    | cases h

theorem stabAct_flags (np n : Nat) (det : Bool) (arr : Array COp) (s s1 : StabSt) (a : Act)
    (h : stabAct np n det arr s a = .ok s1) :
    (s1.nonUniform = false → s.nonUniform = false) ∧ (s1.lossMeas = false → s.lossMeas = false) := by
  cases a with
  | gate k => exact stabGate_flags np n det _ s s1 h
  | noise k side q nm =>
    simp only [stabAct] at h
    cases hn : Mix.applyNoise nm q s.mix with
    | error e => rw [hn] at h; cases h
    | ok m' => rw [hn] at h; injection h with h; subst h; exact ⟨id, id⟩
  | replace k => simp [stabAct] at h

theorem runStabActs_flags (np n : Nat) (det : Bool) (arr : Array COp) : ∀ (acts : List Act) (s s' : StabSt),
    runStabActs np n det arr acts s = .ok s' →
    (s'.nonUniform = false → s.nonUniform = false) ∧ (s'.lossMeas = false → s.lossMeas = false)
  | [], s, s', h => by simp [runStabActs] at h; subst h; exact ⟨id, id⟩
  | a :: as, s, s', h => by
    simp only [runStabActs] at h
    cases ha : stabAct np n det arr s a with
    | error e => rw [ha] at h; cases h
    | ok s1 =>
      rw [ha] at h
      have h1 := stabAct_flags np n det arr s s1 a ha
      have h2 := runStabActs_flags np n det arr as s1 s' h
      exact ⟨fun x => h1.1 (h2.1 x), fun x => h1.2 (h2.2 x)⟩

theorem stabGo_flags (ns : Bool) (np n : Nat) (det : Bool) (arr : Array COp) : ∀ (ops : List COp) (k : Nat) (s s' : StabSt),
    stabGo ns np n det arr ops k s = .ok s' →
    (s'.nonUniform = false → s.nonUniform = false) ∧ (s'.lossMeas = false → s.lossMeas = false)
  | [], k, s, s', h => by simp [stabGo] at h; subst h; exact ⟨id, id⟩
  | op :: rest, k, s, s', h => by
    simp only [stabGo] at h
    split at h
    · cases h
    · cases hp : placeOp ns .stab np op k with
      | error e => rw [hp] at h; cases h
      | ok acts =>
        rw [hp] at h; simp only at h
        cases hr : runStabActs np n det arr acts s with
        | error e => rw [hr] at h; cases h
        | ok s1 =>
          rw [hr] at h; simp only at h
          have h1 := runStabActs_flags np n det arr acts s s1 hr
          have h2 := stabGo_flags ns np n det arr rest (k + 1) s1 s' h
          exact ⟨fun x => h1.1 (h2.1 x), fun x => h1.2 (h2.2 x)⟩

/-! ### the two compilers in lockstep -/

theorem stabGate_real (np n : Nat) (det : Bool) (op : COp) (hf : MFree op) (s s1 : StabSt) (hm : MixReal s.mix)
    (h : stabGate np n det op s = .ok s1) : MixReal s1.mix := by
  unfold stabGate at h
  simp only at h
  have m1 : ∀ (q : Nat) (g : Gate), stabMap1 n q (fun t => t.map g.act) s = .ok s1 → MixReal s1.mix := by
    intro q g h; unfold stabMap1 at h; split at h
    · injection h with h; subst h; exact mapTab_real _ (fun t hr => gate_stabReal t g hr) _ hm
    · cases h
  have m2 : ∀ (q1 q2 : Nat) (g : Gate), stabMap2 n q1 q2 (fun t => t.map g.act) s = .ok s1 → MixReal s1.mix := by
    intro q1 q2 g h; unfold stabMap2 at h; split at h
    · injection h with h; subst h; exact mapTab_real _ (fun t hr => gate_stabReal t g hr) _ hm
    · cases h
  cases hk : op.kind <;> simp only [hk] at h
  case input => injection h with h; subst h; exact hm
  case output => injection h with h; subst h; exact hm
  case identity => injection h with h; subst h; exact hm
  case h => exact m1 _ (.H _) h
  case s => exact m1 _ (.P _) h
  case sdg => exact m1 _ (.Pdag _) h
  case x => exact m1 _ (.X _) h
  case y => exact m1 _ (.Y _) h
  case z => exact m1 _ (.Z _) h
  case cnot => exact m2 _ _ (.CNOT _ _) h
  case cz => exact m2 _ _ (.CZ _ _) h
  case ccnot => rcases hf with hf | hf <;> simp [hk, Kind.isOneQubit, Kind.isCtrlPair] at hf
  case ccz => rcases hf with hf | hf <;> simp [hk, Kind.isOneQubit, Kind.isCtrlPair] at hf
  case mcr => rcases hf with hf | hf <;> simp [hk, Kind.isOneQubit, Kind.isCtrlPair] at hf
  case measZ => rcases hf with hf | hf <;> simp [hk, Kind.isOneQubit, Kind.isCtrlPair] at hf
  case param => cases h

/-- a photon-loss rate lies in `[0,1]` -/
def LossOK : NoiseM → Prop
  | .loss r _ => 0 ≤ r ∧ r ≤ 1
  | _ => True

/-- depolarizing probability and loss rate in `[0,1]` -/
def ParamOK2 (nm : NoiseM) : Prop := ParamOK nm ∧ LossOK nm

/-- `MeasurementCNOTandReset` on two distinct qubits -/
def McrOK (np : Nat) (op : COp) : Prop := op.kind = .mcr ∧ qIndex np op.r1 op.t1 ≠ qIndex np op.r2 op.t2

/-- the operations of the extended class: the measurement-free ones of `OpOK` (loss rates in `[0,1]`), and `MeasurementZ` /
    `ClassicalCNOT` / `ClassicalCZ` / `MeasurementCNOTandReset` (distinct qubits) on existing qubits without noise attached -/
inductive OpOK2 (n np : Nat) (op : COp) : Prop
  | unitary (h : OpOK n np op) (l0 : LossOK op.n0) (l1 : LossOK op.n1)
  | meas (hk : MeasKind op.kind ∨ McrOK np op) (hw : OpWF n np op) (h0 : op.n0.isNone = true) (h1 : op.n1.isNone = true)

theorem OpOK2.wf {n np : Nat} {op : COp} (h : OpOK2 n np op) : OpWF n np op := by
  cases h with
  | unitary h => exact h.wf
  | meas _ hw _ _ => exact hw

theorem OpOK2.kind {n np : Nat} {op : COp} (h : OpOK2 n np op) : MFree op ∨ (MeasKind op.kind ∨ McrOK np op) := by
  cases h with
  | unitary h => exact Or.inl h.mfree
  | meas hk _ _ _ => exact Or.inr hk

theorem lossOK_of_none (nm : NoiseM) (h : nm.isNone = true) : LossOK nm := by cases nm <;> simp_all [NoiseM.isNone, LossOK]

theorem OpOK2.loss {n np : Nat} {op : COp} (h : OpOK2 n np op) : LossOK op.n0 ∧ LossOK op.n1 := by
  cases h with
  | unitary _ l0 l1 => exact ⟨l0, l1⟩
  | meas _ _ h0 h1 => exact ⟨lossOK_of_none _ h0, lossOK_of_none _ h1⟩

def ActOK2 (n np : Nat) (arr : Array COp) : Act → Prop
  | .gate k => ∀ op, arr[k]? = some op → OpWF n np op ∧ (MFree op ∨ (MeasKind op.kind ∨ McrOK np op))
  | .noise _ _ q nm => q < n ∧ ParamOK2 nm
  | .replace _ => True

theorem getD_none (arr : Array COp) (k : Nat) (hk : arr[k]? = none) :
    arr.getD k { kind := .identity } = { kind := .identity } := by
  simp [Array.getD, Array.getElem?_eq_none_iff.1 hk |> Nat.not_lt.2]

theorem getD_some (arr : Array COp) (k : Nat) (op : COp) (hk : arr[k]? = some op) :
    arr.getD k { kind := .identity } = op := by
  have hlt : k < arr.size := by
    rcases Nat.lt_or_ge k arr.size with h' | h'
    · exact h'
    · rw [Array.getElem?_eq_none_iff.2 h'] at hk; cases hk
  simp [Array.getD, hlt]
  have := Array.getElem?_eq_getElem hlt
  rw [this] at hk; injection hk

/-! #### the total weight never grows (loss rates in `[0,1]`) -/

theorem weight_mono (thr f T : Rat) (h0 : 0 < thr) (hf0 : 0 ≤ f) (hf1 : f ≤ 1) (h : thr < f * T) : thr < T := by
  have hT : 0 < T := by
    by_contra hc
    have : f * T ≤ 0 := mul_nonpos_of_nonneg_of_nonpos hf0 (not_lt.1 hc)
    linarith
  have : f * T ≤ 1 * T := mul_le_mul_of_nonneg_right hf1 (le_of_lt hT)
  linarith

theorem wThr_pos : 0 < wThr := by unfold wThr; norm_num

theorem lossOf_range (a : Act) (h : ∀ k side q nm, a = .noise k side q nm → LossOK nm) : 0 ≤ lossOf a ∧ lossOf a ≤ 1 := by
  cases a with
  | gate k => simp [lossOf]
  | replace k => simp [lossOf]
  | noise k side q nm =>
    have hl := h k side q nm rfl
    cases nm with
    | loss r a =>
      have h1 : 0 ≤ r := hl.1
      have h2 : r ≤ 1 := hl.2
      simp only [lossOf]
      constructor <;> linarith
    | none => simp [lossOf]
    | depol p a => simp [lossOf]
    | pauli k a => simp [lossOf]
    | replace => simp [lossOf]
    | other => simp [lossOf]

theorem lossFactor_range : ∀ (tr : List Act), TraceP LossOK tr → 0 ≤ lossFactor tr ∧ lossFactor tr ≤ 1
  | [], _ => by simp [lossFactor]
  | a :: as, h => by
    obtain ⟨a0, a1⟩ := lossOf_range a (fun k side q nm e => h k side q nm (by rw [e]; exact List.mem_cons_self))
    obtain ⟨i0, i1⟩ := lossFactor_range as (fun k side q nm hm => h k side q nm (List.mem_cons_of_mem _ hm))
    simp only [lossFactor]
    exact ⟨mul_nonneg a0 i0, by calc lossOf a * lossFactor as ≤ 1 * 1 := mul_le_mul a1 i1 i0 (by norm_num)
                                  _ = 1 := by norm_num⟩

theorem stabGate_creg (np n : Nat) (det : Bool) (op : COp) (hf : MFree op) (s s1 : StabSt)
    (h : stabGate np n det op s = .ok s1) : s1.creg = s.creg := by
  unfold stabGate at h
  simp only at h
  have m1 : ∀ (q : Nat) (f : Tab → Tab), stabMap1 n q f s = .ok s1 → s1.creg = s.creg := by
    intro q f h; unfold stabMap1 at h; split at h
    · injection h with h; subst h; rfl
    · cases h
  have m2 : ∀ (q1 q2 : Nat) (f : Tab → Tab), stabMap2 n q1 q2 f s = .ok s1 → s1.creg = s.creg := by
    intro q1 q2 f h; unfold stabMap2 at h; split at h
    · injection h with h; subst h; rfl
    · cases h
  cases hk : op.kind <;> simp only [hk] at h
  all_goals first
    | (injection h with h; subst h; rfl)
    | exact m1 _ _ h
    | exact m2 _ _ _ h
    | cases h
    | (rcases hf with hf | hf <;> simp [hk, Kind.isOneQubit, Kind.isCtrlPair] at hf)

theorem dmGate_creg (np n : Nat) (det : Bool) (op : COp) (hf : MFree op) (d d1 : DmSt)
    (h : dmGate np n det op d = .ok d1) : d1.creg = d.creg := by
  unfold dmGate at h
  cases hd : d.ρ with
  | none => simp only [hd] at h; injection h with h; subst h; rfl
  | some ρ =>
    simp only [hd] at h
    have uni : ∀ (u : SMat), Except.map (fun r => ({ d with ρ := some r } : DmSt)) (applyUnitary ρ u) = .ok d1 →
        d1.creg = d.creg := by
      intro u hm
      cases hu : applyUnitary ρ u with
      | error e => rw [hu] at hm; cases hm
      | ok r => rw [hu] at hm; injection hm with hm; subst hm; rfl
    have ctl : ∀ (g : Mat),
        (match getTwoQubitControlledGate n (qIndex np op.r1 op.t1) (qIndex np op.r2 op.t2) g with
          | .ok u => Except.map (fun r => ({ d with ρ := some r } : DmSt)) (applyUnitary ρ ⟨1, u⟩)
          | .error e => .error e) = .ok d1 → d1.creg = d.creg := by
      intro g hm
      cases hg : getTwoQubitControlledGate n (qIndex np op.r1 op.t1) (qIndex np op.r2 op.t2) g with
      | error e => rw [hg] at hm; cases hm
      | ok u => rw [hg] at hm; exact uni _ hm
    cases hk : op.kind <;> simp only [hk] at h
    all_goals first
      | (injection h with h; subst h; rfl)
      | exact uni _ h
      | exact ctl _ h
      | cases h
      | (rcases hf with hf | hf <;> simp [hk, Kind.isOneQubit, Kind.isCtrlPair] at hf)

/-- one action on both sides -/
theorem act_lockstep (np n : Nat) (det : Bool) (arr : Array COp) (s s1 : StabSt) (d d1 : DmSt) (a : Act)
    (ha : ActOK2 n np arr a) (hI : Inv n s d)
    (hs : stabAct np n det arr s a = .ok s1) (hd : dmAct np n det arr d a = .ok d1)
    (hu : s1.nonUniform = false) (hW : wThr < Mix.total s1.mix) : Inv n s1 d1 := by
  obtain ⟨⟨ρ, hρs, hρn, hρ⟩, hg, hcr⟩ := hI
  have hh : (toC n ρ)ᴴ = toC n ρ := by rw [hρ]; exact mixRho_herm n _ hg
  cases a with
  | gate k =>
    simp only [stabAct] at hs
    simp only [dmAct] at hd
    cases hk : arr[k]? with
    | none =>
      rw [getD_none arr k hk] at hs hd
      simp only [stabGate] at hs
      simp only [dmGate, hρs] at hd
      injection hs with hs; subst hs
      injection hd with hd; subst hd
      exact ⟨⟨ρ, hρs, hρn, hρ⟩, hg, hcr⟩
    | some op =>
      rw [getD_some arr k op hk] at hs hd
      obtain ⟨hw, hkind⟩ := ha op hk
      rcases hkind with hf | hm
      · obtain ⟨e1, _⟩ := stabGate_mixRho np n det op hf hw.2.2 s s1 hg.mixN hs
        obtain ⟨ρ', hρ', e2, n2⟩ := dmGate_toC np n det op hf hw d d1 ρ hρs hρn hh hd
        exact ⟨⟨ρ', hρ', n2, by rw [e2, hρ, e1]⟩,
          mixGood_of n _ (stabGate_ok np n det op hw.2.2 s s1 hg.ok hs)
            (stabGate_real np n det op hf s s1 (fun x hx => (hg x hx).2.2) hs),
          by rw [dmGate_creg np n det op hf d d1 hd, stabGate_creg np n det op hf s s1 hs, hcr]⟩
      · have hWs : wThr < Mix.total s.mix := by rw [← stabGate_total np n det op s s1 hs]; exact hW
        rcases hm with hm | hm
        · exact measGate_lockstep np n det op hm hw s s1 d d1 ⟨⟨ρ, hρs, hρn, hρ⟩, hg, hcr⟩ hs hd hu hWs
        · exact mcrGate_lockstep np n det op hm.1 hw hm.2 s s1 d d1 ⟨⟨ρ, hρs, hρn, hρ⟩, hg, hcr⟩ hs hd hu hWs
  | noise k side q nm =>
    simp only [stabAct] at hs
    simp only [dmAct, hρs] at hd
    cases hn : Mix.applyNoise nm q s.mix with
    | error e => rw [hn] at hs; cases hs
    | ok m' =>
      rw [hn] at hs; injection hs with hs; subst hs
      cases hn2 : DMx.applyNoise n nm q ρ with
      | error e => rw [hn2] at hd; cases hd
      | ok r =>
        rw [hn2] at hd; injection hd with hd; subst hd
        obtain ⟨e1, _⟩ := applyNoise_mixRho n q ha.1 nm ha.2.1 s.mix m' hg.mixN hn
        obtain ⟨e2, n2⟩ := dmNoise_toC n q ha.1 nm ρ r hρn hh hn2
        exact ⟨⟨r, rfl, n2, by rw [e2, hρ, e1]⟩,
          mixGood_of n _ (applyNoise_ok n q ha.1 nm s.mix m' hg.ok hn)
            (applyNoise_real nm q s.mix m' (fun x hx => (hg x hx).2.2) hn), hcr⟩
  | replace k => simp [stabAct] at hs

theorem actOK2_loss (n np : Nat) (arr : Array COp) (acts : List Act) (h : ∀ a ∈ acts, ActOK2 n np arr a) :
    TraceP LossOK acts := by
  intro k side q nm hm
  exact (h _ hm).2.2

theorem run_lockstep (np n : Nat) (det : Bool) (arr : Array COp) :
    ∀ (acts : List Act) (s s' : StabSt) (d d' : DmSt), (∀ a ∈ acts, ActOK2 n np arr a) → Inv n s d →
      runStabActs np n det arr acts s = .ok s' → runDmActs np n det arr acts d = .ok d' →
      s'.nonUniform = false → wThr < Mix.total s'.mix → Inv n s' d'
  | [], s, s', d, d', _, hI, hs, hd, _, _ => by
    simp [runStabActs] at hs; simp [runDmActs] at hd; subst hs; subst hd; exact hI
  | a :: as, s, s', d, d', hw, hI, hs, hd, hu, hW => by
    simp only [runStabActs] at hs
    simp only [runDmActs] at hd
    cases ha : stabAct np n det arr s a with
    | error e => rw [ha] at hs; cases hs
    | ok s1 =>
      rw [ha] at hs
      cases hb : dmAct np n det arr d a with
      | error e => rw [hb] at hd; cases hd
      | ok d1 =>
        rw [hb] at hd
        have hfl := runStabActs_flags np n det arr as s1 s' hs
        have hrange := lossFactor_range as (actOK2_loss n np arr as (fun b hb' => hw b (List.mem_cons_of_mem _ hb')))
        have hW1 : wThr < Mix.total s1.mix := by
          have e := runStabActs_total np n det arr as s1 s' hs
          rw [e] at hW
          exact weight_mono _ _ _ wThr_pos hrange.1 hrange.2 hW
        have hI1 := act_lockstep np n det arr s s1 d d1 a (hw a List.mem_cons_self) hI ha hb (hfl.1 hu) hW1
        exact run_lockstep np n det arr as s1 s' d1 d' (fun b hb' => hw b (List.mem_cons_of_mem _ hb')) hI1 hs hd hu hW

theorem go_lockstep (ns : Bool) (np n : Nat) (det : Bool) (arr : Array COp)
    (harr : ∀ (j : Nat) (op : COp), arr[j]? = some op → OpOK2 n np op) :
    ∀ (ops : List COp) (k : Nat) (s s' : StabSt) (d d' : DmSt), (∀ op ∈ ops, OpOK2 n np op) → Inv n s d →
      stabGo ns np n det arr ops k s = .ok s' → dmGo ns np n det arr ops k d = .ok d' →
      s'.nonUniform = false → wThr < Mix.total s'.mix → Inv n s' d'
  | [], k, s, s', d, d', _, hI, hs, hd, _, _ => by
    simp [stabGo] at hs; simp [dmGo] at hd; subst hs; subst hd; exact hI
  | op :: rest, k, s, s', d, d', hw, hI, hs, hd, hu, hW => by
    simp only [stabGo] at hs
    simp only [dmGo] at hd
    split at hs
    · cases hs
    · have ho := hw op List.mem_cons_self
      have hback : placeOp ns .dm np op k = placeOp ns .stab np op k := by
        cases ho with
        | unitary h => exact placeOp_backend ns np op k h.mfree
        | meas hk hw' h0 h1 => rw [placeOp_none ns .dm np op k h0 h1, placeOp_none ns .stab np op k h0 h1]
      rw [hback] at hd
      cases hp : placeOp ns .stab np op k with
      | error e => rw [hp] at hs; cases hs
      | ok acts =>
        rw [hp] at hs hd; simp only at hs hd
        cases hr : runStabActs np n det arr acts s with
        | error e => rw [hr] at hs; cases hs
        | ok s1 =>
          rw [hr] at hs; simp only at hs
          cases hr2 : runDmActs np n det arr acts d with
          | error e => rw [hr2] at hd; cases hd
          | ok d1 =>
            rw [hr2] at hd; simp only at hd
            have hacts : ∀ a ∈ acts, ActOK2 n np arr a := by
              have gate_ok : ActOK2 n np arr (.gate k) := fun op' hop' => ⟨(harr k op' hop').wf, (harr k op' hop').kind⟩
              cases ho with
              | unitary h l0 l1 =>
                intro a ha
                rcases placeOp_goodP ParamOK2 ⟨trivial, trivial⟩ n np ns .stab op k h.wf ⟨h.p0, l0⟩ ⟨h.p1, l1⟩ acts hp a ha
                  with e | e | ⟨sd, q, nm, e, hq, hP⟩
                · subst e; exact gate_ok
                · subst e; trivial
                · subst e; exact ⟨hq, hP⟩
              | meas hk hw' h0 h1 =>
                rw [placeOp_none ns .stab np op k h0 h1] at hp
                injection hp with hp; subst hp
                intro a ha
                simp only [List.mem_singleton] at ha
                subst ha; exact gate_ok
            have hfl := stabGo_flags ns np n det arr rest (k + 1) s1 s' hs
            have hW1 : wThr < Mix.total s1.mix := by
              obtain ⟨tr, htr, e⟩ := stabGo_total ns np n det arr rest (k + 1) s1 s' hs
              have hrange := lossFactor_range tr (traceGo_P LossOK trivial ns .stab np n rest (k + 1) tr
                (fun o ho' => ⟨(hw o (List.mem_cons_of_mem _ ho')).wf, (hw o (List.mem_cons_of_mem _ ho')).loss⟩) htr)
              rw [e] at hW
              exact weight_mono _ _ _ wThr_pos hrange.1 hrange.2 hW
            have hI1 := run_lockstep np n det arr acts s s1 d d1 hacts hI hr hr2 (hfl.1 hu) hW1
            exact go_lockstep ns np n det arr harr rest (k + 1) s1 s' d1 d'
              (fun o ho' => hw o (List.mem_cons_of_mem _ ho')) hI1 hs hd hu hW

/-- **C06 (c) with measurements on which all branches agree**: gates, noise (photon loss included), `MeasurementZ`,
    `ClassicalCNOT`, `ClassicalCZ`, `MeasurementCNOTandReset`.  If the stabilizer compile returns with the flag `nonUniform` off — every executed
    measurement found all branches agreeing on "random?" and on the outcome — and a total weight above `2·10⁻⁸` (twice the
    `np.isclose` tolerance `apply_measurement` uses; the weight never grows, so it was above it at every measurement), and the
    density-matrix compile returns, then the density matrix equals `Σ_k w_k ρ(T_k)` of the mixture, entry by entry.
    Every number of qubits. -/
theorem dm_equals_mixture_meas (ns : Bool) (ne np nc : Nat) (det : Bool) (ops : List COp)
    (hw : ∀ op ∈ ops, OpOK2 (ne + np) np op) (s : StabSt) (d : DmSt)
    (hs : compileStab ns ne np nc det ops = .ok s) (hd : compileDM ns ne np nc det ops = .ok d)
    (hu : s.nonUniform = false) (hW : wThr < Mix.total s.mix) :
    ∃ ρ, d.ρ = some ρ ∧ Mat.EqOn ρ (mixtureDensity (ne + np) s.mix) ∧ d.creg = s.creg := by
  unfold compileStab at hs
  unfold compileDM at hd
  have hI0 : Inv (ne + np) { mix := [(1, (Tab.ket0 (ne + np)).norm)], creg := List.replicate nc 0 }
      { ρ := some (⟨pow2 (ne + np), fun i j => if i = 0 ∧ j = 0 then 1 else 0⟩ : Mat).norm, creg := List.replicate nc 0 } := by
    refine ⟨⟨_, rfl, rfl, ?_⟩, ?_, rfl⟩
    · rw [toC_rho0, mixRho_init]
    · intro x hx
      simp only [List.mem_singleton] at hx
      subst hx
      exact ⟨rfl, Tab.norm_valid _ (Tab.ket0_valid _), norm_stabReal _ (ket0_stabReal _)⟩
  obtain ⟨⟨ρ, hρ, hn, e⟩, hg, hcr⟩ := go_lockstep ns np (ne + np) det ops.toArray (by
      intro j op hop
      apply hw
      have : op ∈ ops.toArray := Array.mem_of_getElem? hop
      simpa using this) ops 0 _ s _ d hw hI0 hs hd hu hW
  obtain ⟨e3, n3⟩ := toC_mixtureDensity (ne + np) s.mix hg.mixN
  exact ⟨ρ, hρ, toC_inj (ne + np) _ _ hn n3 (by rw [e, e3]), hcr⟩

/-- whenever the density matrix is `Σ_k w_k ρ(T_k)`, its overlap with any stabilizer target is the weighted sum of the
    branch overlaps -/
theorem overlap_of_eqOn (n : Nat) (ρ : Mat) (m : Mixture) (hm : MixN n m) (h : Mat.EqOn ρ (mixtureDensity n m))
    (T : Tab) (hT : T.n = n) : (ρ.mul (stabilizerDensity T)).trace = mixOverlapQ T m := by
  obtain ⟨e3, n3⟩ := toC_mixtureDensity n m hm
  have n2 : ρ.n = 2 ^ n := by rw [h.1, n3]
  obtain ⟨e4, _⟩ := toC_stabilizerDensity n T hT
  apply gqC_injective
  rw [gqC_mulTrace n _ _ n2, toC_congr n _ _ n2 h, e3, e4, overlap_linear, gqC_mixOverlapQ n T hT m hm]

/-- same fidelity with any stabilizer target on both backends, circuits with uniform measurements -/
theorem overlap_both_backends_meas (ns : Bool) (ne np nc : Nat) (det : Bool) (ops : List COp)
    (hw : ∀ op ∈ ops, OpOK2 (ne + np) np op) (s : StabSt) (d : DmSt)
    (hs : compileStab ns ne np nc det ops = .ok s) (hd : compileDM ns ne np nc det ops = .ok d)
    (hu : s.nonUniform = false) (hW : wThr < Mix.total s.mix) (T : Tab) (hT : T.n = ne + np) :
    ∃ ρ, d.ρ = some ρ ∧ (ρ.mul (stabilizerDensity T)).trace = mixOverlapQ T s.mix := by
  obtain ⟨ρ, hρ, he, _⟩ := dm_equals_mixture_meas ns ne np nc det ops hw s d hs hd hu hW
  have hm : MixN (ne + np) s.mix :=
    fun x hx => (compileStab_ok ns ne np nc det ops (fun op ho => (hw op ho).wf) s hs x hx).1
  exact ⟨ρ, hρ, overlap_of_eqOn (ne + np) ρ s.mix hm he T hT⟩

end MixDM
end Graphiq
