/-
  Proofs/MixtureDMLockstep.lean — C06 (c) with measurements on which all branches agree, every number of qubits.

  The two compilers are run in lockstep over the same placement trace.  Invariant: the density matrix of the density-matrix
  model is `Σ_k w_k ρ(T_k)` of the stabilizer model's mixture, every branch a valid tableau with real stabilizer rows.
  Unitary gates and noise keep it by the theorems of MixtureDMCompile / MixtureDMBridgeGate; a Z measurement (`MeasurementZ`,
  and the measurement inside `ClassicalCNOT` / `ClassicalCZ`) keeps it when the flags the stabilizer model accumulates stay
  off: `nonUniform = false` (all branches agree on "random?" and on the outcome) and `lossMeas = false` (total weight 1 at
  the measurement, so that the `isclose` thresholds of `DensityMatrix.apply_measurement` decide as the tableau does).

  * `toC_projectorsZ`, `applyMeasurement_random`, `applyMeasurement_det` : `projectors_zbasis`, `apply_measurement`;
  * `measure_lockstep` : one measurement on both sides;
  * `go_lockstep`, `dm_equals_mixture_meas` : whole circuits.
-/
import GraphiqModel.Proofs.MixtureDMMeasure
namespace Graphiq
namespace MixDM
open Matrix Hilbert Noise DM PRow

/-! ### `projectors_zbasis`, `apply_measurement` -/

theorem toC_projectorsZ (n q : Nat) (hq : q < n) (p0 p1 : Mat) (h : projectorsZ n q = .ok (p0, p1)) :
    toC n p0 = projZ n q false ∧ toC n p1 = projZ n q true ∧ p0.n = 2 ^ n ∧ p1.n = 2 ^ n := by
  unfold projectorsZ at h
  rw [if_pos hq] at h
  injection h with h
  injection h with h0 h1
  subst h0; subst h1
  have key : ∀ (s : Bool) (v : Nat), v = b2n s →
      toC n ⟨pow2 n, fun i j => if i = j ∧ (i / pow2 (n - q - 1)) % 2 = v then 1 else 0⟩ = projZ n q s := by
    intro s v hv
    ext a b
    unfold projZ
    rw [toC_apply, proj_Zq n q hq s, Matrix.diagonal_apply]
    have bit : idx a / pow2 (n - q - 1) % 2 = b2n (bx a q) := idx_bit a q hq
    show gqC (if idx a = idx b ∧ idx a / pow2 (n - q - 1) % 2 = v then 1 else 0) = _
    rw [bit, hv]
    by_cases hab : a = b
    · subst hab
      by_cases hs : bx a q = s
      · rw [if_pos ⟨rfl, by rw [hs]⟩, if_pos rfl, if_pos hs, gqC_one]
      · rw [if_neg (fun h' => hs (b2n_inj _ _ h'.2)), if_pos rfl, if_neg hs, gqC_zero]
    · rw [if_neg (fun h' => hab (idx_injective a b h'.1)), if_neg hab, gqC_zero]
  exact ⟨key false 0 rfl, key true 1 rfl, rfl, rfl⟩

/-- both outcomes have probability ½: the forced outcome is taken, the state is `2 · Π ρ Π` -/
theorem applyMeasurement_random (ρ p0 p1 : Mat) (det : Bool) (hn : ρ.n = p0.n)
    (hp0 : (ρ.mul p0).trace.re = 1/2) (hp1 : (ρ.mul p1).trace.re = 1/2) :
    applyMeasurement ρ p0 p1 det = .ok (some (Mat.smul 2 (Mat.conjBy (if det then p1 else p0) ρ)).norm, det) := by
  unfold applyMeasurement
  rw [if_neg (fun h => h hn)]
  simp only [hp0, hp1]
  cases det <;> norm_num [isclose0, rat_abs_eq]

/-- outcome `o0` has probability 1: it is reported whatever the forced outcome, the state is `Π ρ Π` -/
theorem applyMeasurement_det (ρ p0 p1 : Mat) (det o0 : Bool) (hn : ρ.n = p0.n)
    (hp0 : (ρ.mul p0).trace.re = if o0 then 0 else 1) (hp1 : (ρ.mul p1).trace.re = if o0 then 1 else 0) :
    applyMeasurement ρ p0 p1 det = .ok (some (Mat.smul 1 (Mat.conjBy (if o0 then p1 else p0) ρ)).norm, o0) := by
  unfold applyMeasurement
  rw [if_neg (fun h => h hn)]
  simp only [hp0, hp1]
  cases det <;> cases o0 <;> norm_num [isclose0, rat_abs_eq]

/-! ### the invariant -/

theorem mixRho_herm (n : Nat) : ∀ (m : Mixture), MixGood n m → (mixRho n m)ᴴ = mixRho n m
  | [], _ => by simp [mixRho_nil]
  | (w, t) :: rest, hg => by
    obtain ⟨hn, hv, _⟩ := hg.head
    rw [mixRho_cons]
    apply add_herm _ _ (smul_herm _ _ ?_) (mixRho_herm n rest hg.tail)
    subst hn
    exact rho_hermitian (STab.ofTab t) (ofTab_good t hv)

/-- the density matrix is `Σ_k w_k ρ(T_k)`, every branch is a valid tableau with real stabilizer rows -/
structure Inv (n : Nat) (s : StabSt) (d : DmSt) : Prop where
  dm : ∃ ρ, d.ρ = some ρ ∧ ρ.n = 2 ^ n ∧ toC n ρ = mixRho n s.mix
  good : MixGood n s.mix

theorem total_ne_nil (m : Mixture) (h : Mix.total m = 1) : m ≠ [] := by
  intro e; subst e; simp [Mix.total_nil] at h

theorem trace_re_of (n : Nat) (ρ p : Mat) (hρ : ρ.n = 2 ^ n) (x : Rat)
    (h : (toC n ρ * toC n p).trace = ((x : ℚ) : ℂ)) : (ρ.mul p).trace.re = x := by
  have e : (ρ.mul p).trace = ⟨x, 0⟩ := by
    apply gqC_injective
    rw [gqC_mulTrace n ρ p hρ, h, gqC_ofRat]
  rw [e]

/-- **one measurement on both sides**: total weight 1, all branches alike -/
theorem measure_lockstep (n q : Nat) (hq : q < n) (det : Bool) (m : Mixture) (ρ p0 p1 : Mat) (hg : MixGood n m)
    (hρn : ρ.n = 2 ^ n) (hρ : toC n ρ = mixRho n m) (ht : Mix.total m = 1) (hu : uniformMeas q det m = true)
    (hp : projectorsZ n q = .ok (p0, p1)) :
    ∃ ρ' o, applyMeasurement ρ p0 p1 det = .ok (some ρ', o) ∧ ρ'.n = 2 ^ n ∧
      toC n ρ' = mixRho n (Mix.measure q det m).1 ∧ (∀ o' ∈ (Mix.measure q det m).2, o' = o) := by
  obtain ⟨e0, e1, n0, n1⟩ := toC_projectorsZ n q hq p0 p1 hp
  have hnn : ρ.n = p0.n := by rw [hρn, n0]
  cases m with
  | nil => exact absurd rfl (total_ne_nil _ ht)
  | cons x rest =>
    obtain ⟨w0, t0⟩ := x
    have hspec := uniformMeas_spec q det w0 t0 rest hu
    obtain ⟨hn0, hv0, hr0⟩ := hg.head
    cases hr : (t0.pivot q).isSome with
    | true =>
      obtain ⟨pp, hpp⟩ := Option.isSome_iff_exists.1 hr
      have ho : (t0.zMeasure q det).2.1 = det := (branch_random n t0 hn0 hv0 hr0 q hq det pp hpp).2.1
      rw [hr, ho] at hspec
      obtain ⟨r1, r2, r3⟩ := measure_random n q hq det _ hg hspec
      have t0' : (ρ.mul p0).trace.re = 1/2 :=
        trace_re_of n ρ p0 hρn (1/2) (by rw [hρ, e0, r2 false, ht]; push_cast; ring)
      have t1' : (ρ.mul p1).trace.re = 1/2 :=
        trace_re_of n ρ p1 hρn (1/2) (by rw [hρ, e1, r2 true, ht]; push_cast; ring)
      refine ⟨_, det, applyMeasurement_random ρ p0 p1 det hnn t0' t1', ?_, ?_, r3⟩
      · show (if det = true then p1 else p0).n = 2 ^ n
        cases det <;> simp [n0, n1]
      · have hsz : (Mat.smul 2 (Mat.conjBy (if det = true then p1 else p0) ρ)).n = 2 ^ n := by
          show (if det = true then p1 else p0).n = 2 ^ n
          cases det <;> simp [n0, n1]
        have hpn : (if det = true then p1 else p0).n = 2 ^ n := by cases det <;> simp [n0, n1]
        have hpc : toC n (if det = true then p1 else p0) = projZ n q det := by cases det <;> simp [e0, e1]
        rw [toC_norm n _ hsz, toC_smul, toC_conjBy n _ _ hpn, hpc, hρ, r1]
        unfold conjH
        rw [projZ_herm]
        push_cast
        rfl
    | false =>
      rw [hr] at hspec
      obtain ⟨r1, r2, r3, r4, r5⟩ := measure_det n q hq det (t0.zMeasure q det).2.1 _ hg hspec
      generalize (t0.zMeasure q det).2.1 = o0 at r2 r3 r4 r5
      have t0' : (ρ.mul p0).trace.re = if o0 then 0 else 1 := by
        cases o0
        · exact trace_re_of n ρ p0 hρn 1 (by rw [hρ, e0, r3, ht])
        · exact trace_re_of n ρ p0 hρn 0 (by rw [hρ, e0]; simpa using r4)
      have t1' : (ρ.mul p1).trace.re = if o0 then 1 else 0 := by
        cases o0
        · exact trace_re_of n ρ p1 hρn 0 (by rw [hρ, e1]; simpa using r4)
        · exact trace_re_of n ρ p1 hρn 1 (by rw [hρ, e1, r3, ht])
      have hpn : (if o0 = true then p1 else p0).n = 2 ^ n := by cases o0 <;> simp [n0, n1]
      have hpc : toC n (if o0 = true then p1 else p0) = projZ n q o0 := by cases o0 <;> simp [e0, e1]
      refine ⟨_, o0, applyMeasurement_det ρ p0 p1 det o0 hnn t0' t1', hpn, ?_, r5⟩
      have hsz : (Mat.smul 1 (Mat.conjBy (if o0 = true then p1 else p0) ρ)).n = 2 ^ n := hpn
      rw [toC_norm n _ hsz, toC_smul, toC_conjBy n _ _ hpn, hpc, hρ, r1]
      unfold conjH
      rw [projZ_herm, r2]
      simp

/-! ### gates with a measurement -/

theorem conditioned_all (f : Tab → Tab) (o : Bool) : ∀ (outs : List Bool) (m : Mixture), outs.length = m.length →
    (∀ x ∈ outs, x = o) → Mix.conditioned f outs m = if o then Mix.mapTab f m else m
  | [], [], _, _ => by cases o <;> simp [Mix.conditioned, Mix.mapTab]
  | [], _ :: _, h, _ => by simp at h
  | _ :: _, [], h, _ => by simp at h
  | o' :: os, (p, t) :: m, h, ha => by
    have ih := conditioned_all f o os m (by simpa using h) (fun x hx => ha x (List.mem_cons_of_mem _ hx))
    have e : o' = o := ha o' List.mem_cons_self
    subst e
    have : Mix.conditioned f (o' :: os) ((p, t) :: m) =
        (if o' then (p, (f t).norm) else (p, t)) :: Mix.conditioned f os m := by simp [Mix.conditioned]
    rw [this, ih]
    cases o' <;> simp [Mix.mapTab]

/-- the operations with a measurement that are covered: `MeasurementZ`, `ClassicalCNOT`, `ClassicalCZ`, without noise -/
def MeasKind (k : Kind) : Prop := k = .measZ ∨ k = .ccnot ∨ k = .ccz

/-- `compile_one_gate` for an operation with a measurement, both sides, flags off -/
theorem measGate_lockstep (np n : Nat) (det : Bool) (op : COp) (hk : MeasKind op.kind) (hw : OpWF n np op)
    (s s1 : StabSt) (d d1 : DmSt) (hI : Inv n s d)
    (hs : stabGate np n det op s = .ok s1) (hd : dmGate np n det op d = .ok d1)
    (hu : s1.nonUniform = false) (hl : s1.lossMeas = false) : Inv n s1 d1 := by
  obtain ⟨⟨ρ, hρs, hρn, hρ⟩, hg⟩ := hI
  have hq1 := hw.1
  unfold stabGate at hs
  unfold dmGate at hd
  simp only [hρs] at hd
  rcases hk with hk | hk | hk <;> simp only [hk] at hs hd
  · -- MeasurementZ
    unfold stabMeasZ at hs
    rw [if_pos hq1] at hs
    injection hs with hs; subst hs
    simp only [Bool.or_eq_false_iff, Bool.not_eq_false', bne_eq_false_iff_eq] at hu hl
    cases hp : projectorsZ n (qIndex np op.r1 op.t1) with
    | error e => rw [hp] at hd; cases hd
    | ok pp =>
      obtain ⟨p0, p1⟩ := pp
      rw [hp] at hd
      simp only at hd
      obtain ⟨ρ', o, hm, hn', hc, _⟩ := measure_lockstep n _ hq1 det s.mix ρ p0 p1 hg hρn hρ hl.2 hu.2 hp
      rw [hm] at hd
      injection hd with hd; subst hd
      exact ⟨⟨ρ', rfl, hn', hc⟩, measure_good n _ hq1 det s.mix hg⟩
  all_goals
    -- ClassicalCNOT / ClassicalCZ: measure the control, apply the Pauli to the target in the branches with outcome 1
    have hq2 := hw.2.1 (Or.inr (by simp [hk, Kind.isClassicalCtrl]))
    unfold stabClassical at hs
    rw [if_pos ⟨hq1, hq2⟩] at hs
    injection hs with hs; subst hs
    simp only [Bool.or_eq_false_iff, Bool.not_eq_false', bne_eq_false_iff_eq] at hu hl
    cases hp : projectorsZ n (qIndex np op.r1 op.t1) with
    | error e => rw [hp] at hd; cases hd
    | ok pp =>
      obtain ⟨p0, p1⟩ := pp
      rw [hp] at hd
      simp only at hd
      obtain ⟨ρ', o, hm, hn', hc, hall⟩ := measure_lockstep n _ hq1 det s.mix ρ p0 p1 hg hρn hρ hl.2 hu.2 hp
      rw [hm] at hd
      simp only at hd
      have hlen := Mix.measure_length (qIndex np op.r1 op.t1) det s.mix
      have hgm := measure_good n _ hq1 det s.mix hg
      simp only [Bool.false_eq_true, if_false]
      rw [conditioned_all _ o _ _ (by rw [hlen.1, hlen.2]) hall]
      cases o with
      | false =>
        simp only [Bool.false_eq_true, if_false] at hd ⊢
        injection hd with hd; subst hd
        exact ⟨⟨ρ', rfl, hn', hc⟩, hgm⟩
      | true =>
        simp only [if_true] at hd ⊢
        have hh : (toC n ρ')ᴴ = toC n ρ' := by rw [hc]; exact mixRho_herm n _ hgm
        first
        | (cases hu' : applyUnitary ρ' ⟨1, getOneQubitGate n (qIndex np op.r2 op.t2) Mat.sigmax⟩ with
           | error e => rw [hu'] at hd; cases hd
           | ok r =>
             rw [hu'] at hd
             simp only [Bool.false_eq_true, if_false] at hd
             injection hd with hd; subst hd
             obtain ⟨e, hr⟩ := applyUnitary_toC n ρ' ⟨1, getOneQubitGate n (qIndex np op.r2 op.t2) Mat.sigmax⟩ hn'
               (oneQubitGate_n n _ hq2 Mat.sigmax rfl) hh r hu'
             refine ⟨⟨r, rfl, hr, ?_⟩, ?_⟩
             · rw [e]
               show _ • conjH (toC n (getOneQubitGate n (qIndex np op.r2 op.t2) Mat.sigmax)) _ = _
               rw [toC_oneQubitGate n _ hq2, toC2_sigmax, hc]
               have := mixRho_mapGate n (.X (qIndex np op.r2 op.t2)) hq2 _ hgm.mixN
               simp only [Rat.cast_one, one_smul]
               exact this.symm
             · exact mixGood_of n _ (mapTab_ok n _ (keeps_x n _ hq2) _ hgm.ok)
                 (mapTab_real _ (fun t hr => gate_stabReal t (.X (qIndex np op.r2 op.t2)) hr) _ (fun x hx => (hgm x hx).2.2)))
        | (cases hu' : applyUnitary ρ' ⟨1, getOneQubitGate n (qIndex np op.r2 op.t2) Mat.sigmaz⟩ with
           | error e => rw [hu'] at hd; cases hd
           | ok r =>
             rw [hu'] at hd
             simp only [Bool.false_eq_true, if_false] at hd
             injection hd with hd; subst hd
             obtain ⟨e, hr⟩ := applyUnitary_toC n ρ' ⟨1, getOneQubitGate n (qIndex np op.r2 op.t2) Mat.sigmaz⟩ hn'
               (oneQubitGate_n n _ hq2 Mat.sigmaz rfl) hh r hu'
             refine ⟨⟨r, rfl, hr, ?_⟩, ?_⟩
             · rw [e]
               show _ • conjH (toC n (getOneQubitGate n (qIndex np op.r2 op.t2) Mat.sigmaz)) _ = _
               rw [toC_oneQubitGate n _ hq2, toC2_sigmaz, hc]
               have := mixRho_mapGate n (.Z (qIndex np op.r2 op.t2)) hq2 _ hgm.mixN
               simp only [Rat.cast_one, one_smul]
               exact this.symm
             · exact mixGood_of n _ (mapTab_ok n _ (keeps_z n _ hq2) _ hgm.ok)
                 (mapTab_real _ (fun t hr => gate_stabReal t (.Z (qIndex np op.r2 op.t2)) hr) _ (fun x hx => (hgm x hx).2.2)))

end MixDM
end Graphiq
