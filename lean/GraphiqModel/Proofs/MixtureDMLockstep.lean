/-
  Proofs/MixtureDMLockstep.lean — infrastructure for running the two compilers in lockstep (used by
  Proofs/MixtureDMJointCircuit.lean for the repaired joint measurement), every number of qubits:

  * `toC_projectorsZ`, `applyMeasurement_random`, `applyMeasurement_det` : `projectors_zbasis`, `apply_measurement`;
  * `Inv` : the density matrix is `Σ_k w_k ρ(T_k)`, every branch a valid tableau with real stabilizer rows, same classical register;
  * `dmReset_toC` : `get_reset_qubit_kraus` through `apply_channel` is the reset channel;
  * HISTORICAL (`Mix.measureOld`, graphiq before the repair of finding F2): `measure_lockstep` — one per-branch measurement
    agrees with `DensityMatrix.apply_measurement` when all branches agree and the total weight exceeds `2·10⁻⁸`;
  * weights never grow (`lossFactor_range`, `weight_mono`), `stabGate_real`, `stabGate_creg`, `dmGate_creg`, `overlap_of_eqOn`.
-/
import GraphiqModel.Proofs.MixtureDMReset
namespace Graphiq
namespace MixDM
open Matrix Hilbert Noise DM PRow

/-! ### `projectors_zbasis`, `apply_measurement` -/

theorem toC_projectorsZ (n q : Nat) (hq : q < n) (p0 p1 : Mat) (h : projectorsZ n q = .ok (p0, p1)) :
    toC n p0 = projZ n q false ∧ toC n p1 = projZ n q true ∧ p0.n = 2 ^ n ∧ p1.n = 2 ^ n := by
  unfold projectorsZ at h
  rw [if_pos hq] at h
  injection h with h
  injection h with h0 h1
  subst h0; subst h1
  have key : ∀ (s : Bool) (v : Nat), v = b2n s →
      toC n ⟨pow2 n, fun i j => if i = j ∧ (i / pow2 (n - q - 1)) % 2 = v then 1 else 0⟩ = projZ n q s := by
    intro s v hv
    ext a b
    unfold projZ
    rw [toC_apply, proj_Zq n q hq s, Matrix.diagonal_apply]
    have bit : idx a / pow2 (n - q - 1) % 2 = b2n (bx a q) := idx_bit a q hq
    show gqC (if idx a = idx b ∧ idx a / pow2 (n - q - 1) % 2 = v then 1 else 0) = _
    rw [bit, hv]
    by_cases hab : a = b
    · subst hab
      by_cases hs : bx a q = s
      · rw [if_pos ⟨rfl, by rw [hs]⟩, if_pos rfl, if_pos hs, gqC_one]
      · rw [if_neg (fun h' => hs (b2n_inj _ _ h'.2)), if_pos rfl, if_neg hs, gqC_zero]
    · rw [if_neg (fun h' => hab (idx_injective a b h'.1)), if_neg hab, gqC_zero]
  exact ⟨key false 0 rfl, key true 1 rfl, rfl, rfl⟩

/-- twice the absolute tolerance of `np.isclose`: with a total weight above it the thresholds of
    `DensityMatrix.apply_measurement` decide "random / deterministic" and the outcome as the tableaux do -/
def wThr : Rat := 2 / 100000000

theorem isclose0_false (x : Rat) (h : 1 / 100000000 < x) : isclose0 x = false := by
  unfold isclose0
  rw [rat_abs_eq, abs_of_pos (by linarith)]
  exact decide_eq_false (by linarith)

theorem isclose0_zero : isclose0 0 = true := by
  unfold isclose0; rw [rat_abs_eq]; norm_num

/-- both outcomes have probability ½ (of the weight `W`): the forced outcome is taken, the state is `2 · Π ρ Π` -/
theorem applyMeasurement_random (ρ p0 p1 : Mat) (det : Bool) (W : Rat) (hW : wThr < W) (hn : ρ.n = p0.n)
    (hp0 : (ρ.mul p0).trace.re = W / 2) (hp1 : (ρ.mul p1).trace.re = W / 2) :
    applyMeasurement ρ p0 p1 det = .ok (some (Mat.smul 2 (Mat.conjBy (if det then p1 else p0) ρ)).norm, det) := by
  unfold wThr at hW
  unfold applyMeasurement
  rw [if_neg (fun h => h hn)]
  simp only [hp0, hp1]
  have hpos : ¬ (W / 2 < 0) := by linarith
  have hic : isclose0 (W / 2) = false := isclose0_false _ (by linarith)
  have hW0 : W ≠ 0 := by linarith
  have hWp : 0 < W := by linarith
  have h3 : W / 2 / W = 1 / 2 := by field_simp
  cases det <;> norm_num [hpos, hic, hWp, h3]

/-- outcome `o0` has probability 1: it is reported whatever the forced outcome, the state is `Π ρ Π` -/
theorem applyMeasurement_det (ρ p0 p1 : Mat) (det o0 : Bool) (W : Rat) (hW : wThr < W) (hn : ρ.n = p0.n)
    (hp0 : (ρ.mul p0).trace.re = if o0 then 0 else W) (hp1 : (ρ.mul p1).trace.re = if o0 then W else 0) :
    applyMeasurement ρ p0 p1 det = .ok (some (Mat.smul 1 (Mat.conjBy (if o0 then p1 else p0) ρ)).norm, o0) := by
  unfold wThr at hW
  unfold applyMeasurement
  rw [if_neg (fun h => h hn)]
  simp only [hp0, hp1]
  have hpos : ¬ (W < 0) := by linarith
  have hic : isclose0 W = false := isclose0_false _ (by linarith)
  have hW0 : W ≠ 0 := by linarith
  have hWp : 0 < W := by linarith
  cases det <;> cases o0 <;> simp [hpos, hic, isclose0_zero, hWp, hW0]

/-! ### the invariant -/

theorem mixRho_herm (n : Nat) : ∀ (m : Mixture), MixGood n m → (mixRho n m)ᴴ = mixRho n m
  | [], _ => by simp [mixRho_nil]
  | (w, t) :: rest, hg => by
    obtain ⟨hn, hv, _⟩ := hg.head
    rw [mixRho_cons]
    apply add_herm _ _ (smul_herm _ _ ?_) (mixRho_herm n rest hg.tail)
    subst hn
    exact rho_hermitian (STab.ofTab t) (ofTab_good t hv)

/-- the density matrix is `Σ_k w_k ρ(T_k)`, every branch is a valid tableau with real stabilizer rows -/
structure Inv (n : Nat) (s : StabSt) (d : DmSt) : Prop where
  dm : ∃ ρ, d.ρ = some ρ ∧ ρ.n = 2 ^ n ∧ toC n ρ = mixRho n s.mix
  good : MixGood n s.mix
  creg : d.creg = s.creg

/-- the outcome `outcomes[0]` the mixture records, when all branches report `o` -/
theorem head_outcome (q : Nat) (det : Bool) (m : Mixture) (o : Bool) (hne : m ≠ [])
    (hall : ∀ o' ∈ (Mix.measureOld q det m).2, o' = o) : (Mix.measureOld q det m).2.headD false = o := by
  cases m with
  | nil => exact absurd rfl hne
  | cons x rest =>
    obtain ⟨w, t⟩ := x
    have e : (Mix.measureOld q det ((w, t) :: rest)).2 = (t.zMeasure q det).2.1 :: (Mix.measureOld q det rest).2 := by
      simp [Mix.measureOld]
    rw [e] at hall ⊢
    exact hall _ List.mem_cons_self

theorem total_ne_nil (m : Mixture) (h : wThr < Mix.total m) : m ≠ [] := by
  intro e; subst e; simp [Mix.total_nil, wThr] at h; norm_num at h

theorem trace_re_of (n : Nat) (ρ p : Mat) (hρ : ρ.n = 2 ^ n) (x : Rat)
    (h : (toC n ρ * toC n p).trace = ((x : ℚ) : ℂ)) : (ρ.mul p).trace.re = x := by
  have e : (ρ.mul p).trace = ⟨x, 0⟩ := by
    apply gqC_injective
    rw [gqC_mulTrace n ρ p hρ, h, gqC_ofRat]
  rw [e]

/-- **one measurement on both sides**: total weight above the threshold, all branches alike -/
theorem measure_lockstep (n q : Nat) (hq : q < n) (det : Bool) (m : Mixture) (ρ p0 p1 : Mat) (hg : MixGood n m)
    (hρn : ρ.n = 2 ^ n) (hρ : toC n ρ = mixRho n m) (ht : wThr < Mix.total m) (hu : uniformMeas q det m = true)
    (hp : projectorsZ n q = .ok (p0, p1)) :
    ∃ ρ' o, applyMeasurement ρ p0 p1 det = .ok (some ρ', o) ∧ ρ'.n = 2 ^ n ∧
      toC n ρ' = mixRho n (Mix.measureOld q det m).1 ∧ (∀ o' ∈ (Mix.measureOld q det m).2, o' = o) ∧
      Fixed n q o (Mix.measureOld q det m).1 := by
  obtain ⟨e0, e1, n0, n1⟩ := toC_projectorsZ n q hq p0 p1 hp
  have hnn : ρ.n = p0.n := by rw [hρn, n0]
  cases m with
  | nil => exact absurd rfl (total_ne_nil _ ht)
  | cons x rest =>
    obtain ⟨w0, t0⟩ := x
    have hspec := uniformMeas_spec q det w0 t0 rest hu
    obtain ⟨hn0, hv0, hr0⟩ := hg.head
    cases hr : (t0.pivot q).isSome with
    | true =>
      obtain ⟨pp, hpp⟩ := Option.isSome_iff_exists.1 hr
      have ho : (t0.zMeasure q det).2.1 = det := (branch_random n t0 hn0 hv0 hr0 q hq det pp hpp).2.1
      rw [hr, ho] at hspec
      obtain ⟨r1, r2, r3⟩ := measure_random n q hq det _ hg hspec
      have t0' : (ρ.mul p0).trace.re = Mix.total ((w0, t0) :: rest) / 2 :=
        trace_re_of n ρ p0 hρn _ (by rw [hρ, e0, r2 false]; push_cast; ring)
      have t1' : (ρ.mul p1).trace.re = Mix.total ((w0, t0) :: rest) / 2 :=
        trace_re_of n ρ p1 hρn _ (by rw [hρ, e1, r2 true]; push_cast; ring)
      refine ⟨_, det, applyMeasurement_random ρ p0 p1 det _ ht hnn t0' t1', ?_, ?_, r3, measure_fixed n q hq det _ _ _ hg hspec⟩
      · show (if det = true then p1 else p0).n = 2 ^ n
        cases det <;> simp [n0, n1]
      · have hsz : (Mat.smul 2 (Mat.conjBy (if det = true then p1 else p0) ρ)).n = 2 ^ n := by
          show (if det = true then p1 else p0).n = 2 ^ n
          cases det <;> simp [n0, n1]
        have hpn : (if det = true then p1 else p0).n = 2 ^ n := by cases det <;> simp [n0, n1]
        have hpc : toC n (if det = true then p1 else p0) = projZ n q det := by cases det <;> simp [e0, e1]
        rw [toC_norm n _ hsz, toC_smul, toC_conjBy n _ _ hpn, hpc, hρ, r1]
        unfold conjH
        rw [projZ_herm]
        push_cast
        rfl
    | false =>
      rw [hr] at hspec
      obtain ⟨r1, r2, r3, r4, r5⟩ := measure_det n q hq det (t0.zMeasure q det).2.1 _ hg hspec
      have hfx := measure_fixed n q hq det _ _ _ hg hspec
      generalize (t0.zMeasure q det).2.1 = o0 at r2 r3 r4 r5 hfx
      have t0' : (ρ.mul p0).trace.re = if o0 then 0 else Mix.total ((w0, t0) :: rest) := by
        cases o0
        · exact trace_re_of n ρ p0 hρn (Mix.total ((w0, t0) :: rest)) (by rw [hρ, e0, r3])
        · exact trace_re_of n ρ p0 hρn 0 (by rw [hρ, e0]; simpa using r4)
      have t1' : (ρ.mul p1).trace.re = if o0 then Mix.total ((w0, t0) :: rest) else 0 := by
        cases o0
        · exact trace_re_of n ρ p1 hρn 0 (by rw [hρ, e1]; simpa using r4)
        · exact trace_re_of n ρ p1 hρn (Mix.total ((w0, t0) :: rest)) (by rw [hρ, e1, r3])
      have hpn : (if o0 = true then p1 else p0).n = 2 ^ n := by cases o0 <;> simp [n0, n1]
      have hpc : toC n (if o0 = true then p1 else p0) = projZ n q o0 := by cases o0 <;> simp [e0, e1]
      refine ⟨_, o0, applyMeasurement_det ρ p0 p1 det o0 _ ht hnn t0' t1', hpn, ?_, r5, hfx⟩
      have hsz : (Mat.smul 1 (Mat.conjBy (if o0 = true then p1 else p0) ρ)).n = 2 ^ n := hpn
      rw [toC_norm n _ hsz, toC_smul, toC_conjBy n _ _ hpn, hpc, hρ, r1]
      unfold conjH
      rw [projZ_herm, r2]
      simp

/-! ### gates with a measurement -/

theorem conditioned_all (f : Tab → Tab) (o : Bool) : ∀ (outs : List Bool) (m : Mixture), outs.length = m.length →
    (∀ x ∈ outs, x = o) → Mix.conditioned f outs m = if o then Mix.mapTab f m else m
  | [], [], _, _ => by cases o <;> simp [Mix.conditioned, Mix.mapTab]
  | [], _ :: _, h, _ => by simp at h
  | _ :: _, [], h, _ => by simp at h
  | o' :: os, (p, t) :: m, h, ha => by
    have ih := conditioned_all f o os m (by simpa using h) (fun x hx => ha x (List.mem_cons_of_mem _ hx))
    have e : o' = o := ha o' List.mem_cons_self
    subst e
    have : Mix.conditioned f (o' :: os) ((p, t) :: m) =
        (if o' then (p, (f t).norm) else (p, t)) :: Mix.conditioned f os m := by simp [Mix.conditioned]
    rw [this, ih]
    cases o' <;> simp [Mix.mapTab]


/-! ### `MeasurementCNOTandReset` -/

/-- the 2×2 diagonal projector `|s⟩⟨s|` -/
noncomputable def diag2 (s : Bool) : Matrix Bool Bool ℂ := Matrix.of fun a b => if a = b ∧ a = s then 1 else 0

theorem toC2_ket0bra0 : toC2 (Mat.m2 1 0 0 0) = diag2 false := by
  ext a b; cases a <;> cases b <;> simp [toC2, b2n, Mat.m2, diag2, gqC_zero, gqC_one]

theorem toC2_ket0bra1 : toC2 (Mat.m2 0 1 0 0) = sigmaX * diag2 true := by
  ext a b
  cases a <;> cases b <;>
    simp [toC2, b2n, Mat.m2, diag2, sigmaX, gqC_zero, gqC_one, Matrix.mul_apply, Fintype.sum_bool]

theorem oneQ_diag2 (n q : Nat) (hq : q < n) (s : Bool) : oneQ n q (diag2 s) = projZ n q s := by
  unfold projZ
  rw [proj_Zq n q hq s]
  ext a b
  rw [oneQ_apply, Matrix.diagonal_apply]
  simp only [diag2, Matrix.of_apply]
  by_cases hab : a = b
  · subst hab
    rw [if_pos (fun _ _ => rfl), if_pos rfl]
    by_cases hs : bx a q = s
    · rw [if_pos ⟨rfl, hs⟩, if_pos hs]
    · rw [if_neg (fun h => hs h.2), if_neg hs]
  · rw [if_neg hab]
    by_cases ho : ∀ j : Fin n, j.val ≠ q → a j = b j
    · rw [if_pos ho]
      have hne : bx a q ≠ bx b q := fun e => hab ((bits_eq_iff_site q a b).2 ⟨ho, e⟩)
      rw [if_neg (fun h => hne h.1)]
    · rw [if_neg ho]

theorem resetH_herm (n q : Nat) (R : HMat n) (h : Rᴴ = R) : (resetH n q R)ᴴ = resetH n q R := by
  unfold resetH
  exact add_herm _ _ (conjH_herm _ _ h) (conjH_herm _ _ h)

/-- **`get_reset_qubit_kraus` through `apply_channel`** is the reset channel -/
theorem dmReset_toC (n q : Nat) (hq : q < n) (ρ ρ' : Mat) (hρn : ρ.n = 2 ^ n) (hh : (toC n ρ)ᴴ = toC n ρ)
    (h : applyChannel ρ (resetKraus n q) = .ok ρ') : toC n ρ' = resetH n q (toC n ρ) ∧ ρ'.n = 2 ^ n := by
  unfold resetKraus applyChannel at h
  simp only at h
  split at h; · cases h
  injection h with h; subst h
  simp only [List.foldl_cons, List.foldl_nil]
  have k0 := oneQubitGate_n n q hq (Mat.m2 1 0 0 0) rfl
  have k1 := oneQubitGate_n n q hq (Mat.m2 0 1 0 0) rfl
  have h0 : (Mat.zero ρ.n).n = 2 ^ n := hρn
  obtain ⟨e1, n1⟩ := chanStep_toC n (Mat.zero ρ.n) _ ρ 1 h0 k0
  obtain ⟨e2, n2⟩ := chanStep_toC n _ _ ρ 1 n1 k1
  refine ⟨?_, n2⟩
  rw [toC_hermNorm n _ n2, e2, e1, toC_zero, toC_oneQubitGate n q hq, toC_oneQubitGate n q hq, toC2_ket0bra0, toC2_ket0bra1,
    ← oneQ_mul n q hq, oneQ_diag2 n q hq, oneQ_diag2 n q hq]
  have hd : resetH n q (toC n ρ) = 0 + ((1 : ℚ) : ℂ) • conjH (projZ n q false) (toC n ρ)
      + ((1 : ℚ) : ℂ) • conjH (oneQ n q sigmaX * projZ n q true) (toC n ρ) := by
    unfold resetH
    simp only [Rat.cast_one, one_smul, zero_add]
    rfl
  rw [← hd]
  exact hermH_of_herm _ (resetH_herm n q _ hh)


/-! ### the two compilers in lockstep -/

theorem stabGate_real (np n : Nat) (det : Bool) (op : COp) (hf : MFree op) (s s1 : StabSt) (hm : MixReal s.mix)
    (h : stabGate np n det op s = .ok s1) : MixReal s1.mix := by
  unfold stabGate at h
  simp only at h
  have m1 : ∀ (q : Nat) (g : Gate), stabMap1 n q (fun t => t.map g.act) s = .ok s1 → MixReal s1.mix := by
    intro q g h; unfold stabMap1 at h; split at h
    · injection h with h; subst h; exact mapTab_real _ (fun t hr => gate_stabReal t g hr) _ hm
    · cases h
  have m2 : ∀ (q1 q2 : Nat) (g : Gate), stabMap2 n q1 q2 (fun t => t.map g.act) s = .ok s1 → MixReal s1.mix := by
    intro q1 q2 g h; unfold stabMap2 at h; split at h
    · injection h with h; subst h; exact mapTab_real _ (fun t hr => gate_stabReal t g hr) _ hm
    · cases h
  cases hk : op.kind <;> simp only [hk] at h
  case input => injection h with h; subst h; exact hm
  case output => injection h with h; subst h; exact hm
  case identity => injection h with h; subst h; exact hm
  case h => exact m1 _ (.H _) h
  case s => exact m1 _ (.P _) h
  case sdg => exact m1 _ (.Pdag _) h
  case x => exact m1 _ (.X _) h
  case y => exact m1 _ (.Y _) h
  case z => exact m1 _ (.Z _) h
  case cnot => exact m2 _ _ (.CNOT _ _) h
  case cz => exact m2 _ _ (.CZ _ _) h
  case ccnot => rcases hf with hf | hf <;> simp [hk, Kind.isOneQubit, Kind.isCtrlPair] at hf
  case ccz => rcases hf with hf | hf <;> simp [hk, Kind.isOneQubit, Kind.isCtrlPair] at hf
  case mcr => rcases hf with hf | hf <;> simp [hk, Kind.isOneQubit, Kind.isCtrlPair] at hf
  case measZ => rcases hf with hf | hf <;> simp [hk, Kind.isOneQubit, Kind.isCtrlPair] at hf
  case param => cases h

/-- a photon-loss rate lies in `[0,1]` -/
def LossOK : NoiseM → Prop
  | .loss r _ => 0 ≤ r ∧ r ≤ 1
  | _ => True

/-- depolarizing probability and loss rate in `[0,1]` -/
def ParamOK2 (nm : NoiseM) : Prop := ParamOK nm ∧ LossOK nm


theorem lossOK_of_none (nm : NoiseM) (h : nm.isNone = true) : LossOK nm := by cases nm <;> simp_all [NoiseM.isNone, LossOK]

theorem getD_none (arr : Array COp) (k : Nat) (hk : arr[k]? = none) :
    arr.getD k { kind := .identity } = { kind := .identity } := by
  simp [Array.getD, Array.getElem?_eq_none_iff.1 hk |> Nat.not_lt.2]

theorem getD_some (arr : Array COp) (k : Nat) (op : COp) (hk : arr[k]? = some op) :
    arr.getD k { kind := .identity } = op := by
  have hlt : k < arr.size := by
    rcases Nat.lt_or_ge k arr.size with h' | h'
    · exact h'
    · rw [Array.getElem?_eq_none_iff.2 h'] at hk; cases hk
  simp [Array.getD, hlt]
  have := Array.getElem?_eq_getElem hlt
  rw [this] at hk; injection hk

/-! #### the total weight never grows (loss rates in `[0,1]`) -/

theorem weight_mono (thr f T : Rat) (h0 : 0 < thr) (hf0 : 0 ≤ f) (hf1 : f ≤ 1) (h : thr < f * T) : thr < T := by
  have hT : 0 < T := by
    by_contra hc
    have : f * T ≤ 0 := mul_nonpos_of_nonneg_of_nonpos hf0 (not_lt.1 hc)
    linarith
  have : f * T ≤ 1 * T := mul_le_mul_of_nonneg_right hf1 (le_of_lt hT)
  linarith

theorem wThr_pos : 0 < wThr := by unfold wThr; norm_num

theorem lossOf_range (a : Act) (h : ∀ k side q nm, a = .noise k side q nm → LossOK nm) : 0 ≤ lossOf a ∧ lossOf a ≤ 1 := by
  cases a with
  | gate k => simp [lossOf]
  | replace k => simp [lossOf]
  | noise k side q nm =>
    have hl := h k side q nm rfl
    cases nm with
    | loss r a =>
      have h1 : 0 ≤ r := hl.1
      have h2 : r ≤ 1 := hl.2
      simp only [lossOf]
      constructor <;> linarith
    | none => simp [lossOf]
    | depol p a => simp [lossOf]
    | pauli k a => simp [lossOf]
    | replace => simp [lossOf]
    | other => simp [lossOf]

theorem lossFactor_range : ∀ (tr : List Act), TraceP LossOK tr → 0 ≤ lossFactor tr ∧ lossFactor tr ≤ 1
  | [], _ => by simp [lossFactor]
  | a :: as, h => by
    obtain ⟨a0, a1⟩ := lossOf_range a (fun k side q nm e => h k side q nm (by rw [e]; exact List.mem_cons_self))
    obtain ⟨i0, i1⟩ := lossFactor_range as (fun k side q nm hm => h k side q nm (List.mem_cons_of_mem _ hm))
    simp only [lossFactor]
    exact ⟨mul_nonneg a0 i0, by calc lossOf a * lossFactor as ≤ 1 * 1 := mul_le_mul a1 i1 i0 (by norm_num)
                                  _ = 1 := by norm_num⟩

theorem stabGate_creg (np n : Nat) (det : Bool) (op : COp) (hf : MFree op) (s s1 : StabSt)
    (h : stabGate np n det op s = .ok s1) : s1.creg = s.creg := by
  unfold stabGate at h
  simp only at h
  have m1 : ∀ (q : Nat) (f : Tab → Tab), stabMap1 n q f s = .ok s1 → s1.creg = s.creg := by
    intro q f h; unfold stabMap1 at h; split at h
    · injection h with h; subst h; rfl
    · cases h
  have m2 : ∀ (q1 q2 : Nat) (f : Tab → Tab), stabMap2 n q1 q2 f s = .ok s1 → s1.creg = s.creg := by
    intro q1 q2 f h; unfold stabMap2 at h; split at h
    · injection h with h; subst h; rfl
    · cases h
  cases hk : op.kind <;> simp only [hk] at h
  all_goals first
    | (injection h with h; subst h; rfl)
    | exact m1 _ _ h
    | exact m2 _ _ _ h
    | cases h
    | (rcases hf with hf | hf <;> simp [hk, Kind.isOneQubit, Kind.isCtrlPair] at hf)

theorem dmGate_creg (np n : Nat) (det : Bool) (op : COp) (hf : MFree op) (d d1 : DmSt)
    (h : dmGate np n det op d = .ok d1) : d1.creg = d.creg := by
  unfold dmGate at h
  cases hd : d.ρ with
  | none => simp only [hd] at h; injection h with h; subst h; rfl
  | some ρ =>
    simp only [hd] at h
    have uni : ∀ (u : SMat), Except.map (fun r => ({ d with ρ := some r } : DmSt)) (applyUnitary ρ u) = .ok d1 →
        d1.creg = d.creg := by
      intro u hm
      cases hu : applyUnitary ρ u with
      | error e => rw [hu] at hm; cases hm
      | ok r => rw [hu] at hm; injection hm with hm; subst hm; rfl
    have ctl : ∀ (g : Mat),
        (match getTwoQubitControlledGate n (qIndex np op.r1 op.t1) (qIndex np op.r2 op.t2) g with
          | .ok u => Except.map (fun r => ({ d with ρ := some r } : DmSt)) (applyUnitary ρ ⟨1, u⟩)
          | .error e => .error e) = .ok d1 → d1.creg = d.creg := by
      intro g hm
      cases hg : getTwoQubitControlledGate n (qIndex np op.r1 op.t1) (qIndex np op.r2 op.t2) g with
      | error e => rw [hg] at hm; cases hm
      | ok u => rw [hg] at hm; exact uni _ hm
    cases hk : op.kind <;> simp only [hk] at h
    all_goals first
      | (injection h with h; subst h; rfl)
      | exact uni _ h
      | exact ctl _ h
      | cases h
      | (rcases hf with hf | hf <;> simp [hk, Kind.isOneQubit, Kind.isCtrlPair] at hf)


/-- whenever the density matrix is `Σ_k w_k ρ(T_k)`, its overlap with any stabilizer target is the weighted sum of the
    branch overlaps -/
theorem overlap_of_eqOn (n : Nat) (ρ : Mat) (m : Mixture) (hm : MixN n m) (h : Mat.EqOn ρ (mixtureDensity n m))
    (T : Tab) (hT : T.n = n) : (ρ.mul (stabilizerDensity T)).trace = mixOverlapQ T m := by
  obtain ⟨e3, n3⟩ := toC_mixtureDensity n m hm
  have n2 : ρ.n = 2 ^ n := by rw [h.1, n3]
  obtain ⟨e4, _⟩ := toC_stabilizerDensity n T hT
  apply gqC_injective
  rw [gqC_mulTrace n _ _ n2, toC_congr n _ _ n2 h, e3, e4, overlap_linear, gqC_mixOverlapQ n T hT m hm]


end MixDM
end Graphiq
