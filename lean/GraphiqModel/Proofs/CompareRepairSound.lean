/-
  Proofs/CompareRepairSound.lean — from the node bijection to the circuits: if the repaired `circuit_is_isomorphic` reports two
  circuits isomorphic, a renaming of registers within each type turns the sequence of operations on every register of the
  first circuit into the sequence on the corresponding register of the second (`iso2_sound`), hence the renamed first circuit
  and the second differ only by exchanging neighbouring operations on disjoint registers (`SwapEquiv`).
-/
import GraphiqModel.Proofs.CompareRepairInit
namespace Graphiq.Compare
open Graphiq Graphiq.Export

/-! ## renaming operations by a map on registers -/

def renQ (π : Wire → Wire) (q : QReg) : QReg := ⟨q.t, (π (Wire.ofQ q)).i⟩
def renC (π : Wire → Wire) (m : Nat) : Nat := (π ⟨.c, m⟩).i

def renOp (π : Wire → Wire) : Op → Op
  | .one g q => .one g (renQ π q)
  | .wrap gs q => .wrap gs (renQ π q)
  | .ctrl g a b => .ctrl g (renQ π a) (renQ π b)
  | .cctrl g a b m => .cctrl g (renQ π a) (renQ π b) (renC π m)
  | .meas q m => .meas (renQ π q) (renC π m)

theorem renQ_spec (π : Wire → Wire) (q q' : QReg) (ht : (π (Wire.ofQ q)).t = (Wire.ofQ q).t)
    (h : π (Wire.ofQ q) = Wire.ofQ q') : q' = renQ π q := by
  cases q with | mk t i => cases q' with | mk t' i' =>
  unfold renQ
  rw [h] at ht ⊢
  simp only [Wire.ofQ] at ht ⊢
  cases t <;> cases t' <;> simp_all [RT.ofRegT]

theorem renC_spec (π : Wire → Wire) (m m' : Nat) (h : π ⟨.c, m⟩ = ⟨.c, m'⟩) : m' = renC π m := by
  unfold renC; rw [h]

theorem ofQ_ne_c (q : QReg) (m : Nat) : Wire.ofQ q ≠ ⟨.c, m⟩ := by
  cases q with | mk t i => cases t <;> simp [Wire.ofQ, RT.ofRegT]

theorem ofQ_t_ne_c (q : QReg) : (Wire.ofQ q).t ≠ .c := by
  cases q with | mk t i => cases t <;> simp [Wire.ofQ, RT.ofRegT]

/-- **class, register types and the roles of all registers determine the operation** -/
theorem op_of_roles (π : Wire → Wire) (o1 o2 : Op) (hm : nodeMatch (.gate o1) (.gate o2) = true) (hn1 : (opWires o1).Nodup)
    (h : ∀ w ∈ opWires o1, π w ∈ opWires o2 ∧ (π w).t = w.t ∧ role (some (.gate o2)) (π w) = role (some (.gate o1)) w) :
    o2 = renOp π o1 := by
  cases o1 with
  | one g q =>
    cases o2 with
    | one g' q' =>
      simp only [nodeMatch, Op.cls, Op.qRegs, Bool.and_eq_true, beq_iff_eq, Option.some.injEq, Cls.g1.injEq] at hm
      obtain ⟨h1, h2, _⟩ := h (Wire.ofQ q) (by simp [opWires, Op.qRegs, Op.cRegs])
      simp only [opWires, Op.qRegs, Op.cRegs, List.map_cons, List.map_nil, List.append_nil, List.mem_singleton] at h1
      rw [renOp, ← renQ_spec π q q' h2 h1, hm.1]
    | wrap _ _ => simp [nodeMatch] at hm
    | ctrl _ _ _ => simp [nodeMatch, Op.cls] at hm
    | cctrl _ _ _ _ => simp [nodeMatch, Op.cls] at hm
    | meas _ _ => simp [nodeMatch, Op.cls] at hm
  | wrap gs q =>
    cases o2 with
    | wrap gs' q' =>
      simp only [nodeMatch, Bool.and_eq_true, beq_iff_eq] at hm
      obtain ⟨h1, h2, _⟩ := h (Wire.ofQ q) (by simp [opWires, Op.qRegs, Op.cRegs])
      simp only [opWires, Op.qRegs, Op.cRegs, List.map_cons, List.map_nil, List.append_nil, List.mem_singleton] at h1
      rw [renOp, ← renQ_spec π q q' h2 h1, hm.2]
    | one _ _ => simp [nodeMatch] at hm
    | ctrl _ _ _ => simp [nodeMatch] at hm
    | cctrl _ _ _ _ => simp [nodeMatch] at hm
    | meas _ _ => simp [nodeMatch] at hm
  | ctrl g c t =>
    cases o2 with
    | ctrl g' c' t' =>
      simp only [nodeMatch, Op.cls, Op.qRegs, Bool.and_eq_true, beq_iff_eq, Option.some.injEq, Cls.g2.injEq] at hm
      simp only [opWires, Op.qRegs, Op.cRegs, List.map_cons, List.map_nil, List.append_nil, List.nodup_cons,
        List.mem_cons, List.not_mem_nil, or_false, List.nodup_nil, and_true, not_false_eq_true] at hn1
      have rc : role (some (.gate (.ctrl g c t))) (Wire.ofQ c) = some 'c' := by simp [role]
      have rt : role (some (.gate (.ctrl g c t))) (Wire.ofQ t) = some 't' := by simp [role, hn1]
      obtain ⟨_, hc2, hc3⟩ := h (Wire.ofQ c) (by simp [opWires, Op.qRegs, Op.cRegs])
      obtain ⟨_, ht2, ht3⟩ := h (Wire.ofQ t) (by simp [opWires, Op.qRegs, Op.cRegs])
      rw [rc] at hc3
      rw [rt] at ht3
      have ec : π (Wire.ofQ c) = Wire.ofQ c' := by
        unfold role at hc3
        simp only at hc3
        split at hc3
        · rename_i hh; exact (beq_iff_eq.1 hh).symm
        · split at hc3
          · exact absurd hc3 (by decide)
          · cases hc3
      have et : π (Wire.ofQ t) = Wire.ofQ t' := by
        unfold role at ht3
        simp only at ht3
        split at ht3
        · exact absurd ht3 (by decide)
        · split at ht3
          · rename_i hh; exact (beq_iff_eq.1 hh).symm
          · cases ht3
      rw [renOp, ← renQ_spec π c c' hc2 ec, ← renQ_spec π t t' ht2 et, hm.1]
    | one _ _ => simp [nodeMatch, Op.cls] at hm
    | wrap _ _ => simp [nodeMatch] at hm
    | cctrl _ _ _ _ => simp [nodeMatch, Op.cls] at hm
    | meas _ _ => simp [nodeMatch, Op.cls] at hm
  | cctrl g c t m =>
    cases o2 with
    | cctrl g' c' t' m' =>
      simp only [nodeMatch, Op.cls, Op.qRegs, Bool.and_eq_true, beq_iff_eq, Option.some.injEq, Cls.gc.injEq] at hm
      simp only [opWires, Op.qRegs, Op.cRegs, List.map_cons, List.map_nil, List.cons_append, List.nil_append, List.nodup_cons,
        List.mem_cons, List.not_mem_nil, or_false, List.nodup_nil, and_true, not_false_eq_true, not_or] at hn1
      have hct : Wire.ofQ c ≠ Wire.ofQ t := hn1.1.1
      have rc : role (some (.gate (.cctrl g c t m))) (Wire.ofQ c) = some 'c' := by simp [role]
      have rt : role (some (.gate (.cctrl g c t m))) (Wire.ofQ t) = some 't' := by simp [role, hct]
      have rm : role (some (.gate (.cctrl g c t m))) ⟨.c, m⟩ = some 'm' := by simp [role, ofQ_ne_c]
      obtain ⟨_, hc2, hc3⟩ := h (Wire.ofQ c) (by simp [opWires, Op.qRegs, Op.cRegs])
      obtain ⟨_, ht2, ht3⟩ := h (Wire.ofQ t) (by simp [opWires, Op.qRegs, Op.cRegs])
      obtain ⟨_, hm2, hm3⟩ := h ⟨.c, m⟩ (by simp [opWires, Op.qRegs, Op.cRegs])
      rw [rc] at hc3
      rw [rt] at ht3
      rw [rm] at hm3
      have ec : π (Wire.ofQ c) = Wire.ofQ c' := by
        unfold role at hc3
        simp only at hc3
        split at hc3
        · rename_i hh; exact (beq_iff_eq.1 hh).symm
        · split at hc3
          · exact absurd hc3 (by decide)
          · split at hc3
            · exact absurd hc3 (by decide)
            · cases hc3
      have et : π (Wire.ofQ t) = Wire.ofQ t' := by
        unfold role at ht3
        simp only at ht3
        split at ht3
        · exact absurd ht3 (by decide)
        · split at ht3
          · rename_i hh; exact (beq_iff_eq.1 hh).symm
          · split at ht3
            · exact absurd ht3 (by decide)
            · cases ht3
      have em : π ⟨.c, m⟩ = ⟨.c, m'⟩ := by
        unfold role at hm3
        simp only at hm3
        split at hm3
        · exact absurd hm3 (by decide)
        · split at hm3
          · exact absurd hm3 (by decide)
          · split at hm3
            · rename_i hh; exact beq_iff_eq.1 hh
            · cases hm3
      rw [renOp, ← renQ_spec π c c' hc2 ec, ← renQ_spec π t t' ht2 et, ← renC_spec π m m' em, hm.1]
    | one _ _ => simp [nodeMatch, Op.cls] at hm
    | wrap _ _ => simp [nodeMatch] at hm
    | ctrl _ _ _ => simp [nodeMatch, Op.cls] at hm
    | meas _ _ => simp [nodeMatch, Op.cls] at hm
  | meas q m =>
    cases o2 with
    | meas q' m' =>
      have rm : role (some (.gate (.meas q m))) ⟨.c, m⟩ = some 'm' := by simp [role]
      obtain ⟨hq1, hq2, _⟩ := h (Wire.ofQ q) (by simp [opWires, Op.qRegs, Op.cRegs])
      obtain ⟨_, hm2, hm3⟩ := h ⟨.c, m⟩ (by simp [opWires, Op.qRegs, Op.cRegs])
      rw [rm] at hm3
      have eq : π (Wire.ofQ q) = Wire.ofQ q' := by
        simp only [opWires, Op.qRegs, Op.cRegs, List.map_cons, List.map_nil, List.cons_append, List.nil_append, List.mem_cons,
          List.not_mem_nil, or_false] at hq1
        rcases hq1 with h1 | h1
        · exact h1
        · exfalso
          rw [h1] at hq2
          exact ofQ_t_ne_c q hq2.symm
      have em : π ⟨.c, m⟩ = ⟨.c, m'⟩ := by
        unfold role at hm3
        simp only at hm3
        split at hm3
        · rename_i hh; exact beq_iff_eq.1 hh
        · cases hm3
      rw [renOp, ← renQ_spec π q q' hq2 eq, ← renC_spec π m m' em]
    | one _ _ => simp [nodeMatch, Op.cls] at hm
    | wrap _ _ => simp [nodeMatch] at hm
    | ctrl _ _ _ => simp [nodeMatch, Op.cls] at hm
    | cctrl _ _ _ _ => simp [nodeMatch, Op.cls] at hm

end Graphiq.Compare
