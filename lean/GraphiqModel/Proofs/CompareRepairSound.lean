/-
  Proofs/CompareRepairSound.lean — from the node bijection to the circuits: if the repaired `circuit_is_isomorphic` reports two
  circuits isomorphic, a renaming of registers within each type turns the sequence of operations on every register of the
  first circuit into the sequence on the corresponding register of the second (`iso2_sound`), hence the renamed first circuit
  and the second differ only by exchanging neighbouring operations on disjoint registers (`SwapEquiv`).
-/
import GraphiqModel.Proofs.CompareRepairInit
import Mathlib.Data.Fintype.Card
namespace Graphiq.Compare
open Graphiq Graphiq.Export

/-! ## renaming operations by a map on registers -/

def renQ (π : Wire → Wire) (q : QReg) : QReg := ⟨q.t, (π (Wire.ofQ q)).i⟩
def renC (π : Wire → Wire) (m : Nat) : Nat := (π ⟨.c, m⟩).i

def renOp (π : Wire → Wire) : Op → Op
  | .one g q => .one g (renQ π q)
  | .wrap gs q => .wrap gs (renQ π q)
  | .ctrl g a b => .ctrl g (renQ π a) (renQ π b)
  | .cctrl g a b m => .cctrl g (renQ π a) (renQ π b) (renC π m)
  | .meas q m => .meas (renQ π q) (renC π m)

theorem renQ_spec (π : Wire → Wire) (q q' : QReg) (ht : (π (Wire.ofQ q)).t = (Wire.ofQ q).t)
    (h : π (Wire.ofQ q) = Wire.ofQ q') : q' = renQ π q := by
  cases q with | mk t i => cases q' with | mk t' i' =>
  unfold renQ
  rw [h] at ht ⊢
  simp only [Wire.ofQ] at ht ⊢
  cases t <;> cases t' <;> simp_all [RT.ofRegT]

theorem renC_spec (π : Wire → Wire) (m m' : Nat) (h : π ⟨.c, m⟩ = ⟨.c, m'⟩) : m' = renC π m := by
  unfold renC; rw [h]

theorem ofQ_ne_c (q : QReg) (m : Nat) : Wire.ofQ q ≠ ⟨.c, m⟩ := by
  cases q with | mk t i => cases t <;> simp [Wire.ofQ, RT.ofRegT]

theorem ofQ_t_ne_c (q : QReg) : (Wire.ofQ q).t ≠ .c := by
  cases q with | mk t i => cases t <;> simp [Wire.ofQ, RT.ofRegT]

/-- **class, register types and the roles of all registers determine the operation** -/
theorem op_of_roles (π : Wire → Wire) (o1 o2 : Op) (hm : nodeMatch (.gate o1) (.gate o2) = true) (hn1 : (opWires o1).Nodup)
    (h : ∀ w ∈ opWires o1, π w ∈ opWires o2 ∧ (π w).t = w.t ∧ role (some (.gate o2)) (π w) = role (some (.gate o1)) w) :
    o2 = renOp π o1 := by
  cases o1 with
  | one g q =>
    cases o2 with
    | one g' q' =>
      simp only [nodeMatch, Op.cls, Op.qRegs, Bool.and_eq_true, beq_iff_eq, Option.some.injEq, Cls.g1.injEq] at hm
      obtain ⟨h1, h2, _⟩ := h (Wire.ofQ q) (by simp [opWires, Op.qRegs, Op.cRegs])
      simp only [opWires, Op.qRegs, Op.cRegs, List.map_cons, List.map_nil, List.append_nil, List.mem_singleton] at h1
      rw [renOp, ← renQ_spec π q q' h2 h1, hm.1]
    | wrap _ _ => simp [nodeMatch] at hm
    | ctrl _ _ _ => simp [nodeMatch, Op.cls] at hm
    | cctrl _ _ _ _ => simp [nodeMatch, Op.cls] at hm
    | meas _ _ => simp [nodeMatch, Op.cls] at hm
  | wrap gs q =>
    cases o2 with
    | wrap gs' q' =>
      simp only [nodeMatch, Bool.and_eq_true, beq_iff_eq] at hm
      obtain ⟨h1, h2, _⟩ := h (Wire.ofQ q) (by simp [opWires, Op.qRegs, Op.cRegs])
      simp only [opWires, Op.qRegs, Op.cRegs, List.map_cons, List.map_nil, List.append_nil, List.mem_singleton] at h1
      rw [renOp, ← renQ_spec π q q' h2 h1, hm.2]
    | one _ _ => simp [nodeMatch] at hm
    | ctrl _ _ _ => simp [nodeMatch] at hm
    | cctrl _ _ _ _ => simp [nodeMatch] at hm
    | meas _ _ => simp [nodeMatch] at hm
  | ctrl g c t =>
    cases o2 with
    | ctrl g' c' t' =>
      simp only [nodeMatch, Op.cls, Op.qRegs, Bool.and_eq_true, beq_iff_eq, Option.some.injEq, Cls.g2.injEq] at hm
      simp only [opWires, Op.qRegs, Op.cRegs, List.map_cons, List.map_nil, List.append_nil, List.nodup_cons,
        List.mem_cons, List.not_mem_nil, or_false, List.nodup_nil, and_true, not_false_eq_true] at hn1
      have rc : role (some (.gate (.ctrl g c t))) (Wire.ofQ c) = some 'c' := by simp [role]
      have rt : role (some (.gate (.ctrl g c t))) (Wire.ofQ t) = some 't' := by simp [role, hn1]
      obtain ⟨_, hc2, hc3⟩ := h (Wire.ofQ c) (by simp [opWires, Op.qRegs, Op.cRegs])
      obtain ⟨_, ht2, ht3⟩ := h (Wire.ofQ t) (by simp [opWires, Op.qRegs, Op.cRegs])
      rw [rc] at hc3
      rw [rt] at ht3
      have ec : π (Wire.ofQ c) = Wire.ofQ c' := by
        unfold role at hc3
        simp only at hc3
        split at hc3
        · rename_i hh; exact (beq_iff_eq.1 hh).symm
        · split at hc3
          · exact absurd hc3 (by decide)
          · cases hc3
      have et : π (Wire.ofQ t) = Wire.ofQ t' := by
        unfold role at ht3
        simp only at ht3
        split at ht3
        · exact absurd ht3 (by decide)
        · split at ht3
          · rename_i hh; exact (beq_iff_eq.1 hh).symm
          · cases ht3
      rw [renOp, ← renQ_spec π c c' hc2 ec, ← renQ_spec π t t' ht2 et, hm.1]
    | one _ _ => simp [nodeMatch, Op.cls] at hm
    | wrap _ _ => simp [nodeMatch] at hm
    | cctrl _ _ _ _ => simp [nodeMatch, Op.cls] at hm
    | meas _ _ => simp [nodeMatch, Op.cls] at hm
  | cctrl g c t m =>
    cases o2 with
    | cctrl g' c' t' m' =>
      simp only [nodeMatch, Op.cls, Op.qRegs, Bool.and_eq_true, beq_iff_eq, Option.some.injEq, Cls.gc.injEq] at hm
      simp only [opWires, Op.qRegs, Op.cRegs, List.map_cons, List.map_nil, List.cons_append, List.nil_append, List.nodup_cons,
        List.mem_cons, List.not_mem_nil, or_false, List.nodup_nil, and_true, not_false_eq_true, not_or] at hn1
      have hct : Wire.ofQ c ≠ Wire.ofQ t := hn1.1.1
      have rc : role (some (.gate (.cctrl g c t m))) (Wire.ofQ c) = some 'c' := by simp [role]
      have rt : role (some (.gate (.cctrl g c t m))) (Wire.ofQ t) = some 't' := by simp [role, hct]
      have rm : role (some (.gate (.cctrl g c t m))) ⟨.c, m⟩ = some 'm' := by simp [role, ofQ_ne_c]
      obtain ⟨_, hc2, hc3⟩ := h (Wire.ofQ c) (by simp [opWires, Op.qRegs, Op.cRegs])
      obtain ⟨_, ht2, ht3⟩ := h (Wire.ofQ t) (by simp [opWires, Op.qRegs, Op.cRegs])
      obtain ⟨_, hm2, hm3⟩ := h ⟨.c, m⟩ (by simp [opWires, Op.qRegs, Op.cRegs])
      rw [rc] at hc3
      rw [rt] at ht3
      rw [rm] at hm3
      have ec : π (Wire.ofQ c) = Wire.ofQ c' := by
        unfold role at hc3
        simp only at hc3
        split at hc3
        · rename_i hh; exact (beq_iff_eq.1 hh).symm
        · split at hc3
          · exact absurd hc3 (by decide)
          · split at hc3
            · exact absurd hc3 (by decide)
            · cases hc3
      have et : π (Wire.ofQ t) = Wire.ofQ t' := by
        unfold role at ht3
        simp only at ht3
        split at ht3
        · exact absurd ht3 (by decide)
        · split at ht3
          · rename_i hh; exact (beq_iff_eq.1 hh).symm
          · split at ht3
            · exact absurd ht3 (by decide)
            · cases ht3
      have em : π ⟨.c, m⟩ = ⟨.c, m'⟩ := by
        unfold role at hm3
        simp only at hm3
        split at hm3
        · exact absurd hm3 (by decide)
        · split at hm3
          · exact absurd hm3 (by decide)
          · split at hm3
            · rename_i hh; exact beq_iff_eq.1 hh
            · cases hm3
      rw [renOp, ← renQ_spec π c c' hc2 ec, ← renQ_spec π t t' ht2 et, ← renC_spec π m m' em, hm.1]
    | one _ _ => simp [nodeMatch, Op.cls] at hm
    | wrap _ _ => simp [nodeMatch] at hm
    | ctrl _ _ _ => simp [nodeMatch, Op.cls] at hm
    | meas _ _ => simp [nodeMatch, Op.cls] at hm
  | meas q m =>
    cases o2 with
    | meas q' m' =>
      have rm : role (some (.gate (.meas q m))) ⟨.c, m⟩ = some 'm' := by simp [role]
      obtain ⟨hq1, hq2, _⟩ := h (Wire.ofQ q) (by simp [opWires, Op.qRegs, Op.cRegs])
      obtain ⟨_, hm2, hm3⟩ := h ⟨.c, m⟩ (by simp [opWires, Op.qRegs, Op.cRegs])
      rw [rm] at hm3
      have eq : π (Wire.ofQ q) = Wire.ofQ q' := by
        simp only [opWires, Op.qRegs, Op.cRegs, List.map_cons, List.map_nil, List.cons_append, List.nil_append, List.mem_cons,
          List.not_mem_nil, or_false] at hq1
        rcases hq1 with h1 | h1
        · exact h1
        · exfalso
          rw [h1] at hq2
          exact ofQ_t_ne_c q hq2.symm
      have em : π ⟨.c, m⟩ = ⟨.c, m'⟩ := by
        unfold role at hm3
        simp only at hm3
        split at hm3
        · rename_i hh; exact beq_iff_eq.1 hh
        · cases hm3
      rw [renOp, ← renQ_spec π q q' hq2 eq, ← renC_spec π m m' em]
    | one _ _ => simp [nodeMatch, Op.cls] at hm
    | wrap _ _ => simp [nodeMatch] at hm
    | ctrl _ _ _ => simp [nodeMatch, Op.cls] at hm
    | cctrl _ _ _ _ => simp [nodeMatch, Op.cls] at hm

/-! ## from the node bijection to the operation sequences -/

/-- the graph is a family of register paths over `W`, the operations along the path of `w` are `S w`, and every operation
    node lies on the path of each of its registers -/
def GraphInv (W : List Wire) (g : MG) (S : Wire → List Op) : Prop :=
  ∃ body, Rep0 g W body ∧ (∀ w ∈ W, wireOps g body w = S w) ∧
    (∀ n o, g.opOf n = some (.gate o) → ∀ w' ∈ opWires o, w' ∈ W ∧ n ∈ body w')

theorem BuildInv.graphInv {W : List Wire} {g : MG} {l : List Op} (h : BuildInv W g l) :
    GraphInv W g (fun w => l.filter (touches w)) := by
  obtain ⟨body, r, _, _, hops, hon, _⟩ := h
  exact ⟨body, r, hops, hon⟩

/-- a labelled circuit DAG together with the operation sequences it represents -/
structure CircRep (g : MG) (W : List Wire) (S : Wire → List Op) (body : Wire → List Nd) : Prop where
  rep : Rep g W body
  ops : ∀ w ∈ W, wireOps g body w = S w
  onPath : ∀ n o, g.opOf n = some (.gate o) → ∀ w' ∈ opWires o, w' ∈ W ∧ n ∈ body w'

theorem GraphInv.circRep {W : List Wire} {g : MG} {S : Wire → List Op} (h : GraphInv W g S) :
    ∃ body, CircRep g.addControlTarget2 W S body := by
  obtain ⟨body, r, hops, hon⟩ := h
  refine ⟨body, ⟨r.addControlTarget2, ?_, ?_⟩⟩
  · rw [addControlTarget2_eq g W body r]; exact hops
  · rw [addControlTarget2_eq g W body r]; exact hon

/-- **the operations on register `π w` of the second circuit are the renamed operations on register `w` of the first** -/
theorem iso2_ops (g1 g2 : MG) (W1 W2 : List Wire) (S1 S2 : Wire → List Op) (B1 B2 : Wire → List Nd)
    (c1 : CircRep g1 W1 S1 B1) (c2 : CircRep g2 W2 S2 B2) (φ : Nd → Nd) (hf : IsoFacts2 g1 g2 φ) (w : Wire) (hw : w ∈ W1) :
    S2 (wireMap φ w) = (S1 w).map (renOp (wireMap φ)) := by
  obtain ⟨hw2, _, _, _, hb, _⟩ := iso2_wires g1 g2 W1 W2 B1 B2 c1.rep c2.rep φ hf w hw
  rw [← c2.ops _ hw2, ← c1.ops w hw]
  unfold wireOps
  rw [hb, List.filterMap_map, List.map_filterMap]
  apply List.filterMap_congr
  intro n hn
  obtain ⟨id, o1, _, ho1, _⟩ := c1.rep.bodyOp w hw n hn
  obtain ⟨a, b, ha, hb2, hab⟩ := hf.nodes n (opOf_some_mem g1 n _ ho1)
  rw [ho1] at ha
  injection ha with ha
  subst ha
  obtain ⟨o2, rfl⟩ := nodeMatch_gate o1 b hab
  have h1 : gateAt g1 n = some o1 := by unfold gateAt; rw [ho1]
  have h2 : gateAt g2 (φ n) = some o2 := by unfold gateAt; rw [hb2]
  simp only [Function.comp, h1, h2, Option.map_some]
  congr 1
  apply op_of_roles (wireMap φ) o1 o2 hab (c1.rep.wiresNodup n o1 ho1)
  intro w' hw'
  obtain ⟨hw'W, hnw'⟩ := c1.onPath n o1 ho1 w' hw'
  obtain ⟨hw2', ht', _, _, hb', hr'⟩ := iso2_wires g1 g2 W1 W2 B1 B2 c1.rep c2.rep φ hf w' hw'W
  have hφn : φ n ∈ B2 (wireMap φ w') := by rw [hb']; exact List.mem_map_of_mem hnw'
  obtain ⟨_, o2', _, ho2', hin⟩ := c2.rep.bodyOp _ hw2' _ hφn
  rw [hb2] at ho2'
  injection ho2' with ho2'
  injection ho2' with ho2'
  subst ho2'
  refine ⟨hin, ht', ?_⟩
  have := hr' n hnw'
  rw [hb2, ho1] at this
  exact this

/-! ## register counts -/

theorem typed_count (t : RT) (n1 n2 : Nat) (π : Wire → Wire) (h1 : ∀ i, i < n1 → ∃ j, j < n2 ∧ π ⟨t, i⟩ = ⟨t, j⟩)
    (hinj : ∀ i, i < n1 → ∀ i', i' < n1 → π ⟨t, i⟩ = π ⟨t, i'⟩ → i = i')
    (hsurj : ∀ j, j < n2 → ∃ i, i < n1 ∧ π ⟨t, i⟩ = ⟨t, j⟩) : n1 = n2 := by
  let f : Fin n1 → Fin n2 := fun i => ⟨Classical.choose (h1 i.1 i.2), (Classical.choose_spec (h1 i.1 i.2)).1⟩
  have hfs : ∀ i : Fin n1, π ⟨t, i.1⟩ = ⟨t, (f i).1⟩ := fun i => (Classical.choose_spec (h1 i.1 i.2)).2
  have hbij : Function.Bijective f := by
    constructor
    · intro a b hab
      have : π ⟨t, a.1⟩ = π ⟨t, b.1⟩ := by rw [hfs a, hfs b, hab]
      exact Fin.ext (hinj a.1 a.2 b.1 b.2 this)
    · intro j
      obtain ⟨i, hi, hπ⟩ := hsurj j.1 j.2
      refine ⟨⟨i, hi⟩, Fin.ext ?_⟩
      have := hfs ⟨i, hi⟩
      rw [hπ] at this
      injection this with _ h
      exact h.symm
  have := Fintype.card_of_bijective hbij
  simpa using this

theorem mem_wiresN_mk (ne np nc : Nat) (t : RT) (i : Nat) :
    (⟨t, i⟩ : Wire) ∈ wiresN ne np nc ↔ i < (match t with | .e => ne | .p => np | .c => nc) := mem_wiresN ne np nc ⟨t, i⟩

theorem counts_eq (ne1 np1 nc1 ne2 np2 nc2 : Nat) (π : Wire → Wire)
    (hinto : ∀ w ∈ wiresN ne1 np1 nc1, π w ∈ wiresN ne2 np2 nc2 ∧ (π w).t = w.t)
    (hinj : ∀ w ∈ wiresN ne1 np1 nc1, ∀ w' ∈ wiresN ne1 np1 nc1, π w = π w' → w = w')
    (hsurj : ∀ w2 ∈ wiresN ne2 np2 nc2, ∃ w ∈ wiresN ne1 np1 nc1, π w = w2) : ne1 = ne2 ∧ np1 = np2 ∧ nc1 = nc2 := by
  have key : ∀ t : RT, (match t with | .e => ne1 | .p => np1 | .c => nc1) = (match t with | .e => ne2 | .p => np2 | .c => nc2) := by
    intro t
    apply typed_count t _ _ π
    · intro i hi
      have hm := (mem_wiresN_mk ne1 np1 nc1 t i).2 hi
      obtain ⟨a, b⟩ := hinto _ hm
      cases hπ : π ⟨t, i⟩ with | mk t' j =>
      rw [hπ] at a b
      simp only at b
      subst b
      exact ⟨j, (mem_wiresN_mk ne2 np2 nc2 t' j).1 a, rfl⟩
    · intro i hi i' hi' h
      have := hinj _ ((mem_wiresN_mk ne1 np1 nc1 t i).2 hi) _ ((mem_wiresN_mk ne1 np1 nc1 t i').2 hi') h
      injection this
    · intro j hj
      obtain ⟨w, hw, hπ⟩ := hsurj _ ((mem_wiresN_mk ne2 np2 nc2 t j).2 hj)
      cases w with | mk t' i =>
      have := (hinto _ hw).2
      rw [hπ] at this
      simp only at this
      subst this
      exact ⟨i, (mem_wiresN_mk ne1 np1 nc1 _ i).1 hw, hπ⟩
  exact ⟨key .e, key .p, key .c⟩

/-! ## the circuits -/

/-- `c2` is `c1` with the registers renamed by `π` within each type, register by register -/
structure RenamedBy (π : Wire → Wire) (c1 c2 : Circuit) : Prop where
  ne : c1.ne = c2.ne
  np : c1.np = c2.np
  nc : c1.nc = c2.nc
  into : ∀ w ∈ wiresN c1.ne c1.np c1.nc, π w ∈ wiresN c1.ne c1.np c1.nc ∧ (π w).t = w.t
  inj : ∀ w ∈ wiresN c1.ne c1.np c1.nc, ∀ w' ∈ wiresN c1.ne c1.np c1.nc, π w = π w' → w = w'
  surj : ∀ w2 ∈ wiresN c1.ne c1.np c1.nc, ∃ w ∈ wiresN c1.ne c1.np c1.nc, π w = w2
  wires : ∀ w ∈ wiresN c1.ne c1.np c1.nc, c2.ops.filter (touches (π w)) = (c1.ops.filter (touches w)).map (renOp π)

/-- the graph-level form: two circuit DAGs (however they were built) that the repaired comparison reports isomorphic
    represent operation sequences that are renamings of each other, register by register -/
theorem iso2_sound_graphs (g1 g2 : MG) (ne1 np1 nc1 ne2 np2 nc2 : Nat) (S1 S2 : Wire → List Op)
    (i1 : GraphInv (wiresN ne1 np1 nc1) g1 S1) (i2 : GraphInv (wiresN ne2 np2 nc2) g2 S2) (hiso : isoGraphs2 g1 g2 = true) :
    ne1 = ne2 ∧ np1 = np2 ∧ nc1 = nc2 ∧ ∃ π : Wire → Wire,
      (∀ w ∈ wiresN ne1 np1 nc1, π w ∈ wiresN ne1 np1 nc1 ∧ (π w).t = w.t) ∧
      (∀ w ∈ wiresN ne1 np1 nc1, ∀ w' ∈ wiresN ne1 np1 nc1, π w = π w' → w = w') ∧
      (∀ w2 ∈ wiresN ne1 np1 nc1, ∃ w ∈ wiresN ne1 np1 nc1, π w = w2) ∧
      (∀ w ∈ wiresN ne1 np1 nc1, S2 (π w) = (S1 w).map (renOp π)) := by
  obtain ⟨f, hf⟩ := isoGraphs2_witness g1 g2 hiso
  obtain ⟨_, hfacts⟩ := isoCheck2_facts _ _ f hf
  obtain ⟨B1, cr1⟩ := i1.circRep
  obtain ⟨B2, cr2⟩ := i2.circRep
  let π := wireMap (mapFn f)
  have hW := fun w hw => iso2_wires _ _ _ _ B1 B2 cr1.rep cr2.rep (mapFn f) hfacts w hw
  have hcounts := counts_eq ne1 np1 nc1 ne2 np2 nc2 π
    (fun w hw => ⟨(hW w hw).1, (hW w hw).2.1⟩)
    (fun w hw w' hw' => wireMap_inj _ _ _ _ B1 B2 cr1.rep cr2.rep (mapFn f) hfacts w w' hw hw')
    (fun w2 hw2 => wireMap_surj _ _ _ _ B1 B2 cr1.rep cr2.rep (mapFn f) hfacts w2 hw2)
  obtain ⟨e1, e2, e3⟩ := hcounts
  have hWeq : wiresN ne2 np2 nc2 = wiresN ne1 np1 nc1 := by rw [e1, e2, e3]
  refine ⟨e1, e2, e3, π, ?_, ?_, ?_, ?_⟩
  · intro w hw
    exact ⟨hWeq ▸ (hW w hw).1, (hW w hw).2.1⟩
  · exact fun w hw w' hw' => wireMap_inj _ _ _ _ B1 B2 cr1.rep cr2.rep (mapFn f) hfacts w w' hw hw'
  · intro w2 hw2
    exact wireMap_surj _ _ _ _ B1 B2 cr1.rep cr2.rep (mapFn f) hfacts w2 (hWeq ▸ hw2)
  · exact fun w hw => iso2_ops _ _ _ _ _ _ B1 B2 cr1 cr2 (mapFn f) hfacts w hw

/-- **soundness of the repaired `circuit_is_isomorphic`**: a positive answer exhibits a renaming of the registers within
    each type that turns the operation sequence of every register of the first circuit into the operation sequence of
    the corresponding register of the second -/
theorem iso2_sound (c1 c2 : Circuit) (h1 : ∀ o ∈ c1.ops, OpOK (wiresN c1.ne c1.np c1.nc) o)
    (h2 : ∀ o ∈ c2.ops, OpOK (wiresN c2.ne c2.np c2.nc) o) (h : circuitIsIsomorphic2 c1 c2 = .ok true) :
    ∃ π, RenamedBy π c1 c2 := by
  obtain ⟨g1, hb1, i1, _, _, _⟩ := build_rep c1 h1
  obtain ⟨g2, hb2, i2, _, _, _⟩ := build_rep c2 h2
  unfold circuitIsIsomorphic2 at h
  rw [hb1, hb2] at h
  have hiso : isoGraphs2 g1 g2 = true := by
    simp only [bind, Except.bind, pure, Except.pure] at h
    injection h
  obtain ⟨e1, e2, e3, π, a, b, c, d⟩ := iso2_sound_graphs g1 g2 _ _ _ _ _ _ _ _ i1.graphInv i2.graphInv hiso
  exact ⟨π, ⟨e1, e2, e3, a, b, c, d⟩⟩

/-! ## well-formed circuits -/

/-- `OpOK` in the vocabulary of C14/C15: the registers are in range and pairwise different -/
theorem opOK_iff (c : Circuit) (o : Op) :
    OpOK (wiresN c.ne c.np c.nc) o ↔ InRange c o ∧ (opWires o).Nodup := by
  unfold OpOK InRange
  constructor
  · rintro ⟨h, hn⟩
    refine ⟨⟨?_, ?_⟩, hn⟩
    · intro q hq
      have := (mem_wiresN _ _ _ _).1 (h (Wire.ofQ q) (by unfold opWires; exact List.mem_append_left _ (List.mem_map_of_mem hq)))
      cases q with | mk t i => cases t <;> exact this
    · intro r hr
      exact (mem_wiresN _ _ _ _).1 (h ⟨.c, r⟩ (by unfold opWires; exact List.mem_append_right _ (List.mem_map_of_mem hr)))
  · rintro ⟨⟨hq, hc⟩, hn⟩
    refine ⟨?_, hn⟩
    intro w hw
    unfold opWires at hw
    rcases List.mem_append.1 hw with h | h
    · obtain ⟨q, hq', rfl⟩ := List.mem_map.1 h
      have := hq q hq'
      apply (mem_wiresN _ _ _ _).2
      cases q with | mk t i => cases t <;> exact this
    · obtain ⟨r, hr, rfl⟩ := List.mem_map.1 h
      exact (mem_wiresN _ _ _ _).2 (hc r hr)

/-! ## renamed circuits are equivalent -/

/-- two operation lists with the same subsequence on every quantum register have the same length -/
theorem length_eq_of_wires (l1 l2 : List Op) (hne1 : ∀ o ∈ l1, o.qRegs ≠ []) (hne2 : ∀ o ∈ l2, o.qRegs ≠ [])
    (hw : ∀ q, l1.filter (onReg q) = l2.filter (onReg q)) : l1.length = l2.length := by
  induction l1 generalizing l2 with
  | nil =>
    cases l2 with
    | nil => rfl
    | cons b rest =>
      exfalso
      cases hqs : b.qRegs with
      | nil => exact hne2 b (by simp) hqs
      | cons q _ =>
        have h0 := hw q
        have hb : onReg q b = true := by unfold onReg; rw [hqs]; simp
        simp [List.filter_cons, hb] at h0
  | cons a rest ih =>
    obtain ⟨q0, hq0⟩ : ∃ q0, q0 ∈ a.qRegs := by
      cases hqs : a.qRegs with
      | nil => exact absurd hqs (hne1 a (by simp))
      | cons q _ => exact ⟨q, by simp⟩
    have hq0' : onReg q0 a = true := by unfold onReg; simpa using hq0
    have hex : ∃ b ∈ l2, disjointOps b a = false := by
      have h0 := hw q0
      simp only [List.filter_cons, hq0', if_true] at h0
      have hmem : a ∈ l2.filter (onReg q0) := by rw [← h0]; simp
      refine ⟨a, (List.mem_filter.1 hmem).1, ?_⟩
      unfold disjointOps
      apply Bool.eq_false_iff.2
      intro hall
      simp only [List.all_eq_true, Bool.not_eq_true', List.contains_eq_mem, decide_eq_false_iff_not] at hall
      exact hall q0 hq0 hq0
    obtain ⟨pre, b, post, he, hpre, hb⟩ := split_first_touching a l2 hex
    subst he
    obtain ⟨q1, hq1b, hq1a⟩ := disjointOps_false b a hb
    have hq1a' : onReg q1 a = true := by unfold onReg; simpa using hq1a
    have hq1b' : onReg q1 b = true := by unfold onReg; simpa using hq1b
    have hba : b = a := by
      have h1 := hw q1
      rw [List.filter_append, filter_onReg_disjoint pre a q1 hq1a' hpre] at h1
      simp only [List.filter_cons, hq1a', hq1b', if_true, List.nil_append] at h1
      injection h1 with h1 _
      exact h1.symm
    subst hba
    have hw' : ∀ q, rest.filter (onReg q) = (pre ++ post).filter (onReg q) := by
      intro q
      have h1 := hw q
      rw [List.filter_append] at h1
      rw [List.filter_append]
      by_cases hqa : onReg q b = true
      · rw [filter_onReg_disjoint pre b q hqa hpre] at h1 ⊢
        simp only [List.filter_cons, hqa, if_true, List.nil_append] at h1
        simpa using h1
      · simp only [List.filter_cons, hqa] at h1
        simpa using h1
    have := ih (pre ++ post) (fun o ho => hne1 o (by simp [ho]))
      (fun o ho => hne2 o (by rcases List.mem_append.1 ho with h | h <;> simp [h])) hw'
    simp only [List.length_cons, List.length_append] at this ⊢
    omega


theorem ofQ_inj (a b : QReg) (h : Wire.ofQ a = Wire.ofQ b) : a = b := by
  cases a with | mk t i => cases b with | mk t' i' =>
  cases t <;> cases t' <;> simp_all [Wire.ofQ, RT.ofRegT]

theorem ofQ_renQ (π : Wire → Wire) (q : QReg) (ht : (π (Wire.ofQ q)).t = (Wire.ofQ q).t) :
    Wire.ofQ (renQ π q) = π (Wire.ofQ q) := by
  unfold renQ
  cases hπ : π (Wire.ofQ q) with | mk t' i' =>
  rw [hπ] at ht
  simp only at ht
  subst ht
  cases q with | mk t i => cases t <;> rfl

theorem qRegs_renOp (π : Wire → Wire) (o : Op) : (renOp π o).qRegs = o.qRegs.map (renQ π) := by
  cases o <;> rfl

/-- every quantum register that is not a register of the circuit is untouched -/
theorem wire_of_quantum (ne np nc : Nat) (w : Wire) (hw : w ∈ wiresN ne np nc) (ht : w.t ≠ .c) :
    ∃ q : QReg, w = Wire.ofQ q := by
  cases w with | mk t i =>
  cases t with
  | e => exact ⟨⟨.e, i⟩, rfl⟩
  | p => exact ⟨⟨.p, i⟩, rfl⟩
  | c => exact absurd rfl ht

/-- on every quantum register (of the circuit or not) the renamed operation list of `c1` and the list of `c2` agree -/
theorem RenamedBy.wires_q {π : Wire → Wire} {c1 c2 : Circuit} (h : RenamedBy π c1 c2)
    (h1 : ∀ o ∈ c1.ops, OpOK (wiresN c1.ne c1.np c1.nc) o) (h2 : ∀ o ∈ c2.ops, OpOK (wiresN c2.ne c2.np c2.nc) o) :
    ∀ q, (c1.ops.map (renOp π)).filter (onReg q) = c2.ops.filter (onReg q) := by
  have hW2 : wiresN c2.ne c2.np c2.nc = wiresN c1.ne c1.np c1.nc := by rw [h.ne, h.np, h.nc]
  · intro q
    by_cases hq : Wire.ofQ q ∈ wiresN c1.ne c1.np c1.nc
    · obtain ⟨w, hw, hπ⟩ := h.surj _ hq
      have hwt : w.t ≠ .c := by
        have := (h.into w hw).2
        rw [hπ] at this
        rw [← this]
        exact ofQ_t_ne_c q
      obtain ⟨q0, rfl⟩ := wire_of_quantum _ _ _ w hw hwt
      have hq0 : q = renQ π q0 := renQ_spec π q0 q (h.into _ hw).2 hπ
      have e2 : c2.ops.filter (onReg q) = (c1.ops.filter (touches (Wire.ofQ q0))).map (renOp π) := by
        rw [← h.wires _ hw, hπ]
        apply List.filter_congr
        intro o _
        rw [touches_ofQ]; rfl
      rw [e2, List.filter_map]
      congr 1
      apply List.filter_congr
      intro o ho
      simp only [Function.comp, onReg, qRegs_renOp, touches_ofQ]
      rw [hq0]
      apply Bool.eq_iff_iff.2
      simp only [List.contains_eq_mem, List.mem_map, decide_eq_true_eq]
      constructor
      · rintro ⟨a, ha, hab⟩
        have haW : Wire.ofQ a ∈ wiresN c1.ne c1.np c1.nc :=
          (h1 o ho).1 _ (by unfold opWires; exact List.mem_append_left _ (List.mem_map_of_mem ha))
        have e1 := ofQ_renQ π a (h.into _ haW).2
        have e0 := ofQ_renQ π q0 (h.into _ hw).2
        rw [hab] at e1
        have := h.inj _ haW _ hw (e1.symm.trans e0)
        rw [← ofQ_inj _ _ this]
        exact ha
      · intro hm
        exact ⟨q0, hm, rfl⟩
    · -- a register outside the circuits: no operation of either circuit touches it
      have e1 : (c1.ops.map (renOp π)).filter (onReg q) = [] := by
        rw [List.filter_eq_nil_iff]
        intro o ho hc
        obtain ⟨o', ho', rfl⟩ := List.mem_map.1 ho
        simp only [onReg, qRegs_renOp, List.contains_eq_mem, List.mem_map, decide_eq_true_eq] at hc
        obtain ⟨a, ha, rfl⟩ := hc
        have haW : Wire.ofQ a ∈ wiresN c1.ne c1.np c1.nc :=
          (h1 o' ho').1 _ (by unfold opWires; exact List.mem_append_left _ (List.mem_map_of_mem ha))
        apply hq
        rw [ofQ_renQ π a (h.into _ haW).2]
        exact (h.into _ haW).1
      have e2 : c2.ops.filter (onReg q) = [] := by
        rw [List.filter_eq_nil_iff]
        intro o ho hc
        simp only [onReg, List.contains_eq_mem, decide_eq_true_eq] at hc
        apply hq
        rw [← hW2]
        exact (h2 o ho).1 _ (by unfold opWires; exact List.mem_append_left _ (List.mem_map_of_mem hc))
      rw [e1, e2]

/-- **a circuit and its renamed copy**: if `c2` is `c1` with registers renamed by `π` register by register, then the
    renamed operation list of `c1` and the operation list of `c2` differ only by exchanges of neighbouring operations on
    disjoint registers -/
theorem RenamedBy.swapEquiv {π : Wire → Wire} {c1 c2 : Circuit} (h : RenamedBy π c1 c2)
    (h1 : ∀ o ∈ c1.ops, OpOK (wiresN c1.ne c1.np c1.nc) o) (h2 : ∀ o ∈ c2.ops, OpOK (wiresN c2.ne c2.np c2.nc) o) :
    SwapEquiv (c1.ops.map (renOp π)) c2.ops := by
  have hne1 : ∀ o ∈ c1.ops.map (renOp π), o.qRegs ≠ [] := by
    intro o ho
    obtain ⟨o', _, rfl⟩ := List.mem_map.1 ho
    exact qRegs_ne_nil _
  have hw := h.wires_q h1 h2
  exact swapEquiv_of_wires _ _ hne1 hw (length_eq_of_wires _ _ hne1 (fun o _ => qRegs_ne_nil o) hw)

/-- exchanging neighbouring operations on disjoint registers does not change the result, in every semantics in which
    operations on disjoint quantum registers commute -/
theorem SwapEquiv.same_state {σ : Type} (app : Op → σ → σ)
    (hcomm : ∀ a b, disjointOps a b = true → ∀ s, app b (app a s) = app a (app b s))
    {l1 l2 : List Op} (h : SwapEquiv l1 l2) (s : σ) :
    l1.foldl (fun s o => app o s) s = l2.foldl (fun s o => app o s) s := by
  induction h generalizing s with
  | refl l => rfl
  | swap pre a b post hd =>
    simp only [List.foldl_append, List.foldl_cons]
    rw [hcomm a b hd]
  | trans _ _ ih1 ih2 => exact (ih1 s).trans (ih2 s)

end Graphiq.Compare
