/-
  Proofs/Noise.lean — lemmas about the noisy-compilation model (C06).

  1. the placement decision tree: on supported operations with additive noise the trace is
     `[noise that asks for "before"] ++ [gate] ++ [noise that asks for "after"]`;
  2. weight bookkeeping of stabilizer mixtures: every gate, measurement, Pauli error, depolarizing step (with its filter and
     `reduce()` as coded) keeps the total weight, a photon loss multiplies it by `1 − rate`; hence for every circuit the final
     weight is `∏ (1 − loss_j)` over the loss events of the trace;
  3. validity: every branch of the mixture stays a valid tableau (uses the C07 theorems of Proofs/Tableau.lean);
  4. zero-strength noise on a single-branch mixture is the identity.
-/
import Mathlib.Tactic.Ring
import Mathlib.Tactic.Linarith
import Mathlib.Algebra.Order.Field.Rat
import GraphiqModel.Model.Noise
import GraphiqModel.Proofs.Tableau
import GraphiqModel.Proofs.DMSem
namespace Graphiq.Noise
open DM


/-- noise applications before / after the gate that the property asks for: one per attached non-`NoNoise` noise, on the
    addressed qubit, on the side its `After gate` flag names -/
def wanted (np : Nat) (op : COp) (k : Nat) (after : Bool) : List Act :=
  (if !op.n0.isNone && op.n0.after == after then [Act.noise k 0 (qIndex np op.r1 op.t1) op.n0] else []) ++
  (if op.kind.isCtrlPair && !op.n1.isNone && op.n1.after == after then [Act.noise k 1 (qIndex np op.r2 op.t2) op.n1] else [])

/-- operations on which additive noise is supported by both compilers -/
def Supported (op : COp) : Prop :=
  (op.kind.isOneQubit = true ∨ op.kind.isCtrlPair = true) ∧ op.n0.isAdditive = true ∧
  (op.kind.isCtrlPair = true → op.n1.isAdditive = true)

theorem kind_excl (k : Kind) : ¬ (k.isOneQubit = true ∧ k.isCtrlPair = true) := by cases k <;> simp [Kind.isOneQubit, Kind.isCtrlPair]
theorem kind_excl2 (k : Kind) : ¬ (k.isOneQubit = true ∧ k.isClassicalCtrl = true) := by cases k <;> simp [Kind.isOneQubit, Kind.isClassicalCtrl]
theorem kind_excl3 (k : Kind) : ¬ (k.isCtrlPair = true ∧ k.isClassicalCtrl = true) := by cases k <;> simp [Kind.isCtrlPair, Kind.isClassicalCtrl]

@[simp] theorem isNone_none : NoiseM.none.isNone = true := rfl
theorem isNone_after (n : NoiseM) (h : n.isNone = true) : n.after = true := by cases n <;> simp_all [NoiseM.isNone, NoiseM.after]
theorem isNone_additive (n : NoiseM) (h : n.isNone = true) : n.isAdditive = true := by cases n <;> simp_all [NoiseM.isNone, NoiseM.isAdditive]

/-- **C06 (a), noise on.** -/
theorem placeOp_supported (be : Backend) (np : Nat) (op : COp) (k : Nat) (hs : Supported op) :
    placeOp true be np op k = .ok (wanted np op k false ++ [Act.gate k] ++ wanted np op k true) := by
  obtain ⟨hk, h0, h1⟩ := hs
  rcases hk with hk | hk
  · -- one-qubit operation
    have hc : op.kind.isCtrlPair = false := by
      cases h : op.kind.isCtrlPair with
      | false => rfl
      | true => exact absurd ⟨hk, h⟩ (kind_excl _)
    have hcc : op.kind.isClassicalCtrl = false := by
      cases h : op.kind.isClassicalCtrl with
      | false => rfl
      | true => exact absurd ⟨hk, h⟩ (kind_excl2 _)
    cases hn : op.n0.isNone with
    | true =>
      have := isNone_after _ hn
      simp [placeOp, wanted, hc, hcc, hn]
    | false =>
      cases ha : op.n0.after <;> simp [placeOp, wanted, addl, hc, hcc, hn, h0, hk, ha, Except.map]
  · -- controlled pair
    have h1' := h1 hk
    have ho : op.kind.isOneQubit = false := by
      cases h : op.kind.isOneQubit with
      | false => rfl
      | true => exact absurd ⟨h, hk⟩ (kind_excl _)
    cases hn0 : op.n0.isNone <;> cases hn1 : op.n1.isNone <;> cases ha0 : op.n0.after <;> cases ha1 : op.n1.after <;>
      first
      | (exfalso; have := isNone_after _ hn0; simp_all; done)
      | (exfalso; have := isNone_after _ hn1; simp_all; done)
      | simp [placeOp, wanted, addl, hk, ho, hn0, hn1, h0, h1', ha0, ha1, Except.map]




/-- noise simulation off: the gate, nothing else — whatever noise is attached -/
theorem placeOp_off (be : Backend) (np : Nat) (op : COp) (k : Nat) : placeOp false be np op k = .ok [Act.gate k] := by
  unfold placeOp
  cases (op.kind.isCtrlPair || op.kind.isClassicalCtrl) <;> simp

/-- every attached noise is `NoNoise`: the gate, nothing else -/
theorem placeOp_none (ns : Bool) (be : Backend) (np : Nat) (op : COp) (k : Nat)
    (h0 : op.n0.isNone = true) (h1 : op.n1.isNone = true) : placeOp ns be np op k = .ok [Act.gate k] := by
  unfold placeOp
  cases (op.kind.isCtrlPair || op.kind.isClassicalCtrl) <;> simp [h0, h1]

theorem traceGo_off (be : Backend) (np : Nat) : ∀ (ops : List COp) (k : Nat),
    traceGo false be np ops k = .ok ((List.range ops.length).map fun i => Act.gate (k + i))
  | [], _ => by simp [traceGo]
  | op :: rest, k => by
    simp only [traceGo, placeOp_off, traceGo_off be np rest (k + 1)]
    simp only [List.length_cons, List.range_succ_eq_map, List.map_cons, List.map_map]
    show Except.ok (Act.gate k :: List.map (fun i => Act.gate (k + 1 + i)) (List.range rest.length)) = _
    congr 2
    apply List.map_congr_left
    intro i _
    simp only [Function.comp]; congr 1; omega

theorem compileTrace_off (be : Backend) (np : Nat) (ops : List COp) :
    compileTrace false be np ops = .ok ((List.range ops.length).map Act.gate) := by
  unfold compileTrace
  rw [traceGo_off]
  congr 2
  funext i; simp

theorem foldl_add_init (l : List Rat) (a : Rat) : l.foldl (· + ·) a = a + l.foldl (· + ·) 0 := by
  induction l generalizing a with
  | nil => simp
  | cons x xs ih =>
    simp only [List.foldl_cons]
    rw [ih (a + x), ih (0 + x)]; ring

theorem qsumL_nil : qsumL [] = 0 := rfl
theorem qsumL_cons (x : Rat) (l : List Rat) : qsumL (x :: l) = x + qsumL l := by
  unfold qsumL; simp only [List.foldl_cons]; rw [foldl_add_init]; ring
theorem qsumL_append (a b : List Rat) : qsumL (a ++ b) = qsumL a + qsumL b := by
  induction a with
  | nil => simp [qsumL_nil]
  | cons x xs ih => simp only [List.cons_append, qsumL_cons, ih]; ring

namespace Mix

theorem total_nil : total [] = 0 := rfl
theorem total_cons (p : Rat) (t : Tab) (m : Mixture) : total ((p, t) :: m) = p + total m := by
  unfold total; simp [qsumL_cons]
theorem total_append (a b : Mixture) : total (a ++ b) = total a + total b := by
  unfold total; simp [qsumL_append]

/-- `PhotonLoss` multiplies the total weight by the survival probability -/
theorem total_eraseIdx : ∀ (l : Mixture) (i : Nat) (p : Rat) (t : Tab), l[i]? = some (p, t) →
    total l = p + total (l.eraseIdx i)
  | [], _, _, _, h => by simp at h
  | (p0, t0) :: rest, 0, p, t, h => by
    simp at h; obtain ⟨rfl, rfl⟩ := h
    simp [total_cons]
  | (p0, t0) :: rest, i+1, p, t, h => by
    simp at h
    have ih := total_eraseIdx rest i p t h
    simp only [List.eraseIdx_cons_succ, total_cons, ih]; ring

/-- `PhotonLoss` multiplies the total weight by the survival probability -/
theorem total_photonLoss (r : Rat) (m : Mixture) : total (photonLoss r m) = (1 - r) * total m := by
  induction m with
  | nil => simp [photonLoss, total_nil]
  | cons h t ih =>
    obtain ⟨p, tb⟩ := h
    have : photonLoss r ((p, tb) :: t) = ((1 - r) * p, tb) :: photonLoss r t := by simp [photonLoss]
    rw [this, total_cons, total_cons, ih]; ring

theorem total_mapTab (f : Tab → Tab) (m : Mixture) : total (mapTab f m) = total m := by
  induction m with
  | nil => simp [mapTab, total_nil]
  | cons h t ih =>
    obtain ⟨p, tb⟩ := h
    have : mapTab f ((p, tb) :: t) = (p, (f tb).norm) :: mapTab f t := by simp [mapTab]
    rw [this, total_cons, total_cons, ih]

/-- (before the F2 repair) the per-branch measurement keeps every weight -/
theorem total_measureOld (q : Nat) (det : Bool) (m : Mixture) : total (measureOld q det m).1 = total m := by
  induction m with
  | nil => simp [measureOld, total_nil]
  | cons h t ih =>
    obtain ⟨p, tb⟩ := h
    simp only [measureOld, List.map_cons, List.map_map] at ih ⊢
    rw [total_cons, total_cons]
    congr 1

theorem measureOld_length (q : Nat) (det : Bool) (m : Mixture) :
    (measureOld q det m).1.length = m.length ∧ (measureOld q det m).2.length = m.length := by
  simp [measureOld]

theorem measureJoint_cons (q : Nat) (o : Bool) (x : Rat × Tab) (m : Mixture) :
    measureJoint q o (x :: m) = (match jointBranch q o x with | some y => y :: measureJoint q o m | none => measureJoint q o m) := by
  unfold measureJoint
  rw [List.filterMap_cons]
  cases jointBranch q o x <;> rfl

/-- the two candidate lists of the joint measurement share out the weight: `weight[0] + weight[1] = Σ p_i` -/
theorem total_measureJoint_pair (q : Nat) : ∀ (m : Mixture),
    total (measureJoint q false m) + total (measureJoint q true m) = total m
  | [] => by simp [measureJoint, total_nil]
  | (w, t) :: rest => by
    have ih := total_measureJoint_pair q rest
    rw [measureJoint_cons, measureJoint_cons, total_cons]
    unfold jointBranch
    cases hp : t.pivot q with
    | some p =>
      simp only [total_cons]
      linarith
    | none =>
      have e : ∀ o, (t.zMeasure q o).2.1 = (t.measScratch q).r := by
        intro o; unfold Tab.zMeasure; rw [hp]
      simp only [e]
      cases (t.measScratch q).r <;> simp [total_cons] <;> linarith

theorem total_map_scale (c d : Rat) : ∀ (m : Mixture), total (m.map fun x => (x.1 * c / d, x.2)) = total m * c / d
  | [] => by simp [total_nil]
  | (w, t) :: rest => by
    simp only [List.map_cons, total_cons]
    rw [total_map_scale c d rest]; ring

theorem total_map_zero (f : Tab → Tab) : ∀ (m : Mixture), total (m.map fun x => (0 * x.1, f x.2)) = 0
  | [] => by simp [total_nil]
  | (w, t) :: rest => by
    simp only [List.map_cons, total_cons]
    rw [total_map_zero f rest]; ring

/-- **the repaired (joint) measurement keeps the total weight** — or, when the selected outcome carries no weight, sets every
    weight to `0.0 · p_i` -/
theorem total_measure (q : Nat) (det : Bool) (m : Mixture) :
    total (measure q det m).1 = total m ∨ total (measure q det m).1 = 0 := by
  have hp := total_measureJoint_pair q m
  unfold measure
  simp only
  cases (if det = true then !isclose0 (total (measureJoint q true m)) else isclose0 (total (measureJoint q false m)))
  · simp only [Bool.false_eq_true, if_false]
    by_cases h : 0 < total (measureJoint q false m)
    · rw [if_pos h, total_map_scale, hp]
      exact Or.inl (mul_div_cancel_left₀ _ (ne_of_gt h))
    · rw [if_neg h]
      exact Or.inr (total_map_zero (fun t => (t.zMeasure q false).1.norm) m)
  · simp only [if_true]
    by_cases h : 0 < total (measureJoint q true m)
    · rw [if_pos h, total_map_scale, hp]
      exact Or.inl (mul_div_cancel_left₀ _ (ne_of_gt h))
    · rw [if_neg h]
      exact Or.inr (total_map_zero (fun t => (t.zMeasure q true).1.norm) m)

theorem measure_lengths (q : Nat) (det : Bool) (m : Mixture) :
    (measure q det m).2.length = (measure q det m).1.length := by
  simp [measure]

theorem total_conditioned (f : Tab → Tab) : ∀ (outs : List Bool) (m : Mixture), outs.length = m.length →
    total (conditioned f outs m) = total m
  | [], [], _ => by simp [conditioned, total_nil]
  | [], _ :: _, h => by simp at h
  | _ :: _, [], h => by simp at h
  | o :: os, (p, t) :: m, h => by
    have ih := total_conditioned f os m (by simpa using h)
    have : conditioned f (o :: os) ((p, t) :: m) =
        (if o then (p, (f t).norm) else (p, t)) :: conditioned f os m := by simp [conditioned]
    rw [this]
    cases o <;> simp [total_cons, ih]

theorem reduceScan_total (t0 : Tab) : ∀ (fuel i : Nat) (p0 : Rat) (l : Mixture),
    (reduceScan t0 fuel i p0 l).1 + total (reduceScan t0 fuel i p0 l).2 = p0 + total l ∧
    (reduceScan t0 fuel i p0 l).2.length ≤ l.length
  | 0, _, _, _ => by simp [reduceScan]
  | fuel+1, i, p0, l => by
    unfold reduceScan
    cases hl : l[i]? with
    | none => simp
    | some pt =>
      obtain ⟨pi, ti⟩ := pt
      simp only
      split
      · have ih := reduceScan_total t0 fuel (i + 1) (p0 + pi) (l.eraseIdx i)
        have hi : i < l.length := by
          rcases Nat.lt_or_ge i l.length with h | h
          · exact h
          · rw [List.getElem?_eq_none_iff.2 h] at hl; cases hl
        have hsplit : total l = pi + total (l.eraseIdx i) := total_eraseIdx l i pi ti hl
        constructor
        · rw [ih.1, hsplit]; ring
        · have : (l.eraseIdx i).length = l.length - 1 := List.length_eraseIdx_of_lt hi
          omega
      · exact reduceScan_total t0 fuel (i + 1) p0 l

/-- `MixedStabilizer.reduce()` — popping while enumerating included — never changes the total weight -/
theorem total_reduce : ∀ (fuel : Nat) (m : Mixture), m.length ≤ fuel → total (reduce fuel m) = total m
  | 0, m, h => by
    have : m = [] := List.eq_nil_of_length_eq_zero (by omega)
    subst this; simp [reduce, total_nil]
  | fuel+1, [], _ => by simp [reduce, total_nil]
  | fuel+1, (p0, t0) :: rest, h => by
    have hs := reduceScan_total t0 rest.length 0 p0 rest
    simp only [reduce]
    rw [total_cons, total_cons, total_reduce fuel _ (by simp at h; omega)]
    exact hs.1

/-- what `DepolarizingNoise.apply` builds from one branch: the Kraus terms whose factor is positive -/
def depolBranch (p : Rat) (q : Nat) (pi : Rat) (ti : Tab) : Mixture :=
  (List.range 4).filterMap fun k =>
    let f := (depolFactors p).getD k 0
    if 0 < f then some (pi * f, (pauliGate k ti q).norm) else none

/-- the kept terms of one branch carry exactly the branch's weight (any weight, `0 ≤ p ≤ 1`) -/
theorem total_depolBranch (p : Rat) (q : Nat) (pi : Rat) (ti : Tab) (hp0 : 0 ≤ p) (hp1 : p ≤ 1) :
    total (depolBranch p q pi ti) = pi := by
  have e : List.range 4 = [0, 1, 2, 3] := by decide
  unfold depolBranch depolFactors
  rw [e]
  have h1 : 0 ≤ 1 - p := by linarith
  have h2 : 0 ≤ p / 3 := div_nonneg hp0 (by norm_num)
  simp only [List.filterMap_cons, List.filterMap_nil, List.getD_cons_zero, List.getD_cons_succ]
  rcases lt_or_eq_of_le h1 with a | a <;> rcases lt_or_eq_of_le h2 with b | b
  · simp only [a, b, if_true, total_cons, total_nil]; ring
  · have hb : ¬ (0 < p / 3) := by rw [← b]; exact lt_irrefl 0
    have : p = 0 := by
      have := b.symm; rcases div_eq_zero_iff.1 this with h | h
      · exact h
      · norm_num at h
    simp only [a, hb, if_true, if_false, total_cons, total_nil]; rw [this]; ring
  · have ha : ¬ (0 < 1 - p) := by rw [← a]; exact lt_irrefl 0
    have : p = 1 := by linarith
    simp only [b, ha, if_true, if_false, total_cons, total_nil]; rw [this]; ring
  · exfalso
    have : p = 0 := by
      have := b.symm; rcases div_eq_zero_iff.1 this with h | h
      · exact h
      · norm_num at h
    rw [this] at a; norm_num at a

theorem depolBranch_ne_nil (p : Rat) (q : Nat) (pi : Rat) (ti : Tab) (hp0 : 0 ≤ p) (hp1 : p ≤ 1) :
    depolBranch p q pi ti ≠ [] := by
  have e : List.range 4 = [0, 1, 2, 3] := by decide
  unfold depolBranch depolFactors
  rw [e]
  simp only [List.filterMap_cons, List.filterMap_nil, List.getD_cons_zero, List.getD_cons_succ]
  by_cases h : 0 < 1 - p
  · simp [h]
  · have : 0 < p / 3 := by
      have : p = 1 := by linarith
      rw [this]; norm_num
    simp [h, this]

theorem total_flatMap_depol (p : Rat) (q : Nat) (hp0 : 0 ≤ p) (hp1 : p ≤ 1) :
    ∀ (m : Mixture), total (m.flatMap fun x => depolBranch p q x.1 x.2) = total m
  | [] => by simp [total_nil]
  | (pi, ti) :: rest => by
    simp only [List.flatMap_cons, total_append, total_cons]
    rw [total_depolBranch p q pi ti hp0 hp1, total_flatMap_depol p q hp0 hp1 rest]

theorem depolarize_unfold (p : Rat) (q : Nat) (m : Mixture) :
    depolarize p q m =
      (if total (m.flatMap fun x => depolBranch p q x.1 x.2) ≠ total m then .error .value
       else if (m.flatMap fun x => depolBranch p q x.1 x.2).isEmpty then .error .assertion
       else .ok (reduce (m.flatMap fun x => depolBranch p q x.1 x.2).length (m.flatMap fun x => depolBranch p q x.1 x.2))) := rfl

/-- `DepolarizingNoise.apply` keeps the total weight whenever it returns (its own `np.isclose` guard), … -/
theorem total_depolarize (p : Rat) (q : Nat) (m m' : Mixture) (h : depolarize p q m = .ok m') : total m' = total m := by
  rw [depolarize_unfold] at h
  split at h
  · cases h
  · rename_i hne
    split at h
    · cases h
    · injection h with h; subst h
      rw [total_reduce _ _ (Nat.le_refl _)]
      exact not_not.mp hne

/-- … and for a probability `0 ≤ p ≤ 1` it always returns on a non-empty mixture, whatever the weights — in particular on a
    mixture of total weight 0 (after `PhotonLoss(1)`: D37 repaired) -/
theorem depolarize_ok (p : Rat) (q : Nat) (m : Mixture) (hp0 : 0 ≤ p) (hp1 : p ≤ 1) (hm : m ≠ []) :
    ∃ m', depolarize p q m = .ok m' := by
  rw [depolarize_unfold]
  rw [if_neg (by rw [total_flatMap_depol p q hp0 hp1 m]; exact fun h => h rfl)]
  have hne : (m.flatMap fun x => depolBranch p q x.1 x.2).isEmpty = false := by
    cases m with
    | nil => exact absurd rfl hm
    | cons x rest =>
      simp only [List.flatMap_cons, List.isEmpty_eq_false_iff, ne_eq, List.append_eq_nil_iff, not_and]
      intro h; exact absurd h (depolBranch_ne_nil p q x.1 x.2 hp0 hp1)
  rw [hne]; exact ⟨_, rfl⟩

end Mix

/-- survival factor contributed by one action: `1 − rate` for a photon-loss application, `1` for everything else -/
def lossOf : Act → Rat
  | .noise _ _ _ (.loss r _) => 1 - r
  | _ => 1

/-- `∏ (1 − loss_j)` over the loss events of a trace -/
def lossFactor : List Act → Rat
  | [] => 1
  | a :: as => lossOf a * lossFactor as

theorem lossFactor_append (a b : List Act) : lossFactor (a ++ b) = lossFactor a * lossFactor b := by
  induction a with
  | nil => simp [lossFactor]
  | cons x xs ih => simp only [List.cons_append, lossFactor, ih]; ring

theorem applyNoise_total (nm : NoiseM) (q : Nat) (m m' : Mixture) (h : Mix.applyNoise nm q m = .ok m') :
    Mix.total m' = (match nm with | .loss r _ => 1 - r | _ => 1) * Mix.total m := by
  cases nm with
  | none => simp [Mix.applyNoise] at h; subst h; simp
  | depol p a => simp only [Mix.applyNoise] at h; rw [Mix.total_depolarize p q m m' h]; simp
  | pauli k a =>
    simp only [Mix.applyNoise] at h
    cases k <;> simp [Mix.pauliError] at h <;> subst h <;> simp [Mix.total_mapTab]
  | loss r a => simp [Mix.applyNoise] at h; subst h; exact Mix.total_photonLoss r m
  | replace => simp [Mix.applyNoise] at h
  | other => simp [Mix.applyNoise] at h

theorem stabMap1_total (n q : Nat) (f : Tab → Tab) (s s' : StabSt) (h : stabMap1 n q f s = .ok s') :
    Mix.total s'.mix = Mix.total s.mix := by
  unfold stabMap1 at h; split at h
  · injection h with h; subst h; simp [Mix.total_mapTab]
  · cases h

theorem stabMap2_total (n q1 q2 : Nat) (f : Tab → Tab) (s s' : StabSt) (h : stabMap2 n q1 q2 f s = .ok s') :
    Mix.total s'.mix = Mix.total s.mix := by
  unfold stabMap2 at h; split at h
  · injection h with h; subst h; simp [Mix.total_mapTab]
  · cases h

theorem stabClassical_total (n q1 q2 c : Nat) (det : Bool) (f : Tab → Tab) (reset : Bool) (s s' : StabSt)
    (h : stabClassical n q1 q2 c det f reset s = .ok s') :
    Mix.total s'.mix = Mix.total s.mix ∨ Mix.total s'.mix = 0 := by
  unfold stabClassical at h; split at h
  · injection h with h; subst h
    have hl := Mix.measure_lengths q1 det s.mix
    have hc := Mix.total_conditioned f (Mix.measure q1 det s.mix).2 (Mix.measure q1 det s.mix).1 hl
    have ht := Mix.total_measure q1 det s.mix
    cases reset <;> simp only [Bool.false_eq_true, if_false, if_true, Mix.total_mapTab, hc] <;> exact ht
  · cases h

theorem stabMeasZ_total (n q1 c : Nat) (det : Bool) (s s' : StabSt) (h : stabMeasZ n q1 c det s = .ok s') :
    Mix.total s'.mix = Mix.total s.mix ∨ Mix.total s'.mix = 0 := by
  unfold stabMeasZ at h; split at h
  · injection h with h; subst h; exact Mix.total_measure q1 det s.mix
  · cases h

theorem stabGate_total (np n : Nat) (det : Bool) (op : COp) (s s' : StabSt) (h : stabGate np n det op s = .ok s') :
    Mix.total s'.mix = Mix.total s.mix ∨ Mix.total s'.mix = 0 := by
  unfold stabGate at h
  simp only at h
  cases hk : op.kind <;> simp only [hk] at h
  all_goals first
    | (injection h with h; subst h; exact Or.inl rfl)
    | exact Or.inl (stabMap1_total _ _ _ _ _ h)
    | exact Or.inl (stabMap2_total _ _ _ _ _ _ h)
    | exact stabClassical_total _ _ _ _ _ _ _ _ _ h
    | exact stabMeasZ_total _ _ _ _ _ _ h
    | cases h

/-- a measurement-free operation keeps the weight exactly -/
theorem stabGate_total_mfree (np n : Nat) (det : Bool) (op : COp)
    (hf : op.kind.isOneQubit = true ∨ op.kind.isCtrlPair = true) (s s' : StabSt) (h : stabGate np n det op s = .ok s') :
    Mix.total s'.mix = Mix.total s.mix := by
  unfold stabGate at h
  simp only at h
  cases hk : op.kind <;> simp only [hk] at h
  all_goals first
    | (injection h with h; subst h; rfl)
    | exact stabMap1_total _ _ _ _ _ h
    | exact stabMap2_total _ _ _ _ _ _ h
    | cases h
    | (rcases hf with hf | hf <;> simp [hk, Kind.isOneQubit, Kind.isCtrlPair] at hf)

theorem stabAct_total (np n : Nat) (det : Bool) (arr : Array COp) (s s' : StabSt) (a : Act)
    (h : stabAct np n det arr s a = .ok s') :
    Mix.total s'.mix = lossOf a * Mix.total s.mix ∨ Mix.total s'.mix = 0 := by
  cases a with
  | gate k =>
    simp only [stabAct] at h
    rcases stabGate_total _ _ _ _ _ _ h with e | e
    · left; rw [e]; simp [lossOf]
    · exact Or.inr e
  | noise k side q nm =>
    simp only [stabAct] at h
    cases hn : Mix.applyNoise nm q s.mix with
    | error e => rw [hn] at h; cases h
    | ok m' =>
      rw [hn] at h; injection h with h; subst h
      left
      rw [applyNoise_total nm q s.mix m' hn]
      cases nm <;> simp [lossOf]
  | replace k => simp [stabAct] at h

theorem runStabActs_total (np n : Nat) (det : Bool) (arr : Array COp) :
    ∀ (acts : List Act) (s s' : StabSt), runStabActs np n det arr acts s = .ok s' →
      Mix.total s'.mix = lossFactor acts * Mix.total s.mix ∨ Mix.total s'.mix = 0
  | [], s, s', h => by simp [runStabActs] at h; subst h; simp [lossFactor]
  | a :: as, s, s', h => by
    simp only [runStabActs] at h
    cases ha : stabAct np n det arr s a with
    | error e => rw [ha] at h; cases h
    | ok s1 =>
      rw [ha] at h
      rcases runStabActs_total np n det arr as s1 s' h with e | e
      · rcases stabAct_total np n det arr s s1 a ha with e1 | e1
        · left; rw [e, e1]; simp only [lossFactor]; ring
        · right; rw [e, e1]; ring
      · exact Or.inr e

/-- **C06 (b), every circuit.**  Whenever the stabilizer compile loop returns, the placement tree produced a trace and the
    total weight of the mixture is the initial weight times `∏ (1 − loss_j)` over the loss events of that trace — or `0`, when a
    (repaired, joint) measurement selected an outcome that carries no weight and set every weight to `0.0 · p_i` (only possible
    at a total weight within `np.isclose`'s tolerance of 0). -/
theorem stabGo_total (noiseSim : Bool) (np n : Nat) (det : Bool) (arr : Array COp) :
    ∀ (ops : List COp) (k : Nat) (s s' : StabSt), stabGo noiseSim np n det arr ops k s = .ok s' →
      ∃ tr, traceGo noiseSim .stab np ops k = .ok tr ∧
        (Mix.total s'.mix = lossFactor tr * Mix.total s.mix ∨ Mix.total s'.mix = 0)
  | [], k, s, s', h => by
    simp [stabGo] at h; subst h; exact ⟨[], rfl, by simp [lossFactor]⟩
  | op :: rest, k, s, s', h => by
    simp only [stabGo] at h
    split at h
    · cases h
    · cases hp : placeOp noiseSim .stab np op k with
      | error e => rw [hp] at h; cases h
      | ok acts =>
        rw [hp] at h; simp only at h
        cases hr : runStabActs np n det arr acts s with
        | error e => rw [hr] at h; cases h
        | ok s1 =>
          rw [hr] at h; simp only at h
          obtain ⟨tr, htr, ht⟩ := stabGo_total noiseSim np n det arr rest (k + 1) s1 s' h
          refine ⟨acts ++ tr, ?_, ?_⟩
          · simp only [traceGo, hp, htr]
          · rcases ht with ht | ht
            · rcases runStabActs_total np n det arr acts s s1 hr with e | e
              · left; rw [ht, e, lossFactor_append]; ring
              · right; rw [ht, e]; ring
            · exact Or.inr ht

end Graphiq.Noise

/-! ## 3. every branch stays a valid tableau -/

namespace Graphiq
open PRow

theorem lookup1_ofFn (n : Nat) (f : Nat → Bool) (j : Nat) (hj : j < n) :
    lookup1 (Array.ofFn (n := n) fun k => f k.val) j = f j := by
  unfold lookup1
  simp [Array.getD, hj]

theorem PRow.norm_eqOn (n : Nat) (p : PRow) : EqOn n (p.norm n) p := by
  refine ⟨fun j hj => ?_, rfl, rfl⟩
  simp only [PRow.norm]
  exact ⟨lookup1_ofFn n p.x j hj, lookup1_ofFn n p.z j hj⟩

namespace Tab

theorem norm_n (t : Tab) : t.norm.n = t.n := rfl

theorem norm_row (t : Tab) (i : Nat) (hi : i < 2 * t.n) : t.norm.row i = (t.row i).norm t.n := by
  simp only [Tab.norm, lookupRow]
  simp [Array.getD, hi]

theorem norm_valid (t : Tab) (hv : t.Valid) : t.norm.Valid := by
  intro i k hi hk
  rw [norm_n] at hi hk ⊢
  rw [norm_row t i hi, norm_row t k hk]
  rw [sp_eqOn t.n _ (t.row i) _ (t.row k) (PRow.norm_eqOn _ _) (PRow.norm_eqOn _ _)]
  exact hv i k hi hk

end Tab

namespace Noise
open Tab

/-- every branch is a valid `n`-qubit tableau -/
def MixOK (n : Nat) (m : Mixture) : Prop := ∀ x ∈ m, x.2.n = n ∧ x.2.Valid

/-- a tableau transformer that keeps size and validity -/
def KeepsOK (n : Nat) (f : Tab → Tab) : Prop := ∀ t : Tab, t.n = n → t.Valid → (f t).n = n ∧ (f t).Valid

theorem mapTab_ok (n : Nat) (f : Tab → Tab) (hf : KeepsOK n f) (m : Mixture) (hm : MixOK n m) : MixOK n (Mix.mapTab f m) := by
  intro x hx
  simp only [Mix.mapTab, List.mem_map] at hx
  obtain ⟨⟨p, t⟩, hy, rfl⟩ := hx
  obtain ⟨h1, h2⟩ := hm (p, t) hy
  obtain ⟨g1, g2⟩ := hf t h1 h2
  exact ⟨by rw [Tab.norm_n]; exact g1, Tab.norm_valid _ g2⟩

theorem keeps_h (n q : Nat) (hq : q < n) : KeepsOK n (·.hGate q) := fun t h v => ⟨h, hGate_valid t q (h ▸ hq) v⟩
theorem keeps_s (n q : Nat) (hq : q < n) : KeepsOK n (·.sGate q) := fun t h v => ⟨h, sGate_valid t q (h ▸ hq) v⟩
theorem keeps_sdg (n q : Nat) (hq : q < n) : KeepsOK n (·.sdgGate q) := fun t h v => ⟨h, sdgGate_valid t q (h ▸ hq) v⟩
theorem keeps_x (n q : Nat) (hq : q < n) : KeepsOK n (·.xGate q) := fun t h v => ⟨h, xGate_valid t q (h ▸ hq) v⟩
theorem keeps_y (n q : Nat) (hq : q < n) : KeepsOK n (·.yGate q) := fun t h v => ⟨h, yGate_valid t q (h ▸ hq) v⟩
theorem keeps_z (n q : Nat) (hq : q < n) : KeepsOK n (·.zGate q) := fun t h v => ⟨h, zGate_valid t q (h ▸ hq) v⟩
theorem keeps_cnot (n c tg : Nat) (hc : c < n) (ht : tg < n) (hne : c ≠ tg) : KeepsOK n (·.cnotGate c tg) :=
  fun t h v => ⟨h, cnotGate_valid t c tg (h ▸ hc) (h ▸ ht) hne v⟩
theorem keeps_cz (n c tg : Nat) (hc : c < n) (ht : tg < n) (hne : c ≠ tg) : KeepsOK n (·.czGate c tg) :=
  fun t h v => ⟨h, czGate_valid t c tg (h ▸ hc) (h ▸ ht) hne v⟩
theorem keeps_resetZ (n q : Nat) (hq : q < n) (i o : Bool) : KeepsOK n (fun t => t.resetZ q i o) :=
  fun t h v => ⟨by rw [resetZ_n]; exact h, resetZ_valid t q i o (h ▸ hq) v⟩
theorem keeps_id (n : Nat) : KeepsOK n (fun t => t) := fun _ h v => ⟨h, v⟩

theorem jointBranch_tab (q : Nat) (o : Bool) (y z : Rat × Tab) (h : Mix.jointBranch q o y = some z) :
    z.2 = (y.2.zMeasure q o).1.norm ∧ (z.1 = y.1 / 2 ∨ z.1 = y.1) := by
  unfold Mix.jointBranch at h
  cases hp : y.2.pivot q with
  | some p => simp only [hp] at h; injection h with h; subst h; exact ⟨rfl, Or.inl rfl⟩
  | none =>
    simp only [hp] at h
    split at h
    · injection h with h; subst h; exact ⟨rfl, Or.inr rfl⟩
    · cases h

/-- every branch the repaired measurement returns is a measured branch of the input (with some forced outcome) -/
theorem mem_measure (q : Nat) (det : Bool) (m : Mixture) (x : Rat × Tab) (hx : x ∈ (Mix.measure q det m).1) :
    ∃ y ∈ m, ∃ o, x.2 = (y.2.zMeasure q o).1.norm := by
  unfold Mix.measure at hx
  simp only at hx
  generalize (if det = true then !DM.isclose0 (Mix.total (Mix.measureJoint q true m))
    else DM.isclose0 (Mix.total (Mix.measureJoint q false m))) = oc at hx
  by_cases h : 0 < (if oc = true then Mix.total (Mix.measureJoint q true m) else Mix.total (Mix.measureJoint q false m))
  · rw [if_pos h] at hx
    simp only [List.mem_map] at hx
    obtain ⟨z, hz, rfl⟩ := hx
    unfold Mix.measureJoint at hz
    rw [List.mem_filterMap] at hz
    obtain ⟨y, hy, hj⟩ := hz
    exact ⟨y, hy, oc, (jointBranch_tab q oc y z hj).1⟩
  · rw [if_neg h] at hx
    simp only [List.mem_map] at hx
    obtain ⟨y, hy, rfl⟩ := hx
    exact ⟨y, hy, oc, rfl⟩

theorem measure_ok (n q : Nat) (hq : q < n) (det : Bool) (m : Mixture) (hm : MixOK n m) : MixOK n (Mix.measure q det m).1 := by
  intro x hx
  obtain ⟨y, hy, o, e⟩ := mem_measure q det m x hx
  obtain ⟨h1, h2⟩ := hm y hy
  rw [e]
  refine ⟨?_, ?_⟩
  · rw [Tab.norm_n, zMeasure_n]; exact h1
  · exact Tab.norm_valid _ (zMeasure_valid y.2 q o (h1 ▸ hq) h2)

theorem conditioned_ok (n : Nat) (f : Tab → Tab) (hf : KeepsOK n f) (outs : List Bool) (m : Mixture) (hm : MixOK n m) :
    MixOK n (Mix.conditioned f outs m) := by
  intro x hx
  simp only [Mix.conditioned, List.mem_map] at hx
  obtain ⟨⟨⟨p, t⟩, o⟩, hy, rfl⟩ := hx
  have hmem : (p, t) ∈ m := (List.of_mem_zip hy).1
  obtain ⟨h1, h2⟩ := hm (p, t) hmem
  cases o
  · exact ⟨h1, h2⟩
  · obtain ⟨g1, g2⟩ := hf t h1 h2
    exact ⟨by simp only [if_true]; rw [Tab.norm_n]; exact g1, by simp only [if_true]; exact Tab.norm_valid _ g2⟩

theorem photonLoss_ok (n : Nat) (r : Rat) (m : Mixture) (hm : MixOK n m) : MixOK n (Mix.photonLoss r m) := by
  intro x hx
  simp only [Mix.photonLoss, List.mem_map] at hx
  obtain ⟨⟨p, t⟩, hy, rfl⟩ := hx
  exact hm (p, t) hy

theorem reduceScan_sub (t0 : Tab) : ∀ (fuel i : Nat) (p0 : Rat) (l : Mixture) (x : Rat × Tab),
    x ∈ (Mix.reduceScan t0 fuel i p0 l).2 → x ∈ l
  | 0, _, _, _, _, h => by simpa [Mix.reduceScan] using h
  | fuel+1, i, p0, l, x, h => by
    unfold Mix.reduceScan at h
    cases hl : l[i]? with
    | none => rw [hl] at h; simpa using h
    | some pt =>
      obtain ⟨pi, ti⟩ := pt
      rw [hl] at h
      simp only at h
      split at h
      · exact (List.eraseIdx_sublist l i).subset (reduceScan_sub t0 fuel (i + 1) _ _ x h)
      · exact reduceScan_sub t0 fuel (i + 1) p0 l x h

/-- `reduce()` only ever keeps tableaux that were in the mixture -/
theorem reduce_tabs : ∀ (fuel : Nat) (m : Mixture) (x : Rat × Tab), x ∈ Mix.reduce fuel m → ∃ y ∈ m, x.2 = y.2
  | 0, _, _, h => by simp [Mix.reduce] at h
  | fuel+1, [], _, h => by simp [Mix.reduce] at h
  | fuel+1, (p0, t0) :: rest, x, h => by
    simp only [Mix.reduce, List.mem_cons] at h
    rcases h with h | h
    · exact ⟨(p0, t0), by simp, by rw [h]⟩
    · obtain ⟨y, hy, e⟩ := reduce_tabs fuel _ x h
      exact ⟨y, List.mem_cons_of_mem _ (reduceScan_sub t0 _ _ _ _ y hy), e⟩

theorem reduce_ok (n : Nat) (fuel : Nat) (m : Mixture) (hm : MixOK n m) : MixOK n (Mix.reduce fuel m) := by
  intro x hx
  obtain ⟨y, hy, e⟩ := reduce_tabs fuel m x hx
  rw [e]; exact hm y hy

theorem pauliGate_ok (n q : Nat) (hq : q < n) (k : Nat) : KeepsOK n (fun t => Mix.pauliGate k t q) := by
  intro t h v
  unfold Mix.pauliGate
  split
  · exact ⟨h, v⟩
  · exact keeps_x n q hq t h v
  · exact keeps_y n q hq t h v
  · exact keeps_z n q hq t h v

theorem depolarize_ok' (n q : Nat) (hq : q < n) (p : Rat) (m m' : Mixture) (hm : MixOK n m)
    (h : Mix.depolarize p q m = .ok m') : MixOK n m' := by
  rw [Mix.depolarize_unfold] at h
  split at h; · cases h
  split at h; · cases h
  injection h with h; subst h
  apply reduce_ok
  intro x hx
  simp only [List.mem_flatMap, Mix.depolBranch, List.mem_filterMap, List.mem_range] at hx
  obtain ⟨⟨pi, ti⟩, hy, k, _, hk⟩ := hx
  simp only at hk
  split at hk
  · injection hk with hk; subst hk
    obtain ⟨h1, h2⟩ := hm (pi, ti) hy
    obtain ⟨g1, g2⟩ := pauliGate_ok n q hq k ti h1 h2
    exact ⟨by rw [Tab.norm_n]; exact g1, Tab.norm_valid _ g2⟩
  · cases hk

theorem applyNoise_ok (n q : Nat) (hq : q < n) (nm : NoiseM) (m m' : Mixture) (hm : MixOK n m)
    (h : Mix.applyNoise nm q m = .ok m') : MixOK n m' := by
  cases nm with
  | none => simp [Mix.applyNoise] at h; subst h; exact hm
  | depol p a => exact depolarize_ok' n q hq p m m' hm h
  | pauli k a =>
    simp only [Mix.applyNoise] at h
    cases k <;> simp [Mix.pauliError] at h <;> subst h
    · exact hm
    · exact mapTab_ok n _ (keeps_x n q hq) m hm
    · exact mapTab_ok n _ (keeps_y n q hq) m hm
    · exact mapTab_ok n _ (keeps_z n q hq) m hm
  | loss r a => simp [Mix.applyNoise] at h; subst h; exact photonLoss_ok n r m hm
  | replace => simp [Mix.applyNoise] at h
  | other => simp [Mix.applyNoise] at h


/-- well-formed operation: its qubits exist, control and target of a controlled pair differ -/
def OpWF (n np : Nat) (op : COp) : Prop :=
  qIndex np op.r1 op.t1 < n ∧
  ((op.kind.isCtrlPair = true ∨ op.kind.isClassicalCtrl = true) → qIndex np op.r2 op.t2 < n) ∧
  (op.kind.isCtrlPair = true → qIndex np op.r1 op.t1 ≠ qIndex np op.r2 op.t2)

theorem stabMap1_ok (n q : Nat) (f : Tab → Tab) (hf : q < n → KeepsOK n f) (s s' : StabSt) (hm : MixOK n s.mix)
    (h : stabMap1 n q f s = .ok s') : MixOK n s'.mix := by
  unfold stabMap1 at h; split at h
  · rename_i hq; injection h with h; subst h; exact mapTab_ok n f (hf hq) _ hm
  · cases h

theorem stabMap2_ok (n q1 q2 : Nat) (f : Tab → Tab) (hf : q1 < n → q2 < n → KeepsOK n f) (s s' : StabSt) (hm : MixOK n s.mix)
    (h : stabMap2 n q1 q2 f s = .ok s') : MixOK n s'.mix := by
  unfold stabMap2 at h; split at h
  · rename_i hq; injection h with h; subst h; exact mapTab_ok n f (hf hq.1 hq.2) _ hm
  · cases h

theorem stabClassical_ok (n q1 q2 c : Nat) (det : Bool) (f : Tab → Tab) (hf : q2 < n → KeepsOK n f) (reset : Bool)
    (s s' : StabSt) (hm : MixOK n s.mix) (h : stabClassical n q1 q2 c det f reset s = .ok s') : MixOK n s'.mix := by
  unfold stabClassical at h; split at h
  · rename_i hq; injection h with h; subst h
    have h1 := measure_ok n q1 hq.1 det s.mix hm
    have h2 := conditioned_ok n f (hf hq.2) (Mix.measure q1 det s.mix).2 _ h1
    cases reset
    · simpa using h2
    · simpa using mapTab_ok n _ (keeps_resetZ n q1 hq.1 false det) _ h2
  · cases h

theorem stabMeasZ_ok (n q1 c : Nat) (det : Bool) (s s' : StabSt) (hm : MixOK n s.mix)
    (h : stabMeasZ n q1 c det s = .ok s') : MixOK n s'.mix := by
  unfold stabMeasZ at h; split at h
  · rename_i hq; injection h with h; subst h; exact measure_ok n q1 hq det s.mix hm
  · cases h

theorem stabGate_ok (np n : Nat) (det : Bool) (op : COp)
    (hne : op.kind.isCtrlPair = true → qIndex np op.r1 op.t1 ≠ qIndex np op.r2 op.t2)
    (s s' : StabSt) (hm : MixOK n s.mix) (h : stabGate np n det op s = .ok s') : MixOK n s'.mix := by
  unfold stabGate at h
  simp only at h
  cases hk : op.kind <;> simp only [hk] at h
  case input => injection h with h; subst h; exact hm
  case output => injection h with h; subst h; exact hm
  case identity => injection h with h; subst h; exact hm
  case h => exact stabMap1_ok n _ _ (fun hq => keeps_h n _ hq) s s' hm h
  case s => exact stabMap1_ok n _ _ (fun hq => keeps_s n _ hq) s s' hm h
  case sdg => exact stabMap1_ok n _ _ (fun hq => keeps_sdg n _ hq) s s' hm h
  case x => exact stabMap1_ok n _ _ (fun hq => keeps_x n _ hq) s s' hm h
  case y => exact stabMap1_ok n _ _ (fun hq => keeps_y n _ hq) s s' hm h
  case z => exact stabMap1_ok n _ _ (fun hq => keeps_z n _ hq) s s' hm h
  case cnot => exact stabMap2_ok n _ _ _ (fun h1 h2 => keeps_cnot n _ _ h1 h2 (hne (by simp [hk, Kind.isCtrlPair]))) s s' hm h
  case cz => exact stabMap2_ok n _ _ _ (fun h1 h2 => keeps_cz n _ _ h1 h2 (hne (by simp [hk, Kind.isCtrlPair]))) s s' hm h
  case ccnot => exact stabClassical_ok n _ _ _ det _ (fun hq => keeps_x n _ hq) false s s' hm h
  case ccz => exact stabClassical_ok n _ _ _ det _ (fun hq => keeps_z n _ hq) false s s' hm h
  case mcr => exact stabClassical_ok n _ _ _ det _ (fun hq => keeps_x n _ hq) true s s' hm h
  case measZ => exact stabMeasZ_ok n _ _ det s s' hm h
  case param => cases h

/-- an action is well-formed: its noise addresses an existing qubit; its gate is an operation with distinct control/target -/
def ActWF (n np : Nat) (arr : Array COp) : Act → Prop
  | .gate k => ∀ op, arr[k]? = some op → (op.kind.isCtrlPair = true → qIndex np op.r1 op.t1 ≠ qIndex np op.r2 op.t2)
  | .noise _ _ q _ => q < n
  | .replace _ => True

theorem stabAct_ok (np n : Nat) (det : Bool) (arr : Array COp) (s s' : StabSt) (a : Act) (ha : ActWF n np arr a)
    (hm : MixOK n s.mix) (h : stabAct np n det arr s a = .ok s') : MixOK n s'.mix := by
  cases a with
  | gate k =>
    simp only [stabAct] at h
    refine stabGate_ok np n det _ ?_ s s' hm h
    cases hk : arr[k]? with
    | none => simp [Array.getD, Array.getElem?_eq_none_iff.1 hk |> Nat.not_lt.2, Kind.isCtrlPair]
    | some op =>
      have : arr.getD k { kind := .identity } = op := by
        have hlt : k < arr.size := by
          rcases Nat.lt_or_ge k arr.size with h' | h'
          · exact h'
          · rw [Array.getElem?_eq_none_iff.2 h'] at hk; cases hk
        simp [Array.getD, hlt]
        have := Array.getElem?_eq_getElem hlt
        rw [this] at hk; injection hk
      rw [this]; exact ha op hk
  | noise k side q nm =>
    simp only [stabAct] at h
    cases hn : Mix.applyNoise nm q s.mix with
    | error e => rw [hn] at h; cases h
    | ok m' =>
      rw [hn] at h; injection h with h; subst h
      exact applyNoise_ok n q ha nm s.mix m' hm hn
  | replace k => simp [stabAct] at h

theorem runStabActs_ok (np n : Nat) (det : Bool) (arr : Array COp) :
    ∀ (acts : List Act) (s s' : StabSt), (∀ a ∈ acts, ActWF n np arr a) → MixOK n s.mix →
      runStabActs np n det arr acts s = .ok s' → MixOK n s'.mix
  | [], s, s', _, hm, h => by simp [runStabActs] at h; subst h; exact hm
  | a :: as, s, s', hw, hm, h => by
    simp only [runStabActs] at h
    cases ha : stabAct np n det arr s a with
    | error e => rw [ha] at h; cases h
    | ok s1 =>
      rw [ha] at h
      exact runStabActs_ok np n det arr as s1 s' (fun b hb => hw b (List.mem_cons_of_mem _ hb))
        (stabAct_ok np n det arr s s1 a (hw a List.mem_cons_self) hm ha) h


/-- what `placeOp` can emit for operation `k` -/
def GoodAct (n k : Nat) (a : Act) : Prop :=
  a = .gate k ∨ a = .replace k ∨ ∃ side q nm, a = .noise k side q nm ∧ q < n

theorem addl_good (n np : Nat) (be : Backend) (op : COp) (k : Nat) (a b : NoiseM) (hw : OpWF n np op) (l : List Act)
    (h : addl be np op k a b = .ok l) : ∀ x ∈ l, GoodAct n k x := by
  unfold addl at h
  split at h
  · injection h with h; subst h
    intro x hx
    split at hx
    · cases hx
    · simp only [List.mem_singleton] at hx
      exact Or.inr (Or.inr ⟨0, _, _, hx, hw.1⟩)
  · split at h
    · rename_i hc
      injection h with h; subst h
      intro x hx
      simp only [List.mem_append] at hx
      rcases hx with hx | hx
      · split at hx
        · cases hx
        · simp only [List.mem_singleton] at hx
          exact Or.inr (Or.inr ⟨0, _, _, hx, hw.1⟩)
      · split at hx
        · cases hx
        · simp only [List.mem_singleton] at hx
          exact Or.inr (Or.inr ⟨1, _, _, hx, hw.2.1 (Or.inl hc)⟩)
    · cases be
      · cases h
      · injection h with h; subst h; intro x hx; cases hx

theorem good_gate (n k : Nat) : ∀ x ∈ [Act.gate k], GoodAct n k x := by
  intro x hx; simp only [List.mem_singleton] at hx; exact Or.inl hx

theorem good_append (n k : Nat) (l1 l2 : List Act) (h1 : ∀ x ∈ l1, GoodAct n k x) (h2 : ∀ x ∈ l2, GoodAct n k x) :
    ∀ x ∈ l1 ++ l2, GoodAct n k x := by
  intro x hx; rcases List.mem_append.1 hx with h | h
  · exact h1 x h
  · exact h2 x h

theorem placeOp_good (n np : Nat) (ns : Bool) (be : Backend) (op : COp) (k : Nat) (hw : OpWF n np op) (acts : List Act)
    (h : placeOp ns be np op k = .ok acts) : ∀ x ∈ acts, GoodAct n k x := by
  unfold placeOp at h
  cases hctl : (op.kind.isCtrlPair || op.kind.isClassicalCtrl) <;> simp only [hctl, Bool.false_eq_true, if_false, if_true] at h
  · -- not a controlled operation
    split at h
    · injection h with h; subst h; exact good_gate n k
    · split at h
      · split at h
        · cases ha : addl be np op k op.n0 .none with
          | error e => rw [ha] at h; cases h
          | ok l => rw [ha] at h; injection h with h; subst h
                    exact good_append n k _ _ (good_gate n k) (addl_good n np be op k _ _ hw l ha)
        · cases ha : addl be np op k op.n0 .none with
          | error e => rw [ha] at h; cases h
          | ok l => rw [ha] at h; injection h with h; subst h
                    exact good_append n k _ _ (addl_good n np be op k _ _ hw l ha) (good_gate n k)
      · split at h
        · injection h with h; subst h
          intro x hx; simp only [List.mem_singleton] at hx; exact Or.inr (Or.inl hx)
        · cases h
  · split at h
    · injection h with h; subst h; exact good_gate n k
    · split at h
      · -- both additive: four placements
        split at h
        · cases ha : addl be np op k op.n0 op.n1 with
          | error e => rw [ha] at h; cases h
          | ok l => rw [ha] at h; injection h with h; subst h
                    exact good_append n k _ _ (good_gate n k) (addl_good n np be op k _ _ hw l ha)
        · cases ha : addl be np op k op.n0 op.n1 with
          | error e => rw [ha] at h; cases h
          | ok l => rw [ha] at h; injection h with h; subst h
                    exact good_append n k _ _ (addl_good n np be op k _ _ hw l ha) (good_gate n k)
        · cases ha : addl be np op k .none op.n1 with
          | error e => rw [ha] at h; cases h
          | ok l1 =>
            cases hb : addl be np op k op.n0 .none with
            | error e => rw [ha, hb] at h; cases h
            | ok l2 =>
              rw [ha, hb] at h; injection h with h; subst h
              exact good_append n k _ _ (good_append n k _ _ (addl_good n np be op k _ _ hw l1 ha) (good_gate n k))
                (addl_good n np be op k _ _ hw l2 hb)
        · cases ha : addl be np op k op.n0 .none with
          | error e => rw [ha] at h; cases h
          | ok l1 =>
            cases hb : addl be np op k .none op.n1 with
            | error e => rw [ha, hb] at h; cases h
            | ok l2 =>
              rw [ha, hb] at h; injection h with h; subst h
              exact good_append n k _ _ (good_append n k _ _ (addl_good n np be op k _ _ hw l1 ha) (good_gate n k))
                (addl_good n np be op k _ _ hw l2 hb)
      · cases h

theorem good_to_wf (n np k : Nat) (arr : Array COp) (harr : ∀ (j : Nat) (op : COp), arr[j]? = some op → OpWF n np op) (a : Act)
    (h : GoodAct n k a) : ActWF n np arr a := by
  rcases h with h | h | ⟨side, q, nm, h, hq⟩
  · subst h; intro op hop; exact (harr k op hop).2.2
  · subst h; trivial
  · subst h; exact hq

theorem stabGo_ok (ns : Bool) (np n : Nat) (det : Bool) (arr : Array COp)
    (harr : ∀ (j : Nat) (op : COp), arr[j]? = some op → OpWF n np op) :
    ∀ (ops : List COp) (k : Nat) (s s' : StabSt), (∀ op ∈ ops, OpWF n np op) → MixOK n s.mix →
      stabGo ns np n det arr ops k s = .ok s' → MixOK n s'.mix
  | [], k, s, s', _, hm, h => by simp [stabGo] at h; subst h; exact hm
  | op :: rest, k, s, s', hw, hm, h => by
    simp only [stabGo] at h
    split at h
    · cases h
    · cases hp : placeOp ns .stab np op k with
      | error e => rw [hp] at h; cases h
      | ok acts =>
        rw [hp] at h; simp only at h
        cases hr : runStabActs np n det arr acts s with
        | error e => rw [hr] at h; cases h
        | ok s1 =>
          rw [hr] at h; simp only at h
          have hg := placeOp_good n np ns .stab op k (hw op List.mem_cons_self) acts hp
          have h1 := runStabActs_ok np n det arr acts s s1 (fun a ha => good_to_wf n np k arr harr a (hg a ha)) hm hr
          exact stabGo_ok ns np n det arr harr rest (k + 1) s1 s' (fun o ho => hw o (List.mem_cons_of_mem _ ho)) h1 h

/-- **every branch stays a valid tableau**: for a circuit whose operations address existing qubits (control ≠ target),
    whenever the stabilizer compile returns, every `T_k` of the mixture is a valid `n`-qubit Clifford tableau -/
theorem compileStab_ok (ns : Bool) (ne np nc : Nat) (det : Bool) (ops : List COp)
    (hw : ∀ op ∈ ops, OpWF (ne + np) np op) (s : StabSt) (h : compileStab ns ne np nc det ops = .ok s) :
    MixOK (ne + np) s.mix := by
  unfold compileStab at h
  refine stabGo_ok ns np (ne + np) det ops.toArray ?_ ops 0 _ s hw ?_ h
  · intro j op hop
    apply hw
    have : op ∈ ops.toArray := Array.mem_of_getElem? hop
    simpa using this
  · intro x hx
    simp only [List.mem_singleton] at hx
    subst hx
    exact ⟨rfl, Tab.norm_valid _ (ket0_valid _)⟩

end Noise
end Graphiq

/-! ## 4. zero strength ⇒ identity -/

namespace Graphiq.Noise
open DM

theorem reduce_single (w : Rat) (t : Tab) : Mix.reduce 1 [(w, t)] = [(w, t)] := by
  simp [Mix.reduce, Mix.reduceScan]

/-- **zero strength ⇒ identity (mixtures).**  On a one-branch mixture of positive weight — what every noiseless run is —
    a noise of zero strength (`NoNoise`, `DepolarizingNoise(0)`, `PhotonLoss(0)`, `PauliError("I")`) returns the same weight
    and the same tableau (`DepolarizingNoise(0)` re-tabulates it: `Tab.norm`, pointwise the identity). -/
theorem zero_strength_single_branch (nm : NoiseM) (hz : nm.isZeroStrength = true) (q : Nat) (w : Rat) (hw : 0 < w) (t : Tab) :
    Mix.applyNoise nm q [(w, t)] = .ok [(w, t)] ∨ Mix.applyNoise nm q [(w, t)] = .ok [(w, t.norm)] := by
  cases nm with
  | none => left; rfl
  | depol p a =>
    right
    have hp : p = 0 := by simpa [NoiseM.isZeroStrength] using hz
    subst hp
    have e : List.range 4 = [0, 1, 2, 3] := by decide
    have h0 : ¬ ((0 : Rat) < 0 / 3) := by norm_num
    simp only [Mix.applyNoise, Mix.depolarize, Mix.depolFactors, e, List.flatMap_cons, List.flatMap_nil, List.filterMap_cons,
      List.filterMap_nil, List.getD_cons_zero, List.getD_cons_succ, sub_zero, mul_one, zero_lt_one, h0, if_true, if_false,
      List.append_nil, Mix.pauliGate]
    simp [Mix.total, qsumL, reduce_single]
  | pauli k a =>
    left
    have hk : k = .I := by simpa [NoiseM.isZeroStrength] using hz
    subst hk; rfl
  | loss r a =>
    left
    have hr : r = 0 := by simpa [NoiseM.isZeroStrength] using hz
    subst hr
    simp [Mix.applyNoise, Mix.photonLoss]
  | replace => simp [NoiseM.isZeroStrength] at hz
  | other => simp [NoiseM.isZeroStrength] at hz

/-- `Tab.norm` is the identity on every row and site that exists -/
theorem norm_is_identity (t : Tab) : t.norm.n = t.n ∧ ∀ i, i < 2 * t.n → PRow.EqOn t.n (t.norm.row i) (t.row i) :=
  ⟨rfl, fun i hi => by rw [Tab.norm_row t i hi]; exact PRow.norm_eqOn _ _⟩


end Graphiq.Noise

namespace Graphiq
open DM

theorem digits_eq (b i j : Nat) (h1 : i / (2 * b) = j / (2 * b)) (h2 : i % b = j % b)
    (h3 : (i / b) % 2 = (j / b) % 2) : i = j := by
  have e : ∀ m, m = b * (2 * (m / (2 * b)) + (m / b) % 2) + m % b := by
    intro m
    have a1 := Nat.div_add_mod m b
    have a2 := Nat.div_add_mod (m / b) 2
    have a3 : m / b / 2 = m / (2 * b) := by rw [Nat.div_div_eq_div_mul, Nat.mul_comm]
    rw [a3] at a2
    calc m = b * (m / b) + m % b := a1.symm
      _ = b * (2 * (m / (2 * b)) + (m / b) % 2) + m % b := by rw [a2]
  rw [e i, e j, h1, h2, h3]

theorem id2_e (x y : Nat) (hx : x < 2) (hy : y < 2) : Mat.id2.e x y = if x = y then 1 else 0 := by
  have : x = 0 ∨ x = 1 := by omega
  have : y = 0 ∨ y = 1 := by omega
  rcases ‹x = 0 ∨ x = 1› with rfl | rfl <;> rcases ‹y = 0 ∨ y = 1› with rfl | rfl <;> simp [Mat.id2, Mat.m2]

/-- the Kraus operator of the identity term is the identity matrix -/
theorem embed1_id2 (a b : Nat) (i j : Nat) : (embed1 a b Mat.id2).e i j = (Mat.eye (a * 2 * b)).e i j := by
  simp only [embed1, Mat.eye]
  by_cases hij : i = j
  · subst hij
    simp only [and_self, if_true]
    rw [id2_e _ _ (Nat.mod_lt _ (by norm_num)) (Nat.mod_lt _ (by norm_num))]
    simp
  · rw [if_neg hij]
    split
    · rename_i hc
      rw [id2_e _ _ (Nat.mod_lt _ (by norm_num)) (Nat.mod_lt _ (by norm_num))]
      rw [if_neg]
      intro h3
      exact hij (digits_eq b i j hc.1 hc.2 h3)
    · rfl

theorem embed1_id2_eq (a b : Nat) : embed1 a b Mat.id2 = Mat.eye (a * 2 * b) := by
  have : (embed1 a b Mat.id2).e = (Mat.eye (a * 2 * b)).e := by funext i j; exact embed1_id2 a b i j
  unfold embed1 Mat.eye at *
  simp only at this
  rw [this]

theorem pow2_split (n q : Nat) (hq : q < n) : pow2 q * 2 * pow2 (n - q - 1) = pow2 n := by
  unfold pow2
  have : n = q + 1 + (n - q - 1) := by omega
  conv_rhs => rw [this]
  rw [pow_add, pow_succ]

end Graphiq
namespace Graphiq
open DM

namespace Mat

theorem lookupG_ofFn (n : Nat) (f : Nat → Nat → GQ) (i j : Nat) (hi : i < n) (hj : j < n) :
    lookupG (Array.ofFn (n := n) fun a => Array.ofFn (n := n) fun b => f a.val b.val) i j = f i j := by
  unfold lookupG
  simp [Array.getD, hi, hj]

theorem norm_n (m : Mat) : m.norm.n = m.n := rfl
theorem norm_e (m : Mat) (i j : Nat) (hi : i < m.n) (hj : j < m.n) : m.norm.e i j = m.e i j := by
  simp only [Mat.norm]; exact lookupG_ofFn m.n m.e i j hi hj

theorem norm_eqOn (m : Mat) : EqOn m.norm m := ⟨rfl, fun i j hi hj => norm_e m i j hi hj⟩

theorem EqOn.trans {a b c : Mat} (h1 : EqOn a b) (h2 : EqOn b c) : EqOn a c :=
  ⟨h1.1.trans h2.1, fun i j hi hj => (h1.2 i j hi hj).trans (h2.2 i j (h1.1 ▸ hi) (h1.1 ▸ hj))⟩

theorem EqOn.symm {a b : Mat} (h : EqOn a b) : EqOn b a :=
  ⟨h.1.symm, fun i j hi hj => (h.2 i j (h.1 ▸ hi) (h.1 ▸ hj)).symm⟩

/-- `dot` reads only the first `n` entries -/
theorem dot_congr (n : Nat) (f f' g g' : Nat → GQ) (hf : ∀ k, k < n → f k = f' k) (hg : ∀ k, k < n → g k = g' k) :
    dot n f g = dot n f' g' := by
  rw [dot_eq_gsum, dot_eq_gsum, gsum_eq_sum, gsum_eq_sum]
  apply Finset.sum_congr rfl
  intro k hk
  have := Finset.mem_range.1 hk
  rw [hf k this, hg k this]

theorem dot_eye_left (n i : Nat) (hi : i < n) (g : Nat → GQ) :
    dot n (fun k => (eye n).e i k) g = g i := by
  rw [dot_eq_gsum, gsum_eq_sum]
  simp only [eye]
  rw [Finset.sum_eq_single i]
  · simp
  · intro k _ hk; simp [Ne.symm hk]
  · intro h; exact absurd (Finset.mem_range.2 hi) h

theorem dot_eye_right (n j : Nat) (hj : j < n) (f : Nat → GQ) :
    dot n f (fun k => ((eye n).dagger).e k j) = f j := by
  rw [dot_eq_gsum, gsum_eq_sum]
  simp only [eye, dagger]
  rw [Finset.sum_eq_single j]
  · simp [GQ.conj]; ext <;> simp
  · intro k _ hk
    have : ¬ j = k := fun h => hk h.symm
    simp [this, GQ.conj]
    ext <;> simp
  · intro h; exact absurd (Finset.mem_range.2 hj) h

/-- `I ρ I† = ρ` entrywise -/
theorem conjBy_eye (ρ : Mat) : EqOn (conjBy (eye ρ.n) ρ) ρ := by
  refine ⟨rfl, fun i j hi hj => ?_⟩
  have hi' : i < (eye ρ.n).n := hi
  simp only [conjBy, mul]
  show dot ρ.n (fun k => (⟨ρ.n, fun i j => dot ρ.n (fun k => (eye ρ.n).e i k) fun k => ρ.e k j⟩ : Mat).norm.e i k)
      (fun k => (eye ρ.n).dagger.e k j) = ρ.e i j
  rw [dot_eye_right ρ.n j hj]
  have := norm_e (⟨ρ.n, fun i j => dot ρ.n (fun k => (eye ρ.n).e i k) fun k => ρ.e k j⟩ : Mat) i j hi hj
  rw [this]
  exact dot_eye_left ρ.n i hi _

theorem smul_one_eqOn (ρ : Mat) : EqOn (smul 1 ρ) ρ :=
  ⟨rfl, fun i j _ _ => by simp only [smul]; ext <;> simp [GQ.smul]⟩

/-- `hermitianize` is the identity on Hermitian matrices -/
theorem hermitianize_eqOn (a : Mat) (h : ∀ i j, i < a.n → j < a.n → (a.e j i).conj = a.e i j) : EqOn (hermitianize a) a := by
  refine ⟨rfl, fun i j hi hj => ?_⟩
  simp only [hermitianize, smul, add, dagger]
  rw [h i j hi hj]
  ext <;> simp [GQ.smul] <;> ring


theorem hermitianize_congr (a b : Mat) (h : EqOn a b) : EqOn (hermitianize a) (hermitianize b) := by
  refine ⟨h.1, fun i j hi hj => ?_⟩
  simp only [hermitianize, smul, add, dagger]
  rw [h.2 i j hi hj, h.2 j i hj hi]

theorem smul_congr (q : Rat) (a b : Mat) (h : EqOn a b) : EqOn (smul q a) (smul q b) :=
  ⟨h.1, fun i j hi hj => by simp only [smul]; rw [h.2 i j hi hj]⟩

def Herm (a : Mat) : Prop := ∀ i j, i < a.n → j < a.n → (a.e j i).conj = a.e i j

end Mat

namespace Noise
open Mat

/-- `apply_unitary` with the identity matrix returns the state (entrywise), for a Hermitian state -/
theorem applyUnitary_eye (ρ : Mat) (hh : Mat.Herm ρ) :
    ∃ ρ', applyUnitary ρ ⟨1, Mat.eye ρ.n⟩ = .ok ρ' ∧ Mat.EqOn ρ' ρ := by
  unfold applyUnitary
  simp only [Mat.eye, ne_eq, not_true_eq_false, if_false]
  refine ⟨_, rfl, ?_⟩
  have h1 : Mat.EqOn (Mat.smul 1 (Mat.conjBy (Mat.eye ρ.n) ρ)).norm ρ :=
    (Mat.norm_eqOn _).trans ((Mat.smul_one_eqOn _).trans (Mat.conjBy_eye ρ))
  have h2 := Mat.hermitianize_congr _ _ h1
  exact (Mat.norm_eqOn _).trans (h2.trans (Mat.hermitianize_eqOn ρ hh))

/-- **zero strength ⇒ identity (density matrices)**: `PhotonLoss(0)` and `PauliError("I")` return the state entry by entry
    (for the Pauli error the state must be Hermitian, because `apply_unitary` hermitianizes) -/
theorem dm_zero_strength (n q : Nat) (ρ : Mat) (hn : ρ.n = pow2 n) (hh : Mat.Herm ρ) (a : Bool) :
    (∃ ρ', DMx.applyNoise n (.loss 0 a) q ρ = .ok ρ' ∧ Mat.EqOn ρ' ρ) ∧
    (∃ ρ', DMx.applyNoise n (.pauli .I a) q ρ = .ok ρ' ∧ Mat.EqOn ρ' ρ) ∧
    (∃ ρ', DMx.applyNoise n .none q ρ = .ok ρ' ∧ Mat.EqOn ρ' ρ) := by
  refine ⟨⟨_, rfl, ?_⟩, ?_, ⟨_, rfl, rfl, fun _ _ _ _ => rfl⟩⟩
  · have : Mat.EqOn (Mat.smul (1 - 0) ρ) ρ := by
      rw [sub_zero]; exact Mat.smul_one_eqOn ρ
    exact (Mat.norm_eqOn _).trans this
  · simp only [DMx.applyNoise, DMx.pauliError, ← hn]
    exact applyUnitary_eye ρ hh


theorem smul_zero_e (x : GQ) : GQ.smul 0 x = 0 := by ext <;> simp [GQ.smul]

/-- one step of the `apply_channel` accumulation with a Kraus weight 0 changes nothing -/
theorem step_zero (acc m ρ : Mat) (hm : m.n = acc.n) :
    Mat.EqOn (Mat.add acc (Mat.smul 0 (Mat.conjBy m ρ)).norm).norm acc := by
  refine (Mat.norm_eqOn _).trans ⟨rfl, fun i j hi hj => ?_⟩
  simp only [Mat.add]
  have hn : (Mat.smul 0 (Mat.conjBy m ρ)).n = acc.n := hm
  rw [Mat.norm_e _ i j (hn ▸ hi) (hn ▸ hj)]
  simp only [Mat.smul, smul_zero_e]
  ext <;> simp

theorem add_congr_left (a a' b : Mat) (h : Mat.EqOn a a') : Mat.EqOn (Mat.add a b) (Mat.add a' b) :=
  ⟨h.1, fun i j hi hj => by simp only [Mat.add]; rw [h.2 i j hi hj]⟩

/-- **`DepolarizingNoise(0)` on a density matrix is the identity** (entrywise, Hermitian state of the right size) -/
theorem dm_depol_zero (n q : Nat) (hq : q < n) (ρ : Mat) (hn : ρ.n = pow2 n) (hh : Mat.Herm ρ) (a : Bool) :
    ∃ ρ', DMx.applyNoise n (.depol 0 a) q ρ = .ok ρ' ∧ Mat.EqOn ρ' ρ := by
  have e : List.range 4 = [0, 1, 2, 3] := by decide
  have hsz : pow2 q * 2 * pow2 (n - q - 1) = ρ.n := by rw [pow2_split n q hq, hn]
  simp only [DMx.applyNoise, DMx.depolarize, Mix.depolFactors, e, List.map_cons, List.map_nil, List.getD_cons_zero,
    List.getD_cons_succ, sub_zero, zero_div, DMx.pauliOf, embed1_id2_eq, hsz]
  unfold applyChannel
  simp only [Mat.eye, ne_eq, not_true_eq_false, if_false, List.foldl_cons, List.foldl_nil]
  refine ⟨_, rfl, ?_⟩
  -- first term: weight 1, identity Kraus operator
  have h0 : Mat.EqOn (Mat.add (Mat.zero ρ.n) (Mat.smul 1 (Mat.conjBy (Mat.eye ρ.n) ρ)).norm).norm ρ := by
    refine (Mat.norm_eqOn _).trans ⟨rfl, fun i j hi hj => ?_⟩
    simp only [Mat.add, Mat.zero]
    have := ((Mat.norm_eqOn (Mat.smul 1 (Mat.conjBy (Mat.eye ρ.n) ρ))).trans
      ((Mat.smul_one_eqOn _).trans (Mat.conjBy_eye ρ))).2 i j hi hj
    rw [this]; ext <;> simp
  have sz : ∀ g : Mat, (embed1 (pow2 q) (pow2 (n - q - 1)) g).n = ρ.n := fun g => hsz
  generalize hA0 : (Mat.add (Mat.zero ρ.n) (Mat.smul 1 (Mat.conjBy (Mat.eye ρ.n) ρ)).norm).norm = A0 at h0
  have n0 : A0.n = ρ.n := by rw [← hA0]; rfl
  have h1 := (step_zero A0 (embed1 (pow2 q) (pow2 (n - q - 1)) Mat.sigmax) ρ ((sz _).trans n0.symm)).trans h0
  generalize hA1 : (Mat.add A0 (Mat.smul 0 (Mat.conjBy (embed1 (pow2 q) (pow2 (n - q - 1)) Mat.sigmax) ρ)).norm).norm = A1 at h1
  have n1 : A1.n = ρ.n := by rw [← hA1]; exact n0
  have h2 := (step_zero A1 (embed1 (pow2 q) (pow2 (n - q - 1)) Mat.sigmay) ρ ((sz _).trans n1.symm)).trans h1
  generalize hA2 : (Mat.add A1 (Mat.smul 0 (Mat.conjBy (embed1 (pow2 q) (pow2 (n - q - 1)) Mat.sigmay) ρ)).norm).norm = A2 at h2
  have n2 : A2.n = ρ.n := by rw [← hA2]; exact n1
  have h3 := (step_zero A2 (embed1 (pow2 q) (pow2 (n - q - 1)) Mat.sigmaz) ρ ((sz _).trans n2.symm)).trans h2
  have hfin := (Mat.norm_eqOn _).trans ((Mat.hermitianize_congr _ _ h3).trans (Mat.hermitianize_eqOn ρ hh))
  rw [← hA2, ← hA1, ← hA0] at hfin
  exact hfin

end Noise
end Graphiq

/-! ## 5. trace of the exact density matrix under photon loss -/

namespace Graphiq.Noise
open DM Mat

theorem trace_congr (a b : Mat) (h : Mat.EqOn a b) : a.trace = b.trace := by
  unfold Mat.trace
  rw [gsum_eq_sum, gsum_eq_sum, h.1]
  apply Finset.sum_congr rfl
  intro i hi
  have := Finset.mem_range.1 hi
  exact h.2 i i (h.1 ▸ this) (h.1 ▸ this)

theorem trace_smul (q : Rat) (a : Mat) : (Mat.smul q a).trace = GQ.smul q a.trace := by
  unfold Mat.trace Mat.smul
  simp only [gsum_eq_sum]
  have : ∀ x : GQ, GQ.smul q x = (⟨q, 0⟩ : GQ) * x := by intro x; ext <;> simp [GQ.smul]
  simp only [this, Finset.mul_sum]

/-- `PhotonLoss` on a density matrix multiplies the trace by the survival probability (model-level twin of
    `loss_scales_weight`) -/
theorem dm_loss_trace (n q : Nat) (r : Rat) (a : Bool) (ρ ρ' : Mat) (h : DMx.applyNoise n (.loss r a) q ρ = .ok ρ') :
    ρ'.trace = GQ.smul (1 - r) ρ.trace := by
  simp only [DMx.applyNoise] at h
  injection h with h; subst h
  rw [trace_congr _ _ (Mat.norm_eqOn _), trace_smul]

end Graphiq.Noise
