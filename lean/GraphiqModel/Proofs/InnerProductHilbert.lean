/-
  Proofs/InnerProductHilbert.lean — the Hilbert-space reading of `inner_product`: for two tableaux with real commuting
  stabilizer halves, the value the code reports (`none` = 0, `some e` = `2^{-e/2}`) squared is the overlap
  `tr(ρ_a ρ_b)` of the two density matrices `ρ = ∏_i (1 + P_i)/2` (Proofs/HilbertState.lean; for the stabilizer half of a
  valid Clifford tableau `ρ` is a pure state, so `tr(ρ_a ρ_b) = |⟨a|b⟩|²`).  All sizes.

  Route: the unitary `U` of the synthesised gate list maps `ρ_a` to `|0…0⟩⟨0…0|` and `ρ_b` to the density matrix of the
  canonical form `s2` the code inspects (`U ρ U† = ρ(image group)`, gauge independence of `ρ`); the trace is invariant.
  Against `ρ_0 = |0…0⟩⟨0…0|`: an x-free row `±Z…` of `s2` acts on `ρ_0` as its sign (factor 1 or 0), and a row with an
  X pivot at column `q` halves the trace, because `Z_q` fixes `ρ_0`, commutes with the earlier rows and anticommutes
  with the row (the argument of `trace_rhoTo_succ`).
-/
import GraphiqModel.Proofs.HilbertPure
import GraphiqModel.Proofs.InnerProductFull
namespace Graphiq
namespace Hilbert
open Matrix PRow STab Tab

/-! ### conjugation by a gate list maps the state of a group to the state of its image -/

theorem actCirc_ip' (c : List Gate) (a : PRow) : (actCirc c a).ip = a.ip := by
  induction c generalizing a with
  | nil => rfl
  | cons g rest ih =>
    show (actCirc rest (g.act a)).ip = _
    rw [ih, Gate.act_ip]

/-- `U ρ(T) U† = ρ(T')` when the signed group of `T'` is the image of that of `T` under the gate list -/
theorem conj_rho_image (n : Nat) (c : List Gate) (T T' : STab) (img : CircImage n c T T') (gT : T.Good) (gT' : T'.Good) :
    circMat n c * rho n T * (circMat n c)ᴴ = rho n T' := by
  have hT : T.n = n := img.nT
  have hT' : T'.n = n := img.nT'
  have hc := img.wf
  obtain ⟨hU, hU'⟩ := circ_unitary n c hc
  let T'' : STab := { n := n, row := fun i => actCirc c (T.row i) }
  have e1 : circMat n c * rho n T * (circMat n c)ᴴ = rho n T'' := by
    show circMat n c * rhoTo n T.row T.n * (circMat n c)ᴴ = rhoTo n T''.row n
    rw [hT]
    exact conj_rhoTo n _ hU hU' T.row T''.row n (fun i _ => circ_conj n c hc (T.row i))
  have g'' : T''.Good := by
    constructor
    · intro i hi
      show (actCirc c (T.row i)).ip = false
      rw [actCirc_ip']; exact gT.real i (by rw [hT]; exact hi)
    · intro i k hi hk
      show sp n (actCirc c (T.row i)) (actCirc c (T.row k)) = false
      rw [STab.actCirc_sp n c hc]
      have := gT.comm i k (by rw [hT]; exact hi) (by rw [hT]; exact hk)
      rw [hT] at this; exact this
  have img'' : CircImage n c T T'' := circImage_of_rows n c hc T T'' hT rfl (fun i _ => EqOn.refl _ _)
  have s : SpanEq T'' T' := by
    apply spanEq_of_gens T'' T' hT'
    · intro i hi
      obtain ⟨a, ha, ea⟩ := img.bwd _ (spn_gen T' i hi)
      have := img''.fwd a ha
      unfold Spn at this ⊢
      exact InSpan.eqv _ _ this ea
    · intro i hi
      exact img.fwd _ (spn_gen T i (by rw [hT]; exact hi))
  rw [e1]
  exact rho_spanEq T'' T' s g'' gT'

/-! ### the overlap of |0…0⟩ with a tableau in `Canon` shape -/

theorem trace_rho_zero (n : Nat) : Matrix.trace (rho n (STab.zero n)) = 1 := by
  unfold Matrix.trace
  simp only [Matrix.diag_apply, rho_zero]
  rw [Finset.sum_eq_single (fun _ => false : Bits n)]
  · simp
  · intro b _ hb; rw [if_neg (fun h => hb h.1)]
  · intro h; exact absurd (Finset.mem_univ _) h

section canon
variable (c : STab) (k : Nat) (px pz : Nat → Nat)
variable (hx : PInv c.n (xb c) px 0 k c.n) (hz : PInv c.n (zb c) pz k c.n c.n) (hg : c.Good)
include hx hg

/-- a positive x-free row fixes `ρ_0`, a negative one annihilates it -/
theorem proj_zrow_rho_zero (m : Nat) (hk : k ≤ m) (hm : m < c.n) :
    proj c.n (c.row m) * rho c.n (STab.zero c.n)
      = (if (c.row m).r then (0 : ℂ) else 1) • rho c.n (STab.zero c.n) := by
  have xf : XFree c.n (c.row m) := fun j hj => hx.below m j hk hm hj
  have hip := hg.real m hm
  cases hr : (c.row m).r with
  | false =>
    have hs : (STab.zero c.n).Spn (c.row m) := (zero_spn_iff c.n _).2 ⟨xf, hr, hip⟩
    have h1 := span_mul_rho (STab.zero c.n) (zero_good c.n) _ hs
    have h1' : pauliMat c.n (c.row m) * rho c.n (STab.zero c.n) = rho c.n (STab.zero c.n) := h1
    unfold proj
    rw [smul_mul_assoc, add_mul, Matrix.one_mul, h1', ← two_smul ℂ, smul_smul]
    norm_num
  | true =>
    have hs : (STab.zero c.n).Spn (PRow.neg (c.row m)) :=
      (zero_spn_iff c.n _).2 ⟨xfree_neg c.n _ xf, by show (!(c.row m).r) = false; rw [hr]; rfl, hip⟩
    have h1 := span_mul_rho (STab.zero c.n) (zero_good c.n) _ hs
    have h1' : pauliMat c.n (PRow.neg (c.row m)) * rho c.n (STab.zero c.n) = rho c.n (STab.zero c.n) := h1
    have hneg : pauliMat c.n (PRow.neg (c.row m)) = -pauliMat c.n (c.row m) := pauliMat_neg c.n (c.row m)
    rw [hneg, Matrix.neg_mul] at h1'
    have h2 : pauliMat c.n (c.row m) * rho c.n (STab.zero c.n) = -rho c.n (STab.zero c.n) :=
      neg_eq_iff_eq_neg.mp h1'
    unfold proj
    rw [smul_mul_assoc, add_mul, Matrix.one_mul, h2]
    simp

/-- a Z-block row multiplies the overlap by 1 (sign `+`) or 0 (sign `−`) -/
theorem trace_zero_zrow (m : Nat) (hk : k ≤ m) (hm : m < c.n) :
    Matrix.trace (rho c.n (STab.zero c.n) * rhoTo c.n c.row (m + 1))
      = (if (c.row m).r then (0 : ℂ) else 1) * Matrix.trace (rho c.n (STab.zero c.n) * rhoTo c.n c.row m) := by
  show Matrix.trace (rho c.n (STab.zero c.n) * (rhoTo c.n c.row m * proj c.n (c.row m))) = _
  rw [← Matrix.mul_assoc, Matrix.trace_mul_comm, ← Matrix.mul_assoc, proj_zrow_rho_zero c k px hx hg m hk hm,
    Matrix.smul_mul, Matrix.trace_smul, smul_eq_mul]

/-- an X-block row halves the overlap -/
theorem trace_zero_xrow (m : Nat) (hm : m < k) :
    Matrix.trace (rho c.n (STab.zero c.n) * rhoTo c.n c.row (m + 1))
      = (1 / 2 : ℂ) * Matrix.trace (rho c.n (STab.zero c.n) * rhoTo c.n c.row m) := by
  have hkn := hx.pr_le
  have hq : px m < c.n := hx.piv_lt m (Nat.zero_le _) hm
  set ρ0 := rho c.n (STab.zero c.n) with hρ0
  set R := rhoTo c.n c.row m with hR
  set P := pauliMat c.n (c.row m) with hP
  set D := pauliMat c.n (Zq (px m)) with hD
  -- `Z_q` fixes `ρ_0` on both sides
  have hDρ : D * ρ0 = ρ0 :=
    span_mul_rho (STab.zero c.n) (zero_good c.n) _ (spn_gen (STab.zero c.n) (px m) hq)
  have hDh : Dᴴ = D := pauliMat_hermitian c.n _ rfl
  have hρh : ρ0ᴴ = ρ0 := rho_hermitian (STab.zero c.n) (zero_good c.n)
  have hρD : ρ0 * D = ρ0 := by
    have := congrArg Matrix.conjTranspose hDρ
    rw [Matrix.conjTranspose_mul, hDh, hρh] at this
    exact this
  -- it commutes with the earlier rows and anticommutes with row `m`
  have hDR : D * R = R * D :=
    commute_rhoTo c.n _ c.row m (fun j hj => by
      have hsp : sp c.n (Zq (px m)) (c.row j) = false := by
        rw [sp_comm, sp_Zq c.n (px m) _ false hq]
        exact hx.piv_clear m j (Nat.zero_le _) hm (by omega) (by omega)
      have h := pauliMat_comm c.n _ _ hsp
      unfold proj
      rw [mul_smul_comm, smul_mul_assoc, mul_add, add_mul, h, Matrix.mul_one, Matrix.one_mul])
  have hanti : D * P = -(P * D) := by
    apply pauliMat_anticomm
    rw [sp_comm, sp_Zq c.n (px m) _ false hq]
    exact hx.piv_one m (Nat.zero_le _) hm
  have hz0 : Matrix.trace (ρ0 * R * P) = 0 := by
    have e : Matrix.trace (ρ0 * R * P) = -Matrix.trace (ρ0 * R * P) := by
      calc Matrix.trace (ρ0 * R * P) = Matrix.trace (ρ0 * D * R * P) := by rw [hρD]
        _ = Matrix.trace (ρ0 * (R * (D * P))) := by
            rw [Matrix.mul_assoc ρ0 D R, hDR]; simp only [Matrix.mul_assoc]
        _ = -Matrix.trace (ρ0 * R * P * D) := by
            rw [hanti, Matrix.mul_neg, Matrix.mul_neg, Matrix.trace_neg]; simp only [Matrix.mul_assoc]
        _ = -Matrix.trace (D * ρ0 * R * P) := by
            rw [Matrix.trace_mul_comm]; simp only [Matrix.mul_assoc]
        _ = -Matrix.trace (ρ0 * R * P) := by rw [hDρ]
    have h2 : (2 : ℂ) * Matrix.trace (ρ0 * R * P) = 0 := by
      rw [two_mul]; nth_rewrite 1 [e]; simp
    exact (mul_eq_zero.mp h2).resolve_left (by norm_num)
  show Matrix.trace (ρ0 * (R * proj c.n (c.row m))) = _
  unfold proj
  rw [mul_smul_comm, mul_smul_comm, Matrix.trace_smul, mul_add, Matrix.mul_one, mul_add, Matrix.trace_add,
    ← Matrix.mul_assoc, hz0, add_zero, smul_eq_mul]

/-- the overlap with the X block alone -/
theorem trace_zero_xblock (m : Nat) (hm : m ≤ k) :
    Matrix.trace (rho c.n (STab.zero c.n) * rhoTo c.n c.row m) = (1 / 2 : ℂ) ^ m := by
  induction m with
  | zero =>
    show Matrix.trace (rho c.n (STab.zero c.n) * 1) = _
    rw [Matrix.mul_one, trace_rho_zero]; simp
  | succ j ih =>
    rw [trace_zero_xrow c k px hx hg j (by omega), ih (by omega), pow_succ]
    ring

/-- **the overlap of |0…0⟩ with a `Canon` tableau**: `0` if some x-free row carries the sign `−`, else `2^{-k}` -/
theorem trace_zero_canon :
    ((∃ i, k ≤ i ∧ i < c.n ∧ (c.row i).r = true) →
      Matrix.trace (rho c.n (STab.zero c.n) * rho c.n c) = 0) ∧
    ((∀ i, k ≤ i → i < c.n → (c.row i).r = false) →
      Matrix.trace (rho c.n (STab.zero c.n) * rho c.n c) = (1 / 2 : ℂ) ^ k) := by
  have hkn := hx.pr_le
  have key : ∀ m, k ≤ m → m ≤ c.n →
      ((∃ i, k ≤ i ∧ i < m ∧ (c.row i).r = true) →
        Matrix.trace (rho c.n (STab.zero c.n) * rhoTo c.n c.row m) = 0) ∧
      ((∀ i, k ≤ i → i < m → (c.row i).r = false) →
        Matrix.trace (rho c.n (STab.zero c.n) * rhoTo c.n c.row m) = (1 / 2 : ℂ) ^ k) := by
    intro m
    induction m with
    | zero =>
      intro h1 _
      have : k = 0 := by omega
      subst this
      exact ⟨fun ⟨i, _, h, _⟩ => by omega, fun _ => trace_zero_xblock c 0 px hx hg 0 (Nat.le_refl _)⟩
    | succ j ih =>
      intro h1 h2
      by_cases hjk : j + 1 = k
      · refine ⟨fun ⟨i, _, _, _⟩ => by omega, fun _ => ?_⟩
        rw [trace_zero_xblock c k px hx hg (j + 1) (by omega), hjk]
      · have hkj : k ≤ j := by omega
        obtain ⟨ih1, ih2⟩ := ih hkj (by omega)
        rw [trace_zero_zrow c k px hx hg j hkj (by omega)]
        constructor
        · rintro ⟨i, a1, a2, a3⟩
          by_cases e : i = j
          · rw [← e, a3]; simp
          · rw [ih1 ⟨i, a1, by omega, a3⟩]; simp
        · intro hall
          rw [hall j hkj (Nat.lt_succ_self j), ih2 (fun i a1 a2 => hall i a1 (by omega))]
          simp
  exact key c.n hkn (Nat.le_refl _)

end canon

/-! ### the value of `inner_product` is the overlap `tr(ρ_a ρ_b)` -/

/-- the squared value `inner_product` reports: `none` ↦ 0, `some e` ↦ `(2^{-e/2})² = 2^{-e}` (what `fidelity` returns) -/
noncomputable def ipVal : Option Nat → ℂ
  | none => 0
  | some e => (1 / 2 : ℂ) ^ e

/-- **`inner_product` computes the Hilbert-space overlap.**  For tableaux `a`, `b` with real commuting stabilizer halves:
    if `inner_product` reports `0` then `tr(ρ_a ρ_b) = 0`, and if it reports `2^{-e/2}` then `tr(ρ_a ρ_b) = 2^{-e}` -/
theorem innerProduct_trace (a b : Tab) (r : Option Nat) (ga : (STab.ofTab a).Good) (gb : (STab.ofTab b).Good)
    (h : STab.innerProduct a b = .ok r) :
    Matrix.trace (rho a.n (STab.ofTab a) * rho a.n (STab.ofTab b))
      = ipVal r := by
  obtain ⟨s1, circ, hs, hzero⟩ := innerProduct_synth a b r ga h
  obtain ⟨s2, k, px, pz, _, n2, _, g2, hx, hz, iA, iB, hr⟩ := innerProduct_analysis a b s1 circ r ga gb hs hzero h
  have hc := iA.wf
  obtain ⟨hU, hU'⟩ := circ_unitary a.n circ hc
  have cA := conj_rho_image a.n circ _ _ iA ga (zero_good s2.n)
  have cB := conj_rho_image a.n circ _ _ iB gb g2
  -- the trace is invariant under the conjugation
  have e : Matrix.trace (rho a.n (STab.ofTab a) * rho a.n (STab.ofTab b))
      = Matrix.trace (rho a.n (STab.zero s2.n) * rho a.n s2) := by
    rw [← cA, ← cB]
    have : circMat a.n circ * rho a.n (STab.ofTab a) * (circMat a.n circ)ᴴ
        * (circMat a.n circ * rho a.n (STab.ofTab b) * (circMat a.n circ)ᴴ)
        = circMat a.n circ * (rho a.n (STab.ofTab a) * rho a.n (STab.ofTab b)) * (circMat a.n circ)ᴴ := by
      have : ∀ (U A B : Matrix (Bits a.n) (Bits a.n) ℂ), Uᴴ * U = 1 → U * A * Uᴴ * (U * B * Uᴴ) = U * (A * B) * Uᴴ := by
        intro U A B hUU
        calc U * A * Uᴴ * (U * B * Uᴴ) = U * A * (Uᴴ * U) * B * Uᴴ := by simp only [Matrix.mul_assoc]
          _ = U * (A * B) * Uᴴ := by rw [hUU, Matrix.mul_one]; simp only [Matrix.mul_assoc]
      exact this _ _ _ hU'
    rw [this, trace_conj_unitary _ _ hU']
  rw [e, ← n2]
  obtain ⟨tz, tp⟩ := trace_zero_canon s2 k px hx g2
  have spec := STab.ipFold_spec k (fun i => (s2.row i).r) s2.n
  rw [← hr] at spec
  have hkn : k ≤ s2.n := hx.pr_le
  cases hr' : r with
  | none =>
    exact tz (spec.2 hr')
  | some e0 =>
    obtain ⟨ek, hpos⟩ := spec.1 e0 hr'
    have ek' : e0 = k := by omega
    rw [ek']
    exact tp hpos

/-- **mixtures**: against a pure target the value `Σ_i p_i F(T_i, T_t)` that `Infidelity.evaluate` forms for a branched
    mixed stabilizer state is the overlap `tr(ρ_t · Σ_i p_i ρ_i)` -/
theorem mixture_trace (a : Tab) (ga : (STab.ofTab a).Good) (l : List (ℂ × Tab × Option Nat))
    (h : ∀ x, x ∈ l → (STab.ofTab x.2.1).Good ∧ STab.innerProduct a x.2.1 = .ok x.2.2) :
    Matrix.trace (rho a.n (STab.ofTab a) * (l.map fun x => x.1 • rho a.n (STab.ofTab x.2.1)).sum)
      = (l.map fun x => x.1 * ipVal x.2.2).sum := by
  induction l with
  | nil => simp
  | cons x rest ih =>
    have hx := h x List.mem_cons_self
    have ih' := ih (fun y hy => h y (List.mem_cons_of_mem _ hy))
    simp only [List.map_cons, List.sum_cons]
    rw [Matrix.mul_add, Matrix.trace_add, ih', Matrix.mul_smul, Matrix.trace_smul,
      innerProduct_trace a x.2.1 x.2.2 ga hx.1 hx.2, smul_eq_mul]

end Hilbert
end Graphiq
