/-
  Proofs/Commuting.lean — fidelity and trace distance of simultaneously diagonalisable density matrices, as functions
  of the eigenvalue vectors (Mathlib reals).  For `ρ = U diag(p) U†`, `σ = U diag(q) U†` the Uhlmann fidelity is
  `(Σ √(p_i q_i))²` and the trace distance `½ Σ |p_i − q_i|` (textbook; not proved here) — this file proves that these
  closed forms have the properties C17 asks of fidelity and trace distance, for every dimension.
-/
import Mathlib.Analysis.SpecialFunctions.Pow.Real
import Mathlib.Analysis.SpecialFunctions.Sqrt
import Mathlib.Algebra.Order.BigOperators.Ring.Finset
import Mathlib.Algebra.Order.Chebyshev
import Mathlib.Tactic.Ring
import Mathlib.Tactic.Linarith
import Mathlib.Tactic.Positivity
namespace Graphiq.Commuting
open Finset

variable {ι : Type} [Fintype ι]

/-- eigenvalue vector of a density matrix: non-negative, summing to one -/
structure IsProb (p : ι → ℝ) : Prop where
  nonneg : ∀ i, 0 ≤ p i
  sum_one : ∑ i, p i = 1

/-- Bhattacharyya coefficient `Σ √(p_i q_i)` = `√F` -/
noncomputable def bc (p q : ι → ℝ) : ℝ := ∑ i, Real.sqrt (p i * q i)
/-- fidelity of a commuting pair -/
noncomputable def F (p q : ι → ℝ) : ℝ := (bc p q) ^ 2
/-- trace distance of a commuting pair -/
noncomputable def T (p q : ι → ℝ) : ℝ := (1 / 2) * ∑ i, |p i - q i|

theorem bc_nonneg (p q : ι → ℝ) : 0 ≤ bc p q := Finset.sum_nonneg fun _ _ => Real.sqrt_nonneg _

theorem bc_comm (p q : ι → ℝ) : bc p q = bc q p := by
  unfold bc; apply Finset.sum_congr rfl; intro i _; rw [mul_comm]

/-- `√(pq) = √p √q` termwise and `(√p − √q)² = p + q − 2√(pq)` -/
theorem term_identity {a b : ℝ} (ha : 0 ≤ a) (hb : 0 ≤ b) :
    (Real.sqrt a - Real.sqrt b) ^ 2 = a + b - 2 * Real.sqrt (a * b) := by
  rw [Real.sqrt_mul ha]
  have h1 := Real.sq_sqrt ha
  have h2 := Real.sq_sqrt hb
  nlinarith [h1, h2]

theorem sum_sq_diff {p q : ι → ℝ} (hp : IsProb p) (hq : IsProb q) :
    ∑ i, (Real.sqrt (p i) - Real.sqrt (q i)) ^ 2 = 2 - 2 * bc p q := by
  have : ∀ i, (Real.sqrt (p i) - Real.sqrt (q i)) ^ 2 = p i + q i - 2 * Real.sqrt (p i * q i) :=
    fun i => term_identity (hp.nonneg i) (hq.nonneg i)
  simp only [this, Finset.sum_sub_distrib, Finset.sum_add_distrib, hp.sum_one, hq.sum_one, ← Finset.mul_sum, bc]
  ring

theorem sum_sq_sum {p q : ι → ℝ} (hp : IsProb p) (hq : IsProb q) :
    ∑ i, (Real.sqrt (p i) + Real.sqrt (q i)) ^ 2 = 2 + 2 * bc p q := by
  have : ∀ i, (Real.sqrt (p i) + Real.sqrt (q i)) ^ 2 = p i + q i + 2 * Real.sqrt (p i * q i) := by
    intro i
    rw [Real.sqrt_mul (hp.nonneg i)]
    have h1 := Real.sq_sqrt (hp.nonneg i)
    have h2 := Real.sq_sqrt (hq.nonneg i)
    nlinarith [h1, h2]
  simp only [this, Finset.sum_add_distrib, hp.sum_one, hq.sum_one, ← Finset.mul_sum, bc]
  ring

/-- `√F ≤ 1` -/
theorem bc_le_one {p q : ι → ℝ} (hp : IsProb p) (hq : IsProb q) : bc p q ≤ 1 := by
  have h := sum_sq_diff hp hq
  have : 0 ≤ ∑ i, (Real.sqrt (p i) - Real.sqrt (q i)) ^ 2 := Finset.sum_nonneg fun _ _ => sq_nonneg _
  linarith

/-- **`0 ≤ F ≤ 1`** -/
theorem F_range {p q : ι → ℝ} (hp : IsProb p) (hq : IsProb q) : 0 ≤ F p q ∧ F p q ≤ 1 := by
  refine ⟨sq_nonneg _, ?_⟩
  have h0 := bc_nonneg p q
  have h1 := bc_le_one hp hq
  unfold F; nlinarith

/-- **`F` is symmetric** -/
theorem F_symm (p q : ι → ℝ) : F p q = F q p := by unfold F; rw [bc_comm]

/-- **`F = 1 ↔ p = q`** -/
theorem F_eq_one_iff {p q : ι → ℝ} (hp : IsProb p) (hq : IsProb q) : F p q = 1 ↔ p = q := by
  constructor
  · intro h
    have h0 := bc_nonneg p q
    have hb : bc p q = 1 := by
      unfold F at h
      have : (bc p q - 1) * (bc p q + 1) = 0 := by nlinarith
      rcases mul_eq_zero.1 this with h' | h'
      · linarith
      · linarith
    have hs := sum_sq_diff hp hq
    rw [hb] at hs
    have hz : ∀ i ∈ (Finset.univ : Finset ι), (Real.sqrt (p i) - Real.sqrt (q i)) ^ 2 = 0 := by
      apply (Finset.sum_eq_zero_iff_of_nonneg fun _ _ => sq_nonneg _).1
      linarith
    funext i
    have := hz i (Finset.mem_univ i)
    have e : Real.sqrt (p i) = Real.sqrt (q i) := by
      have := pow_eq_zero_iff (two_ne_zero) |>.1 this
      linarith
    calc p i = Real.sqrt (p i) ^ 2 := (Real.sq_sqrt (hp.nonneg i)).symm
      _ = Real.sqrt (q i) ^ 2 := by rw [e]
      _ = q i := Real.sq_sqrt (hq.nonneg i)
  · intro h
    subst h
    unfold F bc
    have : ∀ i, Real.sqrt (p i * p i) = p i := fun i => Real.sqrt_mul_self (hp.nonneg i)
    simp only [this, hp.sum_one]; norm_num

/-! ### trace distance: a metric bounded by 1 -/

theorem T_nonneg (p q : ι → ℝ) : 0 ≤ T p q := by
  unfold T; have : 0 ≤ ∑ i, |p i - q i| := Finset.sum_nonneg fun _ _ => abs_nonneg _
  linarith

theorem T_symm (p q : ι → ℝ) : T p q = T q p := by
  unfold T; congr 1; apply Finset.sum_congr rfl; intro i _; exact abs_sub_comm _ _

theorem T_self (p : ι → ℝ) : T p p = 0 := by simp [T]

theorem T_eq_zero_iff (p q : ι → ℝ) : T p q = 0 ↔ p = q := by
  constructor
  · intro h
    have hs : ∑ i, |p i - q i| = 0 := by unfold T at h; linarith
    have hz := (Finset.sum_eq_zero_iff_of_nonneg fun i _ => abs_nonneg (p i - q i)).1 hs
    funext i
    have := abs_eq_zero.1 (hz i (Finset.mem_univ i))
    linarith
  · intro h; subst h; exact T_self p

theorem T_triangle (p q r : ι → ℝ) : T p r ≤ T p q + T q r := by
  unfold T
  have : ∑ i, |p i - r i| ≤ ∑ i, (|p i - q i| + |q i - r i|) := by
    apply Finset.sum_le_sum; intro i _
    have := abs_sub_le (p i) (q i) (r i)
    exact this
  rw [Finset.sum_add_distrib] at this
  linarith

theorem T_le_one {p q : ι → ℝ} (hp : IsProb p) (hq : IsProb q) : T p q ≤ 1 := by
  unfold T
  have : ∑ i, |p i - q i| ≤ ∑ i, (p i + q i) := by
    apply Finset.sum_le_sum; intro i _
    have h1 := hp.nonneg i; have h2 := hq.nonneg i
    rw [abs_le]; constructor <;> linarith
  rw [Finset.sum_add_distrib, hp.sum_one, hq.sum_one] at this
  linarith

/-! ### Fuchs – van de Graaf for commuting pairs -/

theorem abs_diff_factor {a b : ℝ} (ha : 0 ≤ a) (hb : 0 ≤ b) :
    |a - b| = |Real.sqrt a - Real.sqrt b| * (Real.sqrt a + Real.sqrt b) := by
  have h1 := Real.sq_sqrt ha
  have h2 := Real.sq_sqrt hb
  have hs : 0 ≤ Real.sqrt a + Real.sqrt b := add_nonneg (Real.sqrt_nonneg _) (Real.sqrt_nonneg _)
  have : a - b = (Real.sqrt a - Real.sqrt b) * (Real.sqrt a + Real.sqrt b) := by nlinarith
  rw [this, abs_mul, abs_of_nonneg hs]

/-- **lower bound `1 − √F ≤ T`** -/
theorem fvdg_lower {p q : ι → ℝ} (hp : IsProb p) (hq : IsProb q) : 1 - bc p q ≤ T p q := by
  have key : ∀ i, (Real.sqrt (p i) - Real.sqrt (q i)) ^ 2 ≤ |p i - q i| := by
    intro i
    rw [abs_diff_factor (hp.nonneg i) (hq.nonneg i)]
    have h1 : |Real.sqrt (p i) - Real.sqrt (q i)| ≤ Real.sqrt (p i) + Real.sqrt (q i) := by
      rw [abs_le]; constructor <;> linarith [Real.sqrt_nonneg (p i), Real.sqrt_nonneg (q i)]
    have h0 : 0 ≤ |Real.sqrt (p i) - Real.sqrt (q i)| := abs_nonneg _
    calc (Real.sqrt (p i) - Real.sqrt (q i)) ^ 2 = |Real.sqrt (p i) - Real.sqrt (q i)| * |Real.sqrt (p i) - Real.sqrt (q i)| := by
            rw [abs_mul_abs_self]; ring
      _ ≤ |Real.sqrt (p i) - Real.sqrt (q i)| * (Real.sqrt (p i) + Real.sqrt (q i)) :=
            mul_le_mul_of_nonneg_left h1 h0
  have hsum : ∑ i, (Real.sqrt (p i) - Real.sqrt (q i)) ^ 2 ≤ ∑ i, |p i - q i| :=
    Finset.sum_le_sum fun i _ => key i
  rw [sum_sq_diff hp hq] at hsum
  unfold T; linarith

/-- **upper bound `T ≤ √(1 − F)`** (Cauchy–Schwarz) -/
theorem fvdg_upper {p q : ι → ℝ} (hp : IsProb p) (hq : IsProb q) : T p q ≤ Real.sqrt (1 - F p q) := by
  have hcs := Finset.sum_mul_sq_le_sq_mul_sq (Finset.univ : Finset ι)
    (fun i => |Real.sqrt (p i) - Real.sqrt (q i)|) (fun i => Real.sqrt (p i) + Real.sqrt (q i))
  have e1 : ∑ i, |Real.sqrt (p i) - Real.sqrt (q i)| * (Real.sqrt (p i) + Real.sqrt (q i)) = ∑ i, |p i - q i| :=
    Finset.sum_congr rfl fun i _ => (abs_diff_factor (hp.nonneg i) (hq.nonneg i)).symm
  have e2 : ∑ i, |Real.sqrt (p i) - Real.sqrt (q i)| ^ 2 = 2 - 2 * bc p q := by
    rw [← sum_sq_diff hp hq]; apply Finset.sum_congr rfl; intro i _; exact sq_abs _
  rw [e1, e2, sum_sq_sum hp hq] at hcs
  have hT : (T p q) ^ 2 ≤ 1 - F p q := by
    unfold T F; nlinarith
  have h0 := T_nonneg p q
  have h1 : 0 ≤ 1 - F p q := by linarith [(F_range hp hq).2]
  rw [Real.le_sqrt h0 h1]; exact hT

/-- `√F` is the Bhattacharyya coefficient -/
theorem sqrt_F (p q : ι → ℝ) : Real.sqrt (F p q) = bc p q := by
  unfold F; exact Real.sqrt_sq (bc_nonneg p q)

/-- **Fuchs – van de Graaf**: `1 − √F ≤ T ≤ √(1 − F)` -/
theorem fuchs_van_de_graaf {p q : ι → ℝ} (hp : IsProb p) (hq : IsProb q) :
    1 - Real.sqrt (F p q) ≤ T p q ∧ T p q ≤ Real.sqrt (1 - F p q) := by
  rw [sqrt_F]; exact ⟨fvdg_lower hp hq, fvdg_upper hp hq⟩

end Graphiq.Commuting
