/-
  Proofs/SolverCompleteTrm.lean — completeness of the time-reversed solver, part 4: the time-reversed measurement.

  * `echelon_row_at`: in an echelon tableau, a group element that is trivial left of `p` and non-trivial at `p` forces a generator
    whose leading site is `p` (echelon lemma, `echelon_support`).
  * `trm_notProd`, `trm_xx`: after `H_E ; CNOT(E → p)` on a tableau whose group contains `+Z_E` (a free emitter), photon `p` is
    still not a product qubit, and the group contains `X_E X_p` — so after the next `rref` there is a generator starting at `p`.
  * `timeReversedMeasurement_ok`: `_time_reversed_measurement` RETURNS as soon as some generator acts on no photon
    (`assert len(possible_generators) > 0`) and no generator is the identity; its effect is gates on the emitters, then
    `H_E ; CNOT(E → photon)` with `+Z_E` in the group.
-/
import GraphiqModel.Proofs.SolverCompleteReach
import GraphiqModel.Proofs.SolverCompleteHelpers
namespace Graphiq.Solver
open Graphiq Graphiq.Cliff PRow STab Module

/-! ### group elements as products of selected generators -/

/-- every element of the group has the bits of a product of selected generators -/
theorem spn_combo (t : STab) (a : PRow) (h : t.Spn a) :
    ∃ S : Nat → Bool, ∀ j, j < t.n → t.comboX S j = a.x j ∧ t.comboZ S j = a.z j := by
  have hm : a.vec t.n ∈ t.gspace := inSpan_vec_mem t.n t.row a h
  obtain ⟨c, hc⟩ := (Submodule.mem_span_range_iff_exists_fun (ZMod 2)).1 hm
  refine ⟨selOf c, fun j hj => ?_⟩
  have := lincomb_apply' t c ⟨j, hj⟩
  rw [hc] at this
  have h1 : b2z (a.x j) = b2z (t.comboX (selOf c) j) := congrArg Prod.fst this
  have h2 : b2z (a.z j) = b2z (t.comboZ (selOf c) j) := congrArg Prod.snd this
  exact ⟨(b2z_inj_lin _ _ h1).symm, (b2z_inj_lin _ _ h2).symm⟩

/-- **echelon lemma, existence form**: a group element trivial on the sites `< p` and non-trivial at `p` forces a generator of the
    echelon tableau whose leading site is exactly `p` -/
theorem echelon_row_at (t : STab) (piv : Nat → Nat) (he : Echelon t piv) (p : Nat) (hp : p < t.n) (a : PRow) (ha : t.Spn a)
    (hlow : ∀ j, j < p → a.x j = false ∧ a.z j = false) (hnt : (a.x p || a.z p) = true) :
    ∃ i, i < t.n ∧ piv i = p := by
  obtain ⟨S, hS⟩ := spn_combo t a ha
  have hge : ∀ i, i < t.n → S i = true → p ≤ piv i := by
    intro i hi hSi
    by_cases hp0 : p = 0
    · omega
    · have := echelon_support t piv he S (p - 1) (fun j hj hjn => by
        have := hS j hjn
        have hl := hlow j (by omega)
        exact ⟨this.1.trans hl.1, this.2.trans hl.2⟩) i hi hSi
      omega
  apply Classical.byContradiction
  intro hno
  have hz : ∀ i, i < t.n → S i = true → (t.row i).x p = false ∧ (t.row i).z p = false := by
    intro i hi hSi
    have h1 := hge i hi hSi
    have h2 : piv i ≠ p := fun e => hno ⟨i, hi, e⟩
    exact PRow.pt_zero_bits _ _ ((he.lead i hi).2.1 p (by omega))
  have hx : t.comboX S p = false := by
    apply parityTo_zero
    intro i hi
    cases hSi : S i
    · rfl
    · simp [(hz i hi hSi).1]
  have hzz : t.comboZ S p = false := by
    apply parityTo_zero
    intro i hi
    cases hSi : S i
    · rfl
    · simp [(hz i hi hSi).2]
  have := hS p hp
  rw [← this.1, ← this.2, hx, hzz] at hnt
  cases hnt

/-! ### `H_E ; CNOT(E → p)` with `+Z_E` in the group -/

/-- the tableau after the two gates of the time-reversed measurement -/
def trmTab (t : STab) (E p : Nat) : STab := ((((t.applyGate (.H E)).norm).applyGate (.CNOT E p)).norm)

theorem trmTab_n (t : STab) (E p : Nat) : (trmTab t E p).n = t.n := rfl

/-- every element of the new group is the image of an element of the old group -/
theorem trmTab_bwd (t : STab) (E p : Nat) (hE : E < t.n) (hp : p < t.n) (hEp : E ≠ p) (b : PRow) (hb : (trmTab t E p).Spn b) :
    ∃ a, t.Spn a ∧ EqOn t.n (PRow.cnot E p (PRow.h E a)) b := by
  have hb1 := (norm_spanEq (((t.applyGate (.H E)).norm).applyGate (.CNOT E p))).sup b hb
  obtain ⟨a1, ha1, e1⟩ := applyGate_bwd ((t.applyGate (.H E)).norm) (.CNOT E p) ⟨hE, hp, hEp⟩ b hb1
  have ha1' := (norm_spanEq (t.applyGate (.H E))).sup a1 ha1
  obtain ⟨a, ha, e0⟩ := applyGate_bwd t (.H E) hE a1 ha1'
  refine ⟨a, ha, ?_⟩
  exact ((isAut_cnot t.n E p hE hp hEp).congr _ _ e0).trans e1

theorem trmTab_fwd (t : STab) (E p : Nat) (hE : E < t.n) (hp : p < t.n) (hEp : E ≠ p) (a : PRow) (ha : t.Spn a) :
    (trmTab t E p).Spn (PRow.cnot E p (PRow.h E a)) := by
  have h1 := (norm_spanEq (t.applyGate (.H E))).sub _ (applyGate_fwd t (.H E) hE a ha)
  have h2 := applyGate_fwd ((t.applyGate (.H E)).norm) (.CNOT E p) ⟨hE, hp, hEp⟩ _ h1
  exact (norm_spanEq _).sub _ h2

theorem trm_bits_x (E p j : Nat) (a : PRow) (hEp : E ≠ p) :
    (PRow.cnot E p (PRow.h E a)).x j = if j = p then xor (a.x p) (a.z E) else if j = E then a.z E else a.x j := by
  have hpE : p ≠ E := fun e => hEp e.symm
  by_cases h1 : j = p
  · subst h1; simp [PRow.cnot, PRow.h, hpE]
  · by_cases h2 : j = E
    · subst h2; simp [PRow.cnot, PRow.h, h1]
    · simp [PRow.cnot, PRow.h, h1, h2]

theorem trm_bits_z (E p j : Nat) (a : PRow) (hEp : E ≠ p) :
    (PRow.cnot E p (PRow.h E a)).z j = if j = E then xor (a.x E) (a.z p) else a.z j := by
  have hpE : p ≠ E := fun e => hEp e.symm
  by_cases h2 : j = E
  · subst h2; simp [PRow.cnot, PRow.h, hpE]
  · simp [PRow.cnot, PRow.h, h2]

/-- **the time-reversed measurement keeps photon `p` a non-product qubit** (the emitter `E` is free: `+Z_E` is in the group) -/
theorem trm_notProd (t : STab) (E p : Nat) (hE : E < t.n) (hp : p < t.n) (hEp : E ≠ p) (hg : t.Good)
    (hZ : t.Spn (Zq E)) (hnp : t.NotProd p) : (trmTab t E p).NotProd p := by
  intro b hb hs
  obtain ⟨a, ha, e⟩ := trmTab_bwd t E p hE hp hEp b hb
  have hxE : a.x E = false := by
    have := spn_comm t hg a _ ha hZ
    rw [sp_Zq _ _ _ _ hE] at this; exact this
  have hbE := hs E hE hEp
  have c1 := (e.1 E hE).1
  have c2 := (e.1 E hE).2
  rw [trm_bits_x E p E a hEp, if_neg hEp, if_pos rfl] at c1
  rw [trm_bits_z E p E a hEp, if_pos rfl] at c2
  have hzE : a.z E = false := c1.trans hbE.1
  have hzp : a.z p = false := by
    have : xor (a.x E) (a.z p) = false := c2.trans hbE.2
    rw [hxE] at this; simpa using this
  have hoff : ∀ j, j < t.n → j ≠ p → a.x j = false ∧ a.z j = false := by
    intro j hj hjp
    by_cases hjE : j = E
    · rw [hjE]; exact ⟨hxE, hzE⟩
    · have d1 := (e.1 j hj).1
      have d2 := (e.1 j hj).2
      rw [trm_bits_x E p j a hEp, if_neg hjp, if_neg hjE] at d1
      rw [trm_bits_z E p j a hEp, if_neg hjE] at d2
      have := hs j hj hjp
      exact ⟨d1.trans this.1, d2.trans this.2⟩
  have hap := hnp a ha hoff
  have f1 := (e.1 p hp).1
  have f2 := (e.1 p hp).2
  have hpE : p ≠ E := fun e => hEp e.symm
  rw [trm_bits_x E p p a hEp, if_pos rfl, hap.1, hzE] at f1
  rw [trm_bits_z E p p a hEp, if_neg hpE] at f2
  exact ⟨f1.symm, f2.symm.trans hzp⟩

/-- after the two gates the group contains `X_E X_p` (the image of `+Z_E`): an element trivial left of `p` and non-trivial at `p` -/
theorem trm_xx (t : STab) (E p : Nat) (hE : E < t.n) (hp : p < t.n) (hpE : p < E) (hZ : t.Spn (Zq E)) :
    ∃ a, (trmTab t E p).Spn a ∧ (∀ j, j < p → a.x j = false ∧ a.z j = false) ∧ (a.x p || a.z p) = true := by
  have hEp : E ≠ p := by omega
  refine ⟨_, trmTab_fwd t E p hE hp hEp _ hZ, ?_, ?_⟩
  · intro j hj
    rw [trm_bits_x E p j _ hEp, trm_bits_z E p j _ hEp, if_neg (by omega), if_neg (by omega), if_neg (by omega)]
    refine ⟨rfl, ?_⟩
    show decide (j = E) = false
    simp; omega
  · rw [trm_bits_x E p p _ hEp, if_pos rfl]
    show (xor false (decide (E = E)) || _) = true
    simp

/-! ### `_time_reversed_measurement` returns -/

/-- **`_time_reversed_measurement` returns** when some generator acts on no photon (then `possible_generators` is non-empty) and no
    generator is the identity (then the chosen generator acts on some emitter).  What it does to the tableau: gates on emitter columns
    reaching a tableau `t3` whose group contains `+Z` on the chosen emitter, then `H` on that emitter and `CNOT(emitter → photon)`. -/
theorem timeReversedMeasurement_ok (s : St) (photon : Nat) (hn : s.t.n = s.np + s.ne) (hg : s.t.Good)
    (hex : ∃ i, i < s.t.n ∧ ∀ j, j < s.np → s.t.ptype i j = 0)
    (hnz : ∀ i, i < s.t.n → ∃ j, j < s.t.n ∧ s.t.ptype i j ≠ 0) :
    ∃ s' t3 e, timeReversedMeasurement s photon = .ok s' ∧ s'.np = s.np ∧ s'.ne = s.ne ∧ e < s.ne ∧
      GVia (fun c => s.np ≤ c) s.t t3 ∧ t3.Spn (Zq (s.np + e)) ∧ s'.t = trmTab t3 (s.np + e) photon := by
  unfold timeReversedMeasurement
  simp only
  cases hc : ((List.range s.t.n).filter fun i => (List.range s.np).all fun j => !(s.t.row i).x j && !(s.t.row i).z j) with
  | nil =>
    exfalso
    obtain ⟨i, hi, hz⟩ := hex
    have : i ∈ ((List.range s.t.n).filter fun i => (List.range s.np).all fun j => !(s.t.row i).x j && !(s.t.row i).z j) := by
      simp only [List.mem_filter, List.mem_range, List.all_eq_true, Bool.and_eq_true, Bool.not_eq_true']
      exact ⟨hi, fun j hj => PRow.pt_zero_bits _ _ (hz j hj)⟩
    rw [hc] at this; cases this
  | cons g grest =>
    simp only
    have hgm : g ∈ ((List.range s.t.n).filter fun i => (List.range s.np).all fun j => !(s.t.row i).x j && !(s.t.row i).z j) := by
      rw [hc]; exact List.mem_cons_self
    simp only [List.mem_filter, List.mem_range, List.all_eq_true, Bool.and_eq_true, Bool.not_eq_true'] at hgm
    obtain ⟨hgn, hphot⟩ := hgm
    cases hem : emitterIndices s g with
    | nil =>
      exfalso
      obtain ⟨j, hj, hjnz⟩ := hnz g hgn
      have hjp : ¬ j < s.np := fun h => hjnz (PRow.pt_of_bits _ _ (hphot j h).1 (hphot j h).2)
      have : j - s.np ∈ emitterIndices s g := by
        simp only [emitterIndices, List.mem_filter, List.mem_range]
        refine ⟨by omega, ?_⟩
        have e : s.np + (j - s.np) = j := by omega
        rw [e]
        cases hb : ((s.t.row g).x j || (s.t.row g).z j)
        · exact absurd ((PRow.pt_eq_zero_iff _ _).2 hb) hjnz
        · rfl
      rw [hem] at this; cases this
    | cons e erest =>
      simp only
      have hee : e ∈ emitterIndices s g := by rw [hem]; exact List.mem_cons_self
      have hene : e < s.ne := by
        have := hee
        simp only [emitterIndices, List.mem_filter, List.mem_range] at this
        exact this.1
      obtain ⟨s1, h1, v1⟩ := allEmittersToZ_ok s g true hn
      have z1 := allEmittersToZ_row s s1 g true hn hgn h1
      have hn1 : s1.t.n = s1.np + s1.ne := by rw [z1.n_eq, z1.np_eq, z1.ne_eq]; exact hn
      have hx1 : ∀ j, j < s1.t.n → (s1.t.row g).x j = false := by
        intro j hj
        rw [z1.n_eq] at hj
        by_cases hjp : j < s.np
        · rw [(z1.rest j hj (Or.inl hjp)).1]; exact (hphot j hjp).1
        · have hj' : j = s.np + (j - s.np) := by omega
          rw [hj']; exact (z1.done (j - s.np) (by omega)).1
      obtain ⟨s2, h2, v2⟩ := transformGeneratorEmitters_ok s1 g e hn1 (by rw [z1.ne_eq]; exact hene) hx1
      have k2 := keeps_transformGeneratorEmitters s1 s2 g e h2
      have hn2 : s2.t.n = s2.np + s2.ne := by rw [v2.n_eq, k2.np_eq, k2.ne_eq]; exact hn1
      obtain ⟨s3, h3, v3⟩ := fixSign_ok s2 g e hn2 (by rw [k2.ne_eq, z1.ne_eq]; exact hene)
      obtain ⟨hrow, hn3, hnp3, hne3⟩ := singleOut_row s s1 s2 s3 g e hn hgn (hg.real g hgn) hphot hee h1 h2 h3
      rw [h1]; simp only
      rw [h2]; simp only
      rw [h3]; simp only
      refine ⟨_, s3.t, e, rfl, hnp3, hne3, hene, ?_, ?_, rfl⟩
      · refine v1.trans (GVia.trans (v2.mono (fun c hc => by rw [← z1.np_eq]; exact hc)) (v3.mono (fun c hc => ?_)))
        rw [← z1.np_eq, ← k2.np_eq]; exact hc
      · refine Tab.InSpan.eqv _ _ (spn_gen s3.t g (by rw [hn3]; exact hgn)) ?_
        rw [hn3, hn]; exact hrow

end Graphiq.Solver
