/-
  Proofs/InnerProductExec.lean — the brute-force executable specification (Model/OverlapSpec.lean) decides the
  specification predicates: `orthB a b = true ↔ Orth a b`, and `commonB a b ma = true ↔` the subset product `ma` of
  `a`'s rows lies in the group of `b`.  All sizes (the enumeration is exponential; the driver uses it for n ≤ 3).
-/
import GraphiqModel.Model.OverlapSpec
import GraphiqModel.Proofs.InnerProduct
namespace Graphiq
open PRow Tab
namespace STab

theorem mprod_eq_sprod (n : Nat) (row : Nat → PRow) (mask m : Nat) :
    mprod n row mask m = sprod n row (fun i => mask.testBit i) m := by
  induction m with
  | zero => rfl
  | succ k ih => simp only [mprod, sprod, ih]

/-- every subset of `{0..n-1}` is the bit pattern of a number below `2^n` -/
theorem mask_of_subset (n : Nat) (S : Nat → Bool) : ∃ m, m < 2 ^ n ∧ ∀ i, i < n → m.testBit i = S i := by
  induction n with
  | zero => exact ⟨0, by decide, fun i hi => by omega⟩
  | succ k ih =>
    obtain ⟨m, hm, hb⟩ := ih
    cases hS : S k
    · refine ⟨m, by rw [Nat.pow_succ]; omega, fun i hi => ?_⟩
      by_cases hik : i = k
      · subst hik; rw [hS]; exact Nat.testBit_lt_two_pow hm
      · exact hb i (by omega)
    · refine ⟨2 ^ k + m, by rw [Nat.pow_succ]; omega, fun i hi => ?_⟩
      by_cases hik : i = k
      · subst hik; rw [hS, Nat.testBit_two_pow_add_eq, Nat.testBit_lt_two_pow hm]; rfl
      · have hlt : i < k := by omega
        rw [Nat.testBit_two_pow_add_gt hlt]; exact hb i hlt

/-- membership in the signed group of a real commuting tableau = being one of the `2^n` subset products -/
theorem spn_iff_mask (t : STab) (hg : t.Good) (g : PRow) :
    t.Spn g ↔ ∃ m, m < 2 ^ t.n ∧ EqOn t.n g (mprod t.n t.row m t.n) := by
  constructor
  · intro h
    obtain ⟨S, hS⟩ := spn_repr t hg g h
    obtain ⟨m, hm, hb⟩ := mask_of_subset t.n S
    refine ⟨m, hm, ?_⟩
    rw [mprod_eq_sprod, sprod_congr t.n t.row _ S t.n hb]
    exact hS
  · rintro ⟨m, _, e⟩
    rw [mprod_eq_sprod] at e
    exact InSpan.eqv _ _ (sprod_spn t _ t.n (Nat.le_refl _)) e.symm

/-- **the executable orthogonality test is exact** -/
theorem orthB_iff (a b : STab) (ga : a.Good) (gb : b.Good) (hn : a.n = b.n) : a.orthB b = true ↔ Orth a b := by
  unfold orthB
  simp only [List.any_eq_true, List.mem_range]
  constructor
  · rintro ⟨ma, hma, mb, hmb, he⟩
    have e := beqOn_eqOn _ _ _ he
    refine ⟨mprod a.n a.row ma a.n, (spn_iff_mask a ga _).2 ⟨ma, hma, EqOn.refl _ _⟩, ?_⟩
    have hb : b.Spn (mprod a.n b.row mb a.n) := by
      rw [hn] at hmb ⊢
      exact (spn_iff_mask b gb _).2 ⟨mb, hmb, EqOn.refl _ _⟩
    have e2 : EqOn a.n (PRow.neg (mprod a.n a.row ma a.n)) (mprod a.n b.row mb a.n) := by
      have := neg_congr a.n _ _ e
      rw [show ({ (mprod a.n b.row mb a.n) with r := !(mprod a.n b.row mb a.n).r } : PRow)
        = PRow.neg (mprod a.n b.row mb a.n) from rfl, neg_neg] at this
      exact this
    unfold Spn at hb ⊢
    rw [← hn] at hb ⊢
    exact InSpan.eqv _ _ hb e2.symm
  · rintro ⟨P, hA, hB⟩
    obtain ⟨ma, hma, ea⟩ := (spn_iff_mask a ga P).1 hA
    obtain ⟨mb, hmb, eb⟩ := (spn_iff_mask b gb _).1 hB
    rw [← hn] at hmb eb
    refine ⟨ma, hma, mb, hmb, eqOn_beqOn _ _ _ ?_⟩
    show EqOn a.n (mprod a.n a.row ma a.n) (PRow.neg (mprod a.n b.row mb a.n))
    have := neg_congr a.n _ _ eb
    rw [neg_neg] at this
    exact ea.symm.trans this

/-- **the executable membership test is exact**: the subset product `ma` of `a`'s rows lies in the group of `b` -/
theorem commonB_iff (a b : STab) (gb : b.Good) (hn : a.n = b.n) (ma : Nat) :
    a.commonB b ma = true ↔ b.Spn (mprod a.n a.row ma a.n) := by
  unfold commonB
  simp only [List.any_eq_true, List.mem_range]
  constructor
  · rintro ⟨mb, hmb, he⟩
    have e := beqOn_eqOn _ _ _ he
    refine (spn_iff_mask b gb _).2 ?_
    rw [← hn]
    exact ⟨mb, hmb, e⟩
  · intro h
    obtain ⟨mb, hmb, eb⟩ := (spn_iff_mask b gb _).1 h
    rw [← hn] at hmb eb
    exact ⟨mb, hmb, eqOn_beqOn _ _ _ eb⟩

end STab
end Graphiq
