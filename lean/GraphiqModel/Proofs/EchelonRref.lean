/-
  Proofs/EchelonRref.lean — `rref` (stabilizer.py) returns a tableau in echelon form and keeps the signed group.
  Part 2: what one call of `one_step_rref` does (`StepSpec`), the loop invariant of `rref`, and the final theorems
  `rref_echelon`, `rref_spanEq`.  All sizes; core Lean only.
-/
import GraphiqModel.Proofs.Echelon
namespace Graphiq
open PRow
namespace STab

/-- what one successful call of `one_step_rref(tableau, [pr, pc])` guarantees about the new tableau `t'` and pivot row `pr'` -/
structure StepSpec (t t' : STab) (pr pc pr' : Nat) : Prop where
  ops : Ops pr t t'
  le : pr ≤ pr' ∧ pr' ≤ pr + 2 ∧ pr' ≤ t.n
  lead : ∀ i, pr ≤ i → i < pr' → t'.ptype i pc ≠ 0
  rest : ∀ i, pr' ≤ i → i < t.n → t'.ptype i pc = 0
  two : pr' = pr + 2 → t'.ptype pr pc ≠ t'.ptype (pr + 1) pc

theorem type_trich (t : STab) (pr pc i : Nat) (hi : pr ≤ i) (hin : i < t.n) :
    t.ptype i pc = 0 ∨ i ∈ t.pickType pr pc 1 ∨ i ∈ t.pickType pr pc 2 ∨ i ∈ t.pickType pr pc 3 := by
  have h := ptype_le t i pc
  simp only [mem_pickType_iff]
  have c1 : tyCode 1 = 1 := rfl
  have c2 : tyCode 2 = 2 := rfl
  have c3 : tyCode 3 = 3 := rfl
  rw [c1, c2, c3]
  omega

theorem step_none (t : STab) (pr pc : Nat) (hpr : pr < t.n)
    (h1 : t.pickType pr pc 1 = []) (h2 : t.pickType pr pc 2 = []) (h3 : t.pickType pr pc 3 = []) :
    StepSpec t t pr pc pr := by
  refine ⟨Ops.refl, ⟨Nat.le_refl _, by omega, by omega⟩, fun i a b => by omega, ?_, fun h => by omega⟩
  intro i hi hin
  rcases type_trich t pr pc i hi hin with h | h | h | h
  · exact h
  · rw [h1] at h; cases h
  · rw [h2] at h; cases h
  · rw [h3] at h; cases h

theorem step_one (t : STab) (pr pc ty : Nat) (hpc : pc < t.n) (hty : ty = 1 ∨ ty = 2 ∨ ty = 3)
    (hne : t.pickType pr pc ty ≠ [])
    (hoth : ∀ ty', (ty' = 1 ∨ ty' = 2 ∨ ty' = 3) → ty' ≠ ty → t.pickType pr pc ty' = []) :
    StepSpec t (t.processOne pr (t.pickType pr pc ty)) pr pc (pr + 1) := by
  have hc : tyCode ty = ty := by rcases hty with e | e | e <;> subst e <;> rfl
  have hl : ∀ i, i ∈ t.pickType pr pc ty ↔ pr ≤ i ∧ i < t.n ∧ t.ptype i pc = ty := by
    intro i; rw [mem_pickType_iff, hc]
  have hex : ∃ f, f ∈ t.pickType pr pc ty := by
    cases h : t.pickType pr pc ty with
    | nil => exact absurd h hne
    | cons f r => exact ⟨f, List.mem_cons_self⟩
  obtain ⟨f, hf⟩ := hex
  have hfb := (hl f).1 hf
  have hoth' : ∀ i, pr ≤ i → i < t.n → t.ptype i pc = ty ∨ t.ptype i pc = 0 := by
    intro i hi hin
    rcases type_trich t pr pc i hi hin with h | h | h | h
    · exact Or.inr h
    · by_cases e : (1 : Nat) = ty
      · left; rw [← e]; exact ((mem_pickType_iff t pr pc 1 i).1 h).2.2
      · rw [hoth 1 (Or.inl rfl) e] at h; cases h
    · by_cases e : (2 : Nat) = ty
      · left; rw [← e]; exact ((mem_pickType_iff t pr pc 2 i).1 h).2.2
      · rw [hoth 2 (Or.inr (Or.inl rfl)) e] at h; cases h
    · by_cases e : (3 : Nat) = ty
      · left; rw [← e]; exact ((mem_pickType_iff t pr pc 3 i).1 h).2.2
      · rw [hoth 3 (Or.inr (Or.inr rfl)) e] at h; cases h
  have col := processOne_col t pr pc ty (t.pickType pr pc ty) hpc hl (pickType_sorted t pr pc ty) hne hoth'
  refine ⟨processOne_ops t pr _ (pickType_sorted t pr pc ty) (fun i hi => ⟨((hl i).1 hi).1, ((hl i).1 hi).2.1⟩),
    ⟨by omega, by omega, by omega⟩, ?_, ?_, fun h => by omega⟩
  · intro i h1 h2
    have : i = pr := by omega
    subst this
    rw [col.1]; rcases hty with e | e | e <;> omega
  · intro i h1 h2
    exact col.2 i (by omega) h2

theorem step_two (t t' : STab) (pr pc ty1 ty2 ty3 : Nat) (hpc : pc < t.n)
    (hty : (ty1 = 2 ∧ ty2 = 3 ∧ ty3 = 1) ∨ (ty1 = 1 ∧ ty2 = 3 ∧ ty3 = 2) ∨ (ty1 = 1 ∧ ty2 = 2 ∧ ty3 = 3))
    (h3 : t.pickType pr pc ty3 = []) (hr : t.processTwo pr pc ty1 ty2 = some t') :
    StepSpec t t' pr pc (pr + 2) := by
  have hc : tyCode ty1 = ty1 ∧ tyCode ty2 = ty2 ∧ tyCode ty3 = ty3 ∧ ty1 ≠ ty2 ∧ ty1 ≠ 0 ∧ ty2 ≠ 0 ∧ ty1 + ty2 + ty3 = 6 := by
    rcases hty with ⟨a, b, c⟩ | ⟨a, b, c⟩ | ⟨a, b, c⟩ <;> subst a <;> subst b <;> subst c <;> decide
  obtain ⟨c1, c2, c3, hne, p1, p2, hsum⟩ := hc
  have col := processTwo_col t t' pr pc ty1 ty2 hpc (by rw [c1, c2]; exact hne) hr
  rw [c1, c2] at col
  have hn := processTwo_n t t' pr pc ty1 ty2 hr
  refine ⟨processTwo_ops t t' pr pc ty1 ty2 hr, ⟨by omega, by omega, by omega⟩, ?_, ?_, ?_⟩
  · intro i h1 h2
    have : i = pr ∨ i = pr + 1 := by omega
    rcases this with e | e <;> subst e
    · rw [col.1]; exact p1
    · rw [col.2.1]; exact p2
  · intro i h1 h2
    rcases col.2.2 i h1 h2 with h | ⟨n1, n2, k, hk1, hk2, hk⟩
    · exact h
    · have hk3 : t.ptype k pc ≠ ty3 := by
        intro e
        have : k ∈ t.pickType pr pc ty3 := (mem_pickType_iff t pr pc ty3 k).2 ⟨hk1, hk2, by rw [c3]; exact e⟩
        rw [h3] at this; cases this
      have hle := ptype_le t k pc
      rw [hk] at n1 n2 ⊢
      rcases hty with ⟨a, b, c⟩ | ⟨a, b, c⟩ | ⟨a, b, c⟩ <;> subst a <;> subst b <;> subst c <;> omega
  · intro _
    rw [col.1, col.2.1]; exact hne

theorem step_three (t t1 : STab) (pr pc : Nat) (hpc : pc < t.n) (hr : t.processTwo pr pc 1 3 = some t1) :
    StepSpec t ((t1.pickType pr pc 2).foldl (fun acc k => (acc.rowSum pr k).rowSum (pr + 1) k) t1).norm pr pc (pr + 2) := by
  have col := processTwo_col t t1 pr pc 1 3 hpc (by decide) hr
  have c1 : tyCode 1 = 1 := rfl
  have c3 : tyCode 3 = 3 := rfl
  rw [c1, c3] at col
  have hn := processTwo_n t t1 pr pc 1 3 hr
  have o1 := processTwo_ops t t1 pr pc 1 3 hr
  have hm : ∀ i, i ∈ t1.pickType pr pc 2 ↔ pr ≤ i ∧ i < t.n ∧ t1.ptype i pc = 2 := by
    intro i; rw [mem_pickType_iff, hn.1]; rfl
  have n1 : pr ∉ t1.pickType pr pc 2 := fun h => by have := ((hm pr).1 h).2.2; omega
  have n2 : pr + 1 ∉ t1.pickType pr pc 2 := fun h => by have := ((hm (pr + 1)).1 h).2.2; omega
  have hrow := foldl_rowSum2_row pr (t1.pickType pr pc 2) t1 (pickType_sorted t1 pr pc 2) n1 n2
  have hnf : ((t1.pickType pr pc 2).foldl (fun acc k => (acc.rowSum pr k).rowSum (pr + 1) k) t1).n = t.n := by
    rw [foldl_rowSum2_n, hn.1]
  have hpt : ∀ i, i < t.n →
      (((t1.pickType pr pc 2).foldl (fun acc k => (acc.rowSum pr k).rowSum (pr + 1) k) t1).norm).ptype i pc
        = (((t1.pickType pr pc 2).foldl (fun acc k => (acc.rowSum pr k).rowSum (pr + 1) k) t1).row i).pt pc := by
    intro i hi
    rw [ptype_norm _ i pc (by rw [hnf]; exact hi) (by rw [hnf]; exact hpc)]; rfl
  have v0 : (((t1.pickType pr pc 2).foldl (fun acc k => (acc.rowSum pr k).rowSum (pr + 1) k) t1).norm).ptype pr pc = 1 := by
    rw [hpt pr (by omega), hrow pr, if_neg n1]; exact col.1
  have v1 : (((t1.pickType pr pc 2).foldl (fun acc k => (acc.rowSum pr k).rowSum (pr + 1) k) t1).norm).ptype (pr + 1) pc = 3 := by
    rw [hpt (pr + 1) hn.2, hrow (pr + 1), if_neg n2]; exact col.2.1
  refine ⟨?_, ⟨by omega, by omega, by omega⟩, ?_, ?_, ?_⟩
  · apply Ops.trans o1
    apply Ops.norm
    apply Ops.foldl_sum2 pr (Nat.le_refl _) (by rw [hn.1]; exact hn.2) _ _ t1 Ops.refl
    intro i hi
    have := (hm i).1 hi
    refine ⟨this.1, by rw [hn.1]; exact this.2.1, ?_, ?_⟩
    · intro e; subst e; exact n1 hi
    · intro e; subst e; exact n2 hi
  · intro i h1 h2
    have : i = pr ∨ i = pr + 1 := by omega
    rcases this with e | e <;> subst e
    · rw [v0]; omega
    · rw [v1]; omega
  · intro i h1 h2
    rw [hpt i h2, hrow i]
    by_cases hi : i ∈ t1.pickType pr pc 2
    · rw [if_pos hi, pt_stabMul, pt_stabMul]
      have e0 : (t1.row pr).pt pc = 1 := col.1
      have e1 : (t1.row (pr + 1)).pt pc = 3 := col.2.1
      have e2 : (t1.row i).pt pc = 2 := ((hm i).1 hi).2.2
      rw [e0, e1, e2]; decide
    · rw [if_neg hi]
      have hle := ptype_le t1 i pc
      have hne2 : t1.ptype i pc ≠ 2 := fun e => hi ((hm i).2 ⟨by omega, h2, e⟩)
      rcases col.2.2 i h1 h2 with h | ⟨a, b, _⟩
      · exact h
      · show t1.ptype i pc = 0; omega
  · intro _; rw [v0, v1]; omega

theorem isEmpty_eq_true {α : Type} (l : List α) : l.isEmpty = true ↔ l = [] := List.isEmpty_iff

/-- **one step of `rref`**: specification of `one_step_rref` -/
theorem oneStepRref_spec (t t' : STab) (pr pc pr' pc' : Nat) (b : String) (hpr : pr < t.n) (hpc : pc < t.n)
    (hr : t.oneStepRref pr pc = some (t', pr', pc', b)) : StepSpec t t' pr pc pr' ∧ pc' = pc + 1 := by
  unfold oneStepRref at hr
  have ex : (t.pauliTypeFinder pr pc).1 = t.pickType pr pc 1 := (pickType_1 t pr pc).symm
  have ey : (t.pauliTypeFinder pr pc).2.1 = t.pickType pr pc 2 := (pickType_2 t pr pc).symm
  have ez : (t.pauliTypeFinder pr pc).2.2 = t.pickType pr pc 3 := (pickType_3 t pr pc).symm
  generalize hft : t.pauliTypeFinder pr pc = ft at hr ex ey ez
  obtain ⟨xs, ys, zs⟩ := ft
  simp only at hr ex ey ez
  subst ex; subst ey; subst ez
  split at hr
  · next hc =>
    simp only [Bool.and_eq_true, isEmpty_eq_true] at hc
    simp only [Option.some.injEq, Prod.mk.injEq] at hr
    obtain ⟨rfl, rfl, rfl, _⟩ := hr
    exact ⟨step_none t pr pc hpr hc.1.1 hc.1.2 hc.2, rfl⟩
  · split at hr
    · next hc =>
      simp only [Bool.and_eq_true, isEmpty_eq_true, Bool.not_eq_true', List.isEmpty_eq_false_iff] at hc
      simp only [Option.some.injEq, Prod.mk.injEq] at hr
      obtain ⟨rfl, rfl, rfl, _⟩ := hr
      refine ⟨step_one t pr pc 1 hpc (Or.inl rfl) hc.1.1 ?_, rfl⟩
      intro ty' h1 h2
      rcases h1 with e | e | e <;> subst e
      · exact absurd rfl h2
      · exact hc.1.2
      · exact hc.2
    · split at hr
      · next hc =>
        simp only [Bool.and_eq_true, isEmpty_eq_true, Bool.not_eq_true', List.isEmpty_eq_false_iff] at hc
        simp only [Option.some.injEq, Prod.mk.injEq] at hr
        obtain ⟨rfl, rfl, rfl, _⟩ := hr
        refine ⟨step_one t pr pc 2 hpc (Or.inr (Or.inl rfl)) hc.1.1 ?_, rfl⟩
        intro ty' h1 h2
        rcases h1 with e | e | e <;> subst e
        · exact hc.1.2
        · exact absurd rfl h2
        · exact hc.2
      · split at hr
        · next hc =>
          simp only [Bool.and_eq_true, isEmpty_eq_true, Bool.not_eq_true', List.isEmpty_eq_false_iff] at hc
          simp only [Option.some.injEq, Prod.mk.injEq] at hr
          obtain ⟨rfl, rfl, rfl, _⟩ := hr
          refine ⟨step_one t pr pc 3 hpc (Or.inr (Or.inr rfl)) hc.1.1 ?_, rfl⟩
          intro ty' h1 h2
          rcases h1 with e | e | e <;> subst e
          · exact hc.1.2
          · exact hc.2
          · exact absurd rfl h2
        · split at hr
          · next hc =>
            rw [isEmpty_eq_true] at hc
            cases hpt : t.processTwo pr pc 2 3 with
            | none => rw [hpt] at hr; cases hr
            | some t2 =>
              rw [hpt] at hr
              simp only [Option.map, Option.some.injEq, Prod.mk.injEq] at hr
              obtain ⟨rfl, rfl, rfl, _⟩ := hr
              exact ⟨step_two t t2 pr pc 2 3 1 hpc (Or.inl ⟨rfl, rfl, rfl⟩) hc hpt, rfl⟩
          · split at hr
            · next hc =>
              rw [isEmpty_eq_true] at hc
              cases hpt : t.processTwo pr pc 1 3 with
              | none => rw [hpt] at hr; cases hr
              | some t2 =>
                rw [hpt] at hr
                simp only [Option.map, Option.some.injEq, Prod.mk.injEq] at hr
                obtain ⟨rfl, rfl, rfl, _⟩ := hr
                exact ⟨step_two t t2 pr pc 1 3 2 hpc (Or.inr (Or.inl ⟨rfl, rfl, rfl⟩)) hc hpt, rfl⟩
            · split at hr
              · next hc =>
                rw [isEmpty_eq_true] at hc
                cases hpt : t.processTwo pr pc 1 2 with
                | none => rw [hpt] at hr; cases hr
                | some t2 =>
                  rw [hpt] at hr
                  simp only [Option.map, Option.some.injEq, Prod.mk.injEq] at hr
                  obtain ⟨rfl, rfl, rfl, _⟩ := hr
                  exact ⟨step_two t t2 pr pc 1 2 3 hpc (Or.inr (Or.inr ⟨rfl, rfl, rfl⟩)) hc hpt, rfl⟩
              · cases hpt : t.processTwo pr pc 1 3 with
                | none => rw [hpt] at hr; cases hr
                | some t1 =>
                  rw [hpt] at hr
                  simp only [Option.some.injEq, Prod.mk.injEq] at hr
                  obtain ⟨rfl, rfl, rfl, _⟩ := hr
                  have := step_three t t1 pr pc hpc hpt
                  rw [pickType_2] at this
                  exact ⟨this, rfl⟩

/-! ### the loop invariant of `rref` -/

/-- loop invariant at pivot `[pr, pc]`: rows `< pr` are finished generators with leading sites `piv i < pc` in echelon order,
    rows `≥ pr` are trivial on the sites `< pc` -/
structure Inv (t : STab) (pr pc : Nat) (piv : Nat → Nat) : Prop where
  pr_le : pr ≤ t.n
  pc_le : pc ≤ t.n
  lead : ∀ i, i < pr → piv i < pc ∧ (∀ j, j < piv i → t.ptype i j = 0) ∧ t.ptype i (piv i) ≠ 0
  sorted : ∀ i k, i < k → k < pr →
    piv i ≤ piv k ∧ (piv i = piv k → k = i + 1 ∧ t.ptype i (piv i) ≠ t.ptype k (piv i))
  zero : ∀ i, pr ≤ i → i < t.n → ∀ j, j < pc → t.ptype i j = 0

theorem Inv.init (t : STab) : Inv t 0 0 (fun _ => 0) :=
  ⟨Nat.zero_le _, Nat.zero_le _, fun i h => by omega, fun i k _ h => by omega, fun i _ _ j h => by omega⟩

theorem Inv.step {t t' : STab} {pr pc pr' : Nat} {piv : Nat → Nat} (h : Inv t pr pc piv) (hpr : pr < t.n) (hpc : pc < t.n)
    (s : StepSpec t t' pr pc pr') : Inv t' pr' (pc + 1) (fun i => if i < pr then piv i else pc) := by
  have hn := s.ops.n_eq
  have low := s.ops.low
  have zero := s.ops.zero pc h.pc_le h.zero
  have hle := s.le
  refine ⟨by rw [hn]; exact hle.2.2, by rw [hn]; omega, ?_, ?_, ?_⟩
  · intro i hi
    by_cases hip : i < pr
    · simp only [if_pos hip]
      have hl := h.lead i hip
      have hin : i < t.n := by omega
      refine ⟨by omega, ?_, ?_⟩
      · intro j hj; rw [low i hip hin j (by omega)]; exact hl.2.1 j hj
      · rw [low i hip hin _ (by omega)]; exact hl.2.2
    · simp only [if_neg hip]
      refine ⟨by omega, ?_, ?_⟩
      · intro j hj; exact zero i (by omega) (by omega) j hj
      · exact s.lead i (by omega) hi
  · intro i k hik hk
    by_cases hkp : k < pr
    · have hip : i < pr := by omega
      simp only [if_pos hkp, if_pos hip]
      have hs := h.sorted i k hik hkp
      refine ⟨hs.1, fun e => ⟨(hs.2 e).1, ?_⟩⟩
      have hl := h.lead i hip
      rw [low i hip (by omega) _ (by omega), low k hkp (by omega) _ (by omega)]
      exact (hs.2 e).2
    · simp only [if_neg hkp]
      by_cases hip : i < pr
      · simp only [if_pos hip]
        have hl := h.lead i hip
        exact ⟨by omega, fun e => by omega⟩
      · simp only [if_neg hip]
        refine ⟨Nat.le_refl _, fun _ => ?_⟩
        have e1 : i = pr := by omega
        have e2 : k = pr + 1 := by omega
        subst e1; subst e2
        exact ⟨rfl, s.two (by omega)⟩
  · intro i hi hin j hj
    rw [hn] at hin
    by_cases hjc : j < pc
    · exact zero i (by omega) hin j hjc
    · have : j = pc := by omega
      subst this
      exact s.rest i hi hin

/-- the loop of `rref` keeps the invariant and stops only when the rows or the columns are exhausted; every step is a
    sequence of invertible row operations -/
theorem rrefLoop_inv (fuel : Nat) (t : STab) (pr pc : Nat) (brs : List String) (piv : Nat → Nat)
    (t' : STab) (pr' pc' : Nat) (brs' : List String) (h : Inv t pr pc piv) (hf : t.n + 1 ≤ fuel + pc)
    (hr : rrefLoop fuel t pr pc brs = .ok (t', pr', pc', brs')) :
    ∃ piv', Inv t' pr' pc' piv' ∧ (t'.n ≤ pr' ∨ t'.n ≤ pc') ∧ Ops 0 t t' := by
  induction fuel generalizing t pr pc brs piv with
  | zero =>
    simp only [rrefLoop] at hr
    simp only [Except.ok.injEq, Prod.mk.injEq] at hr
    obtain ⟨rfl, rfl, rfl, _⟩ := hr
    exact ⟨piv, h, Or.inr (by omega), Ops.refl⟩
  | succ fuel ih =>
    simp only [rrefLoop] at hr
    split at hr
    · next hb =>
      split at hr
      · cases hr
      · next t1 pr1 pc1 b hs =>
        have sp := oneStepRref_spec t t1 pr pc pr1 pc1 b (by omega) (by omega) hs
        obtain ⟨sp, rfl⟩ := sp
        have h1 := h.step (by omega) (by omega) sp
        have hn := sp.ops.n_eq
        obtain ⟨piv', i1, i2, i3⟩ := ih t1 pr1 (pc + 1) _ _ h1 (by rw [hn]; omega) hr
        refine ⟨piv', i1, i2, Ops.trans ?_ i3⟩
        exact Ops.mono (Nat.zero_le _) sp.ops
    · simp only [Except.ok.injEq, Prod.mk.injEq] at hr
      obtain ⟨rfl, rfl, rfl, _⟩ := hr
      exact ⟨piv, h, by omega, Ops.refl⟩

/-! ### the result of `rref` -/

/-- **echelon form** (New J. Phys. 7, 170 (2005), as produced by `rref`): every generator `i` has a leading (leftmost
    non-identity) site `piv i`; leading sites are non-decreasing down the rows; at most two generators share a leading site,
    they are adjacent and carry two different Paulis there -/
structure Echelon (t : STab) (piv : Nat → Nat) : Prop where
  lead : ∀ i, i < t.n → piv i < t.n ∧ (∀ j, j < piv i → t.ptype i j = 0) ∧ t.ptype i (piv i) ≠ 0
  sorted : ∀ i k, i < k → k < t.n →
    piv i ≤ piv k ∧ (piv i = piv k → k = i + 1 ∧ t.ptype i (piv i) ≠ t.ptype k (piv i))

/-- `rref` is a sequence of row swaps and products of two distinct rows -/
theorem rref_ops (t t' : STab) (brs : List String) (hr : t.rref = .ok (t', brs)) : Ops 0 t t' := by
  unfold rref at hr
  split at hr
  · cases hr
  · next t1 pr1 pc1 brs1 hl =>
    split at hr
    · simp only [Except.ok.injEq, Prod.mk.injEq] at hr
      obtain ⟨rfl, _⟩ := hr
      obtain ⟨_, _, _, o⟩ := rrefLoop_inv (t.n + 1) t 0 0 [] _ t1 pr1 pc1 brs1 (Inv.init t) (by omega) hl
      exact o
    · cases hr

/-- **`rref` keeps the stabilizer group, signs included** (every n, every real commuting generating set): the echelon form
    generates exactly the signed group of the input, and is again a real commuting set -/
theorem rref_spanEq (t t' : STab) (brs : List String) (hg : t.Good) (hr : t.rref = .ok (t', brs)) :
    SpanEq t t' ∧ t'.Good := (rref_ops t t' brs hr).spanEq hg

/-- **`rref` returns an echelon form**, except that the last row may be trivial (the case `pivot[0] = n - 1` of the final
    assertion, reached when the columns are exhausted first) -/
theorem rref_echelon_or_trivial (t t' : STab) (brs : List String) (hr : t.rref = .ok (t', brs)) :
    (∃ piv, Echelon t' piv) ∨ (0 < t'.n ∧ ∀ j, j < t'.n → t'.ptype (t'.n - 1) j = 0) := by
  unfold rref at hr
  split at hr
  · cases hr
  · next t1 pr1 pc1 brs1 hl =>
    split at hr
    · next hfin =>
      simp only [Except.ok.injEq, Prod.mk.injEq] at hr
      obtain ⟨rfl, _⟩ := hr
      obtain ⟨piv, inv, hex, o⟩ := rrefLoop_inv (t.n + 1) t 0 0 [] _ t1 pr1 pc1 brs1 (Inv.init t) (by omega) hl
      have hn := o.n_eq
      by_cases hfull : t1.n ≤ pr1
      · left
        have e : pr1 = t1.n := Nat.le_antisymm inv.pr_le hfull
        subst e
        refine ⟨piv, ⟨fun i hi => ?_, inv.sorted⟩⟩
        have := inv.lead i hi
        exact ⟨by have := inv.pc_le; omega, this.2.1, this.2.2⟩
      · right
        have hpc : t1.n ≤ pc1 := by omega
        have e : pc1 = t1.n := Nat.le_antisymm inv.pc_le hpc
        subst e
        refine ⟨by omega, fun j hj => inv.zero (t1.n - 1) (by omega) (by omega) j hj⟩
    · cases hr

/-! ### `leftmost_nontrivial_index` on an echelon form -/

theorem leftmost_of_lead (t : STab) (i c : Nat) (hc : c < t.n) (hz : ∀ j, j < c → t.ptype i j = 0) (hl : t.ptype i c ≠ 0) :
    t.leftmost i = some c := by
  unfold leftmost
  rw [List.head?_filter, List.find?_range_eq_some]
  refine ⟨?_, List.mem_range.2 hc, ?_⟩
  · cases h : ((t.row i).x c || (t.row i).z c)
    · exact absurd ((PRow.pt_eq_zero_iff _ _).2 h) hl
    · rfl
  · intro j hj
    have := (PRow.pt_eq_zero_iff (t.row i) j).1 (hz j hj)
    rw [this]; rfl

theorem leftmost_none (t : STab) (i : Nat) (hz : ∀ j, j < t.n → t.ptype i j = 0) : t.leftmost i = none := by
  unfold leftmost
  rw [List.head?_filter, List.find?_range_eq_none]
  intro j hj
  have := (PRow.pt_eq_zero_iff (t.row i) j).1 (hz j hj)
  rw [this]; rfl

theorem mapM_option_some {α : Type} (f : α → Option Nat) (l : List α) (r : List Nat) (h : l.mapM f = some r) :
    r = l.map (fun a => (f a).getD 0) ∧ ∀ a, a ∈ l → (f a).isSome = true := by
  induction l generalizing r with
  | nil =>
    simp only [List.mapM_nil] at h
    injection h with h
    subst h; exact ⟨rfl, fun a ha => by cases ha⟩
  | cons a rest ih =>
    rw [List.mapM_cons] at h
    cases hfa : f a with
    | none => rw [hfa] at h; cases h
    | some b =>
      rw [hfa] at h
      cases hm : rest.mapM f with
      | none => rw [hm] at h; cases h
      | some bs =>
        rw [hm] at h
        have e : r = b :: bs := by
          have : some (b :: bs) = some r := h
          injection this with this; exact this.symm
        have := ih bs hm
        subst e
        refine ⟨by simp [hfa, this.1], ?_⟩
        intro x hx
        rcases List.mem_cons.1 hx with e | e
        · subst e; rw [hfa]; rfl
        · exact this.2 x e

end STab
end Graphiq
